/-
Helper lemmas for the reference constructions (`unionA`, `concatA`, `starA`, `complementRef`):
runs through embedded copies, well-formedness of `ofParts` / `complementRaw`, and the shape of the
determinised automaton with canonical subsets as state names.
-/
import Pfl.Oracle.RegOps
import Pfl.Proofs.FABase
import Pfl.Proofs.FADet
import Pfl.Proofs.FABool
import Pfl.Proofs.FAEpsCopy
import Pfl.Proofs.FAOracle
namespace Pfl
namespace ENFA
set_option linter.unusedSectionVars false
variable {σ τ ρ : Type} [DecidableEq σ] [DecidableEq τ]

/-! ### embedded copies -/

/-- every edge of `A` is present in `K` after renaming by `f` ⇒ so is every run -/
theorem Run.embed {σ ρ : Type} {A : ENFA σ} {K : ENFA ρ} (f : σ → ρ)
    (h : ∀ q a r, (q, a, r) ∈ A.delta → (f q, a, f r) ∈ K.delta) {q r : σ} {w : List Nat}
    (hr : A.Run q w r) : K.Run (f q) w (f r) := by
  induction hr with
  | nil q => exact Run.nil _
  | eps he _ ih => exact Run.eps (h _ _ _ he) ih
  | step he _ ih => exact Run.step (h _ _ _ he) ih

/-- the copy of `A` inside `K` is closed: the edges of `K` out of `f q` are exactly the renamed
edges of `A` out of `q`.  Then runs from `f q` are exactly the renamed runs of `A`. -/
theorem run_embed_iff {σ ρ : Type} {A : ENFA σ} {K : ENFA ρ} (f : σ → ρ)
    (h : ∀ q a x, (f q, a, x) ∈ K.delta ↔ ∃ r, x = f r ∧ (q, a, r) ∈ A.delta)
    (q : σ) (w : List Nat) (x : ρ) :
    K.Run (f q) w x ↔ ∃ r, x = f r ∧ A.Run q w r := by
  constructor
  · intro hr
    generalize hy : f q = y at hr
    induction hr generalizing q with
    | nil y => exact ⟨q, hy.symm, Run.nil q⟩
    | eps he _ ih =>
      subst hy
      obtain ⟨r, rfl, he'⟩ := (h _ _ _).mp he
      obtain ⟨r', hx, hr'⟩ := ih r rfl
      exact ⟨r', hx, Run.eps he' hr'⟩
    | step he _ ih =>
      subst hy
      obtain ⟨r, rfl, he'⟩ := (h _ _ _).mp he
      obtain ⟨r', hx, hr'⟩ := ih r rfl
      exact ⟨r', hx, Run.step he' hr'⟩
  · rintro ⟨r, rfl, hr⟩
    exact Run.embed f (fun q a r he => (h q a (f r)).mpr ⟨r, rfl, he⟩) hr

/-! ### `unionA` -/

omit [DecidableEq σ] [DecidableEq τ] in
theorem mem_unionA_delta_inl (A : ENFA σ) (B : ENFA τ) (q : σ) (a : Option Nat) (x : σ ⊕ τ) :
    (Sum.inl q, a, x) ∈ (A.unionA B).delta ↔ ∃ r, x = Sum.inl r ∧ (q, a, r) ∈ A.delta := by
  simp only [unionA, List.mem_append, List.mem_map, inlT, inrT, Prod.mk.injEq, Sum.inl.injEq,
    reduceCtorEq, false_and, and_false, exists_false, or_false]
  constructor
  · rintro ⟨⟨q', a', r'⟩, ht, rfl, rfl, rfl⟩; exact ⟨r', rfl, ht⟩
  · rintro ⟨r, rfl, ht⟩; exact ⟨(q, a, r), ht, rfl, rfl, rfl⟩

omit [DecidableEq σ] [DecidableEq τ] in
theorem mem_unionA_delta_inr (A : ENFA σ) (B : ENFA τ) (q : τ) (a : Option Nat) (x : σ ⊕ τ) :
    (Sum.inr q, a, x) ∈ (A.unionA B).delta ↔ ∃ r, x = Sum.inr r ∧ (q, a, r) ∈ B.delta := by
  simp only [unionA, List.mem_append, List.mem_map, inlT, inrT, Prod.mk.injEq, Sum.inr.injEq,
    reduceCtorEq, false_and, and_false, exists_false, false_or]
  constructor
  · rintro ⟨⟨q', a', r'⟩, ht, rfl, rfl, rfl⟩; exact ⟨r', rfl, ht⟩
  · rintro ⟨r, rfl, ht⟩; exact ⟨(q, a, r), ht, rfl, rfl, rfl⟩

/-! ### `concatA` -/

omit [DecidableEq σ] [DecidableEq τ] in
theorem mem_concatA_delta_inl (A : ENFA σ) (B : ENFA τ) (q : σ) (a : Option Nat) (x : σ ⊕ τ) :
    (Sum.inl q, a, x) ∈ (A.concatA B).delta ↔
      (∃ r, x = Sum.inl r ∧ (q, a, r) ∈ A.delta) ∨
      (∃ s, x = Sum.inr s ∧ a = none ∧ q ∈ A.finals ∧ s ∈ B.starts) := by
  simp only [concatA, List.mem_append, List.mem_map, List.mem_flatMap, inlT, inrT, Prod.mk.injEq,
    Sum.inl.injEq, reduceCtorEq, false_and, and_false, exists_false, or_false]
  constructor
  · rintro (⟨⟨q', a', r'⟩, ht, rfl, rfl, rfl⟩ | ⟨f, hf, s, hs, rfl, rfl, rfl⟩)
    · exact Or.inl ⟨r', rfl, ht⟩
    · exact Or.inr ⟨s, rfl, rfl, hf, hs⟩
  · rintro (⟨r, rfl, ht⟩ | ⟨s, rfl, rfl, hf, hs⟩)
    · exact Or.inl ⟨(q, a, r), ht, rfl, rfl, rfl⟩
    · exact Or.inr ⟨q, hf, s, hs, rfl, rfl, rfl⟩

omit [DecidableEq σ] [DecidableEq τ] in
theorem mem_concatA_delta_inr (A : ENFA σ) (B : ENFA τ) (q : τ) (a : Option Nat) (x : σ ⊕ τ) :
    (Sum.inr q, a, x) ∈ (A.concatA B).delta ↔ ∃ r, x = Sum.inr r ∧ (q, a, r) ∈ B.delta := by
  simp only [concatA, List.mem_append, List.mem_map, List.mem_flatMap, inlT, inrT, Prod.mk.injEq,
    Sum.inr.injEq, reduceCtorEq, false_and, and_false, exists_false, false_or, or_false]
  constructor
  · rintro ⟨⟨q', a', r'⟩, ht, rfl, rfl, rfl⟩; exact ⟨r', rfl, ht⟩
  · rintro ⟨r, rfl, ht⟩; exact ⟨(q, a, r), ht, rfl, rfl, rfl⟩

omit [DecidableEq σ] [DecidableEq τ] in
/-- a run from the left copy to the right copy crosses exactly one bridge -/
theorem concatA_run_split (A : ENFA σ) (B : ENFA τ) {x y : σ ⊕ τ} {w : List Nat}
    (hr : (A.concatA B).Run x w y) : ∀ q r, x = Sum.inl q → y = Sum.inr r →
      ∃ u v f s, w = u ++ v ∧ A.Run q u f ∧ f ∈ A.finals ∧ s ∈ B.starts ∧ B.Run s v r := by
  induction hr with
  | nil x => intro q r h1 h2; rw [h1] at h2; cases h2
  | eps he hrest ih =>
    intro q r h1 h2
    subst h1
    rcases (mem_concatA_delta_inl A B _ _ _).mp he with ⟨q', rfl, he'⟩ | ⟨s, rfl, _, hf, hs⟩
    · obtain ⟨u, v, f, s, hw, hu, hf, hs, hv⟩ := ih q' r rfl h2
      exact ⟨u, v, f, s, hw, Run.eps he' hu, hf, hs, hv⟩
    · subst h2
      obtain ⟨r', hr', hv⟩ :=
        (run_embed_iff (A := B) (K := A.concatA B) Sum.inr (mem_concatA_delta_inr A B) s _ _).mp hrest
      cases hr'
      exact ⟨[], _, q, s, rfl, Run.nil q, hf, hs, hv⟩
  | step he hrest ih =>
    intro q r h1 h2
    subst h1
    rcases (mem_concatA_delta_inl A B _ _ _).mp he with ⟨q', rfl, he'⟩ | ⟨s, _, h, _⟩
    · obtain ⟨u, v, f, s, hw, hu, hf, hs, hv⟩ := ih q' r rfl h2
      exact ⟨_ :: u, v, f, s, by rw [hw]; rfl, Run.step he' hu, hf, hs, hv⟩
    · cases h

/-! ### `starA` -/

omit [DecidableEq σ] in
theorem mem_starA_delta (A : ENFA σ) (x y : Option σ) (a : Option Nat) :
    (x, a, y) ∈ A.starA.delta ↔
      (∃ q r, x = some q ∧ y = some r ∧ (q, a, r) ∈ A.delta) ∨
      (∃ s, x = none ∧ a = none ∧ y = some s ∧ s ∈ A.starts) ∨
      (∃ f, x = some f ∧ a = none ∧ y = none ∧ f ∈ A.finals) := by
  simp only [starA, List.mem_append, List.mem_map, Prod.mk.injEq]
  constructor
  · rintro ((⟨⟨q, a', r⟩, ht, rfl, rfl, rfl⟩ | ⟨s, hs, rfl, rfl, rfl⟩) | ⟨f, hf, rfl, rfl, rfl⟩)
    · exact Or.inl ⟨q, r, rfl, rfl, ht⟩
    · exact Or.inr (Or.inl ⟨s, rfl, rfl, rfl, hs⟩)
    · exact Or.inr (Or.inr ⟨f, rfl, rfl, rfl, hf⟩)
  · rintro (⟨q, r, rfl, rfl, ht⟩ | ⟨s, rfl, rfl, rfl, hs⟩ | ⟨f, rfl, rfl, rfl, hf⟩)
    · exact Or.inl (Or.inl ⟨(q, a, r), ht, rfl, rfl, rfl⟩)
    · exact Or.inl (Or.inr ⟨s, hs, rfl, rfl, rfl⟩)
    · exact Or.inr ⟨f, hf, rfl, rfl, rfl⟩

/-- what a run of `starA` ending in the hub `none` spells -/
def StarDecomp (A : ENFA σ) (x : Option σ) (w : List Nat) : Prop :=
  match x with
  | some q => ∃ u ws f, w = u ++ List.flatten ws ∧ A.Run q u f ∧ f ∈ A.finals ∧ ∀ v ∈ ws, A.Lang v
  | none => ∃ ws : List (List Nat), w = ws.flatten ∧ ∀ v ∈ ws, A.Lang v

omit [DecidableEq σ] in
theorem starA_run_decomp (A : ENFA σ) {x y : Option σ} {w : List Nat}
    (hr : A.starA.Run x w y) : y = none → A.StarDecomp x w := by
  induction hr with
  | nil x =>
    intro hy; subst hy
    exact ⟨[], rfl, fun v hv => by cases hv⟩
  | eps he _ ih =>
    intro hy
    have ih := ih hy
    rcases (mem_starA_delta A _ _ _).mp he with
      ⟨q, r, rfl, rfl, ht⟩ | ⟨s, rfl, _, rfl, hs⟩ | ⟨f, rfl, _, rfl, hf⟩
    · obtain ⟨u, ws, f, hw, hu, hf, hws⟩ := ih
      exact ⟨u, ws, f, hw, Run.eps ht hu, hf, hws⟩
    · obtain ⟨u, ws, f, hw, hu, hf, hws⟩ := ih
      refine ⟨u :: ws, by rw [hw]; rfl, ?_⟩
      intro v hv
      rcases List.mem_cons.mp hv with rfl | hv
      · exact ⟨s, hs, f, hf, hu⟩
      · exact hws v hv
    · obtain ⟨ws, hw, hws⟩ := ih
      exact ⟨[], ws, f, by rw [hw]; rfl, Run.nil f, hf, hws⟩
  | step he _ ih =>
    intro hy
    have ih := ih hy
    rcases (mem_starA_delta A _ _ _).mp he with
      ⟨q, r, rfl, rfl, ht⟩ | ⟨s, _, h, _⟩ | ⟨f, _, h, _⟩
    · obtain ⟨u, ws, f, hw, hu, hf, hws⟩ := ih
      exact ⟨_ :: u, ws, f, by rw [hw]; rfl, Run.step ht hu, hf, hws⟩
    · cases h
    · cases h

theorem starA_run_of_words (A : ENFA σ) (ws : List (List Nat)) (h : ∀ v ∈ ws, A.Lang v) :
    A.starA.Run none ws.flatten none := by
  induction ws with
  | nil => exact Run.nil none
  | cons v ws ih =>
    obtain ⟨s, hs, f, hf, hr⟩ := h v List.mem_cons_self
    have hrest := ih (fun x hx => h x (List.mem_cons_of_mem _ hx))
    have h1 : A.starA.Run (some s) v (some f) :=
      Run.embed (K := A.starA) some
        (fun q a r he => (mem_starA_delta A _ _ _).mpr (Or.inl ⟨q, r, rfl, rfl, he⟩)) hr
    have h2 : A.starA.Run (some f) ws.flatten none :=
      Run.eps ((mem_starA_delta A _ _ _).mpr (Or.inr (Or.inr ⟨f, rfl, rfl, rfl, hf⟩))) hrest
    rw [List.flatten_cons]
    exact Run.eps ((mem_starA_delta A _ _ _).mpr (Or.inr (Or.inl ⟨s, rfl, rfl, rfl, hs⟩)))
      (Run.append h1 h2)

/-! ### well-formedness of `ofParts`, `addSyms`, `complementRaw` -/

theorem mem_ofParts_states (s f : List σ) (d : List (σ × Option Nat × σ)) (q : σ) :
    q ∈ (ofParts s f d).states ↔ q ∈ s ∨ q ∈ f ∨ ∃ t ∈ d, q = t.1 ∨ q = t.2.2 := by
  simp only [ofParts, List.mem_eraseDups, List.mem_append, List.mem_flatMap, List.mem_cons,
    List.not_mem_nil, or_false, or_assoc]

theorem mem_ofParts_syms (s f : List σ) (d : List (σ × Option Nat × σ)) (a : Nat) :
    a ∈ (ofParts s f d).syms ↔ ∃ t ∈ d, t.2.1 = some a := by
  simp only [ofParts, List.mem_eraseDups, List.mem_filterMap]

theorem ofParts_wf (s f : List σ) (d : List (σ × Option Nat × σ)) : (ofParts s f d).WF := by
  refine ⟨?_, ?_, ?_, ?_, ?_⟩
  · intro q hq
    exact (mem_ofParts_states s f d q).mpr (Or.inl ((mem_ofParts_starts s f d q).mp hq))
  · intro q hq
    exact (mem_ofParts_states s f d q).mpr (Or.inr (Or.inl ((mem_ofParts_finals s f d q).mp hq)))
  · intro t ht
    exact (mem_ofParts_states s f d _).mpr
      (Or.inr (Or.inr ⟨t, (mem_ofParts_delta s f d t).mp ht, Or.inl rfl⟩))
  · intro t ht
    exact (mem_ofParts_states s f d _).mpr
      (Or.inr (Or.inr ⟨t, (mem_ofParts_delta s f d t).mp ht, Or.inr rfl⟩))
  · intro t ht a ha
    exact (mem_ofParts_syms s f d a).mpr ⟨t, (mem_ofParts_delta s f d t).mp ht, ha⟩

theorem addSyms_wf' (A : ENFA σ) (hA : A.WF) (syms : List Nat) : (A.addSyms syms).WF := by
  refine ⟨hA.starts_sub, hA.finals_sub, hA.delta_src, hA.delta_dst, ?_⟩
  intro t ht a ha
  simp only [addSyms, List.mem_eraseDups, List.mem_append]
  exact Or.inl (hA.delta_sym t ht a ha)

theorem complementRaw_wf (A C : ENFA σ) (hC : C.WF) (trash : σ) :
    (A.complementRaw C trash).WF := by
  refine ⟨?_, ?_, ?_, ?_, ?_⟩
  · intro q hq
    simp only [complementRaw, List.mem_eraseDups, List.mem_append]
    exact Or.inl (Or.inl (hC.starts_sub q hq))
  · intro q hq
    simp only [complementRaw, List.mem_eraseDups, List.mem_append, List.mem_filter,
      List.mem_cons, List.not_mem_nil, or_false] at hq ⊢
    rcases hq with ⟨h | h, _⟩ | ⟨h, _⟩
    · exact Or.inl (Or.inr h)
    · exact Or.inl (Or.inl (hC.finals_sub q h))
    · exact Or.inr h
  · intro t ht
    simp only [complementRaw, List.mem_eraseDups, List.mem_append, List.mem_flatMap,
      List.mem_filterMap, List.mem_map, List.mem_cons, List.not_mem_nil, or_false] at ht ⊢
    rcases ht with (h | ⟨q, hq, a, ha, heq⟩) | ⟨a, ha, rfl⟩
    · exact Or.inl (Or.inl (hC.delta_src t h))
    · split at heq
      · cases heq; exact Or.inr hq
      · cases heq
    · exact Or.inl (Or.inr rfl)
  · intro t ht
    simp only [complementRaw, List.mem_eraseDups, List.mem_append, List.mem_flatMap,
      List.mem_filterMap, List.mem_map, List.mem_cons, List.not_mem_nil, or_false] at ht ⊢
    rcases ht with (h | ⟨q, hq, a, ha, heq⟩) | ⟨a, ha, rfl⟩
    · exact Or.inl (Or.inl (hC.delta_dst t h))
    · split at heq
      · cases heq; exact Or.inl (Or.inr rfl)
      · cases heq
    · exact Or.inl (Or.inr rfl)
  · intro t ht b hb
    simp only [complementRaw, List.mem_eraseDups, List.mem_append, List.mem_flatMap,
      List.mem_filterMap, List.mem_map] at ht ⊢
    rcases ht with (h | ⟨q, hq, a, ha, heq⟩) | ⟨a, ha, rfl⟩
    · exact Or.inl (hC.delta_sym t h b hb)
    · split at heq
      · cases heq; cases hb; exact Or.inr ha
      · cases heq
    · cases hb; exact Or.inr ha

/-! ### the determinised automaton with canonical subsets as names -/

theorem canonS_keyInj' (A : ENFA σ) : A.KeyInj A.canonS := by
  intro S T hS hT h q
  constructor
  · intro hq
    have : q ∈ A.canonS S := (mem_canonS A S q).mpr ⟨hS q hq, hq⟩
    rw [h] at this
    exact ((mem_canonS A T q).mp this).2
  · intro hq
    have : q ∈ A.canonS T := (mem_canonS A T q).mpr ⟨hT q hq, hq⟩
    rw [← h] at this
    exact ((mem_canonS A S q).mp this).2

/-- every state of the determinised automaton is a canonical subset -/
theorem detOf_states_canon (A : ENFA σ) (useE : Bool) (seen : List (List σ)) (k : List σ)
    (hk : k ∈ (A.detOf A.canonS useE seen).states) : ∃ S, k = A.canonS S := by
  unfold detOf at hk
  rcases (mem_ofParts_states _ _ _ k).mp hk with h | h | ⟨t, ht, h⟩
  · exact ⟨_, List.mem_singleton.mp h⟩
  · obtain ⟨S, _, rfl⟩ := List.mem_map.mp h
    exact ⟨S, rfl⟩
  · have ht' : t ∈ (A.detOf A.canonS useE seen).delta := (mem_ofParts_delta _ _ _ t).mpr ht
    obtain ⟨S, _, a, _, _, rfl⟩ := (mem_detOf_delta A A.canonS useE seen t).mp ht'
    rcases h with h | h
    · exact ⟨S, h⟩
    · exact ⟨_, h⟩

theorem detOf_syms_sub (A : ENFA σ) (key : List σ → τ) (useE : Bool) (seen : List (List σ))
    (a : Nat) (ha : a ∈ (A.detOf key useE seen).syms) : a ∈ A.syms := by
  unfold detOf at ha
  obtain ⟨t, ht, hta⟩ := (mem_ofParts_syms _ _ _ a).mp ha
  have ht' : t ∈ (A.detOf key useE seen).delta := (mem_ofParts_delta _ _ _ t).mpr ht
  obtain ⟨S, _, a', ha', _, rfl⟩ := (mem_detOf_delta A key useE seen t).mp ht'
  cases hta
  exact ha'

end ENFA
end Pfl
