/-
Specification of `copy` (deep copy with memo, preserving sharing) of the Earley model (C18).
-/
import Pfl.Proofs.EarleyLemmasDefs
import Mathlib.Data.List.Nodup
namespace Pfl
namespace Earley
namespace Lem
open FsDag FsDag.Lem

namespace Copy

/-- one step of the content loop of `copyF` for the in-progress object `n` -/
def stepC (f n : Nat) (acc : Store × List (Nat × Nat)) (fc : String × Nat) :
    Store × List (Nat × Nat) :=
  ((copyF f acc.1 acc.2 fc.2).1.set n
    { get (copyF f acc.1 acc.2 fc.2).1 n with
      content := (get (copyF f acc.1 acc.2 fc.2).1 n).content ++ [(fc.1, (copyF f acc.1 acc.2 fc.2).2.2)] },
   (copyF f acc.1 acc.2 fc.2).2.1)

/-- the pointer step of `copyF` for the in-progress object `n` -/
def stepP (f n : Nat) (st : Store) (memo : List (Nat × Nat)) : Option Nat → Store × List (Nat × Nat)
  | some p => ((copyF f st memo p).1.set n
      { get (copyF f st memo p).1 n with pointer := some (copyF f st memo p).2.2 },
      (copyF f st memo p).2.1)
  | none => (st, memo)

theorem copyF_zero (st : Store) (memo : List (Nat × Nat)) (i : Nat) :
    copyF 0 st memo i = (st, memo, i) := rfl

theorem copyF_succ_some {f : Nat} {st : Store} {memo : List (Nat × Nat)} {i : Nat} {e : Nat × Nat}
    (h : memo.find? (·.1 = i) = some e) : copyF (f + 1) st memo i = (st, memo, e.2) := by
  rw [copyF]; simp only [h]

theorem copyF_succ_none {f : Nat} {st : Store} {memo : List (Nat × Nat)} {i : Nat}
    (h : memo.find? (·.1 = i) = none) :
    copyF (f + 1) st memo i =
      (((cont st i).foldl (stepC f st.length)
          (stepP f st.length (st ++ [{ value := val st (deref st i), content := [], pointer := none }])
            memo (ptr st i))).1,
       ((cont st i).foldl (stepC f st.length)
          (stepP f st.length (st ++ [{ value := val st (deref st i), content := [], pointer := none }])
            memo (ptr st i))).2 ++ [(i, st.length)],
       st.length) := by
  rw [copyF]; simp only [h, alloc]
  have e : ptr st i = (get st i).pointer := rfl
  rw [e]
  cases (get st i).pointer <;> rfl

/-! ### memo lookup -/

/-- the copy registered for `x` in the memo -/
def look (memo : List (Nat × Nat)) (x : Nat) : Nat := ((memo.find? (·.1 = x)).map (·.2)).getD 0

theorem find_none_iff {memo : List (Nat × Nat)} {x : Nat} :
    memo.find? (·.1 = x) = none ↔ x ∉ memo.map Prod.fst := by
  simp only [List.find?_eq_none, decide_eq_true_eq, List.mem_map, not_exists, not_and]

theorem look_of_find {memo : List (Nat × Nat)} {x : Nat} {e : Nat × Nat}
    (h : memo.find? (·.1 = x) = some e) : e ∈ memo ∧ e.1 = x ∧ look memo x = e.2 := by
  refine ⟨List.mem_of_find?_eq_some h, by simpa using List.find?_some h, ?_⟩
  simp [look, h]

theorem look_append_key {memo : List (Nat × Nat)} {x : Nat} (new : List (Nat × Nat))
    (h : x ∈ memo.map Prod.fst) : look (memo ++ new) x = look memo x := by
  cases hf : memo.find? (·.1 = x) with
  | none => exact absurd h (find_none_iff.1 hf)
  | some e => simp [look, List.find?_append, hf]

theorem look_of_mem {memo : List (Nat × Nat)} (hnd : (memo.map Prod.fst).Nodup) {e : Nat × Nat}
    (h : e ∈ memo) : look memo e.1 = e.2 := by
  induction memo with
  | nil => simp at h
  | cons a memo ih =>
    simp only [List.map_cons, List.nodup_cons] at hnd
    rcases List.mem_cons.1 h with rfl | h
    · simp [look]
    · have hne : a.1 ≠ e.1 := fun hc => hnd.1 (hc ▸ List.mem_map_of_mem h)
      have := ih hnd.2 h
      simp only [look, List.find?_cons, hne, decide_false] at this ⊢
      exact this

theorem key_of_mem {memo : List (Nat × Nat)} {e : Nat × Nat} (h : e ∈ memo) :
    e.1 ∈ memo.map Prod.fst := List.mem_map_of_mem h

theorem ext_of_frame {st st' : Store} (hlen : st.length ≤ st'.length)
    (h : ∀ k, k < st.length → get st' k = get st k) : ∃ e, st' = st ++ e := by
  refine ⟨st'.drop st.length, ?_⟩
  apply List.ext_getElem
  · simp; omega
  · intro k h1 h2
    by_cases hk : k < st.length
    · rw [List.getElem_append_left hk, ← get_lt h1, ← get_lt hk]; exact h k hk
    · rw [List.getElem_append_right (by omega), List.getElem_drop]
      congr 1; omega

/-! ### the invariant -/

structure EntryOK (st0 st : Store) (memo : List (Nat × Nat)) (e : Nat × Nat) : Prop where
  key_lt : e.1 < st0.length
  rng : st0.length ≤ e.2 ∧ e.2 < st.length
  cl_ptr : ∀ p, ptr st0 e.1 = some p → p ∈ memo.map Prod.fst
  cl_cont : ∀ g x, (g, x) ∈ cont st0 e.1 → x ∈ memo.map Prod.fst
  node : get st e.2 =
    { value := val st0 (deref st0 e.1),
      content := (cont st0 e.1).map (fun c => (c.1, look memo c.2)),
      pointer := (ptr st0 e.1).map (look memo) }

structure Inv (st0 st : Store) (memo : List (Nat × Nat)) : Prop where
  len : st0.length ≤ st.length
  old : ∀ k, k < st0.length → get st k = get st0 k
  ent : ∀ e ∈ memo, EntryOK st0 st memo e
  ndk : (memo.map Prod.fst).Nodup
  ndv : (memo.map Prod.snd).Nodup

/-- the node of a copy, with the children looked up in a memo containing them, is stable -/
theorem node_congr {memo : List (Nat × Nat)} (new : List (Nat × Nat))
    (v : Option String) (cs : List (String × Nat)) (pd : Option Nat)
    (hc : ∀ c ∈ cs, c.2 ∈ memo.map Prod.fst) (hp : ∀ p, pd = some p → p ∈ memo.map Prod.fst) :
    ({ value := v, content := cs.map (fun c => (c.1, look (memo ++ new) c.2)),
       pointer := pd.map (look (memo ++ new)) } : Node) =
    { value := v, content := cs.map (fun c => (c.1, look memo c.2)), pointer := pd.map (look memo) } := by
  have h1 : cs.map (fun c => (c.1, look (memo ++ new) c.2)) = cs.map (fun c => (c.1, look memo c.2)) :=
    List.map_congr_left (fun c hcm => by rw [look_append_key new (hc c hcm)])
  have h2 : pd.map (look (memo ++ new)) = pd.map (look memo) := by
    cases pd with
    | none => rfl
    | some p => simp only [Option.map_some]; rw [look_append_key new (hp p rfl)]
  rw [h1, h2]

theorem EntryOK.mono {st0 st st' : Store} {memo : List (Nat × Nat)} {e : Nat × Nat}
    (h : EntryOK st0 st memo e) (hlen : st.length ≤ st'.length) (hg : get st' e.2 = get st e.2)
    (new : List (Nat × Nat)) : EntryOK st0 st' (memo ++ new) e := by
  constructor
  · exact h.key_lt
  · exact ⟨h.rng.1, Nat.lt_of_lt_of_le h.rng.2 hlen⟩
  · intro p hp; rw [List.map_append]; exact List.mem_append_left _ (h.cl_ptr p hp)
  · intro g x hx; rw [List.map_append]; exact List.mem_append_left _ (h.cl_cont g x hx)
  · rw [hg, h.node]
    exact (node_congr new _ _ _ (fun c hc => h.cl_cont c.1 c.2 hc) h.cl_ptr).symm

theorem EntryOK.mono' {st0 st st' : Store} {memo : List (Nat × Nat)} {e : Nat × Nat}
    (h : EntryOK st0 st memo e) (hlen : st.length ≤ st'.length) (hg : get st' e.2 = get st e.2) :
    EntryOK st0 st' memo e := by
  have := h.mono hlen hg []
  rwa [List.append_nil] at this

theorem Inv.deref_old {st0 st : Store} {memo : List (Nat × Nat)} (hr : Rng st0) (ha : Acyc st0)
    (h : Inv st0 st memo) {i : Nat} (hi : i < st0.length) : deref st i = deref st0 i :=
  deref_frame ha h.len (· < st0.length) (fun j hj => by rw [ptr, h.old j hj])
    (fun j j2 _ hp => hr.p j j2 hp) i hi

/-- result of a call `copyF f st memo i = (st', memo', c)` -/
structure Post (Lt : Nat → Nat → Prop) (st0 st : Store) (memo : List (Nat × Nat)) (i : Nat)
    (st' : Store) (memo' : List (Nat × Nat)) (c : Nat) : Prop where
  inv : Inv st0 st' memo'
  len : st.length ≤ st'.length
  frame : ∀ k, k < st.length → get st' k = get st k
  new : ∃ new, memo' = memo ++ new ∧
    (∀ x, x ∈ new.map Prod.snd ↔ st.length ≤ x ∧ x < st'.length) ∧
    (∀ x ∈ new.map Prod.fst, x = i ∨ Lt x i)
  key : i ∈ memo'.map Prod.fst
  res : look memo' i = c

/-- state while the object `sta.length` (the copy of `i`) is in progress -/
structure Prog (Lt : Nat → Nat → Prop) (st0 sta : Store) (memoa : List (Nat × Nat)) (i : Nat)
    (pd : Option Nat) (done : List (String × Nat)) (st : Store) (memo : List (Nat × Nat)) : Prop where
  inv : Inv st0 st memo
  lenL : st0.length ≤ sta.length
  lt : sta.length < st.length
  frame : ∀ k, k < sta.length → get st k = get sta k
  olda : ∀ e ∈ memoa, e.2 < sta.length
  new : ∃ new, memo = memoa ++ new ∧
    (∀ x, x ∈ new.map Prod.snd ↔ sta.length < x ∧ x < st.length) ∧
    (∀ x ∈ new.map Prod.fst, Lt x i)
  node : get st sta.length =
    { value := val st0 (deref st0 i),
      content := done.map (fun c => (c.1, look memo c.2)),
      pointer := pd.map (look memo) }
  kp : ∀ p, pd = some p → p ∈ memo.map Prod.fst
  kd : ∀ c ∈ done, c.2 ∈ memo.map Prod.fst

theorem prog_init {Lt : Nat → Nat → Prop} {st0 sta : Store} {memoa : List (Nat × Nat)} (i : Nat)
    (h : Inv st0 sta memoa) :
    Prog Lt st0 sta memoa i none []
      (sta ++ [{ value := val st0 (deref st0 i), content := [], pointer := none }]) memoa := by
  have hL := h.len
  constructor
  · constructor
    · simp only [List.length_append, List.length_singleton]; omega
    · intro k hk; rw [get_append_lt _ (by omega)]; exact h.old k hk
    · intro e he
      exact (h.ent e he).mono' (by simp) (get_append_lt _ (h.ent e he).rng.2)
    · exact h.ndk
    · exact h.ndv
  · exact h.len
  · simp
  · intro k hk; exact get_append_lt _ hk
  · intro e he; exact (h.ent e he).rng.2
  · refine ⟨[], by simp, ?_, by simp⟩
    intro x; simp only [List.map_nil, List.not_mem_nil, List.length_append, List.length_singleton,
      false_iff]; omega
  · rw [get_append_len]; rfl
  · intro p hp; cases hp
  · intro c hc; cases hc

theorem prog_call {Lt : Nat → Nat → Prop} (htr : ∀ a b c, Lt a b → Lt b c → Lt a c)
    {st0 sta : Store} {memoa : List (Nat × Nat)} {i : Nat} {pd : Option Nat}
    {done : List (String × Nat)} {st : Store} {memo : List (Nat × Nat)} {c : Nat} {st' : Store}
    {memo' : List (Nat × Nat)} {cc : Nat}
    (h : Prog Lt st0 sta memoa i pd done st memo) (hp : Post Lt st0 st memo c st' memo' cc)
    (hc : Lt c i) : Prog Lt st0 sta memoa i pd done st' memo' := by
  obtain ⟨new2, rfl, hv2, hk2⟩ := hp.new
  obtain ⟨new, hm, hv, hk⟩ := h.new
  have hlt := h.lt
  have hlen := hp.len
  constructor
  · exact hp.inv
  · exact h.lenL
  · omega
  · intro k hk'; rw [hp.frame k (by omega)]; exact h.frame k hk'
  · exact h.olda
  · refine ⟨new ++ new2, by rw [hm, List.append_assoc], ?_, ?_⟩
    · intro x; rw [List.map_append, List.mem_append, hv, hv2]; omega
    · intro x hx; rw [List.map_append, List.mem_append] at hx
      rcases hx with hx | hx
      · exact hk x hx
      · rcases hk2 x hx with rfl | hx2
        · exact hc
        · exact htr _ _ _ hx2 hc
  · rw [hp.frame _ h.lt, h.node]; exact (node_congr new2 _ _ _ h.kd h.kp).symm
  · intro p hp'; rw [List.map_append]; exact List.mem_append_left _ (h.kp p hp')
  · intro c hc'; rw [List.map_append]; exact List.mem_append_left _ (h.kd c hc')

theorem Prog.val_ne {Lt : Nat → Nat → Prop}
    {st0 sta : Store} {memoa : List (Nat × Nat)} {i : Nat} {pd : Option Nat}
    {done : List (String × Nat)} {st : Store} {memo : List (Nat × Nat)}
    (h : Prog Lt st0 sta memoa i pd done st memo) : ∀ e ∈ memo, sta.length ≠ e.2 := by
  obtain ⟨new, hm, hv, hk⟩ := h.new
  intro e he
  rw [hm, List.mem_append] at he
  rcases he with he | he
  · have := h.olda e he; omega
  · have := (hv e.2).1 (List.mem_map_of_mem he); omega

theorem prog_set {Lt : Nat → Nat → Prop}
    {st0 sta : Store} {memoa : List (Nat × Nat)} {i : Nat} {pd : Option Nat}
    {done : List (String × Nat)} {st : Store} {memo : List (Nat × Nat)}
    (h : Prog Lt st0 sta memoa i pd done st memo) (pd' : Option Nat) (done' : List (String × Nat))
    (nd' : Node)
    (hnd : nd' = { value := val st0 (deref st0 i),
                   content := done'.map (fun c => (c.1, look memo c.2)),
                   pointer := pd'.map (look memo) })
    (kp' : ∀ p, pd' = some p → p ∈ memo.map Prod.fst)
    (kd' : ∀ c ∈ done', c.2 ∈ memo.map Prod.fst) :
    Prog Lt st0 sta memoa i pd' done' (st.set sta.length nd') memo := by
  have hlt := h.lt
  have hL := h.lenL
  have hne := h.val_ne
  constructor
  · constructor
    · rw [List.length_set]; exact h.inv.len
    · intro k hk; rw [get_set_ne _ (by omega)]; exact h.inv.old k hk
    · intro e he
      exact (h.inv.ent e he).mono' (by simp) (get_set_ne _ (hne e he))
    · exact h.inv.ndk
    · exact h.inv.ndv
  · exact hL
  · rw [List.length_set]; exact hlt
  · intro k hk; rw [get_set_ne _ (by omega)]; exact h.frame k hk
  · exact h.olda
  · rw [List.length_set]; exact h.new
  · rw [get_set_self _ hlt]; exact hnd
  · exact kp'
  · exact kd'

theorem prog_ptr {Lt : Nat → Nat → Prop} (htr : ∀ a b c, Lt a b → Lt b c → Lt a c)
    {st0 sta : Store} {memoa : List (Nat × Nat)} {i : Nat}
    {st : Store} {memo : List (Nat × Nat)} {p : Nat} {st' : Store}
    {memo' : List (Nat × Nat)} {pc : Nat}
    (h : Prog Lt st0 sta memoa i none [] st memo) (hp : Post Lt st0 st memo p st' memo' pc)
    (hc : Lt p i) :
    Prog Lt st0 sta memoa i (some p) []
      (st'.set sta.length { get st' sta.length with pointer := some pc }) memo' := by
  have h1 := prog_call htr h hp hc
  refine prog_set h1 (some p) [] _ ?_ ?_ ?_
  · rw [h1.node]; simp [hp.res]
  · intro q hq; cases hq; exact hp.key
  · intro c hc'; cases hc'

theorem prog_cont {Lt : Nat → Nat → Prop} (htr : ∀ a b c, Lt a b → Lt b c → Lt a c)
    {st0 sta : Store} {memoa : List (Nat × Nat)} {i : Nat} {pd : Option Nat}
    {done : List (String × Nat)} {st : Store} {memo : List (Nat × Nat)} {c : String × Nat}
    {st' : Store} {memo' : List (Nat × Nat)} {cc : Nat}
    (h : Prog Lt st0 sta memoa i pd done st memo) (hp : Post Lt st0 st memo c.2 st' memo' cc)
    (hc : Lt c.2 i) :
    Prog Lt st0 sta memoa i pd (done ++ [c])
      (st'.set sta.length { get st' sta.length with
        content := (get st' sta.length).content ++ [(c.1, cc)] }) memo' := by
  have h1 := prog_call htr h hp hc
  refine prog_set h1 pd (done ++ [c]) _ ?_ h1.kp ?_
  · rw [h1.node]; simp [hp.res]
  · intro d hd
    rcases List.mem_append.1 hd with hd | hd
    · exact h1.kd d hd
    · simp only [List.mem_singleton] at hd; subst hd; exact hp.key

theorem prog_finish {Lt : Nat → Nat → Prop} (hirr : ∀ a, ¬ Lt a a)
    {st0 sta : Store} {memoa : List (Nat × Nat)} {i : Nat} {st : Store} {memo : List (Nat × Nat)}
    (h : Prog Lt st0 sta memoa i (ptr st0 i) (cont st0 i) st memo) (hi : i < st0.length)
    (hnk : i ∉ memoa.map Prod.fst) :
    Post Lt st0 sta memoa i st (memo ++ [(i, sta.length)]) sta.length := by
  obtain ⟨new, hm, hv, hk⟩ := h.new
  have hlt := h.lt
  have hik : i ∉ memo.map Prod.fst := by
    rw [hm, List.map_append, List.mem_append]
    rintro (hx | hx)
    · exact hnk hx
    · exact hirr i (hk i hx)
  have hnv : sta.length ∉ memo.map Prod.snd := by
    intro hx
    obtain ⟨e, he, hx⟩ := List.mem_map.1 hx
    exact h.val_ne e he hx.symm
  have ndk' : ((memo ++ [(i, sta.length)]).map Prod.fst).Nodup := by
    rw [List.map_append, List.map_singleton, List.nodup_append]
    refine ⟨h.inv.ndk, List.nodup_cons.2 ⟨List.not_mem_nil, List.nodup_nil⟩, ?_⟩
    intro a ha b hb hab
    simp only [List.mem_singleton] at hb; subst hb; subst hab; exact hik ha
  have ndv' : ((memo ++ [(i, sta.length)]).map Prod.snd).Nodup := by
    rw [List.map_append, List.map_singleton, List.nodup_append]
    refine ⟨h.inv.ndv, List.nodup_cons.2 ⟨List.not_mem_nil, List.nodup_nil⟩, ?_⟩
    intro a ha b hb hab
    simp only [List.mem_singleton] at hb; subst hb; subst hab; exact hnv ha
  constructor
  · constructor
    · exact h.inv.len
    · exact h.inv.old
    · intro e he
      rcases List.mem_append.1 he with he | he
      · exact (h.inv.ent e he).mono (Nat.le_refl _) rfl _
      · simp only [List.mem_singleton] at he; subst he
        constructor
        · exact hi
        · exact ⟨h.lenL, hlt⟩
        · intro p hp; rw [List.map_append]; exact List.mem_append_left _ (h.kp p hp)
        · intro g x hx; rw [List.map_append]; exact List.mem_append_left _ (h.kd (g, x) hx)
        · show get st sta.length = _
          rw [h.node]
          exact (node_congr _ _ _ _ h.kd h.kp).symm
    · exact ndk'
    · exact ndv'
  · omega
  · exact h.frame
  · refine ⟨new ++ [(i, sta.length)], by rw [hm, List.append_assoc], ?_, ?_⟩
    · intro x
      rw [List.map_append, List.mem_append, hv]
      simp only [List.map_singleton, List.mem_singleton]; omega
    · intro x hx
      rw [List.map_append, List.mem_append] at hx
      rcases hx with hx | hx
      · exact Or.inr (hk x hx)
      · simp only [List.map_singleton, List.mem_singleton] at hx; exact Or.inl hx
  · simp
  · exact look_of_mem ndk' (e := (i, sta.length)) (by simp)

theorem fold_prog {Lt : Nat → Nat → Prop} (htr : ∀ a b c, Lt a b → Lt b c → Lt a c)
    {st0 sta : Store} {memoa : List (Nat × Nat)} {i : Nat} {pd : Option Nat} {f : Nat}
    (IH : ∀ st memo c, c < st0.length → Lt c i → Inv st0 st memo →
      Post Lt st0 st memo c (copyF f st memo c).1 (copyF f st memo c).2.1 (copyF f st memo c).2.2) :
    ∀ (rest done : List (String × Nat)) (st : Store) (memo : List (Nat × Nat)),
      (∀ c ∈ rest, c.2 < st0.length ∧ Lt c.2 i) → Prog Lt st0 sta memoa i pd done st memo →
      Prog Lt st0 sta memoa i pd (done ++ rest)
        (rest.foldl (stepC f sta.length) (st, memo)).1
        (rest.foldl (stepC f sta.length) (st, memo)).2 := by
  intro rest
  induction rest with
  | nil => intro done st memo _ h; simpa using h
  | cons c rest ih =>
    intro done st memo hr h
    rw [List.foldl_cons]
    have hc := hr c (by simp)
    have hp := IH st memo c.2 hc.1 hc.2 h.inv
    have h2 := prog_cont htr h hp hc.2
    have := ih (done ++ [c]) (stepC f sta.length (st, memo) c).1 (stepC f sta.length (st, memo) c).2
      (fun d hd => hr d (List.mem_cons_of_mem _ hd)) h2
    rw [List.append_assoc] at this
    exact this

theorem copyF_post {st0 : Store} (hr : Rng st0) (ha : Acyc st0)
    (Lt : Nat → Nat → Prop) (hirr : ∀ a, ¬ Lt a a) (htr : ∀ a b c, Lt a b → Lt b c → Lt a c)
    (hp : ∀ i j, ptr st0 i = some j → Lt j i) (hc : ∀ i g x, (g, x) ∈ cont st0 i → Lt x i) :
    ∀ (f i : Nat) (l : List Nat) (st : Store) (memo : List (Nat × Nat)), i < st0.length →
      l.Nodup → (∀ x ∈ l, x < st0.length) → (∀ x ∈ l, Lt i x) → st0.length + 1 ≤ f + l.length →
      Inv st0 st memo →
      Post Lt st0 st memo i (copyF f st memo i).1 (copyF f st memo i).2.1 (copyF f st memo i).2.2 := by
  intro f
  induction f with
  | zero =>
    intro i l st memo hi hnd hl _ hf _
    exfalso
    have hsub : l ⊆ List.range st0.length := fun x hx => List.mem_range.2 (hl x hx)
    have := hnd.length_le_of_subset hsub
    simp only [List.length_range] at this; omega
  | succ f ih =>
    intro i l st memo hi hnd hl hlt hf hinv
    cases hfind : memo.find? (·.1 = i) with
    | some e =>
      rw [copyF_succ_some hfind]
      obtain ⟨hem, he1, hlook⟩ := look_of_find hfind
      refine ⟨hinv, Nat.le_refl _, fun _ _ => rfl, ⟨[], by simp, ?_, by simp⟩, he1 ▸ key_of_mem hem, hlook⟩
      intro x; simp only [List.map_nil, List.not_mem_nil, false_iff]; omega
    | none =>
      rw [copyF_succ_none hfind]
      have e1 : val st (deref st i) = val st0 (deref st0 i) := by
        rw [hinv.deref_old hr ha hi, val, hinv.old _ (deref_lt hr hi)]
      have e2 : ptr st i = ptr st0 i := by rw [ptr, hinv.old _ hi]
      have e3 : cont st i = cont st0 i := by rw [cont, hinv.old _ hi]
      rw [e1, e2, e3]
      have IH : ∀ st memo c, c < st0.length → Lt c i → Inv st0 st memo →
          Post Lt st0 st memo c (copyF f st memo c).1 (copyF f st memo c).2.1
            (copyF f st memo c).2.2 := by
        intro st memo c hc' hci hI
        refine ih c (i :: l) st memo hc' (List.nodup_cons.2 ⟨fun hm => hirr i (hlt i hm), hnd⟩)
          ?_ ?_ (by simp only [List.length_cons]; omega) hI
        · intro x hx
          rcases List.mem_cons.1 hx with rfl | hx
          · exact hi
          · exact hl x hx
        · intro x hx
          rcases List.mem_cons.1 hx with rfl | hx
          · exact hci
          · exact htr _ _ _ hci (hlt x hx)
      have h0 := prog_init (Lt := Lt) i hinv
      have h1 : Prog Lt st0 st memo i (ptr st0 i) []
          (stepP f st.length
            (st ++ [{ value := val st0 (deref st0 i), content := [], pointer := none }]) memo
            (ptr st0 i)).1
          (stepP f st.length
            (st ++ [{ value := val st0 (deref st0 i), content := [], pointer := none }]) memo
            (ptr st0 i)).2 := by
        cases hpp : ptr st0 i with
        | none => exact h0
        | some p => exact prog_ptr htr h0 (IH _ _ p (hr.p i p hpp) (hp i p hpp) h0.inv) (hp i p hpp)
      have h2 := fold_prog htr IH (cont st0 i) [] _ _
        (fun c hcm => ⟨hr.c i c.1 c.2 hcm, hc i c.1 c.2 hcm⟩) h1
      rw [List.nil_append] at h2
      exact prog_finish hirr h2 hi (find_none_iff.1 hfind)

theorem inv_init (st : Store) : Inv st st [] :=
  ⟨Nat.le_refl _, fun _ _ => rfl, fun e he => (by cases he), by simp, by simp⟩

end Copy

open Copy in
theorem copy_spec {st : Store} {F : Nat} (hr : Rng st) (ha : Acyc st) (hF : F < st.length)
    (Lt : Nat → Nat → Prop) (hirr : ∀ a, ¬ Lt a a) (htr : ∀ a b c, Lt a b → Lt b c → Lt a c)
    (hp : ∀ i j, ptr st i = some j → Lt j i) (hc : ∀ i g x, (g, x) ∈ cont st i → Lt x i) :
    ∃ κ dom π, CopySpec st F (copy st F).1 (copy st F).2 κ dom π := by
  have h := copyF_post hr ha Lt hirr htr hp hc (st.length + 1) F [] st [] hF List.nodup_nil
    (by simp) (by simp) (by simp) (inv_init st)
  have e1 : (copy st F).1 = (copyF (st.length + 1) st [] F).1 := rfl
  have e2 : (copy st F).2 = (copyF (st.length + 1) st [] F).2.2 := rfl
  rw [e1, e2]
  generalize (copyF (st.length + 1) st [] F).1 = st1 at h
  generalize (copyF (st.length + 1) st [] F).2.1 = memo at h
  generalize (copyF (st.length + 1) st [] F).2.2 = c at h
  obtain ⟨new, hm, hv, hk⟩ := h.new
  rw [List.nil_append] at hm; subst hm
  have hent : ∀ j, j ∈ memo.map Prod.fst → ∃ e ∈ memo, e.1 = j ∧ look memo j = e.2 := by
    intro j hj
    obtain ⟨e, he, rfl⟩ := List.mem_map.1 hj
    exact ⟨e, he, rfl, look_of_mem h.inv.ndk he⟩
  refine ⟨look memo, fun j => j ∈ memo.map Prod.fst,
    fun n => ((memo.find? (·.2 = n)).map (·.1)).getD 0, ?_⟩
  constructor
  · exact ext_of_frame h.len h.frame
  · exact h.key
  · exact h.res
  · intro j hj
    obtain ⟨e, he, rfl, _⟩ := hent j hj
    exact (h.inv.ent e he).key_lt
  · intro j p hj hpp
    obtain ⟨e, he, rfl, _⟩ := hent j hj
    exact (h.inv.ent e he).cl_ptr p hpp
  · intro j g x hj hx
    obtain ⟨e, he, rfl, _⟩ := hent j hj
    exact (h.inv.ent e he).cl_cont g x hx
  · intro j hj
    obtain ⟨e, he, rfl, hl⟩ := hent j hj
    rw [hl]; exact (h.inv.ent e he).rng
  · intro j hj
    obtain ⟨e, he, rfl, hl⟩ := hent j hj
    rw [hl]; exact (h.inv.ent e he).node
  · intro j j' hj hj' heq
    obtain ⟨e, he, rfl, hl⟩ := hent j hj
    obtain ⟨e', he', rfl, hl'⟩ := hent j' hj'
    rw [hl, hl'] at heq
    rw [List.inj_on_of_nodup_map h.inv.ndv he he' heq]
  · intro n hn1 hn2
    have hmem : n ∈ memo.map Prod.snd := (hv n).2 ⟨hn1, hn2⟩
    cases hf : memo.find? (·.2 = n) with
    | none =>
      exfalso
      obtain ⟨e, he, hen⟩ := List.mem_map.1 hmem
      have := List.find?_eq_none.1 hf e he
      simp [hen] at this
    | some e =>
      have he : e ∈ memo := List.mem_of_find?_eq_some hf
      have hen : e.2 = n := by simpa using List.find?_some hf
      simp only [Option.map_some, Option.getD_some]
      exact ⟨key_of_mem he, by rw [look_of_mem h.inv.ndk he, hen]⟩

end Lem
end Earley
end Pfl
