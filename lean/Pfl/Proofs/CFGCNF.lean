/-
Helper lemmas for C09_CNF: structure of derivations in a Chomsky normal form grammar, the CYK
table, shape and language of `toNormalForm`.
-/
import Pfl.Props.C09_Clean
import Mathlib.Tactic.Tauto
import Mathlib.Data.List.Nodup
import Mathlib.Data.List.Perm.Subperm
namespace Pfl
namespace CFG

/-! ### inversion of `Gen` / `GenList` -/

theorem gen_var_iffD (G : CFG) (x : String) (w : List String) :
    G.Gen (.var x) w ↔ ∃ body, (x, body) ∈ G.prods ∧ G.GenList body w := by
  constructor
  · intro h
    cases h with
    | var hp hb => exact ⟨_, hp, hb⟩
  · rintro ⟨body, hp, hb⟩
    exact Gen.var hp hb

theorem gen_ter_iffD (G : CFG) (t : String) (w : List String) :
    G.Gen (.ter t) w ↔ w = [t] := by
  constructor
  · intro h
    cases h with
    | ter => rfl
  · rintro rfl
    exact Gen.ter t

theorem genList_nil_iffD (G : CFG) (w : List String) : G.GenList [] w ↔ w = [] := by
  constructor
  · intro h
    cases h with
    | nil => rfl
  · rintro rfl
    exact GenList.nil

theorem genList_cons_iffD (G : CFG) (s : Sym) (u : List Sym) (w : List String) :
    G.GenList (s :: u) w ↔ ∃ w₁ w₂, w = w₁ ++ w₂ ∧ G.Gen s w₁ ∧ G.GenList u w₂ := by
  constructor
  · intro h
    cases h with
    | cons h₁ h₂ => exact ⟨_, _, rfl, h₁, h₂⟩
  · rintro ⟨w₁, w₂, rfl, h₁, h₂⟩
    exact GenList.cons h₁ h₂

theorem genList_single_iff (G : CFG) (s : Sym) (w : List String) :
    G.GenList [s] w ↔ G.Gen s w := by
  rw [genList_cons_iffD]
  constructor
  · rintro ⟨w₁, w₂, rfl, h₁, h₂⟩
    rw [genList_nil_iffD] at h₂
    subst h₂
    simpa using h₁
  · intro h
    exact ⟨w, [], by simp, h, GenList.nil⟩

theorem genList_pair_iff (G : CFG) (s t : Sym) (w : List String) :
    G.GenList [s, t] w ↔ ∃ w₁ w₂, w = w₁ ++ w₂ ∧ G.Gen s w₁ ∧ G.Gen t w₂ := by
  rw [genList_cons_iffD]
  simp only [genList_single_iff]

/-! ### Chomsky normal form: structure of derivations -/

theorem isNormalForm_iff (N : CFG) :
    N.isNormalForm = true ↔ ∀ p ∈ N.prods, prodIsNormal p = true := by
  simp [isNormalForm, List.all_eq_true]

theorem prodIsNormal_iff (p : Prod) :
    prodIsNormal p = true ↔ (∃ b c, p.2 = [.var b, .var c]) ∨ (∃ t, p.2 = [.ter t]) := by
  unfold prodIsNormal
  split <;> simp_all

theorem cnf_gen_var_iff (N : CFG) (hN : N.isNormalForm = true) (x : String) (u : List String) :
    N.Gen (.var x) u ↔
      (∃ t, u = [t] ∧ (x, [Sym.ter t]) ∈ N.prods) ∨
      (∃ b c u₁ u₂, (x, [Sym.var b, Sym.var c]) ∈ N.prods ∧ u = u₁ ++ u₂ ∧
        N.Gen (.var b) u₁ ∧ N.Gen (.var c) u₂) := by
  rw [isNormalForm_iff] at hN
  rw [gen_var_iffD]
  constructor
  · rintro ⟨body, hp, hb⟩
    have h := (prodIsNormal_iff _).1 (hN _ hp)
    rcases h with ⟨b, c, hbc⟩ | ⟨t, ht⟩
    · simp only at hbc
      subst hbc
      rw [genList_pair_iff] at hb
      obtain ⟨w₁, w₂, rfl, h₁, h₂⟩ := hb
      exact Or.inr ⟨b, c, w₁, w₂, hp, rfl, h₁, h₂⟩
    · simp only at ht
      subst ht
      rw [genList_single_iff, gen_ter_iffD] at hb
      exact Or.inl ⟨t, hb, hp⟩
  · rintro (⟨t, rfl, hp⟩ | ⟨b, c, u₁, u₂, hp, rfl, h₁, h₂⟩)
    · exact ⟨_, hp, (genList_single_iff _ _ _).2 (Gen.ter t)⟩
    · exact ⟨_, hp, (genList_pair_iff _ _ _ _).2 ⟨_, _, rfl, h₁, h₂⟩⟩

theorem cnf_gen_nonempty (N : CFG) (hN : N.isNormalForm = true) {s : Sym} {w : List String}
    (h : N.Gen s w) : w ≠ [] := by
  rw [isNormalForm_iff] at hN
  refine Gen.rec (G := N) (motive_1 := fun _ w _ => w ≠ [])
    (motive_2 := fun u w _ => u ≠ [] → w ≠ []) ?_ ?_ ?_ ?_ h
  · intro t; simp
  · intro hd body w hp _ ih
    apply ih
    have h := (prodIsNormal_iff _).1 (hN _ hp)
    rcases h with ⟨b, c, hbc⟩ | ⟨t, ht⟩
    · simp only at hbc; simp [hbc]
    · simp only at ht; simp [ht]
  · simp
  · intro s u w₁ w₂ _ _ ih₁ _ _
    simp [ih₁]

theorem cnf_gen_letters (N : CFG) (hN : N.isNormalForm = true) :
    ∀ (n : Nat) (x : String) (u : List String), u.length ≤ n → N.Gen (.var x) u →
      ∀ t ∈ u, ∃ p ∈ N.prods, p.2 = [Sym.ter t] := by
  intro n
  induction n with
  | zero =>
    intro x u hlen h
    have := cnf_gen_nonempty N hN h
    have : u = [] := List.eq_nil_of_length_eq_zero (by omega)
    contradiction
  | succ n ih =>
    intro x u hlen h t ht
    rcases (cnf_gen_var_iff N hN x u).1 h with ⟨t', rfl, hp⟩ | ⟨b, c, u₁, u₂, hp, rfl, h₁, h₂⟩
    · simp only [List.mem_singleton] at ht
      subst ht
      exact ⟨_, hp, rfl⟩
    · have n₁ := cnf_gen_nonempty N hN h₁
      have n₂ := cnf_gen_nonempty N hN h₂
      have l₁ : 0 < u₁.length := List.length_pos_iff.2 n₁
      have l₂ : 0 < u₂.length := List.length_pos_iff.2 n₂
      simp only [List.length_append] at hlen
      rcases List.mem_append.1 ht with ht | ht
      · exact ih b u₁ (by omega) h₁ t ht
      · exact ih c u₂ (by omega) h₂ t ht

/-! ### the CYK table -/

def cykLook (tbl : List ((Nat × Nat) × List String)) (i l : Nat) : List String :=
  ((tbl.find? fun e => e.1 = (l, i)).map (·.2)).getD []

def cykStep (N : CFG) (w : List String) (tbl : List ((Nat × Nat) × List String)) (k : Nat) :
    List ((Nat × Nat) × List String) :=
  tbl ++ (List.range (w.length - (k + 1) + 1)).map fun i =>
    ((k + 1, i), if k + 1 = 1 then cykRow1 N w i else cykCell N (cykLook tbl) i (k + 1))

theorem cykTable_eq (N : CFG) (w : List String) :
    cykTable N w = (List.range w.length).foldl (cykStep N w) [] := rfl

theorem find_row (len : Nat) (g : Nat → List String) (L : List Nat) (i : Nat) (hi : i ∈ L) :
    (L.map fun j => ((len, j), g j)).find? (fun e => e.1 = (len, i)) = some ((len, i), g i) := by
  induction L with
  | nil => simp at hi
  | cons a L ih =>
    by_cases h : a = i
    · subst h; simp
    · have : i ∈ L := by simpa [Ne.symm h] using hi
      simp [h, ih this]

theorem take_split (w : List String) (i len l : Nat) (hl : l ≤ len) :
    (w.drop i).take len = (w.drop i).take l ++ (w.drop (i + l)).take (len - l) := by
  have : len = l + (len - l) := by omega
  conv => lhs; rw [this]
  rw [List.take_add, List.drop_drop]

theorem mem_cykRow1 (N : CFG) (hN : N.isNormalForm = true) (w : List String) (i : Nat)
    (hi : i + 1 ≤ w.length) (x : String) :
    x ∈ cykRow1 N w i ↔ N.Gen (.var x) ((w.drop i).take 1) := by
  have hi' : i < w.length := by omega
  have hd : (w.drop i).take 1 = [w[i]] := by
    rw [List.drop_eq_getElem_cons hi']; rfl
  rw [hd, cnf_gen_var_iff N hN]
  unfold cykRow1
  rw [List.getElem?_eq_getElem hi']
  simp only [List.mem_eraseDups, List.mem_filterMap]
  constructor
  · rintro ⟨p, hp, hx⟩
    split at hx
    · rename_i h2
      simp only [Option.some.injEq] at hx
      subst hx
      refine Or.inl ⟨w[i], rfl, ?_⟩
      rw [← h2]; exact hp
    · simp at hx
  · rintro (⟨t, ht, hp⟩ | ⟨b, c, u₁, u₂, hp, hu, h₁, h₂⟩)
    · simp only [List.cons.injEq, and_true] at ht
      subst ht
      exact ⟨_, hp, by simp⟩
    · have n₁ := List.length_pos_iff.2 (cnf_gen_nonempty N hN h₁)
      have n₂ := List.length_pos_iff.2 (cnf_gen_nonempty N hN h₂)
      have := congrArg List.length hu
      simp at this
      omega

theorem mem_cykCell (N : CFG) (tbl : Nat → Nat → List String) (i len : Nat) (x : String) :
    x ∈ cykCell N tbl i len ↔ ∃ k, k < len - 1 ∧ ∃ b c, (x, [Sym.var b, Sym.var c]) ∈ N.prods ∧
      b ∈ tbl i (k + 1) ∧ c ∈ tbl (i + (k + 1)) (len - (k + 1)) := by
  unfold cykCell
  simp only [List.mem_eraseDups, List.mem_flatMap, List.mem_range, List.mem_filterMap]
  constructor
  · rintro ⟨k, hk, p, hp, hx⟩
    refine ⟨k, hk, ?_⟩
    split at hx
    · rename_i b c h2
      split at hx
      · rename_i h3
        simp only [Option.some.injEq] at hx
        subst hx
        refine ⟨b, c, ?_, h3.1, h3.2⟩
        rw [← h2]; exact hp
      · simp at hx
    · simp at hx
  · rintro ⟨k, hk, b, c, hp, hb, hc⟩
    exact ⟨k, hk, _, hp, by simp [hb, hc]⟩

theorem gen_split (N : CFG) (hN : N.isNormalForm = true) (w : List String) (i len : Nat)
    (hlen : 2 ≤ len) (hi : i + len ≤ w.length) (x : String) :
    N.Gen (.var x) ((w.drop i).take len) ↔
      ∃ k, k < len - 1 ∧ ∃ b c, (x, [Sym.var b, Sym.var c]) ∈ N.prods ∧
        N.Gen (.var b) ((w.drop i).take (k + 1)) ∧
        N.Gen (.var c) ((w.drop (i + (k + 1))).take (len - (k + 1))) := by
  have hL : ((w.drop i).take len).length = len := by simp; omega
  rw [cnf_gen_var_iff N hN]
  constructor
  · rintro (⟨t, ht, hp⟩ | ⟨b, c, u₁, u₂, hp, hu, h₁, h₂⟩)
    · rw [ht] at hL; simp at hL; omega
    · have n₁ := List.length_pos_iff.2 (cnf_gen_nonempty N hN h₁)
      have n₂ := List.length_pos_iff.2 (cnf_gen_nonempty N hN h₂)
      have hl := hL
      rw [hu, List.length_append] at hl
      have hs := take_split w i len u₁.length (by omega)
      rw [hu] at hs
      have := List.append_inj hs (by simp; omega)
      refine ⟨u₁.length - 1, by omega, b, c, hp, ?_, ?_⟩
      · have e : u₁.length - 1 + 1 = u₁.length := by omega
        rw [e, ← this.1]; exact h₁
      · have e : u₁.length - 1 + 1 = u₁.length := by omega
        rw [e, ← this.2]; exact h₂
  · rintro ⟨k, hk, b, c, hp, hb, hc⟩
    exact Or.inr ⟨b, c, _, _, hp, take_split w i len (k + 1) (by omega), hb, hc⟩

/-- invariant of the table after the rows `1..k` -/
structure CykInv (N : CFG) (w : List String) (k : Nat) (tbl : List ((Nat × Nat) × List String)) :
    Prop where
  key_le : ∀ e ∈ tbl, e.1.1 ≤ k
  found : ∀ l i, 1 ≤ l → l ≤ k → i + l ≤ w.length →
    (tbl.find? fun e => e.1 = (l, i)).isSome = true
  look : ∀ l i, 1 ≤ l → l ≤ k → i + l ≤ w.length →
    ∀ x, x ∈ cykLook tbl i l ↔ N.Gen (.var x) ((w.drop i).take l)

theorem cykInv_step (N : CFG) (hN : N.isNormalForm = true) (w : List String) (k : Nat)
    (tbl : List ((Nat × Nat) × List String)) (hk : k < w.length) (h : CykInv N w k tbl) :
    CykInv N w (k + 1) (cykStep N w tbl k) := by
  have hnone : ∀ i : Nat, (tbl.find? fun e => e.1 = (k + 1, i)) = none := by
    intro i
    rw [List.find?_eq_none]
    intro e he hk'
    have := h.key_le e he
    simp only [decide_eq_true_eq] at hk'
    rw [hk'] at this
    simp only at this
    omega
  have hnew : ∀ i, i + (k + 1) ≤ w.length →
      (cykStep N w tbl k).find? (fun e => e.1 = (k + 1, i)) = some ((k + 1, i),
        if k + 1 = 1 then cykRow1 N w i else cykCell N (cykLook tbl) i (k + 1)) := by
    intro i hi
    unfold cykStep
    rw [List.find?_append, hnone i, Option.none_or]
    exact find_row (k + 1) _ _ i (List.mem_range.2 (by omega))
  have hold : ∀ l i, 1 ≤ l → l ≤ k → i + l ≤ w.length →
      (cykStep N w tbl k).find? (fun e => e.1 = (l, i)) = tbl.find? (fun e => e.1 = (l, i)) := by
    intro l i h1 h2 h3
    unfold cykStep
    rw [List.find?_append]
    have := h.found l i h1 h2 h3
    cases hf : tbl.find? (fun e => e.1 = (l, i)) with
    | none => rw [hf] at this; simp at this
    | some e => simp
  refine ⟨?_, ?_, ?_⟩
  · intro e he
    unfold cykStep at he
    rcases List.mem_append.1 he with he | he
    · have := h.key_le e he; omega
    · simp only [List.mem_map] at he
      obtain ⟨i, _, rfl⟩ := he
      simp
  · intro l i h1 h2 h3
    by_cases hl : l ≤ k
    · rw [hold l i h1 hl h3]; exact h.found l i h1 hl h3
    · have : l = k + 1 := by omega
      subst this
      rw [hnew i h3]; rfl
  · intro l i h1 h2 h3 x
    by_cases hl : l ≤ k
    · unfold cykLook
      rw [hold l i h1 hl h3]
      exact h.look l i h1 hl h3 x
    · have : l = k + 1 := by omega
      subst this
      unfold cykLook
      rw [hnew i h3]
      simp only [Option.map_some, Option.getD_some]
      by_cases hk0 : k = 0
      · subst hk0
        simp only [Nat.zero_add, if_true]
        exact mem_cykRow1 N hN w i h3 x
      · have : ¬ (k + 1 = 1) := by omega
        rw [if_neg this, mem_cykCell, gen_split N hN w i (k + 1) (by omega) h3]
        constructor
        · rintro ⟨j, hj, b, c, hp, hb, hc⟩
          refine ⟨j, hj, b, c, hp, ?_, ?_⟩
          · exact (h.look (j + 1) i (by omega) (by omega) (by omega) b).1 hb
          · exact (h.look (k + 1 - (j + 1)) (i + (j + 1)) (by omega) (by omega) (by omega) c).1 hc
        · rintro ⟨j, hj, b, c, hp, hb, hc⟩
          refine ⟨j, hj, b, c, hp, ?_, ?_⟩
          · exact (h.look (j + 1) i (by omega) (by omega) (by omega) b).2 hb
          · exact (h.look (k + 1 - (j + 1)) (i + (j + 1)) (by omega) (by omega) (by omega) c).2 hc

theorem cykInv_all (N : CFG) (hN : N.isNormalForm = true) (w : List String) (k : Nat)
    (hk : k ≤ w.length) : CykInv N w k ((List.range k).foldl (cykStep N w) []) := by
  induction k with
  | zero =>
    refine ⟨by simp, ?_, ?_⟩ <;> intros <;> omega
  | succ k ih =>
    rw [List.range_succ, List.foldl_append]
    exact cykInv_step N hN w k _ (by omega) (ih (by omega))

theorem cyk_iff_gen (N : CFG) (hN : N.isNormalForm = true) (w : List String) (hw : w ≠ []) :
    N.cyk w = true ↔ ∃ s, N.start = some s ∧ N.Gen (.var s) w := by
  have hlen : 0 < w.length := List.length_pos_iff.2 hw
  have inv := cykInv_all N hN w w.length (Nat.le_refl _)
  rw [← cykTable_eq] at inv
  have key := inv.look w.length 0 (by omega) (by omega) (by omega)
  simp only [List.drop_zero, List.take_length] at key
  unfold cykLook at key
  unfold cyk
  cases hs : N.start with
  | none => simp
  | some s =>
    simp only [Option.some.injEq, exists_eq_left']
    split
    · rename_i hguard
      simp only [Bool.false_eq_true, false_iff]
      intro hg
      have := cnf_gen_letters N hN w.length s w (Nat.le_refl _) hg
      simp only [Bool.not_eq_true', List.all_eq_false] at hguard
      obtain ⟨t, ht, hno⟩ := hguard
      obtain ⟨p, hp, hp2⟩ := this t ht
      apply hno
      simp only [List.any_eq_true, decide_eq_true_eq]
      exact ⟨p, hp, hp2⟩
    · simp only [decide_eq_true_eq]
      exact key s

/-! ### `decomposeOne`: syntactic description -/

/-- the body `pb` is the (possibly binarised) first layer of `σ` -/
def LinkBody (D : List (List Sym × String)) (pb σ : List Sym) : Prop :=
  (σ.length ≤ 2 ∧ pb = σ) ∨
  ∃ b rest v, σ = b :: rest ∧ 2 ≤ rest.length ∧ (rest, v) ∈ D ∧ pb = [b, Sym.var v]

theorem LinkBody.mono {D D' : List (List Sym × String)} {pb σ : List Sym}
    (h : ∀ d ∈ D, d ∈ D') (hl : LinkBody D pb σ) : LinkBody D' pb σ := by
  rcases hl with hl | ⟨b, rest, v, h1, h2, h3, h4⟩
  · exact Or.inl hl
  · exact Or.inr ⟨b, rest, v, h1, h2, h _ h3, h4⟩

theorem decomposeOne_two (head : String) (b c : Sym) (vs : List String)
    (D : List (List Sym × String)) :
    decomposeOne head [b, c] vs D = ([(head, [b, c])], D) := by
  simp [decomposeOne]

theorem decomposeOne_long (head : String) (b c d : Sym) (r : List Sym) (v : String)
    (vs : List String) (D : List (List Sym × String)) :
    decomposeOne head (b :: c :: d :: r) (v :: vs) D =
      match D.find? (fun e => e.1 = c :: d :: r) with
      | some e => ([(head, [b, .var e.2])], D)
      | none =>
        ((head, [b, .var v]) :: (decomposeOne v (c :: d :: r) vs ((c :: d :: r, v) :: D)).1,
          (decomposeOne v (c :: d :: r) vs ((c :: d :: r, v) :: D)).2) := by
  rw [decomposeOne]
  · cases D.find? (fun e => e.1 = c :: d :: r) <;> rfl
  · intro c' h; simp at h

theorem decomposeOne_spec :
    ∀ (vs : List String) (S : String → List Sym → Prop) (head : String) (body : List Sym)
      (D : List (List Sym × String)) (acc : List Prod),
      vs.length + 2 = body.length →
      (∀ h σ, (S h σ ∨ (σ, h) ∈ D) → (h, σ) ≠ (head, body) →
        ∃ pb, (h, pb) ∈ acc ∧ LinkBody D pb σ) →
      (∀ p ∈ acc, ∃ σ, (S p.1 σ ∨ (σ, p.1) ∈ D) ∧ LinkBody D p.2 σ) →
      (∀ d ∈ D, d ∈ (decomposeOne head body vs D).2) ∧
      (∀ h σ, (S h σ ∨ (σ, h) ∈ (decomposeOne head body vs D).2 ∨ (h, σ) = (head, body)) →
        ∃ pb, (h, pb) ∈ acc ++ (decomposeOne head body vs D).1 ∧
          LinkBody (decomposeOne head body vs D).2 pb σ) ∧
      (∀ p ∈ acc ++ (decomposeOne head body vs D).1,
        ∃ σ, (S p.1 σ ∨ (σ, p.1) ∈ (decomposeOne head body vs D).2 ∨ (p.1, σ) = (head, body)) ∧
          LinkBody (decomposeOne head body vs D).2 p.2 σ) := by
  intro vs
  induction vs with
  | nil =>
    intro S head body D acc hlen hB hC
    obtain ⟨b, c, rfl⟩ : ∃ b c, body = [b, c] := by
      match body, hlen with
      | [b, c], _ => exact ⟨b, c, rfl⟩
    rw [decomposeOne_two]
    simp only
    refine ⟨fun d hd => hd, ?_, ?_⟩
    · intro h σ hs
      by_cases he : (h, σ) = (head, [b, c])
      · simp only [Prod.mk.injEq] at he
        obtain ⟨rfl, rfl⟩ := he
        exact ⟨[b, c], by simp, Or.inl ⟨by simp, rfl⟩⟩
      · have hs' : S h σ ∨ (σ, h) ∈ D := by
          rcases hs with hs | hs | hs
          · exact Or.inl hs
          · exact Or.inr hs
          · exact absurd hs he
        obtain ⟨pb, h1, h2⟩ := hB h σ hs' he
        exact ⟨pb, List.mem_append_left _ h1, h2⟩
    · intro p hp
      rcases List.mem_append.1 hp with hp | hp
      · obtain ⟨σ, h1, h2⟩ := hC p hp
        exact ⟨σ, by tauto, h2⟩
      · simp only [List.mem_singleton] at hp
        subst hp
        exact ⟨[b, c], Or.inr (Or.inr rfl), Or.inl ⟨by simp, rfl⟩⟩
  | cons v vs ih =>
    intro S head body D acc hlen hB hC
    obtain ⟨b, c, d, r, rfl⟩ : ∃ b c d r, body = b :: c :: d :: r := by
      match body, hlen with
      | b :: c :: d :: r, _ => exact ⟨b, c, d, r, rfl⟩
    rw [decomposeOne_long]
    cases hf : D.find? (fun e => e.1 = c :: d :: r) with
    | some e =>
      simp only
      have he1 : e.1 = c :: d :: r := by simpa using List.find?_some hf
      have he2 : (c :: d :: r, e.2) ∈ D := by
        rw [← he1]; exact List.mem_of_find?_eq_some hf
      have hlink : LinkBody D [b, Sym.var e.2] (b :: c :: d :: r) :=
        Or.inr ⟨b, c :: d :: r, e.2, rfl, by simp, he2, rfl⟩
      refine ⟨fun d hd => hd, ?_, ?_⟩
      · intro h σ hs
        by_cases he : (h, σ) = (head, b :: c :: d :: r)
        · simp only [Prod.mk.injEq] at he
          obtain ⟨rfl, rfl⟩ := he
          exact ⟨_, by simp, hlink⟩
        · have hs' : S h σ ∨ (σ, h) ∈ D := by
            rcases hs with hs | hs | hs
            · exact Or.inl hs
            · exact Or.inr hs
            · exact absurd hs he
          obtain ⟨pb, h1, h2⟩ := hB h σ hs' he
          exact ⟨pb, List.mem_append_left _ h1, h2⟩
      · intro p hp
        rcases List.mem_append.1 hp with hp | hp
        · obtain ⟨σ, h1, h2⟩ := hC p hp
          exact ⟨σ, by tauto, h2⟩
        · simp only [List.mem_singleton] at hp
          subst hp
          exact ⟨_, Or.inr (Or.inr rfl), hlink⟩
    | none =>
      simp only
      have hD1 : ∀ x ∈ D, x ∈ (c :: d :: r, v) :: D := fun x hx => List.mem_cons_of_mem _ hx
      have hlink : LinkBody ((c :: d :: r, v) :: D) [b, Sym.var v] (b :: c :: d :: r) :=
        Or.inr ⟨b, c :: d :: r, v, rfl, by simp, by simp, rfl⟩
      have IH := ih (fun h σ => S h σ ∨ (h, σ) = (head, b :: c :: d :: r)) v (c :: d :: r)
        ((c :: d :: r, v) :: D) (acc ++ [(head, [b, Sym.var v])]) (by simpa using hlen) ?_ ?_
      · obtain ⟨I1, I2, I3⟩ := IH
        refine ⟨fun x hx => I1 x (hD1 x hx), ?_, ?_⟩
        · intro h σ hs
          have := I2 h σ (by tauto)
          simpa using this
        · intro p hp
          obtain ⟨σ, h1, h2⟩ := I3 p (by simpa using hp)
          refine ⟨σ, ?_, h2⟩
          rcases h1 with (h1 | h1) | h1 | h1
          · exact Or.inl h1
          · exact Or.inr (Or.inr h1)
          · exact Or.inr (Or.inl h1)
          · simp only [Prod.mk.injEq] at h1
            obtain ⟨h1a, h1b⟩ := h1
            refine Or.inr (Or.inl ?_)
            rw [h1a, h1b]
            exact I1 _ (by simp)
      · intro h σ hs hne
        by_cases he : (h, σ) = (head, b :: c :: d :: r)
        · simp only [Prod.mk.injEq] at he
          obtain ⟨rfl, rfl⟩ := he
          exact ⟨_, by simp, hlink⟩
        · have hs' : S h σ ∨ (σ, h) ∈ D := by
            rcases hs with (hs | hs) | hs
            · exact Or.inl hs
            · exact absurd hs he
            · simp only [List.mem_cons, Prod.mk.injEq] at hs
              rcases hs with ⟨h1, h2⟩ | hs
              · exact absurd (by rw [h1, h2]) hne
              · exact Or.inr hs
          obtain ⟨pb, h1, h2⟩ := hB h σ hs' he
          exact ⟨pb, List.mem_append_left _ h1, h2.mono hD1⟩
      · intro p hp
        rcases List.mem_append.1 hp with hp | hp
        · obtain ⟨σ, h1, h2⟩ := hC p hp
          refine ⟨σ, ?_, h2.mono hD1⟩
          rcases h1 with h1 | h1
          · exact Or.inl (Or.inl h1)
          · exact Or.inr (hD1 _ h1)
        · simp only [List.mem_singleton] at hp
          subst hp
          exact ⟨_, Or.inl (Or.inr rfl), hlink⟩


theorem decomposeOne_done :
    ∀ (vs : List String) (head : String) (body : List Sym) (D : List (List Sym × String)),
      vs.length + 2 = body.length →
      ∀ e ∈ (decomposeOne head body vs D).2,
        e ∈ D ∨ (e.2 ∈ vs ∧ 2 ≤ e.1.length ∧ ∀ s ∈ e.1, s ∈ body) := by
  intro vs
  induction vs with
  | nil =>
    intro head body D hlen
    obtain ⟨b, c, rfl⟩ : ∃ b c, body = [b, c] := by
      match body, hlen with
      | [b, c], _ => exact ⟨b, c, rfl⟩
    rw [decomposeOne_two]
    intro e he
    exact Or.inl he
  | cons v vs ih =>
    intro head body D hlen
    obtain ⟨b, c, d, r, rfl⟩ : ∃ b c d r, body = b :: c :: d :: r := by
      match body, hlen with
      | b :: c :: d :: r, _ => exact ⟨b, c, d, r, rfl⟩
    rw [decomposeOne_long]
    cases hf : D.find? (fun e => e.1 = c :: d :: r) with
    | some e =>
      intro e he
      exact Or.inl he
    | none =>
      simp only
      intro e he
      rcases ih v (c :: d :: r) ((c :: d :: r, v) :: D) (by simpa using hlen) e he with h | h
      · rcases List.mem_cons.1 h with h | h
        · subst h
          refine Or.inr ⟨by simp, by simp, ?_⟩
          intro s hs
          exact List.mem_cons_of_mem _ hs
        · exact Or.inl h
      · obtain ⟨h1, h2, h3⟩ := h
        exact Or.inr ⟨List.mem_cons_of_mem _ h1, h2, fun s hs => List.mem_cons_of_mem _ (h3 s hs)⟩

theorem decomposeOne_func :
    ∀ (vs : List String) (head : String) (body : List Sym) (D : List (List Sym × String)),
      vs.length + 2 = body.length → vs.Nodup → (∀ v ∈ vs, ∀ σ, (σ, v) ∉ D) →
      (∀ σ σ' v, (σ, v) ∈ D → (σ', v) ∈ D → σ = σ') →
      ∀ σ σ' v, (σ, v) ∈ (decomposeOne head body vs D).2 →
        (σ', v) ∈ (decomposeOne head body vs D).2 → σ = σ' := by
  intro vs
  induction vs with
  | nil =>
    intro head body D hlen _ _ hE
    obtain ⟨b, c, rfl⟩ : ∃ b c, body = [b, c] := by
      match body, hlen with
      | [b, c], _ => exact ⟨b, c, rfl⟩
    rw [decomposeOne_two]
    exact hE
  | cons v vs ih =>
    intro head body D hlen hnd hfr hE
    obtain ⟨b, c, d, r, rfl⟩ : ∃ b c d r, body = b :: c :: d :: r := by
      match body, hlen with
      | b :: c :: d :: r, _ => exact ⟨b, c, d, r, rfl⟩
    rw [decomposeOne_long]
    cases hf : D.find? (fun e => e.1 = c :: d :: r) with
    | some e => exact hE
    | none =>
      simp only
      rw [List.nodup_cons] at hnd
      apply ih v (c :: d :: r) ((c :: d :: r, v) :: D) (by simpa using hlen) hnd.2
      · intro v' hv' σ hσ
        rcases List.mem_cons.1 hσ with h | h
        · simp only [Prod.mk.injEq] at h
          exact hnd.1 (h.2 ▸ hv')
        · exact hfr v' (List.mem_cons_of_mem _ hv') σ h
      · intro σ σ' v' h1 h2
        rcases List.mem_cons.1 h1 with h1 | h1 <;> rcases List.mem_cons.1 h2 with h2 | h2
        · simp only [Prod.mk.injEq] at h1 h2
          rw [h1.1, h2.1]
        · simp only [Prod.mk.injEq] at h1
          exact absurd h2 (h1.2 ▸ hfr v (by simp) σ')
        · simp only [Prod.mk.injEq] at h2
          exact absurd h1 (h2.2 ▸ hfr v (by simp) σ)
        · exact hE σ σ' v' h1 h2

/-! ### fresh names -/

def cnfName (j : Nat) : String := "C#CNF#" ++ toString j

theorem natRepr_inj {a b : Nat} (h : a.repr = b.repr) : a = b := by
  have h2 : Nat.toDigits 10 a = Nat.toDigits 10 b := by
    rw [← Nat.toList_repr, ← Nat.toList_repr, h]
  have := congrArg (fun l => Nat.ofDigitChars 10 l 0) h2
  simpa using this

theorem cnfName_inj {a b : Nat} (h : cnfName a = cnfName b) : a = b := by
  unfold cnfName at h
  apply natRepr_inj
  simpa using h

theorem pigeon (f : Nat → String) (hf : ∀ a b, f a = f b → a = b) (L : List String) :
    ∃ i, i ≤ L.length ∧ f i ∉ L := by
  by_contra hcon
  have hall : ∀ i, i ≤ L.length → f i ∈ L := by
    intro i hi
    by_contra h
    exact hcon ⟨i, hi, h⟩
  have hnd : ((List.range (L.length + 1)).map f).Nodup :=
    List.Nodup.map_on (fun a _ b _ h => hf a b h) List.nodup_range
  have hsub : (List.range (L.length + 1)).map f ⊆ L := by
    intro x hx
    simp only [List.mem_map, List.mem_range] at hx
    obtain ⟨i, hi, rfl⟩ := hx
    exact hall i (by omega)
  have := (hnd.subperm hsub).length_le
  simp only [List.length_map, List.length_range] at this
  omega

theorem nextFreeVar_spec (G : CFG) : ∀ (fuel idx : Nat),
    ∃ j, idx < j ∧ G.nextFreeVar fuel idx = (j, cnfName j) ∧
      ((∃ i, i ≤ fuel ∧ cnfName (idx + 1 + i) ∉ G.vars) → cnfName j ∉ G.vars) := by
  intro fuel
  induction fuel with
  | zero =>
    intro idx
    refine ⟨idx + 1, by omega, rfl, ?_⟩
    rintro ⟨i, hi, h⟩
    have : i = 0 := by omega
    subst this
    exact h
  | succ fuel ih =>
    intro idx
    by_cases hm : cnfName (idx + 1) ∈ G.vars
    · obtain ⟨j, hj, he, hfr⟩ := ih (idx + 1)
      refine ⟨j, by omega, ?_, ?_⟩
      · rw [nextFreeVar]
        show (if cnfName (idx + 1) ∈ G.vars then _ else _) = _
        rw [if_pos hm]
        exact he
      · rintro ⟨i, hi, h⟩
        apply hfr
        cases i with
        | zero => exact absurd hm h
        | succ i =>
          refine ⟨i, by omega, ?_⟩
          have : idx + 1 + (i + 1) = idx + 1 + 1 + i := by omega
          rw [← this]; exact h
    · refine ⟨idx + 1, by omega, ?_, fun _ => hm⟩
      rw [nextFreeVar]
      show (if cnfName (idx + 1) ∈ G.vars then _ else _) = _
      rw [if_neg hm]
      rfl

theorem nextFreeVar_fresh (G : CFG) (idx : Nat) :
    ∃ j, idx < j ∧ G.nextFreeVar (G.vars.length + 1) idx = (j, cnfName j) ∧
      cnfName j ∉ G.vars := by
  obtain ⟨j, h1, h2, h3⟩ := nextFreeVar_spec G (G.vars.length + 1) idx
  refine ⟨j, h1, h2, h3 ?_⟩
  obtain ⟨i, hi, hn⟩ := pigeon (fun i => cnfName (idx + 1 + i))
    (fun a b h => by have := cnfName_inj h; omega) G.vars
  exact ⟨i, by omega, hn⟩

theorem freshVars_spec (G : CFG) : ∀ (n idx : Nat),
    idx ≤ (G.freshVars n idx).1 ∧ (G.freshVars n idx).2.length = n ∧
    (G.freshVars n idx).2.Nodup ∧
    ∀ v ∈ (G.freshVars n idx).2, ∃ j, idx < j ∧ j ≤ (G.freshVars n idx).1 ∧ v = cnfName j ∧
      v ∉ G.vars := by
  intro n
  induction n with
  | zero => intro idx; simp [freshVars]
  | succ n ih =>
    intro idx
    obtain ⟨j, h1, h2, h3⟩ := nextFreeVar_fresh G idx
    obtain ⟨i1, i2, i3, i4⟩ := ih j
    have he : G.freshVars (n + 1) idx = ((G.freshVars n j).1, cnfName j :: (G.freshVars n j).2) := by
      rw [freshVars]
      simp only [h2]
    rw [he]
    refine ⟨by simp only; omega, by simp [i2], ?_, ?_⟩
    · simp only [List.nodup_cons]
      refine ⟨?_, i3⟩
      intro hmem
      obtain ⟨j', hj1, _, hj3, _⟩ := i4 _ hmem
      have := cnfName_inj hj3
      omega
    · intro v hv
      simp only [List.mem_cons] at hv
      rcases hv with rfl | hv
      · exact ⟨j, h1, i1, rfl, h3⟩
      · obtain ⟨j', hj1, hj2, hj3, hj4⟩ := i4 v hv
        exact ⟨j', by omega, hj2, hj3, hj4⟩

/-! ### the fold of `decompose` -/

abbrev DecState := Nat × List Prod × List (List Sym × String)

def decStep (G : CFG) (st : DecState) (p : Prod) : DecState :=
  if p.2.length ≤ 2 then (st.1, st.2.1 ++ [p], st.2.2)
  else
    ((G.freshVars (p.2.length - 2) st.1).1,
     st.2.1 ++ (decomposeOne p.1 p.2 (G.freshVars (p.2.length - 2) st.1).2 st.2.2).1,
     (decomposeOne p.1 p.2 (G.freshVars (p.2.length - 2) st.1).2 st.2.2).2)

theorem decompose_eq (G : CFG) (prods : List Prod) :
    G.decompose prods = (prods.foldl (decStep G) (0, [], [])).2.1 := by
  unfold decompose
  congr 3

structure DecInv (G : CFG) (R : Sym → Prop) (Q : List Prod) (st : DecState) : Prop where
  link : ∀ h σ, ((h, σ) ∈ Q ∨ (σ, h) ∈ st.2.2) → ∃ pb, (h, pb) ∈ st.2.1 ∧ LinkBody st.2.2 pb σ
  src : ∀ p ∈ st.2.1, ∃ σ, ((p.1, σ) ∈ Q ∨ (σ, p.1) ∈ st.2.2) ∧ LinkBody st.2.2 p.2 σ
  fresh : ∀ e ∈ st.2.2, (∃ j, j ≤ st.1 ∧ e.2 = cnfName j) ∧ e.2 ∉ G.vars ∧ 2 ≤ e.1.length ∧
    ∀ s ∈ e.1, R s
  func : ∀ σ σ' v, (σ, v) ∈ st.2.2 → (σ', v) ∈ st.2.2 → σ = σ'

theorem decInv_step (G : CFG) (R : Sym → Prop) (Q : List Prod) (st : DecState) (p : Prod)
    (h : DecInv G R Q st) (hR : 2 < p.2.length → ∀ s ∈ p.2, R s) :
    DecInv G R (Q ++ [p]) (decStep G st p) := by
  unfold decStep
  by_cases hlen : p.2.length ≤ 2
  · rw [if_pos hlen]
    refine ⟨?_, ?_, h.fresh, h.func⟩
    · intro hd σ hs
      simp only [List.mem_append, List.mem_singleton] at hs
      rcases hs with (hs | hs) | hs
      · obtain ⟨pb, h1, h2⟩ := h.link hd σ (Or.inl hs)
        exact ⟨pb, List.mem_append_left _ h1, h2⟩
      · subst hs
        exact ⟨σ, by simp, Or.inl ⟨hlen, rfl⟩⟩
      · obtain ⟨pb, h1, h2⟩ := h.link hd σ (Or.inr hs)
        exact ⟨pb, List.mem_append_left _ h1, h2⟩
    · intro p' hp'
      rcases List.mem_append.1 hp' with hp' | hp'
      · obtain ⟨σ, h1, h2⟩ := h.src p' hp'
        refine ⟨σ, ?_, h2⟩
        rcases h1 with h1 | h1
        · exact Or.inl (List.mem_append_left _ h1)
        · exact Or.inr h1
      · simp only [List.mem_singleton] at hp'
        subst hp'
        exact ⟨p'.2, Or.inl (by simp), Or.inl ⟨hlen, rfl⟩⟩
  · rw [if_neg hlen]
    obtain ⟨f1, f2, f3, f4⟩ := freshVars_spec G (p.2.length - 2) st.1
    have hvl : (G.freshVars (p.2.length - 2) st.1).2.length + 2 = p.2.length := by omega
    obtain ⟨s1, s2, s3⟩ := decomposeOne_spec (G.freshVars (p.2.length - 2) st.1).2
      (fun h σ => (h, σ) ∈ Q) p.1 p.2 st.2.2 st.2.1 hvl
      (fun hd σ hs _ => h.link hd σ hs) h.src
    have hfr : ∀ v ∈ (G.freshVars (p.2.length - 2) st.1).2, ∀ σ, (σ, v) ∉ st.2.2 := by
      intro v hv σ hσ
      obtain ⟨j, hj1, _, hj3, _⟩ := f4 v hv
      obtain ⟨⟨j', hj', he⟩, _⟩ := h.fresh _ hσ
      simp only at he
      rw [hj3] at he
      have := cnfName_inj he
      omega
    refine ⟨?_, ?_, ?_, ?_⟩
    · intro hd σ hs
      apply s2
      simp only [List.mem_append, List.mem_singleton] at hs
      rcases hs with (hs | hs) | hs
      · exact Or.inl hs
      · exact Or.inr (Or.inr hs)
      · exact Or.inr (Or.inl hs)
    · intro p' hp'
      obtain ⟨σ, h1, h2⟩ := s3 p' hp'
      refine ⟨σ, ?_, h2⟩
      rcases h1 with h1 | h1 | h1
      · exact Or.inl (List.mem_append_left _ h1)
      · exact Or.inr h1
      · exact Or.inl (by simp [h1])
    · intro e he
      rcases decomposeOne_done _ p.1 p.2 st.2.2 hvl e he with he | ⟨h1, h2, h3⟩
      · obtain ⟨⟨j, hj, hj2⟩, r2, r3, r4⟩ := h.fresh e he
        exact ⟨⟨j, Nat.le_trans hj f1, hj2⟩, r2, r3, r4⟩
      · obtain ⟨j, hj1, hj2, hj3, hj4⟩ := f4 _ h1
        exact ⟨⟨j, hj2, hj3⟩, hj4, h2, fun s hs => hR (by omega) s (h3 s hs)⟩
    · exact decomposeOne_func _ p.1 p.2 st.2.2 hvl f3 hfr h.func

theorem decInv_fold (G : CFG) (R : Sym → Prop) (prods : List Prod)
    (hR : ∀ p ∈ prods, 2 < p.2.length → ∀ s ∈ p.2, R s) :
    ∀ (Q : List Prod) (st : DecState), DecInv G R Q st →
      DecInv G R (Q ++ prods) (prods.foldl (decStep G) st) := by
  induction prods with
  | nil => intro Q st h; simpa using h
  | cons p prods ih =>
    intro Q st h
    rw [List.foldl_cons]
    have := ih (fun q hq => hR q (List.mem_cons_of_mem _ hq)) (Q ++ [p]) _
      (decInv_step G R Q st p h (hR p (by simp)))
    simpa using this

theorem decInv_init (G : CFG) (R : Sym → Prop) : DecInv G R [] (0, [], []) := by
  refine ⟨?_, ?_, ?_, ?_⟩ <;> simp

theorem decompose_inv (G : CFG) (R : Sym → Prop) (prods : List Prod)
    (hR : ∀ p ∈ prods, 2 < p.2.length → ∀ s ∈ p.2, R s) :
    ∃ idx D, DecInv G R prods (idx, G.decompose prods, D) := by
  have := decInv_fold G R prods hR [] _ (decInv_init G R)
  rw [List.nil_append] at this
  refine ⟨(prods.foldl (decStep G) (0, [], [])).1, (prods.foldl (decStep G) (0, [], [])).2.2, ?_⟩
  rw [decompose_eq]
  exact this

/-! ### `singleTerminals` -/

def liftSym (tbl : List (String × String)) : Sym → Sym
  | .ter t => match tbl.find? (fun e => e.1 = t) with
    | some e => .var e.2
    | none => .ter t
  | .var v => .var v

def usedTers (G : CFG) : List String :=
  (G.prods.flatMap fun p => if p.2.length = 1 then [] else
      p.2.filterMap fun s => match s with
        | .ter t => if t ∈ G.ters then some t else none
        | .var _ => none).eraseDups

theorem singleTerminals_eq (G : CFG) :
    G.singleTerminals =
      (G.prods.map fun p => if p.2.length = 1 then p else (p.1, p.2.map (liftSym G.termToVar))) ++
      G.usedTers.filterMap fun t =>
        (G.termToVar.find? fun e => e.1 = t).map fun e => (e.2, [Sym.ter t]) := by
  rfl

theorem mem_usedTers (G : CFG) (t : String) :
    t ∈ G.usedTers ↔ t ∈ G.ters ∧ ∃ p ∈ G.prods, p.2.length ≠ 1 ∧ Sym.ter t ∈ p.2 := by
  unfold usedTers
  simp only [List.mem_eraseDups, List.mem_flatMap]
  constructor
  · rintro ⟨p, hp, ht⟩
    split at ht
    · simp at ht
    · rename_i hl
      simp only [List.mem_filterMap] at ht
      obtain ⟨s, hs, hst⟩ := ht
      cases s with
      | var v => simp at hst
      | ter t' =>
        simp only at hst
        split at hst
        · rename_i hm
          simp only [Option.some.injEq] at hst
          subst hst
          exact ⟨hm, p, hp, hl, hs⟩
        · simp at hst
  · rintro ⟨ht, p, hp, hl, hs⟩
    refine ⟨p, hp, ?_⟩
    rw [if_neg hl]
    simp only [List.mem_filterMap]
    exact ⟨_, hs, by simp [ht]⟩

theorem mem_singleTerminals (G : CFG) (p : Prod) :
    p ∈ G.singleTerminals ↔
      (∃ q ∈ G.prods, p = if q.2.length = 1 then q else (q.1, q.2.map (liftSym G.termToVar))) ∨
      (∃ t e, t ∈ G.usedTers ∧ G.termToVar.find? (fun e => e.1 = t) = some e ∧
        p = (e.2, [Sym.ter t])) := by
  rw [singleTerminals_eq]
  simp only [List.mem_append, List.mem_map, List.mem_filterMap, Option.map_eq_some_iff]
  constructor
  · rintro (⟨q, hq, rfl⟩ | ⟨t, ht, e, he, rfl⟩)
    · exact Or.inl ⟨q, hq, rfl⟩
    · exact Or.inr ⟨t, e, ht, he, rfl⟩
  · rintro (⟨q, hq, rfl⟩ | ⟨t, e, ht, he, rfl⟩)
    · exact Or.inl ⟨q, hq, rfl⟩
    · exact Or.inr ⟨t, ht, e, he, rfl⟩

/-! ### `liftName` / `termToVar` -/

def hashes : Nat → String
  | 0 => ""
  | i + 1 => "#CNF#" ++ hashes i

def EndsHash (s : String) : Prop := ∃ x, s = x ++ "#CNF#"

theorem hashes_length (i : Nat) : (hashes i).length = 5 * i := by
  induction i with
  | zero => rfl
  | succ i ih =>
    rw [hashes, String.length_append, ih]
    have : "#CNF#".length = 5 := by decide
    omega

theorem liftName_spec (vars used : List String) : ∀ (fuel : Nat) (n : String),
    (EndsHash n → EndsHash (liftName vars used fuel n)) ∧
    ((∃ i, i ≤ fuel ∧ n ++ hashes i ∉ vars ++ used) →
      liftName vars used fuel n ∉ vars ∧ liftName vars used fuel n ∉ used) := by
  intro fuel
  induction fuel with
  | zero =>
    intro n
    refine ⟨fun h => h, ?_⟩
    rintro ⟨i, hi, h⟩
    have : i = 0 := by omega
    subst this
    simp only [hashes, String.append_empty, List.mem_append, not_or] at h
    exact h
  | succ fuel ih =>
    intro n
    rw [liftName]
    by_cases hm : n ∈ vars ∨ n ∈ used
    · rw [if_pos hm]
      obtain ⟨i1, i2⟩ := ih (n ++ "#CNF#")
      refine ⟨fun _ => i1 ⟨n, rfl⟩, ?_⟩
      rintro ⟨i, hi, h⟩
      apply i2
      cases i with
      | zero =>
        simp only [hashes, String.append_empty, List.mem_append] at h
        exact absurd hm h
      | succ i =>
        refine ⟨i, by omega, ?_⟩
        rw [hashes, ← String.append_assoc] at h
        exact h
    · rw [if_neg hm]
      exact ⟨fun h => h, fun _ => not_or.1 hm⟩

theorem liftName_fresh (vars used : List String) (n : String) :
    liftName vars used (vars.length + used.length + 1) n ∉ vars ∧
    liftName vars used (vars.length + used.length + 1) n ∉ used := by
  apply (liftName_spec vars used _ n).2
  obtain ⟨i, hi, h⟩ := pigeon (fun i => n ++ hashes i) (by
    intro a b h
    have := congrArg String.length h
    simp only [String.length_append, hashes_length] at this
    omega) (vars ++ used)
  exact ⟨i, by simp only [List.length_append] at hi; omega, h⟩

def ttvStep (G : CFG) (tbl : List (String × String)) (t : String) : List (String × String) :=
  tbl ++ [(t, liftName G.vars (tbl.map (·.2)) (G.vars.length + tbl.length + 1) (t ++ "#CNF#"))]

structure TtvInv (G : CFG) (tbl : List (String × String)) : Prop where
  fresh : ∀ e ∈ tbl, e.2 ∉ G.vars ∧ EndsHash e.2
  nodup : (tbl.map (·.2)).Nodup

theorem ttv_fold (G : CFG) (ters : List String) : ∀ tbl, TtvInv G tbl →
    TtvInv G (ters.foldl (ttvStep G) tbl) ∧
    (ters.foldl (ttvStep G) tbl).map (·.1) = tbl.map (·.1) ++ ters := by
  induction ters with
  | nil => intro tbl h; simpa using h
  | cons t ters ih =>
    intro tbl h
    rw [List.foldl_cons]
    have hf := liftName_fresh G.vars (tbl.map (·.2)) (t ++ "#CNF#")
    have he := (liftName_spec G.vars (tbl.map (·.2)) (G.vars.length + tbl.length + 1)
      (t ++ "#CNF#")).1 ⟨t, rfl⟩
    rw [List.length_map] at hf
    have hstep : TtvInv G (ttvStep G tbl t) := by
      unfold ttvStep
      refine ⟨?_, ?_⟩
      · intro e he'
        rcases List.mem_append.1 he' with he' | he'
        · exact h.fresh e he'
        · simp only [List.mem_singleton] at he'
          subst he'
          exact ⟨hf.1, he⟩
      · rw [List.map_append, List.nodup_append]
        refine ⟨h.nodup, by simp, ?_⟩
        intro a ha b hb
        simp only [List.map_cons, List.map_nil, List.mem_singleton] at hb
        subst hb
        intro hab
        subst hab
        exact hf.2 ha
    obtain ⟨i1, i2⟩ := ih _ hstep
    refine ⟨i1, ?_⟩
    rw [i2]
    simp [ttvStep]

theorem termToVar_inv (G : CFG) : TtvInv G G.termToVar ∧ G.termToVar.map (·.1) = G.ters := by
  have := ttv_fold G G.ters [] ⟨by simp, by simp⟩
  simp only [List.map_nil, List.nil_append] at this
  exact this

theorem termToVar_find_some (G : CFG) (t : String) (ht : t ∈ G.ters) :
    ∃ e, G.termToVar.find? (fun e => e.1 = t) = some e := by
  have : t ∈ G.termToVar.map (·.1) := by rw [(termToVar_inv G).2]; exact ht
  simp only [List.mem_map] at this
  obtain ⟨e, he, het⟩ := this
  have : (G.termToVar.find? (fun e => e.1 = t)).isSome = true := by
    rw [List.find?_isSome]
    exact ⟨e, he, by simp [het]⟩
  exact Option.isSome_iff_exists.1 this

theorem termToVar_find (G : CFG) (t : String) (e : String × String)
    (h : G.termToVar.find? (fun e => e.1 = t) = some e) :
    e ∈ G.termToVar ∧ e.1 = t ∧ t ∈ G.ters ∧ e.2 ∉ G.vars ∧ EndsHash e.2 := by
  have h1 := List.mem_of_find?_eq_some h
  have h2 : e.1 = t := by simpa using List.find?_some h
  have h3 := (termToVar_inv G).1.fresh e h1
  refine ⟨h1, h2, ?_, h3.1, h3.2⟩
  rw [← (termToVar_inv G).2, ← h2]
  exact List.mem_map_of_mem h1

theorem termToVar_inj (G : CFG) (t t' : String) (e e' : String × String)
    (h : G.termToVar.find? (fun e => e.1 = t) = some e)
    (h' : G.termToVar.find? (fun e => e.1 = t') = some e') (heq : e.2 = e'.2) : t = t' := by
  obtain ⟨h1, h2, _⟩ := termToVar_find G t e h
  obtain ⟨h1', h2', _⟩ := termToVar_find G t' e' h'
  have := List.inj_on_of_nodup_map (termToVar_inv G).1.nodup h1 h1' heq
  rw [← h2, ← h2', this]

theorem endsHash_ne_cnfName (s : String) (hs : EndsHash s) (j : Nat) : s ≠ cnfName j := by
  obtain ⟨x, rfl⟩ := hs
  intro h
  have h2 := congrArg (fun s => s.toList.getLast?) h
  simp only [cnfName, String.toList_append, Nat.toString_eq_repr, Nat.toList_repr] at h2
  rw [List.getLast?_append_of_ne_nil _ Nat.toDigits_ne_nil,
    List.getLast?_append_of_ne_nil _ (by decide)] at h2
  have h3 : "#CNF#".toList.getLast? = some '#' := by decide
  rw [h3] at h2
  have h4 := List.mem_of_getLast? h2.symm
  have := Nat.isDigit_of_mem_toDigits (by decide) (by decide) h4
  exact absurd this (by decide)

/-! ### shape of the normal form -/

theorem fastPath_noEps (G : CFG) (h : G.isFastPath = true) : ∀ p ∈ G.prods, p.2 ≠ [] := by
  intro p hp he
  have hn : G.nullable.length = 0 := by
    simp only [isFastPath, Bool.and_eq_true, decide_eq_true_eq] at h
    exact h.1.1.1.1
  have : Sym.var p.1 ∈ G.nullable := by
    rw [mem_nullable_iff]
    refine ⟨p.1, rfl, Gen.var (body := []) ?_ GenList.nil⟩
    rw [← he]; exact hp
  rw [List.eq_nil_of_length_eq_zero hn] at this
  simp at this

theorem fastPath_noUnit (G : CFG) (h : G.isFastPath = true) : ∀ p ∈ G.prods, isUnit p = false := by
  intro p hp
  have hn : (G.prods.any isUnit) = false := by
    simp only [isFastPath, Bool.and_eq_true, Bool.not_eq_true'] at h
    exact h.1.1.2
  rw [List.any_eq_false] at hn
  simpa using hn p hp

theorem isUnit_false_single (h : String) (s : Sym) (hu : isUnit (h, [s]) = false) :
    ∃ t, s = Sym.ter t := by
  cases s with
  | ter t => exact ⟨t, rfl⟩
  | var v => simp [isUnit] at hu

theorem liftSym_isVar (G : CFG) (hG : G.WF) (p : Prod) (hp : p ∈ G.prods) (s : Sym) (hs : s ∈ p.2) :
    ∃ v, liftSym G.termToVar s = Sym.var v := by
  cases s with
  | var v => exact ⟨v, rfl⟩
  | ter t =>
    obtain ⟨e, he⟩ := termToVar_find_some G t (hG.ter_mem p hp t hs)
    exact ⟨e.2, by simp [liftSym, he]⟩

theorem singleTerminals_shape (G : CFG) (hG : G.WF) (h1 : ∀ p ∈ G.prods, p.2 ≠ [])
    (h2 : ∀ p ∈ G.prods, isUnit p = false) :
    ∀ p ∈ G.singleTerminals, (∃ t, p.2 = [Sym.ter t]) ∨
      (2 ≤ p.2.length ∧ ∀ s ∈ p.2, ∃ v, s = Sym.var v) := by
  intro p hp
  rw [mem_singleTerminals] at hp
  rcases hp with ⟨q, hq, rfl⟩ | ⟨t, e, _, _, rfl⟩
  · by_cases hl : q.2.length = 1
    · rw [if_pos hl]
      obtain ⟨h, body⟩ := q
      match body, hl with
      | [s], _ =>
        obtain ⟨t, rfl⟩ := isUnit_false_single h s (h2 _ hq)
        exact Or.inl ⟨t, rfl⟩
    · rw [if_neg hl]
      right
      have := List.length_pos_iff.2 (h1 q hq)
      refine ⟨by simp only [List.length_map]; omega, ?_⟩
      intro s hs
      simp only [List.mem_map] at hs
      obtain ⟨s', hs', rfl⟩ := hs
      exact liftSym_isVar G hG q hq s' hs'
  · exact Or.inl ⟨t, rfl⟩

theorem decompose_shape (G : CFG) (prods : List Prod)
    (h : ∀ p ∈ prods, (∃ t, p.2 = [Sym.ter t]) ∨
      (2 ≤ p.2.length ∧ ∀ s ∈ p.2, ∃ v, s = Sym.var v)) :
    ∀ p ∈ G.decompose prods, prodIsNormal p = true := by
  obtain ⟨idx, D, inv⟩ := decompose_inv G (fun s => ∃ v, s = Sym.var v) prods (by
    intro p hp hl s hs
    rcases h p hp with ⟨t, ht⟩ | ⟨_, h2⟩
    · rw [ht] at hl; simp at hl
    · exact h2 s hs)
  intro p hp
  obtain ⟨σ, hσ, hl⟩ := inv.src p hp
  simp only at hσ hl
  have hσ' : (∃ t, σ = [Sym.ter t]) ∨ (2 ≤ σ.length ∧ ∀ s ∈ σ, ∃ v, s = Sym.var v) := by
    rcases hσ with hσ | hσ
    · exact h _ hσ
    · obtain ⟨_, _, r3, r4⟩ := inv.fresh _ hσ
      exact Or.inr ⟨r3, r4⟩
  rw [prodIsNormal_iff]
  rcases hl with ⟨hl1, hl2⟩ | ⟨b, rest, v, rfl, hl2, _, hl4⟩
  · rw [hl2]
    rcases hσ' with ⟨t, ht⟩ | ⟨h2, h3⟩
    · exact Or.inr ⟨t, ht⟩
    · left
      match σ, hl1, h2, h3 with
      | [b, c], _, _, h3 =>
        obtain ⟨vb, rfl⟩ := h3 b (by simp)
        obtain ⟨vc, rfl⟩ := h3 c (by simp)
        exact ⟨vb, vc, rfl⟩
  · rcases hσ' with ⟨t, ht⟩ | ⟨h2, h3⟩
    · simp only [List.cons.injEq] at ht
      rw [ht.2] at hl2
      simp at hl2
    · obtain ⟨vb, rfl⟩ := h3 b (by simp)
      exact Or.inl ⟨vb, v, hl4⟩

theorem fastPath_isNormalForm (G : CFG) (hG : G.WF) (h : G.isFastPath = true) :
    (mk' [] [] G.start (G.decompose G.singleTerminals).eraseDups).isNormalForm = true := by
  rw [isNormalForm_iff, (mk'_prods _ _ _ _).1]
  intro p hp
  rw [List.mem_eraseDups] at hp
  exact decompose_shape G _ (singleTerminals_shape G hG (fastPath_noEps G h) (fastPath_noUnit G h)) p hp

theorem removeUseless_wf (G : CFG) : G.removeUseless.WF := by
  unfold removeUseless
  exact mk'_wf _ _ _ _

theorem toNormalForm_isNormalForm_wf (fuel : Nat) : ∀ (G : CFG), G.WF → ∀ N,
    G.toNormalForm fuel = some N → N.isNormalForm = true := by
  induction fuel with
  | zero => intro G _ N h; simp [toNormalForm] at h
  | succ fuel ih =>
    intro G hG N h
    rw [toNormalForm] at h
    split at h
    · rename_i hf
      simp only [Option.some.injEq] at h
      subst h
      exact fastPath_isNormalForm G hG hf
    · split at h
      · rename_i hl
        simp only [Option.some.injEq] at h
        subst h
        rw [isNormalForm_iff]
        intro p hp
        rw [List.eq_nil_of_length_eq_zero hl] at hp
        simp at hp
      · exact ih _ (removeUseless_wf _) N h

/-! ### `singleTerminals` keeps what the variables of `G` generate -/

/-- the grammar after lifting the terminals -/
def liftG (G : CFG) : CFG := { vars := [], ters := [], start := G.start, prods := G.singleTerminals }

def NotLifted (G : CFG) (v : String) : Prop :=
  ∀ t e, G.termToVar.find? (fun e => e.1 = t) = some e → e.2 ≠ v

theorem notLifted_of_mem_vars (G : CFG) (v : String) (hv : v ∈ G.vars) : NotLifted G v := by
  intro t e he h
  exact (termToVar_find G t e he).2.2.2.1 (h ▸ hv)

theorem lift_fwd (G : CFG) (hG : G.WF) {s : Sym} {w : List String} (h : G.Gen s w) :
    (liftG G).Gen s w := by
  refine Gen.rec (G := G) (motive_1 := fun s w _ => (liftG G).Gen s w)
    (motive_2 := fun body w _ => (liftG G).GenList body w ∧
      ((∀ t, Sym.ter t ∈ body → t ∈ G.usedTers) →
        (liftG G).GenList (body.map (liftSym G.termToVar)) w)) ?_ ?_ ?_ ?_ h
  · intro t; exact Gen.ter t
  · intro hd body w hp _ ih
    by_cases hl : body.length = 1
    · refine Gen.var (body := body) ?_ ih.1
      show (hd, body) ∈ G.singleTerminals
      rw [mem_singleTerminals]
      exact Or.inl ⟨(hd, body), hp, by rw [if_pos hl]⟩
    · refine Gen.var (body := body.map (liftSym G.termToVar)) ?_ (ih.2 ?_)
      · show (hd, _) ∈ G.singleTerminals
        rw [mem_singleTerminals]
        exact Or.inl ⟨(hd, body), hp, by rw [if_neg hl]⟩
      · intro t ht
        rw [mem_usedTers]
        exact ⟨hG.ter_mem _ hp t ht, _, hp, hl, ht⟩
  · exact ⟨GenList.nil, fun _ => GenList.nil⟩
  · intro s u w₁ w₂ a _ ih₁ ih₂
    refine ⟨GenList.cons ih₁ ih₂.1, ?_⟩
    intro hu
    rw [List.map_cons]
    refine GenList.cons ?_ (ih₂.2 fun t ht => hu t (List.mem_cons_of_mem _ ht))
    cases s with
    | var v => exact ih₁
    | ter t =>
      have hw := (gen_ter_iffD G t w₁).1 a
      subst hw
      have htu := hu t (by simp)
      obtain ⟨e, he⟩ := termToVar_find_some G t ((mem_usedTers G t).1 htu).1
      have : liftSym G.termToVar (Sym.ter t) = Sym.var e.2 := by simp [liftSym, he]
      rw [this]
      refine Gen.var (body := [Sym.ter t]) ?_ ((genList_single_iff _ _ _).2 (Gen.ter t))
      show (e.2, [Sym.ter t]) ∈ G.singleTerminals
      rw [mem_singleTerminals]
      exact Or.inr ⟨t, e, htu, he, rfl⟩

theorem lift_bwd_aux (G : CFG) (hG : G.WF) {s : Sym} {w : List String} (h : (liftG G).Gen s w) :
    (∀ v, s = Sym.var v → NotLifted G v → G.Gen (.var v) w) ∧
    (∀ v t e, s = Sym.var v → G.termToVar.find? (fun e => e.1 = t) = some e → e.2 = v →
      w = [t]) := by
  refine Gen.rec (G := liftG G)
    (motive_1 := fun s w _ => (∀ v, s = Sym.var v → NotLifted G v → G.Gen (.var v) w) ∧
      (∀ v t e, s = Sym.var v → G.termToVar.find? (fun e => e.1 = t) = some e → e.2 = v →
        w = [t]))
    (motive_2 := fun body' w _ => ∀ body, (∀ v, Sym.var v ∈ body → NotLifted G v) →
      (body' = body ∨ body' = body.map (liftSym G.termToVar)) → G.GenList body w) ?_ ?_ ?_ ?_ h
  · intro t
    exact ⟨fun v hv => by simp at hv, fun v t e hv => by simp at hv⟩
  · intro hd body' w hp a1 ih
    have hp' : (hd, body') ∈ G.singleTerminals := hp
    rw [mem_singleTerminals] at hp'
    refine ⟨?_, ?_⟩
    · intro v hv hnl
      simp only [Sym.var.injEq] at hv
      subst hv
      rcases hp' with ⟨q, hq, he⟩ | ⟨t, e, _, hfe, he⟩
      · have hq1 : q.1 = hd := by
          split at he
          · rw [← he]
          · simp only [Prod.mk.injEq] at he
            exact he.1.symm
        have hb : body' = q.2 ∨ body' = q.2.map (liftSym G.termToVar) := by
          split at he
          · left; rw [← he]
          · right; simp only [Prod.mk.injEq] at he; exact he.2
        have := ih q.2 (fun v hv => notLifted_of_mem_vars G v (hG.var_mem q hq v hv)) hb
        rw [← hq1]
        exact Gen.var (body := q.2) hq this
      · simp only [Prod.mk.injEq] at he
        exact absurd he.1.symm (hnl t e hfe)
    · intro v t e hv hfe hev
      simp only [Sym.var.injEq] at hv
      subst hv
      rcases hp' with ⟨q, hq, he⟩ | ⟨t', e', _, hfe', he⟩
      · have hq1 : q.1 = hd := by
          split at he
          · rw [← he]
          · simp only [Prod.mk.injEq] at he
            exact he.1.symm
        have := (termToVar_find G t e hfe).2.2.2.1
        rw [hev, ← hq1] at this
        exact absurd (hG.head_mem q hq) this
      · simp only [Prod.mk.injEq] at he
        have htt : t = t' := termToVar_inj G t t' e e' hfe hfe' (by rw [hev, he.1])
        subst htt
        rw [he.2, genList_single_iff, gen_ter_iffD] at a1
        exact a1
  · intro body _ hb
    have : body = [] := by
      rcases hb with hb | hb
      · exact hb.symm
      · exact List.map_eq_nil_iff.1 hb.symm
    subst this
    exact GenList.nil
  · intro s' u' w₁ w₂ a _ ih₁ ih₂ body hnl hb
    obtain ⟨s, u, rfl, hs, hu⟩ : ∃ s u, body = s :: u ∧
        (s' = s ∨ s' = liftSym G.termToVar s) ∧ (u' = u ∨ u' = u.map (liftSym G.termToVar)) := by
      rcases hb with hb | hb
      · exact ⟨s', u', hb.symm, Or.inl rfl, Or.inl rfl⟩
      · cases body with
        | nil => simp at hb
        | cons s u =>
          simp only [List.map_cons, List.cons.injEq] at hb
          exact ⟨s, u, rfl, Or.inr hb.1, Or.inr hb.2⟩
    refine GenList.cons ?_ (ih₂ u (fun v hv => hnl v (List.mem_cons_of_mem _ hv)) hu)
    cases s with
    | var v =>
      have : s' = Sym.var v := by
        rcases hs with hs | hs
        · exact hs
        · exact hs
      exact ih₁.1 v this (hnl v (by simp))
    | ter t =>
      have hw : w₁ = [t] := by
        cases hf : G.termToVar.find? (fun e => e.1 = t) with
        | none =>
          have : s' = Sym.ter t := by
            rcases hs with hs | hs
            · exact hs
            · rw [hs]; simp [liftSym, hf]
          subst this
          exact (gen_ter_iffD _ t w₁).1 a
        | some e =>
          rcases hs with hs | hs
          · subst hs
            exact (gen_ter_iffD _ t w₁).1 a
          · have : s' = Sym.var e.2 := by rw [hs]; simp [liftSym, hf]
            exact ih₁.2 e.2 t e this hf rfl
      subst hw
      exact Gen.ter t

theorem lift_iff (G : CFG) (hG : G.WF) (v : String) (hv : v ∈ G.vars) (w : List String) :
    (liftG G).Gen (.var v) w ↔ G.Gen (.var v) w :=
  ⟨fun h => (lift_bwd_aux G hG h).1 v rfl (notLifted_of_mem_vars G v hv), lift_fwd G hG⟩

/-! ### `decompose` keeps what the old variables generate -/

def Fresh (G : CFG) (x : String) : Prop := (∃ j, x = cnfName j) ∧ x ∉ G.vars

def Old (G : CFG) (s : Sym) : Prop := ∀ x, s = Sym.var x → ¬ Fresh G x

/-- the grammar after binarisation of the productions of `H` (fresh names avoiding `G.vars`) -/
def decG (G H : CFG) : CFG :=
  { vars := [], ters := [], start := H.start, prods := G.decompose H.prods }

theorem link_gen (G H : CFG) (idx : Nat) (D : List (List Sym × String))
    (inv : DecInv G (Old G) H.prods (idx, G.decompose H.prods, D)) :
    ∀ (n : Nat) (σ : List Sym), σ.length ≤ n → ∀ (h : String) (pb : List Sym) (w : List String),
      (h, pb) ∈ G.decompose H.prods → LinkBody D pb σ → (decG G H).GenList σ w →
      (decG G H).Gen (.var h) w := by
  intro n
  induction n with
  | zero =>
    intro σ hn h pb w hp hl hg
    rcases hl with ⟨_, rfl⟩ | ⟨b, rest, v, rfl, _, _, _⟩
    · exact Gen.var (body := pb) hp hg
    · simp at hn
  | succ n ih =>
    intro σ hn h pb w hp hl hg
    rcases hl with ⟨_, rfl⟩ | ⟨b, rest, v, rfl, _, hd, rfl⟩
    · exact Gen.var (body := pb) hp hg
    · rw [genList_cons_iffD] at hg
      obtain ⟨w₁, w₂, rfl, h₁, h₂⟩ := hg
      obtain ⟨pb', hp', hl'⟩ := inv.link v rest (Or.inr hd)
      have := ih rest (by simp at hn; omega) v pb' w₂ hp' hl' h₂
      exact Gen.var (body := [b, Sym.var v]) hp ((genList_pair_iff _ _ _ _).2 ⟨w₁, w₂, rfl, h₁, this⟩)

theorem dec_fwd (G H : CFG) (idx : Nat) (D : List (List Sym × String))
    (inv : DecInv G (Old G) H.prods (idx, G.decompose H.prods, D))
    {s : Sym} {w : List String} (h : H.Gen s w) : (decG G H).Gen s w := by
  refine Gen.rec (G := H) (motive_1 := fun s w _ => (decG G H).Gen s w)
    (motive_2 := fun body w _ => (decG G H).GenList body w) ?_ ?_ ?_ ?_ h
  · intro t; exact Gen.ter t
  · intro hd body w hp _ ih
    obtain ⟨pb, hpb, hl⟩ := inv.link hd body (Or.inl hp)
    exact link_gen G H idx D inv body.length body (Nat.le_refl _) hd pb w hpb hl ih
  · exact GenList.nil
  · intro s u w₁ w₂ _ _ ih₁ ih₂
    exact GenList.cons ih₁ ih₂

theorem dec_bwd_aux (G H : CFG) (idx : Nat) (D : List (List Sym × String))
    (inv : DecInv G (Old G) H.prods (idx, G.decompose H.prods, D))
    (hh : ∀ p ∈ H.prods, ¬ Fresh G p.1) (hb : ∀ p ∈ H.prods, ∀ s ∈ p.2, Old G s)
    {s : Sym} {w : List String} (h : (decG G H).Gen s w) :
    (Old G s → H.Gen s w) ∧ (∀ v σ, s = Sym.var v → (σ, v) ∈ D → H.GenList σ w) := by
  have hDfresh : ∀ σ v, (σ, v) ∈ D → Fresh G v := by
    intro σ v hd
    obtain ⟨⟨j, _, hj⟩, hnv, _⟩ := inv.fresh _ hd
    exact ⟨⟨j, hj⟩, hnv⟩
  refine Gen.rec (G := decG G H)
    (motive_1 := fun s w _ => (Old G s → H.Gen s w) ∧
      (∀ v σ, s = Sym.var v → (σ, v) ∈ D → H.GenList σ w))
    (motive_2 := fun body w _ => ((∀ s ∈ body, Old G s) → H.GenList body w) ∧
      (∀ b v σ, body = [b, Sym.var v] → Old G b → (σ, v) ∈ D → H.GenList (b :: σ) w) ∧
      (∀ v σ, body = [Sym.var v] → (σ, v) ∈ D → H.GenList σ w)) ?_ ?_ ?_ ?_ h
  · intro t
    exact ⟨fun _ => Gen.ter t, fun v σ hv => by simp at hv⟩
  · intro hd body w hp _ ih
    have hp' : (hd, body) ∈ G.decompose H.prods := hp
    obtain ⟨σ, hsrc, hl⟩ := inv.src _ hp'
    simp only at hsrc hl
    have claim : (∀ s ∈ σ, Old G s) → H.GenList σ w := by
      intro hold
      rcases hl with ⟨_, hl⟩ | ⟨b, rest, v', rfl, _, hd', hl⟩
      · rw [← hl]; rw [← hl] at hold; exact ih.1 hold
      · exact ih.2.1 b v' rest hl (hold b (by simp)) hd'
    refine ⟨?_, ?_⟩
    · intro hold
      rcases hsrc with hsrc | hsrc
      · exact Gen.var hsrc (claim (hb _ hsrc))
      · exact absurd (hDfresh _ _ hsrc) (hold hd rfl)
    · intro v σ' hv hd'
      simp only [Sym.var.injEq] at hv
      subst hv
      rcases hsrc with hsrc | hsrc
      · exact absurd (hDfresh _ _ hd') (hh _ hsrc)
      · have := inv.func σ σ' hd hsrc hd'
        subst this
        exact claim (inv.fresh _ hsrc).2.2.2
  · exact ⟨fun _ => GenList.nil, fun b v σ hb => by simp at hb, fun v σ hb => by simp at hb⟩
  · intro s u w₁ w₂ _ a1 ih₁ ih₂
    refine ⟨?_, ?_, ?_⟩
    · intro hold
      exact GenList.cons (ih₁.1 (hold s (by simp)))
        (ih₂.1 fun s' hs' => hold s' (List.mem_cons_of_mem _ hs'))
    · intro b v σ hbody hob hd
      simp only [List.cons.injEq] at hbody
      obtain ⟨rfl, rfl⟩ := hbody
      exact GenList.cons (ih₁.1 hob) (ih₂.2.2 v σ rfl hd)
    · intro v σ hbody hd
      simp only [List.cons.injEq] at hbody
      obtain ⟨rfl, rfl⟩ := hbody
      have := (genList_nil_iffD _ _).1 a1
      subst this
      rw [List.append_nil]
      exact ih₁.2 v σ rfl hd

theorem dec_iff (G H : CFG)
    (hh : ∀ p ∈ H.prods, ¬ Fresh G p.1) (hb : ∀ p ∈ H.prods, ∀ s ∈ p.2, Old G s)
    (x : String) (hx : ¬ Fresh G x) (w : List String) :
    (decG G H).Gen (.var x) w ↔ H.Gen (.var x) w := by
  obtain ⟨idx, D, inv⟩ := decompose_inv G (Old G) H.prods (fun p hp _ => hb p hp)
  constructor
  · intro h
    exact (dec_bwd_aux G H idx D inv hh hb h).1 (by
      intro y hy
      simp only [Sym.var.injEq] at hy
      subst hy
      exact hx)
  · exact dec_fwd G H idx D inv

/-! ### language of the normal form -/

theorem not_fresh_of_mem_vars (G : CFG) (x : String) (hx : x ∈ G.vars) : ¬ Fresh G x :=
  fun h => h.2 hx

theorem not_fresh_of_endsHash (G : CFG) (x : String) (hx : EndsHash x) : ¬ Fresh G x := by
  rintro ⟨⟨j, hj⟩, _⟩
  exact endsHash_ne_cnfName x hx j hj

theorem old_ter (G : CFG) (t : String) : Old G (Sym.ter t) := by
  intro x hx; simp at hx

theorem old_var (G : CFG) (x : String) (hx : ¬ Fresh G x) : Old G (Sym.var x) := by
  intro y hy
  simp only [Sym.var.injEq] at hy
  subst hy
  exact hx

theorem old_of_prod (G : CFG) (hG : G.WF) (q : Prod) (hq : q ∈ G.prods) (s : Sym) (hs : s ∈ q.2) :
    Old G s := by
  cases s with
  | ter t => exact old_ter G t
  | var v => exact old_var G v (not_fresh_of_mem_vars G v (hG.var_mem q hq v hs))

theorem old_liftSym (G : CFG) (hG : G.WF) (q : Prod) (hq : q ∈ G.prods) (s : Sym) (hs : s ∈ q.2) :
    Old G (liftSym G.termToVar s) := by
  cases s with
  | var v => exact old_of_prod G hG q hq _ hs
  | ter t =>
    cases hf : G.termToVar.find? (fun e => e.1 = t) with
    | none =>
      have : liftSym G.termToVar (Sym.ter t) = Sym.ter t := by simp [liftSym, hf]
      rw [this]; exact old_ter G t
    | some e =>
      have : liftSym G.termToVar (Sym.ter t) = Sym.var e.2 := by simp [liftSym, hf]
      rw [this]
      exact old_var G _ (not_fresh_of_endsHash G _ (termToVar_find G t e hf).2.2.2.2)

theorem singleTerminals_old (G : CFG) (hG : G.WF) :
    (∀ p ∈ (liftG G).prods, ¬ Fresh G p.1) ∧ (∀ p ∈ (liftG G).prods, ∀ s ∈ p.2, Old G s) := by
  refine ⟨?_, ?_⟩
  · intro p hp
    have hp' : p ∈ G.singleTerminals := hp
    rw [mem_singleTerminals] at hp'
    rcases hp' with ⟨q, hq, rfl⟩ | ⟨t, e, _, he, rfl⟩
    · have : (if q.2.length = 1 then q else (q.1, q.2.map (liftSym G.termToVar))).1 = q.1 := by
        split <;> rfl
      rw [this]
      exact not_fresh_of_mem_vars G _ (hG.head_mem q hq)
    · exact not_fresh_of_endsHash G _ (termToVar_find G t e he).2.2.2.2
  · intro p hp s hs
    have hp' : p ∈ G.singleTerminals := hp
    rw [mem_singleTerminals] at hp'
    rcases hp' with ⟨q, hq, rfl⟩ | ⟨t, e, _, he, rfl⟩
    · split at hs
      · exact old_of_prod G hG q hq s hs
      · simp only [List.mem_map] at hs
        obtain ⟨s', hs', rfl⟩ := hs
        exact old_liftSym G hG q hq s' hs'
    · simp only [List.mem_singleton] at hs
      subst hs
      exact old_ter G t

theorem fastPath_lang (G : CFG) (hG : G.WF) (hf : G.isFastPath = true) (w : List String) :
    (mk' [] [] G.start (G.decompose G.singleTerminals).eraseDups).Lang w ↔ G.Lang w ∧ w ≠ [] := by
  have hne : ∀ s, G.Gen (.var s) w → w ≠ [] := by
    intro s hg hw
    subst hw
    have hn : G.nullable.length = 0 := by
      simp only [isFastPath, Bool.and_eq_true, decide_eq_true_eq] at hf
      exact hf.1.1.1.1
    have : Sym.var s ∈ G.nullable := (mem_nullable_iff G _).2 ⟨s, rfl, hg⟩
    rw [List.eq_nil_of_length_eq_zero hn] at this
    simp at this
  obtain ⟨hh, hb⟩ := singleTerminals_old G hG
  rw [lang_iff_gen, lang_iff_gen, (mk'_prods _ _ _ _).2]
  have key : ∀ s, G.start = some s →
      ((mk' [] [] G.start (G.decompose G.singleTerminals).eraseDups).Gen (.var s) w ↔
        G.Gen (.var s) w) := by
    intro s hs
    have hsv := hG.start_mem s hs
    rw [gen_congr _ (decG G (liftG G)) (by
      intro p
      rw [(mk'_prods _ _ _ _).1, List.mem_eraseDups]
      exact Iff.rfl)]
    rw [dec_iff G (liftG G) hh hb s (not_fresh_of_mem_vars G s hsv), lift_iff G hG s hsv]
  constructor
  · rintro ⟨s, hs, hg⟩
    have := (key s hs).1 hg
    exact ⟨⟨s, hs, this⟩, hne s this⟩
  · rintro ⟨⟨s, hs, hg⟩, _⟩
    exact ⟨s, hs, (key s hs).2 hg⟩

theorem elimUnit_wf (G : CFG) : G.elimUnit.WF := by
  unfold elimUnit
  exact mk'_wf _ _ _ _

theorem removeEpsilon_wf (G : CFG) : G.removeEpsilon.WF := by
  unfold removeEpsilon
  exact mk'_wf _ _ _ _

theorem cleanup_lang (G : CFG) (hG : G.WF) (w : List String) :
    G.removeUseless.removeEpsilon.removeUseless.elimUnit.removeUseless.Lang w ↔
      G.Lang w ∧ w ≠ [] := by
  rw [removeUseless_lang _ (elimUnit_wf _), elimUnit_lang _ (removeUseless_wf _),
    removeUseless_lang _ (removeEpsilon_wf _), removeEpsilon_lang, removeUseless_lang _ hG]

theorem toNormalForm_lang_aux (fuel : Nat) : ∀ (G : CFG), G.WF → ∀ N,
    G.toNormalForm fuel = some N → ∀ w, N.Lang w ↔ G.Lang w ∧ w ≠ [] := by
  induction fuel with
  | zero => intro G _ N h; simp [toNormalForm] at h
  | succ fuel ih =>
    intro G hG N h w
    rw [toNormalForm] at h
    split at h
    · rename_i hf
      simp only [Option.some.injEq] at h
      subst h
      exact fastPath_lang G hG hf w
    · split at h
      · rename_i hl
        simp only [Option.some.injEq] at h
        subst h
        have hno : ¬ G.Lang w := by
          rw [lang_iff_gen]
          rintro ⟨s, _, hg⟩
          obtain ⟨body, hp, _⟩ := (gen_var_iffD G s w).1 hg
          rw [List.eq_nil_of_length_eq_zero hl] at hp
          simp at hp
        exact ⟨fun h => absurd h hno, fun h => h.1⟩
      · rw [ih _ (removeUseless_wf _) N h w, cleanup_lang G hG w]
        exact ⟨fun h => h.1, fun h => ⟨h, h.2⟩⟩

end CFG
end Pfl
