/-
Helper lemmas for C17 (library loop): the mark table, generic fold lemmas, soundness of every
addition made by `_duplication_processing` / `_production_process` (model `Pfl.IG.Lib`).
-/
import Pfl.Model.IndexedMark
import Pfl.Spec.Indexed
import Pfl.Proofs.IndexedLemmas

namespace Pfl.IG.LibP
open Pfl Pfl.IG Pfl.IG.Lib Pfl.IG.Lem

/-! ### the table -/

theorem get_put (T : Table) (a a' : String) (E : SetS) :
    get (put T a E) a' = if a' = a then get T a ++ [E] else get T a' := by
  induction T with
  | nil =>
    by_cases h : a' = a
    · subst h; simp [put, Lib.get]
    · have h' : ¬ a = a' := fun e => h e.symm
      simp [put, Lib.get, h, h']
  | cons kv T ih =>
    obtain ⟨k, v⟩ := kv
    by_cases hk : k = a
    · subst hk
      by_cases h : a' = k
      · subst h; simp [put, Lib.get]
      · have h' : ¬ k = a' := fun e => h e.symm
        simp [put, Lib.get, h, h']
    · by_cases h : a' = a
      · subst h
        simp only [put, hk, if_false, Lib.get, ih, if_true]
      · simp only [put, hk, if_false, Lib.get, ih, h]

theorem mem_get_add {T : Table} {a a' : String} {E E' : SetS} :
    E' ∈ get (add T a E) a' ↔ E' ∈ get T a' ∨ (a' = a ∧ E' = E) := by
  unfold add
  split
  · rename_i h
    constructor
    · exact Or.inl
    · rintro (h' | ⟨rfl, rfl⟩)
      · exact h'
      · exact h
  · rw [get_put]
    by_cases h : a' = a
    · subst h; simp
    · simp [h]

theorem mem_get_addAll {a a' : String} {E' : SetS} (l : List SetS) : ∀ {T : Table},
    E' ∈ get (addAll T a l) a' ↔ E' ∈ get T a' ∨ (a' = a ∧ E' ∈ l) := by
  unfold addAll
  induction l with
  | nil => intro T; simp
  | cons e l ih =>
    intro T
    rw [List.foldl_cons, ih, mem_get_add]
    simp only [List.mem_cons]
    grind

theorem addAll_nil (T : Table) (a : String) : addAll T a [] = T := rfl

/-- table inclusion -/
def Sub (T T' : Table) : Prop := ∀ a E, E ∈ get T a → E ∈ get T' a

theorem Sub.refl (T : Table) : Sub T T := fun _ _ h => h
theorem Sub.trans {T T' T'' : Table} (h : Sub T T') (h' : Sub T' T'') : Sub T T'' :=
  fun a E hE => h' a E (h a E hE)
theorem sub_add (T : Table) (a : String) (E : SetS) : Sub T (add T a E) :=
  fun _ _ h => mem_get_add.mpr (Or.inl h)
theorem sub_addAll (T : Table) (a : String) (l : List SetS) : Sub T (addAll T a l) :=
  fun _ _ h => (mem_get_addAll l).mpr (Or.inl h)

/-! ### generic folds -/

/-- a fold whose flag stays `false` never left its (clean) start state -/
theorem foldl_clean {S X : Type} (f : S → X → S) (flag : S → Bool) (R : X → Prop) (s0 : S)
    (hmono : ∀ s x, flag s = true → flag (f s x) = true)
    (hstep : ∀ x, flag (f s0 x) = false → f s0 x = s0 ∧ R x) (l : List X)
    (h : flag (l.foldl f s0) = false) : l.foldl f s0 = s0 ∧ ∀ x ∈ l, R x := by
  have hm : ∀ (l : List X) (s : S), flag s = true → flag (l.foldl f s) = true := by
    intro l
    induction l with
    | nil => intro s hs; exact hs
    | cons x l ih => intro s hs; exact ih _ (hmono s x hs)
  induction l with
  | nil => exact ⟨rfl, fun _ hx => by cases hx⟩
  | cons x l ih =>
    rw [List.foldl_cons] at h ⊢
    have hx : flag (f s0 x) = false := by
      cases hfx : flag (f s0 x) with
      | false => rfl
      | true => rw [hm l _ hfx] at h; cases h
    obtain ⟨h1, h2⟩ := hstep x hx
    rw [h1] at h ⊢
    obtain ⟨h3, h4⟩ := ih h
    refine ⟨h3, ?_⟩
    intro y hy
    rcases List.mem_cons.mp hy with rfl | hy
    · exact h2
    · exact h4 y hy

/-! ### the rules as the library sees them -/

theorem mem_libRules {G : IG} {r : IRule} : r ∈ libRules G ↔ r ∈ G.rules ∧ isCons r = false := by
  unfold libRules
  rw [List.mem_eraseDups, List.mem_filter]
  simp

theorem mem_consRules {G : IG} {f a b : String} :
    (a, b) ∈ consRules G f ↔ IRule.cons f a b ∈ G.rules := by
  unfold consRules
  rw [List.mem_eraseDups, List.mem_filterMap]
  constructor
  · rintro ⟨r, hr, h⟩
    cases r with
    | cons f' a' b' =>
      simp only at h
      split at h
      · rename_i hf
        simp only [Option.some.injEq, Prod.mk.injEq] at h
        obtain ⟨rfl, rfl⟩ := h
        subst hf; exact hr
      · cases h
    | end_ _ _ => cases h
    | prod _ _ _ => cases h
    | dup _ _ _ => cases h
  · intro h
    exact ⟨_, h, by simp⟩

/-! ### `dupTemp` -/

theorem dupTemp_sub (E0 E1 : SetS) : ∀ x ∈ dupTemp E0 E1, x ∈ E0 ∨ x ∈ E1 := by
  intro x hx
  unfold dupTemp at hx
  split at hx
  · exact Or.inr hx
  · split at hx
    · exact Or.inl hx
    · exact mem_unionS.mp hx

theorem dupTemp_sup (E0 E1 : SetS) :
    (∀ x ∈ E0, x ∈ dupTemp E0 E1) ∧ (∀ x ∈ E1, x ∈ dupTemp E0 E1) := by
  unfold dupTemp
  split
  · rename_i h
    simp only [List.all_eq_true, decide_eq_true_eq] at h
    exact ⟨h, fun _ h => h⟩
  · split
    · rename_i h
      simp only [List.all_eq_true, decide_eq_true_eq] at h
      exact ⟨fun _ h => h, h⟩
    · exact ⟨fun x hx => mem_unionS.mpr (Or.inl hx), fun x hx => mem_unionS.mpr (Or.inr hx)⟩

/-! ### leaves of `addrec_ter` -/

theorem mem_leafStep {acc ch : List SetS} {t : SetS} :
    t ∈ leafStep acc ch ↔ ∃ t0 ∈ acc, ∃ m ∈ ch, t = unionS t0 m := by
  unfold leafStep
  rw [List.mem_eraseDups, List.mem_flatMap]
  simp only [List.mem_map]
  constructor
  · rintro ⟨t0, h0, m, hm, rfl⟩; exact ⟨t0, h0, m, hm, rfl⟩
  · rintro ⟨t0, h0, m, hm, rfl⟩; exact ⟨t0, h0, m, hm, rfl⟩

/-- every leaf contains one choice of every group (and a start set) -/
theorem leaves_sound (chs : List (List SetS)) : ∀ (acc : List SetS) (t : SetS),
    t ∈ chs.foldl leafStep acc →
      (∃ t0 ∈ acc, ∀ x ∈ t0, x ∈ t) ∧ ∀ ch ∈ chs, ∃ m ∈ ch, ∀ x ∈ m, x ∈ t := by
  induction chs with
  | nil =>
    intro acc t ht
    exact ⟨⟨t, ht, fun _ h => h⟩, fun _ h => by cases h⟩
  | cons ch chs ih =>
    intro acc t ht
    rw [List.foldl_cons] at ht
    obtain ⟨⟨t1, h1, hsub⟩, hrest⟩ := ih _ t ht
    obtain ⟨t0, h0, m, hm, rfl⟩ := mem_leafStep.mp h1
    refine ⟨⟨t0, h0, fun x hx => hsub x (mem_unionS.mpr (Or.inl hx))⟩, ?_⟩
    intro ch' hch'
    rcases List.mem_cons.mp hch' with rfl | hch'
    · exact ⟨m, hm, fun x hx => hsub x (mem_unionS.mpr (Or.inr hx))⟩
    · exact hrest ch' hch'

/-- for every way of choosing inside `Q` there is a leaf inside `Q` -/
theorem leaves_complete (Q : String → Prop) (chs : List (List SetS)) : ∀ (acc : List SetS),
    (∃ t0 ∈ acc, ∀ x ∈ t0, Q x) → (∀ ch ∈ chs, ∃ m ∈ ch, ∀ x ∈ m, Q x) →
      ∃ t ∈ chs.foldl leafStep acc, ∀ x ∈ t, Q x := by
  induction chs with
  | nil => intro acc h _; exact h
  | cons ch chs ih =>
    intro acc ⟨t0, h0, hQ0⟩ hall
    rw [List.foldl_cons]
    obtain ⟨m, hm, hQm⟩ := hall ch List.mem_cons_self
    apply ih
    · refine ⟨unionS t0 m, mem_leafStep.mpr ⟨t0, h0, m, hm, rfl⟩, ?_⟩
      intro x hx
      rcases mem_unionS.mp hx with hx | hx
      · exact hQ0 x hx
      · exact hQm x hx
    · intro ch' hch'
      exact hall ch' (List.mem_cons_of_mem _ hch')

theorem mem_choicesOf {T : Table} {lsets : List (String × String)} {ch : List SetS} :
    ch ∈ choicesOf T lsets ↔ ∃ s ∈ lsets.map (·.1),
      ch = ((lsets.filter fun x => x.1 = s).flatMap fun x => get T x.2).eraseDups := by
  unfold choicesOf
  rw [List.mem_map]
  constructor
  · rintro ⟨s, hs, rfl⟩; exact ⟨s, List.mem_eraseDups.mp hs, rfl⟩
  · rintro ⟨s, hs, rfl⟩; exact ⟨s, List.mem_eraseDups.mpr hs, rfl⟩

theorem mem_choice {T : Table} {lsets : List (String × String)} {s : String} {m : SetS} :
    m ∈ ((lsets.filter fun x => x.1 = s).flatMap fun x => get T x.2).eraseDups ↔
      ∃ d, (s, d) ∈ lsets ∧ m ∈ get T d := by
  rw [List.mem_eraseDups, List.mem_flatMap]
  constructor
  · rintro ⟨⟨s', d⟩, hx, hm⟩
    simp only [List.mem_filter, decide_eq_true_eq] at hx
    obtain ⟨hx, rfl⟩ := hx
    exact ⟨d, hx, hm⟩
  · rintro ⟨d, hx, hm⟩
    exact ⟨(s, d), by simp [hx], hm⟩

/-- a leaf of `addrec_ter` contains, for every non-terminal with a pair in `l_sets`, a set marked
for the right side of one of its pairs -/
theorem leavesOf_sound {T : Table} {lsets : List (String × String)} {t : SetS}
    (ht : t ∈ leavesOf (choicesOf T lsets)) (s : String) (hs : s ∈ lsets.map (·.1)) :
    ∃ d m, (s, d) ∈ lsets ∧ m ∈ get T d ∧ ∀ x ∈ m, x ∈ t := by
  obtain ⟨_, h⟩ := leaves_sound _ _ _ ht
  obtain ⟨m, hm, hsub⟩ := h _ (mem_choicesOf.mpr ⟨s, hs, rfl⟩)
  obtain ⟨d, hd, hm⟩ := mem_choice.mp hm
  exact ⟨d, m, hd, hm, hsub⟩

theorem leavesOf_complete {T : Table} {lsets : List (String × String)} (Q : String → Prop)
    (h : ∀ s ∈ lsets.map (·.1), ∃ d m, (s, d) ∈ lsets ∧ m ∈ get T d ∧ ∀ x ∈ m, Q x) :
    ∃ t ∈ leavesOf (choicesOf T lsets), ∀ x ∈ t, Q x := by
  apply leaves_complete Q
  · exact ⟨[], by simp, by simp⟩
  · intro ch hch
    obtain ⟨s, hs, rfl⟩ := mem_choicesOf.mp hch
    obtain ⟨d, m, hd, hm, hQ⟩ := h s hs
    exact ⟨m, mem_choice.mpr ⟨d, hd, hm⟩, hQ⟩

end Pfl.IG.LibP
