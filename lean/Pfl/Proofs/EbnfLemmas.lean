/-
Helper lemmas for the text side of `RecursiveAutomaton.from_ebnf` (C20): reading the written rule
lines back (`readLines`), and the characterisation of the grouping (`group_spec`).
-/
import Pfl.Model.Ebnf
import Pfl.Proofs.TextCodecLemmas
import Mathlib.Data.List.Induction
namespace Pfl.Ebnf.Lem
open Pfl Pfl.Ebnf Pfl.TextCodec Pfl.TextCodec.Lem Pfl.LabelCodec.Lem

/-- the separator written between the bodies of one head -/
def sepBar : List Char := " | ".toList

/-- an empty body stands for ε, spelled "epsilon" (`Epsilon().to_text()`) -/
def epsBody (b : List Char) : List Char := if b.isEmpty then "epsilon".toList else b

/-- the dict after the loop, as a fold of `addBody` -/
def group (ls : List (List Char × List Char)) : List (List Char × List Char) :=
  ls.foldl (fun d l => addBody d l.1 (epsBody l.2)) []

/-- one rule line -/
def lineText (l : List Char × List Char) : List Char := l.1 ++ " -> ".toList ++ l.2

/-- the text: rule lines joined by "\n" (no trailing newline) -/
def textOf (ls : List (List Char × List Char)) : List Char := joinWith ['\n'] (ls.map lineText)

/-- a head: non-empty, free of white space, without "->" -/
def Head (h : List Char) : Prop :=
  h ≠ [] ∧ (∀ c ∈ h, isSpace c = false) ∧ ¬ ['-', '>'] <:+: h

/-- a body text: stripped, within one line, without "->" -/
def Body (t : List Char) : Prop :=
  strip t = t ∧ (∀ c ∈ t, isLineBreak c = false) ∧ ¬ ['-', '>'] <:+: t

theorem arrow_eq : arrow = ['-', '>'] := by decide

/-! ### `strip` -/

theorem strip_of_ends (s : List Char) (h1 : ∀ c, s.head? = some c → isSpace c = false)
    (h2 : ∀ c, s.getLast? = some c → isSpace c = false) : strip s = s := by
  cases s with
  | nil => rfl
  | cons d m =>
    have hd := h1 d rfl
    rcases List.eq_nil_or_concat m with rfl | ⟨m', c, rfl⟩
    · exact strip_single d hd
    · rw [List.concat_eq_append] at h2 ⊢
      exact strip_keep d c m' hd (h2 c (by rw [← List.cons_append]; exact List.getLast?_concat))

theorem getLast?_append_cons (a : List Char) (x : Char) (t : List Char) :
    (a ++ x :: t).getLast? = (x :: t).getLast? := by
  rw [List.getLast?_append, List.getLast?_cons]; rfl

theorem strip_length_le (s : List Char) : (strip s).length ≤ (s.dropWhile isSpace).length := by
  unfold strip
  rw [List.length_reverse]
  exact Nat.le_trans (List.dropWhile_sublist _).length_le (by simp)

theorem dropWhile_length_lt (p : Char → Bool) (c : Char) (s : List Char) (h : p c = true) :
    ((c :: s).dropWhile p).length < (c :: s).length := by
  rw [List.dropWhile_cons_of_pos h]
  exact Nat.lt_succ_of_le ((List.dropWhile_sublist _).length_le)

/-- a stripped text starts and ends with characters that are not white space -/
theorem ends_of_strip (s : List Char) (h : strip s = s) :
    (∀ c, s.head? = some c → isSpace c = false) ∧ (∀ c, s.getLast? = some c → isSpace c = false) := by
  have hlen := congrArg List.length h
  have h1 : ∀ c, s.head? = some c → isSpace c = false := by
    intro c hc
    cases s with
    | nil => simp at hc
    | cons d m =>
      simp only [List.head?_cons, Option.some.injEq] at hc
      subst hc
      cases hd : isSpace d with
      | false => rfl
      | true =>
        have := dropWhile_length_lt isSpace d m hd
        have := strip_length_le (d :: m)
        omega
  refine ⟨h1, ?_⟩
  intro c hc
  have hdw : s.dropWhile isSpace = s := by
    cases s with
    | nil => rfl
    | cons d m => rw [List.dropWhile_cons_of_neg]; simp [h1 d rfl]
  cases hd : isSpace c with
  | false => rfl
  | true =>
    exfalso
    have hr : s.reverse.head? = some c := by rw [List.head?_reverse]; exact hc
    cases hrev : s.reverse with
    | nil => rw [hrev] at hr; simp at hr
    | cons d m =>
      rw [hrev] at hr
      simp only [List.head?_cons, Option.some.injEq] at hr
      subst hr
      have h3 := dropWhile_length_lt isSpace d m hd
      have h4 : (strip s).length = ((d :: m).dropWhile isSpace).length := by
        unfold strip; rw [hdw, hrev, List.length_reverse]
      have h5 : (d :: m).length = s.length := by rw [← hrev, List.length_reverse]
      omega

theorem strip_blank_cons (t : List Char) : strip (' ' :: t) = strip t := by
  have hsp : isSpace ' ' = true := by decide
  simp [strip, hsp]

theorem strip_snoc_blank (h : List Char) (hne : h ≠ []) (hcl : ∀ c ∈ h, isSpace c = false) :
    strip (h ++ [' ']) = h := by
  obtain ⟨d, m, rfl⟩ := List.exists_cons_of_ne_nil hne
  rw [List.cons_append, strip_space d m (hcl d (by simp))]
  exact strip_tok _ hcl

/-! ### one rule line -/

theorem noArrow_nil : ¬ ['-', '>'] <:+: ([] : List Char) := by
  intro h; have := h.length_le; simp at this

/-- the stripped line: the written line, without the blank after "->" when the body is empty -/
theorem strip_line (h t : List Char) (hh : Head h) (ht : Body t) :
    strip (lineText (h, t)) = h ++ [' '] ++ ['-', '>'] ++ (if t.isEmpty then [] else ' ' :: t) := by
  obtain ⟨d, m, rfl⟩ := List.exists_cons_of_ne_nil hh.1
  have hd : isSpace d = false := hh.2.1 d (by simp)
  cases t with
  | nil =>
    have e1 : lineText (d :: m, []) = d :: ((m ++ [' ', '-', '>']) ++ [' ']) := by
      simp [lineText]
    rw [e1, strip_space d _ hd]
    have e2 : d :: (m ++ [' ', '-', '>']) = d :: ((m ++ [' ', '-']) ++ ['>']) := by simp
    rw [e2, strip_keep d '>' _ hd (by decide)]
    simp
  | cons x t' =>
    have hlast := (ends_of_strip _ ht.1).2
    have e1 : lineText (d :: m, x :: t') = d :: m ++ [' '] ++ ['-', '>'] ++ (' ' :: x :: t') := by
      simp [lineText]
    rw [e1]
    simp only [List.isEmpty_cons, Bool.false_eq_true, if_false]
    apply strip_of_ends
    · intro c hc
      simp only [List.cons_append, List.head?_cons, Option.some.injEq] at hc
      subst hc; exact hd
    · intro c hc
      apply hlast c
      rw [← hc, show d :: m ++ [' '] ++ ['-', '>'] ++ ' ' :: x :: t' =
        (d :: m ++ [' '] ++ ['-', '>'] ++ [' ']) ++ x :: t' by simp, getLast?_append_cons]

/-- the stripped line cut at "->" -/
theorem split_line (h t : List Char) (hh : Head h) (ht : Body t) :
    LabelCodec.split arrow (strip (lineText (h, t))) =
      [h ++ [' '], if t.isEmpty then [] else ' ' :: t] := by
  have h1 : ¬ ['-', '>'] <:+: (h ++ [' ']) ++ ['-', '>'].dropLast := by
    rw [List.append_assoc]
    apply noArrow_append hh.2.2
    · intro hi
      have h' : ['-', '>'] <:+: [' ', '-'] := hi
      rw [List.infix_cons_iff, List.infix_cons_iff] at h'
      simp at h'
    · right; simp
  have h2 : ¬ ['-', '>'] <:+: (if t.isEmpty then [] else ' ' :: t) := by
    split
    · exact noArrow_nil
    · exact noArrow_cons (by decide) ht.2.2
  rw [strip_line h t hh ht, arrow_eq, split_first _ (by simp) _ _ h1, split_none _ _ h2]

theorem readLines_cons_two (line : List Char) (lines : List (List Char))
    (d : List (List Char × List Char)) (a b : List Char)
    (hs : LabelCodec.split arrow (strip line) = [a, b]) :
    readLines (line :: lines) d = readLines lines (addBody d (strip a) (epsBody (strip b))) := by
  rw [readLines]
  simp only [hasArrow, hs, epsBody, List.length_cons, List.length_nil]
  rfl

/-- a written rule line is read as its head and its body ("epsilon" for the empty body) -/
theorem readLines_line (h t : List Char) (hh : Head h) (ht : Body t) (lines : List (List Char))
    (d : List (List Char × List Char)) :
    readLines (lineText (h, t) :: lines) d = readLines lines (addBody d h (epsBody t)) := by
  rw [readLines_cons_two _ lines d _ _ (split_line h t hh ht), strip_snoc_blank h hh.1 hh.2.1]
  congr 3
  cases t with
  | nil => rfl
  | cons x t' =>
    simp only [List.isEmpty_cons, Bool.false_eq_true, if_false]
    rw [strip_blank_cons, ht.1]

theorem readLines_lines : ∀ (ls : List (List Char × List Char)) (d : List (List Char × List Char)),
    (∀ l ∈ ls, Head l.1 ∧ Body l.2) →
    readLines (ls.map lineText) d = some (ls.foldl (fun d l => addBody d l.1 (epsBody l.2)) d)
  | [], _, _ => rfl
  | l :: ls, d, h => by
    rw [List.map_cons, readLines_line l.1 l.2 (h l (by simp)).1 (h l (by simp)).2,
      readLines_lines ls _ fun l' hl' => h l' (List.mem_cons_of_mem _ hl')]
    rfl

/-! ### `str.splitlines()` on the written text -/

theorem splitLinesAux_end : ∀ (l cur : List Char), (∀ c ∈ l, isLineBreak c = false) →
    splitLinesAux l cur false = if (cur.reverse ++ l).isEmpty then [] else [cur.reverse ++ l]
  | [], cur, _ => by simp [splitLinesAux]
  | c :: l, cur, h => by
    have hc : isLineBreak c = false := h c (by simp)
    rw [splitLinesAux]
    simp only [Bool.false_and, Bool.false_eq_true, if_false, hc]
    rw [splitLinesAux_end l (c :: cur) fun d hd => h d (List.mem_cons_of_mem _ hd)]
    simp

/-- without a final newline -/
theorem splitLines_join' : ∀ (lines : List (List Char)),
    (∀ l ∈ lines, l ≠ [] ∧ ∀ c ∈ l, isLineBreak c = false) →
    splitLines (joinWith ['\n'] lines) = lines
  | [], _ => by simp [joinWith, splitLines, splitLinesAux]
  | [x], h => by
    obtain ⟨hne, hb⟩ := h x (by simp)
    simp only [joinWith, splitLines]
    rw [splitLinesAux_end x [] hb]
    simp [hne]
  | x :: y :: rest, h => by
    have ih := splitLines_join' (y :: rest) fun l hl => h l (List.mem_cons_of_mem _ hl)
    rw [joinWith_cons_cons]
    simp only [splitLines, List.append_assoc, List.cons_append, List.nil_append] at ih ⊢
    rw [splitLinesAux_run x _ [] (h x (by simp)).2, ih]
    simp

theorem line_clean (h t : List Char) (hh : Head h) (ht : Body t) :
    lineText (h, t) ≠ [] ∧ ∀ c ∈ lineText (h, t), isLineBreak c = false := by
  refine ⟨by simp [lineText, hh.1], ?_⟩
  intro c hc
  simp only [lineText, List.mem_append] at hc
  rcases hc with (hc | hc) | hc
  · exact not_lineBreak_of_not_space c (hh.2.1 c hc)
  · have : c ∈ [' ', '-', '>', ' '] := hc
    simp only [List.mem_cons, List.not_mem_nil, or_false] at this
    rcases this with rfl | rfl | rfl | rfl <;> decide
  · exact ht.2.1 c hc

theorem readLines_snoc_nil (lines : List (List Char)) (d : List (List Char × List Char)) :
    readLines (lines ++ [[]]) d = readLines lines d := by
  induction lines generalizing d with
  | nil => simp [readLines, strip, hasArrow, LabelCodec.split, LabelCodec.splitOn]
  | cons x lines ih =>
    rw [List.cons_append, readLines, readLines]
    simp only [ih]

/-! ### the grouping -/

/-- heads in order of first appearance -/
def heads (ls : List (List Char × List Char)) : List (List Char) := (ls.map (·.1)).eraseDups

/-- the bodies written for head `h`, in order, "epsilon" for an empty one -/
def alts (ls : List (List Char × List Char)) (h : List Char) : List (List Char) :=
  (ls.filter (·.1 = h)).map fun l => epsBody l.2

/-- the evident specification of the dict -/
def groupSpec (ls : List (List Char × List Char)) : List (List Char × List Char) :=
  (heads ls).map fun h => (h, joinWith sepBar (alts ls h))

theorem joinWith_snoc (sep b : List Char) : ∀ (xs : List (List Char)), xs ≠ [] →
    joinWith sep (xs ++ [b]) = joinWith sep xs ++ sep ++ b
  | [], h => absurd rfl h
  | [x], _ => rfl
  | x :: y :: rest, _ => by
    rw [List.cons_append, List.cons_append, joinWith_cons_cons, ← List.cons_append,
      joinWith_snoc sep b (y :: rest) (by simp), joinWith_cons_cons]
    simp

theorem mem_heads (ls : List (List Char × List Char)) (h : List Char) :
    h ∈ heads ls ↔ ∃ l ∈ ls, l.1 = h := by
  simp [heads, List.mem_eraseDups]

theorem heads_snoc (ls : List (List Char × List Char)) (l : List Char × List Char) :
    heads (ls ++ [l]) = if l.1 ∈ heads ls then heads ls else heads ls ++ [l.1] := by
  unfold heads
  rw [List.map_append, List.eraseDups_append]
  by_cases hm : l.1 ∈ ls.map (·.1)
  · have : l.1 ∈ (ls.map (·.1)).eraseDups := List.mem_eraseDups.mpr hm
    rw [if_pos this]
    simp [List.removeAll, hm]
  · have : l.1 ∉ (ls.map (·.1)).eraseDups := fun h => hm (List.mem_eraseDups.mp h)
    rw [if_neg this]
    have e : ([l].map (·.1)).removeAll (ls.map (·.1)) = [l.1] := by
      simp only [List.removeAll, List.map_cons, List.map_nil, List.filter_cons, List.filter_nil]
      simp [hm]
    rw [e]
    simp [List.eraseDups_cons]

theorem alts_snoc (ls : List (List Char × List Char)) (l : List Char × List Char) (h : List Char) :
    alts (ls ++ [l]) h = alts ls h ++ (if l.1 = h then [epsBody l.2] else []) := by
  unfold alts
  rw [List.filter_append, List.map_append]
  by_cases e : l.1 = h <;> simp [e]

theorem alts_ne_nil (ls : List (List Char × List Char)) (h : List Char) (hm : h ∈ heads ls) :
    alts ls h ≠ [] := by
  obtain ⟨l, hl, e⟩ := (mem_heads ls h).mp hm
  intro hn
  have : epsBody l.2 ∈ alts ls h := by
    unfold alts
    exact List.mem_map.mpr ⟨l, List.mem_filter.mpr ⟨hl, by simpa using e⟩, rfl⟩
  rw [hn] at this
  simp at this

theorem alts_eq_nil (ls : List (List Char × List Char)) (h : List Char) (hm : h ∉ heads ls) :
    alts ls h = [] := by
  unfold alts
  rw [List.map_eq_nil_iff, List.filter_eq_nil_iff]
  intro l hl
  simp only [decide_eq_true_eq]
  intro e
  exact hm ((mem_heads ls h).mpr ⟨l, hl, e⟩)

theorem groupSpec_any (ls : List (List Char × List Char)) (h : List Char) :
    (groupSpec ls).any (·.1 = h) = true ↔ h ∈ heads ls := by
  simp [groupSpec]

/-- the dict is: heads in order of first appearance, each with its bodies joined by " | " -/
theorem group_spec (ls : List (List Char × List Char)) : group ls = groupSpec ls := by
  induction ls using List.reverseRecOn with
  | nil => rfl
  | append_singleton ls l ih =>
    have e : group (ls ++ [l]) = addBody (group ls) l.1 (epsBody l.2) := by
      simp [group, List.foldl_append]
    rw [e, ih]
    unfold addBody
    by_cases hm : l.1 ∈ heads ls
    · rw [if_pos ((groupSpec_any ls l.1).mpr hm)]
      unfold groupSpec
      rw [heads_snoc, if_pos hm, List.map_map]
      apply List.map_congr_left
      intro h' hh'
      simp only [Function.comp]
      rw [alts_snoc]
      by_cases e' : h' = l.1
      · subst e'
        rw [if_pos rfl, if_pos rfl, joinWith_snoc _ _ _ (alts_ne_nil ls _ hh')]
        rfl
      · rw [if_neg e', if_neg (fun h => e' h.symm), List.append_nil]
    · rw [if_neg (fun h => hm ((groupSpec_any ls l.1).mp h))]
      unfold groupSpec
      rw [heads_snoc, if_neg hm, List.map_append]
      congr 1
      · apply List.map_congr_left
        intro h' hh'
        rw [alts_snoc, if_neg (fun h => hm (by rw [h]; exact hh')), List.append_nil]
      · simp [alts_snoc, alts_eq_nil ls l.1 hm, joinWith]

/-! ### the whole text -/

theorem bodies_textOf (ls : List (List Char × List Char)) (h : ∀ l ∈ ls, Head l.1 ∧ Body l.2) :
    bodies (textOf ls) = some (group ls) := by
  unfold bodies textOf
  rw [splitLines_join' _ (by
    intro x hx
    obtain ⟨l, hl, rfl⟩ := List.mem_map.mp hx
    exact line_clean l.1 l.2 (h l hl).1 (h l hl).2), readLines_lines ls [] h]
  rfl

/-- with a final newline -/
theorem bodies_textOf_nl (ls : List (List Char × List Char)) (h : ∀ l ∈ ls, Head l.1 ∧ Body l.2) :
    bodies (textOf ls ++ ['\n']) = some (group ls) := by
  by_cases hnil : ls = []
  · subst hnil
    decide
  · unfold bodies textOf
    rw [splitLines_join _ (by simpa using hnil) (by
      intro x hx
      obtain ⟨l, hl, rfl⟩ := List.mem_map.mp hx
      exact (line_clean l.1 l.2 (h l hl).1 (h l hl).2).2), readLines_lines ls [] h]
    rfl

end Pfl.Ebnf.Lem
