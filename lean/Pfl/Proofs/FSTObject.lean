/- Proofs for Pfl/Props/C19_FSTObject.lean (FST object model). -/
import Pfl.Model.FSTObject
import Pfl.Proofs.FSTLemmas
namespace Pfl
namespace FSTObj

/-- keys of `_delta` are unique -/
def TInv (T : Table) : Prop := (T.map (·.1)).Nodup

namespace P

theorem edges_nil : edges [] = [] := rfl

theorem edges_cons (e : Key × List (String × List String)) (T : Table) :
    edges (e :: T) = (e.2.map fun out => (e.1.1, e.1.2, out.1, out.2)) ++ edges T := by
  simp [edges]

theorem edges_append (T U : Table) : edges (T ++ U) = edges T ++ edges U := by
  simp [edges]

theorem upd_keys (T : Table) (k : Key) (o : String × List String) :
    (T.map fun e => if e.1 = k then (e.1, e.2 ++ [o]) else e).map (·.1) = T.map (·.1) := by
  rw [List.map_map]
  apply List.map_congr_left
  intro e _
  simp only [Function.comp]
  split <;> rfl

theorem upd_notin {T : Table} {k : Key} (o : String × List String) (hk : k ∉ T.map (·.1)) :
    (T.map fun e => if e.1 = k then (e.1, e.2 ++ [o]) else e) = T := by
  induction T with
  | nil => rfl
  | cons e T ih =>
    simp only [List.map_cons, List.mem_cons, not_or] at hk
    rw [List.map_cons, ih hk.2, if_neg (fun h => hk.1 h.symm)]

theorem upd_in {T : Table} {k : Key} (o : String × List String) (hn : (T.map (·.1)).Nodup)
    (hk : k ∈ T.map (·.1)) :
    (edges (T.map fun e => if e.1 = k then (e.1, e.2 ++ [o]) else e)).Perm
      ((k.1, k.2, o.1, o.2) :: edges T) := by
  induction T with
  | nil => simp at hk
  | cons e T ih =>
    rw [List.map_cons, List.nodup_cons] at hn
    rw [List.map_cons]
    by_cases he : e.1 = k
    · rw [if_pos he]
      have hk' : k ∉ T.map (·.1) := by rw [← he]; exact hn.1
      rw [upd_notin o hk', edges_cons, edges_cons]
      simp only [List.map_append, List.map_cons, List.map_nil, List.append_assoc,
        List.singleton_append]
      rw [he]
      exact List.perm_middle
    · rw [if_neg he]
      have hk' : k ∈ T.map (·.1) := by
        rw [List.map_cons, List.mem_cons] at hk
        rcases hk with h | h
        · exact absurd h.symm he
        · exact h
      rw [edges_cons, edges_cons]
      exact ((ih hn.2 hk').append_left _).trans List.perm_middle

/-- adding a transition adds one occurrence of it and nothing else -/
theorem addT_spec {T : Table} (hi : TInv T) (k : Key) (out : String × List String) :
    TInv (addT T k out) ∧ (edges (addT T k out)).Perm ((k.1, k.2, out.1, out.2) :: edges T) := by
  unfold addT
  by_cases h : T.any (·.1 = k) = true
  · rw [if_pos h]
    refine ⟨?_, ?_⟩
    · unfold TInv; rw [upd_keys]; exact hi
    · apply upd_in out hi
      rw [List.any_eq_true] at h
      obtain ⟨e, he, hek⟩ := h
      simp only [decide_eq_true_eq] at hek
      exact List.mem_map.2 ⟨e, he, hek⟩
  · rw [if_neg h]
    have hk : k ∉ T.map (·.1) := by
      intro hm
      apply h
      obtain ⟨e, he, hek⟩ := List.mem_map.1 hm
      rw [List.any_eq_true]
      exact ⟨e, he, by simpa using hek⟩
    refine ⟨?_, ?_⟩
    · unfold TInv
      rw [List.map_append, List.nodup_append]
      refine ⟨hi, by simp, ?_⟩
      intro a ha b hb
      simp only [List.map_cons, List.map_nil, List.mem_singleton] at hb
      subst hb
      intro hab; subst hab; exact hk ha
    · rw [edges_append, edges_cons, edges_nil]
      simp only [List.map_cons, List.map_nil, List.append_nil]
      exact List.perm_append_singleton _ _

theorem run_cons (o : Obj) (op : Op) (ops : List Op) : run o (op :: ops) = run (step o op) ops := rfl

/-- (1) after any history the transitions present are, with their multiplicities, those the object
had plus those added -/
theorem run_edges (o : Obj) (ops : List Op) (hi : TInv o.delta) :
    TInv (run o ops).delta ∧ (edges (run o ops).delta).Perm (edges o.delta ++ added ops) := by
  induction ops generalizing o with
  | nil => exact ⟨hi, by simp [run, added]⟩
  | cons op ops ih =>
    rw [run_cons]
    cases op with
    | addT q a r out =>
      have hs := addT_spec hi (q, a) (r, out)
      have hd : (step o (.addT q a r out)).delta = addT o.delta (q, a) (r, out) := rfl
      obtain ⟨h1, h2⟩ := ih (step o (.addT q a r out)) (by rw [hd]; exact hs.1)
      refine ⟨h1, ?_⟩
      rw [hd] at h2
      refine h2.trans ?_
      simp only [added]
      exact (hs.2.append_right _).trans List.perm_middle.symm
    | addStart q => exact ih _ hi
    | addFinal q => exact ih _ hi

/-- (2) `get_number_transitions()` counts the transitions present (repetitions included) -/
theorem numTransitions_eq (T : Table) : numTransitions T = (edges T).length := by
  induction T with
  | nil => rfl
  | cons e T ih =>
    rw [edges_cons, List.length_append, List.length_map, ← ih]
    simp [numTransitions]

theorem mem_ins {x y : String} {l : List String} : y ∈ ins x l ↔ y = x ∨ y ∈ l := by
  unfold ins
  by_cases h : x ∈ l
  · rw [if_pos h]
    constructor
    · exact Or.inr
    · rintro (rfl | h1)
      · exact h
      · exact h1
  · rw [if_neg h]; simp [or_comm]

theorem ins_nodup {x : String} {l : List String} (hn : l.Nodup) : (ins x l).Nodup := by
  unfold ins
  by_cases h : x ∈ l
  · rw [if_pos h]; exact hn
  · rw [if_neg h, List.nodup_append]
    refine ⟨hn, by simp, ?_⟩
    intro a ha b hb
    simp only [List.mem_singleton] at hb
    subst hb
    intro hab; subst hab; exact h ha

/-- a mutator call keeps well-formedness and the state list free of repetitions -/
theorem step_wf {o : Obj} (op : Op) (hi : TInv o.delta) (hwf : (toFST o).WF) (hn : o.states.Nodup) :
    (toFST (step o op)).WF ∧ TInv (step o op).delta ∧ (step o op).states.Nodup := by
  have h1 := hwf.starts_sub
  have h2 := hwf.finals_sub
  have h3 := hwf.src
  have h4 := hwf.dst
  simp only [toFST] at h1 h2 h3 h4
  cases op with
  | addT q a r out =>
    have hs := addT_spec hi (q, a) (r, out)
    refine ⟨⟨?_, ?_, ?_, ?_⟩, hs.1, ins_nodup (ins_nodup hn)⟩
    · intro s hs'
      simp only [toFST, step] at hs' ⊢
      simp [mem_ins, h1 s hs']
    · intro s hs'
      simp only [toFST, step] at hs' ⊢
      simp [mem_ins, h2 s hs']
    · intro t ht
      simp only [toFST, step] at ht ⊢
      rcases List.mem_cons.1 (hs.2.mem_iff.1 ht) with rfl | h
      · simp [mem_ins]
      · simp [mem_ins, h3 t h]
    · intro t ht
      simp only [toFST, step] at ht ⊢
      rcases List.mem_cons.1 (hs.2.mem_iff.1 ht) with rfl | h
      · simp [mem_ins]
      · simp [mem_ins, h4 t h]
  | addStart q =>
    refine ⟨⟨?_, ?_, ?_, ?_⟩, hi, ins_nodup hn⟩
    · intro s hs'
      simp only [toFST, step] at hs' ⊢
      rw [mem_ins] at hs' ⊢
      rcases hs' with h | h
      · exact Or.inl h
      · exact Or.inr (h1 s h)
    · intro s hs'; simp only [toFST, step] at hs' ⊢; simp [mem_ins, h2 s hs']
    · intro t ht; simp only [toFST, step] at ht ⊢; simp [mem_ins, h3 t ht]
    · intro t ht; simp only [toFST, step] at ht ⊢; simp [mem_ins, h4 t ht]
  | addFinal q =>
    refine ⟨⟨?_, ?_, ?_, ?_⟩, hi, ins_nodup hn⟩
    · intro s hs'; simp only [toFST, step] at hs' ⊢; simp [mem_ins, h1 s hs']
    · intro s hs'
      simp only [toFST, step] at hs' ⊢
      rw [mem_ins] at hs' ⊢
      rcases hs' with h | h
      · exact Or.inl h
      · exact Or.inr (h2 s h)
    · intro t ht; simp only [toFST, step] at ht ⊢; simp [mem_ins, h3 t ht]
    · intro t ht; simp only [toFST, step] at ht ⊢; simp [mem_ins, h4 t ht]

/-- (3) everything the public API can build stands for a well-formed transducer whose state list has no
repetition — the hypotheses `WF` and `states.Nodup` of `union_rel`, `concatenate_rel`, `kleeneStar_rel` -/
theorem run_wf (o : Obj) (ops : List Op) (hi : TInv o.delta) (hwf : (toFST o).WF) (hn : o.states.Nodup) :
    (toFST (run o ops)).WF ∧ TInv (run o ops).delta ∧ (run o ops).states.Nodup := by
  induction ops generalizing o with
  | nil => exact ⟨hwf, hi, hn⟩
  | cons op ops ih =>
    rw [run_cons]
    obtain ⟨h1, h2, h3⟩ := step_wf op hi hwf hn
    exact ih _ h2 h1 h3

theorem api_wf (ops : List Op) : (toFST (run new ops)).WF ∧ (toFST (run new ops)).states.Nodup := by
  have hwf : (toFST new).WF := by
    refine ⟨?_, ?_, ?_, ?_⟩ <;> intro t ht <;> simp [toFST, new, edges_nil] at ht
  obtain ⟨h1, _, h3⟩ := run_wf new ops (by simp [TInv, new]) hwf (by simp [new])
  exact ⟨h1, h3⟩

end P
end FSTObj
end Pfl
