/-
Helper lemmas for C02_Hopcroft: bookkeeping and the classical Hopcroft invariant for the
step-faithful model `Pfl/Model/Hopcroft.lean`.
-/
import Pfl.Model.Hopcroft
import Pfl.Proofs.FAMin
import Mathlib.Data.List.Basic
import Mathlib.Data.List.Perm.Basic
import Mathlib.Data.List.Perm.Subperm
import Mathlib.Data.List.Nodup
namespace Pfl.ENFA.Hop
open Pfl Pfl.ENFA
set_option linter.unusedSectionVars false
variable {σ : Type} [DecidableEq σ]

/-- the universe: all states plus the trash state -/
def U (A : ENFA σ) : List (Option σ) := A.states.map some ++ [none]

theorem mem_U (A : ENFA σ) (x : Option σ) : x ∈ U A ↔ x = none ∨ ∃ q ∈ A.states, x = some q := by
  cases x <;> simp [U]

theorem none_mem_U (A : ENFA σ) : none ∈ U A := by simp [U]

theorem U_nodup (A : ENFA σ) (hnd : A.states.Nodup) : (U A).Nodup := by
  unfold U
  rw [List.nodup_append]
  refine ⟨hnd.map (fun _ _ h => Option.some.inj h), by simp, ?_⟩
  simp

theorem U_length (A : ENFA σ) : (U A).length = A.states.length + 1 := by simp [U]

/-! ### dnext -/

@[simp] theorem dnext_none (A : ENFA σ) (a : Nat) : A.dnext none a = none := rfl

theorem dnext_some_eq (A : ENFA σ) (p : σ) (a : Nat) (r : σ) (h : A.dnext (some p) a = some r) :
    (p, some a, r) ∈ A.delta := by
  simp only [dnext, Option.bind_some] at h
  exact (mem_succs A p r (some a)).mp (List.mem_of_head? h)

theorem dnext_mem_U (A : ENFA σ) (hA : A.WF) (x : Option σ) (a : Nat) : A.dnext x a ∈ U A := by
  rw [mem_U]
  cases h : A.dnext x a with
  | none => exact Or.inl rfl
  | some r =>
    right
    cases x with
    | none => simp at h
    | some p => exact ⟨r, hA.delta_dst _ (dnext_some_eq A p a r h), rfl⟩

theorem dnext_not_sym (A : ENFA σ) (hA : A.WF) (x : Option σ) (a : Nat) (ha : a ∉ A.syms) :
    A.dnext x a = none := by
  cases x with
  | none => rfl
  | some p =>
    cases h : A.dnext (some p) a with
    | none => rfl
    | some r => exact absurd (hA.delta_sym _ (dnext_some_eq A p a r h) a rfl) ha

theorem rightLang_none (A : ENFA σ) (w : List Nat) : ¬ A.RightLang none w := by
  simp [RightLang]

theorem rightLang_dnext (A : ENFA σ) (hd : A.Deterministic) (he : A.EpsFree) (x : Option σ) (a : Nat)
    (w : List Nat) : A.RightLang x (a :: w) ↔ A.RightLang (A.dnext x a) w := by
  cases x with
  | none => simp [RightLang]
  | some p =>
    cases h : A.dnext (some p) a with
    | some r => exact rightLang_cons hd he (dnext_some_eq A p a r h) w
    | none =>
      simp only [RightLang, he.run_cons_iff, iff_false]
      rintro ⟨f, _, r, hr, _⟩
      have : r ∈ A.succs p (some a) := (mem_succs A p r (some a)).mpr hr
      simp only [dnext, Option.bind_some, List.head?_eq_none_iff] at h
      rw [h] at this
      simp at this

theorem nerode_dnext (A : ENFA σ) (hd : A.Deterministic) (he : A.EpsFree) (x y : Option σ) (a : Nat)
    (h : A.Nerode x y) : A.Nerode (A.dnext x a) (A.dnext y a) := by
  intro w
  rw [← rightLang_dnext A hd he, ← rightLang_dnext A hd he]
  exact h (a :: w)

/-! ### hprev -/

theorem mem_hprev (A : ENFA σ) (x p : Option σ) (a : Nat) :
    p ∈ A.hprev x a ↔ p ∈ U A ∧ A.dnext p a = x := by
  unfold hprev
  cases p with
  | none =>
    simp only [List.mem_append, List.mem_map, List.mem_filter, reduceCtorEq, and_false, exists_false,
      false_or, none_mem_U, dnext_none, true_and]
    by_cases hx : x = none <;> simp [hx, eq_comm]
  | some q =>
    simp only [List.mem_append, List.mem_map, List.mem_filter, decide_eq_true_eq, Option.some.injEq,
      exists_eq_right, mem_U, reduceCtorEq, false_or]
    by_cases hx : x = none <;> simp [hx]

theorem hprev_nodup (A : ENFA σ) (hnd : A.states.Nodup) (x : Option σ) (a : Nat) :
    (A.hprev x a).Nodup := by
  unfold hprev
  rw [List.nodup_append]
  refine ⟨(hnd.filter _).map (fun _ _ h => Option.some.inj h), ?_, ?_⟩
  · split <;> simp
  · intro p hp q hq
    split at hq
    · simp only [List.mem_singleton] at hq
      subst hq
      simp only [List.mem_map] at hp
      obtain ⟨_, _, rfl⟩ := hp
      simp
    · simp at hq

/-! ### classOf, splitClass -/

/-- class `j` of a partition (empty when out of range) -/
def cls {α : Type} (P : List (List α)) (j : Nat) : List α := P.getD j []

theorem cls_lt {α : Type} (P : List (List α)) (i : Nat) (h : i < P.length) : cls P i = P[i] := by
  simp [cls, List.getD_eq_getElem?_getD, h]

theorem cls_ge {α : Type} (P : List (List α)) (i : Nat) (h : P.length ≤ i) : cls P i = [] := by
  simp [cls, List.getD_eq_getElem?_getD, h]

theorem lt_of_mem_cls {α : Type} (P : List (List α)) (i : Nat) (x : α) (h : x ∈ cls P i) :
    i < P.length := by
  by_contra hc
  rw [cls_ge _ _ (by omega)] at h
  simp at h

theorem classOf_eq (P : List (List (Option σ))) (x : Option σ) (i : Nat)
    (hx : x ∈ cls P i) (hd : ∀ j, x ∈ cls P j → j = i) : classOf P x = i := by
  have hi : i < P.length := lt_of_mem_cls _ _ _ hx
  have : (P.zip (List.range P.length)).find? (fun e => decide (x ∈ e.1)) = some (P[i], i) := by
    rw [List.find?_eq_some_iff_getElem]
    refine ⟨by rw [cls_lt _ _ hi] at hx; simpa using hx, i, by simpa using hi, by simp, ?_⟩
    intro j hj
    simp only [List.getElem_zip, Bool.not_eq_eq_eq_not, Bool.not_true, decide_eq_false_iff_not]
    intro hxj
    have := hd j (by rw [cls_lt _ _ (by omega)]; exact hxj)
    omega
  simp [classOf, this]

theorem splitClass_length (P : List (List (Option σ))) (i : Nat) (inv : List (Option σ)) :
    (splitClass P i inv).length = P.length + 1 := by
  simp [splitClass]

theorem splitClass_cls (P : List (List (Option σ))) (i : Nat) (inv : List (Option σ)) (j : Nat) :
    cls (splitClass P i inv) j =
      if j < P.length then
        (if j = i then (cls P j).filter (· ∉ inv.filter fun x => classOf P x = i) else cls P j)
      else if j = P.length then inv.filter fun x => classOf P x = i else [] := by
  simp only [cls, splitClass, List.getD_eq_getElem?_getD, List.getElem?_append]
  split
  · rename_i h
    simp at h
    simp [h]
  · rename_i h
    simp at h
    have : ¬ j < P.length := by omega
    simp [this]
    obtain ⟨k, rfl⟩ : ∃ k, j = P.length + k := ⟨j - P.length, by omega⟩
    cases k <;> simp

structure Good (A : ENFA σ) (P : List (List (Option σ))) : Prop where
  nodup : ∀ j, (cls P j).Nodup
  disj : ∀ j k x, x ∈ cls P j → x ∈ cls P k → j = k
  cover : ∀ x, (∃ j, x ∈ cls P j) ↔ x ∈ U A

variable {A : ENFA σ} {P : List (List (Option σ))} {inv : List (Option σ)}

theorem Good.mem_U (h : Good A P) {j : Nat} {x : Option σ} (hx : x ∈ cls P j) : x ∈ U A :=
  (h.cover x).mp ⟨j, hx⟩

theorem Good.classOf_iff (h : Good A P) (x : Option σ) (hx : x ∈ U A) (i : Nat) :
    classOf P x = i ↔ x ∈ cls P i := by
  obtain ⟨j, hj⟩ := (h.cover x).mpr hx
  have := classOf_eq P x j hj (fun k hk => h.disj k j x hk hj)
  constructor
  · intro hi; rw [← hi, this]; exact hj
  · intro hi; rw [this]; exact h.disj j i x hj hi

theorem Good.moved_eq (h : Good A P) (hinv : ∀ x ∈ inv, x ∈ U A) (i : Nat) :
    (inv.filter fun x => classOf P x = i) = inv.filter (· ∈ cls P i) := by
  apply List.filter_congr
  intro x hx
  simp [h.classOf_iff x (hinv x hx) i]

theorem Good.split_cls (h : Good A P) (hinv : ∀ x ∈ inv, x ∈ U A) (v j : Nat) :
    cls (splitClass P v inv) j =
      if j < P.length then
        (if j = v then (cls P j).filter (· ∉ inv) else cls P j)
      else if j = P.length then inv.filter (· ∈ cls P v) else [] := by
  rw [splitClass_cls, h.moved_eq hinv]
  split
  · split
    · rename_i h1 h2
      subst h2
      apply List.filter_congr
      intro x hx
      simp [hx]
    · rfl
  · rfl

theorem Good.mem_split (h : Good A P) (hinv : ∀ x ∈ inv, x ∈ U A) (v : Nat) (hv : v < P.length)
    (j : Nat) (x : Option σ) :
    x ∈ cls (splitClass P v inv) j ↔
      (j = v ∧ x ∈ cls P v ∧ x ∉ inv) ∨ (j = P.length ∧ x ∈ cls P v ∧ x ∈ inv) ∨
      (j ≠ v ∧ j ≠ P.length ∧ x ∈ cls P j) := by
  rw [h.split_cls hinv]
  split
  · split
    · rename_i h1 h2; subst h2; simp; omega
    · rename_i h1 h2
      have : j ≠ P.length := by omega
      simp [h2, this]
  · split
    · rename_i h1 h2; subst h2
      have : P.length ≠ v := by omega
      simp [this]; tauto
    · rename_i h1 h2
      simp [h2]
      have := cls_ge P j (by omega)
      grind

theorem Good.split (h : Good A P) (hinvnd : inv.Nodup) (hinv : ∀ x ∈ inv, x ∈ U A) (v : Nat)
    (hv : v < P.length) : Good A (splitClass P v inv) := by
  refine ⟨?_, ?_, ?_⟩
  · intro j
    rw [h.split_cls hinv]
    split
    · split
      · exact (h.nodup j).filter _
      · exact h.nodup j
    · split
      · exact hinvnd.filter _
      · exact List.nodup_nil
  · intro j k x hj hk
    rw [h.mem_split hinv v hv] at hj hk
    have := h.disj j k x
    have := h.disj v k x
    have := h.disj j v x
    grind
  · intro x
    rw [← h.cover]
    simp only [h.mem_split hinv v hv]
    constructor
    · rintro ⟨j, hj⟩
      grind
    · rintro ⟨j, hj⟩
      by_cases hjv : j = v
      · subst hjv
        by_cases hx : x ∈ inv
        · exact ⟨P.length, by grind⟩
        · exact ⟨j, by grind⟩
      · have := lt_of_mem_cls _ _ _ hj
        exact ⟨j, by grind⟩

/-! ### the push loop of `refineOne` -/

def pushStep (v nw : Nat) (d : Prop) [Decidable d] (st : HState σ) (a : Nat) : HState σ :=
  if (v, a) ∈ st.incl then hinsert st nw a else if d then hinsert st v a else hinsert st nw a

theorem refineOne_eq (syms : List Nat) (inv : List (Option σ)) (st : HState σ) (v : Nat) :
    refineOne syms inv st v =
      syms.foldl (pushStep v st.part.length
        ((cls (splitClass st.part v inv) v).length < (cls (splitClass st.part v inv) st.part.length).length))
        { st with part := splitClass st.part v inv } := by
  unfold refineOne
  simp only [splitClass_length, Nat.add_sub_cancel]
  rfl

section
variable (v nw : Nat) (d : Prop) [Decidable d]

theorem pushStep_part (st : HState σ) (a : Nat) : (pushStep v nw d st a).part = st.part := by
  unfold pushStep hinsert; split_ifs <;> rfl

theorem pushStep_stack (st : HState σ) (a : Nat) :
    (pushStep v nw d st a).stack = (v, a) :: st.stack ∨ (pushStep v nw d st a).stack = (nw, a) :: st.stack := by
  unfold pushStep hinsert; split_ifs <;> simp

theorem pushStep_incl_mono (st : HState σ) (a : Nat) (e : Nat × Nat) (he : e ∈ st.incl) :
    e ∈ (pushStep v nw d st a).incl := by
  unfold pushStep hinsert; split_ifs <;> simp [he]

theorem pushStep_incl_sub (st : HState σ) (a : Nat) (h : ∀ e ∈ st.incl, e ∈ st.stack) :
    ∀ e ∈ (pushStep v nw d st a).incl, e ∈ (pushStep v nw d st a).stack := by
  unfold pushStep hinsert; split_ifs <;> grind

theorem pushStep_push1 (st : HState σ) (a : Nat) (h : (v, a) ∈ st.incl) :
    (nw, a) ∈ (pushStep v nw d st a).incl := by
  unfold pushStep hinsert; split_ifs <;> simp_all

theorem pushStep_push2 (st : HState σ) (a : Nat) :
    (v, a) ∈ (pushStep v nw d st a).incl ∨ (nw, a) ∈ (pushStep v nw d st a).incl := by
  unfold pushStep hinsert; split_ifs <;> simp_all

theorem pushStep_incl_inv (st : HState σ) (a : Nat) (e : Nat × Nat)
    (he : e ∈ (pushStep v nw d st a).incl) : e ∈ st.incl ∨ e.2 = a := by
  unfold pushStep hinsert at he; split_ifs at he <;> grind

theorem foldl_part (l : List Nat) (st : HState σ) :
    (l.foldl (pushStep v nw d) st).part = st.part := by
  induction l generalizing st with
  | nil => rfl
  | cons a l ih => rw [List.foldl_cons, ih, pushStep_part]

theorem foldl_stack_length (l : List Nat) (st : HState σ) :
    (l.foldl (pushStep v nw d) st).stack.length = st.stack.length + l.length := by
  induction l generalizing st with
  | nil => rfl
  | cons a l ih =>
    rw [List.foldl_cons, ih]
    rcases pushStep_stack v nw d st a with h | h <;> simp [h] <;> omega

theorem foldl_stack_mono (l : List Nat) (st : HState σ) (e : Nat × Nat) (he : e ∈ st.stack) :
    e ∈ (l.foldl (pushStep v nw d) st).stack := by
  induction l generalizing st with
  | nil => exact he
  | cons a l ih =>
    rw [List.foldl_cons]
    apply ih
    rcases pushStep_stack v nw d st a with h | h <;> simp [h, he]

theorem foldl_incl_mono (l : List Nat) (st : HState σ) (e : Nat × Nat) (he : e ∈ st.incl) :
    e ∈ (l.foldl (pushStep v nw d) st).incl := by
  induction l generalizing st with
  | nil => exact he
  | cons a l ih => exact ih _ (pushStep_incl_mono v nw d st a e he)

theorem foldl_incl_sub (l : List Nat) (st : HState σ) (h : ∀ e ∈ st.incl, e ∈ st.stack) :
    ∀ e ∈ (l.foldl (pushStep v nw d) st).incl, e ∈ (l.foldl (pushStep v nw d) st).stack := by
  induction l generalizing st with
  | nil => exact h
  | cons a l ih => exact ih _ (pushStep_incl_sub v nw d st a h)

theorem foldl_push2 (l : List Nat) (st : HState σ) (b : Nat) (hb : b ∈ l) :
    (v, b) ∈ (l.foldl (pushStep v nw d) st).incl ∨ (nw, b) ∈ (l.foldl (pushStep v nw d) st).incl := by
  induction l generalizing st with
  | nil => simp at hb
  | cons a l ih =>
    rw [List.foldl_cons]
    by_cases hbl : b ∈ l
    · exact ih _ hbl
    · have : b = a := by simpa [hbl] using hb
      subst this
      rcases pushStep_push2 v nw d st b with h | h
      · exact Or.inl (foldl_incl_mono v nw d l _ _ h)
      · exact Or.inr (foldl_incl_mono v nw d l _ _ h)

theorem foldl_push1 (l : List Nat) (st : HState σ) (b : Nat) (hb : b ∈ l) (h : (v, b) ∈ st.incl) :
    (nw, b) ∈ (l.foldl (pushStep v nw d) st).incl := by
  induction l generalizing st with
  | nil => simp at hb
  | cons a l ih =>
    rw [List.foldl_cons]
    by_cases hba : b = a
    · subst hba
      exact foldl_incl_mono v nw d l _ _ (pushStep_push1 v nw d st b h)
    · have hbl : b ∈ l := by simpa [hba] using hb
      exact ih _ hbl (pushStep_incl_mono v nw d st a _ h)
end

/-! ### `refineOne` -/
section
variable (syms : List Nat) (inv : List (Option σ)) (st : HState σ) (v : Nat)

theorem refineOne_part : (refineOne syms inv st v).part = splitClass st.part v inv := by
  rw [refineOne_eq, foldl_part]

theorem refineOne_stack_length :
    (refineOne syms inv st v).stack.length = st.stack.length + syms.length := by
  rw [refineOne_eq, foldl_stack_length]

theorem refineOne_incl_mono (e : Nat × Nat) (he : e ∈ st.incl) : e ∈ (refineOne syms inv st v).incl := by
  rw [refineOne_eq]; exact foldl_incl_mono _ _ _ _ _ e he

theorem refineOne_incl_sub (h : ∀ e ∈ st.incl, e ∈ st.stack) :
    ∀ e ∈ (refineOne syms inv st v).incl, e ∈ (refineOne syms inv st v).stack := by
  rw [refineOne_eq]; exact foldl_incl_sub _ _ _ _ _ h

theorem refineOne_push1 (b : Nat) (hb : b ∈ syms) (h : (v, b) ∈ st.incl) :
    (st.part.length, b) ∈ (refineOne syms inv st v).incl := by
  rw [refineOne_eq]; exact foldl_push1 _ _ _ _ _ b hb h

theorem refineOne_push2 (b : Nat) (hb : b ∈ syms) :
    (v, b) ∈ (refineOne syms inv st v).incl ∨ (st.part.length, b) ∈ (refineOne syms inv st v).incl := by
  rw [refineOne_eq]; exact foldl_push2 _ _ _ _ _ b hb
end

/-! ### the bookkeeping invariant -/

structure Inv1 (A : ENFA σ) (P : List (List (Option σ))) : Prop where
  good : Good A P
  ne : ∀ j, 1 ≤ j → j < P.length → cls P j ≠ []


theorem mem_iff_cls {α : Type} (P : List (List α)) (l : List α) : l ∈ P ↔ ∃ j, j < P.length ∧ cls P j = l := by
  rw [List.mem_iff_getElem]
  constructor
  · rintro ⟨j, hj, rfl⟩; exact ⟨j, hj, cls_lt P j hj⟩
  · rintro ⟨j, hj, rfl⟩; exact ⟨j, hj, (cls_lt P j hj).symm⟩

theorem Good.nodup_flatMap (h : Good A P) : (P.flatMap id).Nodup := by
  rw [List.nodup_flatMap]
  constructor
  · intro l hl
    obtain ⟨j, _, rfl⟩ := (mem_iff_cls P l).mp hl
    exact h.nodup j
  · rw [List.pairwise_iff_getElem]
    intro i j hi hj hij
    simp only [Function.onFun, id]
    rw [List.disjoint_left]
    intro x hxi hxj
    rw [← cls_lt P i hi] at hxi
    rw [← cls_lt P j hj] at hxj
    have := h.disj i j x hxi hxj
    omega

theorem Good.flatMap_sub (h : Good A P) : P.flatMap id ⊆ U A := by
  intro x hx
  simp only [List.mem_flatMap, id] at hx
  obtain ⟨l, hl, hxl⟩ := hx
  obtain ⟨j, _, rfl⟩ := (mem_iff_cls P l).mp hl
  exact h.mem_U hxl

theorem length_le_flatMap {α : Type} (tl : List (List α)) (h : ∀ l ∈ tl, l ≠ []) :
    tl.length ≤ (tl.flatMap id).length := by
  induction tl with
  | nil => simp
  | cons l tl ih =>
    have h1 : l ≠ [] := h l (by simp)
    have h2 := ih (fun l' hl' => h l' (by simp [hl']))
    have : 1 ≤ l.length := by
      cases l with
      | nil => exact absurd rfl h1
      | cons => simp
    simp only [List.flatMap_cons, id, List.length_append, List.length_cons]
    omega

theorem Inv1.length_le (h : Inv1 A P) : P.length ≤ A.states.length + 2 := by
  have h1 := h.good.nodup_flatMap.length_le_of_subset h.good.flatMap_sub
  rw [U_length] at h1
  cases P with
  | nil => simp
  | cons hd tl =>
    have h2 : tl.length ≤ (tl.flatMap id).length := by
      apply length_le_flatMap
      intro l hl
      obtain ⟨j, hj, rfl⟩ := (mem_iff_cls tl l).mp hl
      have := h.ne (j + 1) (by omega) (by simp; omega)
      rw [cls_lt _ _ (by simp; omega)] at this
      rw [cls_lt _ _ hj]
      simpa using this
    simp only [List.flatMap_cons, id, List.length_append, List.length_cons] at h1 ⊢
    omega


/-! ### the splitter and `validSets` -/

def invOf (A : ENFA σ) (P : List (List (Option σ))) (c a : Nat) : List (Option σ) :=
  (cls P c).flatMap fun x => A.hprev x a

theorem mem_invOf (A : ENFA σ) (P : List (List (Option σ))) (c a : Nat) (x : Option σ) :
    x ∈ invOf A P c a ↔ x ∈ U A ∧ A.dnext x a ∈ cls P c := by
  simp only [invOf, List.mem_flatMap, mem_hprev]
  constructor
  · rintro ⟨y, hy, hx, rfl⟩; exact ⟨hx, hy⟩
  · rintro ⟨hx, hy⟩; exact ⟨_, hy, hx, rfl⟩

theorem invOf_nodup (hnd : A.states.Nodup) (hG : Good A P) (c a : Nat) : (invOf A P c a).Nodup := by
  unfold invOf
  rw [List.nodup_flatMap]
  refine ⟨fun x _ => hprev_nodup A hnd x a, ?_⟩
  refine (hG.nodup c).imp ?_
  intro x y hxy
  simp only [Function.onFun]
  rw [List.disjoint_left]
  intro p hp hq
  rw [mem_hprev] at hp hq
  exact hxy (hp.2.symm.trans hq.2)

theorem mem_validSets (P : List (List (Option σ))) (inv : List (Option σ)) (v : Nat) :
    v ∈ validSets P inv ↔ v < P.length ∧ (inv.filter fun x => classOf P x = v).length ≠ 0 ∧
      (inv.filter fun x => classOf P x = v).length ≠ (cls P v).length := by
  simp [validSets, cls]

theorem validSets_nodup (P : List (List (Option σ))) (inv : List (Option σ)) :
    (validSets P inv).Nodup := List.nodup_range.filter _

theorem filter_mem_cases {α : Type} [DecidableEq α] (inv C : List α) [∀ x, Decidable (x ∈ C)]
    (hi : inv.Nodup) (hC : C.Nodup) :
    ((inv.filter (· ∈ C)).length = 0 ↔ ∀ x ∈ C, x ∉ inv) ∧
    ((inv.filter (· ∈ C)).length = C.length ↔ ∀ x ∈ C, x ∈ inv) := by
  constructor
  · rw [List.length_eq_zero_iff, List.filter_eq_nil_iff]
    constructor
    · intro h x hx hxi; simpa [hx] using h x hxi
    · intro h x hxi; simpa using fun hx => h x hx hxi
  · have hsub : inv.filter (· ∈ C) ⊆ C := by
      intro x hx; simpa using (List.mem_filter.mp hx).2
    have hnd : (inv.filter (· ∈ C)).Nodup := hi.filter _
    constructor
    · intro h x hx
      have hp := (List.subperm_of_subset hnd hsub).perm_of_length_le (by omega)
      exact (List.mem_filter.mp (hp.mem_iff.mpr hx)).1
    · intro h
      apply List.Perm.length_eq
      rw [List.perm_ext_iff_of_nodup hnd hC]
      intro x
      simp only [List.mem_filter, decide_eq_true_eq]
      exact ⟨fun hx => hx.2, fun hx => ⟨h x hx, hx⟩⟩


def Uniform (inv l : List (Option σ)) : Prop := (∀ x ∈ l, x ∈ inv) ∨ (∀ x ∈ l, x ∉ inv)

theorem Good.valid_iff (h : Good A P) (hinvnd : inv.Nodup) (hinv : ∀ x ∈ inv, x ∈ U A) (v : Nat) :
    v ∈ validSets P inv ↔ v < P.length ∧ ¬ Uniform inv (cls P v) := by
  rw [mem_validSets, h.moved_eq hinv]
  have := filter_mem_cases inv (cls P v) hinvnd (h.nodup v)
  rw [Ne, Ne, this.1, this.2, Uniform]
  tauto

theorem Good.uniform_of_not_valid (h : Good A P) (hinvnd : inv.Nodup) (hinv : ∀ x ∈ inv, x ∈ U A) (v : Nat)
    (hv : v ∉ validSets P inv) : Uniform inv (cls P v) := by
  rw [h.valid_iff hinvnd hinv] at hv
  by_cases hl : v < P.length
  · by_contra hc; exact hv ⟨hl, hc⟩
  · rw [cls_ge _ _ (by omega)]; left; simp

theorem Inv1.split (h : Inv1 A P) (hinvnd : inv.Nodup) (hinv : ∀ x ∈ inv, x ∈ U A) (v : Nat)
    (hv : v < P.length) (hnu : ¬ Uniform inv (cls P v)) : Inv1 A (splitClass P v inv) := by
  refine ⟨h.good.split hinvnd hinv v hv, ?_⟩
  intro j hj1 hj2
  rw [splitClass_length] at hj2
  simp only [Uniform, not_or, not_forall, not_not] at hnu
  obtain ⟨⟨y, hy, hyi⟩, ⟨x, hx, hxi⟩⟩ := hnu
  by_cases hjv : j = v
  · exact List.ne_nil_of_mem ((h.good.mem_split hinv v hv j y).mpr (Or.inl ⟨hjv, hy, hyi⟩))
  · by_cases hjn : j = P.length
    · exact List.ne_nil_of_mem ((h.good.mem_split hinv v hv j x).mpr (Or.inr (Or.inl ⟨hjn, hx, hxi⟩)))
    · have := h.ne j hj1 (by omega)
      obtain ⟨z, hz⟩ := List.exists_mem_of_ne_nil _ this
      exact List.ne_nil_of_mem ((h.good.mem_split hinv v hv j z).mpr (Or.inr (Or.inr ⟨hjv, hjn, hz⟩)))

theorem foldl_refine_length (syms : List Nat) (inv : List (Option σ)) (vs : List Nat) (st : HState σ) :
    (vs.foldl (refineOne syms inv) st).part.length = st.part.length + vs.length ∧
    (vs.foldl (refineOne syms inv) st).stack.length = st.stack.length + syms.length * vs.length := by
  induction vs generalizing st with
  | nil => simp
  | cons v vs ih =>
    rw [List.foldl_cons]
    obtain ⟨h1, h2⟩ := ih (refineOne syms inv st v)
    rw [h1, h2, refineOne_part, splitClass_length, refineOne_stack_length]
    simp only [List.length_cons, Nat.mul_add, Nat.mul_one]
    omega

theorem fold_book (syms : List Nat) (Q : HState σ → Prop)
    (hQ : ∀ st v, Good A st.part → v < st.part.length → Q st → Q (refineOne syms inv st v))
    (P0 : List (List (Option σ))) (hG0 : Good A P0) (hinvnd : inv.Nodup) (hinv : ∀ x ∈ inv, x ∈ U A) :
    ∀ (vs : List Nat) (st : HState σ), vs.Nodup →
      (∀ v ∈ vs, v ∈ validSets P0 inv ∧ cls st.part v = cls P0 v) →
      Inv1 A st.part → P0.length ≤ st.part.length →
      (∀ i, Uniform inv (cls st.part i) ∨ i ∈ vs) → Q st →
      Inv1 A (vs.foldl (refineOne syms inv) st).part ∧
      (∀ i, Uniform inv (cls (vs.foldl (refineOne syms inv) st).part i)) ∧
      Q (vs.foldl (refineOne syms inv) st) := by
  intro vs
  induction vs with
  | nil =>
    intro st _ _ h1 _ hu hq
    exact ⟨h1, fun i => (hu i).resolve_right (by simp), hq⟩
  | cons v vs ih =>
    intro st hnd hvs h1 hlen hu hq
    rw [List.foldl_cons]
    obtain ⟨hv1, hv2⟩ := hvs v (by simp)
    rw [hG0.valid_iff hinvnd hinv] at hv1
    have hvlt : v < st.part.length := by omega
    rw [← hv2] at hv1
    have hms := h1.good.mem_split hinv v hvlt
    apply ih
    · exact (List.nodup_cons.mp hnd).2
    · intro v' hv'
      obtain ⟨h3, h4⟩ := hvs v' (by simp [hv'])
      refine ⟨h3, ?_⟩
      rw [← h4, refineOne_part, h1.good.split_cls hinv]
      have : v' ≠ v := by rintro rfl; exact (List.nodup_cons.mp hnd).1 hv'
      have : v' < st.part.length := by
        have := ((hG0.valid_iff hinvnd hinv v').mp h3).1; omega
      simp [*]
    · rw [refineOne_part]; exact h1.split hinvnd hinv v hvlt hv1.2
    · rw [refineOne_part, splitClass_length]; omega
    · intro i
      rw [refineOne_part]
      by_cases hiv : i = v
      · left; right; intro x hx; rw [hms] at hx; grind
      · by_cases hin : i = st.part.length
        · left; left; intro x hx; rw [hms] at hx; grind
        · rcases hu i with h | h
          · left
            rcases h with h | h
            · left; intro x hx; rw [hms] at hx; grind
            · right; intro x hx; rw [hms] at hx; grind
          · right; simpa [hiv] using h
    · exact hQ st v h1.good hvlt hq


/-! ### the main loop -/

def popState (st : HState σ) (c a : Nat) (rest : List (Nat × Nat)) : HState σ :=
  { st with stack := rest, incl := st.incl.filter (· ≠ (c, a)) }

def iterBody (A : ENFA σ) (st : HState σ) (c a : Nat) (rest : List (Nat × Nat)) : HState σ :=
  (validSets st.part (invOf A st.part c a)).foldl (refineOne A.syms (invOf A st.part c a))
    (popState st c a rest)

theorem loop_nil (A : ENFA σ) (fuel : Nat) (st : HState σ) (h : st.stack = []) :
    hopcroftLoop A fuel st = some st := by
  obtain ⟨p, s, i⟩ := st
  simp only at h
  subst h
  unfold hopcroftLoop
  rfl

theorem loop_zero (A : ENFA σ) (st : HState σ) (h : st.stack ≠ []) :
    hopcroftLoop A 0 st = none := by
  obtain ⟨p, s, i⟩ := st
  cases s with
  | nil => exact absurd rfl h
  | cons e s => unfold hopcroftLoop; rfl

theorem loop_succ (A : ENFA σ) (fuel : Nat) (st : HState σ) (c a : Nat) (rest : List (Nat × Nat))
    (h : st.stack = (c, a) :: rest) :
    hopcroftLoop A (fuel + 1) st = hopcroftLoop A fuel (iterBody A st c a rest) := by
  obtain ⟨p, s, i⟩ := st
  simp only at h
  subst h
  rw [hopcroftLoop]
  · rfl
  · intro _ _ h; cases h


theorem invOf_sub (A : ENFA σ) (P : List (List (Option σ))) (c a : Nat) :
    ∀ x ∈ invOf A P c a, x ∈ U A := fun x hx => ((mem_invOf A P c a x).mp hx).1

theorem iter_book (hnd : A.states.Nodup) (st : HState σ) (c a : Nat) (rest : List (Nat × Nat))
    (h1 : Inv1 A st.part) (Q : HState σ → Prop)
    (hQ : ∀ st' v, Good A st'.part → v < st'.part.length → Q st' →
      Q (refineOne A.syms (invOf A st.part c a) st' v))
    (hq : Q (popState st c a rest)) :
    Inv1 A (iterBody A st c a rest).part ∧
    (∀ i, Uniform (invOf A st.part c a) (cls (iterBody A st c a rest).part i)) ∧
    Q (iterBody A st c a rest) := by
  have hinvnd := invOf_nodup hnd h1.good c a
  have hinv := invOf_sub A st.part c a
  apply fold_book A.syms Q hQ st.part h1.good hinvnd hinv
  · exact validSets_nodup _ _
  · intro v hv; exact ⟨hv, rfl⟩
  · exact h1
  · exact Nat.le_refl _
  · intro i
    by_cases hi : i ∈ validSets st.part (invOf A st.part c a)
    · exact Or.inr hi
    · exact Or.inl (h1.good.uniform_of_not_valid hinvnd hinv i hi)
  · exact hq

theorem iter_inv1 (hnd : A.states.Nodup) (st : HState σ) (c a : Nat) (rest : List (Nat × Nat))
    (h1 : Inv1 A st.part) : Inv1 A (iterBody A st c a rest).part :=
  (iter_book hnd st c a rest h1 (fun _ => True) (fun _ _ _ _ _ => trivial) trivial).1

theorem loop_inv (A : ENFA σ) (Inv : HState σ → Prop)
    (hstep : ∀ st c a rest, st.stack = (c, a) :: rest → Inv st → Inv (iterBody A st c a rest)) :
    ∀ fuel st st', Inv st → hopcroftLoop A fuel st = some st' → Inv st' ∧ st'.stack = [] := by
  intro fuel
  induction fuel with
  | zero =>
    intro st st' hi h
    by_cases hs : st.stack = []
    · rw [loop_nil A 0 st hs] at h
      cases h
      exact ⟨hi, hs⟩
    · rw [loop_zero A st hs] at h
      cases h
  | succ fuel ih =>
    intro st st' hi h
    cases hs : st.stack with
    | nil =>
      rw [loop_nil A _ st hs] at h
      cases h
      exact ⟨hi, hs⟩
    | cons e rest =>
      obtain ⟨c, a⟩ := e
      rw [loop_succ A fuel st c a rest hs] at h
      exact ih _ _ (hstep st c a rest hs hi) h

theorem iter_measure (st : HState σ) (c a : Nat) (rest : List (Nat × Nat)) :
    (iterBody A st c a rest).part.length =
      st.part.length + (validSets st.part (invOf A st.part c a)).length ∧
    (iterBody A st c a rest).stack.length =
      rest.length + A.syms.length * (validSets st.part (invOf A st.part c a)).length :=
  foldl_refine_length _ _ _ _

theorem loop_isSome (hnd : A.states.Nodup) :
    ∀ fuel (st : HState σ), Inv1 A st.part →
      st.stack.length + A.syms.length * (A.states.length + 2 - st.part.length) ≤ fuel →
      (hopcroftLoop A fuel st).isSome := by
  intro fuel
  induction fuel with
  | zero =>
    intro st _ h
    have : st.stack = [] := List.eq_nil_of_length_eq_zero (by omega)
    rw [loop_nil A 0 st this]; rfl
  | succ fuel ih =>
    intro st h1 h
    cases hs : st.stack with
    | nil => rw [loop_nil A _ st hs]; rfl
    | cons e rest =>
      obtain ⟨c, a⟩ := e
      rw [loop_succ A fuel st c a rest hs]
      have h1' := iter_inv1 hnd st c a rest h1
      apply ih _ h1'
      obtain ⟨hp, hst⟩ := iter_measure (A := A) st c a rest
      have hle := h1'.length_le
      rw [hp] at hle ⊢
      rw [hst]
      rw [hs] at h
      simp only [List.length_cons] at h
      generalize (validSets st.part (invOf A st.part c a)).length = k at *
      obtain ⟨m, hm⟩ : ∃ m, A.states.length + 2 - st.part.length = k + m := ⟨A.states.length + 2 - st.part.length - k, by omega⟩
      have : A.states.length + 2 - (st.part.length + k) = m := by omega
      rw [this]
      rw [hm, Nat.mul_add] at h
      omega


/-! ### the initial state -/

def finalsL (A : ENFA σ) : List (Option σ) := (A.states.filter (· ∈ A.finals)).map some
def nonFinalsL (A : ENFA σ) : List (Option σ) := (A.states.filter (· ∉ A.finals)).map some ++ [none]
def toAdd (A : ENFA σ) : Nat := if (nonFinalsL A).length < (finalsL A).length then 1 else 0
def initState (A : ENFA σ) : HState σ :=
  A.syms.foldl (fun st a => hinsert st (toAdd A) a)
    { part := [finalsL A, nonFinalsL A], stack := [], incl := [] }

theorem hopcroft_eq (A : ENFA σ) (fuel : Nat) :
    A.hopcroft fuel = (hopcroftLoop A fuel (initState A)).map (·.part) := rfl

theorem foldl_hinsert (t : Nat) (l : List Nat) (st : HState σ) :
    (l.foldl (fun st a => hinsert st t a) st).part = st.part ∧
    (l.foldl (fun st a => hinsert st t a) st).stack.length = st.stack.length + l.length ∧
    ((∀ e ∈ st.incl, e ∈ st.stack) → ∀ e ∈ (l.foldl (fun st a => hinsert st t a) st).incl,
      e ∈ (l.foldl (fun st a => hinsert st t a) st).stack) ∧
    (∀ e ∈ st.incl, e ∈ (l.foldl (fun st a => hinsert st t a) st).incl) ∧
    (∀ b ∈ l, (t, b) ∈ (l.foldl (fun st a => hinsert st t a) st).incl) := by
  induction l generalizing st with
  | nil => simp
  | cons a l ih =>
    rw [List.foldl_cons]
    obtain ⟨h1, h2, h3, h4, h5⟩ := ih (hinsert st t a)
    refine ⟨h1, ?_, ?_, ?_, ?_⟩
    · rw [h2]; simp [hinsert]; omega
    · intro h; apply h3
      unfold hinsert; split_ifs <;> grind
    · intro e he; apply h4
      unfold hinsert; split_ifs <;> simp [he]
    · intro b hb
      by_cases hba : b = a
      · subst hba
        apply h4
        unfold hinsert; split_ifs <;> simp_all
      · exact h5 b (by simpa [hba] using hb)

theorem initState_part (A : ENFA σ) : (initState A).part = [finalsL A, nonFinalsL A] :=
  (foldl_hinsert _ _ _).1

theorem initState_stack_length (A : ENFA σ) : (initState A).stack.length = A.syms.length := by
  have := (foldl_hinsert (σ := σ) (toAdd A) A.syms { part := [finalsL A, nonFinalsL A], stack := [], incl := [] }).2.1
  simpa [initState] using this

theorem cls_pair {α : Type} (F N : List α) (j : Nat) :
    cls [F, N] j = if j = 0 then F else if j = 1 then N else [] := by
  match j with
  | 0 => rfl
  | 1 => rfl
  | j + 2 => simp [cls]

theorem mem_finalsL (A : ENFA σ) (x : Option σ) :
    x ∈ finalsL A ↔ ∃ p, x = some p ∧ p ∈ A.states ∧ p ∈ A.finals := by
  simp only [finalsL, List.mem_map, List.mem_filter, decide_eq_true_eq]
  constructor
  · rintro ⟨p, hp, rfl⟩; exact ⟨p, rfl, hp⟩
  · rintro ⟨p, rfl, hp⟩; exact ⟨p, hp, rfl⟩

theorem mem_nonFinalsL (A : ENFA σ) (x : Option σ) :
    x ∈ nonFinalsL A ↔ x = none ∨ ∃ p, x = some p ∧ p ∈ A.states ∧ p ∉ A.finals := by
  simp only [nonFinalsL, List.mem_append, List.mem_map, List.mem_filter, decide_eq_true_eq,
    List.mem_singleton]
  constructor
  · rintro (⟨p, hp, rfl⟩ | h)
    · exact Or.inr ⟨p, rfl, by simpa using hp⟩
    · exact Or.inl h
  · rintro (h | ⟨p, rfl, hp⟩)
    · exact Or.inr h
    · exact Or.inl ⟨p, by simpa using hp, rfl⟩

theorem init_inv1 (A : ENFA σ) (hnd : A.states.Nodup) : Inv1 A (initState A).part := by
  rw [initState_part]
  refine ⟨⟨?_, ?_, ?_⟩, ?_⟩
  · intro j
    rw [cls_pair]
    split_ifs
    · exact (hnd.filter _).map (fun _ _ h => Option.some.inj h)
    · unfold nonFinalsL
      rw [List.nodup_append]
      refine ⟨(hnd.filter _).map (fun _ _ h => Option.some.inj h), by simp, ?_⟩
      rintro a ha b hb rfl
      simp at ha hb
      obtain ⟨_, _, h⟩ := ha
      rw [hb] at h
      cases h
    · exact List.nodup_nil
  · intro j k x hj hk
    rw [cls_pair] at hj hk
    split_ifs at hj hk <;> simp_all [mem_finalsL, mem_nonFinalsL] <;> grind
  · intro x
    rw [mem_U]
    constructor
    · rintro ⟨j, hj⟩
      rw [cls_pair] at hj
      split_ifs at hj <;> simp_all [mem_finalsL, mem_nonFinalsL] <;> grind
    · rintro (rfl | ⟨q, hq, rfl⟩)
      · exact ⟨1, by simp [cls_pair, mem_nonFinalsL]⟩
      · by_cases hf : q ∈ A.finals
        · exact ⟨0, by simp [cls_pair, mem_finalsL, hq, hf]⟩
        · exact ⟨1, by simp [cls_pair, mem_nonFinalsL, hq, hf]⟩
  · intro j hj1 hj2
    have : j = 1 := by simp at hj2; omega
    subst this
    simp [cls_pair, nonFinalsL]


/-! ### the correctness invariant -/

structure Mid (A : ENFA σ) (C : Nat → Option σ → Option σ → Prop) (st : HState σ) : Prop where
  incl_sub : ∀ e ∈ st.incl, e ∈ st.stack
  nc : ∀ x y, x ∈ U A → y ∈ U A → A.Nerode x y → ∀ j, x ∈ cls st.part j → y ∈ cls st.part j
  fr : ∀ j x y, x ∈ cls st.part j → y ∈ cls st.part j → (A.RightLang x [] ↔ A.RightLang y [])
  hi : ∃ E : Nat → Nat → Nat → Prop,
    (∀ b i x y j k, x ∈ cls st.part i → y ∈ cls st.part i → C b x y →
       A.dnext x b ∈ cls st.part j → A.dnext y b ∈ cls st.part k → E b j k) ∧
    (∀ b ∈ A.syms, ∀ j k, j < st.part.length → k < st.part.length → j ≠ k → E b j k →
       (j, b) ∈ st.incl ∨ (k, b) ∈ st.incl)

theorem Good.split_sub (h : Good A P) (hinv : ∀ x ∈ inv, x ∈ U A) (v : Nat) (hv : v < P.length)
    (j : Nat) (x : Option σ) (hx : x ∈ cls (splitClass P v inv) j) :
    x ∈ cls P (if j = P.length then v else j) := by
  rw [h.mem_split hinv v hv] at hx
  grind

theorem Mid.refine {C : Nat → Option σ → Option σ → Prop} {st : HState σ} {v : Nat}
    (hm : Mid A C st) (hG : Good A st.part) (hinv : ∀ x ∈ inv, x ∈ U A) (hv : v < st.part.length)
    (hcl : ∀ x y, x ∈ U A → y ∈ U A → A.Nerode x y → (x ∈ inv ↔ y ∈ inv)) :
    Mid A C (refineOne A.syms inv st v) := by
  have hms := hG.mem_split hinv v hv
  have hsub := hG.split_sub hinv v hv
  refine ⟨refineOne_incl_sub _ _ _ _ hm.incl_sub, ?_, ?_, ?_⟩
  · intro x y hx hy hn j hxj
    rw [refineOne_part] at hxj ⊢
    rw [hms] at hxj ⊢
    have h1 := hcl x y hx hy hn
    have h2 := hm.nc x y hx hy hn
    grind
  · intro j x y hx hy
    rw [refineOne_part] at hx hy
    exact hm.fr _ x y (hsub j x hx) (hsub j y hy)
  · obtain ⟨E, hE1, hE2⟩ := hm.hi
    let r : Nat → Nat := fun j => if j = st.part.length then v else j
    refine ⟨fun b j k => E b (r j) (r k), ?_, ?_⟩
    · intro b i x y j k hx hy hc hxj hyk
      rw [refineOne_part] at hx hy hxj hyk
      exact hE1 b (r i) x y (r j) (r k) (hsub i x hx) (hsub i y hy) hc (hsub j _ hxj) (hsub k _ hyk)
    · intro b hb j k hj hk hjk hE
      rw [refineOne_part, splitClass_length] at hj hk
      have hmono := refineOne_incl_mono A.syms inv st v
      have hp1 := refineOne_push1 A.syms inv st v b hb
      have hp2 := refineOne_push2 A.syms inv st v b hb
      simp only [r] at hE
      by_cases hjn : j = st.part.length
      · have hkn : k ≠ st.part.length := by omega
        rw [if_pos hjn, if_neg hkn] at hE
        rw [hjn]
        by_cases hkv : k = v
        · rw [hkv]; exact hp2.symm
        · rcases hE2 b hb v k hv (by omega) (Ne.symm hkv) hE with h | h
          · exact Or.inl (hp1 h)
          · exact Or.inr (hmono _ h)
      · by_cases hkn : k = st.part.length
        · rw [if_neg hjn, if_pos hkn] at hE
          rw [hkn]
          by_cases hjv : j = v
          · rw [hjv]; exact hp2
          · rcases hE2 b hb j v (by omega) hv hjv hE with h | h
            · exact Or.inl (hmono _ h)
            · exact Or.inr (hp1 h)
        · rw [if_neg hjn, if_neg hkn] at hE
          rcases hE2 b hb j k (by omega) (by omega) hjk hE with h | h
          · exact Or.inl (hmono _ h)
          · exact Or.inr (hmono _ h)

theorem Mid.pop {st : HState σ} {c a : Nat} {rest : List (Nat × Nat)}
    (hm : Mid A (fun _ _ _ => True) st) (hG : Good A st.part) (hs : st.stack = (c, a) :: rest) :
    Mid A (fun b x y => b = a → (A.dnext x a ∈ cls st.part c ↔ A.dnext y a ∈ cls st.part c))
      (popState st c a rest) := by
  refine ⟨?_, hm.nc, hm.fr, ?_⟩
  · intro e he
    simp only [popState, List.mem_filter, decide_eq_true_eq] at he ⊢
    have := hm.incl_sub e he.1
    rw [hs] at this
    simpa [he.2] using this
  · obtain ⟨E, hE1, hE2⟩ := hm.hi
    refine ⟨fun b j k => E b j k ∧ (b = a → (j = c ↔ k = c)), ?_, ?_⟩
    · intro b i x y j k hx hy hc hxj hyk
      refine ⟨hE1 b i x y j k hx hy trivial hxj hyk, ?_⟩
      rintro rfl
      have hc := hc rfl
      simp only [popState] at hxj hyk
      constructor
      · rintro rfl
        exact hG.disj _ _ _ hyk (hc.mp hxj)
      · rintro rfl
        exact hG.disj _ _ _ hxj (hc.mpr hyk)
    · intro b hb j k hj hk hjk hE
      simp only [popState, List.mem_filter, decide_eq_true_eq]
      have h1 : (j, b) ≠ (c, a) := by
        intro h
        simp only [Prod.mk.injEq] at h
        exact hjk (h.1.trans ((hE.2 h.2).mp h.1).symm)
      have h2 : (k, b) ≠ (c, a) := by
        intro h
        simp only [Prod.mk.injEq] at h
        exact hjk (((hE.2 h.2).mpr h.1).trans h.1.symm)
      rcases hE2 b hb j k hj hk hjk hE.1 with h | h
      · exact Or.inl ⟨h, h1⟩
      · exact Or.inr ⟨h, h2⟩

theorem Mid.finish {C : Nat → Option σ → Option σ → Prop} {st : HState σ} (hm : Mid A C st)
    (hu : ∀ b i x y, x ∈ cls st.part i → y ∈ cls st.part i → C b x y) :
    Mid A (fun _ _ _ => True) st := by
  refine ⟨hm.incl_sub, hm.nc, hm.fr, ?_⟩
  obtain ⟨E, hE1, hE2⟩ := hm.hi
  exact ⟨E, fun b i x y j k hx hy _ => hE1 b i x y j k hx hy (hu b i x y hx hy), hE2⟩

theorem iter_inv2 (hA : A.WF) (hd : A.Deterministic) (he : A.EpsFree) (hnd : A.states.Nodup)
    (st : HState σ) (c a : Nat) (rest : List (Nat × Nat)) (hs : st.stack = (c, a) :: rest)
    (h1 : Inv1 A st.part) (hm : Mid A (fun _ _ _ => True) st) :
    Mid A (fun _ _ _ => True) (iterBody A st c a rest) := by
  have hcl : ∀ x y, x ∈ U A → y ∈ U A → A.Nerode x y →
      (x ∈ invOf A st.part c a ↔ y ∈ invOf A st.part c a) := by
    intro x y hx hy hn
    simp only [mem_invOf, hx, hy, true_and]
    have hn' := nerode_dnext A hd he x y a hn
    exact ⟨hm.nc _ _ (dnext_mem_U A hA _ _) (dnext_mem_U A hA _ _) hn' c,
      hm.nc _ _ (dnext_mem_U A hA _ _) (dnext_mem_U A hA _ _) hn'.symm c⟩
  obtain ⟨h1', hu, hq⟩ := iter_book hnd st c a rest h1 (Mid A _)
    (fun st' v hG hv hq => Mid.refine hq hG (invOf_sub A st.part c a) hv hcl) (hm.pop h1.good hs)
  apply hq.finish
  intro b i x y hx hy hb
  have hxU := h1'.good.mem_U hx
  have hyU := h1'.good.mem_U hy
  have := hu i
  simp only [Uniform, mem_invOf] at this
  rcases this with h | h
  · exact ⟨fun _ => (h y hy).2, fun _ => (h x hx).2⟩
  · exact ⟨fun hh => absurd ⟨hxU, hh⟩ (h x hx), fun hh => absurd ⟨hyU, hh⟩ (h y hy)⟩


theorem mem_finalsL' (he : A.EpsFree) (x : Option σ) :
    x ∈ finalsL A ↔ x ∈ U A ∧ A.RightLang x [] := by
  rw [mem_finalsL, mem_U]
  cases x with
  | none => simp [rightLang_none]
  | some p =>
    rw [rightLang_nil he]
    simp only [Option.some.injEq, reduceCtorEq, false_or]
    constructor
    · rintro ⟨q, rfl, h1, h2⟩; exact ⟨⟨_, h1, rfl⟩, h2⟩
    · rintro ⟨⟨q, h1, rfl⟩, h2⟩; exact ⟨_, rfl, h1, h2⟩

theorem mem_nonFinalsL' (he : A.EpsFree) (x : Option σ) :
    x ∈ nonFinalsL A ↔ x ∈ U A ∧ ¬ A.RightLang x [] := by
  rw [mem_nonFinalsL, mem_U]
  cases x with
  | none => simp [rightLang_none]
  | some p =>
    rw [rightLang_nil he]
    simp only [Option.some.injEq, reduceCtorEq, false_or]
    constructor
    · rintro ⟨q, rfl, h1, h2⟩; exact ⟨⟨_, h1, rfl⟩, h2⟩
    · rintro ⟨⟨q, h1, rfl⟩, h2⟩; exact ⟨_, rfl, h1, h2⟩

theorem init_mid (he : A.EpsFree) : Mid A (fun _ _ _ => True) (initState A) := by
  obtain ⟨h1, h2, h3, h4, h5⟩ := foldl_hinsert (σ := σ) (toAdd A) A.syms
    { part := [finalsL A, nonFinalsL A], stack := [], incl := [] }
  have hF := mem_finalsL' he
  have hN := mem_nonFinalsL' he
  refine ⟨h3 (by simp), ?_, ?_, ?_⟩
  · intro x y hx hy hn j hxj
    rw [initState_part, cls_pair] at hxj ⊢
    have := hn []
    split_ifs at hxj ⊢ <;> simp_all
  · intro j x y hx hy
    rw [initState_part, cls_pair] at hx hy
    split_ifs at hx hy <;> simp_all
  · refine ⟨fun _ _ _ => True, fun _ _ _ _ _ _ _ _ _ _ _ => trivial, ?_⟩
    intro b hb j k hj hk hjk _
    rw [initState_part] at hj hk
    simp only [List.length_cons, List.length_nil] at hj hk
    have ht : toAdd A = 0 ∨ toAdd A = 1 := by unfold toAdd; split_ifs <;> simp
    have hb' : (toAdd A, b) ∈ (initState A).incl := h5 b hb
    have : j = toAdd A ∨ k = toAdd A := by omega
    rcases this with h | h
    · left; rw [h]; exact hb'
    · right; rw [h]; exact hb'

theorem final_partition (hA : A.WF) (hd : A.Deterministic) (he : A.EpsFree) (st : HState σ)
    (h1 : Inv1 A st.part) (hm : Mid A (fun _ _ _ => True) st) (hs : st.stack = []) :
    A.IsNerodePartition (st.part.filter (· ≠ [])) := by
  have hincl : ∀ e, e ∉ st.incl := by
    intro e he'
    have := hm.incl_sub e he'
    rw [hs] at this
    simp at this
  obtain ⟨E, hE1, hE2⟩ := hm.hi
  have hstab : ∀ b ∈ A.syms, ∀ i x y j k, x ∈ cls st.part i → y ∈ cls st.part i →
      A.dnext x b ∈ cls st.part j → A.dnext y b ∈ cls st.part k → j = k := by
    intro b hb i x y j k hx hy hxj hyk
    by_contra hjk
    rcases hE2 b hb j k (lt_of_mem_cls _ _ _ hxj) (lt_of_mem_cls _ _ _ hyk) hjk
      (hE1 b i x y j k hx hy trivial hxj hyk) with h | h
    · exact hincl _ h
    · exact hincl _ h
  have hsame : ∀ w i x y, x ∈ cls st.part i → y ∈ cls st.part i →
      (A.RightLang x w ↔ A.RightLang y w) := by
    intro w
    induction w with
    | nil => intro i x y hx hy; exact hm.fr i x y hx hy
    | cons a w ih =>
      intro i x y hx hy
      rw [rightLang_dnext A hd he, rightLang_dnext A hd he]
      by_cases ha : a ∈ A.syms
      · obtain ⟨j, hj⟩ := (h1.good.cover _).mpr (dnext_mem_U A hA x a)
        obtain ⟨k, hk⟩ := (h1.good.cover _).mpr (dnext_mem_U A hA y a)
        have := hstab a ha i x y j k hx hy hj hk
        subst this
        exact ih j _ _ hj hk
      · rw [dnext_not_sym A hA x a ha, dnext_not_sym A hA y a ha]
  have hmem : ∀ g, g ∈ st.part.filter (· ≠ []) ↔ ∃ j, cls st.part j = g ∧ g ≠ [] := by
    intro g
    simp only [List.mem_filter, mem_iff_cls, decide_eq_true_eq]
    constructor
    · rintro ⟨⟨j, _, hj⟩, hg⟩; exact ⟨j, hj, hg⟩
    · rintro ⟨j, hj, hg⟩
      refine ⟨⟨j, ?_, hj⟩, hg⟩
      by_contra hc
      rw [cls_ge _ _ (by omega)] at hj
      exact hg hj.symm
  refine ⟨?_, ?_, ?_⟩
  · intro x
    rw [← mem_U, ← h1.good.cover]
    constructor
    · rintro ⟨g, hg, hx⟩
      obtain ⟨j, rfl, _⟩ := (hmem g).mp hg
      exact ⟨j, hx⟩
    · rintro ⟨j, hx⟩
      exact ⟨_, (hmem _).mpr ⟨j, rfl, List.ne_nil_of_mem hx⟩, hx⟩
  · intro g hg x hx y hy w
    obtain ⟨j, rfl, _⟩ := (hmem g).mp hg
    exact hsame w j x y hx hy
  · intro g hg g' hg' x hx y hy hn
    obtain ⟨j, rfl, _⟩ := (hmem g).mp hg
    obtain ⟨k, rfl, _⟩ := (hmem g').mp hg'
    have := hm.nc x y (h1.good.mem_U hx) (h1.good.mem_U hy) hn j hx
    rw [h1.good.disj j k y this hy]

theorem hopcroft_correct (hA : A.WF) (hd : A.Deterministic) (he : A.EpsFree) (hnd : A.states.Nodup)
    (fuel : Nat) (gs : List (List (Option σ))) (h : A.hopcroft fuel = some gs) :
    A.IsNerodePartition (gs.filter (· ≠ [])) := by
  rw [hopcroft_eq, Option.map_eq_some_iff] at h
  obtain ⟨st', hst', rfl⟩ := h
  have := loop_inv A (fun st => Inv1 A st.part ∧ Mid A (fun _ _ _ => True) st)
    (fun st c a rest hs h => ⟨iter_inv1 hnd st c a rest h.1, iter_inv2 hA hd he hnd st c a rest hs h.1 h.2⟩)
    fuel _ st' ⟨init_inv1 A hnd, init_mid he⟩ hst'
  exact final_partition hA hd he st' this.1.1 this.1.2 this.2

end Pfl.ENFA.Hop
