/-
Helper lemmas for C02 (minimisation): right languages, the Nerode oracle, the greedy grouping,
and the quotient automaton built by `minimizeOf`.
-/
import Pfl.Model.Minimize
import Pfl.Props.C04_Oracle
import Pfl.Props.C04_Words
import Pfl.Proofs.FARef
namespace Pfl
namespace ENFA
set_option linter.unusedSectionVars false
variable {σ κ : Type} [DecidableEq σ] [DecidableEq κ]

/-- right language of a state; `none` is the implicit trash state -/
def RightLang (A : ENFA σ) : Option σ → List Nat → Prop
  | none, _ => False
  | some p, w => ∃ f ∈ A.finals, A.Run p w f

/-- Nerode equivalence of two states -/
def Nerode (A : ENFA σ) (p q : Option σ) : Prop := ∀ w, A.RightLang p w ↔ A.RightLang q w

/-- `gs` lists the Nerode classes of `none :: states` -/
structure IsNerodePartition (A : ENFA σ) (gs : List (List (Option σ))) : Prop where
  cover : ∀ x, (∃ g ∈ gs, x ∈ g) ↔ (x = none ∨ ∃ q ∈ A.states, x = some q)
  same : ∀ g ∈ gs, ∀ x ∈ g, ∀ y ∈ g, A.Nerode x y
  sep : ∀ g ∈ gs, ∀ g' ∈ gs, ∀ x ∈ g, ∀ y ∈ g', A.Nerode x y → g = g'

/-- every state reachable, any two different states distinguishable -/
def Reduced (M : ENFA κ) : Prop :=
  (∀ k ∈ M.states, ∃ s ∈ M.starts, ∃ w, M.Run s w k) ∧
  (∀ k ∈ M.states, ∀ k' ∈ M.states, M.Nerode (some k) (some k') → k = k')

/-! ### Nerode equivalence -/

theorem Nerode.refl (A : ENFA σ) (p : Option σ) : A.Nerode p p := fun _ => Iff.rfl

theorem Nerode.symm {A : ENFA σ} {p q : Option σ} (h : A.Nerode p q) : A.Nerode q p :=
  fun w => (h w).symm

theorem Nerode.trans {A : ENFA σ} {p q r : Option σ} (h₁ : A.Nerode p q) (h₂ : A.Nerode q r) :
    A.Nerode p r := fun w => (h₁ w).trans (h₂ w)

/-! ### the oracle `sameRight` -/

theorem withStart_lang (A : ENFA σ) (p : Option σ) (w : List Nat) :
    (A.withStart p).Lang w ↔ A.RightLang p w := by
  have hrun : ∀ q r, (A.withStart p).Run q w r ↔ A.Run q w r :=
    fun q r => run_congr (A := A.withStart p) (B := A) (fun _ => Iff.rfl) q r w
  cases p with
  | none => simp [Lang, withStart, RightLang]
  | some x =>
    simp only [Lang, RightLang]
    constructor
    · rintro ⟨s, hs, f, hf, hr⟩
      have : s = x := by simpa [withStart] using hs
      subst this
      exact ⟨f, hf, (hrun _ _).mp hr⟩
    · rintro ⟨f, hf, hr⟩
      exact ⟨x, by simp [withStart], f, hf, (hrun _ _).mpr hr⟩

theorem withStart_wf (A : ENFA σ) (hA : A.WF) (p : Option σ)
    (hp : ∀ x, p = some x → x ∈ A.states) : (A.withStart p).WF := by
  refine ⟨?_, hA.finals_sub, hA.delta_src, hA.delta_dst, hA.delta_sym⟩
  intro q hq
  cases p with
  | none => simp [withStart] at hq
  | some x =>
    have : q = x := by simpa [withStart] using hq
    subst this
    exact hp _ rfl

theorem sameRight_iff' (A : ENFA σ) (hA : A.WF) (fuel : Nat) (p q : Option σ)
    (hp : ∀ x, p = some x → x ∈ A.states) (hq : ∀ x, q = some x → x ∈ A.states) (b : Bool)
    (h : A.sameRight fuel p q = some b) : b = true ↔ A.Nerode p q := by
  unfold sameRight at h
  obtain ⟨r, hr, hb⟩ := Option.map_eq_some_iff.mp h
  have := langDiff_none_iff _ _ (withStart_wf A hA p hp) (withStart_wf A hA q hq) fuel r hr
  subst hb
  rw [Option.isNone_iff_eq_none, this]
  unfold Nerode
  simp only [withStart_lang]

/-! ### the greedy grouping -/

/-- groups of Nerode-equivalent elements, pairwise inequivalent, covering the list `done` -/
structure GroupInv (A : ENFA σ) (done : List (Option σ)) (gs : List (List (Option σ))) : Prop where
  ne : ∀ g ∈ gs, g ≠ []
  cover : ∀ x, (∃ g ∈ gs, x ∈ g) ↔ x ∈ done
  same : ∀ g ∈ gs, ∀ x ∈ g, ∀ y ∈ g, A.Nerode x y
  sep : gs.Pairwise fun g g' => ∀ x ∈ g, ∀ y ∈ g', ¬ A.Nerode x y

theorem insertGroup_spec (A : ENFA σ) (hA : A.WF) (fuel : Nat) (x : Option σ)
    (hx : ∀ q, x = some q → q ∈ A.states) :
    ∀ (gs gs' : List (List (Option σ))),
      (∀ g ∈ gs, ∀ y ∈ g, ∀ q, y = some q → q ∈ A.states) →
      (∀ g ∈ gs, g ≠ []) →
      (∀ g ∈ gs, ∀ x ∈ g, ∀ y ∈ g, A.Nerode x y) →
      (gs.Pairwise fun g g' => ∀ x ∈ g, ∀ y ∈ g', ¬ A.Nerode x y) →
      A.insertGroup fuel x gs = some gs' →
      (∀ g ∈ gs', g ≠ []) ∧
      (∀ y, (∃ g ∈ gs', y ∈ g) ↔ ((∃ g ∈ gs, y ∈ g) ∨ y = x)) ∧
      (∀ g ∈ gs', ∀ x ∈ g, ∀ y ∈ g, A.Nerode x y) ∧
      (gs'.Pairwise fun g g' => ∀ x ∈ g, ∀ y ∈ g', ¬ A.Nerode x y) := by
  intro gs
  induction gs with
  | nil =>
    intro gs' _ _ _ _ h
    simp only [insertGroup, Option.some.injEq] at h
    subst h
    refine ⟨by simp, by simp, ?_, by simp⟩
    intro g hg a ha b hb
    simp only [List.mem_singleton] at hg
    subst hg
    simp only [List.mem_singleton] at ha hb
    subst ha hb
    exact Nerode.refl A _
  | cons g0 gs ih =>
    intro gs' hst hne hsame hsep h
    cases g0 with
    | nil => exact absurd rfl (hne [] List.mem_cons_self)
    | cons r g =>
      have hr : ∀ q, r = some q → q ∈ A.states := hst _ List.mem_cons_self r List.mem_cons_self
      rw [List.pairwise_cons] at hsep
      simp only [insertGroup] at h
      cases hsr : A.sameRight fuel r x with
      | none => rw [hsr] at h; cases h
      | some b =>
        have hb := sameRight_iff' A hA fuel r x hr hx b hsr
        rw [hsr] at h
        cases b with
        | true =>
          have hrx : A.Nerode r x := hb.mp rfl
          simp only [Option.some.injEq] at h
          subst h
          have hmem : ∀ y, y ∈ r :: g ++ [x] ↔ y ∈ r :: g ∨ y = x := by
            intro y; simp [List.mem_append, or_assoc]
          have hnew : ∀ y ∈ r :: g ++ [x], A.Nerode r y := by
            intro y hy
            rcases (hmem y).mp hy with hy | rfl
            · exact hsame _ List.mem_cons_self r List.mem_cons_self y hy
            · exact hrx
          refine ⟨?_, ?_, ?_, ?_⟩
          · intro g' hg'
            rcases List.mem_cons.mp hg' with rfl | hg'
            · simp
            · exact hne _ (List.mem_cons_of_mem _ hg')
          · intro y
            constructor
            · rintro ⟨g', hg', hy⟩
              rcases List.mem_cons.mp hg' with rfl | hg'
              · rcases (hmem y).mp hy with hy | rfl
                · exact Or.inl ⟨_, List.mem_cons_self, hy⟩
                · exact Or.inr rfl
              · exact Or.inl ⟨g', List.mem_cons_of_mem _ hg', hy⟩
            · rintro (⟨g', hg', hy⟩ | rfl)
              · rcases List.mem_cons.mp hg' with rfl | hg'
                · exact ⟨_, List.mem_cons_self, (hmem y).mpr (Or.inl hy)⟩
                · exact ⟨g', List.mem_cons_of_mem _ hg', hy⟩
              · exact ⟨_, List.mem_cons_self, (hmem _).mpr (Or.inr rfl)⟩
          · intro g' hg' a ha b hb'
            rcases List.mem_cons.mp hg' with rfl | hg'
            · exact (hnew a ha).symm.trans (hnew b hb')
            · exact hsame g' (List.mem_cons_of_mem _ hg') a ha b hb'
          · rw [List.pairwise_cons]
            refine ⟨?_, hsep.2⟩
            intro g' hg' a ha b hb' hab
            have h1 : A.Nerode r b := (hnew a ha).trans hab
            exact hsep.1 g' hg' r List.mem_cons_self b hb' h1
        | false =>
          have hrx : ¬ A.Nerode r x := fun hn => by simpa using hb.mpr hn
          obtain ⟨gs'', hins, hgs''⟩ := Option.map_eq_some_iff.mp h
          subst hgs''
          obtain ⟨i1, i2, i3, i4⟩ := ih gs''
            (fun g' hg' => hst g' (List.mem_cons_of_mem _ hg'))
            (fun g' hg' => hne g' (List.mem_cons_of_mem _ hg'))
            (fun g' hg' => hsame g' (List.mem_cons_of_mem _ hg')) hsep.2 hins
          refine ⟨?_, ?_, ?_, ?_⟩
          · intro g' hg'
            rcases List.mem_cons.mp hg' with rfl | hg'
            · simp
            · exact i1 _ hg'
          · intro y
            constructor
            · rintro ⟨g', hg', hy⟩
              rcases List.mem_cons.mp hg' with rfl | hg'
              · exact Or.inl ⟨_, List.mem_cons_self, hy⟩
              · rcases (i2 y).mp ⟨g', hg', hy⟩ with ⟨g'', hg'', hy⟩ | rfl
                · exact Or.inl ⟨g'', List.mem_cons_of_mem _ hg'', hy⟩
                · exact Or.inr rfl
            · rintro (⟨g', hg', hy⟩ | rfl)
              · rcases List.mem_cons.mp hg' with rfl | hg'
                · exact ⟨_, List.mem_cons_self, hy⟩
                · obtain ⟨g'', hg'', hy⟩ := (i2 y).mpr (Or.inl ⟨g', hg', hy⟩)
                  exact ⟨g'', List.mem_cons_of_mem _ hg'', hy⟩
              · obtain ⟨g'', hg'', hy⟩ := (i2 _).mpr (Or.inr rfl)
                exact ⟨g'', List.mem_cons_of_mem _ hg'', hy⟩
          · intro g' hg' a ha b hb'
            rcases List.mem_cons.mp hg' with rfl | hg'
            · exact hsame _ List.mem_cons_self a ha b hb'
            · exact i3 g' hg' a ha b hb'
          · rw [List.pairwise_cons]
            refine ⟨?_, i4⟩
            intro g' hg' a ha b hb' hab
            rcases (i2 b).mp ⟨g', hg', hb'⟩ with ⟨g'', hg'', hb''⟩ | rfl
            · exact hsep.1 g'' hg'' a ha b hb'' hab
            · exact hrx ((hsame _ List.mem_cons_self r List.mem_cons_self a ha).trans hab)

theorem foldlM_insertGroup_spec (A : ENFA σ) (hA : A.WF) (fuel : Nat) :
    ∀ (l done : List (Option σ)) (gs gs' : List (List (Option σ))),
      (∀ x ∈ l, ∀ q, x = some q → q ∈ A.states) →
      (∀ x ∈ done, ∀ q, x = some q → q ∈ A.states) →
      A.GroupInv done gs →
      l.foldlM (fun gs x => A.insertGroup fuel x gs) gs = some gs' →
      A.GroupInv (done ++ l) gs' := by
  intro l
  induction l with
  | nil =>
    intro done gs gs' _ _ hinv h
    simp only [List.foldlM_nil, pure, Option.some.injEq] at h
    subst h
    simpa using hinv
  | cons x l ih =>
    intro done gs gs' hl hdone hinv h
    rw [List.foldlM_cons] at h
    obtain ⟨gs1, h1, h2⟩ := Option.bind_eq_some_iff.mp h
    have hst : ∀ g ∈ gs, ∀ y ∈ g, ∀ q, y = some q → q ∈ A.states := by
      intro g hg y hy
      exact hdone y ((hinv.cover y).mp ⟨g, hg, hy⟩)
    obtain ⟨j1, j2, j3, j4⟩ := insertGroup_spec A hA fuel x (hl x List.mem_cons_self) gs gs1 hst
      hinv.ne hinv.same hinv.sep h1
    have hinv1 : A.GroupInv (done ++ [x]) gs1 := by
      refine ⟨j1, ?_, j3, j4⟩
      intro y
      rw [j2 y, hinv.cover y]
      simp [List.mem_append]
    have := ih (done ++ [x]) gs1 gs' (fun y hy => hl y (List.mem_cons_of_mem _ hy)) ?_ hinv1 h2
    · simpa using this
    · intro y hy
      rcases List.mem_append.mp hy with hy | hy
      · exact hdone y hy
      · simp only [List.mem_singleton] at hy
        subst hy
        exact hl _ List.mem_cons_self

theorem pairwise_eq_or {α : Type} {R : α → α → Prop} (hsymm : ∀ a b, R a b → R b a) :
    ∀ l : List α, l.Pairwise R → ∀ a ∈ l, ∀ b ∈ l, a = b ∨ R a b := by
  intro l
  induction l with
  | nil => intro _ a ha; cases ha
  | cons c l ih =>
    intro h a ha b hb
    rw [List.pairwise_cons] at h
    rcases List.mem_cons.mp ha with rfl | ha' <;> rcases List.mem_cons.mp hb with rfl | hb'
    · exact Or.inl rfl
    · exact Or.inr (h.1 b hb')
    · exact Or.inr (hsymm _ _ (h.1 a ha'))
    · exact ih h.2 a ha' b hb'

theorem nerodeGroups_spec' (A : ENFA σ) (hA : A.WF) (fuel : Nat) (gs : List (List (Option σ)))
    (h : A.nerodeGroups fuel = some gs) : A.IsNerodePartition gs := by
  unfold nerodeGroups at h
  have hinv := foldlM_insertGroup_spec A hA fuel _ [] [] gs ?_ (by simp)
    ⟨by simp, by simp, by simp, by simp⟩ h
  · refine ⟨?_, hinv.same, ?_⟩
    · intro x
      rw [hinv.cover x]
      simp only [List.nil_append, List.mem_cons, List.mem_map, List.mem_eraseDups]
      constructor
      · rintro (h | ⟨q, hq, rfl⟩)
        · exact Or.inl h
        · exact Or.inr ⟨q, hq, rfl⟩
      · rintro (h | ⟨q, hq, rfl⟩)
        · exact Or.inl h
        · exact Or.inr ⟨q, hq, rfl⟩
    · intro g hg g' hg' x hx y hy hxy
      rcases pairwise_eq_or (R := fun g g' => ∀ x ∈ g, ∀ y ∈ g', ¬ A.Nerode x y)
        (fun a b hab x hx y hy hn => hab y hy x hx hn.symm) gs hinv.sep g hg g' hg' with h | h
      · exact h
      · exact absurd hxy (h x hx y hy)
  · intro x hx q hq
    subst hq
    simp only [List.mem_cons, List.mem_map, List.mem_eraseDups, reduceCtorEq, false_or] at hx
    obtain ⟨q', hq', h⟩ := hx
    cases h
    exact hq'

/-! ### the quotient automaton -/

/-- reachable and co-reachable states -/
def Live (A : ENFA σ) (q : σ) : Prop :=
  q ∈ A.states ∧ (∃ s ∈ A.starts, ∃ w, A.Run s w q) ∧ ∃ w, ∃ f ∈ A.finals, A.Run q w f

def liveList (A : ENFA σ) : List σ :=
  A.states.filter fun q => q ∈ A.reachable ∧ q ∈ A.leadingToFinal

theorem mem_liveList (A : ENFA σ) (hA : A.WF) (q : σ) : q ∈ A.liveList ↔ A.Live q := by
  unfold liveList Live
  simp only [List.mem_filter, decide_eq_true_eq, mem_reachable_iff A hA, mem_leadingToFinal_iff]

/-- the main branch of `minimizeOf`, for an arbitrary naming `nm` of the states -/
def quotOf (A : ENFA σ) (nm : σ → Option κ) : ENFA κ :=
  ofParts (A.starts.filterMap nm) ((A.liveList.filter (· ∈ A.finals)).filterMap nm)
    (A.liveList.flatMap fun q => A.syms.flatMap fun a => (A.succs q (some a)).filterMap fun r =>
      if r ∈ A.liveList then
        match nm q, nm r with
        | some kq, some kr => some (kq, some a, kr)
        | _, _ => none
      else none)

theorem minimizeOf_eq (A : ENFA σ) (gs : List (List (Option σ))) (key : List (Option σ) → κ)
    (e : κ) : A.minimizeOf gs key e =
      if A.starts.isEmpty || A.finals.isEmpty then ofParts [e] [] [] else
      if !(A.starts.any (· ∈ A.liveList)) then ofParts [e] [] [] else
      A.quotOf (groupKey gs key) := rfl

/-- what the proofs need from the naming of states by the name of their block -/
structure NameOK (A : ENFA σ) (nm : σ → Option κ) : Prop where
  total : ∀ q ∈ A.states, ∃ k, nm q = some k
  inj : ∀ q ∈ A.states, ∀ q' ∈ A.states, ∀ k k', nm q = some k → nm q' = some k' →
    (k = k' ↔ A.Nerode (some q) (some q'))

theorem groupKey_mem (A : ENFA σ) (gs : List (List (Option σ))) (hgs : A.IsNerodePartition gs)
    (key : List (Option σ) → κ) (q : σ) (hq : q ∈ A.states) :
    ∃ g ∈ gs, some q ∈ g ∧ groupKey gs key q = some (key g) := by
  unfold groupKey
  cases hf : gs.find? fun g => decide (some q ∈ g) with
  | none =>
    obtain ⟨g, hg, hqg⟩ := (hgs.cover (some q)).mpr (Or.inr ⟨q, hq, rfl⟩)
    have := List.find?_eq_none.mp hf g hg
    simp [hqg] at this
  | some g0 =>
    have h1 := List.mem_of_find?_eq_some hf
    have h2 := List.find?_some hf
    exact ⟨g0, h1, by simpa using h2, rfl⟩

theorem groupKey_nameOK (A : ENFA σ) (gs : List (List (Option σ))) (hgs : A.IsNerodePartition gs)
    (key : List (Option σ) → κ) (hkey : ∀ g ∈ gs, ∀ g' ∈ gs, key g = key g' → g = g') :
    A.NameOK (groupKey gs key) := by
  refine ⟨?_, ?_⟩
  · intro q hq
    obtain ⟨g, _, _, h⟩ := groupKey_mem A gs hgs key q hq
    exact ⟨_, h⟩
  · intro q hq q' hq' k k' hk hk'
    obtain ⟨g, hg, hqg, h⟩ := groupKey_mem A gs hgs key q hq
    obtain ⟨g', hg', hqg', h'⟩ := groupKey_mem A gs hgs key q' hq'
    rw [h] at hk
    rw [h'] at hk'
    cases hk
    cases hk'
    constructor
    · intro hkk
      have := hkey g hg g' hg' hkk
      subst this
      exact hgs.same g hg _ hqg _ hqg'
    · intro hn
      rw [hgs.sep g hg g' hg' _ hqg _ hqg' hn]

theorem mem_quotOf_starts (A : ENFA σ) (nm : σ → Option κ) (k : κ) :
    k ∈ (A.quotOf nm).starts ↔ ∃ s ∈ A.starts, nm s = some k := by
  unfold quotOf
  rw [mem_ofParts_starts, List.mem_filterMap]

theorem mem_quotOf_finals (A : ENFA σ) (hA : A.WF) (nm : σ → Option κ) (k : κ) :
    k ∈ (A.quotOf nm).finals ↔ ∃ q, A.Live q ∧ q ∈ A.finals ∧ nm q = some k := by
  unfold quotOf
  rw [mem_ofParts_finals, List.mem_filterMap]
  simp only [List.mem_filter, decide_eq_true_eq, mem_liveList A hA, and_assoc]

theorem mem_quotOf_delta (A : ENFA σ) (hA : A.WF) (nm : σ → Option κ) (k k' : κ)
    (x : Option Nat) :
    (k, x, k') ∈ (A.quotOf nm).delta ↔ ∃ q r a, x = some a ∧ A.Live q ∧ A.Live r ∧
      (q, some a, r) ∈ A.delta ∧ nm q = some k ∧ nm r = some k' := by
  unfold quotOf
  rw [mem_ofParts_delta]
  simp only [List.mem_flatMap, List.mem_filterMap, mem_succs, mem_liveList A hA]
  constructor
  · rintro ⟨q, hq, a, _, r, hr, hh⟩
    split at hh
    · rename_i hrl
      split at hh
      · rename_i kq kr hkq hkr
        simp only [Option.some.injEq, Prod.mk.injEq] at hh
        obtain ⟨rfl, rfl, rfl⟩ := hh
        exact ⟨q, r, a, rfl, hq, (mem_liveList A hA r).mp hrl, hr, hkq, hkr⟩
      · cases hh
    · cases hh
  · rintro ⟨q, r, a, rfl, hq, hrl, hr, hkq, hkr⟩
    refine ⟨q, hq, a, hA.delta_sym _ hr a rfl, r, hr, ?_⟩
    rw [if_pos ((mem_liveList A hA r).mpr hrl)]
    simp only [hkq, hkr]

theorem quotOf_epsFree (A : ENFA σ) (hA : A.WF) (nm : σ → Option κ) : (A.quotOf nm).EpsFree := by
  rintro ⟨k, x, k'⟩ ht
  obtain ⟨_, _, a, rfl, _⟩ := (mem_quotOf_delta A hA nm k k' x).mp ht
  simp

theorem rightLang_nil {A : ENFA σ} (he : A.EpsFree) (q : σ) :
    A.RightLang (some q) [] ↔ q ∈ A.finals := by
  simp only [RightLang, he.run_nil_iff]
  constructor
  · rintro ⟨f, hf, rfl⟩; exact hf
  · intro h; exact ⟨q, h, rfl⟩

theorem rightLang_cons {A : ENFA σ} (hd : A.Deterministic) (he : A.EpsFree) {q r : σ} {a : Nat}
    (h : (q, some a, r) ∈ A.delta) (v : List Nat) :
    A.RightLang (some q) (a :: v) ↔ A.RightLang (some r) v := by
  simp only [RightLang, he.run_cons_iff]
  constructor
  · rintro ⟨f, hf, r', hr', hrun⟩
    have := hd.2.1 _ _ _ _ h hr'
    subst this
    exact ⟨f, hf, hrun⟩
  · rintro ⟨f, hf, hrun⟩
    exact ⟨f, hf, r, h, hrun⟩

theorem Live.step {A : ENFA σ} (hA : A.WF) {q r f : σ} {a : Nat} {w : List Nat} (hq : A.Live q)
    (h : (q, some a, r) ∈ A.delta) (hf : f ∈ A.finals) (hr : A.Run r w f) : A.Live r := by
  obtain ⟨_, ⟨s, hs, u, hu⟩, _⟩ := hq
  exact ⟨hA.delta_dst _ h, ⟨s, hs, u ++ [a], Run.snoc hu h⟩, w, f, hf, hr⟩

/-- the block of a live state has the same right language in the quotient -/
theorem quotOf_rightLang (A : ENFA σ) (hA : A.WF) (hd : A.Deterministic) (he : A.EpsFree)
    (nm : σ → Option κ) (hnm : A.NameOK nm) :
    ∀ (w : List Nat) (q : σ) (k : κ), A.Live q → nm q = some k →
      ((A.quotOf nm).RightLang (some k) w ↔ A.RightLang (some q) w) := by
  have hMe := quotOf_epsFree A hA nm
  intro w
  induction w with
  | nil =>
    intro q k hq hk
    rw [rightLang_nil hMe, rightLang_nil he, mem_quotOf_finals A hA]
    constructor
    · rintro ⟨q', hq', hf', hk'⟩
      have hn : A.Nerode (some q) (some q') := (hnm.inj q hq.1 q' hq'.1 k k hk hk').mp rfl
      exact (rightLang_nil he q).mp ((hn []).mpr ((rightLang_nil he q').mpr hf'))
    · intro hf
      exact ⟨q, hq, hf, hk⟩
  | cons a v ih =>
    intro q k hq hk
    constructor
    · rintro ⟨f, hf, hrun⟩
      obtain ⟨k', hkk', hrun'⟩ := (hMe.run_cons_iff _ _ _ _).mp hrun
      obtain ⟨q1, r1, a', ha', hq1, hr1, he1, hk1, hk1'⟩ := (mem_quotOf_delta A hA nm _ _ _).mp hkk'
      cases ha'
      have hn : A.Nerode (some q) (some q1) := (hnm.inj q hq.1 q1 hq1.1 k k hk hk1).mp rfl
      have h1 : A.RightLang (some r1) v := (ih r1 k' hr1 hk1').mp ⟨f, hf, hrun'⟩
      exact (hn _).mpr ((rightLang_cons hd he he1 v).mpr h1)
    · rintro ⟨f, hf, hrun⟩
      obtain ⟨r, hqr, hrun'⟩ := (he.run_cons_iff _ _ _ _).mp hrun
      have hr : A.Live r := hq.step hA hqr hf hrun'
      obtain ⟨k', hk'⟩ := hnm.total r hr.1
      obtain ⟨f', hf', hrun''⟩ := (ih r k' hr hk').mpr ⟨f, hf, hrun'⟩
      exact ⟨f', hf', (hMe.run_cons_iff _ _ _ _).mpr
        ⟨k', (mem_quotOf_delta A hA nm _ _ _).mpr ⟨q, r, a, rfl, hq, hr, hqr, hk, hk'⟩, hrun''⟩⟩

theorem quotOf_lang (A : ENFA σ) (hA : A.WF) (hd : A.Deterministic) (he : A.EpsFree)
    (nm : σ → Option κ) (hnm : A.NameOK nm) (hst : ∀ s ∈ A.starts, A.Live s) (w : List Nat) :
    (A.quotOf nm).Lang w ↔ A.Lang w := by
  constructor
  · rintro ⟨k, hk, hfin⟩
    obtain ⟨s, hs, hsk⟩ := (mem_quotOf_starts A nm k).mp hk
    obtain ⟨f, hf, hrun⟩ := (quotOf_rightLang A hA hd he nm hnm w s k (hst s hs) hsk).mp hfin
    exact ⟨s, hs, f, hf, hrun⟩
  · rintro ⟨s, hs, f, hf, hrun⟩
    obtain ⟨k, hk⟩ := hnm.total s (hA.starts_sub s hs)
    obtain ⟨f', hf', hrun'⟩ :=
      (quotOf_rightLang A hA hd he nm hnm w s k (hst s hs) hk).mpr ⟨f, hf, hrun⟩
    exact ⟨k, (mem_quotOf_starts A nm k).mpr ⟨s, hs, hk⟩, f', hf', hrun'⟩

theorem quotOf_deterministic (A : ENFA σ) (hA : A.WF) (hd : A.Deterministic) (he : A.EpsFree)
    (nm : σ → Option κ) (hnm : A.NameOK nm) : (A.quotOf nm).Deterministic := by
  refine ⟨?_, ?_, ?_⟩
  · intro k hk k' hk'
    obtain ⟨s, hs, hsk⟩ := (mem_quotOf_starts A nm k).mp hk
    obtain ⟨s', hs', hsk'⟩ := (mem_quotOf_starts A nm k').mp hk'
    have := hd.1 s hs s' hs'
    subst this
    rw [hsk] at hsk'
    exact Option.some.inj hsk'
  · intro k x k1 k2 h1 h2
    obtain ⟨q1, r1, a, rfl, hq1, hr1, he1, hk1, hk1'⟩ := (mem_quotOf_delta A hA nm _ _ _).mp h1
    obtain ⟨q2, r2, a', ha', hq2, hr2, he2, hk2, hk2'⟩ := (mem_quotOf_delta A hA nm _ _ _).mp h2
    cases ha'
    have hn : A.Nerode (some q1) (some q2) := (hnm.inj q1 hq1.1 q2 hq2.1 k k hk1 hk2).mp rfl
    refine (hnm.inj r1 hr1.1 r2 hr2.1 k1 k2 hk1' hk2').mpr ?_
    intro v
    rw [← rightLang_cons hd he he1 v, ← rightLang_cons hd he he2 v]
    exact hn _
  · intro k k' h
    obtain ⟨_, _, a, ha, _⟩ := (mem_quotOf_delta A hA nm _ _ _).mp h
    cases ha

/-- every state of the quotient is the block of a live state -/
theorem mem_quotOf_states (A : ENFA σ) (hA : A.WF) (nm : σ → Option κ)
    (hst : ∀ s ∈ A.starts, A.Live s) (k : κ) (hk : k ∈ (A.quotOf nm).states) :
    ∃ q, A.Live q ∧ nm q = some k := by
  have hk' : k ∈ (A.quotOf nm).starts ∨ k ∈ (A.quotOf nm).finals ∨
      ∃ t ∈ (A.quotOf nm).delta, k = t.1 ∨ k = t.2.2 := by
    unfold quotOf at hk ⊢
    rw [mem_ofParts_states] at hk
    rw [mem_ofParts_starts, mem_ofParts_finals]
    rcases hk with h | h | ⟨t, ht, h⟩
    · exact Or.inl h
    · exact Or.inr (Or.inl h)
    · exact Or.inr (Or.inr ⟨t, (mem_ofParts_delta _ _ _ t).mpr ht, h⟩)
  rcases hk' with h | h | ⟨⟨k1, x, k2⟩, ht, h⟩
  · obtain ⟨s, hs, hsk⟩ := (mem_quotOf_starts A nm k).mp h
    exact ⟨s, hst s hs, hsk⟩
  · obtain ⟨q, hq, _, hqk⟩ := (mem_quotOf_finals A hA nm k).mp h
    exact ⟨q, hq, hqk⟩
  · obtain ⟨q, r, a, _, hq, hr, _, hk1, hk2⟩ := (mem_quotOf_delta A hA nm _ _ _).mp ht
    rcases h with rfl | rfl
    · exact ⟨q, hq, hk1⟩
    · exact ⟨r, hr, hk2⟩

/-- runs between live states are mirrored in the quotient -/
theorem quotOf_run (A : ENFA σ) (hA : A.WF) (he : A.EpsFree) (nm : σ → Option κ)
    (hnm : A.NameOK nm) {q r : σ} {w : List Nat} (hrun : A.Run q w r) :
    A.Live q → (∃ v, ∃ f ∈ A.finals, A.Run r v f) → ∀ kq, nm q = some kq →
      ∃ kr, nm r = some kr ∧ (A.quotOf nm).Run kq w kr := by
  induction hrun with
  | nil q => intro _ _ kq hkq; exact ⟨kq, hkq, Run.nil _⟩
  | eps h _ _ => exact absurd rfl (he _ h)
  | @step q r' r a w h hrun ih =>
    intro hq hco kq hkq
    obtain ⟨v, f, hf, hv⟩ := hco
    have hr' : A.Live r' := hq.step hA h hf (Run.append hrun hv)
    obtain ⟨k', hk'⟩ := hnm.total r' hr'.1
    obtain ⟨kr, hkr, hrun'⟩ := ih hr' ⟨v, f, hf, hv⟩ k' hk'
    exact ⟨kr, hkr, Run.step
      ((mem_quotOf_delta A hA nm _ _ _).mpr ⟨q, r', a, rfl, hq, hr', h, hkq, hk'⟩) hrun'⟩

theorem quotOf_reduced (A : ENFA σ) (hA : A.WF) (hd : A.Deterministic) (he : A.EpsFree)
    (nm : σ → Option κ) (hnm : A.NameOK nm) (hst : ∀ s ∈ A.starts, A.Live s) :
    (A.quotOf nm).Reduced := by
  refine ⟨?_, ?_⟩
  · intro k hk
    obtain ⟨q, hq, hqk⟩ := mem_quotOf_states A hA nm hst k hk
    obtain ⟨s, hs, w, hrun⟩ := hq.2.1
    obtain ⟨ks, hks⟩ := hnm.total s (hA.starts_sub s hs)
    obtain ⟨kr, hkr, hrun'⟩ := quotOf_run A hA he nm hnm hrun (hst s hs) hq.2.2 ks hks
    rw [hqk] at hkr
    cases hkr
    exact ⟨ks, (mem_quotOf_starts A nm ks).mpr ⟨s, hs, hks⟩, w, hrun'⟩
  · intro k hk k' hk' hn
    obtain ⟨q, hq, hqk⟩ := mem_quotOf_states A hA nm hst k hk
    obtain ⟨q', hq', hqk'⟩ := mem_quotOf_states A hA nm hst k' hk'
    refine (hnm.inj q hq.1 q' hq'.1 k k' hqk hqk').mpr ?_
    intro w
    rw [← quotOf_rightLang A hA hd he nm hnm w q k hq hqk,
      ← quotOf_rightLang A hA hd he nm hnm w q' k' hq' hqk']
    exact hn w

/-! ### the early exits -/

theorem minimizeOf_cases (A : ENFA σ) (hA : A.WF) (hd : A.Deterministic)
    (gs : List (List (Option σ))) (key : List (Option σ) → κ) (e : κ) :
    (A.minimizeOf gs key e = ofParts [e] [] [] ∧ ∀ w, ¬ A.Lang w) ∨
    (A.minimizeOf gs key e = A.quotOf (groupKey gs key) ∧ ∀ s ∈ A.starts, A.Live s) := by
  rw [minimizeOf_eq]
  by_cases h1 : (A.starts.isEmpty || A.finals.isEmpty) = true
  · left
    rw [if_pos h1]
    refine ⟨rfl, ?_⟩
    rintro w ⟨s, hs, f, hf, _⟩
    simp only [Bool.or_eq_true, List.isEmpty_iff] at h1
    rcases h1 with h | h
    · rw [h] at hs; cases hs
    · rw [h] at hf; cases hf
  · rw [if_neg h1]
    by_cases h2 : (!(A.starts.any (· ∈ A.liveList))) = true
    · left
      rw [if_pos h2]
      refine ⟨rfl, ?_⟩
      rintro w ⟨s, hs, f, hf, hr⟩
      have hl : A.Live s := ⟨hA.starts_sub s hs, ⟨s, hs, [], Run.nil s⟩, w, f, hf, hr⟩
      simp only [Bool.not_eq_eq_eq_not, Bool.not_true, List.any_eq_false, decide_eq_true_eq] at h2
      exact h2 s hs ((mem_liveList A hA s).mpr hl)
    · right
      rw [if_neg h2]
      refine ⟨rfl, ?_⟩
      simp only [Bool.not_eq_eq_eq_not, Bool.not_true, Bool.not_eq_false, List.any_eq_true,
        decide_eq_true_eq] at h2
      obtain ⟨s0, hs0, hl0⟩ := h2
      intro s hs
      rw [hd.1 s hs s0 hs0]
      exact (mem_liveList A hA s0).mp hl0

theorem emptyAut_lang (e : κ) (w : List Nat) : ¬ (ofParts [e] [] []).Lang w := by
  rintro ⟨_, _, f, hf, _⟩
  rw [mem_ofParts_finals] at hf
  cases hf

theorem emptyAut_shape (e : κ) :
    (ofParts [e] [] []).Deterministic ∧ (ofParts [e] [] []).EpsFree ∧ (ofParts [e] [] []).WF := by
  refine ⟨⟨?_, ?_, ?_⟩, ?_, ofParts_wf _ _ _⟩
  · intro p hp q hq
    rw [mem_ofParts_starts] at hp hq
    rw [List.mem_singleton] at hp hq
    rw [hp, hq]
  · intro q a r r' h
    rw [mem_ofParts_delta] at h
    cases h
  · intro q r h
    rw [mem_ofParts_delta] at h
    cases h
  · intro t h
    rw [mem_ofParts_delta] at h
    cases h

theorem emptyAut_reduced (e : κ) : (ofParts [e] [] []).Reduced := by
  have hst : ∀ k ∈ (ofParts [e] [] []).states, k = e := by
    intro k hk
    rw [mem_ofParts_states] at hk
    rcases hk with h | h | ⟨t, ht, _⟩
    · simpa using h
    · cases h
    · cases ht
  refine ⟨?_, ?_⟩
  · intro k hk
    rw [hst k hk]
    exact ⟨e, (mem_ofParts_starts _ _ _ _).mpr List.mem_cons_self, [], Run.nil e⟩
  · intro k hk k' hk' _
    rw [hst k hk, hst k' hk']

/-! ### the reducedness oracle -/

theorem foldlM_sameRight (M : ENFA σ) (hM : M.WF) (fuel : Nat) :
    ∀ (l : List (σ × σ)) (acc b : Bool),
      (∀ pq ∈ l, pq.1 ∈ M.states ∧ pq.2 ∈ M.states) →
      l.foldlM (fun acc pq => (M.sameRight fuel (some pq.1) (some pq.2)).map
        fun same => acc && !same) acc = some b →
      (b = true ↔ acc = true ∧ ∀ pq ∈ l, ¬ M.Nerode (some pq.1) (some pq.2)) := by
  intro l
  induction l with
  | nil =>
    intro acc b _ h
    simp only [List.foldlM_nil, pure, Option.some.injEq] at h
    subst h
    simp
  | cons pq l ih =>
    intro acc b hl h
    rw [List.foldlM_cons] at h
    obtain ⟨acc1, h1, h2⟩ := Option.bind_eq_some_iff.mp h
    obtain ⟨same, hs, hacc⟩ := Option.map_eq_some_iff.mp h1
    have hpq := hl pq List.mem_cons_self
    have hsame := sameRight_iff' M hM fuel (some pq.1) (some pq.2)
      (fun x hx => by cases hx; exact hpq.1) (fun x hx => by cases hx; exact hpq.2) same hs
    rw [ih acc1 b (fun x hx => hl x (List.mem_cons_of_mem _ hx)) h2, ← hacc]
    simp only [Bool.and_eq_true, Bool.not_eq_eq_eq_not, Bool.not_true, List.mem_cons,
      forall_eq_or_imp, ← hsame, Bool.not_eq_true, and_assoc]

theorem isReduced_iff' (M : ENFA σ) (hM : M.WF) (fuel : Nat) (b : Bool)
    (h : M.isReduced fuel = some b) : b = true ↔ M.Reduced := by
  unfold isReduced at h
  simp only at h
  split at h
  · rename_i hall
    simp only [Option.some.injEq] at h
    subst h
    simp only [Bool.false_eq_true, false_iff]
    intro hred
    simp only [Bool.not_eq_eq_eq_not, Bool.not_true, List.all_eq_false, decide_eq_true_eq,
      List.mem_eraseDups] at hall
    obtain ⟨q, hq, hnr⟩ := hall
    exact hnr ((mem_reachable_iff M hM q).mpr (hred.1 q hq))
  · rename_i hall
    simp only [Bool.not_eq_eq_eq_not, Bool.not_true, Bool.not_eq_false, List.all_eq_true,
      decide_eq_true_eq, List.mem_eraseDups] at hall
    have hmem : ∀ pq : σ × σ, pq ∈ (M.states.eraseDups.flatMap fun p =>
        M.states.eraseDups.filterMap fun q => if p = q then none else some (p, q)) ↔
        pq.1 ∈ M.states ∧ pq.2 ∈ M.states ∧ pq.1 ≠ pq.2 := by
      rintro ⟨p, q⟩
      simp only [List.mem_flatMap, List.mem_filterMap, List.mem_eraseDups]
      constructor
      · rintro ⟨p', hp', q', hq', hh⟩
        split at hh
        · cases hh
        · rename_i hne
          simp only [Option.some.injEq, Prod.mk.injEq] at hh
          obtain ⟨rfl, rfl⟩ := hh
          exact ⟨hp', hq', hne⟩
      · rintro ⟨hp, hq, hne⟩
        exact ⟨p, hp, q, hq, by rw [if_neg hne]⟩
    have := foldlM_sameRight M hM fuel _ true b
      (fun pq hpq => ⟨((hmem pq).mp hpq).1, ((hmem pq).mp hpq).2.1⟩) h
    rw [this]
    unfold Reduced
    constructor
    · rintro ⟨_, hsep⟩
      refine ⟨fun k hk => (mem_reachable_iff M hM k).mp (hall k hk), ?_⟩
      intro k hk k' hk' hn
      by_contra hne
      exact hsep (k, k') ((hmem _).mpr ⟨hk, hk', hne⟩) hn
    · rintro ⟨_, hsep⟩
      refine ⟨rfl, ?_⟩
      intro pq hpq hn
      obtain ⟨h1, h2, h3⟩ := (hmem pq).mp hpq
      exact h3 (hsep _ h1 _ h2 hn)

end ENFA
end Pfl
