/-
Helper lemmas for C09_Termination: the unbounded word enumeration loop (`get_words()` with
`max_length = -1`) stops when the words of the normal form have bounded length.
-/
import Pfl.Proofs.CFGTermination
import Pfl.Props.C12_Words
namespace Pfl
namespace CFG
namespace Term
open Pfl.CFG.Words

/-- a row for a length beyond every word is not "modified" -/
theorem wordsRow_not_modified {N : CFG} (hN : N.isNormalForm = true) (hWF : N.WF) (L : Nat)
    (hL : ∀ x u, N.Gen (.var x) u → u.length ≤ L) (rows : List WRow) (cur : Nat) (hcur : 2 ≤ cur)
    (hrows : ∀ len x u, len < cur →
      (u ∈ rowLookup rows len x ↔ u.length = len ∧ N.Gen (.var x) u))
    (hlt : L < cur) : ((wordsRow N rows cur).any fun e => !e.2.isEmpty) = false := by
  have hrow := mem_wordsRow hN hWF rows cur hcur hrows
  have hempty : ∀ x, rowGet (wordsRow N rows cur) x = [] := by
    intro x
    rw [List.eq_nil_iff_forall_not_mem]
    intro u hu
    have h1 := (hrow x u).mp hu
    have h2 := hL x u h1.2
    omega
  rw [List.any_eq_false]
  intro e he
  unfold wordsRow at he
  obtain ⟨x, hx, rfl⟩ := List.mem_map.mp he
  have := hempty x
  unfold wordsRow at this
  rw [rowGet_map, if_pos hx] at this
  simp only [this]
  simp

/-- the unbounded loop on a normal form whose words have length `≤ L`: the rows for the lengths up to
`L` are computed, then `noMod` grows with every round until `2 * noMod > cur + 1` -/
theorem wordsLoop_none_isSome {N : CFG} (hN : N.isNormalForm = true) (hWF : N.WF) (s : String)
    (L : Nat) (hL : ∀ x u, N.Gen (.var x) u → u.length ≤ L) :
    ∀ fuel cur noMod rows acc, 2 ≤ cur → rows.length + 1 = cur →
      (∀ len x u, len < cur →
        (u ∈ rowLookup rows len x ↔ u.length = len ∧ N.Gen (.var x) u)) →
      1 ≤ fuel → (L < cur → cur + 1 ≤ fuel + 2 * noMod) → (cur ≤ L → 2 * L + 3 ≤ fuel + cur) →
      (wordsLoop N s none fuel cur noMod rows acc).isSome := by
  intro fuel
  induction fuel with
  | zero => intro cur noMod rows acc _ _ _ h; omega
  | succ n ih =>
    intro cur noMod rows acc hcur hlen hrows _ hA hB
    rw [wordsLoop_succ]
    have hb : boundOk none cur = true := rfl
    rw [if_pos hb]
    by_cases hstop : 2 * nextNoMod (wordsRow N rows cur) noMod > cur + 1
    · rw [if_pos hstop]; rfl
    · rw [if_neg hstop]
      have hrow := mem_wordsRow hN hWF rows cur hcur hrows
      have hrows' : ∀ len x u, len < cur + 1 →
          (u ∈ rowLookup (rows ++ [wordsRow N rows cur]) len x ↔
            u.length = len ∧ N.Gen (.var x) u) := by
        intro len x u hl
        by_cases hc : len < cur
        · rw [rowLookup_append_lt _ _ _ _ (by omega)]
          exact hrows len x u hc
        · have : len = rows.length + 1 := by omega
          subst this
          rw [rowLookup_append_eq, hrow, hlen]
      by_cases hlt : L < cur
      · have hnm : nextNoMod (wordsRow N rows cur) noMod = noMod + 1 := by
          unfold nextNoMod
          rw [wordsRow_not_modified hN hWF L hL rows cur hcur hrows hlt]
          simp
        rw [hnm] at hstop ⊢
        have := hA hlt
        exact ih _ _ _ _ (by omega) (by simp [hlen]) hrows' (by omega) (fun _ => by omega)
          (fun h => by omega)
      · have := hB (by omega)
        refine ih _ _ _ _ (by omega) (by simp [hlen]) hrows' (by omega) (fun _ => by omega)
          (fun h => by omega)

theorem lengths_bounded (ws : List (List String)) : ∃ n, ∀ w ∈ ws, w.length ≤ n := by
  induction ws with
  | nil => exact ⟨0, by simp⟩
  | cons a ws ih =>
    obtain ⟨n, hn⟩ := ih
    refine ⟨max a.length n, ?_⟩
    intro w hw
    rcases List.mem_cons.mp hw with rfl | hw
    · exact Nat.le_max_left _ _
    · exact Nat.le_trans (hn w hw) (Nat.le_max_right _ _)

/-- a finite language gives a normal form without cycle, hence words of length `≤ 2 ^ |variables|` -/
theorem normalForm_bounded (G : CFG) (hG : G.WF) (hfin : ∃ n, ∀ w, G.Lang w → w.length ≤ n)
    (fuel : Nat) (N : CFG) (hN : G.toNormalForm fuel = some N) :
    ∀ x u, N.Gen (.var x) u → u.length ≤ 2 ^ N.vars.length := by
  have hlang := toNormalForm_lang G hG fuel N hN
  have hnf := toNormalForm_isNormalForm G hG fuel N hN
  have hwf := toNormalForm_wf G hG fuel N hN
  have hU := toNormalForm_useful G hG fuel N hN
  have hc : ¬ Cycle N := by
    intro hc
    obtain ⟨n, hn⟩ := hfin
    obtain ⟨w, hw, hl⟩ := cycle_unbounded hnf hU hc (n + 1)
    have := hn w ((hlang w).mp hw).1
    omega
  exact acyclic_bounded hnf hwf hc

end Term
end CFG
end Pfl
