/-
Helper lemmas for C15 (tree side of the CYK table): the cells of `cykTableT` hold well-formed trees of the
right span, and their heads are the variables of the recogniser's cells.
-/
import Pfl.Model.CYKTree
import Pfl.Proofs.CFGCNF
namespace Pfl
namespace CFG
namespace CYKT

/-! ### `addNode` -/

theorem mem_foldl_addNode (l : List PTree) (acc : List PTree) (t : PTree)
    (h : t ∈ l.foldl addNode acc) : t ∈ acc ∨ t ∈ l := by
  induction l generalizing acc with
  | nil => exact Or.inl h
  | cons a l ih =>
    rw [List.foldl_cons] at h
    rcases ih _ h with h | h
    · unfold addNode at h
      split at h
      · exact Or.inl h
      · rcases List.mem_append.1 h with h | h
        · exact Or.inl h
        · simp only [List.mem_singleton] at h
          subst h
          exact Or.inr (List.mem_cons_self ..)
    · exact Or.inr (List.mem_cons_of_mem _ h)

theorem heads_addNode (acc : List PTree) (a : PTree) (v : String) :
    (∃ t ∈ addNode acc a, rootVar t = v) ↔ (∃ t ∈ acc, rootVar t = v) ∨ rootVar a = v := by
  unfold addNode
  split
  · rename_i h
    simp only [List.any_eq_true, decide_eq_true_eq] at h
    constructor
    · intro h'; exact Or.inl h'
    · rintro (h' | h')
      · exact h'
      · obtain ⟨u, hu, e⟩ := h
        exact ⟨u, hu, e.trans h'⟩
  · constructor
    · rintro ⟨t, ht, e⟩
      rcases List.mem_append.1 ht with ht | ht
      · exact Or.inl ⟨t, ht, e⟩
      · simp only [List.mem_singleton] at ht
        subst ht
        exact Or.inr e
    · rintro (⟨t, ht, e⟩ | e)
      · exact ⟨t, List.mem_append_left _ ht, e⟩
      · exact ⟨a, List.mem_append_right _ (List.mem_singleton.2 rfl), e⟩

theorem heads_foldl_addNode (l : List PTree) (acc : List PTree) (v : String) :
    (∃ t ∈ l.foldl addNode acc, rootVar t = v) ↔
      (∃ t ∈ acc, rootVar t = v) ∨ (∃ t ∈ l, rootVar t = v) := by
  induction l generalizing acc with
  | nil => simp
  | cons a l ih =>
    rw [List.foldl_cons, ih, heads_addNode]
    simp only [List.mem_cons, exists_eq_or_imp, or_assoc]

theorem heads_dedup (l : List PTree) (v : String) :
    (∃ t ∈ l.foldl addNode [], rootVar t = v) ↔ (∃ t ∈ l, rootVar t = v) := by
  rw [heads_foldl_addNode]; simp

theorem mem_dedup (l : List PTree) (t : PTree) (h : t ∈ l.foldl addNode []) : t ∈ l := by
  rcases mem_foldl_addNode l [] t h with h | h
  · simp at h
  · exact h

/-! ### the cell invariant -/

/-- `t` is a parse tree (in `N`) of the window `w[i, i+len)` headed by a variable -/
def GoodT (N : CFG) (w : List String) (i len : Nat) (t : PTree) : Prop :=
  t.sym = .var (rootVar t) ∧ N.wellFormedT t = true ∧ yieldT t = (w.drop i).take len

theorem good_row1 (N : CFG) (w : List String) (i : Nat) (t : PTree) (h : t ∈ cykRow1T N w i) :
    GoodT N w i 1 t := by
  unfold cykRow1T at h
  split at h
  · simp at h
  · rename_i a ha
    have h := mem_dedup _ _ h
    simp only [List.mem_filterMap] at h
    obtain ⟨p, hp, hx⟩ := h
    split at hx
    · rename_i h2
      simp only [Option.some.injEq] at hx
      subst hx
      obtain ⟨hi, rfl⟩ := List.getElem?_eq_some_iff.1 ha
      have hd : (w.drop i).take 1 = [w[i]] := by
        rw [List.drop_eq_getElem_cons hi]; rfl
      refine ⟨rfl, ?_, ?_⟩
      · have : (p.1, [Sym.ter w[i]]) ∈ N.prods := by rw [← h2]; exact hp
        simp [wellFormedT, wellFormedL, PTree.sym, this]
      · rw [hd]; simp [yieldT, yieldL]
    · simp at hx

theorem heads_row1 (N : CFG) (w : List String) (i : Nat) (v : String) :
    (∃ t ∈ cykRow1T N w i, rootVar t = v) ↔ v ∈ cykRow1 N w i := by
  unfold cykRow1T cykRow1
  cases ha : w[i]? with
  | none => simp
  | some a =>
    simp only
    rw [heads_dedup]
    simp only [List.mem_eraseDups, List.mem_filterMap]
    constructor
    · rintro ⟨t, ⟨p, hp, hx⟩, e⟩
      refine ⟨p, hp, ?_⟩
      split at hx
      · rename_i h2
        simp only [Option.some.injEq] at hx
        subst hx
        simp only [rootVar] at e
        simp [h2, e]
      · simp at hx
    · rintro ⟨p, hp, hx⟩
      split at hx
      · rename_i h2
        simp only [Option.some.injEq] at hx
        exact ⟨_, ⟨p, hp, by rw [if_pos h2]⟩, by simpa [rootVar] using hx⟩
      · simp at hx

theorem mem_cykCellT (N : CFG) (tbl : Nat → Nat → List PTree) (i len : Nat) (t : PTree)
    (h : t ∈ cykCellT N tbl i len) :
    ∃ k, k < len - 1 ∧ ∃ tb ∈ tbl i (k + 1), ∃ tc ∈ tbl (i + (k + 1)) (len - (k + 1)), ∃ x,
      (x, [Sym.var (rootVar tb), Sym.var (rootVar tc)]) ∈ N.prods ∧
      t = PTree.node (.var x) [tb, tc] := by
  unfold cykCellT at h
  have h := mem_dedup _ _ h
  simp only [List.mem_flatMap, List.mem_range, List.mem_filterMap] at h
  obtain ⟨k, hk, tb, htb, tc, htc, p, hp, hx⟩ := h
  refine ⟨k, hk, tb, htb, tc, htc, p.1, ?_⟩
  split at hx
  · rename_i b c h2
    split at hx
    · rename_i h3
      simp only [Option.some.injEq] at hx
      refine ⟨?_, hx.symm⟩
      rw [← h3.1, ← h3.2, ← h2]; exact hp
    · simp at hx
  · simp at hx

theorem heads_cykCellT (N : CFG) (tbl : Nat → Nat → List PTree) (i len : Nat) (v : String) :
    (∃ t ∈ cykCellT N tbl i len, rootVar t = v) ↔
      ∃ k, k < len - 1 ∧ ∃ b c, (v, [Sym.var b, Sym.var c]) ∈ N.prods ∧
        (∃ tb ∈ tbl i (k + 1), rootVar tb = b) ∧
        (∃ tc ∈ tbl (i + (k + 1)) (len - (k + 1)), rootVar tc = c) := by
  unfold cykCellT
  rw [heads_dedup]
  simp only [List.mem_flatMap, List.mem_range, List.mem_filterMap]
  constructor
  · rintro ⟨t, ⟨k, hk, tb, htb, tc, htc, p, hp, hx⟩, e⟩
    refine ⟨k, hk, ?_⟩
    split at hx
    · rename_i b c h2
      split at hx
      · rename_i h3
        simp only [Option.some.injEq] at hx
        subst hx
        simp only [rootVar] at e
        refine ⟨b, c, ?_, ⟨tb, htb, h3.1.symm⟩, ⟨tc, htc, h3.2.symm⟩⟩
        rw [← e, ← h2]; exact hp
      · simp at hx
    · simp at hx
  · rintro ⟨k, hk, b, c, hp, ⟨tb, htb, eb⟩, ⟨tc, htc, ec⟩⟩
    refine ⟨PTree.node (.var v) [tb, tc], ⟨k, hk, tb, htb, tc, htc, _, hp, ?_⟩, rfl⟩
    simp [eb, ec]

theorem good_cell (N : CFG) (w : List String) (tbl : Nat → Nat → List PTree) (i len : Nat)
    (hsub : ∀ l j, 1 ≤ l → l < len → i ≤ j → j + l ≤ i + len → ∀ t ∈ tbl j l, GoodT N w j l t)
    (t : PTree) (h : t ∈ cykCellT N tbl i len) : GoodT N w i len t := by
  obtain ⟨k, hk, tb, htb, tc, htc, x, hp, rfl⟩ := mem_cykCellT N tbl i len t h
  obtain ⟨b1, b2, b3⟩ := hsub (k + 1) i (by omega) (by omega) (by omega) (by omega) tb htb
  obtain ⟨c1, c2, c3⟩ :=
    hsub (len - (k + 1)) (i + (k + 1)) (by omega) (by omega) (by omega) (by omega) tc htc
  refine ⟨rfl, ?_, ?_⟩
  · simp [wellFormedT, wellFormedL, b1, b2, c1, c2, hp]
  · rw [take_split w i len (k + 1) (by omega), ← b3, ← c3]
    simp [yieldT, yieldL]

/-! ### the tables -/

def lookT (tbl : List ((Nat × Nat) × List PTree)) (i l : Nat) : List PTree :=
  ((tbl.find? fun e => e.1 = (l, i)).map (·.2)).getD []

def stepT (N : CFG) (w : List String) (tbl : List ((Nat × Nat) × List PTree)) (k : Nat) :
    List ((Nat × Nat) × List PTree) :=
  tbl ++ (List.range (w.length - (k + 1) + 1)).map fun i =>
    ((k + 1, i), if k + 1 = 1 then cykRow1T N w i else cykCellT N (lookT tbl) i (k + 1))

theorem cykTableT_eq (N : CFG) (w : List String) :
    cykTableT N w = (List.range w.length).foldl (stepT N w) [] := rfl

theorem find_rowG {β : Type} (len : Nat) (g : Nat → β) (L : List Nat) (i : Nat) (hi : i ∈ L) :
    (L.map fun j => ((len, j), g j)).find? (fun e => e.1 = (len, i)) = some ((len, i), g i) := by
  induction L with
  | nil => simp at hi
  | cons a L ih =>
    by_cases h : a = i
    · subst h; simp
    · have : i ∈ L := by simpa [Ne.symm h] using hi
      simp [h, ih this]

theorem find_new {β : Type} (tbl : List ((Nat × Nat) × β)) (k m : Nat) (g : Nat → β)
    (hkey : ∀ e ∈ tbl, e.1.1 ≤ k) (i : Nat) (hi : i < m) :
    (tbl ++ (List.range m).map fun j => ((k + 1, j), g j)).find? (fun e => e.1 = (k + 1, i)) =
      some ((k + 1, i), g i) := by
  have hnone : (tbl.find? fun e => e.1 = (k + 1, i)) = none := by
    rw [List.find?_eq_none]
    intro e he hk'
    have := hkey e he
    simp only [decide_eq_true_eq] at hk'
    rw [hk'] at this
    simp only at this
    omega
  rw [List.find?_append, hnone, Option.none_or]
  exact find_rowG (k + 1) _ _ i (List.mem_range.2 hi)

theorem find_old {β : Type} (tbl ext : List ((Nat × Nat) × β)) (p : (Nat × Nat) × β → Bool)
    (h : (tbl.find? p).isSome = true) : (tbl ++ ext).find? p = tbl.find? p := by
  rw [List.find?_append]
  cases hf : tbl.find? p with
  | none => rw [hf] at h; simp at h
  | some e => simp

/-- joint invariant of the two tables after the rows `1..k` -/
structure Inv (N : CFG) (w : List String) (k : Nat) (T : List ((Nat × Nat) × List PTree))
    (R : List ((Nat × Nat) × List String)) : Prop where
  keyT : ∀ e ∈ T, e.1.1 ≤ k
  keyR : ∀ e ∈ R, e.1.1 ≤ k
  foundT : ∀ l i, 1 ≤ l → l ≤ k → i + l ≤ w.length →
    (T.find? fun e => e.1 = (l, i)).isSome = true
  foundR : ∀ l i, 1 ≤ l → l ≤ k → i + l ≤ w.length →
    (R.find? fun e => e.1 = (l, i)).isSome = true
  good : ∀ l i, 1 ≤ l → l ≤ k → i + l ≤ w.length → ∀ t ∈ lookT T i l, GoodT N w i l t
  heads : ∀ l i, 1 ≤ l → l ≤ k → i + l ≤ w.length → ∀ v,
    (∃ t ∈ lookT T i l, rootVar t = v) ↔ v ∈ cykLook R i l

theorem inv_step (N : CFG) (w : List String) (k : Nat) (T : List ((Nat × Nat) × List PTree))
    (R : List ((Nat × Nat) × List String)) (hk : k < w.length) (h : Inv N w k T R) :
    Inv N w (k + 1) (stepT N w T k) (cykStep N w R k) := by
  have hnewT : ∀ i, i + (k + 1) ≤ w.length →
      (stepT N w T k).find? (fun e => e.1 = (k + 1, i)) = some ((k + 1, i),
        if k + 1 = 1 then cykRow1T N w i else cykCellT N (lookT T) i (k + 1)) := by
    intro i hi
    exact find_new T k _ _ h.keyT i (by omega)
  have hnewR : ∀ i, i + (k + 1) ≤ w.length →
      (cykStep N w R k).find? (fun e => e.1 = (k + 1, i)) = some ((k + 1, i),
        if k + 1 = 1 then cykRow1 N w i else cykCell N (cykLook R) i (k + 1)) := by
    intro i hi
    exact find_new R k _ _ h.keyR i (by omega)
  have holdT : ∀ l i, 1 ≤ l → l ≤ k → i + l ≤ w.length →
      (stepT N w T k).find? (fun e => e.1 = (l, i)) = T.find? (fun e => e.1 = (l, i)) :=
    fun l i h1 h2 h3 => find_old T _ _ (h.foundT l i h1 h2 h3)
  have holdR : ∀ l i, 1 ≤ l → l ≤ k → i + l ≤ w.length →
      (cykStep N w R k).find? (fun e => e.1 = (l, i)) = R.find? (fun e => e.1 = (l, i)) :=
    fun l i h1 h2 h3 => find_old R _ _ (h.foundR l i h1 h2 h3)
  refine ⟨?_, ?_, ?_, ?_, ?_, ?_⟩
  · intro e he
    unfold stepT at he
    rcases List.mem_append.1 he with he | he
    · have := h.keyT e he; omega
    · simp only [List.mem_map] at he
      obtain ⟨i, _, rfl⟩ := he
      simp
  · intro e he
    unfold cykStep at he
    rcases List.mem_append.1 he with he | he
    · have := h.keyR e he; omega
    · simp only [List.mem_map] at he
      obtain ⟨i, _, rfl⟩ := he
      simp
  · intro l i h1 h2 h3
    by_cases hl : l ≤ k
    · rw [holdT l i h1 hl h3]; exact h.foundT l i h1 hl h3
    · have : l = k + 1 := by omega
      subst this
      rw [hnewT i h3]; rfl
  · intro l i h1 h2 h3
    by_cases hl : l ≤ k
    · rw [holdR l i h1 hl h3]; exact h.foundR l i h1 hl h3
    · have : l = k + 1 := by omega
      subst this
      rw [hnewR i h3]; rfl
  · intro l i h1 h2 h3 t ht
    by_cases hl : l ≤ k
    · unfold lookT at ht
      rw [holdT l i h1 hl h3] at ht
      exact h.good l i h1 hl h3 t ht
    · have : l = k + 1 := by omega
      subst this
      unfold lookT at ht
      rw [hnewT i h3] at ht
      simp only [Option.map_some, Option.getD_some] at ht
      by_cases hk0 : k = 0
      · subst hk0
        simp only [Nat.zero_add, if_true] at ht
        exact good_row1 N w i t ht
      · have : ¬ (k + 1 = 1) := by omega
        rw [if_neg this] at ht
        refine good_cell N w (lookT T) i (k + 1) ?_ t ht
        intro l j hl1 hl2 hj1 hj2 u hu
        exact h.good l j hl1 (by omega) (by omega) u hu
  · intro l i h1 h2 h3 v
    by_cases hl : l ≤ k
    · unfold lookT cykLook
      rw [holdT l i h1 hl h3, holdR l i h1 hl h3]
      exact h.heads l i h1 hl h3 v
    · have : l = k + 1 := by omega
      subst this
      unfold lookT cykLook
      rw [hnewT i h3, hnewR i h3]
      simp only [Option.map_some, Option.getD_some]
      by_cases hk0 : k = 0
      · subst hk0
        simp only [Nat.zero_add, if_true]
        exact heads_row1 N w i v
      · have : ¬ (k + 1 = 1) := by omega
        rw [if_neg this, if_neg this, mem_cykCell, heads_cykCellT]
        constructor
        · rintro ⟨j, hj, b, c, hp, hb, hc⟩
          refine ⟨j, hj, b, c, hp, ?_, ?_⟩
          · exact (h.heads (j + 1) i (by omega) (by omega) (by omega) b).1 hb
          · exact (h.heads (k + 1 - (j + 1)) (i + (j + 1)) (by omega) (by omega) (by omega) c).1 hc
        · rintro ⟨j, hj, b, c, hp, hb, hc⟩
          refine ⟨j, hj, b, c, hp, ?_, ?_⟩
          · exact (h.heads (j + 1) i (by omega) (by omega) (by omega) b).2 hb
          · exact (h.heads (k + 1 - (j + 1)) (i + (j + 1)) (by omega) (by omega) (by omega) c).2 hc

theorem inv_all (N : CFG) (w : List String) (k : Nat) (hk : k ≤ w.length) :
    Inv N w k ((List.range k).foldl (stepT N w) []) ((List.range k).foldl (cykStep N w) []) := by
  induction k with
  | zero =>
    refine ⟨by simp, by simp, ?_, ?_, ?_, ?_⟩ <;> intros <;> omega
  | succ k ih =>
    rw [List.range_succ, List.foldl_append, List.foldl_append]
    exact inv_step N w k _ _ (by omega) (ih (by omega))

/-- the top cell of the tree table -/
def topT (N : CFG) (w : List String) : List PTree :=
  (((cykTableT N w).find? fun e => e.1 = (w.length, 0)).map (·.2)).getD []

theorem top_good (N : CFG) (w : List String) (hw : w ≠ []) (t : PTree) (h : t ∈ topT N w) :
    t.sym = .var (rootVar t) ∧ N.wellFormedT t = true ∧ yieldT t = w := by
  have hlen : 0 < w.length := List.length_pos_iff.2 hw
  have inv := inv_all N w w.length (Nat.le_refl _)
  rw [← cykTableT_eq] at inv
  have key := inv.good w.length 0 (by omega) (by omega) (by omega) t h
  unfold GoodT at key
  simpa only [List.drop_zero, List.take_length] using key

theorem top_heads (N : CFG) (w : List String) (hw : w ≠ []) (v : String) :
    (∃ t ∈ topT N w, rootVar t = v) ↔
      v ∈ (((cykTable N w).find? fun e => e.1 = (w.length, 0)).map (·.2)).getD [] := by
  have hlen : 0 < w.length := List.length_pos_iff.2 hw
  have inv := inv_all N w w.length (Nat.le_refl _)
  rw [← cykTableT_eq, ← cykTable_eq] at inv
  exact inv.heads w.length 0 (by omega) (by omega) (by omega) v

end CYKT
end CFG
end Pfl
