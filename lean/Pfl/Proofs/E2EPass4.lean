/-
The passes `_preprocess_positive_closure` (with `_add_repetition`) and `_preprocess_optional` on the
concrete syntax trees of stage 2.
-/
import Pfl.Proofs.E2EStage1
namespace Pfl.PyRx.E2E
open Pfl.PyPass
open C

/-! ### balanced texts -/

inductive Bal : List Char → Prop
  | nil : Bal []
  | ch (c : Char) : c ≠ '(' → c ≠ ')' → Bal [c]
  | wrap {u : List Char} : Bal u → Bal ('(' :: u ++ [')'])
  | app {u v : List Char} : Bal u → Bal v → Bal (u ++ v)

theorem Bal.chars {s : List Char} (h : ∀ c ∈ s, c ≠ '(' ∧ c ≠ ')') : Bal s := by
  induction s with
  | nil => exact .nil
  | cons c r ih =>
    have := Bal.app (.ch c (h c (by simp)).1 (h c (by simp)).2) (ih (fun d hd => h d (by simp [hd])))
    simpa using this

theorem sing_append (u v : List Char) : sing (u ++ v) = sing u ++ sing v := by simp [sing]

theorem sing_wrap_rev (u : List Char) :
    (sing ('(' :: u ++ [')'])).reverse = [')'] :: ((sing u).reverse ++ [['(']]) := by
  simp [sing]

theorem tokc_eq (c d : Char) : (([c] : Tok) == [d]) = decide (c = d) := by
  by_cases h : c = d <;> simp [h]

theorem fpo_bal {u : List Char} (h : Bal u) : ∀ (k : Int) (rest : RToks) (acc : List Tok), 1 ≤ k →
    findPrevOpenR ((sing u).reverse ++ rest) k acc = findPrevOpenR rest k (sing u ++ acc) := by
  induction h with
  | nil => intro k rest acc _; rfl
  | ch c h1 h2 =>
    intro k rest acc _
    simp [sing, findPrevOpenR, h1, h2]
  | @wrap u _ ih =>
    intro k rest acc hk
    rw [sing_wrap_rev]
    have e1 : ∀ r a, findPrevOpenR ([')'] :: r) k a = findPrevOpenR r (k + 1) ([')'] :: a) := by
      intro r a; simp [findPrevOpenR]
    have hk1 : (k + 1 == 1) = false := by simp; omega
    have e2 : ∀ r a, findPrevOpenR (['('] :: r) (k + 1) a = findPrevOpenR r k (['('] :: a) := by
      intro r a
      rw [findPrevOpenR]
      simp [hk1]
    simp only [List.cons_append, List.append_assoc, List.nil_append]
    rw [e1, ih (k + 1) _ _ (by omega), e2]
    simp [sing]
  | @app u v _ _ ihu ihv =>
    intro k rest acc hk
    rw [sing_append, List.reverse_append, List.append_assoc, ihv k _ _ hk, ihu k _ _ hk]
    simp

/-- `_find_previous_opening_parenthesis` finds the group just pushed -/
theorem fpo_group (u : List Char) (h : Bal u) (rest : RToks) :
    findPrevOpenR ((sing ('(' :: u ++ [')'])).reverse ++ rest) 0 [] =
      .ok (sing ('(' :: u ++ [')'])).reverse := by
  rw [sing_wrap_rev]
  have e1 : ∀ r, findPrevOpenR ([')'] :: r) 0 [] = findPrevOpenR r 1 [[')']] := by
    intro r; simp [findPrevOpenR]
  simp only [List.cons_append, List.append_assoc, List.nil_append]
  rw [e1, fpo_bal h 1 _ _ (by omega)]
  simp [findPrevOpenR, sing]

/-- the same for `_find_repeated_sequence` -/
theorem frs_bal {u : List Char} (h : Bal u) : ∀ (k : Int) (rest : RToks) (acc : List Tok), k ≤ -1 →
    findRepeatedScanR ((sing u).reverse ++ rest) k acc = findRepeatedScanR rest k (sing u ++ acc) := by
  induction h with
  | nil => intro k rest acc _; rfl
  | ch c h1 h2 =>
    intro k rest acc _
    simp [sing, findRepeatedScanR, h1, h2]
  | @wrap u _ ih =>
    intro k rest acc hk
    rw [sing_wrap_rev]
    have e1 : ∀ r a, findRepeatedScanR ([')'] :: r) k a = findRepeatedScanR r (k - 1) ([')'] :: a) := by
      intro r a; simp [findRepeatedScanR]
    have hk1 : (k - 1 + 1 == 0) = false := by simp; omega
    have e2 : ∀ r a, findRepeatedScanR (['('] :: r) (k - 1) a = findRepeatedScanR r k (['('] :: a) := by
      intro r a
      rw [findRepeatedScanR]
      simp only [hk1]
      simp
    simp only [List.cons_append, List.append_assoc, List.nil_append]
    rw [e1, ih (k - 1) _ _ (by omega), e2]
    simp [sing]
  | @app u v _ _ ihu ihv =>
    intro k rest acc hk
    rw [sing_append, List.reverse_append, List.append_assoc, ihv k _ _ hk, ihu k _ _ hk]
    simp

theorem frs_group (u : List Char) (h : Bal u) (rest : RToks) :
    findRepeatedR ((sing ('(' :: u ++ [')'])).reverse ++ rest) =
      .ok (sing ('(' :: u ++ [')'])).reverse := by
  rw [sing_wrap_rev]
  simp only [List.cons_append, List.append_assoc, List.nil_append, findRepeatedR]
  rw [if_neg (by simp), frs_bal h (-1) _ _ (by omega)]
  simp [findRepeatedScanR, sing]

/-! ### stage-2 forms -/

/-- the concrete trees of stage 2; the flags say whether `+`, `{..}`, `?` may occur -/
def Form (pl rp op : Bool) : C → Prop
  | .ch c => c.isAlphanum = true ∨ c = '$'
  | .grp x => Form pl rp op x
  | .seq a b => Form pl rp op a ∧ Form pl rp op b ∧ cl a ≤ 1 ∧ cl b ≤ 1
  | .bar a b => Form pl rp op a ∧ Form pl rp op b
  | .star a => Form pl rp op a ∧ IsUnit a
  | .plus a => pl = true ∧ Form pl rp op a ∧ IsUnit a
  | .opt a => op = true ∧ Form pl rp op a ∧ IsUnit a
  | .rep a m n => rp = true ∧ Form pl rp op a ∧ IsUnit a ∧ m ≤ n

/-- characters of stage-2 texts -/
def Ch2 (c : Char) : Prop :=
  c.isAlphanum = true ∨ c ∈ ['$', '(', ')', '|', '*', '+', '?', '{', '}', ',']

theorem Ch2.noBs {c : Char} (h : Ch2 c) : c ≠ '\\' := by
  rcases h with h | h
  · exact alnum_ne c _ h (by decide)
  · rintro rfl; revert h; decide

theorem natText_digits (n : Nat) : ∀ c ∈ natText n, c.isDigit = true := by
  intro c hc
  simp only [natText, Nat.toString_eq_repr, Nat.toList_repr] at hc
  exact Nat.isDigit_of_mem_toDigits (by decide) (by decide) hc

theorem digit_alnum (c : Char) (h : c.isDigit = true) : c.isAlphanum = true := by
  simp [Char.isAlphanum, h]

theorem braces_ch2 (m n : Nat) : ∀ c ∈ braces m n, Ch2 c := by
  intro c hc
  unfold braces at hc
  split at hc
  · simp only [List.mem_append, List.mem_cons, List.not_mem_nil, or_false] at hc
    rcases hc with (rfl | hc) | rfl
    · exact Or.inr (by decide)
    · exact Or.inl (digit_alnum c (natText_digits _ c hc))
    · exact Or.inr (by decide)
  · simp only [List.mem_append, List.mem_cons, List.not_mem_nil, or_false] at hc
    rcases hc with (((rfl | hc) | rfl) | hc) | rfl
    · exact Or.inr (by decide)
    · exact Or.inl (digit_alnum c (natText_digits _ c hc))
    · exact Or.inr (by decide)
    · exact Or.inl (digit_alnum c (natText_digits _ c hc))
    · exact Or.inr (by decide)

theorem text_ch2 {pl rp op : Bool} : ∀ x, Form pl rp op x → ∀ c ∈ text x, Ch2 c
  | .ch c, h => by
    intro d hd
    simp only [text, List.mem_cons, List.not_mem_nil, or_false] at hd
    subst hd
    rcases h with h | rfl
    · exact Or.inl h
    · exact Or.inr (by decide)
  | .grp x, h => by
    intro d hd
    simp only [text, List.mem_cons, List.mem_append, List.not_mem_nil, or_false] at hd
    rcases hd with (rfl | hd) | rfl
    · exact Or.inr (by decide)
    · exact text_ch2 x h d hd
    · exact Or.inr (by decide)
  | .seq a b, h => by
    intro d hd
    simp only [text, List.mem_append] at hd
    rcases hd with hd | hd
    · exact text_ch2 a h.1 d hd
    · exact text_ch2 b h.2.1 d hd
  | .bar a b, h => by
    intro d hd
    simp only [text, List.mem_cons, List.mem_append] at hd
    rcases hd with hd | rfl | hd
    · exact text_ch2 a h.1 d hd
    · exact Or.inr (by decide)
    · exact text_ch2 b h.2 d hd
  | .star a, h => by
    intro d hd
    simp only [text, List.mem_cons, List.mem_append, List.not_mem_nil, or_false] at hd
    rcases hd with hd | rfl
    · exact text_ch2 a h.1 d hd
    · exact Or.inr (by decide)
  | .plus a, h => by
    intro d hd
    simp only [text, List.mem_cons, List.mem_append, List.not_mem_nil, or_false] at hd
    rcases hd with hd | rfl
    · exact text_ch2 a h.2.1 d hd
    · exact Or.inr (by decide)
  | .opt a, h => by
    intro d hd
    simp only [text, List.mem_cons, List.mem_append, List.not_mem_nil, or_false] at hd
    rcases hd with hd | rfl
    · exact text_ch2 a h.2.1 d hd
    · exact Or.inr (by decide)
  | .rep a m n, h => by
    intro d hd
    simp only [text, List.mem_append] at hd
    rcases hd with hd | hd
    · exact text_ch2 a h.2.1 d hd
    · exact braces_ch2 m n d hd

theorem alnum_noparen (c : Char) (h : c.isAlphanum = true ∨ c = '$') : c ≠ '(' ∧ c ≠ ')' := by
  rcases h with h | rfl
  · exact ⟨alnum_ne c _ h (by decide), alnum_ne c _ h (by decide)⟩
  · exact ⟨by decide, by decide⟩

theorem braces_bal (m n : Nat) : Bal (braces m n) := by
  apply Bal.chars
  intro c hc
  rcases braces_ch2 m n c hc with h | h
  · exact alnum_noparen c (Or.inl h)
  · have : c ≠ '(' ∧ c ≠ ')' := by
      unfold braces at hc
      split at hc <;>
        simp only [List.mem_append, List.mem_cons, List.not_mem_nil, or_false] at hc
      · rcases hc with (rfl | hc) | rfl
        · decide
        · exact alnum_noparen c (Or.inl (digit_alnum c (natText_digits _ c hc)))
        · decide
      · rcases hc with (((rfl | hc) | rfl) | hc) | rfl
        · decide
        · exact alnum_noparen c (Or.inl (digit_alnum c (natText_digits _ c hc)))
        · decide
        · exact alnum_noparen c (Or.inl (digit_alnum c (natText_digits _ c hc)))
        · decide
    exact this

theorem text_bal {pl rp op : Bool} : ∀ x, Form pl rp op x → Bal (text x)
  | .ch c, h => .ch c (alnum_noparen c h).1 (alnum_noparen c h).2
  | .grp x, h => (text_bal x h).wrap
  | .seq a b, h => (text_bal a h.1).app (text_bal b h.2.1)
  | .bar a b, h => (text_bal a h.1).app ((Bal.ch '|' (by decide) (by decide)).app (text_bal b h.2))
  | .star a, h => (text_bal a h.1).app (.ch '*' (by decide) (by decide))
  | .plus a, h => (text_bal a h.2.1).app (.ch '+' (by decide) (by decide))
  | .opt a, h => (text_bal a h.2.1).app (.ch '?' (by decide) (by decide))
  | .rep a m n, h => (text_bal a h.2.1).app (braces_bal m n)

/-! ### `_preprocess_positive_closure`: the character loop -/

def NoBs (s : List Char) : Prop := ∀ c ∈ s, c ≠ '\\'

theorem escNext_sing_append (s : List Char) (hs : NoBs s) (rt : RToks) (h : escNext rt = false) :
    escNext ((sing s).reverse ++ rt) = false := (foldl_pushSym s hs rt h).2

/-- the loop maps the text `s` to the text `s'` (pushed on the reversed token list) -/
def PC (s s' : List Char) : Prop :=
  NoBs s' ∧ ∀ rt, escNext rt = false →
    s.foldlM positiveClosureStep rt = .ok ((sing s').reverse ++ rt)

theorem PC.append {s1 s1' s2 s2' : List Char} (h1 : PC s1 s1') (h2 : PC s2 s2') :
    PC (s1 ++ s2) (s1' ++ s2') := by
  refine ⟨fun c hc => (List.mem_append.mp hc).elim (h1.1 c) (h2.1 c), fun rt hrt => ?_⟩
  rw [List.foldlM_append, h1.2 rt hrt]
  show List.foldlM positiveClosureStep ((sing s1').reverse ++ rt) s2 = _
  rw [h2.2 _ (escNext_sing_append s1' h1.1 rt hrt)]
  simp [sing]

theorem PC.chars (s : List Char) (h : ∀ c ∈ s, c ≠ '+' ∧ c ≠ '\\') : PC s s :=
  ⟨fun c hc => (h c hc).2, fun rt hrt =>
    foldlM_pushSym positiveClosureStep s (fun c hc => (h c hc).2)
      (fun rt c hc => by simp [positiveClosureStep, (h c hc).1]) rt hrt⟩

theorem PC.plus_ch {s : List Char} {c : Char} (h : PC s [c]) (hc : c ≠ ')') :
    PC (s ++ ['+']) [c, c, '*'] := by
  have hb : c ≠ '\\' := h.1 c (by simp)
  refine ⟨by intro d hd; simp at hd; rcases hd with rfl | rfl | rfl <;> first | exact hb | decide,
    fun rt hrt => ?_⟩
  rw [List.foldlM_append, h.2 rt hrt]
  show List.foldlM positiveClosureStep ((sing [c]).reverse ++ rt) ['+'] = _
  have he : escNext ([c] :: rt) = false := escNext_sing rt c hb
  simp [sing, positiveClosureStep, he, hc, pure, Except.pure]
  rfl

theorem PC.plus_grp {s u : List Char} (h : PC s ('(' :: u ++ [')'])) (hu : Bal u) :
    PC (s ++ ['+']) (('(' :: u ++ [')']) ++ ('(' :: u ++ [')']) ++ ['*']) := by
  refine ⟨by
    intro d hd
    simp only [List.mem_append, List.mem_cons, List.not_mem_nil, or_false] at hd
    rcases hd with (hd | hd) | rfl
    · exact h.1 d (by
        simp only [List.mem_append, List.mem_cons, List.not_mem_nil, or_false]; exact hd)
    · exact h.1 d (by
        simp only [List.mem_append, List.mem_cons, List.not_mem_nil, or_false]; exact hd)
    · decide, fun rt hrt => ?_⟩
  rw [List.foldlM_append, h.2 rt hrt]
  show List.foldlM positiveClosureStep ((sing ('(' :: u ++ [')'])).reverse ++ rt) ['+'] = _
  have he : escNext ((sing ('(' :: u ++ [')'])).reverse ++ rt) = false :=
    escNext_sing_append _ h.1 rt hrt
  have hg := fpo_group u hu rt
  rw [List.foldlM_cons]
  unfold positiveClosureStep
  rw [he]
  simp only [bne_self_eq_false, Bool.or_self, Bool.false_eq_true, if_false]
  rw [sing_wrap_rev] at hg ⊢
  simp only [List.cons_append] at hg ⊢
  simp only [bne_self_eq_false, Bool.false_eq_true, if_false, hg]
  simp [sing, pure, Except.pure, bind, Except.bind]

/-- `_preprocess_positive_closure` on the trees -/
def p4a : C → C
  | .ch c => .ch c
  | .grp x => .grp (p4a x)
  | .seq a b => .seq (p4a a) (p4a b)
  | .bar a b => .bar (p4a a) (p4a b)
  | .star a => .star (p4a a)
  | .plus a => .seq (p4a a) (.star (p4a a))
  | .opt a => .opt (p4a a)
  | .rep a m n => .rep (p4a a) m n

theorem ch2_chars (s : List Char) (h : ∀ c ∈ s, Ch2 c) (hp : '+' ∉ s) : PC s s :=
  PC.chars s (fun c hc => ⟨fun e => hp (e ▸ hc), (h c hc).noBs⟩)

theorem braces_noplus (m n : Nat) : '+' ∉ braces m n := by
  intro hc
  have h1 : ∀ k, '+' ∉ natText k := fun k hk => absurd (natText_digits k _ hk) (by decide)
  unfold braces at hc
  split at hc <;> simp [h1] at hc

theorem p4a_form {rp op : Bool} : ∀ x, Form true rp op x →
    Form false rp op (p4a x) ∧ (IsUnit x → IsUnit (p4a x)) ∧ (cl x ≤ 1 → cl (p4a x) ≤ 1)
  | .ch c, h => ⟨h, fun _ => trivial, fun _ => by simp [p4a, cl]⟩
  | .grp x, h => ⟨(p4a_form x h).1, fun _ => trivial, fun _ => by simp [p4a, cl]⟩
  | .seq a b, h => ⟨⟨(p4a_form a h.1).1, (p4a_form b h.2.1).1, (p4a_form a h.1).2.2 h.2.2.1,
      (p4a_form b h.2.1).2.2 h.2.2.2⟩, fun hu => absurd hu (by simp [IsUnit]),
      fun _ => by simp [p4a, cl]⟩
  | .bar a b, h => ⟨⟨(p4a_form a h.1).1, (p4a_form b h.2).1⟩, fun hu => absurd hu (by simp [IsUnit]),
      fun hc => by simp [cl] at hc⟩
  | .star a, h => ⟨⟨(p4a_form a h.1).1, (p4a_form a h.1).2.1 h.2⟩,
      fun hu => absurd hu (by simp [IsUnit]), fun _ => by simp [p4a, cl]⟩
  | .plus a, h => ⟨⟨(p4a_form a h.2.1).1, ⟨(p4a_form a h.2.1).1, (p4a_form a h.2.1).2.1 h.2.2⟩,
      by rw [((p4a_form a h.2.1).2.1 h.2.2).cl]; omega, by simp [cl]⟩,
      fun hu => absurd hu (by simp [IsUnit]), fun _ => by simp [p4a, cl]⟩
  | .opt a, h => ⟨⟨h.1, (p4a_form a h.2.1).1, (p4a_form a h.2.1).2.1 h.2.2⟩,
      fun hu => absurd hu (by simp [IsUnit]), fun _ => by simp [p4a, cl]⟩
  | .rep a m n, h => ⟨⟨h.1, (p4a_form a h.2.1).1, (p4a_form a h.2.1).2.1 h.2.2.1, h.2.2.2⟩,
      fun hu => absurd hu (by simp [IsUnit]), fun _ => by simp [p4a, cl]⟩

theorem p4a_pc {rp op : Bool} : ∀ x, Form true rp op x → PC (text x) (text (p4a x))
  | .ch c, h => ch2_chars _ (text_ch2 (.ch c) h) (by
      simp only [text, List.mem_cons, List.not_mem_nil, or_false]
      rcases h with h | rfl
      · exact (alnum_ne c _ h (by decide)).symm
      · decide)
  | .grp x, h => by
    have := ((ch2_chars ['('] (by intro c hc; simp at hc; subst hc; exact Or.inr (by decide))
      (by decide)).append (p4a_pc x h)).append
      (ch2_chars [')'] (by intro c hc; simp at hc; subst hc; exact Or.inr (by decide)) (by decide))
    simpa [text, p4a] using this
  | .seq a b, h => (p4a_pc a h.1).append (p4a_pc b h.2.1)
  | .bar a b, h => by
    have := (p4a_pc a h.1).append ((ch2_chars ['|'] (by
      intro c hc; simp at hc; subst hc; exact Or.inr (by decide)) (by decide)).append (p4a_pc b h.2))
    simpa [text, p4a] using this
  | .star a, h => (p4a_pc a h.1).append (ch2_chars ['*'] (by
      intro c hc; simp at hc; subst hc; exact Or.inr (by decide)) (by decide))
  | .opt a, h => (p4a_pc a h.2.1).append (ch2_chars ['?'] (by
      intro c hc; simp at hc; subst hc; exact Or.inr (by decide)) (by decide))
  | .rep a m n, h => (p4a_pc a h.2.1).append (ch2_chars _ (braces_ch2 m n) (braces_noplus m n))
  | .plus a, h => by
    have ih := p4a_pc a h.2.1
    have hf := (p4a_form a h.2.1).1
    cases a with
    | ch c =>
      have := PC.plus_ch ih (alnum_noparen c h.2.1).2
      simpa [text, p4a] using this
    | grp y =>
      have := PC.plus_grp ih (text_bal _ (show Form false rp op (p4a y) from hf))
      simpa [text, p4a] using this
    | seq _ _ => exact absurd h.2.2 (by simp [IsUnit])
    | bar _ _ => exact absurd h.2.2 (by simp [IsUnit])
    | star _ => exact absurd h.2.2 (by simp [IsUnit])
    | plus _ => exact absurd h.2.2 (by simp [IsUnit])
    | opt _ => exact absurd h.2.2 (by simp [IsUnit])
    | rep _ _ _ => exact absurd h.2.2 (by simp [IsUnit])

/-! ### `_add_repetition` -/

theorem toNat_natText (n : Nat) : PyPass.toNat (natText n) = n := by
  have : PyPass.toNat (natText n) = Nat.ofDigitChars 10 (Nat.toDigits 10 n) 0 := by
    simp only [natText, Nat.toString_eq_repr, Nat.toList_repr]
    rfl
  rw [this, Nat.ofDigitChars_ten_toDigits]

theorem natText_ne_nil (n : Nat) : natText n ≠ [] := by
  simp only [natText, Nat.toString_eq_repr, Nat.toList_repr]
  exact Nat.toDigits_ne_nil

theorem isDigitStr_natText (n : Nat) : isDigitStr (natText n) = true := by
  have h1 : (natText n).isEmpty = false := by
    cases h : natText n with
    | nil => exact absurd h (natText_ne_nil n)
    | cons _ _ => rfl
  simp only [isDigitStr, h1, Bool.not_false, Bool.true_and, List.all_eq_true]
  exact natText_digits n

theorem untilClose_sing (ds : List Char) (h : '}' ∉ ds) (rest : List Tok) :
    untilClose (sing ds ++ ['}'] :: rest) = some (sing ds) := by
  induction ds with
  | nil => simp [sing, untilClose]
  | cons c r ih =>
    have hc : c ≠ '}' := fun e => h (by simp [e])
    have := ih (fun hm => h (by simp [hm]))
    simp only [sing, List.map_cons, List.cons_append] at this ⊢
    simp [untilClose, hc, this]

theorem splitComma_digits (a : List Char) (ha : ',' ∉ a) : splitComma a = [a] := by
  induction a with
  | nil => rfl
  | cons c r ih =>
    have hc : c ≠ ',' := fun e => ha (by simp [e])
    simp [splitComma, ih (fun hm => ha (by simp [hm])), hc]

theorem splitComma_pair (a b : List Char) (ha : ',' ∉ a) (hb : ',' ∉ b) :
    splitComma (a ++ ',' :: b) = [a, b] := by
  induction a with
  | nil => simp [splitComma, splitComma_digits b hb]
  | cons c r ih =>
    have hc : c ≠ ',' := fun e => ha (by simp [e])
    simp [splitComma, ih (fun hm => ha (by simp [hm])), hc]

theorem natText_no (n : Nat) (c : Char) (hc : c.isDigit = false) : c ∉ natText n := by
  intro h
  rw [natText_digits n c h] at hc
  exact absurd hc (by simp)

theorem isRepetition_exact (m : Nat) (rest : List Tok) :
    isRepetition ['{'] (sing (natText m) ++ ['}'] :: rest) =
      some (.exact m ((natText m).length + 1)) := by
  unfold isRepetition
  rw [untilClose_sing _ (natText_no m _ (by decide))]
  have h1 : (sing (natText m)).flatten.contains ',' = false := by
    rw [sing_flatten]
    simpa using natText_no m ',' (by decide)
  simp only [bne_self_eq_false, Bool.false_eq_true, if_false, h1]
  rw [sing_flatten, isDigitStr_natText, toNat_natText]
  simp [sing]

theorem isRepetition_between (m n : Nat) (rest : List Tok) :
    isRepetition ['{'] (sing (natText m ++ ',' :: natText n) ++ ['}'] :: rest) =
      some (.between m n ((natText m ++ ',' :: natText n).length + 1)) := by
  unfold isRepetition
  rw [untilClose_sing _ (by
    intro h
    rcases List.mem_append.mp h with h | h
    · exact natText_no m _ (by decide) h
    · rcases List.mem_cons.mp h with h | h
      · exact absurd h (by decide)
      · exact natText_no n _ (by decide) h)]
  have h1 : (sing (natText m ++ ',' :: natText n)).flatten.contains ',' = true := by
    rw [sing_flatten]; simp
  simp only [bne_self_eq_false, Bool.false_eq_true, if_false, h1, if_true]
  rw [sing_flatten, splitComma_pair _ _ (natText_no m _ (by decide)) (natText_no n _ (by decide))]
  simp only [isDigitStr_natText, Bool.and_self, if_true, toNat_natText]
  simp [sing]

theorem addRep_skip (sk rest : List Tok) (res : RToks) :
    addRepetitionGo (sk ++ rest) sk.length res = addRepetitionGo rest 0 res := by
  induction sk with
  | nil => rfl
  | cons t r ih => simpa [addRepetitionGo] using ih

theorem extendN_eq (k : Nat) (R res : RToks) :
    extendN k R res = (List.replicate k R).flatten ++ res := by
  induction k generalizing res with
  | zero => rfl
  | succ k ih =>
    rw [extendN, ih, List.replicate_succ']
    simp

/-- the loop maps the tokens `l` to the tokens `l'` -/
def AR (l l' : List Tok) : Prop :=
  ∀ rest res, addRepetitionGo (l ++ rest) 0 res = addRepetitionGo rest 0 (l'.reverse ++ res)

theorem AR.append {l1 l1' l2 l2' : List Tok} (h1 : AR l1 l1') (h2 : AR l2 l2') :
    AR (l1 ++ l2) (l1' ++ l2') := by
  intro rest res
  rw [List.append_assoc, h1, h2]
  simp

theorem AR.chars (s : List Char) (h : '{' ∉ s) : AR (sing s) (sing s) := by
  induction s with
  | nil => intro rest res; rfl
  | cons c r ih =>
    have hc : c ≠ '{' := fun e => h (by simp [e])
    intro rest res
    have hr : ∀ tl, isRepetition [c] tl = none := by intro tl; simp [isRepetition, hc]
    have := ih (fun hm => h (by simp [hm])) rest ([c] :: res)
    simp only [sing, List.map_cons, List.cons_append] at this ⊢
    rw [addRepetitionGo, hr]
    simp only
    rw [this]
    simp

/-- a single character other than `)` or a balanced group -/
def UnitText (u : List Char) : Prop :=
  (∃ c, u = [c] ∧ c ≠ ')') ∨ (∃ v, u = '(' :: v ++ [')'] ∧ Bal v)

theorem findRepeatedR_unit (u : List Char) (h : UnitText u) (res : RToks) :
    findRepeatedR ((sing u).reverse ++ res) = .ok (sing u).reverse := by
  rcases h with ⟨c, rfl, hc⟩ | ⟨v, rfl, hv⟩
  · simp [sing, findRepeatedR, hc]
  · exact frs_group v hv res

def pow (u : List Char) (k : Nat) : List Char := (List.replicate k u).flatten

/-- the text `_add_repetition` writes for `u{m}` / `u{m,n}` -/
def repText (u : List Char) (m n : Nat) : List Char :=
  if m = n then (if n = 0 then ['$'] else pow u n)
  else (if m = 0 then ['$'] else pow u m) ++ pow (u ++ ['?']) (n - m)

theorem sing_pow_rev (u : List Char) (k : Nat) :
    (sing (pow u k)).reverse = (List.replicate k (sing u).reverse).flatten := by
  induction k with
  | zero => rfl
  | succ k ih =>
    rw [pow, List.replicate_succ, List.flatten_cons, sing_append, List.reverse_append]
    rw [show (List.replicate k u).flatten = pow u k from rfl, ih, List.replicate_succ']
    simp

theorem AR.rep {l : List Tok} {u : List Char} (h : AR l (sing u)) (hu : UnitText u) (m n : Nat) :
    AR (l ++ sing (braces m n)) (sing (repText u m n)) := by
  intro rest res
  rw [List.append_assoc, h]
  have hfr := findRepeatedR_unit u hu res
  have hlen : ((sing u).reverse ++ res).drop (sing u).reverse.length = res := by simp
  unfold braces repText
  by_cases hmn : m = n
  · subst hmn
    simp only [if_true]
    have e : sing (['{'] ++ natText m ++ ['}']) ++ rest =
        ['{'] :: (sing (natText m) ++ ['}'] :: rest) := by simp [sing]
    rw [e, addRepetitionGo, isRepetition_exact]
    simp only [hfr, bind, Except.bind]
    have hsk := addRep_skip (sing (natText m) ++ [['}']]) rest
    simp only [List.length_append, List.length_cons, List.length_nil, sing, List.length_map,
      List.append_assoc, List.cons_append, List.nil_append] at hsk
    simp only [sing] at hsk ⊢
    rw [hsk]
    by_cases h0 : m = 0
    · subst h0
      simp [extendN]
    · have : (m == 0) = false := by simpa using h0
      simp only [this, Bool.false_eq_true, if_false, h0]
      rw [extendN_eq]
      have := sing_pow_rev u m
      simp only [sing] at this
      rw [this]
      obtain ⟨k, rfl⟩ : ∃ k, m = k + 1 := ⟨m - 1, by omega⟩
      simp [List.replicate_succ']
  · simp only [hmn, if_false]
    have e : sing (['{'] ++ natText m ++ [','] ++ natText n ++ ['}']) ++ rest =
        ['{'] :: (sing (natText m ++ ',' :: natText n) ++ ['}'] :: rest) := by simp [sing]
    rw [e, addRepetitionGo, isRepetition_between]
    simp only [hfr, bind, Except.bind]
    have hsk := addRep_skip (sing (natText m ++ ',' :: natText n) ++ [['}']]) rest
    simp only [List.length_append, List.length_cons, List.length_nil, sing, List.length_map,
      List.append_assoc, List.cons_append, List.nil_append] at hsk
    simp only [sing, List.length_append, List.length_cons] at hsk ⊢
    rw [hsk]
    have hq : ['?'] :: (List.map (fun c => [c]) u).reverse = (sing (u ++ ['?'])).reverse := by
      simp [sing]
    rw [hq, extendN_eq, extendN_eq, ← sing_pow_rev]
    by_cases h0 : m = 0
    · subst h0
      simp [sing]
    · have : (m == 0) = false := by simpa using h0
      simp only [this, Bool.false_eq_true, if_false, h0]
      have h2 := sing_pow_rev u m
      obtain ⟨k, rfl⟩ : ∃ k, m = k + 1 := ⟨m - 1, by omega⟩
      simp only [sing] at h2 ⊢
      rw [List.map_append, List.reverse_append, h2]
      simp [List.replicate_succ']

/-- `k + 1` copies -/
def cpow (a : C) : Nat → C
  | 0 => a
  | k + 1 => .seq a (cpow a k)

def repC (a : C) (m n : Nat) : C :=
  if m = n then (if n = 0 then .ch '$' else cpow a (n - 1))
  else .seq (if m = 0 then .ch '$' else cpow a (m - 1)) (cpow (.opt a) (n - m - 1))

/-- `_add_repetition` on the trees -/
def p4b : C → C
  | .ch c => .ch c
  | .grp x => .grp (p4b x)
  | .seq a b => .seq (p4b a) (p4b b)
  | .bar a b => .bar (p4b a) (p4b b)
  | .star a => .star (p4b a)
  | .plus a => .plus (p4b a)
  | .opt a => .opt (p4b a)
  | .rep a m n => repC (p4b a) m n

theorem cpow_text (a : C) (k : Nat) : text (cpow a k) = pow (text a) (k + 1) := by
  induction k with
  | zero => simp [cpow, pow]
  | succ k ih => rw [cpow, text, ih, pow, pow, List.replicate_succ (n := k + 1)]; simp

theorem repC_text (a : C) (m n : Nat) (h : m ≤ n) : text (repC a m n) = repText (text a) m n := by
  unfold repC repText
  by_cases hmn : m = n
  · subst hmn
    by_cases h0 : m = 0
    · simp [h0, text]
    · simp only [if_true, h0, if_false, cpow_text]
      rw [Nat.sub_add_cancel (by omega)]
  · simp only [hmn, if_false, text]
    have e : text (cpow (.opt a) (n - m - 1)) = pow (text a ++ ['?']) (n - m) := by
      rw [cpow_text, text, show n - m - 1 + 1 = n - m by omega]
    rw [e]
    by_cases h0 : m = 0
    · simp [h0, text]
    · simp only [h0, if_false, cpow_text]
      rw [Nat.sub_add_cancel (by omega)]

theorem cpow_cl (a : C) (k : Nat) (h : cl a ≤ 1) : cl (cpow a k) ≤ 1 := by
  cases k with
  | zero => exact h
  | succ k => simp [cpow, cl]

theorem cpow_form {pl rp op : Bool} (a : C) (k : Nat) (h : Form pl rp op a) (hc : cl a ≤ 1) :
    Form pl rp op (cpow a k) := by
  induction k with
  | zero => exact h
  | succ k ih => exact ⟨h, ih, hc, cpow_cl a k hc⟩

theorem repC_form {pl rp : Bool} (a : C) (m n : Nat) (h : Form pl rp true a) (hu : IsUnit a) :
    Form pl rp true (repC a m n) ∧ cl (repC a m n) ≤ 1 := by
  have h1 : ∀ k, Form pl rp true (cpow a k) := fun k => cpow_form a k h (by rw [hu.cl]; omega)
  have h2 : ∀ k, Form pl rp true (cpow (.opt a) k) := fun k =>
    cpow_form (.opt a) k ⟨rfl, h, hu⟩ (by simp [cl])
  have h3 : Form pl rp true (.ch '$') := Or.inr rfl
  have c1 : ∀ k, cl (cpow a k) ≤ 1 := fun k => cpow_cl a k (by rw [hu.cl]; omega)
  unfold repC
  by_cases hmn : m = n
  · by_cases h0 : n = 0
    · simp [hmn, h0, h3, cl]
    · simp only [hmn, h0, if_true, if_false]; exact ⟨h1 _, c1 _⟩
  · simp only [hmn, if_false]
    refine ⟨⟨?_, h2 _, ?_, cpow_cl _ _ (by simp [cl])⟩, by simp [cl]⟩
    · split
      · exact h3
      · exact h1 _
    · split
      · simp [cl]
      · exact c1 _

theorem form_mono_op {pl rp op : Bool} : ∀ x, Form pl rp op x → Form pl rp true x
  | .ch _, h => h
  | .grp x, h => form_mono_op x h
  | .seq a b, h => ⟨form_mono_op a h.1, form_mono_op b h.2.1, h.2.2⟩
  | .bar a b, h => ⟨form_mono_op a h.1, form_mono_op b h.2⟩
  | .star a, h => ⟨form_mono_op a h.1, h.2⟩
  | .plus a, h => ⟨h.1, form_mono_op a h.2.1, h.2.2⟩
  | .opt a, h => ⟨rfl, form_mono_op a h.2.1, h.2.2⟩
  | .rep a _ _, h => ⟨h.1, form_mono_op a h.2.1, h.2.2⟩

theorem p4b_form {op : Bool} : ∀ x, Form false true op x →
    Form false false true (p4b x) ∧ (IsUnit x → IsUnit (p4b x)) ∧ (cl x ≤ 1 → cl (p4b x) ≤ 1)
  | .ch c, h => ⟨h, fun _ => trivial, fun _ => by simp [p4b, cl]⟩
  | .grp x, h => ⟨(p4b_form x h).1, fun _ => trivial, fun _ => by simp [p4b, cl]⟩
  | .seq a b, h => ⟨⟨(p4b_form a h.1).1, (p4b_form b h.2.1).1, (p4b_form a h.1).2.2 h.2.2.1,
      (p4b_form b h.2.1).2.2 h.2.2.2⟩, fun hu => absurd hu (by simp [IsUnit]),
      fun _ => by simp [p4b, cl]⟩
  | .bar a b, h => ⟨⟨(p4b_form a h.1).1, (p4b_form b h.2).1⟩, fun hu => absurd hu (by simp [IsUnit]),
      fun hc => by simp [cl] at hc⟩
  | .star a, h => ⟨⟨(p4b_form a h.1).1, (p4b_form a h.1).2.1 h.2⟩,
      fun hu => absurd hu (by simp [IsUnit]), fun _ => by simp [p4b, cl]⟩
  | .plus a, h => absurd h.1 (by simp)
  | .opt a, h => ⟨⟨rfl, (p4b_form a h.2.1).1, (p4b_form a h.2.1).2.1 h.2.2⟩,
      fun hu => absurd hu (by simp [IsUnit]), fun _ => by simp [p4b, cl]⟩
  | .rep a m n, h => by
    have := repC_form (pl := false) (rp := false) (p4b a) m n (p4b_form a h.2.1).1
      ((p4b_form a h.2.1).2.1 h.2.2.1)
    exact ⟨this.1, fun hu => absurd hu (by simp [IsUnit]), fun _ => this.2⟩

theorem unit_text {pl rp op : Bool} (a : C) (h : Form pl rp op a) (hu : IsUnit a) :
    UnitText (text a) := by
  cases a with
  | ch c => exact Or.inl ⟨c, rfl, (alnum_noparen c h).2⟩
  | grp y => exact Or.inr ⟨text y, rfl, text_bal y h⟩
  | _ => exact absurd hu (by simp [IsUnit])

theorem ar_ch (c : Char) (hc : c ≠ '{') : AR [[c]] [[c]] := AR.chars [c] (by simpa using hc.symm)

theorem braces_nobrace_ch2 {pl rp op : Bool} (c : Char) (h : Form pl rp op (.ch c)) : c ≠ '{' := by
  rcases h with h | rfl
  · exact alnum_ne c _ h (by decide)
  · decide

theorem p4b_ar {op : Bool} : ∀ x, Form false true op x → AR (sing (text x)) (sing (text (p4b x)))
  | .ch c, h => ar_ch c (braces_nobrace_ch2 c h)
  | .grp x, h => by
    have := ((ar_ch '(' (by decide)).append (p4b_ar x h)).append (ar_ch ')' (by decide))
    simpa [text, p4b, sing] using this
  | .seq a b, h => by
    have := (p4b_ar a h.1).append (p4b_ar b h.2.1)
    simpa [text, p4b, sing] using this
  | .bar a b, h => by
    have := (p4b_ar a h.1).append ((ar_ch '|' (by decide)).append (p4b_ar b h.2))
    simpa [text, p4b, sing] using this
  | .star a, h => by
    have := (p4b_ar a h.1).append (ar_ch '*' (by decide))
    simpa [text, p4b, sing] using this
  | .plus a, h => absurd h.1 (by simp)
  | .opt a, h => by
    have := (p4b_ar a h.2.1).append (ar_ch '?' (by decide))
    simpa [text, p4b, sing] using this
  | .rep a m n, h => by
    have hf := p4b_form a h.2.1
    have := AR.rep (p4b_ar a h.2.1) (unit_text _ hf.1 (hf.2.1 h.2.2.1)) m n
    rw [← repC_text _ m n h.2.2.2, ← sing_append] at this
    exact this

/-- the whole pass -/
theorem pass4 {op : Bool} (x : C) (h : Form true true op x) :
    preprocessPositiveClosure (text x) = .ok (text (p4b (p4a x))) := by
  have h1 := (p4a_pc x h).2 [] rfl
  have hf := (p4a_form x h).1
  have h2 := p4b_ar (p4a x) hf [] []
  simp only [List.append_nil] at h1 h2
  have h3 : addRepetition (sing (text (p4a x))) = .ok (sing (text (p4b (p4a x)))) := by
    simp only [addRepetition, h2, addRepetitionGo]
    show Except.ok (sing (text (p4b (p4a x)))).reverse.reverse = _
    rw [List.reverse_reverse]
  simp only [preprocessPositiveClosure, h1]
  show (do let l ← addRepetition (sing (text (p4a x))).reverse.reverse; pure l.flatten) = _
  rw [List.reverse_reverse, h3]
  show Except.ok (sing _).flatten = _
  rw [sing_flatten]

end Pfl.PyRx.E2E
