/-
Helper lemmas for C15 (model `Pfl/Model/RecDescent.lean`): the pruning test, the choice of the
variable to expand, the backtracking search and the reconstruction of the tree.
-/
import Pfl.Model.RecDescent
import Pfl.Proofs.CFGBase
import Pfl.Proofs.Trees
import Pfl.Proofs.LL1LibParse
namespace Pfl
namespace RecDescent
namespace Lem
open CFG
open Pfl.LL1Lib.Lem (Lm lm_nil_inv lm_ter_inv lm_var_inv)

/-! ### the pruning test -/

theorem rdMatch_var_append (v : String) (rest : List Sym) (w2 : List String)
    (h : rdMatch w2 rest = true) : ∀ w1 : List String, rdMatch (w1 ++ w2) (.var v :: rest) = true := by
  intro w1
  induction w1 with
  | nil =>
    cases w2 with
    | nil => rw [List.nil_append, rdMatch, h]; rfl
    | cons a w2 => rw [List.nil_append, rdMatch, h, Bool.or_true]
  | cons a w1 ih => rw [List.cons_append, rdMatch, ih, Bool.true_or]

theorem rdMatch_of_genList (G : CFG) : ∀ (e : List Sym) (w : List String),
    G.GenList e w → rdMatch w e = true := by
  intro e
  induction e with
  | nil => intro w h; rw [genList_nil_iff.mp h, rdMatch]
  | cons s rest ih =>
    intro w h
    obtain ⟨w1, w2, rfl, h1, h2⟩ := genList_cons_iff.mp h
    cases s with
    | var v => exact rdMatch_var_append v rest w2 (ih w2 h2) w1
    | ter t =>
      rw [gen_ter_iff.mp h1]
      simp [rdMatch, ih w2 h2]

/-- a sentential form without variables that passes the test is the word -/
theorem rdMatch_ters : ∀ (e : List Sym) (w : List String),
    (∀ s ∈ e, ∀ v, s ≠ Sym.var v) → rdMatch w e = true → e = w.map Sym.ter := by
  intro e
  induction e with
  | nil =>
    intro w _ h
    cases w with
    | nil => rfl
    | cons a w => rw [rdMatch] at h; cases h
  | cons s rest ih =>
    intro w hs h
    cases s with
    | var v => exact absurd rfl (hs (.var v) List.mem_cons_self v)
    | ter t =>
      cases w with
      | nil => simp [rdMatch] at h
      | cons a w =>
        simp only [rdMatch, Bool.and_eq_true, decide_eq_true_eq] at h
        rw [List.map_cons, h.1, ← ih w (fun s hm => hs s (List.mem_cons_of_mem _ hm)) h.2]


/-! ### the variable to expand -/

theorem findIdx_split {α : Type} (p : α → Bool) : ∀ (e : List α) (i : Nat), e.findIdx? p = some i →
    ∃ pre x post, e = pre ++ x :: post ∧ pre.length = i ∧ p x = true ∧ ∀ s ∈ pre, p s = false
  | [], i, h => by simp at h
  | a :: e, i, h => by
    rw [List.findIdx?_cons] at h
    split at h
    · next ha => cases h; exact ⟨[], a, e, rfl, rfl, ha, by simp⟩
    · next ha =>
      obtain ⟨j, hj, rfl⟩ := Option.map_eq_some_iff.mp h
      obtain ⟨pre, x, post, rfl, rfl, hx, hpre⟩ := findIdx_split p e j hj
      refine ⟨a :: pre, x, post, rfl, rfl, hx, ?_⟩
      intro s hs
      rcases List.mem_cons.mp hs with rfl | hs
      · simpa using ha
      · exact hpre s hs

/-- a list of symbols without variables -/
def Ters (l : List Sym) : Prop := ∀ s ∈ l, ∀ v, s ≠ Sym.var v

theorem indexToExtend_some (e : List Sym) (left : Bool) (i : Nat)
    (h : indexToExtend e left = some i) :
    ∃ pre v post, e = pre ++ Sym.var v :: post ∧ pre.length = i ∧
      (if left then Ters pre else Ters post) := by
  unfold indexToExtend at h
  cases left with
  | true =>
    simp only [if_true] at h
    obtain ⟨pre, x, post, rfl, rfl, hx, hpre⟩ := findIdx_split _ e i h
    cases x with
    | ter t => simp at hx
    | var v =>
      refine ⟨pre, v, post, rfl, rfl, ?_⟩
      simp only [if_true]
      intro s hs u hu
      subst hu
      simpa using hpre _ hs
  | false =>
    simp only [Bool.false_eq_true, if_false] at h
    obtain ⟨j, hj, rfl⟩ := Option.map_eq_some_iff.mp h
    obtain ⟨pre, x, post, he, rfl, hx, hpre⟩ := findIdx_split _ e.reverse j hj
    have he' : e = post.reverse ++ x :: pre.reverse := by
      rw [← List.reverse_reverse e, he]; simp
    cases x with
    | ter t => simp at hx
    | var v =>
      refine ⟨post.reverse, v, pre.reverse, he', ?_, ?_⟩
      · rw [he']; simp
      · simp only [Bool.false_eq_true, if_false]
        intro s hs u hu
        subst hu
        simpa using hpre _ (List.mem_reverse.mp hs)

theorem indexToExtend_none (e : List Sym) (left : Bool) (h : indexToExtend e left = none) :
    Ters e := by
  unfold indexToExtend at h
  intro s hs u hu
  subst hu
  cases left with
  | true =>
    simp only [if_true] at h
    simpa using List.findIdx?_eq_none_iff.mp h _ hs
  | false =>
    simp only [Bool.false_eq_true, if_false, Option.map_eq_none_iff] at h
    simpa using List.findIdx?_eq_none_iff.mp h _ (List.mem_reverse.mpr hs)

/-! ### the backtracking search -/

theorem tryAll_none (G : CFG) (left : Bool) (fuel : Nat) (w : List String) (e : List Sym) (i : Nat)
    (v : String) : ∀ l, rdSub.tryAll G left fuel w e i v l = some none →
    ∀ p ∈ l, p.1 = v → rdSub G left fuel w (e.take i ++ p.2 ++ e.drop (i + 1)) = some none := by
  intro l
  induction l with
  | nil => intro _ p hp; cases hp
  | cons q l ih =>
    intro h p hp hpv
    rw [rdSub.tryAll] at h
    split at h
    · next hq =>
      split at h
      · cases h
      · cases h
      · next hr =>
        rcases List.mem_cons.mp hp with rfl | hp
        · exact hr
        · exact ih h p hp hpv
    · next hq =>
      rcases List.mem_cons.mp hp with rfl | hp
      · exact absurd hpv hq
      · exact ih h p hp hpv

theorem tryAll_some (G : CFG) (left : Bool) (fuel : Nat) (w : List String) (e : List Sym) (i : Nat)
    (v : String) : ∀ l r, rdSub.tryAll G left fuel w e i v l = some (some r) →
    ∃ p r', r = p :: r' ∧ p ∈ l ∧ p.1 = v ∧
      rdSub G left fuel w (e.take i ++ p.2 ++ e.drop (i + 1)) = some (some r') := by
  intro l
  induction l with
  | nil => intro r h; rw [rdSub.tryAll] at h; cases h
  | cons q l ih =>
    intro r h
    rw [rdSub.tryAll] at h
    split at h
    · next hq =>
      split at h
      · cases h
      · next r' hr =>
        cases h
        exact ⟨q, r', rfl, List.mem_cons_self, hq, hr⟩
      · obtain ⟨p, r', h1, h2, h3⟩ := ih r h
        exact ⟨p, r', h1, List.mem_cons_of_mem _ h2, h3⟩
    · obtain ⟨p, r', h1, h2, h3⟩ := ih r h
      exact ⟨p, r', h1, List.mem_cons_of_mem _ h2, h3⟩

theorem split_facts (pre post : List Sym) (v : String) :
    (pre ++ Sym.var v :: post)[pre.length]? = some (Sym.var v) ∧
    (pre ++ Sym.var v :: post).take pre.length = pre ∧
    (pre ++ Sym.var v :: post).drop (pre.length + 1) = post := by
  refine ⟨by simp, by simp, ?_⟩
  rw [show pre ++ Sym.var v :: post = (pre ++ [Sym.var v]) ++ post by simp]
  exact List.drop_left' (by simp)

/-- a refusal of the search is justified -/
theorem rdSub_refuse (G : CFG) (left : Bool) : ∀ (fuel : Nat) (w : List String) (e : List Sym),
    rdSub G left fuel w e = some none → ¬ G.GenList e w := by
  intro fuel
  induction fuel with
  | zero => intro w e h; rw [rdSub] at h; cases h
  | succ fuel ih =>
    intro w e h hg
    rw [rdSub] at h
    rw [rdMatch_of_genList G e w hg] at h
    simp only [Bool.not_true, Bool.false_eq_true, if_false] at h
    split at h
    · cases h
    · next i hi =>
      obtain ⟨pre, v, post, rfl, rfl, _⟩ := indexToExtend_some e left i hi
      obtain ⟨f1, f2, f3⟩ := split_facts pre post v
      rw [f1] at h
      simp only at h
      obtain ⟨w12, w3, rfl, h12, h3⟩ := (genList_append_iff G pre _ _).mp hg
      obtain ⟨w1, w2, rfl, h1, h2⟩ := genList_cons_iff.mp h3
      obtain ⟨body, hb, hgb⟩ := gen_var_iff.mp h1
      have := tryAll_none G left fuel _ _ _ v _ h (v, body) hb rfl
      rw [f2, f3] at this
      refine ih _ _ this ?_
      rw [List.append_assoc]
      exact genList_append h12 (genList_append hgb h2)


/-! ### the productions applied along the successful branch -/

/-- mirror image of a production -/
def revP (p : Pfl.Prod) : Pfl.Prod := (p.1, p.2.reverse)

def mp : Bool → List Pfl.Prod → List Pfl.Prod
  | true, ps => ps
  | false, ps => ps.map revP

def mw : Bool → List String → List String
  | true, w => w
  | false, w => w.reverse

def ms : Bool → List Sym → List Sym
  | true, e => e
  | false, e => e.reverse

/-- `ps` is a leftmost (`left`) / rightmost derivation of `w` from `e`: the mirror image of a
rightmost derivation is a leftmost derivation in the mirrored grammar -/
def Seq (left : Bool) (e : List Sym) (ps : List Pfl.Prod) (w : List String) : Prop :=
  Lm (ms left e) (mp left ps) (mw left w)

theorem lm_map_ter : ∀ w : List String, Lm (w.map Sym.ter) [] w
  | [] => Lm.nil
  | a :: w => Lm.ter a _ _ _ (lm_map_ter w)

theorem lm_ters_var (v : String) (body post : List Sym) (ps : List Pfl.Prod) :
    ∀ (pre : List Sym) (w : List String), Ters pre → Lm (pre ++ body ++ post) ps w →
      Lm (pre ++ Sym.var v :: post) ((v, body) :: ps) w := by
  intro pre
  induction pre with
  | nil => intro w _ h; exact Lm.var v post (v, body) ps w rfl (by simpa using h)
  | cons s pre ih =>
    intro w ht h
    cases s with
    | var u => exact absurd rfl (ht (.var u) List.mem_cons_self u)
    | ter t =>
      rw [List.cons_append, List.cons_append] at h
      obtain ⟨w', rfl, h'⟩ := lm_ter_inv h
      exact Lm.ter t _ _ _ (ih w' (fun s hs => ht s (List.mem_cons_of_mem _ hs)) h')

theorem seq_base (left : Bool) (w : List String) : Seq left (w.map Sym.ter) [] w := by
  cases left with
  | true => exact lm_map_ter w
  | false =>
    show Lm (w.map Sym.ter).reverse ([].map revP) w.reverse
    rw [← List.map_reverse]
    exact lm_map_ter _

theorem seq_step (left : Bool) (pre post : List Sym) (p : Pfl.Prod) (r : List Pfl.Prod)
    (w : List String) (ht : if left then Ters pre else Ters post)
    (h : Seq left (pre ++ p.2 ++ post) r w) : Seq left (pre ++ Sym.var p.1 :: post) (p :: r) w := by
  cases left with
  | true => exact lm_ters_var p.1 p.2 post r pre w (by simpa using ht) h
  | false =>
    have ht : Ters post := by simpa using ht
    have h : Lm (pre ++ p.2 ++ post).reverse (r.map revP) w.reverse := h
    show Lm (pre ++ Sym.var p.1 :: post).reverse ((p :: r).map revP) w.reverse
    have e1 : (pre ++ Sym.var p.1 :: post).reverse = post.reverse ++ Sym.var p.1 :: pre.reverse := by
      simp
    have e2 : (pre ++ p.2 ++ post).reverse = post.reverse ++ p.2.reverse ++ pre.reverse := by
      simp
    rw [e1, List.map_cons]
    rw [e2] at h
    exact lm_ters_var p.1 p.2.reverse pre.reverse (r.map revP) post.reverse w.reverse
      (fun s hs => ht s (List.mem_reverse.mp hs)) h

/-- the successful branch lists productions of the grammar, in leftmost / rightmost order -/
theorem rdSub_seq (G : CFG) (left : Bool) : ∀ (fuel : Nat) (w : List String) (e : List Sym)
    (ps : List Pfl.Prod), rdSub G left fuel w e = some (some ps) →
      (∀ p ∈ ps, p ∈ G.prods) ∧ Seq left e ps w := by
  intro fuel
  induction fuel with
  | zero => intro w e ps h; rw [rdSub] at h; cases h
  | succ fuel ih =>
    intro w e ps h
    rw [rdSub] at h
    split at h
    · cases h
    · next hm =>
      have hm : rdMatch w e = true := by simpa using hm
      split at h
      · next hi =>
        cases h
        rw [rdMatch_ters e w (indexToExtend_none e left hi) hm]
        exact ⟨by simp, seq_base left w⟩
      · next i hi =>
        obtain ⟨pre, v, post, rfl, rfl, ht⟩ := indexToExtend_some e left i hi
        obtain ⟨f1, f2, f3⟩ := split_facts pre post v
        rw [f1] at h
        simp only at h
        obtain ⟨p, r', rfl, hp, rfl, hr⟩ := tryAll_some G left fuel _ _ _ _ _ _ h
        rw [f2, f3] at hr
        obtain ⟨g1, g2⟩ := ih _ _ _ hr
        refine ⟨?_, seq_step left pre post p r' w ht g2⟩
        intro q hq
        rcases List.mem_cons.mp hq with rfl | hq
        · exact hp
        · exact g1 q hq

/-! ### rebuilding the tree -/

/-- the yields of the trees as they are met by the mirrored leftmost derivation -/
def yw (left : Bool) (ts : List PTree) : List String :=
  (ts.map fun t => mw left (yieldT t)).flatten

theorem yw_cons (left : Bool) (t : PTree) (ts : List PTree) :
    yw left (t :: ts) = mw left (yieldT t) ++ yw left ts := by
  simp [yw]

theorem yw_true : ∀ ts : List PTree, yw true ts = yieldL ts
  | [] => by simp [yw, yieldL]
  | t :: ts => by rw [yw_cons, yw_true ts]; simp [mw, yieldL]

theorem yw_false : ∀ ts : List PTree, yw false ts = (yieldL ts.reverse).reverse
  | [] => by simp [yw, yieldL]
  | t :: ts => by
    rw [yw_cons, yw_false ts]
    simp [mw, yieldL, Trees.yieldL_append]

theorem wellFormedL_reverse (G : CFG) : ∀ ts : List PTree,
    G.wellFormedL ts.reverse = G.wellFormedL ts
  | [] => rfl
  | t :: ts => by
    rw [List.reverse_cons, Trees.wellFormedL_append, wellFormedL_reverse G ts]
    simp [wellFormedL, Bool.and_comm]

structure TGood (G : CFG) (left : Bool) (s : Sym) (ps : List Pfl.Prod) (t : PTree)
    (ps' : List Pfl.Prod) : Prop where
  sym : t.sym = s
  sub : ∀ p ∈ ps', p ∈ ps
  wf : (∀ p ∈ ps, p ∈ G.prods) → G.wellFormedT t = true
  yld : ∀ ss w, Lm (s :: ss) (mp left ps) w →
    ∃ w2, w = mw left (yieldT t) ++ w2 ∧ Lm ss (mp left ps') w2

structure LGood (G : CFG) (left : Bool) (syms : List Sym) (ps : List Pfl.Prod) (ts : List PTree)
    (ps' : List Pfl.Prod) : Prop where
  sym : ts.map PTree.sym = syms
  sub : ∀ p ∈ ps', p ∈ ps
  wf : (∀ p ∈ ps, p ∈ G.prods) → G.wellFormedL ts = true
  yld : ∀ ss w, Lm (syms ++ ss) (mp left ps) w →
    ∃ w2, w = yw left ts ++ w2 ∧ Lm ss (mp left ps') w2

theorem sons_good (G : CFG) (left : Bool) (fuel : Nat)
    (hT : ∀ s ps t ps', build left fuel s ps = some (t, ps') → TGood G left s ps t ps') :
    ∀ syms ps ts ps', build.sons left fuel syms ps = some (ts, ps') →
      LGood G left syms ps ts ps' := by
  intro syms
  induction syms with
  | nil =>
    intro ps ts ps' h
    rw [build.sons] at h
    cases h
    refine ⟨rfl, fun p hp => hp, fun _ => rfl, ?_⟩
    intro ss w hl
    exact ⟨w, by simp [yw], hl⟩
  | cons s syms ih =>
    intro ps ts ps' h
    rw [build.sons] at h
    split at h
    · cases h
    · next t ps1 hb =>
      obtain ⟨⟨ts1, ps2⟩, hs, he⟩ := Option.map_eq_some_iff.mp h
      simp only [Prod.mk.injEq] at he
      obtain ⟨rfl, rfl⟩ := he
      have g1 := hT s ps t ps1 hb
      have g2 := ih ps1 ts1 ps2 hs
      refine ⟨?_, ?_, ?_, ?_⟩
      · simp [g1.sym, g2.sym]
      · exact fun p hp => g1.sub p (g2.sub p hp)
      · intro hall
        simp only [wellFormedL, Bool.and_eq_true]
        exact ⟨g1.wf hall, g2.wf (fun p hp => hall p (g1.sub p hp))⟩
      · intro ss w hl
        rw [List.cons_append] at hl
        obtain ⟨w2, rfl, hl2⟩ := g1.yld _ w hl
        obtain ⟨w3, rfl, hl3⟩ := g2.yld ss w2 hl2
        exact ⟨w3, by simp [yw], hl3⟩

theorem build_good (G : CFG) (left : Bool) : ∀ (fuel : Nat) s ps t ps',
    build left fuel s ps = some (t, ps') → TGood G left s ps t ps' := by
  intro fuel
  induction fuel with
  | zero => intro s ps t ps' h; rw [build] at h; cases h
  | succ fuel ih =>
    intro s ps t ps' h
    cases s with
    | ter a =>
      rw [build] at h
      · cases h
        refine ⟨rfl, fun p hp => hp, fun _ => rfl, ?_⟩
        intro ss w hl
        obtain ⟨w', rfl, hl'⟩ := lm_ter_inv hl
        exact ⟨w', by cases left <;> simp [yieldT, mw], hl'⟩
      · simp
    | var v =>
      cases ps with
      | nil => rw [build] at h; cases h
      | cons p rest =>
        rw [build] at h
        split at h
        · cases h
        · next hpv =>
          have hpv : p.1 = v := Classical.not_not.mp hpv
          cases left with
          | true =>
            simp only [if_true] at h
            obtain ⟨⟨ts, ps2⟩, hs, he⟩ := Option.map_eq_some_iff.mp h
            simp only [Prod.mk.injEq] at he
            obtain ⟨rfl, rfl⟩ := he
            have g := sons_good G true fuel ih p.2 rest ts ps2 hs
            refine ⟨rfl, fun q hq => List.mem_cons_of_mem _ (g.sub q hq), ?_, ?_⟩
            · intro hall
              simp only [wellFormedT, Bool.and_eq_true, decide_eq_true_eq]
              refine ⟨?_, g.wf (fun q hq => hall q (List.mem_cons_of_mem _ hq))⟩
              rw [g.sym, ← hpv]
              exact hall p List.mem_cons_self
            · intro ss w hl
              obtain ⟨_, hl'⟩ := lm_var_inv (p := p) (ps := rest) hl
              obtain ⟨w2, rfl, hl2⟩ := g.yld ss w hl'
              exact ⟨w2, by simp [yieldT, mw, yw_true], hl2⟩
          | false =>
            simp only [Bool.false_eq_true, if_false] at h
            obtain ⟨⟨ts, ps2⟩, hs, he⟩ := Option.map_eq_some_iff.mp h
            simp only [Prod.mk.injEq] at he
            obtain ⟨rfl, rfl⟩ := he
            have g := sons_good G false fuel ih p.2.reverse rest ts ps2 hs
            refine ⟨rfl, fun q hq => List.mem_cons_of_mem _ (g.sub q hq), ?_, ?_⟩
            · intro hall
              simp only [wellFormedT, Bool.and_eq_true, decide_eq_true_eq]
              refine ⟨?_, ?_⟩
              · rw [List.map_reverse, g.sym, List.reverse_reverse, ← hpv]
                exact hall p List.mem_cons_self
              · rw [wellFormedL_reverse]
                exact g.wf (fun q hq => hall q (List.mem_cons_of_mem _ hq))
            · intro ss w hl
              obtain ⟨_, hl'⟩ := lm_var_inv (p := revP p) (ps := rest.map revP) hl
              obtain ⟨w2, rfl, hl2⟩ := g.yld ss w hl'
              exact ⟨w2, by simp [yieldT, mw, yw_false], hl2⟩

/-- whatever tree `parse` returns is a parse tree of the word -/
theorem parse_valid' (G : CFG) (w : List String) (left : Bool) (fuel : Nat) (t : PTree)
    (h : parse G w left fuel = some (some t)) : G.treeValid t w = true := by
  unfold parse at h
  split at h
  · cases h
  · next s hst =>
    split at h
    · cases h
    · cases h
    · next ps hps =>
      split at h
      · next t' hbt =>
        cases h
        obtain ⟨h3, h2⟩ := rdSub_seq G left fuel w _ ps hps
        have g := build_good G left _ _ _ _ _ hbt
        have h2' : Lm [Sym.var s] (mp left ps) (mw left w) := by
          cases left <;> exact h2
        obtain ⟨w2, hw, hl⟩ := g.yld [] _ h2'
        obtain ⟨_, rfl⟩ := lm_nil_inv hl
        unfold treeValid
        rw [hst]
        simp only [Bool.and_eq_true, decide_eq_true_eq]
        refine ⟨⟨g.sym, g.wf h3⟩, ?_⟩
        cases left with
        | true => simpa [mw] using hw.symm
        | false =>
          have := congrArg List.reverse hw
          simpa [mw] using this.symm
      · cases h

end Lem
end RecDescent
end Pfl
