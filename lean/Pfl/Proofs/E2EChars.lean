/-
Character-level theory of the reader with escaped symbols: texts made of pieces (special characters,
plain symbols, escaped characters `\c`, the escaped blank `\ `) separated by blanks (possibly none
around special characters) are split into their pieces by `preProcess` and `components`.
-/
import Pfl.Proofs.ReaderChars
namespace Pfl.PyRx.E2E
open Pfl.RegexReader Pfl.RegexReader.Lem

/-! ### splitting at blanks -/

def nonEmpty (l : List Char) : Bool := !l.isEmpty

/-- the non-empty pieces of `splitBlank.go` -/
def W (t cur : List Char) : List (List Char) := (splitBlank.go t cur).filter nonEmpty

theorem W_nil_nil : W [] [] = [] := by simp [W, splitBlank.go, nonEmpty]

theorem W_blank_nil (t : List Char) : W (' ' :: t) [] = W t [] := by
  simp [W, splitBlank.go, nonEmpty]

def NoBlank (p : List Char) : Prop := ∀ c ∈ p, c ≠ ' '

theorem W_run (p : List Char) (hp : NoBlank p) (t cur : List Char) :
    W (p ++ t) cur = W t (p.reverse ++ cur) := by
  unfold W; rw [splitBlank_go_run p hp]

theorem W_blank_cur (t cur : List Char) (h : cur ≠ []) :
    W (' ' :: t) cur = cur.reverse :: W t [] := by
  have : nonEmpty cur.reverse = true := by
    cases cur with
    | nil => exact absurd rfl h
    | cons c r => simp [nonEmpty]
  simp [W, splitBlank.go, this]

theorem W_nil_cur (cur : List Char) (h : cur ≠ []) : W [] cur = [cur.reverse] := by
  have : nonEmpty cur.reverse = true := by
    cases cur with
    | nil => exact absurd rfl h
    | cons c r => simp [nonEmpty]
  simp [W, splitBlank.go, this]

def blanks (k : Nat) : List Char := List.replicate k ' '

theorem W_blanks_nil (k : Nat) (t : List Char) : W (blanks k ++ t) [] = W t [] := by
  induction k with
  | zero => rfl
  | succ k ih => rw [blanks, List.replicate_succ, List.cons_append, W_blank_nil]; exact ih

/-- a piece followed by at least one blank -/
theorem W_piece_blanks (p : List Char) (hp : NoBlank p) (hne : p ≠ []) (k : Nat) (t : List Char) :
    W (p ++ blanks (k + 1) ++ t) [] = p :: W t [] := by
  rw [List.append_assoc, W_run p hp, blanks, List.replicate_succ, List.cons_append,
    W_blank_cur _ _ (by simpa using hne)]
  simp only [List.append_nil, List.reverse_reverse]
  rw [show List.replicate k ' ' = blanks k from rfl, W_blanks_nil]

theorem W_piece_end (p : List Char) (hp : NoBlank p) (hne : p ≠ []) (k : Nat) :
    W (p ++ blanks k) [] = [p] := by
  cases k with
  | zero =>
    have := W_run p hp [] []
    simp only [List.append_nil] at this
    simp only [blanks, List.replicate_zero, List.append_nil]
    rw [this, W_nil_cur _ (by simpa using hne)]
    simp
  | succ k =>
    have := W_piece_blanks p hp hne k []
    simp only [List.append_nil] at this
    rw [this, W_nil_nil]

/-- `sub` ends with an unescaped backslash: the escaped blank it stood for is restored -/
def fixSub (sub : List Char) : List Char :=
  if endsWith sub ['\\'] && !endsWith sub ['\\', '\\'] then sub ++ [' '] else sub

theorem filter_dropLast_empty (l : List (List Char))
    (h : (l.getLast?.map (·.isEmpty)).getD false = true) :
    l.dropLast.filter (!·.isEmpty) = l.filter (!·.isEmpty) := by
  rcases List.eq_nil_or_concat l with rfl | ⟨l', x, rfl⟩
  · rfl
  · simp at h
    simp [h]

theorem fixSub_isEmpty (sub : List Char) : (fixSub sub).isEmpty = sub.isEmpty := by
  unfold fixSub
  split
  · rename_i h
    cases sub with
    | nil => simp [endsWith] at h
    | cons c r => simp
  · rfl

theorem filter_map_fixSub (l : List (List Char)) :
    (l.map fixSub).filter (!·.isEmpty) = (l.filter nonEmpty).map fixSub := by
  induction l with
  | nil => rfl
  | cons x l ih =>
    rw [List.map_cons, List.filter_cons, List.filter_cons, fixSub_isEmpty, ih]
    unfold nonEmpty
    split <;> simp

theorem filter_dropLast_if (temp : List (List Char)) :
    (if temp.length > 1 && (temp.getLast?.map (·.isEmpty)).getD false then temp.dropLast
      else temp).filter (!·.isEmpty) = temp.filter (!·.isEmpty) := by
  split
  · rename_i hc
    simp only [Bool.and_eq_true] at hc
    exact filter_dropLast_empty _ hc.2
  · rfl

theorem components_eq_W (s : List Char) (h : W s [] ≠ []) :
    components s = (W s []).map fixSub := by
  unfold components
  have e1 : (splitBlank s).map (fun sub =>
      if endsWith sub ['\\'] && !endsWith sub ['\\', '\\'] then sub ++ [' '] else sub) =
      (splitBlank s).map fixSub := rfl
  simp only [e1]
  rw [filter_dropLast_if, filter_map_fixSub]
  have : (splitBlank s).filter nonEmpty = W s [] := rfl
  rw [this]
  cases hw : W s [] with
  | nil => exact absurd hw h
  | cons _ _ => rfl

/-! ### pieces and layouts -/

def PEsc (p : List Char) : Prop := ∃ c, p = ['\\', c] ∧ c ≠ ' '

/-- a special character, a plain symbol, an escaped character, or the backslash of an escaped blank -/
def Piece (p : List Char) : Prop := IsSp p ∨ IsPl p ∨ PEsc p ∨ p = ['\\']

def isSpB (p : List Char) : Bool :=
  match p with
  | [c] => isSpecialChar c
  | _ => false

theorem isSpB_iff (p : List Char) : isSpB p = true ↔ IsSp p := by
  constructor
  · intro h
    match p, h with
    | [c], h => exact ⟨c, rfl, h⟩
  · rintro ⟨c, rfl, hc⟩; exact hc

theorem Piece.noBlank {p : List Char} (h : Piece p) : NoBlank p := by
  rcases h with ⟨c, rfl, hc⟩ | h | ⟨c, rfl, hc⟩ | rfl
  · intro d hd; simp at hd; subst hd; exact (special_clean hc).1
  · exact fun c hc => (h.2 c hc).1
  · intro d hd; simp at hd; rcases hd with rfl | rfl
    · decide
    · exact hc
  · intro d hd; simp at hd; subst hd; decide

theorem Piece.ne_nil {p : List Char} (h : Piece p) : p ≠ [] := by
  rcases h with ⟨c, rfl, _⟩ | h | ⟨c, rfl, _⟩ | rfl <;> first | exact h.1 | simp

theorem isSpB_pl {p : List Char} (h : IsPl p) : isSpB p = false := by
  cases hs : isSpB p with
  | false => rfl
  | true =>
    obtain ⟨c, rfl, hc⟩ := (isSpB_iff p).mp hs
    have := (h.2 c (by simp)).2.2
    rw [hc] at this; exact absurd this (by simp)

theorem isSpB_esc {p : List Char} (h : PEsc p) : isSpB p = false := by
  obtain ⟨c, rfl, _⟩ := h; rfl

/-- the text of a layout: each piece followed by so many blanks -/
def lt : List (List Char × Nat) → List Char
  | [] => []
  | (p, k) :: L => p ++ blanks k ++ lt L

/-- a layout the spacing loop can handle: pieces, an escaped blank has its blank, and a missing
separator is next to a special character -/
def WLay : List (List Char × Nat) → Prop
  | [] => True
  | [(p, k)] => Piece p ∧ (p = ['\\'] → 1 ≤ k)
  | (p, k) :: (p', k') :: L =>
    Piece p ∧ (p = ['\\'] → 1 ≤ k) ∧ (k = 0 → IsSp p ∨ IsSp p') ∧ WLay ((p', k') :: L)

theorem WLay.head {p : List Char} {k : Nat} {L : List (List Char × Nat)} (h : WLay ((p, k) :: L)) :
    Piece p ∧ (p = ['\\'] → 1 ≤ k) := by
  cases L with
  | nil => exact h
  | cons x L => exact ⟨h.1, h.2.1⟩

theorem WLay.tail {p : List Char} {k : Nat} {L : List (List Char × Nat)} (h : WLay ((p, k) :: L)) :
    WLay L := by
  cases L with
  | nil => trivial
  | cons x L => exact h.2.2.2

/-- the blanks after a piece once the spacing loop has run -/
def kk (p : List Char) (k : Nat) (L : List (List Char × Nat)) : Nat :=
  if isSpB p && k == 0 && !L.isEmpty then 1 else k

/-- what the spacing loop writes; `pb`: at the start or after a blank -/
def out : List (List Char × Nat) → Bool → List Char
  | [], _ => []
  | (p, k) :: L, pb =>
    (if isSpB p && !pb then [' '] else []) ++ p ++ blanks (kk p k L) ++ out L (decide (0 < kk p k L))

theorem out_cons (p : List Char) (k : Nat) (L : List (List Char × Nat)) (pb : Bool) :
    out ((p, k) :: L) pb = (if isSpB p && !pb then [' '] else []) ++ p ++ blanks (kk p k L) ++
      out L (decide (0 < kk p k L)) := rfl

theorem out_false_sp (p : List Char) (k : Nat) (L : List (List Char × Nat)) (h : isSpB p = true) :
    out ((p, k) :: L) false = ' ' :: out ((p, k) :: L) true := by
  simp [out, h]

theorem W_out : ∀ L : List (List Char × Nat), WLay L → W (out L true) [] = L.map (·.1)
  | [], _ => W_nil_nil
  | [(p, k)], h => by
    have hp := h.1
    simp only [out, Bool.not_true, Bool.and_false, Bool.false_eq_true, if_false, List.nil_append,
      List.append_nil, List.map_cons, List.map_nil]
    exact W_piece_end p hp.noBlank hp.ne_nil _
  | (p, k) :: (p', k') :: L, h => by
    have hp := h.1
    have ih := W_out ((p', k') :: L) h.2.2.2
    rw [out_cons]
    simp only [Bool.not_true, Bool.and_false, Bool.false_eq_true, if_false, List.nil_append,
      List.map_cons] at ih ⊢
    by_cases hk : k = 0
    · subst hk
      cases hs : isSpB p with
      | true =>
        have e : kk p 0 ((p', k') :: L) = 0 + 1 := by simp [kk, hs]
        rw [e, W_piece_blanks p hp.noBlank hp.ne_nil 0]
        simp only [Nat.zero_add, Nat.lt_one_iff, decide_true, ih]
      | false =>
        have hs' : isSpB p' = true := by
          rcases h.2.2.1 rfl with h1 | h1
          · rw [(isSpB_iff p).mpr h1] at hs; exact absurd hs (by simp)
          · exact (isSpB_iff p').mpr h1
        have e : kk p 0 ((p', k') :: L) = 0 := by simp [kk, hs]
        rw [e]
        simp only [Nat.lt_irrefl, decide_false]
        rw [out_false_sp p' k' L hs']
        have := W_piece_blanks p hp.noBlank hp.ne_nil 0 (out ((p', k') :: L) true)
        simp only [blanks, List.replicate_one, List.replicate_zero, List.append_assoc,
          List.singleton_append, Nat.zero_add, List.append_nil] at this ⊢
        rw [this, ih]
    · obtain ⟨j, rfl⟩ : ∃ j, k = j + 1 := ⟨k - 1, by omega⟩
      have e : kk p (j + 1) ((p', k') :: L) = j + 1 := by simp [kk]
      rw [e, W_piece_blanks p hp.noBlank hp.ne_nil j]
      simp only [Nat.zero_lt_succ, decide_true, ih]

/-! ### the spacing loop -/

theorem spaceOut_esc (c : Char) (rest : List Char) (first : Bool) (acc : List Char) :
    spaceOut ('\\' :: c :: rest) first false acc = spaceOut rest false false (c :: '\\' :: acc) := by
  rw [spaceOut, spaceOut]
  simp [isSpecialChar]

theorem blanks_reverse (k : Nat) : (blanks k).reverse = blanks k := by simp [blanks]

theorem spaceOut_blanks (k : Nat) (rest : List Char) (first : Bool) (acc : List Char) :
    spaceOut (blanks k ++ rest) first false acc =
      spaceOut rest (first && k == 0) false (blanks k ++ acc) := by
  cases k with
  | zero => simp [blanks]
  | succ k =>
    rw [spaceOut_run (blanks (k + 1)) (by
      intro c hc; simp [blanks] at hc; rw [hc]; simp [isSpecialChar]) (by simp [blanks]),
      blanks_reverse]
    simp

theorem head_blanks (k : Nat) (acc : List Char) :
    ((blanks k ++ acc).head? == some ' ') = (decide (0 < k) || (acc.head? == some ' ')) := by
  cases k with
  | zero => simp [blanks]
  | succ k => simp [blanks, List.replicate_succ]

theorem lt_cons (p : List Char) (k : Nat) (L : List (List Char × Nat)) :
    lt ((p, k) :: L) = p ++ blanks k ++ lt L := rfl

theorem lt_head (L : List (List Char × Nat)) (h : WLay L) (hne : L ≠ []) :
    ∃ c u, lt L = c :: u ∧ c ≠ ' ' := by
  match L, hne with
  | (p, k) :: L, _ =>
    have hp := h.head.1
    cases hpp : p with
    | nil => exact absurd hpp hp.ne_nil
    | cons c u =>
      refine ⟨c, u ++ blanks k ++ lt L, by simp [lt], ?_⟩
      exact hp.noBlank c (by simp [hpp])

theorem spaceOut_lay : ∀ L : List (List Char × Nat), WLay L → ∀ (first : Bool) (acc : List Char),
    spaceOut (lt L) first false acc = acc.reverse ++ out L (first || (acc.head? == some ' '))
  | [], _, first, acc => by simp [lt, out, spaceOut]
  | (p, k) :: L, h, first, acc => by
    have ih := spaceOut_lay L h.tail
    have hp := h.head
    rw [lt_cons, out_cons]
    rcases hp.1 with ⟨c, rfl, hc⟩ | hpl | ⟨c, rfl, hc⟩ | rfl
    · -- a special character
      have hs : isSpB [c] = true := hc
      rw [List.append_assoc, List.singleton_append, spaceOut_sp c hc, spaceOut_blanks, ih]
      have hlead : lead first acc = !(first || (acc.head? == some ' ')) := by
        cases first <;> simp [lead, bne]
      by_cases hk : k = 0
      · subst hk
        by_cases hL : L = []
        · subst hL
          simp [blanks, lt, out, kk, hs, hlead, rev_opt]
        · obtain ⟨d, u, hd, hdb⟩ := lt_head L h.tail hL
          have hLe : L.isEmpty = false := by cases L <;> simp_all
          have e : kk [c] 0 L = 1 := by simp [kk, hs, hLe]
          rw [e]
          simp only [blanks, List.replicate_zero, List.nil_append, hd, List.isEmpty_cons,
            Bool.not_false, List.head?_cons, Bool.true_and, hs, hlead]
          have : (some d != some ' ') = true := by simpa using hdb
          simp only [this, if_true]
          simp [rev_opt]
      · obtain ⟨j, rfl⟩ : ∃ j, k = j + 1 := ⟨k - 1, by omega⟩
        have e : kk [c] (j + 1) L = j + 1 := by simp [kk]
        rw [e]
        have hh : (blanks (j + 1) ++ lt L).head? = some ' ' := by simp [blanks, List.replicate_succ]
        simp only [hh, bne_self_eq_false, Bool.and_false, Bool.false_eq_true, if_false,
          List.nil_append, hs, hlead, head_blanks]
        simp [blanks, rev_opt]
    · -- a plain symbol
      have hs := isSpB_pl hpl
      have e : kk p k L = k := by simp [kk, hs]
      rw [e, List.append_assoc, spaceOut_run p (fun c hc => ⟨(hpl.2 c hc).2.2, (hpl.2 c hc).2.1⟩) hpl.1,
        spaceOut_blanks, ih, head_blanks]
      have hlast : ((p.reverse ++ acc).head? == some ' ') = false := by
        have hne := hpl.1
        have hd := (hpl.2 _ (List.getLast_mem hne)).1
        rw [← List.dropLast_concat_getLast hne]
        simp [hd]
      rw [hlast]
      simp [hs, blanks]
    · -- an escaped character
      have hs : isSpB ['\\', c] = false := rfl
      have e : kk ['\\', c] k L = k := by simp [kk, hs]
      rw [e]
      simp only [List.cons_append, List.nil_append, List.append_assoc]
      rw [spaceOut_esc, spaceOut_blanks, ih, head_blanks]
      have : (some c == some ' ') = false := by simpa using hc
      simp [hs, blanks, this]
    · -- an escaped blank
      have hs : isSpB ['\\'] = false := rfl
      have e : kk ['\\'] k L = k := by simp [kk, hs]
      rw [e]
      obtain ⟨j, rfl⟩ : ∃ j, k = j + 1 := ⟨k - 1, by have := hp.2 rfl; omega⟩
      have e2 : ['\\'] ++ blanks (j + 1) ++ lt L = '\\' :: ' ' :: (blanks j ++ lt L) := by
        simp [blanks, List.replicate_succ]
      rw [e2, spaceOut_esc, spaceOut_blanks, ih, head_blanks]
      have e3 : ∀ X : List Char, blanks j ++ ' ' :: X = ' ' :: (blanks j ++ X) := by
        intro X
        have : blanks j ++ ' ' :: X = blanks (j + 1) ++ X := by
          simp [blanks, List.replicate_succ']
        rw [this]; simp [blanks, List.replicate_succ]
      simp [hs, e3, blanks_reverse]
      simp [blanks, List.replicate_succ]

/-! ### the earlier steps of `preProcess` keep the shape -/

/-- same pieces, the same separators missing -/
inductive Rel : List (List Char × Nat) → List (List Char × Nat) → Prop
  | nil : Rel [] []
  | cons {p : List Char} {k k' : Nat} {L L' : List (List Char × Nat)} :
      (k = 0 ↔ k' = 0) → Rel L L' → Rel ((p, k) :: L) ((p, k') :: L')

theorem Rel.refl (L : List (List Char × Nat)) : Rel L L := by
  induction L with
  | nil => exact .nil
  | cons a L ih => exact .cons Iff.rfl ih

theorem Rel.trans {L L' L'' : List (List Char × Nat)} (h : Rel L L') (h' : Rel L' L'') : Rel L L'' := by
  induction h generalizing L'' with
  | nil => cases h'; exact .nil
  | cons hab _ ih =>
    cases h' with
    | cons hbc h'' => exact .cons (hab.trans hbc) (ih h'')

theorem Rel.map_fst {L L' : List (List Char × Nat)} (h : Rel L L') : L'.map (·.1) = L.map (·.1) := by
  induction h with
  | nil => rfl
  | cons _ _ ih => simp [ih]

theorem Rel.wlay {L L' : List (List Char × Nat)} (h : Rel L L') (hw : WLay L) : WLay L' := by
  induction h with
  | nil => trivial
  | @cons p k k' L L' hk hr ih =>
    have hh := hw.head
    have hk1 : (p = ['\\'] → 1 ≤ k') := fun e => by have := hh.2 e; omega
    cases hr with
    | nil => exact ⟨hh.1, hk1⟩
    | @cons q j j' L2 L2' hj hr2 =>
      exact ⟨hh.1, hk1, fun e => hw.2.2.1 (hk.mpr e), ih hw.2.2.2⟩

theorem sq_true_blanks (j : Nat) (t : List Char) :
    squeezeAux true (blanks j ++ t) = squeezeAux true t := by
  induction j with
  | zero => rfl
  | succ j ih => rw [blanks, List.replicate_succ, List.cons_append, squeezeAux]; simpa [blanks] using ih

theorem squeeze_lay : ∀ L : List (List Char × Nat), WLay L → ∀ b,
    ∃ L', squeezeAux b (lt L) = lt L' ∧ Rel L L'
  | [], _, b => ⟨[], by simp [lt, squeezeAux], .nil⟩
  | (p, k) :: L, h, b => by
    have hp := h.head.1
    cases k with
    | zero =>
      obtain ⟨L', h1, h2⟩ := squeeze_lay L h.tail false
      refine ⟨(p, 0) :: L', ?_, .cons Iff.rfl h2⟩
      rw [lt_cons, lt_cons, List.append_assoc, squeezeAux_run p hp.noBlank hp.ne_nil]
      simp [blanks, h1]
    | succ k =>
      obtain ⟨L', h1, h2⟩ := squeeze_lay L h.tail true
      refine ⟨(p, 1) :: L', ?_, .cons (by simp) h2⟩
      rw [lt_cons, lt_cons, List.append_assoc, squeezeAux_run p hp.noBlank hp.ne_nil]
      rw [blanks, List.replicate_succ, List.cons_append, squeezeAux]
      simp only [if_true, Bool.false_eq_true, if_false]
      rw [show List.replicate k ' ' = blanks k from rfl, sq_true_blanks, h1]
      simp [blanks]

theorem dup_blanks (k : Nat) (t : List Char) :
    dupEscapedBlank (blanks k ++ t) = blanks k ++ dupEscapedBlank t := by
  induction k with
  | zero => rfl
  | succ k ih =>
    rw [blanks, List.replicate_succ, List.cons_append, dupEscapedBlank.eq_2]
    · rw [show List.replicate k ' ' = blanks k from rfl, ih]; rfl
    · intro rest hh; exact absurd hh (by decide)

theorem dup_noBs (p : List Char) (hp : ∀ c ∈ p, c ≠ '\\') (t : List Char) :
    dupEscapedBlank (p ++ t) = p ++ dupEscapedBlank t := by
  induction p with
  | nil => rfl
  | cons c r ih =>
    rw [List.cons_append, dupEscapedBlank.eq_2]
    · rw [ih (fun d hd => hp d (by simp [hd]))]; rfl
    · intro rest hh
      exact absurd hh (hp c (by simp))

theorem dup_bs_nonblank (c : Char) (hc : c ≠ ' ') (t : List Char) :
    dupEscapedBlank ('\\' :: c :: t) = '\\' :: dupEscapedBlank (c :: t) := by
  rw [dupEscapedBlank.eq_2]
  intro rest _ hh
  simp only [List.cons.injEq] at hh
  exact hc hh.1

theorem dup_bs_end : dupEscapedBlank ['\\'] = ['\\'] := by
  rw [dupEscapedBlank.eq_2]
  · rfl
  · intro rest _ hh; simp at hh

theorem dup_bs_blank (t : List Char) :
    dupEscapedBlank ('\\' :: ' ' :: t) = '\\' :: ' ' :: ' ' :: dupEscapedBlank t := by
  rw [dupEscapedBlank]

/-- a piece with its blanks -/
theorem dup_piece (p : List Char) (hp : Piece p) (k : Nat) (hk : p = ['\\'] → 1 ≤ k) (t : List Char)
    (ht : k = 0 → ∀ u, t ≠ ' ' :: u) :
    ∃ k', dupEscapedBlank (p ++ blanks k ++ t) = p ++ blanks k' ++ dupEscapedBlank t ∧
      (k = 0 ↔ k' = 0) := by
  have hgen : ∀ c, c ≠ ' ' → c ≠ '\\' → dupEscapedBlank (c :: (blanks k ++ t)) =
      c :: (blanks k ++ dupEscapedBlank t) := by
    intro c _ h2
    have := dup_noBs [c] (by intro d hd; simp at hd; subst hd; exact h2) (blanks k ++ t)
    rw [dup_blanks] at this
    exact this
  -- a backslash in front of the blanks
  have hbs : ∃ k', dupEscapedBlank ('\\' :: (blanks k ++ t)) =
      '\\' :: (blanks k' ++ dupEscapedBlank t) ∧ (k = 0 ↔ k' = 0) := by
    cases k with
    | zero =>
      refine ⟨0, ?_, Iff.rfl⟩
      simp only [blanks, List.replicate_zero, List.nil_append]
      cases t with
      | nil => rw [dup_bs_end]; simp [dupEscapedBlank]
      | cons d u =>
        have hd : d ≠ ' ' := fun e => ht rfl u (by rw [e])
        rw [dup_bs_nonblank d hd]
    | succ k =>
      refine ⟨k + 2, ?_, by simp⟩
      rw [blanks, List.replicate_succ, List.cons_append, dup_bs_blank,
        show List.replicate k ' ' = blanks k from rfl, dup_blanks]
      simp [blanks, List.replicate_succ]
  rcases hp with ⟨c, rfl, hc⟩ | hpl | ⟨c, rfl, hc⟩ | rfl
  · refine ⟨k, ?_, Iff.rfl⟩
    have := hgen c (special_clean hc).1 (special_clean hc).2
    simpa using this
  · refine ⟨k, ?_, Iff.rfl⟩
    rw [List.append_assoc, dup_noBs p (fun c hc => (hpl.2 c hc).2.1), dup_blanks]
    simp
  · by_cases hcb : c = '\\'
    · subst hcb
      obtain ⟨k', h1, h2⟩ := hbs
      refine ⟨k', ?_, h2⟩
      simp only [List.cons_append, List.nil_append]
      rw [dup_bs_nonblank _ (by decide), h1]
    · refine ⟨k, ?_, Iff.rfl⟩
      simp only [List.cons_append, List.nil_append]
      rw [dup_bs_nonblank c hc, hgen c hc hcb]
  · obtain ⟨k', h1, h2⟩ := hbs
    exact ⟨k', by simpa using h1, h2⟩

theorem dup_lay : ∀ L : List (List Char × Nat), WLay L →
    ∃ L', dupEscapedBlank (lt L) = lt L' ∧ Rel L L'
  | [], _ => ⟨[], by simp [lt, dupEscapedBlank], .nil⟩
  | (p, k) :: L, h => by
    obtain ⟨L', h1, h2⟩ := dup_lay L h.tail
    have ht : k = 0 → ∀ u, lt L ≠ ' ' :: u := by
      intro _ u e
      cases L with
      | nil => simp [lt] at e
      | cons x L =>
        obtain ⟨c, v, hcv, hc⟩ := lt_head (x :: L) h.tail (by simp)
        rw [hcv] at e
        simp only [List.cons.injEq] at e
        exact hc e.1
    obtain ⟨k', h3, h4⟩ := dup_piece p h.head.1 k h.head.2 (lt L) ht
    exact ⟨(p, k') :: L', by rw [lt_cons, h3, h1, lt_cons], .cons h4 h2⟩

/-! ### the ends of the text -/

theorem snoc_cases {α : Type} (L : List α) : L = [] ∨ ∃ L0 x, L = L0 ++ [x] := by
  rcases List.eq_nil_or_concat L with h | ⟨a, b, h⟩
  · exact Or.inl h
  · exact Or.inr ⟨a, b, by simpa using h⟩

theorem lt_append (L0 L1 : List (List Char × Nat)) : lt (L0 ++ L1) = lt L0 ++ lt L1 := by
  induction L0 with
  | nil => rfl
  | cons a L0 ih => obtain ⟨p, k⟩ := a; simp [lt, ih]

theorem WLay.append_right : ∀ (L0 L1 : List (List Char × Nat)), WLay (L0 ++ L1) → WLay L1
  | [], _, h => h
  | a :: L0, L1, h => by
    obtain ⟨p, k⟩ := a
    exact WLay.append_right L0 L1 (WLay.tail (p := p) (k := k) h)

theorem WLay.adj : ∀ (L1 L2 : List (List Char × Nat)) (q p : List Char) (j k : Nat),
    WLay (L1 ++ (q, j) :: (p, k) :: L2) → j = 0 → IsSp q ∨ IsSp p := by
  intro L1 L2 q p j k h
  exact (WLay.append_right L1 _ h).2.2.1

theorem Piece.last_ne_blank {p : List Char} (h : Piece p) : p.getLast h.ne_nil ≠ ' ' :=
  h.noBlank _ (List.getLast_mem _)

theorem Rel.append {L0 L0' L1 L1' : List (List Char × Nat)} (h0 : Rel L0 L0') (h1 : Rel L1 L1') :
    Rel (L0 ++ L1) (L0' ++ L1') := by
  induction h0 with
  | nil => exact h1
  | cons hk _ ih => exact .cons hk ih

/-- the layout ends with no blank, except the one of a final escaped blank -/
def LastOK (L : List (List Char × Nat)) : Prop :=
  ∀ L0 p k, L = L0 ++ [(p, k)] → k = if p = ['\\'] then 1 else 0

theorem endsWith_iff (l suf : List Char) : endsWith l suf = true ↔ ∃ u, l = u ++ suf := by
  unfold endsWith
  rw [List.isSuffixOf_iff_suffix]
  constructor
  · rintro ⟨u, hu⟩; exact ⟨u, hu.symm⟩
  · rintro ⟨u, hu⟩; exact ⟨u, hu.symm⟩

theorem snoc_inj {α : Type} {u v : List α} {a b : α} (h : u ++ [a] = v ++ [b]) : u = v ∧ a = b := by
  have := List.append_inj' h rfl
  simpa using this

/-- the text does not end with a backslash, unless the last piece is `\\` or an escaped blank -/
theorem lt_last_noBs (L0 : List (List Char × Nat)) (p : List Char) (k : Nat)
    (h : WLay (L0 ++ [(p, k)])) (hp : ¬ IsSp p) : ∀ u, lt L0 ≠ u ++ ['\\'] := by
  intro u hu
  rcases snoc_cases L0 with rfl | ⟨L1, x, rfl⟩
  · simp [lt] at hu
  · obtain ⟨q, j⟩ := x
    rw [List.append_assoc] at h
    have hq := (WLay.append_right L1 _ h).head.1
    rw [lt_append, lt_cons] at hu
    simp only [lt, List.append_nil] at hu
    cases j with
    | zero =>
      rcases WLay.adj L1 [] q p 0 k h rfl with ⟨c, rfl, hc⟩ | hsp
      · simp only [blanks, List.replicate_zero, List.append_nil] at hu
        exact (special_clean hc).2 (snoc_inj hu).2
      · exact hp hsp
    | succ j =>
      have e : lt L1 ++ (q ++ blanks (j + 1)) = (lt L1 ++ q ++ blanks j) ++ [' '] := by
        simp [blanks, List.replicate_succ']
      rw [e] at hu
      exact absurd (snoc_inj hu).2 (by decide)

theorem strip_lay (L : List (List Char × Nat)) (h : WLay L) (hne : L ≠ []) (hl : LastOK L) :
    (if endsWith (stripSpaces (lt L)) ['\\'] && !endsWith (stripSpaces (lt L)) ['\\', '\\'] then
      stripSpaces (lt L) ++ [' '] else stripSpaces (lt L)) = lt L := by
  obtain ⟨c0, u0, hc0, hc0b⟩ := lt_head L h hne
  rcases snoc_cases L with rfl | ⟨L0, x, rfl⟩
  · exact absurd rfl hne
  · obtain ⟨p, k⟩ := x
    have hk := hl L0 p k rfl
    have hp := (WLay.append_right L0 _ h).head.1
    by_cases hpb : p = ['\\']
    · subst hpb
      simp only [if_true] at hk
      subst hk
      have e : lt (L0 ++ [(['\\'], 1)]) = (lt L0 ++ ['\\']) ++ [' '] := by
        simp [lt_append, lt, blanks]
      have hstrip : stripSpaces ((lt L0 ++ ['\\']) ++ [' ']) = lt L0 ++ ['\\'] := by
        have hfirst : ∃ c u, lt L0 ++ ['\\'] = c :: u ∧ c ≠ ' ' := by
          cases hl0 : lt L0 with
          | nil => exact ⟨'\\', [], rfl, by decide⟩
          | cons d v =>
            rw [e, hl0] at hc0
            simp only [List.cons_append, List.cons.injEq] at hc0
            exact ⟨d, v ++ ['\\'], rfl, hc0.1 ▸ hc0b⟩
        obtain ⟨c, u, hcu, hc⟩ := hfirst
        unfold stripSpaces
        rw [hcu, List.cons_append, List.dropWhile_cons_of_neg (by simpa using hc), ← List.cons_append,
          ← hcu]
        simp [List.dropWhile_cons_of_neg]
      rw [e, hstrip]
      have h1 : endsWith (lt L0 ++ ['\\']) ['\\'] = true := (endsWith_iff _ _).mpr ⟨_, rfl⟩
      have h2 : endsWith (lt L0 ++ ['\\']) ['\\', '\\'] = false := by
        cases hh : endsWith (lt L0 ++ ['\\']) ['\\', '\\'] with
        | false => rfl
        | true =>
          obtain ⟨u, hu⟩ := (endsWith_iff _ _).mp hh
          have : lt L0 ++ ['\\'] = (u ++ ['\\']) ++ ['\\'] := by simp [hu]
          exact absurd (snoc_inj this).1 (lt_last_noBs L0 _ 1 h (by
            rintro ⟨c, hc, hs⟩
            simp only [List.cons.injEq, and_true] at hc
            subst hc; simp [isSpecialChar] at hs) u)
      simp [h1, h2]
    · simp only [hpb, if_false] at hk
      subst hk
      have e : lt (L0 ++ [(p, 0)]) = (lt L0 ++ p.dropLast) ++ [p.getLast hp.ne_nil] := by
        simp [lt_append, lt, blanks, List.dropLast_concat_getLast]
      have hlastb := hp.last_ne_blank
      have hstrip : stripSpaces (lt (L0 ++ [(p, 0)])) = lt (L0 ++ [(p, 0)]) :=
        stripSpaces_id ⟨c0, u0, hc0, hc0b⟩ ⟨_, _, e, hlastb⟩
      rw [hstrip]
      by_cases hbs : p.getLast hp.ne_nil = '\\'
      · -- the last piece is an escaped backslash
        have hpe : p = ['\\', '\\'] := by
          rcases hp with ⟨c, rfl, hc⟩ | hpl | ⟨c, rfl, _⟩ | rfl
          · simp at hbs; subst hbs; simp [isSpecialChar] at hc
          · exact absurd hbs (hpl.2 _ (List.getLast_mem _)).2.1
          · simp at hbs; subst hbs; rfl
          · exact absurd rfl hpb
        have h2 : endsWith (lt (L0 ++ [(p, 0)])) ['\\', '\\'] = true :=
          (endsWith_iff _ _).mpr ⟨lt L0, by simp [lt_append, lt, blanks, hpe]⟩
        simp [h2]
      · have h1 : endsWith (lt (L0 ++ [(p, 0)])) ['\\'] = false :=
          endsWith_single_false e hbs
        simp [h1]

theorem drop_lay (L : List (List Char × Nat)) (h : WLay L) :
    ∃ L', (if endsWith (lt L) [' ', ' '] then (lt L).dropLast else lt L) = lt L' ∧ Rel L L' := by
  split
  · rename_i hc
    obtain ⟨u, hu⟩ := (endsWith_iff _ _).mp hc
    rcases snoc_cases L with rfl | ⟨L0, x, rfl⟩
    · simp [lt] at hu
    · obtain ⟨p, k⟩ := x
      have hp := (WLay.append_right L0 _ h).head.1
      have e0 : lt (L0 ++ [(p, k)]) = lt L0 ++ p ++ blanks k := by simp [lt_append, lt]
      have hk : 2 ≤ k := by
        rw [e0] at hu
        match k with
        | 0 =>
          have : lt L0 ++ p.dropLast ++ [p.getLast hp.ne_nil] = (u ++ [' ']) ++ [' '] := by
            rw [List.append_assoc, List.dropLast_concat_getLast]
            simpa [blanks] using hu
          exact absurd (snoc_inj this).2 hp.last_ne_blank
        | 1 =>
          have : (lt L0 ++ p) ++ [' '] = (u ++ [' ']) ++ [' '] := by simpa [blanks] using hu
          have h2 := (snoc_inj this).1
          have : lt L0 ++ p.dropLast ++ [p.getLast hp.ne_nil] = u ++ [' '] := by
            rw [List.append_assoc, List.dropLast_concat_getLast]; exact h2
          exact absurd (snoc_inj this).2 hp.last_ne_blank
        | k + 2 => omega
      obtain ⟨j, rfl⟩ : ∃ j, k = j + 2 := ⟨k - 2, by omega⟩
      refine ⟨L0 ++ [(p, j + 1)], ?_, Rel.append (Rel.refl L0) (.cons (by simp) .nil)⟩
      rw [e0]
      have : lt L0 ++ p ++ blanks (j + 2) = (lt L0 ++ p ++ blanks (j + 1)) ++ [' '] := by
        simp [blanks, List.replicate_succ']
      rw [this, List.dropLast_concat]
      simp [lt_append, lt]
  · exact ⟨L, rfl, Rel.refl L⟩

/-! ### the whole reading -/

/-- the symbol a piece stands for -/
def dec (p : List Char) : List Char := if p = ['\\'] then ['\\', ' '] else p

theorem fixSub_piece {p : List Char} (h : Piece p) : fixSub p = dec p := by
  unfold fixSub dec
  rcases h with ⟨c, rfl, hc⟩ | hpl | ⟨c, rfl, hc⟩ | rfl
  · have h1 : c ≠ '\\' := (special_clean hc).2
    have : endsWith [c] ['\\'] = false := endsWith_single_false (u := []) rfl h1
    simp [this, h1]
  · have hne := hpl.1
    have h1 := (hpl.2 _ (List.getLast_mem hne)).2.1
    have : endsWith p ['\\'] = false :=
      endsWith_single_false (List.dropLast_concat_getLast hne).symm h1
    have h2 : p ≠ ['\\'] := by
      rintro rfl; simp at h1
    simp [this, h2]
  · by_cases hcb : c = '\\'
    · subst hcb
      have : endsWith ['\\', '\\'] ['\\', '\\'] = true := (endsWith_iff _ _).mpr ⟨[], rfl⟩
      simp [this]
    · have : endsWith ['\\', c] ['\\'] = false := endsWith_single_false (u := ['\\']) rfl hcb
      simp [this]
  · have h1 : endsWith ['\\'] ['\\'] = true := (endsWith_iff _ _).mpr ⟨[], rfl⟩
    have h2 : endsWith ['\\'] ['\\', '\\'] = false := by
      cases hh : endsWith ['\\'] ['\\', '\\'] with
      | false => rfl
      | true =>
        obtain ⟨u, hu⟩ := (endsWith_iff _ _).mp hh
        have := congrArg List.length hu
        simp at this
    simp [h1, h2]

theorem WLay.pieces : ∀ L : List (List Char × Nat), WLay L → ∀ x ∈ L, Piece x.1
  | [], _, x, hx => by simp at hx
  | (p, k) :: L, h, x, hx => by
    rcases List.mem_cons.mp hx with rfl | hx
    · exact h.head.1
    · exact WLay.pieces L h.tail x hx

/-- the components of a laid-out text are the symbols of its pieces -/
theorem components_lay (L : List (List Char × Nat)) (h : WLay L) (hne : L ≠ []) (hl : LastOK L) :
    components (preProcess (lt L)) = L.map (fun x => dec x.1) := by
  unfold preProcess
  simp only
  rw [strip_lay L h hne hl, squeeze]
  obtain ⟨L3, h3, r3⟩ := squeeze_lay L h false
  rw [h3]
  obtain ⟨L4, h4, r4⟩ := dup_lay L3 (r3.wlay h)
  rw [h4]
  obtain ⟨L5, h5, r5⟩ := drop_lay L4 (r4.wlay (r3.wlay h))
  rw [h5]
  have r := (r3.trans r4).trans r5
  have hw5 := r.wlay h
  rw [spaceOut_lay L5 hw5]
  simp only [List.reverse_nil, List.nil_append, Bool.true_or]
  have hW := W_out L5 hw5
  rw [r.map_fst] at hW
  rw [components_eq_W _ (by rw [hW]; cases L with
    | nil => exact absurd rfl hne
    | cons _ _ => simp), hW, List.map_map]
  apply List.map_congr_left
  intro x hx
  exact fixSub_piece (WLay.pieces L h x hx)

end Pfl.PyRx.E2E
