/-
Coverage of ground items by the tables of the Earley model, the strengthened invariant `Base`
and the table operations `procAdd` / `pushIfNew` (pruning keeps coverage).
-/
import Pfl.Proofs.EarleyCompleteSubs
namespace Pfl
namespace Earley
namespace Cmp
open FsDag FsDag.Lem Lem

/-- the specification-level production of index `k`; the dummy rule beyond the list -/
def prX (C : Ctx) (k : Nat) : (String × Feat) × List (Sym × Feat) :=
  (C.spec[k]?).getD ((C.G.gammaName, none), [(Sym.var C.G.start, none)])

theorem prX_spec {C : Ctx} {k : Nat} {pr : (String × Feat) × List (Sym × Feat)}
    (h : C.spec[k]? = some pr) : prX C k = pr := by
  unfold prX; rw [h]; rfl

theorem prX_gamma {C : Ctx} {k : Nat} (h : C.spec[k]? = none) :
    prX C k = ((C.G.gammaName, none), [(Sym.var C.G.start, none)]) := by
  unfold prX; rw [h]; rfl

/-- `env` is a ground instance of the feature object `F` of production `k` -/
def Cov (C : Ctx) (st : Store) (F k : Nat) (env : Env) : Prop :=
  ∃ σ, Resp C.P st σ ∧ Occ C st σ F (prX C k) env

/-- the paths to the symbol records exist -/
def HasPaths (C : Ctx) (st : Store) (F k : Nat) : Prop :=
  (∃ r, byPath st F ["head"] = some r) ∧
    ∀ j, j < (prX C k).2.length → ∃ r, byPath st F [toString j] = some r

structure Item where
  k : Nat
  env : Env
  b : Nat
  e : Nat
  dot : Nat

/-- the ground item is covered by a processed state -/
def CovT (C : Ctx) (T : Tables) (it : Item) : Prop :=
  ∃ s ∈ procStates T it.e, s.prod = it.k ∧ s.b = it.b ∧ s.dot = it.dot ∧
    Cov C T.store s.fs it.k it.env

theorem Cov.fwd {C : Ctx} {st st' : Store} {rk : Nat → Nat} (hf : Fr st st') (hw : WFS st rk)
    {d : String} (hd : C.P d) {F k : Nat} {env : Env} (hF : F < st.length)
    (h : Cov C st F k env) : Cov C st' F k env := by
  obtain ⟨σ, hσ, ho⟩ := h
  refine ⟨extVal C.P st st' d σ, hf.resp_fwd hσ hd, ho.sim ?_⟩
  intro p a hp
  rw [hf.rdv_ext hw.inv.acyc hw.rng σ d hF p]; exact hp

theorem Cov.back {C : Ctx} {st st' : Store} {rk : Nat → Nat} (hf : Fr st st') (hw : WFS st rk)
    {F k : Nat} {env : Env} (hF : F < st.length)
    (h : Cov C st' F k env) : Cov C st F k env := by
  obtain ⟨σ, hσ, ho⟩ := h
  refine ⟨σ, hf.resp_back hσ, ho.sim ?_⟩
  intro p a hp
  rw [← hf.rdv_eq hw.inv.acyc hw.rng σ hF p]; exact hp

theorem HasPaths.fwd {C : Ctx} {st st' : Store} {rk : Nat → Nat} (hf : Fr st st') (hw : WFS st rk)
    {F k : Nat} (hF : F < st.length) (h : HasPaths C st F k) : HasPaths C st' F k := by
  obtain ⟨h1, h2⟩ := h
  refine ⟨?_, fun j hj => ?_⟩
  · rw [hf.byPath_eq hw.inv.acyc hw.rng _ hF]; exact h1
  · rw [hf.byPath_eq hw.inv.acyc hw.rng _ hF]; exact h2 j hj

/-! ### the strengthened invariant -/

structure SX (P : String → Prop) (st : Store) (rk : Nat → Nat) : Prop where
  kf : KF st
  vr : VR st
  alln : AllN st rk
  ap : AP P st

/-- the states stored under a key have that key -/
def KeyOK (T : Tables) : Prop :=
  ∀ j, ∀ e ∈ colGet T.processed j, ∀ o ∈ e.2, (o.prod, o.b, o.e, o.dot) = e.1

structure Base (C : Ctx) (T : Tables) (rk : Nat → Nat) (X : List (Nat × EState)) : Prop where
  inv : Lem.Inv C T rk X
  sx : SX C.P T.store rk
  nv : C.featured = false → NoVal T.store
  objs : ∀ k p pr env, C.G.prods[k]? = some p → C.spec[k]? = some pr → C.okEnv k env →
    Cov C T.store p.feats k env
  opth : ∀ k p, C.G.prods[k]? = some p → HasPaths C T.store p.feats k
  pthc : ∀ j s, s ∈ colGet T.chart j → HasPaths C T.store s.fs s.prod
  pthp : ∀ j s, s ∈ procStates T j → HasPaths C T.store s.fs s.prod
  pthx : ∀ e ∈ X, HasPaths C T.store e.2.fs e.2.prod
  keys : KeyOK T
  lenc : T.chart.length = C.word.length + 1
  lenp : T.processed.length = C.word.length + 1

/-- the later table: more objects, more states -/
structure TLe (lo : Nat) (T T' : Tables) : Prop where
  fr : Fr T.store T'.store
  proc : ∀ j s, s ∈ procStates T j → s ∈ procStates T' j
  chart : ∀ j s, s ∈ colGet T.chart j → s ∈ colGet T'.chart j
  new : ∀ j s, s ∈ procStates T' j → s ∈ procStates T j ∨ s ∈ colGet T'.chart j
  low : ∀ j, j < lo → colGet T'.chart j = colGet T.chart j

theorem TLe.refl (lo : Nat) (T : Tables) : TLe lo T T :=
  ⟨Fr.refl _, fun _ _ h => h, fun _ _ h => h, fun _ _ h => Or.inl h, fun _ _ => rfl⟩

theorem TLe.trans {lo : Nat} {T T1 T2 : Tables} (h1 : TLe lo T T1) (h2 : TLe lo T1 T2) :
    TLe lo T T2 := by
  refine ⟨h1.fr.trans h2.fr, fun j s h => h2.proc j s (h1.proc j s h),
    fun j s h => h2.chart j s (h1.chart j s h), ?_, fun j hj => by rw [h2.low j hj, h1.low j hj]⟩
  intro j s h
  rcases h2.new j s h with h | h
  · rcases h1.new j s h with h | h
    · exact Or.inl h
    · exact Or.inr (h2.chart j s h)
  · exact Or.inr h

theorem TLe.mono {lo lo' : Nat} {T T' : Tables} (h : TLe lo T T') (hl : lo' ≤ lo) : TLe lo' T T' :=
  ⟨h.fr, h.proc, h.chart, h.new, fun j hj => h.low j (Nat.lt_of_lt_of_le hj hl)⟩

theorem CovT.mono {C : Ctx} {T T' : Tables} {rk : Nat → Nat} {X : List (Nat × EState)} {lo : Nat}
    (hB : Base C T rk X) (hle : TLe lo T T') {d : String} (hd : C.P d) {it : Item}
    (h : CovT C T it) : CovT C T' it := by
  obtain ⟨s, hs, h1, h2, h3, h4⟩ := h
  exact ⟨s, hle.proc _ s hs, h1, h2, h3,
    h4.fwd hle.fr hB.inv.wf hd (hB.inv.proc _ s hs).fs_lt⟩

/-! ### columns -/

theorem colGet_set_self {α : Type} {l : List (List α)} {i : Nat} (x : List α) (hi : i < l.length) :
    colGet (l.set i x) i = x := by
  unfold colGet
  rw [List.getD_eq_getElem?_getD, List.getElem?_set, if_pos rfl, if_pos hi]; rfl

theorem colGet_set_ne {α : Type} {l : List (List α)} {i j : Nat} (x : List α) (h : i ≠ j) :
    colGet (l.set i x) j = colGet l j := by
  unfold colGet
  rw [List.getD_eq_getElem?_getD, List.getD_eq_getElem?_getD, List.getElem?_set, if_neg h]

theorem colGet_set_ge {α : Type} {l : List (List α)} {i : Nat} (x : List α) (hi : l.length ≤ i)
    (j : Nat) : colGet (l.set i x) j = colGet l j := by
  rw [List.set_eq_of_length_le hi]

theorem colGet_ge {α : Type} {l : List (List α)} {j : Nat} (h : l.length ≤ j) : colGet l j = [] := by
  unfold colGet
  rw [List.getD_eq_getElem?_getD, List.getElem?_eq_none h]; rfl

/-! ### `procAdd` -/

theorem procAdd_keys (G : Grammar) (T : Tables) (i : Nat) (s : EState) (hk : KeyOK T) :
    KeyOK (procAdd G T i s).1 := by
  intro j e he o ho
  unfold procAdd at he
  simp only at he
  split_ifs at he with h1 h2 h3
  · rcases mem_colGet_set he with ⟨rfl, he2⟩ | he2
    · exact hk _ e he2 o ho
    · exact hk j e he2 o ho
  · rcases mem_colGet_set he with ⟨rfl, he2⟩ | he2
    · rcases List.mem_append.1 he2 with h | h
      · exact hk _ e h o ho
      · simp only [List.mem_singleton] at h; subst h; simp at ho
    · exact hk j e he2 o ho
  · rcases mem_colGet_set he with ⟨rfl, he2⟩ | he2
    · rw [List.mem_map] at he2
      obtain ⟨e0, he0, rfl⟩ := he2
      by_cases hkey : e0.1 = keyOf G s
      · rw [if_pos hkey] at ho ⊢
        simp only [List.mem_append, List.mem_singleton] at ho
        rcases ho with ho | ho
        · exact hk _ e0 he0 o ho
        · subst ho; exact hkey.symm
      · rw [if_neg hkey] at ho ⊢; exact hk _ e0 he0 o ho
    · exact hk j e he2 o ho
  · rcases mem_colGet_set he with ⟨rfl, he2⟩ | he2
    · rcases List.mem_append.1 he2 with h | h
      · exact hk _ e h o ho
      · simp only [List.mem_singleton] at h; subst h
        simp only [List.mem_singleton] at ho; subst ho; rfl
    · exact hk j e he2 o ho

/-- the processed states only grow -/
theorem procAdd_mono (G : Grammar) (T : Tables) (i : Nat) (s : EState) (j : Nat) (s' : EState)
    (h : s' ∈ procStates T j) : s' ∈ procStates (procAdd G T i s).1 j := by
  by_cases hi : i < T.processed.length
  · by_cases hij : i = j
    · subst hij
      unfold procStates at h ⊢
      unfold procAdd
      simp only
      rw [List.mem_flatMap] at h
      obtain ⟨e, he, hs⟩ := h
      split_ifs with h1 h2 h3
      · rw [colGet_set_self _ hi]; exact List.mem_flatMap.2 ⟨e, he, hs⟩
      · rw [colGet_set_self _ hi]
        exact List.mem_flatMap.2 ⟨e, List.mem_append_left _ he, hs⟩
      · rw [colGet_set_self _ hi]
        refine List.mem_flatMap.2 ⟨_, List.mem_map.2 ⟨e, he, rfl⟩, ?_⟩
        split
        · exact List.mem_append_left _ hs
        · exact hs
      · rw [colGet_set_self _ hi]
        exact List.mem_flatMap.2 ⟨e, List.mem_append_left _ he, hs⟩
    · obtain ⟨d', hd, _⟩ := procAdd_eq G T i s
      rw [hd]; unfold procStates at h ⊢
      simp only
      rw [colGet_set_ne _ hij]; exact h
  · obtain ⟨d', hd, _⟩ := procAdd_eq G T i s
    rw [hd]; unfold procStates at h ⊢
    simp only
    rw [colGet_set_ge _ (Nat.le_of_not_lt hi)]; exact h

/-- a refused state is subsumed by a processed state with the same key -/
theorem procAdd_refused (G : Grammar) (T : Tables) (i : Nat) (s : EState) (hk : KeyOK T)
    (h : (procAdd G T i s).2 = false) :
    ∃ o ∈ procStates T i, (o.prod, o.b, o.e, o.dot) = (s.prod, s.b, s.e, s.dot) ∧
      subsumes T.store o.fs s.fs = true := by
  have key : ((match (colGet T.processed i).find? (fun x : Key × List EState => decide (x.1 = keyOf G s)) with
        | some e => e.2
        | none => []).any fun o => subsumes T.store o.fs s.fs) = true →
      ∃ o ∈ procStates T i, (o.prod, o.b, o.e, o.dot) = (s.prod, s.b, s.e, s.dot) ∧
        subsumes T.store o.fs s.fs = true := by
    intro h1
    rw [List.any_eq_true] at h1
    obtain ⟨o, ho, hsub⟩ := h1
    cases hf : (colGet T.processed i).find? (fun x : Key × List EState => decide (x.1 = keyOf G s)) with
    | none => rw [hf] at ho; simp at ho
    | some e =>
      rw [hf] at ho
      have hmem := List.mem_of_find?_eq_some hf
      have hkey := List.find?_some hf
      simp only [decide_eq_true_eq] at hkey
      refine ⟨o, List.mem_flatMap.2 ⟨e, hmem, ho⟩, ?_, hsub⟩
      rw [hk i e hmem o ho, hkey]; rfl
  unfold procAdd at h
  simp only at h
  split_ifs at h with h1 h2 <;> exact key h1

/-- a refusal leaves the processed states as they are -/
theorem procAdd_refused_same (G : Grammar) (T : Tables) (i : Nat) (s : EState)
    (h : (procAdd G T i s).2 = false) (j : Nat) (s' : EState)
    (hm : s' ∈ procStates (procAdd G T i s).1 j) : s' ∈ procStates T j := by
  unfold procAdd at h hm
  simp only at h hm
  split_ifs at h hm with h1 h2
  · unfold procStates at hm ⊢
    rw [List.mem_flatMap] at hm
    obtain ⟨e, he, hs⟩ := hm
    rcases mem_colGet_set he with ⟨rfl, he2⟩ | he2
    · exact List.mem_flatMap.2 ⟨e, he2, hs⟩
    · exact List.mem_flatMap.2 ⟨e, he2, hs⟩
  · unfold procStates at hm ⊢
    rw [List.mem_flatMap] at hm
    obtain ⟨e, he, hs⟩ := hm
    rcases mem_colGet_set he with ⟨rfl, he2⟩ | he2
    · rcases List.mem_append.1 he2 with h3 | h3
      · exact List.mem_flatMap.2 ⟨e, h3, hs⟩
      · simp only [List.mem_singleton] at h3; subst h3; simp at hs
    · exact List.mem_flatMap.2 ⟨e, he2, hs⟩

/-- an accepted state is among the processed states -/
theorem procAdd_added (G : Grammar) (T : Tables) (i : Nat) (s : EState)
    (hi : i < T.processed.length) (h : (procAdd G T i s).2 = true) :
    s ∈ procStates (procAdd G T i s).1 i := by
  unfold procAdd at h ⊢
  simp only at h ⊢
  unfold procStates
  split_ifs at h ⊢ with h1 h2
  · simp only
    rw [colGet_set_self _ hi]
    rw [List.any_eq_true] at h2
    obtain ⟨e, he, hkey⟩ := h2
    refine List.mem_flatMap.2 ⟨_, List.mem_map.2 ⟨e, he, rfl⟩, ?_⟩
    simp only [decide_eq_true_eq] at hkey
    rw [if_pos hkey]; simp
  · simp only
    rw [colGet_set_self _ hi]
    exact List.mem_flatMap.2 ⟨_, List.mem_append_right _ (List.mem_singleton.2 rfl), by simp⟩

theorem procAdd_len (G : Grammar) (T : Tables) (i : Nat) (s : EState) :
    (procAdd G T i s).1.processed.length = T.processed.length := by
  obtain ⟨d', hd, _⟩ := procAdd_eq G T i s
  rw [hd]; simp

/-! ### `pushIfNew` -/

theorem pushIfNew_proc (G : Grammar) (T : Tables) (i : Nat) (s : EState) (j : Nat) :
    procStates (pushIfNew G T i s) j = procStates (procAdd G T i s).1 j := by
  unfold pushIfNew
  simp only
  split <;> rfl

theorem pushIfNew_chart (G : Grammar) (T : Tables) (i : Nat) (s : EState) :
    (pushIfNew G T i s).chart =
      if (procAdd G T i s).2 then T.chart.set i (colGet T.chart i ++ [s]) else T.chart := by
  unfold pushIfNew
  simp only
  split
  · simp [(procAdd_store G T i s).2]
  · simp [(procAdd_store G T i s).2]

theorem pushIfNew_tle (G : Grammar) (T : Tables) (i : Nat) (s : EState)
    (hlen : i < T.chart.length) : TLe i T (pushIfNew G T i s) := by
  refine ⟨by rw [pushIfNew_store]; exact Fr.refl _, ?_, ?_, ?_, ?_⟩
  · intro j s' h
    rw [pushIfNew_proc]; exact procAdd_mono G T i s j s' h
  · intro j s' h
    rw [pushIfNew_chart]
    split
    · by_cases hij : i = j
      · subst hij
        rw [colGet_set_self _ hlen]; exact List.mem_append_left _ h
      · rw [colGet_set_ne _ hij]; exact h
    · exact h
  · intro j s' h
    rw [pushIfNew_proc] at h
    by_cases hadd : (procAdd G T i s).2 = true
    · rcases procAdd_states G T i s j s' h with ⟨rfl, rfl⟩ | h2
      · right
        rw [pushIfNew_chart, if_pos hadd, colGet_set_self _ hlen]
        exact List.mem_append_right _ (List.mem_singleton.2 rfl)
      · exact Or.inl h2
    · exact Or.inl (procAdd_refused_same G T i s (by simpa using hadd) j s' h)
  · intro j hj
    rw [pushIfNew_chart]
    split
    · rw [colGet_set_ne _ (by omega)]
    · rfl

theorem pushIfNew_processed (G : Grammar) (T : Tables) (i : Nat) (s : EState) :
    (pushIfNew G T i s).processed = (procAdd G T i s).1.processed := by
  unfold pushIfNew
  simp only
  split <;> rfl

theorem pushIfNew_base {C : Ctx} {T : Tables} {rk : Nat → Nat} {X : List (Nat × EState)}
    (hB : Base C T rk X) {i : Nat} {s : EState} (hs : StOK C T.store rk i s)
    (hp : HasPaths C T.store s.fs s.prod) : Base C (pushIfNew C.G T i s) rk X := by
  have hst := pushIfNew_store C.G T i s
  refine ⟨hB.inv.pushIfNew hs, by rw [hst]; exact hB.sx, by rw [hst]; exact hB.nv,
    by rw [hst]; exact hB.objs, by rw [hst]; exact hB.opth, ?_, ?_, by rw [hst]; exact hB.pthx,
    ?_, ?_, ?_⟩
  · intro j s' hm
    rw [hst]
    rw [pushIfNew_chart] at hm
    split at hm
    · rcases mem_colGet_set hm with ⟨rfl, h2⟩ | h2
      · rcases List.mem_append.1 h2 with h3 | h3
        · exact hB.pthc _ s' h3
        · simp only [List.mem_singleton] at h3; subst h3; exact hp
      · exact hB.pthc j s' h2
    · exact hB.pthc j s' hm
  · intro j s' hm
    rw [hst]
    rw [pushIfNew_proc] at hm
    rcases procAdd_states C.G T i s j s' hm with ⟨rfl, rfl⟩ | h2
    · exact hp
    · exact hB.pthp j s' h2
  · intro j e he o ho
    have : (pushIfNew C.G T i s).processed = (procAdd C.G T i s).1.processed :=
      pushIfNew_processed ..
    rw [this] at he
    exact procAdd_keys C.G T i s hB.keys j e he o ho
  · rw [pushIfNew_chart]
    split
    · rw [List.length_set]; exact hB.lenc
    · exact hB.lenc
  · rw [pushIfNew_processed, procAdd_len]; exact hB.lenp

/-- reading along a homomorphism -/
theorem rd_transfer {st : Store} {σ σ0 σ' : Nat → String} {a b : Nat} {p : List String} {x0 u : String}
    (h0 : rdv st σ0 a p = some x0)
    (hom : ∀ p n, byPath st a p = some n → ∃ m, byPath st b p = some m ∧
      σ' (deref st n) = σ (deref st m))
    (h : rdv st σ b p = some u) : rdv st σ' a p = some u := by
  unfold rdv at h0 h ⊢
  cases hn : byPath st a p with
  | none => rw [hn] at h0; simp at h0
  | some n =>
    obtain ⟨m, hm, he⟩ := hom p n hn
    rw [hm] at h
    simp only [Option.map_some, Option.some.injEq] at h ⊢
    rw [he]; exact h

theorem occ_transfer {C : Ctx} {st : Store} {σ σ0 σ' : Nat → String} {a b : Nat}
    {pr : (String × Feat) × List (Sym × Feat)} {env env0 : Env}
    (hex : Occ C st σ0 a pr env0)
    (hom : ∀ p n, byPath st a p = some n → ∃ m, byPath st b p = some m ∧
      σ' (deref st n) = σ (deref st m))
    (ho : Occ C st σ b pr env) : Occ C st σ' a pr env :=
  ⟨fun v hv => rd_transfer (hex.1 v hv) hom (ho.1 v hv),
   fun j X v hj => rd_transfer (hex.2 j X v hj) hom (ho.2 j X v hj)⟩

/-- the dummy rule has no featured occurrence -/
theorem occ_gamma {C : Ctx} {k : Nat} (h : C.spec[k]? = none) (st : Store) (σ : Nat → String)
    (F : Nat) (env : Env) : Occ C st σ F (prX C k) env := by
  rw [prX_gamma h]
  refine ⟨fun v hv => by simp at hv, fun j X v hj => ?_⟩
  cases j with
  | zero => simp at hj
  | succ j => simp at hj

theorem pushIfNew_cov {C : Ctx} {T : Tables} {rk : Nat → Nat} {X : List (Nat × EState)}
    (hB : Base C T rk X) {d : String} (hd : C.P d) {i : Nat} {s : EState}
    (hi : i < T.processed.length) (env : Env)
    (h : Cov C T.store s.fs s.prod env) :
    CovT C (pushIfNew C.G T i s) ⟨s.prod, env, s.b, i, s.dot⟩ := by
  have hst := pushIfNew_store C.G T i s
  by_cases hadd : (procAdd C.G T i s).2 = true
  · refine ⟨s, ?_, rfl, rfl, rfl, by rw [hst]; exact h⟩
    show s ∈ procStates (pushIfNew C.G T i s) i
    rw [pushIfNew_proc]; exact procAdd_added C.G T i s hi hadd
  · obtain ⟨o, ho, hkey, hsub⟩ := procAdd_refused C.G T i s hB.keys (by simpa using hadd)
    simp only [Prod.mk.injEq] at hkey
    obtain ⟨k1, k2, _, k4⟩ := hkey
    refine ⟨o, ?_, k1, k2, k4, ?_⟩
    · show o ∈ procStates (pushIfNew C.G T i s) i
      rw [pushIfNew_proc]; exact procAdd_mono C.G T i s i o ho
    · rw [hst]
      obtain ⟨σ, hσ, hocc⟩ := h
      obtain ⟨σ', hσ', hom⟩ := subsumes_cov hB.inv.wf.inv.acyc hsub hσ
      have hgood := (hB.inv.proc i o ho).good
      cases hsp : C.spec[s.prod]? with
      | none =>
        exact ⟨σ', hσ', occ_transfer (occ_gamma hsp _ σ _ env) hom hocc⟩
      | some pr =>
        obtain ⟨_, hg⟩ := hgood pr (by rw [k1]; exact hsp)
        obtain ⟨env0, _, ho0, _⟩ := hg _ (resp_default C.P T.store hd)
        rw [prX_spec hsp] at hocc
        refine ⟨σ', hσ', ?_⟩
        show Occ C T.store σ' o.fs (prX C s.prod) env
        rw [prX_spec hsp]
        exact occ_transfer ho0 hom hocc

end Cmp
end Earley
end Pfl
