/-
Termination of the stack machine of `get_llone_parse_tree`, part 1: what the FIRST / FOLLOW
dictionaries and the table satisfy for EVERY well-formed grammar (no hypothesis that the symbols
generate): the FIRST dictionary is the least fixed point of its rules (closure, and a justification
of finite height for every member), `Epsilon` marks exactly the nullable symbols, the FOLLOW
dictionary is closed under its two rules, and the table cells are the predict sets computed from
these two dictionaries.  Collected in `Facts`.
-/
import Pfl.Proofs.LL1LibParse
namespace Pfl
namespace LL1Lib
namespace Term
open CFG Lem

/-! ### justifications of finite height -/

/-- `FJ G n s a`: `a` belongs to FIRST of `s` by a justification of height at most `n`
(`a = Epsilon`: `s` is nullable) -/
inductive FJ (G : CFG) : Nat → Sym → Look → Prop
  | ter (n : Nat) (t : String) : FJ G n (.ter t) (.ter t)
  | eps (n : Nat) (h : String) (body : List Sym) : (h, body) ∈ G.prods →
      (∀ s ∈ body, FJ G n s .eps) → FJ G (n+1) (.var h) .eps
  | first (n : Nat) (h : String) (body : List Sym) (α : List Sym) (Z : Sym) (β : List Sym) (a : Look) :
      (h, body) ∈ G.prods → body = α ++ Z :: β → (∀ s ∈ α, FJ G n s .eps) → FJ G n Z a →
      a ≠ .eps → FJ G (n+1) (.var h) a

theorem FJ.mono {G : CFG} {n : Nat} {s : Sym} {a : Look} (h : FJ G n s a) :
    ∀ m, n ≤ m → FJ G m s a := by
  induction h with
  | ter n t => intro m _; exact .ter m t
  | eps n h body hp _ ih =>
    intro m hm
    obtain ⟨m', rfl⟩ : ∃ m', m = m' + 1 := ⟨m - 1, by omega⟩
    exact .eps m' h body hp (fun s hs => ih s hs m' (by omega))
  | first n h body α Z β a hp hb _ _ ha ih1 ih2 =>
    intro m hm
    obtain ⟨m', rfl⟩ : ∃ m', m = m' + 1 := ⟨m - 1, by omega⟩
    exact .first m' h body α Z β a hp hb (fun s hs => ih1 s hs m' (by omega)) (ih2 m' (by omega)) ha

theorem FJ.ter_inv {G : CFG} {n : Nat} {t : String} {a : Look} (h : FJ G n (.ter t) a) :
    a = .ter t := by
  cases h; rfl

theorem FJ.eps_inv {G : CFG} {n : Nat} {v : String} (h : FJ G n (.var v) .eps) :
    ∃ m body, n = m + 1 ∧ (v, body) ∈ G.prods ∧ ∀ s ∈ body, FJ G m s .eps := by
  cases h with
  | eps m _ body hp hb => exact ⟨m, body, rfl, hp, hb⟩
  | first m _ body α Z β _ hp hb h1 h2 ha => exact absurd rfl ha

theorem FJ.first_inv {G : CFG} {n : Nat} {v : String} {a : Look} (h : FJ G n (.var v) a)
    (ha : a ≠ .eps) :
    ∃ m body α Z β, n = m + 1 ∧ (v, body) ∈ G.prods ∧ body = α ++ Z :: β ∧
      (∀ s ∈ α, FJ G m s .eps) ∧ FJ G m Z a := by
  cases h with
  | eps m _ body hp hb => exact absurd rfl ha
  | first m _ body α Z β _ hp hb h1 h2 _ => exact ⟨m, body, α, Z, β, rfl, hp, hb, h1, h2⟩

theorem FJ.eof_false {G : CFG} {n : Nat} {s : Sym} (h : FJ G n s .eof) : False := by
  generalize ha : Look.eof = a at h
  induction h with
  | ter n t => cases ha
  | eps => cases ha
  | first n h body α Z β a hp hb _ _ _ _ ih2 => exact ih2 ha

/-- a common height for finitely many justifications -/
theorem FJ.all_common {G : CFG} {a : Look} : ∀ (l : List Sym), (∀ s ∈ l, ∃ n, FJ G n s a) →
    ∃ n, ∀ s ∈ l, FJ G n s a := by
  intro l
  induction l with
  | nil => intro _; exact ⟨0, fun s hs => by cases hs⟩
  | cons x xs ih =>
    intro h
    obtain ⟨n1, h1⟩ := h x List.mem_cons_self
    obtain ⟨n2, h2⟩ := ih (fun s hs => h s (List.mem_cons_of_mem _ hs))
    refine ⟨max n1 n2, fun s hs => ?_⟩
    rcases List.mem_cons.mp hs with rfl | hs
    · exact h1.mono _ (Nat.le_max_left _ _)
    · exact (h2 s hs).mono _ (Nat.le_max_right _ _)

/-- nullable by a justification: the symbol generates the empty word -/
theorem FJ.gen_nil {G : CFG} {n : Nat} {s : Sym} {a : Look} (h : FJ G n s a) :
    a = .eps → G.Gen s [] := by
  induction h with
  | ter n t => intro e; cases e
  | eps n h body hp _ ih =>
    intro _
    exact Gen.var hp (genList_nil_of_forall G body (fun s hs => ih s hs rfl))
  | first n h body α Z β a hp hb _ _ ha _ _ => intro e; exact absurd e ha

/-! ### `Reach` as a split of the body -/

theorem reach_split {f : Sym → List Look} {b : List Sym} {a : Look} (h : Lem.Reach f b a) :
    ∃ α Z β, b = α ++ Z :: β ∧ (∀ s ∈ α, Look.eps ∈ f s) ∧ a ∈ f Z := by
  induction b with
  | nil => exact h.elim
  | cons x xs ih =>
    rcases h with h | ⟨h1, h⟩
    · exact ⟨[], x, xs, rfl, fun s hs => (by cases hs), h⟩
    · obtain ⟨α, Z, β, e, h2, h3⟩ := ih h
      refine ⟨x :: α, Z, β, by rw [e]; rfl, ?_, h3⟩
      intro s hs
      rcases List.mem_cons.mp hs with rfl | hs
      · exact h1
      · exact h2 s hs

theorem reach_of_split {f : Sym → List Look} {a : Look} : ∀ (α : List Sym) (Z : Sym) (β : List Sym),
    (∀ s ∈ α, Look.eps ∈ f s) → a ∈ f Z → Lem.Reach f (α ++ Z :: β) a := by
  intro α
  induction α with
  | nil => intro Z β _ h; exact Or.inl h
  | cons x xs ih =>
    intro Z β h1 h2
    exact Or.inr ⟨h1 x List.mem_cons_self, ih Z β (fun s hs => h1 s (List.mem_cons_of_mem _ hs)) h2⟩

/-! ### every member of the FIRST dictionary has a justification -/

def JSound (G : CFG) (f : Sym → List Look) : Prop := ∀ k a, a ∈ f k → ∃ n, FJ G n k a

theorem fp_just {G : CFG} {f : Sym → List Look} (hs : JSound G f) (p : Pfl.Prod) (hp : p ∈ G.prods)
    (a : Look) (h : FP f p.2 a) : ∃ n, FJ G n (.var p.1) a := by
  rcases h with ⟨ha, h⟩ | ⟨rfl, _, h⟩
  · obtain ⟨α, Z, β, e, h1, h2⟩ := reach_split h
    obtain ⟨n1, g1⟩ := FJ.all_common α (fun s hs' => hs s _ (h1 s hs'))
    obtain ⟨n2, g2⟩ := hs Z a h2
    refine ⟨max n1 n2 + 1, .first _ p.1 p.2 α Z β a hp e ?_ (g2.mono _ (Nat.le_max_right _ _)) ha⟩
    exact fun s hs' => (g1 s hs').mono _ (Nat.le_max_left _ _)
  · obtain ⟨n, g⟩ := FJ.all_common p.2 (fun s hs' => hs s _ (h s hs'))
    exact ⟨n + 1, .eps n p.1 p.2 hp g⟩

theorem fstep_jsound (G : CFG) (T : List (Sym × String)) (st : SetMap Sym Look × List String)
    (p : Pfl.Prod) (hp : p ∈ G.prods) (h : JSound G (getD st.1)) :
    JSound G (getD (fstep T st p).1) := by
  unfold fstep
  split
  · exact h
  · have key : JSound G (getD (setKey st.1 (.var p.1)
        (union (getD st.1 (.var p.1)) (firstProd st.1 p.2)))) := by
      intro k a ha
      rw [getD_setKey] at ha
      split at ha
      · next hk =>
        subst hk
        rcases (mem_union _ _ _).mp ha with h1 | h1
        · exact h _ _ h1
        · exact fp_just h p hp a ((mem_firstProd _ _ _).mp h1)
      · exact h _ _ ha
    simp only
    split <;> exact key

theorem firstSet_jsound (G : CFG) (fuel : Nat) (F : SetMap Sym Look) (h : firstSet G fuel = some F) :
    JSound G (getD F) := by
  unfold firstSet at h
  refine firstLoop_inv G (triggers G) (fun F _ => JSound G (getD F)) ?_ fuel _ _ F ?_ h
  · intro F q cur _ hI
    refine foldl_inv' (fun st : SetMap Sym Look × List String => JSound G (getD st.1)) _ _ ?_ _ hI
    intro p hp st hst
    exact fstep_jsound G _ st p (List.mem_filter.mp hp).1 hst
  · intro k a ha
    rcases (firstInit_inv G).seeds k a ha with ⟨t, _, rfl, rfl⟩ | ⟨p, hp, hb, rfl, rfl⟩
    · exact ⟨0, .ter 0 t⟩
    · exact ⟨1, .eps 0 p.1 p.2 hp (by rw [hb]; intro s hs; cases hs)⟩

/-! ### the FIRST dictionary is closed under its rules (no hypothesis on the grammar) -/

structure CMid (G : CFG) (cur : String) (F : SetMap Sym Look) (q : List String) (rem : List Pfl.Prod) :
    Prop where
  ters : ∀ t ∈ G.ters, getD F (.ter t) = [Look.ter t]
  epsP : ∀ p ∈ G.prods, p.2 = [] → Look.eps ∈ getD F (.var p.1)
  pend : ∀ p ∈ G.prods, p.2 ≠ [] →
    (∀ a, FP (getD F) p.2 a → a ∈ getD F (.var p.1)) ∨ p.1 ∈ q ∨ (p.1 = cur ∧ p ∈ rem)

structure CInv (G : CFG) (F : SetMap Sym Look) (q : List String) : Prop where
  ters : ∀ t ∈ G.ters, getD F (.ter t) = [Look.ter t]
  epsP : ∀ p ∈ G.prods, p.2 = [] → Look.eps ∈ getD F (.var p.1)
  pend : ∀ p ∈ G.prods, p.2 ≠ [] →
    (∀ a, FP (getD F) p.2 a → a ∈ getD F (.var p.1)) ∨ p.1 ∈ q

theorem fstep_cmid (G : CFG) (cur : String)
    (F : SetMap Sym Look) (q : List String) (p : Pfl.Prod) (rem : List Pfl.Prod)
    (hp : p ∈ G.prods) (hm : CMid G cur F q (p :: rem)) :
    CMid G cur (fstep (triggers G) (F, q) p).1 (fstep (triggers G) (F, q) p).2 rem := by
  by_cases hb : p.2 = []
  · have : fstep (triggers G) (F, q) p = (F, q) := by unfold fstep; simp [hb]
    rw [this]
    refine ⟨hm.ters, hm.epsP, ?_⟩
    intro p' hp' hb'
    rcases hm.pend p' hp' hb' with h | h | ⟨h1, h2⟩
    · exact Or.inl h
    · exact Or.inr (Or.inl h)
    · rcases List.mem_cons.mp h2 with rfl | h2
      · exact absurd hb hb'
      · exact Or.inr (Or.inr ⟨h1, h2⟩)
  · have hbe : p.2.isEmpty = false := by cases hpb : p.2 with
      | nil => exact absurd hpb hb
      | cons _ _ => rfl
    let new := union (getD F (.var p.1)) (firstProd F p.2)
    let F1 := setKey F (.var p.1) new
    let q1 := if new.length ≠ (getD F (.var p.1)).length then
      (trig (triggers G) (.var p.1)).foldl qpush q else q
    have hst : fstep (triggers G) (F, q) p = (F1, q1) := by
      unfold fstep
      simp only [hbe, Bool.false_eq_true, if_false]
      show (if new.length ≠ (getD F (.var p.1)).length then _ else _) = _
      by_cases hl : new.length ≠ (getD F (.var p.1)).length
      · simp only [q1, if_pos hl]; rfl
      · simp only [q1, if_neg hl]; rfl
    rw [hst]
    show CMid G cur F1 q1 rem
    have hget : ∀ k, getD F1 k = if k = .var p.1 then new else getD F k :=
      fun k => getD_setKey F _ _ k
    have hmono : ∀ k a, a ∈ getD F k → a ∈ getD F1 k := by
      intro k a ha
      rw [hget]
      split
      · next hk => subst hk; exact (mem_union _ _ _).mpr (Or.inl ha)
      · exact ha
    have hqmono : ∀ h, h ∈ q → h ∈ q1 := by
      intro h hh
      show h ∈ (if _ then _ else _)
      split
      · exact (mem_foldl_qpush _ _ _).mpr (Or.inl hh)
      · exact hh
    have hkey : ∀ p' ∈ G.prods, (∀ x ∈ p'.2, getD F1 x = getD F x) ∨ p'.1 ∈ q1 := by
      intro p' hp'
      by_cases hl : new.length ≠ (getD F (.var p.1)).length
      · by_cases hin : Sym.var p.1 ∈ p'.2
        · right
          show p'.1 ∈ (if _ then _ else _)
          rw [if_pos hl]
          exact (mem_foldl_qpush _ _ _).mpr (Or.inr ((mem_trig G _ _).mpr ⟨p', hp', rfl, hin⟩))
        · left
          intro x hx
          rw [hget, if_neg]
          rintro rfl; exact hin hx
      · left
        intro x _
        have hnew : new = getD F (.var p.1) := union_eq_of_length _ _ (by simpa using hl)
        show getD (setKey F (.var p.1) new) x = _
        rw [hnew, getD_setKey_same]
    refine ⟨?_, ?_, ?_⟩
    · intro t ht
      rw [hget, if_neg (by intro h; cases h)]
      exact hm.ters t ht
    · intro p' hp' hb'
      exact hmono _ _ (hm.epsP p' hp' hb')
    · intro p' hp' hb'
      rcases hkey p' hp' with hsame | hq
      · have hfp : ∀ a, FP (getD F1) p'.2 a ↔ FP (getD F) p'.2 a := fun a => fp_congr hsame
        rcases hm.pend p' hp' hb' with h | h | ⟨h1, h2⟩
        · left
          intro a ha
          exact hmono _ _ (h a ((hfp a).mp ha))
        · exact Or.inr (Or.inl (hqmono _ h))
        · rcases List.mem_cons.mp h2 with rfl | h2
          · left
            intro a ha
            rw [hget, if_pos rfl]
            exact (mem_union _ _ _).mpr (Or.inr ((mem_firstProd _ _ _).mpr ((hfp a).mp ha)))
          · exact Or.inr (Or.inr ⟨h1, h2⟩)
      · exact Or.inr (Or.inl hq)

theorem fold_cmid (G : CFG) (cur : String) :
    ∀ (rem : List Pfl.Prod) (F : SetMap Sym Look) (q : List String), (∀ p ∈ rem, p ∈ G.prods) →
      CMid G cur F q rem →
      CMid G cur (rem.foldl (fstep (triggers G)) (F, q)).1 (rem.foldl (fstep (triggers G)) (F, q)).2 [] := by
  intro rem
  induction rem with
  | nil => intro F q _ hm; exact hm
  | cons p rem ih =>
    intro F q hrem hm
    rw [List.foldl_cons]
    exact ih _ _ (fun p' hp' => hrem p' (List.mem_cons_of_mem _ hp'))
      (fstep_cmid G cur F q p rem (hrem p List.mem_cons_self) hm)

theorem loop_step_cinv (G : CFG)
    (F : SetMap Sym Look) (q : List String) (cur : String) (hl : q.getLast? = some cur)
    (hI : CInv G F q) :
    CInv G ((G.prods.filter (·.1 = cur)).foldl (fstep (triggers G)) (F, q.dropLast)).1
      ((G.prods.filter (·.1 = cur)).foldl (fstep (triggers G)) (F, q.dropLast)).2 := by
  have hm : CMid G cur F q.dropLast (G.prods.filter (·.1 = cur)) := by
    refine ⟨hI.ters, hI.epsP, ?_⟩
    intro p hp hb
    rcases hI.pend p hp hb with h | h
    · exact Or.inl h
    · rcases mem_dropLast_or q cur hl _ h with h | h
      · exact Or.inr (Or.inl h)
      · exact Or.inr (Or.inr ⟨h, List.mem_filter.mpr ⟨hp, by simpa using h⟩⟩)
  have := fold_cmid G cur _ F q.dropLast (fun p hp => (List.mem_filter.mp hp).1) hm
  refine ⟨this.ters, this.epsP, ?_⟩
  intro p hp hb
  rcases this.pend p hp hb with h | h | ⟨_, h⟩
  · exact Or.inl h
  · exact Or.inr h
  · cases h

theorem firstInit_cinv (G : CFG) :
    CInv G (firstInit G (triggers G)).1 (firstInit G (triggers G)).2 := by
  have hi := firstInit_inv G
  refine ⟨firstInit_ters G _, firstInit_eps G _, ?_⟩
  intro p hp hb
  by_cases hq : p.1 ∈ (firstInit G (triggers G)).2
  · exact Or.inr hq
  · left
    have hempty : ∀ x ∈ p.2, getD (firstInit G (triggers G)).1 x = [] := by
      intro x hx
      refine Classical.byContradiction fun hne => ?_
      exact hq (hi.queued x hne p.1 ((mem_trig G _ _).mpr ⟨p, hp, rfl, hx⟩))
    intro a ha
    rcases ha with ⟨_, h⟩ | ⟨_, _, h⟩
    · obtain ⟨x, hx, hax⟩ := reach_mem h
      rw [hempty x hx] at hax; cases hax
    · cases hpb : p.2 with
      | nil => exact absurd hpb hb
      | cons x xs =>
        have hx : x ∈ p.2 := by rw [hpb]; exact List.mem_cons_self
        have := h x hx
        rw [hempty x hx] at this; cases this

theorem firstSet_cinv (G : CFG) (fuel : Nat) (F : SetMap Sym Look) (h : firstSet G fuel = some F) :
    CInv G F [] := by
  unfold firstSet at h
  exact firstLoop_inv G (triggers G) (CInv G) (fun F q cur hl hI => loop_step_cinv G F q cur hl hI)
    fuel _ _ F (firstInit_cinv G) h

/-- closure in the form used below -/
theorem firstSet_closed (G : CFG) (fuel : Nat) (F : SetMap Sym Look) (h : firstSet G fuel = some F)
    (p : Pfl.Prod) (hp : p ∈ G.prods) (a : Look) (ha : FP (getD F) p.2 a) : a ∈ getD F (.var p.1) := by
  have hI := firstSet_cinv G fuel F h
  by_cases hb : p.2 = []
  · rcases ha with ⟨_, h1⟩ | ⟨_, h1, _⟩
    · rw [hb] at h1; exact h1.elim
    · exact absurd hb h1
  · rcases hI.pend p hp hb with h1 | h1
    · exact h1 a ha
    · cases h1

/-- every justification is realised in the dictionary -/
theorem just_mem (G : CFG) (hG : G.WF) (fuel : Nat) (F : SetMap Sym Look)
    (h : firstSet G fuel = some F) {n : Nat} {s : Sym} {a : Look} (hj : FJ G n s a) :
    (∀ t, s = .ter t → t ∈ G.ters) → a ∈ getD F s := by
  have hI := firstSet_cinv G fuel F h
  induction hj with
  | ter n t =>
    intro ht
    rw [hI.ters t (ht t rfl)]; exact List.mem_singleton.mpr rfl
  | eps n hd body hp _ ih =>
    intro _
    by_cases hb : body = []
    · exact hI.epsP (hd, body) hp hb
    · refine firstSet_closed G fuel F h (hd, body) hp _ (Or.inr ⟨rfl, hb, ?_⟩)
      intro y hy
      exact ih y hy (fun t e => hG.ter_mem _ hp t (e ▸ hy))
  | first n hd body α Z β a hp hb _ _ ha ih1 ih2 =>
    intro _
    refine firstSet_closed G fuel F h (hd, body) hp _ (Or.inl ⟨ha, ?_⟩)
    show Lem.Reach (getD F) body a
    rw [hb]
    refine reach_of_split α Z β ?_ ?_
    · intro s hs
      exact ih1 s hs (fun t e => hG.ter_mem _ hp t (by rw [hb]; exact e ▸ List.mem_append_left _ hs))
    · exact ih2 (fun t e => hG.ter_mem _ hp t (by rw [hb, e]; simp))

/-- `Epsilon` marks exactly the members of `get_nullable_symbols` -/
theorem eps_iff_nullable (G : CFG) (hG : G.WF) (fuel : Nat) (F : SetMap Sym Look)
    (h : firstSet G fuel = some F) (s : Sym) : Look.eps ∈ getD F s ↔ s ∈ G.nullable := by
  constructor
  · intro he
    obtain ⟨n, hj⟩ := firstSet_jsound G fuel F h s _ he
    cases s with
    | ter t => cases hj.ter_inv
    | var v => exact (mem_nullable_iff G _).mpr ⟨v, rfl, hj.gen_nil rfl⟩
  · intro hs
    obtain ⟨v, rfl, hg⟩ := (mem_nullable_iff G s).mp hs
    have hI := firstSet_cinv G fuel F h
    have hcl : ∀ p ∈ G.prods, p.2 ≠ [] → ∀ a, FP (getD F) p.2 a → a ∈ getD F (.var p.1) :=
      fun p hp _ a ha => firstSet_closed G fuel F h p hp a ha
    exact (closed_complete G hG (getD F) (fun t ht => by rw [hI.ters t ht]; simp) hI.epsP hcl hg
      (by intro t e; cases e)).1 rfl

/-! ### the FOLLOW dictionary is closed under its rules -/

theorem followSet_closed (G : CFG) (fuel : Nat) (Fo : SetMap (Option Sym) Look)
    (h : followSet G fuel = some Fo) :
    ∃ F, firstSet G fuel = some F ∧
      (∀ p ∈ G.prods, ∀ pre x rest a, p.2 = pre ++ x :: rest → a ≠ Look.eps →
        Lem.Reach (getD F) rest a → a ∈ getD Fo (some x)) ∧
      (∀ p ∈ G.prods, ∀ pre x rest a, p.2 = pre ++ x :: rest → (∀ y ∈ rest, Look.eps ∈ getD F y) →
        a ∈ getD Fo (some (.var p.1)) → a ∈ getD Fo (some x)) := by
  unfold followSet at h
  split at h
  · cases h
  · next F hFs =>
    have hi := followInit_inv G F G.start
    have h0 : WInv (followTriggers G F) (fun _ _ => True) (Src G (getD F) G.start)
        (followInit G F G.start).1 (followInit G F G.start).2 := by
      refine ⟨fun _ _ _ => trivial, fun k a ha => (hi.rep _ _).mpr ha, hi.nodup, ?_⟩
      intro c t _
      by_cases he : getD (followInit G F G.start).1 (some c) = []
      · left
        intro a ha
        rw [he] at ha; cases ha
      · exact Or.inr (hi.queued _ he)
    have hI := followLoop_inv (followTriggers G F)
      (WInv (followTriggers G F) (fun _ _ => True) (Src G (getD F) G.start))
      (fun Fo q cur hl hI => wloop_step_inv _ _ _ (fun _ _ _ _ _ => trivial) Fo q cur hl hI)
      fuel _ _ Fo h0 h
    refine ⟨F, hFs, ?_, ?_⟩
    · intro p hp pre x rest a hb ha hr
      exact hI.base _ _ (Or.inr ⟨p, hp, pre, x, rest, hb, rfl, ha, hr⟩)
    · intro p hp pre x rest a hb hall ha
      have htr : x ∈ getD (followTriggers G F) (.var p.1) :=
        (mem_followTriggers G F _ _).mpr ⟨p, hp, rfl, pre, rest, hb, hall⟩
      rcases hI.pend _ _ htr with h1 | h1
      · exact h1 _ ha
      · cases h1

/-! ### the facts about a table that the termination argument uses -/

/-- `f` / `fo`: the FIRST / FOLLOW dictionaries as functions -/
structure Facts (G : CFG) (tb : List (String × Look × Pfl.Prod)) (f : Sym → List Look)
    (fo : Option Sym → List Look) : Prop where
  wf : G.WF
  tb_iff : ∀ hd a p, a ≠ Look.eps → ((hd, a, p) ∈ tb ↔ p ∈ G.prods ∧ hd = p.1 ∧
    (Lem.Reach f p.2 a ∨ ((∀ y ∈ p.2, Look.eps ∈ f y) ∧ a ∈ fo (some (.var p.1)))))
  just : ∀ k a, a ∈ f k → ∃ n, FJ G n k a
  mem : ∀ n s a, FJ G n s a → (∀ t, s = .ter t → t ∈ G.ters) → a ∈ f s
  fo1 : ∀ p ∈ G.prods, ∀ pre x rest a, p.2 = pre ++ x :: rest → a ≠ Look.eps →
    Lem.Reach f rest a → a ∈ fo (some x)
  fo2 : ∀ p ∈ G.prods, ∀ pre x rest a, p.2 = pre ++ x :: rest → (∀ y ∈ rest, Look.eps ∈ f y) →
    a ∈ fo (some (.var p.1)) → a ∈ fo (some x)

theorem facts_of_table (G : CFG) (hG : G.WF) (fuel : Nat) (tb : List (String × Look × Pfl.Prod))
    (h : table G fuel = some tb) : ∃ f fo, Facts G tb f fo := by
  obtain ⟨F, Fo, hF, hFo, rfl⟩ := table_eq G fuel tb h
  obtain ⟨F', hF', h1, h2⟩ := followSet_closed G fuel Fo hFo
  rw [hF] at hF'; cases hF'
  refine ⟨getD F, getD Fo, hG, ?_, firstSet_jsound G fuel F hF,
    fun n s a hj => just_mem G hG fuel F hF hj, h1, h2⟩
  intro hd a p ha
  rw [mem_tableOf]
  refine and_congr_right fun hp => and_congr_right fun _ => ?_
  have hnul : p.2.all (· ∈ G.nullable) = true ↔ ∀ y ∈ p.2, Look.eps ∈ getD F y := by
    simp only [List.all_eq_true, decide_eq_true_eq]
    constructor
    · intro hh y hy; exact (eps_iff_nullable G hG fuel F hF y).mpr (hh y hy)
    · intro hh y hy; exact (eps_iff_nullable G hG fuel F hF y).mp (hh y hy)
  have hfp : a ∈ firstProd F p.2 ↔ Lem.Reach (getD F) p.2 a := by
    rw [mem_firstProd]
    constructor
    · rintro (⟨_, hr⟩ | ⟨e, _⟩)
      · exact hr
      · exact absurd e ha
    · intro hr; exact Or.inl ⟨ha, hr⟩
  by_cases hn : p.2.all (· ∈ G.nullable) = true
  · rw [if_pos hn, hfp]
    have hall := hnul.mp hn
    constructor
    · rintro (h3 | ⟨h3, _⟩)
      · exact Or.inr ⟨hall, h3⟩
      · exact Or.inl h3
    · rintro (h3 | ⟨_, h3⟩)
      · exact Or.inr ⟨h3, ha⟩
      · exact Or.inl h3
  · rw [if_neg hn, hfp]
    constructor
    · exact Or.inl
    · rintro (h3 | ⟨h3, _⟩)
      · exact h3
      · exact absurd (hnul.mpr h3) hn

end Term
end LL1Lib
end Pfl
