/-
Helper lemmas for C14 (library model `Pfl/Model/LL1Lib.lean`): the stack machine and the
reconstruction of the parse tree from the leftmost sequence of productions.
-/
import Pfl.Model.LL1Lib
import Pfl.Proofs.LL1LibFollow
namespace Pfl
namespace LL1Lib
namespace Lem
open CFG

/-- the entries of the table are productions of the grammar, filed under their head -/
theorem table_entry (G : CFG) (fuel : Nat) (tb : List (String × Look × Pfl.Prod))
    (h : table G fuel = some tb) : ∀ e ∈ tb, e.2.2 ∈ G.prods ∧ e.1 = e.2.2.1 := by
  unfold table at h
  split at h
  · cases h
    intro e he
    rcases List.mem_append.mp he with he | he
    all_goals
      obtain ⟨p, hp, he⟩ := List.mem_flatMap.mp he
      obtain ⟨a, _, rfl⟩ := List.mem_map.mp he
      exact ⟨(List.mem_filter.mp hp).1, rfl⟩
  · cases h

/-- `Lm u ps w`: rewriting the leftmost variable with the productions `ps` in turn leads from
`u` to the word `w` -/
inductive Lm : List Sym → List Pfl.Prod → List String → Prop
  | nil : Lm [] [] []
  | ter (t : String) (ss : List Sym) (ps : List Pfl.Prod) (w : List String) :
      Lm ss ps w → Lm (.ter t :: ss) ps (t :: w)
  | var (v : String) (ss : List Sym) (p : Pfl.Prod) (ps : List Pfl.Prod) (w : List String) :
      p.1 = v → Lm (p.2 ++ ss) ps w → Lm (.var v :: ss) (p :: ps) w

theorem lm_nil_inv {ps : List Pfl.Prod} {w : List String} (h : Lm [] ps w) : ps = [] ∧ w = [] := by
  cases h; exact ⟨rfl, rfl⟩

theorem lm_ter_inv {t : String} {ss : List Sym} {ps : List Pfl.Prod} {w : List String}
    (h : Lm (.ter t :: ss) ps w) : ∃ w', w = t :: w' ∧ Lm ss ps w' := by
  cases h with
  | ter _ _ _ w' h' => exact ⟨w', rfl, h'⟩

theorem lm_var_inv {v : String} {ss : List Sym} {p : Pfl.Prod} {ps : List Pfl.Prod} {w : List String}
    (h : Lm (.var v :: ss) (p :: ps) w) : p.1 = v ∧ Lm (p.2 ++ ss) ps w := by
  cases h with
  | var _ _ _ _ _ h1 h2 => exact ⟨h1, h2⟩

/-- the stack machine emits a leftmost sequence of table productions -/
theorem parseLoop_lm (P : Pfl.Prod → Prop) (tb : List (String × Look × Pfl.Prod))
    (htb : ∀ e ∈ tb, P e.2.2 ∧ e.1 = e.2.2.1) :
    ∀ (fuel : Nat) (syms : List Sym) (input : List String) (out ps : List Pfl.Prod),
      parseLoop tb fuel (syms.map some ++ [none]) input out = some (some ps) →
      ∃ ps', ps = out.reverse ++ ps' ∧ Lm syms ps' input ∧ ∀ p ∈ ps', P p := by
  intro fuel
  induction fuel with
  | zero => intro syms input out ps h; rw [parseLoop] at h; cases h
  | succ fuel ih =>
    intro syms input out ps h
    cases syms with
    | nil =>
      simp only [List.map_nil, List.nil_append, parseLoop] at h
      split at h
      · next hi =>
        cases h
        rw [List.isEmpty_iff.mp hi]
        exact ⟨[], by simp, Lm.nil, by simp⟩
      · cases h
    | cons s ss =>
      rw [List.map_cons, List.cons_append] at h
      cases s with
      | ter t =>
        cases input with
        | nil => simp only [parseLoop] at h; cases h
        | cons a rest =>
          simp only [parseLoop] at h
          split at h
          · next hat =>
            subst hat
            obtain ⟨ps', h1, h2, h3⟩ := ih ss rest out ps h
            exact ⟨ps', h1, Lm.ter _ _ _ _ h2, h3⟩
          · cases h
      | var v =>
        simp only [parseLoop] at h
        split at h
        · next e he =>
          have hem : e ∈ [e] := List.mem_singleton.mpr rfl
          rw [← he] at hem
          rw [List.mem_filter] at hem
          obtain ⟨hetb, hev⟩ := hem
          simp only [decide_eq_true_eq] at hev
          rw [← List.append_assoc, ← List.map_append] at h
          obtain ⟨ps', h1, h2, h3⟩ := ih _ input _ ps h
          refine ⟨e.2.2 :: ps', by rw [h1]; simp, ?_, ?_⟩
          · exact Lm.var v ss e.2.2 ps' input (by rw [← (htb e hetb).2]; exact hev.1) h2
          · intro p hp
            rcases List.mem_cons.mp hp with rfl | hp
            · exact (htb e hetb).1
            · exact h3 p hp
        · cases h

/-! ### rebuilding the tree -/

structure TGood (G : CFG) (s : Sym) (ps : List Pfl.Prod) (t : PTree) (ps' : List Pfl.Prod) : Prop where
  sym : t.sym = s
  sub : ∀ p ∈ ps', p ∈ ps
  wf : (∀ p ∈ ps, p ∈ G.prods) → G.wellFormedT t = true
  yld : ∀ ss w, Lm (s :: ss) ps w → ∃ w2, w = yieldT t ++ w2 ∧ Lm ss ps' w2

structure LGood (G : CFG) (syms : List Sym) (ps : List Pfl.Prod) (ts : List PTree)
    (ps' : List Pfl.Prod) : Prop where
  sym : ts.map PTree.sym = syms
  sub : ∀ p ∈ ps', p ∈ ps
  wf : (∀ p ∈ ps, p ∈ G.prods) → G.wellFormedL ts = true
  yld : ∀ ss w, Lm (syms ++ ss) ps w → ∃ w2, w = yieldL ts ++ w2 ∧ Lm ss ps' w2

theorem sons_good (G : CFG) (fuel : Nat)
    (hT : ∀ s ps t ps', buildTree fuel s ps = some (t, ps') → TGood G s ps t ps') :
    ∀ syms ps ts ps', buildTree.sons fuel syms ps = some (ts, ps') → LGood G syms ps ts ps' := by
  intro syms
  induction syms with
  | nil =>
    intro ps ts ps' h
    rw [buildTree.sons] at h
    cases h
    refine ⟨rfl, fun p hp => hp, fun _ => rfl, ?_⟩
    intro ss w hl
    exact ⟨w, by simp [yieldL], hl⟩
  | cons s syms ih =>
    intro ps ts ps' h
    rw [buildTree.sons] at h
    split at h
    · cases h
    · next t ps1 hb =>
      obtain ⟨⟨ts1, ps2⟩, hs, he⟩ := Option.map_eq_some_iff.mp h
      simp only [Prod.mk.injEq] at he
      obtain ⟨rfl, rfl⟩ := he
      have g1 := hT s ps t ps1 hb
      have g2 := ih ps1 ts1 ps2 hs
      refine ⟨?_, ?_, ?_, ?_⟩
      · simp [g1.sym, g2.sym]
      · exact fun p hp => g1.sub p (g2.sub p hp)
      · intro hall
        simp only [wellFormedL, Bool.and_eq_true]
        exact ⟨g1.wf hall, g2.wf (fun p hp => hall p (g1.sub p hp))⟩
      · intro ss w hl
        rw [List.cons_append] at hl
        obtain ⟨w2, rfl, hl2⟩ := g1.yld _ w hl
        obtain ⟨w3, rfl, hl3⟩ := g2.yld ss w2 hl2
        exact ⟨w3, by simp [yieldL], hl3⟩

theorem buildTree_good (G : CFG) : ∀ (fuel : Nat) s ps t ps',
    buildTree fuel s ps = some (t, ps') → TGood G s ps t ps' := by
  intro fuel
  induction fuel with
  | zero => intro s ps t ps' h; rw [buildTree] at h; cases h
  | succ fuel ih =>
    intro s ps t ps' h
    cases s with
    | ter a =>
      rw [buildTree] at h
      · cases h
        refine ⟨rfl, fun p hp => hp, fun _ => rfl, ?_⟩
        intro ss w hl
        obtain ⟨w', rfl, hl'⟩ := lm_ter_inv hl
        exact ⟨w', by simp [yieldT], hl'⟩
      · simp
    | var v =>
      cases ps with
      | nil => rw [buildTree] at h; cases h
      | cons p rest =>
        rw [buildTree] at h
        split at h
        · cases h
        · next hpv =>
          have hpv : p.1 = v := Classical.not_not.mp hpv
          obtain ⟨⟨ts, ps2⟩, hs, he⟩ := Option.map_eq_some_iff.mp h
          simp only [Prod.mk.injEq] at he
          obtain ⟨rfl, rfl⟩ := he
          have g := sons_good G fuel ih p.2 rest ts ps2 hs
          refine ⟨rfl, fun q hq => List.mem_cons_of_mem _ (g.sub q hq), ?_, ?_⟩
          · intro hall
            simp only [wellFormedT, Bool.and_eq_true, decide_eq_true_eq]
            refine ⟨?_, g.wf (fun q hq => hall q (List.mem_cons_of_mem _ hq))⟩
            rw [g.sym, ← hpv]
            exact hall p List.mem_cons_self
          · intro ss w hl
            obtain ⟨_, hl'⟩ := lm_var_inv hl
            obtain ⟨w2, rfl, hl2⟩ := g.yld ss w hl'
            exact ⟨w2, by simp [yieldT], hl2⟩

/-- whatever tree `parse` returns is a parse tree of the word -/
theorem parse_valid' (G : CFG) (w : List String) (fuel : Nat) (t : PTree)
    (h : parse G w fuel = some (some t)) : G.treeValid t w = true := by
  unfold parse at h
  split at h
  · cases h
  · next s hst =>
    split at h
    · cases h
    · next tb htb =>
      split at h
      · cases h
      · cases h
      · next ps hps =>
        split at h
        · next t' hbt =>
          cases h
          obtain ⟨ps', h1, h2, h3⟩ := parseLoop_lm (fun p => p ∈ G.prods) tb
            (table_entry G fuel tb htb) fuel [.var s] w [] ps hps
          simp only [List.reverse_nil, List.nil_append] at h1
          subst h1
          have g := buildTree_good G fuel _ _ _ _ hbt
          obtain ⟨w2, hw, hl⟩ := g.yld [] w h2
          obtain ⟨_, rfl⟩ := lm_nil_inv hl
          unfold treeValid
          rw [hst]
          simp only [Bool.and_eq_true, decide_eq_true_eq]
          exact ⟨⟨g.sym, g.wf h3⟩, by rw [hw]; simp⟩
        · cases h


/-! ### the parsing table -/

/-- the table as a function of the two dictionaries -/
def tableOf (G : CFG) (F : SetMap Sym Look) (Fo : SetMap (Option Sym) Look) :
    List (String × Look × Pfl.Prod) :=
  ((G.prods.filter fun p => p.2.all (· ∈ G.nullable)).flatMap fun p =>
      (union (getD Fo (some (.var p.1))) ((firstProd F p.2).filter (· ≠ Look.eps))).map
        fun a => (p.1, a, p)) ++
    ((G.prods.filter fun p => !(p.2.all (· ∈ G.nullable))).flatMap fun p =>
      (firstProd F p.2).map fun a => (p.1, a, p))

theorem table_eq (G : CFG) (fuel : Nat) (tb : List (String × Look × Pfl.Prod))
    (h : table G fuel = some tb) :
    ∃ F Fo, firstSet G fuel = some F ∧ followSet G fuel = some Fo ∧ tb = tableOf G F Fo := by
  unfold table at h
  split at h
  · next F Fo hF hFo =>
    cases h
    exact ⟨F, Fo, hF, hFo, rfl⟩
  · cases h

theorem mem_tableOf (G : CFG) (F : SetMap Sym Look) (Fo : SetMap (Option Sym) Look)
    (hd : String) (a : Look) (p : Pfl.Prod) :
    (hd, a, p) ∈ tableOf G F Fo ↔ p ∈ G.prods ∧ hd = p.1 ∧
      (if p.2.all (· ∈ G.nullable) then
        a ∈ getD Fo (some (.var p.1)) ∨ (a ∈ firstProd F p.2 ∧ a ≠ Look.eps)
       else a ∈ firstProd F p.2) := by
  unfold tableOf
  simp only [List.mem_append, List.mem_flatMap, List.mem_filter, List.mem_map, Prod.mk.injEq,
    mem_union, decide_eq_true_eq]
  constructor
  · rintro (⟨q, ⟨hq, hn⟩, b, hb, rfl, rfl, rfl⟩ | ⟨q, ⟨hq, hn⟩, b, hb, rfl, rfl, rfl⟩)
    · refine ⟨hq, rfl, ?_⟩
      rw [if_pos hn]; exact hb
    · refine ⟨hq, rfl, ?_⟩
      have hn' : ¬ (q.2.all (fun x => decide (x ∈ G.nullable)) = true) := by simpa using hn
      rw [if_neg hn']; exact hb
  · rintro ⟨hp, rfl, h⟩
    by_cases hn : p.2.all (fun x => decide (x ∈ G.nullable)) = true
    · rw [if_pos hn] at h
      exact Or.inl ⟨p, ⟨hp, hn⟩, a, h, rfl, rfl, rfl⟩
    · rw [if_neg hn] at h
      exact Or.inr ⟨p, ⟨hp, by simpa using hn⟩, a, h, rfl, rfl, rfl⟩

theorem mem_predict (G : CFG) (p : Pfl.Prod) (x : Option String) :
    x ∈ G.predict p ↔
      (∃ t ∈ (G.firstOfString G.firstSets G.nullable p.2).1, x = some t) ∨
      ((G.firstOfString G.firstSets G.nullable p.2).2 = true ∧ (p.1, x) ∈ G.followSets) := by
  unfold predict
  rcases hfo : G.firstOfString G.firstSets G.nullable p.2 with ⟨fr, nr⟩
  simp only [List.mem_eraseDups, List.mem_append, List.mem_map]
  constructor
  · rintro (⟨t, ht, rfl⟩ | h)
    · exact Or.inl ⟨t, ht, rfl⟩
    · split at h
      · next hn =>
        obtain ⟨e, he, rfl⟩ := List.mem_map.mp h
        rw [List.mem_filter] at he
        simp only [decide_eq_true_eq] at he
        refine Or.inr ⟨hn, ?_⟩
        rw [← he.2]; exact he.1
      · cases h
  · rintro (⟨t, ht, rfl⟩ | ⟨hn, h⟩)
    · exact Or.inl ⟨t, ht, rfl⟩
    · right
      rw [if_pos hn]
      exact List.mem_map.mpr ⟨(p.1, x), List.mem_filter.mpr ⟨h, by simp⟩, rfl⟩

theorem allnul_iff (G : CFG) (b : List Sym) :
    b.all (· ∈ G.nullable) = true ↔ G.GenList b [] := by
  rw [genList_nil_iff_forall]
  simp only [List.all_eq_true, decide_eq_true_eq]
  constructor
  · intro h y hy
    obtain ⟨v, rfl, hv⟩ := (mem_nullable_iff G y).mp (h y hy)
    exact hv
  · intro h y hy
    have := h y hy
    cases y with
    | ter t => cases this
    | var v => exact (mem_nullable_iff G _).mpr ⟨v, rfl, this⟩

/-- the predict set as a set of table columns -/
def PredictLook (G : CFG) (p : Pfl.Prod) : Look → Prop
  | .ter t => some t ∈ G.predict p
  | .eof => none ∈ G.predict p
  | .eps => False

theorem predictLook_lookOf (G : CFG) (p : Pfl.Prod) (x : Option String) :
    PredictLook G p (lookOf x) ↔ x ∈ G.predict p := by
  cases x <;> exact Iff.rfl

theorem predictLook_iff (G : CFG) (p : Pfl.Prod) (a : Look) :
    PredictLook G p a ↔ ∃ x, a = lookOf x ∧ x ∈ G.predict p := by
  constructor
  · intro h
    cases a with
    | ter t => exact ⟨some t, rfl, h⟩
    | eof => exact ⟨none, rfl, h⟩
    | eps => exact h.elim
  · rintro ⟨x, rfl, h⟩
    exact (predictLook_lookOf G p x).mpr h

theorem tableOf_spec (G : CFG) (hg : ∀ p ∈ G.prods, ∀ s ∈ p.2, ∃ w, G.Gen s w) (hG : G.WF)
    (fuel : Nat) (F : SetMap Sym Look) (Fo : SetMap (Option Sym) Look)
    (hF : firstSet G fuel = some F) (hFo : followSet G fuel = some Fo)
    (hd : String) (a : Look) (p : Pfl.Prod) :
    (hd, a, p) ∈ tableOf G F Fo ↔ p ∈ G.prods ∧ hd = p.1 ∧ PredictLook G p a := by
  rw [mem_tableOf]
  refine and_congr_right fun hp => and_congr_right fun _ => ?_
  have hsem : FSem G F := fun s hs => firstSet_sem G hg hG fuel F hF s hs
  obtain ⟨hfol, hnoeps⟩ := followSet_spec' G hg hG fuel Fo hFo p.1
  have hv := valid_body G hg hG p hp
  obtain ⟨hfos2, hfos1⟩ := LL1.fos_spec G hg hG p.2 hv.1
  have hnul : p.2.all (· ∈ G.nullable) = true ↔
      (G.firstOfString G.firstSets G.nullable p.2).2 = true := by
    rw [allnul_iff, hfos2]
  have hter : ∀ t, Look.ter t ∈ firstProd F p.2 ↔
      t ∈ (G.firstOfString G.firstSets G.nullable p.2).1 := by
    intro t
    rw [mem_firstProd, hfos1, ← reach_ter_iff hsem t p.2 hv]
    constructor
    · rintro (⟨_, h⟩ | ⟨h, _⟩)
      · exact h
      · cases h
    · intro h; exact Or.inl ⟨(by intro e; cases e), h⟩
  have heof : Look.eof ∉ firstProd F p.2 := by
    rw [mem_firstProd]
    rintro (⟨_, h⟩ | ⟨h, _⟩)
    · exact reach_no_eof hsem p.2 hv h
    · cases h
  have heps : Look.eps ∈ firstProd F p.2 → (G.firstOfString G.firstSets G.nullable p.2).2 = true := by
    rw [mem_firstProd]
    rintro (⟨h, _⟩ | ⟨_, _, h⟩)
    · exact absurd rfl h
    · exact hfos2.mpr ((alleps_iff hsem p.2 hv).mp h)
  by_cases hn : p.2.all (· ∈ G.nullable) = true
  · have hn' := hnul.mp hn
    rw [if_pos hn]
    cases a with
    | ter t =>
      show _ ↔ some t ∈ G.predict p
      rw [mem_predict, hter, ← hfol (some t)]
      constructor
      · rintro (h | ⟨h, _⟩)
        · exact Or.inr ⟨hn', h⟩
        · exact Or.inl ⟨t, h, rfl⟩
      · rintro (⟨t', h, e⟩ | ⟨_, h⟩)
        · cases e; exact Or.inr ⟨h, (by intro e; cases e)⟩
        · exact Or.inl h
    | eof =>
      show _ ↔ none ∈ G.predict p
      rw [mem_predict, ← hfol none]
      constructor
      · rintro (h | ⟨h, _⟩)
        · exact Or.inr ⟨hn', h⟩
        · exact absurd h heof
      · rintro (⟨t', _, e⟩ | ⟨_, h⟩)
        · cases e
        · exact Or.inl h
    | eps =>
      show _ ↔ False
      constructor
      · rintro (h | ⟨_, h⟩)
        · exact hnoeps h
        · exact h rfl
      · exact False.elim
  · have hn' : ¬ (G.firstOfString G.firstSets G.nullable p.2).2 = true := fun h => hn (hnul.mpr h)
    rw [if_neg hn]
    cases a with
    | ter t =>
      show _ ↔ some t ∈ G.predict p
      rw [mem_predict, hter]
      constructor
      · intro h; exact Or.inl ⟨t, h, rfl⟩
      · rintro (⟨t', h, e⟩ | ⟨h, _⟩)
        · cases e; exact h
        · exact absurd h hn'
    | eof =>
      show _ ↔ none ∈ G.predict p
      rw [mem_predict]
      constructor
      · intro h; exact absurd h heof
      · rintro (⟨t', _, e⟩ | ⟨h, _⟩)
        · cases e
        · exact absurd h hn'
    | eps =>
      show _ ↔ False
      constructor
      · intro h; exact hn' (heps h)
      · exact False.elim


/-! ### `is_llone_parsable` -/

theorem nodup_map_inj {α β : Type} (f : α → β) (hinj : ∀ a b, f a = f b → a = b) :
    ∀ l : List α, l.Nodup → (l.map f).Nodup := by
  intro l
  induction l with
  | nil => intro _; exact List.nodup_nil
  | cons x l ih =>
    intro h
    rw [List.nodup_cons] at h
    rw [List.map_cons, List.nodup_cons]
    refine ⟨?_, ih h.2⟩
    intro hm
    obtain ⟨y, hy, e⟩ := List.mem_map.mp hm
    rw [hinj _ _ e] at hy
    exact h.1 hy

theorem nodup_flatMap_tag {α β : Type} (f : α → List β) (tag : β → α) :
    ∀ l : List α, l.Nodup → (∀ x ∈ l, (f x).Nodup) → (∀ x ∈ l, ∀ y ∈ f x, tag y = x) →
      (l.flatMap f).Nodup := by
  intro l
  induction l with
  | nil => intro _ _ _; exact List.nodup_nil
  | cons x l ih =>
    intro h hf ht
    rw [List.nodup_cons] at h
    rw [List.flatMap_cons, List.nodup_append]
    refine ⟨hf x List.mem_cons_self,
      ih h.2 (fun y hy => hf y (List.mem_cons_of_mem _ hy))
        (fun y hy => ht y (List.mem_cons_of_mem _ hy)), ?_⟩
    intro a ha b hb hab
    obtain ⟨x', hx', hb'⟩ := List.mem_flatMap.mp hb
    have h1 := ht x List.mem_cons_self a ha
    have h2 := ht x' (List.mem_cons_of_mem _ hx') b hb'
    rw [hab, h2] at h1
    rw [h1] at hx'
    exact h.1 hx'

theorem tableOf_nodup (G : CFG) (hnd : G.prods.Nodup) (F : SetMap Sym Look)
    (Fo : SetMap (Option Sym) Look) (hFo : ∀ k, (getD Fo k).Nodup) : (tableOf G F Fo).Nodup := by
  unfold tableOf
  have hinj : ∀ (p : Pfl.Prod) (a b : Look), (p.1, a, p) = (p.1, b, p) → a = b := by
    intro p a b e
    simp only [Prod.mk.injEq, true_and, and_true] at e
    exact e
  rw [List.nodup_append]
  refine ⟨?_, ?_, ?_⟩
  · refine nodup_flatMap_tag _ (fun e => e.2.2) _ (hnd.filter _) ?_ ?_
    · intro p _
      exact nodup_map_inj _ (hinj p) _ (union_nodup _ _ (hFo _))
    · intro p _ y hy
      obtain ⟨a, _, rfl⟩ := List.mem_map.mp hy
      rfl
  · refine nodup_flatMap_tag _ (fun e => e.2.2) _ (hnd.filter _) ?_ ?_
    · intro p _
      exact nodup_map_inj _ (hinj p) _ (firstProd_nodup F p.2)
    · intro p _ y hy
      obtain ⟨a, _, rfl⟩ := List.mem_map.mp hy
      rfl
  · intro a ha b hb hab
    obtain ⟨p, hp, ha'⟩ := List.mem_flatMap.mp ha
    obtain ⟨q, hq, hb'⟩ := List.mem_flatMap.mp hb
    obtain ⟨x, _, rfl⟩ := List.mem_map.mp ha'
    obtain ⟨y, _, rfl⟩ := List.mem_map.mp hb'
    simp only [Prod.mk.injEq] at hab
    obtain ⟨_, _, rfl⟩ := hab
    have h1 := (List.mem_filter.mp hp).2
    have h2 := (List.mem_filter.mp hq).2
    rw [h1] at h2
    cases h2

/-- the LL(1) condition as a proposition -/
def LLP (G : CFG) : Prop :=
  ∀ p ∈ G.prods, ∀ q ∈ G.prods, p.1 = q.1 → ∀ x, x ∈ G.predict p → x ∈ G.predict q → p = q

theorem isLL1_iff (G : CFG) : G.isLL1 = true ↔ LLP G := by
  unfold isLL1 LLP
  simp only [List.all_eq_true, List.mem_eraseDups, Bool.or_eq_true, decide_eq_true_eq]
  constructor
  · intro h p hp q hq hpq x hx hx'
    rcases h p hp q hq with (h1 | h1) | h1
    · exact h1
    · exact absurd hpq (by simpa using h1)
    · exact absurd hx' (by simpa using h1 x hx)
  · intro h p hp q hq
    by_cases hpq : p = q
    · exact Or.inl (Or.inl hpq)
    · by_cases h1 : p.1 = q.1
      · right
        intro x hx
        have : x ∉ G.predict q := fun hx' => hpq (h p hp q hq h1 x hx hx')
        simpa using this
      · exact Or.inl (Or.inr (by simpa using h1))

theorem eq_of_length_le_one {α : Type} {l : List α} (h : l.length ≤ 1) {a b : α} (ha : a ∈ l)
    (hb : b ∈ l) : a = b := by
  match l, h with
  | [], _ => cases ha
  | [x], _ =>
    rw [List.mem_singleton] at ha hb
    rw [ha, hb]
  | _ :: _ :: _, h => simp at h

theorem length_le_one_of_all_eq {α : Type} {l : List α} (hnd : l.Nodup) (e : α)
    (h : ∀ y ∈ l, y = e) : l.length ≤ 1 := by
  match l, hnd, h with
  | [], _, _ => simp
  | [x], _, _ => simp
  | x :: y :: l, hnd, h =>
    have h1 := h x List.mem_cons_self
    have h2 := h y (List.mem_cons_of_mem _ List.mem_cons_self)
    rw [List.nodup_cons] at hnd
    exact absurd (by rw [h1, h2]; exact List.mem_cons_self) hnd.1

theorem llcheck_iff (G : CFG) (tb : List (String × Look × Pfl.Prod))
    (hspec : ∀ hd a p, (hd, a, p) ∈ tb ↔ p ∈ G.prods ∧ hd = p.1 ∧ PredictLook G p a)
    (hnd : tb.Nodup) :
    (tb.all fun e => decide ((tb.filter fun e' => e'.1 = e.1 ∧ e'.2.1 = e.2.1).length ≤ 1)) = true ↔
      LLP G := by
  simp only [List.all_eq_true, decide_eq_true_eq]
  constructor
  · intro h p hp q hq hpq x hx hx'
    have e1 : (p.1, lookOf x, p) ∈ tb :=
      (hspec _ _ _).mpr ⟨hp, rfl, (predictLook_lookOf G p x).mpr hx⟩
    have e2 : (q.1, lookOf x, q) ∈ tb :=
      (hspec _ _ _).mpr ⟨hq, rfl, (predictLook_lookOf G q x).mpr hx'⟩
    have hlen := h _ e1
    have m1 : (p.1, lookOf x, p) ∈ tb.filter
        (fun e' => decide (e'.1 = (p.1, lookOf x, p).1 ∧ e'.2.1 = (p.1, lookOf x, p).2.1)) :=
      List.mem_filter.mpr ⟨e1, by simp⟩
    have m2 : (q.1, lookOf x, q) ∈ tb.filter
        (fun e' => decide (e'.1 = (p.1, lookOf x, p).1 ∧ e'.2.1 = (p.1, lookOf x, p).2.1)) :=
      List.mem_filter.mpr ⟨e2, by simp [hpq]⟩
    have := eq_of_length_le_one hlen m1 m2
    simp only [Prod.mk.injEq] at this
    exact this.2.2
  · intro h e he
    refine length_le_one_of_all_eq (hnd.filter _) e ?_
    intro e' he'
    rw [List.mem_filter] at he'
    obtain ⟨he't, hsame⟩ := he'
    simp only [decide_eq_true_eq] at hsame
    obtain ⟨hd, a, p⟩ := e
    obtain ⟨hd', a', p'⟩ := e'
    simp only at hsame
    obtain ⟨rfl, rfl⟩ := hsame
    obtain ⟨hp, h1, hpl⟩ := (hspec _ _ _).mp he
    obtain ⟨hp', h1', hpl'⟩ := (hspec _ _ _).mp he't
    obtain ⟨x, rfl, hx⟩ := (predictLook_iff G p _).mp hpl
    have hx' := (predictLook_lookOf G p' x).mp hpl'
    have : p' = p := h p' hp' p hp (by rw [← h1', ← h1]) x hx' hx
    rw [this]


theorem isLLOne_iff' (G : CFG) (hg : ∀ p ∈ G.prods, ∀ s ∈ p.2, ∃ w, G.Gen s w) (hG : G.WF)
    (hnd : G.prods.Nodup) (fuel : Nat) (b : Bool) (h : isLLOne G fuel = some b) : b = G.isLL1 := by
  unfold isLLOne at h
  obtain ⟨tb, htb, rfl⟩ := Option.map_eq_some_iff.mp h
  obtain ⟨F, Fo, hF, hFo, rfl⟩ := table_eq G fuel tb htb
  obtain ⟨_, _, _, hI⟩ := followSet_winv G hg hG fuel Fo hFo
  rw [Bool.eq_iff_iff, isLL1_iff]
  exact llcheck_iff G _ (fun hd a p => tableOf_spec G hg hG fuel F Fo hF hFo hd a p)
    (tableOf_nodup G hnd F Fo hI.nodup)

end Lem
end LL1Lib
end Pfl
