/-
Completeness of the operations of the Earley model on the tables: `scanner`, `completer`,
`predictor` produce covering states for the conclusions of the deduction rules.
-/
import Pfl.Proofs.EarleyCompleteAdvance
namespace Pfl
namespace Earley
namespace Cmp
open FsDag FsDag.Lem Lem

theorem Base.withProc {C : Ctx} {T : Tables} {rk : Nat → Nat} {X : List (Nat × EState)}
    (h : Base C T rk X) (j : Nat) :
    Base C T rk (X ++ (procStates T j).map fun nx => (j, nx)) := by
  refine ⟨h.inv.withProc j, h.sx, h.nv, h.objs, h.opth, h.pthc, h.pthp, ?_, h.keys, h.lenc, h.lenp⟩
  intro e he
  rcases List.mem_append.1 he with he | he
  · exact h.pthx e he
  · rw [List.mem_map] at he
    obtain ⟨nx, hnx, rfl⟩ := he
    exact h.pthp _ _ hnx

theorem Base.weaken {C : Ctx} {T : Tables} {rk : Nat → Nat} {X X' : List (Nat × EState)}
    (h : Base C T rk X) (hsub : ∀ e ∈ X', e ∈ X) : Base C T rk X' :=
  ⟨h.inv.weaken hsub, h.sx, h.nv, h.objs, h.opth, h.pthc, h.pthp,
    fun e he => h.pthx e (hsub e he), h.keys, h.lenc, h.lenp⟩

/-- a fold of table operations each of which keeps the invariant, only extends the tables and
establishes a claim that later extensions keep -/
theorem fold_ops {C : Ctx} {α : Type} {X : List (Nat × EState)} {lo : Nat}
    (step : Tables → α → Tables) (Claim : α → Tables → Prop)
    (hmono : ∀ a T1 T2 rk1, Base C T1 rk1 X → TLe lo T1 T2 → Claim a T1 → Claim a T2) :
    ∀ (l : List α) (T : Tables) (rk : Nat → Nat), Base C T rk X →
      (∀ T' rk' a, a ∈ l → Base C T' rk' X → TLe lo T T' →
        ∃ rk'', Base C (step T' a) rk'' X ∧ TLe lo T' (step T' a) ∧ Claim a (step T' a)) →
      ∃ rk'', Base C (l.foldl step T) rk'' X ∧ TLe lo T (l.foldl step T) ∧
        ∀ a ∈ l, Claim a (l.foldl step T) := by
  intro l
  induction l with
  | nil => intro T rk hB _; exact ⟨rk, hB, TLe.refl _ _, fun a ha => by simp at ha⟩
  | cons a l ih =>
    intro T rk hB hstep
    rw [List.foldl_cons]
    obtain ⟨rk1, hB1, hle1, hc1⟩ := hstep T rk a (List.mem_cons_self ..) hB (TLe.refl _ _)
    obtain ⟨rk2, hB2, hle2, hc2⟩ := ih (step T a) rk1 hB1 (fun T' rk' a' ha' hB' hle' =>
      hstep T' rk' a' (List.mem_cons_of_mem _ ha') hB' (hle1.trans hle'))
    refine ⟨rk2, hB2, hle1.trans hle2, ?_⟩
    intro a' ha'
    rcases List.mem_cons.1 ha' with rfl | h
    · exact hmono _ _ _ rk1 hB1 hle2 hc1
    · exact hc2 a' h

/-! ### scanner -/

theorem scanner_spec {C : Ctx} (hC : CtxOK C) {d : String} (hd : C.P d) {T : Tables}
    {rk : Nat → Nat} {X : List (Nat × EState)} (hB : Base C T rk X) {i : Nat} {s : EState}
    (hs : StOK C T.store rk i s) (hp : HasPaths C T.store s.fs s.prod) {t : String}
    (hn : nextSym C.G s = some (.ter t)) (hw : C.word[i]? = some t) :
    Base C (scanner C.G T s) rk X ∧ TLe i T (scanner C.G T s) ∧
      ∀ env, Cov C T.store s.fs s.prod env →
        CovT C (scanner C.G T s) ⟨s.prod, env, s.b, i + 1, s.dot + 1⟩ := by
  have hilt : i < C.word.length := by
    by_contra hc; rw [List.getElem?_eq_none (by omega)] at hw; simp at hw
  have hse : s.e = i := hs.e_eq
  have hok : StOK C T.store rk (s.e + 1) { s with e := s.e + 1, dot := s.dot + 1 } := by
    refine ⟨rfl, Nat.le_succ_of_le hs.ble, hs.fs_lt, hs.rk2, hs.prod_le, ?_⟩
    intro pr hpr
    obtain ⟨hd', hg⟩ := hs.good pr hpr
    obtain ⟨_, hb, _⟩ := prodOf_spec hC hpr
    unfold nextSym at hn
    rw [hb, List.getElem?_map] at hn
    simp only [Option.map_eq_some_iff] at hn
    obtain ⟨it, hit, hit1⟩ := hn
    have hlt : s.dot < pr.2.length := (List.getElem?_eq_some_iff.1 hit).1
    refine ⟨hlt, fun σ hσ => ?_⟩
    obtain ⟨env, he, ho, hgl⟩ := hg σ hσ
    refine ⟨env, he, ho, ?_⟩
    show C.tgt.GenList ((ibody C.vf env pr.2).take (s.dot + 1)) (seg C.word s.b (s.e + 1))
    rw [ibody_take_succ C.vf env pr.2 s.dot it hit, hit1]
    have hwe : C.word[s.e]? = some t := by rw [hs.e_eq]; exact hw
    rw [← seg_succ C.word hs.ble hwe]
    exact CFG.genList_append hgl (CFG.GenList.cons (.ter t) .nil)
  unfold Pfl.Earley.scanner
  rw [hse] at hok ⊢
  refine ⟨pushIfNew_base hB hok hp, (pushIfNew_tle C.G T (i + 1) _ (by rw [hB.lenc]; omega)).mono
    (Nat.le_succ i), ?_⟩
  intro env hcov
  exact pushIfNew_cov hB hd (i := i + 1) (s := { s with e := i + 1, dot := s.dot + 1 })
    (by rw [hB.lenp]; omega) env hcov

/-! ### completer -/

theorem completer_spec {C : Ctx} (hC : CtxOK C) {d : String} (hd : C.P d) {T : Tables}
    {rk : Nat → Nat} {X : List (Nat × EState)} (hB : Base C T rk X) {i : Nat} {c : EState}
    (hs : (i, c) ∈ X) (hi : i < C.word.length + 1) (hcomp : incomplete C.G c = false) :
    ∃ rk', Base C (completer C.G T c) rk' X ∧ TLe c.e T (completer C.G T c) ∧
      ∀ nx ∈ procStates T c.b, incomplete C.G nx = true →
        nextSym C.G nx = some (.var (prodOf C.G c.prod).head) →
        ∀ env env', Cov C T.store nx.fs nx.prod env → Cov C T.store c.fs c.prod env' →
          Agree C nx.prod nx.dot env c.prod env' →
          CovT C (completer C.G T c) ⟨nx.prod, env, nx.b, c.e, nx.dot + 1⟩ := by
  unfold Pfl.Earley.completer
  simp only
  have hBX := hB.withProc c.b
  have hcfs := (hB.inv.extra _ hs).fs_lt
  obtain ⟨rk', hB', hle, hcl⟩ := fold_ops (C := C) (lo := c.e)
    (X := X ++ (procStates T c.b).map fun nx => (c.b, nx))
    (fun T nx => if incomplete C.G nx ∧ nextSym C.G nx = some (.var (prodOf C.G c.prod).head) then
      Pfl.Earley.advance C.G T nx c else T)
    (fun nx T' => nx ∈ procStates T c.b → incomplete C.G nx = true →
        nextSym C.G nx = some (.var (prodOf C.G c.prod).head) →
        ∀ env env', Cov C T.store nx.fs nx.prod env → Cov C T.store c.fs c.prod env' →
          Agree C nx.prod nx.dot env c.prod env' →
          CovT C T' ⟨nx.prod, env, nx.b, c.e, nx.dot + 1⟩)
    (fun nx T1 T2 rk1 hB1 hle12 hcl h1 h2 h3 env env' h4 h5 h6 =>
      (hcl h1 h2 h3 env env' h4 h5 h6).mono hB1 hle12 hd)
    (procStates T c.b) T rk hBX
    (by
      intro T' rk' nx hnx hB' hle'
      split
      · rename_i hcond
        obtain ⟨rk'', hB'', hpost⟩ := advance_spec hC hd hB' (i := i) (c := c) (nx := nx)
          (List.mem_append_left _ hs)
          (List.mem_append_right _ (List.mem_map.2 ⟨nx, hnx, rfl⟩)) hi hcomp hcond.1 hcond.2
        refine ⟨rk'', hB'', hpost.tle, ?_⟩
        intro h1 _ _ env env' h4 h5 h6
        exact hpost.cov env env'
          (h4.fwd hle'.fr hB.inv.wf hd (hB.inv.proc _ _ h1).fs_lt)
          (h5.fwd hle'.fr hB.inv.wf hd hcfs) h6
      · rename_i hcond
        refine ⟨rk', hB', TLe.refl _ _, ?_⟩
        intro _ h2 h3
        exact absurd ⟨h2, h3⟩ hcond)
  refine ⟨rk', hB'.weaken (fun e he => List.mem_append_left _ he), hle, ?_⟩
  intro nx hnx h2 h3 env env' h4 h5 h6
  exact hcl nx hnx hnx h2 h3 env env' h4 h5 h6

/-! ### predictor -/

theorem predicted_ok {C : Ctx} (hC : CtxOK C) {T : Tables} {rk : Nat → Nat}
    {X : List (Nat × EState)} (hT : Lem.Inv C T rk X) {k : Nat} {p : FProd}
    (hpk : C.G.prods[k]? = some p) (e : Nat) :
    StOK C T.store rk e { prod := k, b := e, e := e, dot := 0, fs := p.feats } := by
  obtain ⟨h1, h2, h3⟩ := hT.objs k p hpk
  have hlt : k < C.spec.length := by
    rw [← hC.prods_len]
    exact (List.getElem?_eq_some_iff.1 hpk).1
  refine ⟨rfl, Nat.le_refl _, h1, h2, Nat.le_of_lt hlt, ?_⟩
  intro pr hpr
  refine ⟨Nat.zero_le _, fun σ hσ => ?_⟩
  obtain ⟨env, he, ho⟩ := h3 pr hpr σ hσ
  refine ⟨env, he, ho, ?_⟩
  simp only [List.take_zero, seg_self]
  exact .nil

theorem mem_zip_range' {α : Type} {l : List α} {a : α} {k : Nat} (h : l[k]? = some a) :
    (a, k) ∈ l.zip (List.range l.length) := by
  have hk : k < l.length := (List.getElem?_eq_some_iff.1 h).1
  rw [List.mem_iff_getElem?]
  refine ⟨k, ?_⟩
  rw [List.getElem?_zip_eq_some]
  exact ⟨h, by rw [List.getElem?_range hk]⟩

theorem predictor_spec {C : Ctx} (hC : CtxOK C) {d : String} (hd : C.P d) {T : Tables}
    {rk : Nat → Nat} {X : List (Nat × EState)} (hB : Base C T rk X) {s : EState}
    (hs : (s.e, s) ∈ X) (hse : s.e < C.word.length + 1) (hinc : incomplete C.G s = true)
    {v : String} (hnext : nextSym C.G s = some (.var v)) :
    ∃ rk', Base C (predictor C.G T s) rk' X ∧ TLe s.e T (predictor C.G T s) ∧
      (∀ k p pr env, C.G.prods[k]? = some p → p.head = v → C.spec[k]? = some pr →
        C.okEnv k env → CovT C (predictor C.G T s) ⟨k, env, s.e, s.e, 0⟩) ∧
      (∀ c ∈ procStates T s.e, incomplete C.G c = false → c.b = s.e →
        (prodOf C.G c.prod).head = v →
        ∀ env env', Cov C T.store s.fs s.prod env → Cov C T.store c.fs c.prod env' →
          Agree C s.prod s.dot env c.prod env' →
          CovT C (predictor C.G T s) ⟨s.prod, env, s.b, c.e, s.dot + 1⟩) := by
  unfold Pfl.Earley.predictor
  rw [hnext]
  simp only
  have hsfs := (hB.inv.extra _ hs).fs_lt
  -- first phase
  obtain ⟨rk1, hB1, hle1, hcl1⟩ := fold_ops (C := C) (lo := s.e) (X := X)
    (fun T (pk : FProd × Nat) => if pk.1.head = v then
      Pfl.Earley.pushIfNew C.G T s.e { prod := pk.2, b := s.e, e := s.e, dot := 0, fs := pk.1.feats }
      else T)
    (fun pk T' => pk.1.head = v → ∀ pr env, C.spec[pk.2]? = some pr → C.okEnv pk.2 env →
      CovT C T' ⟨pk.2, env, s.e, s.e, 0⟩)
    (fun pk T1 T2 rk1 hB1 hle12 hcl h1 pr env h2 h3 => (hcl h1 pr env h2 h3).mono hB1 hle12 hd)
    (C.G.prods.zip (List.range C.G.prods.length)) T rk hB
    (by
      intro T' rk' pk hpk hB' _
      have hget := mem_zip_range hpk
      split
      · refine ⟨rk', pushIfNew_base hB' (predicted_ok hC hB'.inv hget s.e) (hB'.opth _ _ hget),
          pushIfNew_tle C.G T' s.e _ (by rw [hB'.lenc]; exact hse), ?_⟩
        intro _ pr env h2 h3
        exact pushIfNew_cov hB' hd (i := s.e)
          (s := { prod := pk.2, b := s.e, e := s.e, dot := 0, fs := pk.1.feats })
          (by rw [hB'.lenp]; exact hse) env (hB'.objs _ _ pr env hget h2 h3)
      · rename_i hne
        exact ⟨rk', hB', TLe.refl _ _, fun h => absurd h hne⟩)
  generalize (List.foldl (fun T (pk : FProd × Nat) => if pk.1.head = v then
      Pfl.Earley.pushIfNew C.G T s.e { prod := pk.2, b := s.e, e := s.e, dot := 0, fs := pk.1.feats }
      else T) T (C.G.prods.zip (List.range C.G.prods.length))) = T1 at *
  -- second phase
  have hBX := hB1.withProc s.e
  obtain ⟨rk2, hB2, hle2, hcl2⟩ := fold_ops (C := C) (lo := s.e)
    (X := X ++ (procStates T1 s.e).map fun nx => (s.e, nx))
    (fun T c => if !(incomplete C.G c) ∧ c.b = s.e ∧ (prodOf C.G c.prod).head = v then
      Pfl.Earley.advance C.G T s c else T)
    (fun c T' => c ∈ procStates T s.e → incomplete C.G c = false → c.b = s.e →
        (prodOf C.G c.prod).head = v →
        ∀ env env', Cov C T.store s.fs s.prod env → Cov C T.store c.fs c.prod env' →
          Agree C s.prod s.dot env c.prod env' →
          CovT C T' ⟨s.prod, env, s.b, c.e, s.dot + 1⟩)
    (fun c Ta Tb rka hBa hleab hcl h1 h2 h3 h4 env env' h5 h6 h7 =>
      (hcl h1 h2 h3 h4 env env' h5 h6 h7).mono hBa hleab hd)
    (procStates T1 s.e) T1 rk1 hBX
    (by
      intro T' rk' c hc hB' hle'
      have hcX : (s.e, c) ∈ X ++ (procStates T1 s.e).map fun nx => (s.e, nx) :=
        List.mem_append_right _ (List.mem_map.2 ⟨c, hc, rfl⟩)
      have hce : c.e = s.e := (hB'.inv.extra _ hcX).e_eq
      split
      · rename_i hcond
        obtain ⟨hc1, hc2, hc3⟩ := hcond
        obtain ⟨rk'', hB'', hpost⟩ := advance_spec hC hd hB' (i := s.e) (c := c) (nx := s) hcX
          (by rw [hc2]; exact List.mem_append_left _ hs) hse (by simpa using hc1) hinc
          (by rw [hc3]; exact hnext)
        refine ⟨rk'', hB'', by rw [← hce]; exact hpost.tle, ?_⟩
        intro h1 _ _ _ env env' h5 h6 h7
        have hle0 := hle1.trans hle'
        exact hpost.cov env env'
          (h5.fwd hle0.fr hB.inv.wf hd hsfs)
          (h6.fwd hle0.fr hB.inv.wf hd (hB.inv.proc _ _ h1).fs_lt) h7
      · rename_i hcond
        refine ⟨rk', hB', TLe.refl _ _, ?_⟩
        intro _ h2 h3 h4
        exact absurd ⟨by simp [h2], h3, h4⟩ hcond)
  refine ⟨rk2, hB2.weaken (fun e he => List.mem_append_left _ he), hle1.trans hle2, ?_, ?_⟩
  · intro k p pr env hp hh hpr he
    have := hcl1 (p, k) (mem_zip_range' hp) hh pr env hpr he
    exact this.mono hB1 hle2 hd
  · intro c hc h2 h3 h4 env env' h5 h6 h7
    exact hcl2 c (hle1.proc _ _ hc) hc h2 h3 h4 env env' h5 h6 h7

end Cmp
end Earley
end Pfl
