/-
Helper lemmas for C07 (the reference desugaring of the Python regex subset).
-/
import Pfl.Model.PyRegex
import Pfl.Spec.Regex
import Pfl.Props.C05_Regex
namespace Pfl
namespace PyRx
namespace Lem

open Rx

/-- words of single characters (same as `PyRx.word`) -/
abbrev wd (w : List Char) : List String := w.map String.singleton

/-! ### words -/

theorem wd_inj {u v : List Char} (h : wd u = wd v) : u = v :=
  (List.map_inj_right (fun _ _ h => String.singleton_inj.mp h)).mp h

theorem wd_eq_single {w : List Char} {c : Char} : wd w = [String.singleton c] ↔ w = [c] := by
  constructor
  · intro h
    have : wd w = wd [c] := h
    exact wd_inj this
  · rintro rfl; rfl

theorem wd_eq_nil {w : List Char} : wd w = [] ↔ w = [] := by
  simp [wd]

/-- a split of a word of characters comes from a split of the characters -/
theorem wd_eq_append {w : List Char} {xs ys : List String} :
    wd w = xs ++ ys ↔ ∃ u v, w = u ++ v ∧ xs = wd u ∧ ys = wd v := by
  constructor
  · intro h
    obtain ⟨u, v, rfl, hu, hv⟩ := List.map_eq_append_iff.mp h
    exact ⟨u, v, rfl, hu.symm, hv.symm⟩
  · rintro ⟨u, v, rfl, rfl, rfl⟩; simp [wd]

/-- a decomposition of a word of characters into blocks comes from a decomposition of the
characters -/
theorem wd_eq_flatten {ls : List (List String)} {w : List Char} (h : wd w = ls.flatten) :
    ∃ l : List (List Char), w = l.flatten ∧ ls = l.map wd := by
  induction ls generalizing w with
  | nil =>
    refine ⟨[], ?_, rfl⟩
    simpa [wd] using h
  | cons x ls ih =>
    rw [List.flatten_cons] at h
    obtain ⟨u, v, rfl, rfl, hv⟩ := wd_eq_append.mp h
    obtain ⟨l, rfl, rfl⟩ := ih hv.symm
    exact ⟨u :: l, by simp, by simp⟩

theorem wd_flatten (l : List (List Char)) : wd l.flatten = (l.map wd).flatten := by
  simp [wd, List.map_flatten]

/-- a concatenation of words of characters is a word of characters -/
theorem flatten_is_wd {ls : List (List String)} (h : ∀ x ∈ ls, ∃ w, x = wd w) :
    ∃ w, ls.flatten = wd w := by
  induction ls with
  | nil => exact ⟨[], rfl⟩
  | cons x ls ih =>
    obtain ⟨u, rfl⟩ := h x (by simp)
    obtain ⟨v, hv⟩ := ih (fun y hy => h y (by simp [hy]))
    exact ⟨u ++ v, by simp [hv, wd]⟩

/-! ### basic inversions -/

theorem empty_denote (ws : List String) : ¬ Denote .empty ws := by
  intro h; cases h

theorem eps_denote (ws : List String) : Denote .eps ws ↔ ws = [] := by
  constructor
  · intro h; cases h; rfl
  · rintro rfl; exact Denote.eps

theorem sym_denote (s : String) (ws : List String) : Denote (.sym s) ws ↔ ws = [s] := by
  constructor
  · intro h; cases h; rfl
  · rintro rfl; exact Denote.sym s

theorem fold_denote (cs : List Char) (r0 : Rx) (ws : List String) :
    Denote (cs.foldl (fun r d => .alt r (sym d)) r0) ws ↔
      Denote r0 ws ∨ ∃ c ∈ cs, ws = [String.singleton c] := by
  induction cs generalizing r0 with
  | nil => simp
  | cons d cs ih =>
    rw [List.foldl_cons, ih, alt_denote, sym, sym_denote]
    constructor
    · rintro ((h | h) | ⟨c, hc, h⟩)
      · exact Or.inl h
      · exact Or.inr ⟨d, by simp, h⟩
      · exact Or.inr ⟨c, by simp [hc], h⟩
    · rintro (h | ⟨c, hc, h⟩)
      · exact Or.inl (Or.inl h)
      · rcases List.mem_cons.mp hc with rfl | hc
        · exact Or.inl (Or.inr h)
        · exact Or.inr ⟨c, hc, h⟩

/-- `anyOf cs` denotes exactly the one-letter words over `cs` -/
theorem anyOf_denote (cs : List Char) (ws : List String) :
    Denote (anyOf cs) ws ↔ ∃ c ∈ cs, ws = [String.singleton c] := by
  cases cs with
  | nil => simp [anyOf, empty_denote]
  | cons c cs =>
    rw [anyOf, fold_denote, sym, sym_denote]
    constructor
    · rintro (h | ⟨d, hd, h⟩)
      · exact ⟨c, by simp, h⟩
      · exact ⟨d, by simp [hd], h⟩
    · rintro ⟨d, hd, h⟩
      rcases List.mem_cons.mp hd with rfl | hd
      · exact Or.inl h
      · exact Or.inr ⟨d, hd, h⟩

theorem anyOf_denote_wd (cs : List Char) (w : List Char) :
    Denote (anyOf cs) (wd w) ↔ ∃ c ∈ cs, w = [c] := by
  rw [anyOf_denote]
  constructor
  · rintro ⟨c, hc, h⟩; exact ⟨c, hc, wd_eq_single.mp h⟩
  · rintro ⟨c, hc, h⟩; exact ⟨c, hc, wd_eq_single.mpr h⟩

theorem mem_setChars (U : List Char) (neg : Bool) (items : List Item) (c : Char) :
    c ∈ setChars U neg items ↔
      (neg = true ∧ c ∈ U ∧ c ∉ members items) ∨ (neg = false ∧ c ∈ members items) := by
  cases neg <;> simp [setChars, List.mem_eraseDups, List.mem_filter]

/-! ### bounded repetition on the regex side -/

theorem copies_denote (r : Rx) (m : Nat) (ws : List String) :
    Denote (copies r m) ws ↔
      ∃ l : List (List String), ws = l.flatten ∧ l.length = m ∧ ∀ x ∈ l, Denote r x := by
  induction m generalizing ws with
  | zero =>
    rw [copies, eps_denote]
    constructor
    · rintro rfl; exact ⟨[], rfl, rfl, by simp⟩
    · rintro ⟨l, rfl, hl, -⟩
      rw [List.length_eq_zero_iff.mp hl]; rfl
  | succ m ih =>
    rw [copies, cat_denote]
    constructor
    · rintro ⟨u, v, rfl, hu, hv⟩
      obtain ⟨l, rfl, hl, hall⟩ := (ih v).mp hv
      refine ⟨u :: l, by simp, by simp [hl], ?_⟩
      intro x hx
      rcases List.mem_cons.mp hx with rfl | hx
      · exact hu
      · exact hall x hx
    · rintro ⟨l, rfl, hl, hall⟩
      cases l with
      | nil => simp at hl
      | cons x l =>
        refine ⟨x, l.flatten, by simp, hall x (by simp), (ih _).mpr ⟨l, rfl, ?_, ?_⟩⟩
        · simpa using hl
        · exact fun y hy => hall y (by simp [hy])

theorem optCopies_nil (r : Rx) (k : Nat) : Denote (optCopies r k) [] := by
  induction k with
  | zero => exact Denote.eps
  | succ k ih =>
    rw [optCopies]
    exact Denote.cat (u := []) (v := []) (Denote.altR Denote.eps) ih

theorem optCopies_denote (r : Rx) (k : Nat) (ws : List String) :
    Denote (optCopies r k) ws ↔
      ∃ l : List (List String), ws = l.flatten ∧ l.length ≤ k ∧ ∀ x ∈ l, Denote r x := by
  induction k generalizing ws with
  | zero =>
    rw [optCopies, eps_denote]
    constructor
    · rintro rfl; exact ⟨[], rfl, by simp, by simp⟩
    · rintro ⟨l, rfl, hl, -⟩
      rw [List.length_eq_zero_iff.mp (Nat.le_zero.mp hl)]; rfl
  | succ k ih =>
    rw [optCopies, cat_denote]
    constructor
    · rintro ⟨u, v, rfl, hu, hv⟩
      obtain ⟨l, rfl, hl, hall⟩ := (ih v).mp hv
      rcases (alt_denote _ _ _).mp hu with hu | hu
      · refine ⟨u :: l, by simp, by simp [hl], ?_⟩
        intro x hx
        rcases List.mem_cons.mp hx with rfl | hx
        · exact hu
        · exact hall x hx
      · rw [(eps_denote _).mp hu]
        exact ⟨l, by simp, by omega, hall⟩
    · rintro ⟨l, rfl, hl, hall⟩
      cases l with
      | nil => exact ⟨[], [], rfl, Denote.altR Denote.eps, optCopies_nil r k⟩
      | cons x l =>
        refine ⟨x, l.flatten, by simp, Denote.altL (hall x (by simp)),
          (ih _).mpr ⟨l, rfl, ?_, ?_⟩⟩
        · simpa using hl
        · exact fun y hy => hall y (by simp [hy])

/-- `m` copies followed by `k` optional copies: between `m` and `m + k` copies -/
theorem repRx_denote (r : Rx) (m k : Nat) (ws : List String) :
    Denote (.cat (copies r m) (optCopies r k)) ws ↔
      ∃ l : List (List String), ws = l.flatten ∧ m ≤ l.length ∧ l.length ≤ m + k ∧
        ∀ x ∈ l, Denote r x := by
  rw [cat_denote]
  constructor
  · rintro ⟨u, v, rfl, hu, hv⟩
    obtain ⟨l1, rfl, h1, hall1⟩ := (copies_denote _ _ _).mp hu
    obtain ⟨l2, rfl, h2, hall2⟩ := (optCopies_denote _ _ _).mp hv
    refine ⟨l1 ++ l2, by simp, by simp; omega, by simp; omega, ?_⟩
    intro x hx
    rcases List.mem_append.mp hx with hx | hx
    · exact hall1 x hx
    · exact hall2 x hx
  · rintro ⟨l, rfl, h1, h2, hall⟩
    refine ⟨(l.take m).flatten, (l.drop m).flatten, ?_, ?_, ?_⟩
    · rw [← List.flatten_append, List.take_append_drop]
    · exact (copies_denote _ _ _).mpr ⟨l.take m, rfl, by simp; omega,
        fun x hx => hall x (List.mem_of_mem_take hx)⟩
    · exact (optCopies_denote _ _ _).mpr ⟨l.drop m, rfl, by simp; omega,
        fun x hx => hall x (List.mem_of_mem_drop hx)⟩

/-! ### the pattern side -/

theorem star_iff (U : List Char) (a : P) (w : List Char) :
    Matches U (.star a) w ↔ ∃ l : List (List Char), w = l.flatten ∧ ∀ x ∈ l, Matches U a x := by
  constructor
  · intro h
    generalize hp : P.star a = p at h
    induction h with
    | starNil => exact ⟨[], rfl, by simp⟩
    | @starCons a' u v hu _ _ ih =>
      cases hp
      obtain ⟨l, rfl, hall⟩ := ih rfl
      refine ⟨u :: l, by simp, ?_⟩
      intro x hx
      rcases List.mem_cons.mp hx with rfl | hx
      · exact hu
      · exact hall x hx
    | _ => cases hp
  · rintro ⟨l, rfl, hall⟩
    induction l with
    | nil => exact Matches.starNil
    | cons x l ih =>
      rw [List.flatten_cons]
      exact Matches.starCons (hall x (by simp)) (ih (fun y hy => hall y (by simp [hy])))

theorem rep_iff (U : List Char) (a : P) (m n : Nat) (w : List Char) :
    Matches U (.rep a m n) w ↔
      ∃ ws : List (List Char), w = ws.flatten ∧ m ≤ ws.length ∧ ws.length ≤ n ∧
        ∀ x ∈ ws, Matches U a x := by
  induction n generalizing m w with
  | zero =>
    constructor
    · intro h
      cases h
      exact ⟨[], rfl, by simp, by simp, by simp⟩
    · rintro ⟨ws, rfl, h1, h2, -⟩
      have : ws = [] := List.length_eq_zero_iff.mp (Nat.le_zero.mp h2)
      subst this
      have : m = 0 := by simpa using h1
      subst this
      exact Matches.repNil
  | succ n ih =>
    constructor
    · intro h
      cases h with
      | repNil => exact ⟨[], rfl, by simp, by simp, by simp⟩
      | @repCons _ _ _ u v hu hv =>
        obtain ⟨ws, rfl, h1, h2, hall⟩ := (ih _ _).mp hv
        refine ⟨u :: ws, by simp, by simp; omega, by simp; omega, ?_⟩
        intro x hx
        rcases List.mem_cons.mp hx with rfl | hx
        · exact hu
        · exact hall x hx
    · rintro ⟨ws, rfl, h1, h2, hall⟩
      cases ws with
      | nil =>
        have : m = 0 := by simpa using h1
        subst this
        exact Matches.repNil
      | cons x ws =>
        rw [List.flatten_cons]
        refine Matches.repCons (hall x (by simp)) ((ih _ _).mpr ⟨ws, rfl, ?_, ?_, ?_⟩)
        · simp at h1; omega
        · simpa using h2
        · exact fun y hy => hall y (by simp [hy])

/-- transfer of block decompositions between the two sides -/
theorem blocks_transfer {r : Rx} {A : List Char → Prop} (C : Nat → Prop)
    (ih : ∀ w, Denote r (wd w) ↔ A w) (w : List Char) :
    (∃ ls : List (List String), wd w = ls.flatten ∧ C ls.length ∧ ∀ x ∈ ls, Denote r x) ↔
      ∃ l : List (List Char), w = l.flatten ∧ C l.length ∧ ∀ x ∈ l, A x := by
  constructor
  · rintro ⟨ls, h, hC, hall⟩
    obtain ⟨l, rfl, rfl⟩ := wd_eq_flatten h
    refine ⟨l, rfl, by simpa using hC, ?_⟩
    intro x hx
    exact (ih x).mp (hall _ (List.mem_map_of_mem hx))
  · rintro ⟨l, rfl, hC, hall⟩
    refine ⟨l.map wd, wd_flatten l, by simpa using hC, ?_⟩
    intro x hx
    obtain ⟨y, hy, rfl⟩ := List.mem_map.mp hx
    exact (ih y).mpr (hall y hy)

end Lem
end PyRx
end Pfl
