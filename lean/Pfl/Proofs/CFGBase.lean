/-
Base lemmas about derivations, shared by all CFG proofs: composition of derivations and the
tree-style characterisation `Gen` of "symbol `s` generates the terminal word `w`".
-/
import Pfl.Spec.CFG
namespace Pfl
namespace CFG

mutual
/-- `Gen G s w`: there is a parse tree with root `s` and yield `w` -/
inductive Gen (G : CFG) : Sym → List String → Prop
  | ter (t : String) : Gen G (.ter t) [t]
  | var {h : String} {body : List Sym} {w : List String} :
      (h, body) ∈ G.prods → GenList G body w → Gen G (.var h) w
/-- `GenList G u w`: the symbols of `u` generate consecutive pieces of `w` -/
inductive GenList (G : CFG) : List Sym → List String → Prop
  | nil : GenList G [] []
  | cons {s : Sym} {u : List Sym} {w₁ w₂ : List String} :
      Gen G s w₁ → GenList G u w₂ → GenList G (s :: u) (w₁ ++ w₂)
end

theorem Derives.trans {G : CFG} {u v w : List Sym} (h₁ : G.Derives u v) (h₂ : G.Derives v w) :
    G.Derives u w := by
  induction h₁ with
  | refl _ => exact h₂
  | step hp _ ih => exact .step hp (ih h₂)

/-- derivations can be done inside a context -/
theorem Derives.context {G : CFG} {u v : List Sym} (x y : List Sym) (h : G.Derives u v) :
    G.Derives (x ++ u ++ y) (x ++ v ++ y) := by
  induction h with
  | refl _ => exact .refl _
  | @step u v body w h hp _ ih =>
    have e1 : x ++ (u ++ [Sym.var h] ++ v) ++ y = (x ++ u) ++ [Sym.var h] ++ (v ++ y) := by
      simp only [List.append_assoc]
    have e2 : x ++ (u ++ body ++ v) ++ y = (x ++ u) ++ body ++ (v ++ y) := by
      simp only [List.append_assoc]
    rw [e1]
    rw [e2] at ih
    exact .step hp ih

theorem Derives.append {G : CFG} {u u' v v' : List Sym} (h₁ : G.Derives u u') (h₂ : G.Derives v v') :
    G.Derives (u ++ v) (u' ++ v') := by
  have a := Derives.context [] v h₁
  have b := Derives.context u' [] h₂
  simp only [List.nil_append, List.append_nil] at a b
  exact a.trans b

/-- a single production application -/
theorem Derives.prod {G : CFG} {h : String} {body : List Sym} (hp : (h, body) ∈ G.prods) :
    G.Derives [.var h] body := by
  have := Derives.step (u := []) (v := []) hp (.refl _)
  simpa using this

theorem genList_append {G : CFG} {u v : List Sym} {w₁ w₂ : List String}
    (h₁ : G.GenList u w₁) (h₂ : G.GenList v w₂) : G.GenList (u ++ v) (w₁ ++ w₂) := by
  induction u generalizing w₁ with
  | nil => cases h₁; simpa using h₂
  | cons s u ih =>
    cases h₁ with
    | cons hs hu =>
      rw [List.cons_append, List.append_assoc]
      exact .cons hs (ih hu)

theorem genList_append_iff (G : CFG) (u v : List Sym) (w : List String) :
    G.GenList (u ++ v) w ↔ ∃ w₁ w₂, w = w₁ ++ w₂ ∧ G.GenList u w₁ ∧ G.GenList v w₂ := by
  constructor
  · intro h
    induction u generalizing w with
    | nil => exact ⟨[], w, rfl, .nil, by simpa using h⟩
    | cons s u ih =>
      rw [List.cons_append] at h
      cases h with
      | @cons _ _ a b hs hu =>
        obtain ⟨w₁, w₂, rfl, h1, h2⟩ := ih _ hu
        exact ⟨a ++ w₁, w₂, by simp, .cons hs h1, h2⟩
  · rintro ⟨w₁, w₂, rfl, h1, h2⟩
    exact genList_append h1 h2

theorem genList_singleton {G : CFG} {s : Sym} {w : List String} :
    G.GenList [s] w ↔ G.Gen s w := by
  constructor
  · intro h
    cases h with
    | cons hs hu => cases hu; simpa using hs
  · intro h
    have := GenList.cons h .nil
    simpa using this

theorem genList_cons_iff {G : CFG} {s : Sym} {u : List Sym} {w : List String} :
    G.GenList (s :: u) w ↔ ∃ w₁ w₂, w = w₁ ++ w₂ ∧ G.Gen s w₁ ∧ G.GenList u w₂ := by
  constructor
  · intro h
    cases h with
    | cons hs hu => exact ⟨_, _, rfl, hs, hu⟩
  · rintro ⟨w₁, w₂, rfl, h1, h2⟩
    exact .cons h1 h2

theorem genList_nil_iff {G : CFG} {w : List String} : G.GenList [] w ↔ w = [] := by
  constructor
  · intro h; cases h; rfl
  · rintro rfl; exact .nil

theorem gen_ter_iff {G : CFG} {t : String} {w : List String} : G.Gen (.ter t) w ↔ w = [t] := by
  constructor
  · intro h; cases h; rfl
  · rintro rfl; exact .ter t

theorem gen_var_iff {G : CFG} {h : String} {w : List String} :
    G.Gen (.var h) w ↔ ∃ body, (h, body) ∈ G.prods ∧ G.GenList body w := by
  constructor
  · intro hg; cases hg with
    | var hp hl => exact ⟨_, hp, hl⟩
  · rintro ⟨body, hp, hl⟩; exact .var hp hl

theorem genList_map_ter (G : CFG) (w : List String) : G.GenList (w.map .ter) w := by
  induction w with
  | nil => exact .nil
  | cons a w ih => exact GenList.cons (w₁ := [a]) (.ter a) ih

mutual
theorem gen_derives {G : CFG} : ∀ {s : Sym} {w : List String}, G.Gen s w → G.Derives [s] (w.map .ter)
  | _, _, .ter t => .refl _
  | _, _, .var hp hl => (Derives.prod hp).trans (genList_derives hl)
theorem genList_derives {G : CFG} : ∀ {u : List Sym} {w : List String},
    G.GenList u w → G.Derives u (w.map .ter)
  | _, _, .nil => .refl _
  | _, _, .cons (s := s) (u := u) hs hu => by
    have := Derives.append (gen_derives hs) (genList_derives hu)
    simpa using this
end

theorem derives_genList {G : CFG} {a b : List Sym} (h : G.Derives a b) :
    ∀ w : List String, b = w.map .ter → G.GenList a w := by
  induction h with
  | refl _ => rintro w rfl; exact genList_map_ter G w
  | @step u v body w' h hp _ ih =>
    intro w hw
    have := ih w hw
    rw [genList_append_iff] at this
    obtain ⟨w₁₂, w₃, rfl, h12, h3⟩ := this
    rw [genList_append_iff] at h12
    obtain ⟨w₁, w₂, rfl, h1, h2⟩ := h12
    exact genList_append (genList_append h1 (genList_singleton.2 (.var hp h2))) h3

theorem genList_iff_derives (G : CFG) (u : List Sym) (w : List String) :
    G.GenList u w ↔ G.Derives u (w.map .ter) :=
  ⟨genList_derives, fun h => derives_genList h w rfl⟩

/-- a derivation of a terminal word from `u ++ v` splits -/
theorem derives_append_ter (G : CFG) (u v : List Sym) (w : List String)
    (h : G.Derives (u ++ v) (w.map .ter)) :
    ∃ w₁ w₂, w = w₁ ++ w₂ ∧ G.Derives u (w₁.map .ter) ∧ G.Derives v (w₂.map .ter) := by
  rw [← genList_iff_derives, genList_append_iff] at h
  obtain ⟨w₁, w₂, e, h1, h2⟩ := h
  exact ⟨w₁, w₂, e, genList_derives h1, genList_derives h2⟩

theorem gen_iff_derives (G : CFG) (s : Sym) (w : List String) :
    G.Gen s w ↔ G.Derives [s] (w.map .ter) := by
  rw [← genList_iff_derives, genList_singleton]

theorem lang_iff_gen (G : CFG) (w : List String) :
    G.Lang w ↔ ∃ s, G.start = some s ∧ G.Gen (.var s) w := by
  unfold Lang
  simp only [gen_iff_derives]

mutual
theorem gen_mono_aux {G H : CFG} (hp : ∀ p, p ∈ G.prods → p ∈ H.prods) :
    ∀ {s : Sym} {w : List String}, G.Gen s w → H.Gen s w
  | _, _, .ter t => .ter t
  | _, _, .var h hl => .var (hp _ h) (genList_mono_aux hp hl)
theorem genList_mono_aux {G H : CFG} (hp : ∀ p, p ∈ G.prods → p ∈ H.prods) :
    ∀ {u : List Sym} {w : List String}, G.GenList u w → H.GenList u w
  | _, _, .nil => .nil
  | _, _, .cons hs hu => .cons (gen_mono_aux hp hs) (genList_mono_aux hp hu)
end

/-- more productions, more words -/
theorem gen_mono (G H : CFG) (hp : ∀ p, p ∈ G.prods → p ∈ H.prods) (s : Sym) (w : List String)
    (h : G.Gen s w) : H.Gen s w := gen_mono_aux hp h

theorem genList_mono (G H : CFG) (hp : ∀ p, p ∈ G.prods → p ∈ H.prods) (u : List Sym)
    (w : List String) (h : G.GenList u w) : H.GenList u w := genList_mono_aux hp h

/-- `Gen` only depends on the set of productions -/
theorem gen_congr (G H : CFG) (hp : ∀ p, p ∈ G.prods ↔ p ∈ H.prods) (s : Sym) (w : List String) :
    G.Gen s w ↔ H.Gen s w :=
  ⟨gen_mono G H (fun p => (hp p).1) s w, gen_mono H G (fun p => (hp p).2) s w⟩

theorem genList_congr (G H : CFG) (hp : ∀ p, p ∈ G.prods ↔ p ∈ H.prods) (u : List Sym)
    (w : List String) : G.GenList u w ↔ H.GenList u w :=
  ⟨genList_mono G H (fun p => (hp p).1) u w, genList_mono H G (fun p => (hp p).2) u w⟩

end CFG
end Pfl
