/-
Base lemmas about derivations, shared by all CFG proofs: composition of derivations and the
tree-style characterisation `Gen` of "symbol `s` generates the terminal word `w`".
-/
import Pfl.Spec.CFG
namespace Pfl
namespace CFG

mutual
/-- `Gen G s w`: there is a parse tree with root `s` and yield `w` -/
inductive Gen (G : CFG) : Sym → List String → Prop
  | ter (t : String) : Gen G (.ter t) [t]
  | var {h : String} {body : List Sym} {w : List String} :
      (h, body) ∈ G.prods → GenList G body w → Gen G (.var h) w
/-- `GenList G u w`: the symbols of `u` generate consecutive pieces of `w` -/
inductive GenList (G : CFG) : List Sym → List String → Prop
  | nil : GenList G [] []
  | cons {s : Sym} {u : List Sym} {w₁ w₂ : List String} :
      Gen G s w₁ → GenList G u w₂ → GenList G (s :: u) (w₁ ++ w₂)
end

theorem Derives.trans {G : CFG} {u v w : List Sym} (h₁ : G.Derives u v) (h₂ : G.Derives v w) :
    G.Derives u w := by
  sorry

/-- derivations can be done inside a context -/
theorem Derives.context {G : CFG} {u v : List Sym} (x y : List Sym) (h : G.Derives u v) :
    G.Derives (x ++ u ++ y) (x ++ v ++ y) := by
  sorry

theorem Derives.append {G : CFG} {u u' v v' : List Sym} (h₁ : G.Derives u u') (h₂ : G.Derives v v') :
    G.Derives (u ++ v) (u' ++ v') := by
  sorry

/-- a derivation of a terminal word from `u ++ v` splits -/
theorem derives_append_ter (G : CFG) (u v : List Sym) (w : List String)
    (h : G.Derives (u ++ v) (w.map .ter)) :
    ∃ w₁ w₂, w = w₁ ++ w₂ ∧ G.Derives u (w₁.map .ter) ∧ G.Derives v (w₂.map .ter) := by
  sorry

theorem genList_iff_derives (G : CFG) (u : List Sym) (w : List String) :
    G.GenList u w ↔ G.Derives u (w.map .ter) := by
  sorry

theorem gen_iff_derives (G : CFG) (s : Sym) (w : List String) :
    G.Gen s w ↔ G.Derives [s] (w.map .ter) := by
  sorry

theorem lang_iff_gen (G : CFG) (w : List String) :
    G.Lang w ↔ ∃ s, G.start = some s ∧ G.Gen (.var s) w := by
  sorry

theorem genList_append {G : CFG} {u v : List Sym} {w₁ w₂ : List String}
    (h₁ : G.GenList u w₁) (h₂ : G.GenList v w₂) : G.GenList (u ++ v) (w₁ ++ w₂) := by
  sorry

theorem genList_append_iff (G : CFG) (u v : List Sym) (w : List String) :
    G.GenList (u ++ v) w ↔ ∃ w₁ w₂, w = w₁ ++ w₂ ∧ G.GenList u w₁ ∧ G.GenList v w₂ := by
  sorry

/-- `Gen` only depends on the set of productions -/
theorem gen_congr (G H : CFG) (hp : ∀ p, p ∈ G.prods ↔ p ∈ H.prods) (s : Sym) (w : List String) :
    G.Gen s w ↔ H.Gen s w := by
  sorry

/-- more productions, more words -/
theorem gen_mono (G H : CFG) (hp : ∀ p, p ∈ G.prods → p ∈ H.prods) (s : Sym) (w : List String)
    (h : G.Gen s w) : H.Gen s w := by
  sorry

end CFG
end Pfl
