/- Proofs for Pfl/Props/C19_FAObject.lean, part 3: every automaton object reachable through the
public API stands for a well-formed value (the hypothesis `ENFA.WF` of the C01–C04 theorems), and a
`DeterministicFiniteAutomaton` object for a deterministic ε-free one. -/
import Pfl.Spec.FAObject
import Pfl.Proofs.FAObject
import Pfl.Proofs.FAObjectQ
namespace Pfl
namespace FAObj
namespace PW
open Pfl.FAObj.P Pfl.FAObj.PQ

theorem wf_addT {o : Obj} {T' : Table} {S' : List Nat} {q r : Nat} {a : Option Nat} (hwf : (toENFA o).WF)
    (he : ∀ t, t ∈ edges T' → t = (q, a, r) ∨ t ∈ edges o.trans)
    (hsub : ∀ x ∈ o.syms, x ∈ S') (hnew : ∀ s, a = some s → s ∈ S') :
    (toENFA { o with trans := T', states := ins r (ins q o.states), syms := S' }).WF := by
  obtain ⟨h1, h2, h3, h4, h5⟩ := hwf
  simp only [toENFA] at h1 h2 h3 h4 h5
  refine ⟨?_, ?_, ?_, ?_, ?_⟩ <;> simp only [toENFA]
  · intro x hx; exact mem_ins.mpr (Or.inr (mem_ins.mpr (Or.inr (h1 x hx))))
  · intro x hx; exact mem_ins.mpr (Or.inr (mem_ins.mpr (Or.inr (h2 x hx))))
  · intro t ht
    rcases he t ht with rfl | ht
    · exact mem_ins.mpr (Or.inr (mem_ins.mpr (Or.inl rfl)))
    · exact mem_ins.mpr (Or.inr (mem_ins.mpr (Or.inr (h3 t ht))))
  · intro t ht
    rcases he t ht with rfl | ht
    · exact mem_ins.mpr (Or.inl rfl)
    · exact mem_ins.mpr (Or.inr (mem_ins.mpr (Or.inr (h4 t ht))))
  · intro t ht s hs
    rcases he t ht with rfl | ht
    · exact hnew s hs
    · exact hsub _ (h5 t ht s hs)

theorem symsAdd_sub (a : Option Nat) (l : List Nat) :
    (∀ x ∈ l, x ∈ (match a with | some s => ins s l | none => l)) ∧
    (∀ s, a = some s → s ∈ (match a with | some s => ins s l | none => l)) := by
  cases a with
  | none => simp
  | some s' =>
    refine ⟨fun x hx => mem_ins.mpr (Or.inr hx), ?_⟩
    intro s hs
    simp only [Option.some.injEq] at hs
    subst hs
    exact mem_ins.mpr (Or.inl rfl)

theorem wf_remT {o : Obj} {T' : Table} (hwf : (toENFA o).WF)
    (he : ∀ t, t ∈ edges T' → t ∈ edges o.trans) : (toENFA { o with trans := T' }).WF := by
  obtain ⟨h1, h2, h3, h4, h5⟩ := hwf
  simp only [toENFA] at h1 h2 h3 h4 h5
  refine ⟨?_, ?_, ?_, ?_, ?_⟩ <;> simp only [toENFA]
  · exact h1
  · exact h2
  · intro t ht; exact h3 t (he t ht)
  · intro t ht; exact h4 t (he t ht)
  · intro t ht; exact h5 t (he t ht)

/-- a fresh object stands for a well-formed value and has a table of the right shape -/
theorem new_wf (det : Bool) : (toENFA (new det)).WF ∧ TInv det (new det).trans := by
  refine ⟨?_, tinv_nil det⟩
  refine ⟨?_, ?_, ?_, ?_, ?_⟩ <;> simp [toENFA, new, edges]

/-- so does an object built by the constructor from sets of states, symbols, start and final states -/
theorem mk_wf (det : Bool) (states syms starts finals : List Nat) :
    (toENFA (mk det states syms starts finals)).WF ∧ TInv det (mk det states syms starts finals).trans ∧
      (mk det states syms starts finals).det = det ∧
      (det = true → (mk det states syms starts finals).starts.length ≤ 1) := by
  refine ⟨?_, tinv_nil det, rfl, ?_⟩
  · refine ⟨?_, ?_, ?_, ?_, ?_⟩ <;> simp only [toENFA, mk, edges, List.flatMap_nil]
    · intro q hq
      simp only [List.mem_eraseDups, List.mem_append]
      exact Or.inr hq
    · intro q hq
      simp only [List.mem_eraseDups, List.mem_append] at hq ⊢
      exact Or.inl (Or.inr hq)
    · simp
    · simp
    · simp
  · intro hd
    subst hd
    simp [mk, List.length_take]
    omega

/-- a mutator call keeps well-formedness: states and symbols are registered before they are used and
nothing ever unregisters them -/
theorem step_wf {o o' : Obj} {op : Op} {n : Nat} (hi : TInv o.det o.trans) (hwf : (toENFA o).WF)
    (hs : step o op = .ok (o', n)) : (toENFA o').WF := by
  obtain ⟨det, st, sy, ss, fs, T⟩ := o
  cases op with
  | addT q a r =>
    cases det with
    | true =>
      simp only at hi
      simp only [step, if_true] at hs
      cases hadd : addD T q a r with
      | error e => rw [hadd] at hs; simp at hs
      | ok T' =>
        rw [hadd] at hs
        simp only [Except.ok.injEq, Prod.mk.injEq] at hs
        obtain ⟨rfl, rfl⟩ := hs
        exact wf_addT hwf (fun t ht => ((addD_ok hi hadd).2 t).mp ht) (symsAdd_sub a _).1 (symsAdd_sub a _).2
    | false =>
      simp only at hi
      simp only [step, Bool.false_eq_true, if_false, Except.ok.injEq, Prod.mk.injEq] at hs
      obtain ⟨rfl, rfl⟩ := hs
      exact wf_addT hwf (fun t ht => ((addN_spec hi q a r).2 t).mp ht) (symsAdd_sub a _).1 (symsAdd_sub a _).2
  | remT q a r =>
    cases det with
    | true =>
      simp only at hi
      simp only [step, if_true, Except.ok.injEq, Prod.mk.injEq] at hs
      obtain ⟨rfl, rfl⟩ := hs
      exact wf_remT hwf (fun t ht => (((remD_spec hi q a r).2.1 t).mp ht).2)
    | false =>
      simp only at hi
      simp only [step, Bool.false_eq_true, if_false, Except.ok.injEq, Prod.mk.injEq] at hs
      obtain ⟨rfl, rfl⟩ := hs
      exact wf_remT hwf (fun t ht => (((remN_spec hi q a r).2.1 t).mp ht).2)
  | addStart q =>
    obtain ⟨h1, h2, h3, h4, h5⟩ := hwf
    simp only [toENFA] at h1 h2 h3 h4 h5
    simp only [step] at hs
    split at hs <;>
      (simp only [Except.ok.injEq, Prod.mk.injEq] at hs; obtain ⟨rfl, rfl⟩ := hs
       refine ⟨?_, ?_, ?_, ?_, ?_⟩ <;> simp only [toENFA])
    · intro x hx; simp only [List.mem_singleton] at hx; exact mem_ins.mpr (Or.inl hx)
    · intro x hx; exact mem_ins.mpr (Or.inr (h2 x hx))
    · intro t ht; exact mem_ins.mpr (Or.inr (h3 t ht))
    · intro t ht; exact mem_ins.mpr (Or.inr (h4 t ht))
    · exact h5
    · intro x hx
      rcases mem_ins.mp hx with hx | hx
      · exact mem_ins.mpr (Or.inl hx)
      · exact mem_ins.mpr (Or.inr (h1 x hx))
    · intro x hx; exact mem_ins.mpr (Or.inr (h2 x hx))
    · intro t ht; exact mem_ins.mpr (Or.inr (h3 t ht))
    · intro t ht; exact mem_ins.mpr (Or.inr (h4 t ht))
    · exact h5
  | remStart q =>
    obtain ⟨h1, h2, h3, h4, h5⟩ := hwf
    simp only [toENFA] at h1 h2 h3 h4 h5
    simp only [step] at hs
    repeat' split at hs
    all_goals
      (simp only [Except.ok.injEq, Prod.mk.injEq] at hs; obtain ⟨rfl, rfl⟩ := hs
       refine ⟨?_, ?_, ?_, ?_, ?_⟩ <;> simp only [toENFA] <;> try assumption)
    · simp
    · intro x hx; exact h1 x (List.mem_of_mem_erase hx)
  | addFinal q =>
    obtain ⟨h1, h2, h3, h4, h5⟩ := hwf
    simp only [toENFA] at h1 h2 h3 h4 h5
    simp only [step, Except.ok.injEq, Prod.mk.injEq] at hs
    obtain ⟨rfl, rfl⟩ := hs
    refine ⟨?_, ?_, ?_, ?_, ?_⟩ <;> simp only [toENFA]
    · intro x hx; exact mem_ins.mpr (Or.inr (h1 x hx))
    · intro x hx
      rcases mem_ins.mp hx with hx | hx
      · exact mem_ins.mpr (Or.inl hx)
      · exact mem_ins.mpr (Or.inr (h2 x hx))
    · intro t ht; exact mem_ins.mpr (Or.inr (h3 t ht))
    · intro t ht; exact mem_ins.mpr (Or.inr (h4 t ht))
    · exact h5
  | remFinal q =>
    obtain ⟨h1, h2, h3, h4, h5⟩ := hwf
    simp only [toENFA] at h1 h2 h3 h4 h5
    simp only [step] at hs
    split at hs <;>
      (simp only [Except.ok.injEq, Prod.mk.injEq] at hs; obtain ⟨rfl, rfl⟩ := hs
       refine ⟨?_, ?_, ?_, ?_, ?_⟩ <;> simp only [toENFA] <;> try assumption)
    · intro x hx; exact h2 x (List.mem_of_mem_erase hx)
  | addSym a =>
    obtain ⟨h1, h2, h3, h4, h5⟩ := hwf
    simp only [toENFA] at h1 h2 h3 h4 h5
    simp only [step, Except.ok.injEq, Prod.mk.injEq] at hs
    obtain ⟨rfl, rfl⟩ := hs
    refine ⟨?_, ?_, ?_, ?_, ?_⟩ <;> simp only [toENFA] <;> try assumption
    · intro t ht s hs; exact mem_ins.mpr (Or.inr (h5 t ht s hs))

/-- (7) every object reachable from a well-formed one by a history of mutator calls stands for a
well-formed value: the hypothesis `WF` of the theorems of C01–C04 holds for everything the public API
can build -/
theorem run_wf (o : Obj) (ops : List Op) (hi : TInv o.det o.trans) (hwf : (toENFA o).WF) :
    (toENFA (run o ops)).WF ∧ TInv o.det (run o ops).trans ∧ (run o ops).det = o.det := by
  induction ops generalizing o with
  | nil => exact ⟨hwf, hi, rfl⟩
  | cons op ops ih =>
    simp only [run]
    cases hs : step o op with
    | error e => exact ih o hi hwf
    | ok p =>
      obtain ⟨o', n⟩ := p
      obtain ⟨hi', hd'⟩ := step_tinv hi hs
      have := ih o' hi' (step_wf hi hwf hs)
      rw [hd'] at this
      exact this

theorem step_starts {o o' : Obj} {op : Op} {n : Nat} (hd : o.det = true) (hl : o.starts.length ≤ 1)
    (hs : step o op = .ok (o', n)) : o'.det = true ∧ o'.starts.length ≤ 1 := by
  obtain ⟨det, st, sy, ss, fs, T⟩ := o
  simp only at hd hl
  subst hd
  have hd : true = true := rfl
  cases op with
  | addT q a r =>
    simp only [step, if_true] at hs
    cases hadd : addD T q a r with
    | error e => rw [hadd] at hs; simp at hs
    | ok T' =>
      rw [hadd] at hs
      simp only [Except.ok.injEq, Prod.mk.injEq] at hs
      obtain ⟨rfl, rfl⟩ := hs
      exact ⟨hd, hl⟩
  | remT q a r =>
    simp only [step, if_true, Except.ok.injEq, Prod.mk.injEq] at hs
    obtain ⟨rfl, rfl⟩ := hs
    exact ⟨hd, hl⟩
  | addStart q =>
    simp only [step, if_true, Except.ok.injEq, Prod.mk.injEq] at hs
    obtain ⟨rfl, rfl⟩ := hs
    exact ⟨hd, by simp⟩
  | remStart q =>
    simp only [step, if_true] at hs
    split at hs <;>
      (simp only [Except.ok.injEq, Prod.mk.injEq] at hs; obtain ⟨rfl, rfl⟩ := hs)
    · exact ⟨hd, by simp⟩
    · exact ⟨hd, hl⟩
  | addFinal q =>
    simp only [step, Except.ok.injEq, Prod.mk.injEq] at hs
    obtain ⟨rfl, rfl⟩ := hs; exact ⟨hd, hl⟩
  | remFinal q =>
    simp only [step] at hs
    split at hs <;>
      (simp only [Except.ok.injEq, Prod.mk.injEq] at hs; obtain ⟨rfl, rfl⟩ := hs; exact ⟨hd, hl⟩)
  | addSym a =>
    simp only [step, Except.ok.injEq, Prod.mk.injEq] at hs
    obtain ⟨rfl, rfl⟩ := hs; exact ⟨hd, hl⟩

/-- a deterministic object keeps at most one start state -/
theorem run_starts (o : Obj) (ops : List Op) (hd : o.det = true) (hs : o.starts.length ≤ 1) :
    (run o ops).starts.length ≤ 1 := by
  induction ops generalizing o with
  | nil => exact hs
  | cons op ops ih =>
    simp only [run]
    cases hst : step o op with
    | error e => exact ih o hd hs
    | ok p =>
      obtain ⟨o', n⟩ := p
      obtain ⟨hd', hl'⟩ := step_starts hd hs hst
      exact ih o' hd' hl'

/-- (8) a `DeterministicFiniteAutomaton` object, whatever is done to it through the API, stands for a
deterministic, ε-free, well-formed value: the hypotheses of `acceptsD_iff`, of the complement of
deterministic automata and of `minimize` -/
theorem run_dfa (o : Obj) (ops : List Op) (hd : o.det = true) (hi : TInv true o.trans)
    (hwf : (toENFA o).WF) (hs : o.starts.length ≤ 1) :
    (toENFA (run o ops)).WF ∧ (toENFA (run o ops)).Deterministic ∧ (toENFA (run o ops)).EpsFree := by
  have hi0 : TInv o.det o.trans := by rw [hd]; exact hi
  obtain ⟨hw, ht, _⟩ := run_wf o ops hi0 hwf
  rw [hd] at ht
  obtain ⟨hf, he⟩ := det_functional ht
  have hl := run_starts o ops hd hs
  refine ⟨hw, ⟨?_, ?_, ?_⟩, ?_⟩
  · intro p hp q hq
    simp only [toENFA] at hp hq
    match hst : (run o ops).starts, hl, hp, hq with
    | [], _, hp, _ => simp at hp
    | [x], _, hp, hq =>
      simp only [List.mem_singleton] at hp hq
      rw [hp, hq]
    | _ :: _ :: _, hl, _, _ => simp at hl
  · exact hf
  · intro q r h
    exact absurd rfl (he _ h)
  · exact he

end PW
end FAObj
end Pfl
