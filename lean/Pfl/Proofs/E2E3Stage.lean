/-
Stages 3 and 4: every printable literal, `.`, `\d \s \w`, character sets.
-/
import Pfl.Proofs.E2E3Front
namespace Pfl.PyRx.E2E.S3
open Pfl.RegexReader Pfl.RegexReader.Lem Pfl.Rx Pfl.PyPass
open Pfl.PyRx.E2E

/-! ### the three passes on a skeleton -/

def tok0 (l : Lf) : List Tok := [txt0 l]

theorem pass1 (x : K) (h : KOK x) :
    replaceShortcuts (ktoks tok0 x).flatten = (ktoks tok1 x).flatten :=
  P1.run (lift (R := P1) P1.append (fun _ _ => rfl)
    (fun c hc => P1.ch c hc.1 hc.2.1 hc.2.2.1) tok0 tok1
    (fun l hl => by simpa [tok0] using lf_p1 l hl) x h)

theorem pass2 (x : K) (h : KOK x) :
    escapeInBrackets (ktoks tok1 x).flatten = (ktoks tok2 x).flatten :=
  P2.run (lift (R := P2 false) P2.append (P2.nil false)
    (fun c hc => P2.ch false c hc.2.1 hc.2.2.1 hc.2.2.2 (fun e => by simp at e)) tok1 tok2
    (fun l hl => lf_p2 l hl) x h)

theorem P3.nil : P3 [] [] := ⟨by intro t ht; simp at ht, fun rt _ => rfl⟩

theorem pass3 (x : K) (h : KOK x) :
    preprocessBrackets (ktoks tok2 x).flatten = .ok (ktoks tok3 x).flatten :=
  P3.run (lift (R := P3) P3.append P3.nil
    (fun c hc => P3.ch c hc.2.1 hc.2.2.1) tok2 tok3 (fun l hl => lf_p3 l hl) x h)

/-! ### the tree with token leaves -/

def toD : K → D
  | .lf (.lit c) => .tk (tokOf c)
  | .lf .dot => .tk ['.']
  | .lf (.short k) => .uni (shortToks k)
  | .lf (.set neg items) => .uni (cts neg items)
  | .grp x => .grp (toD x)
  | .seq a b => .seq (toD a) (toD b)
  | .bar a b => .bar (toD a) (toD b)
  | .star a => .star (toD a)
  | .plus a => .plus (toD a)
  | .opt a => .opt (toD a)
  | .rep a m n => .rep (toD a) m n

theorem toD_toks : ∀ x : K, dtoks (toD x) = ktoks tok3 x
  | .lf (.lit c) => rfl
  | .lf .dot => rfl
  | .lf (.short k) => rfl
  | .lf (.set neg items) => rfl
  | .grp x => by simp [toD, dtoks, ktoks, toD_toks x]
  | .seq a b => by simp [toD, dtoks, ktoks, toD_toks a, toD_toks b]
  | .bar a b => by simp [toD, dtoks, ktoks, toD_toks a, toD_toks b]
  | .star a => by simp [toD, dtoks, ktoks, toD_toks a]
  | .plus a => by simp [toD, dtoks, ktoks, toD_toks a]
  | .opt a => by simp [toD, dtoks, ktoks, toD_toks a]
  | .rep a m n => by simp [toD, dtoks, ktoks, toD_toks a]

/-! ### from the pattern to its skeleton -/

def wrapK (a : P) (x : K) : K := if isQuantified a then .grp x else x

def toK : P → Ctx → K
  | .lit c, _ => .lf (.lit c)
  | .dot, _ => .lf .dot
  | .short k, _ => .lf (.short k)
  | .set neg items, _ => .lf (.set neg items)
  | .cat a b, ctx =>
    let s := K.seq (toK a .cat) (toK b .cat)
    if ctx = .q then .grp s else s
  | .alt a b, ctx =>
    let s := K.bar (toK a .top) (toK b .top)
    if ctx ≠ .top then .grp s else s
  | .star a, _ => .star (wrapK a (toK a .q))
  | .plus a, _ => .plus (wrapK a (toK a .q))
  | .opt a, _ => .opt (wrapK a (toK a .q))
  | .rep a m n, _ => .rep (wrapK a (toK a .q)) m n

/-- the fragment of stage 4 -/
def Frag4 : P → Prop
  | .lit c => c ∈ printables
  | .dot => True
  | .short k => k = 'd' ∨ k = 's' ∨ k = 'w'
  | .cat a b => Frag4 a ∧ Frag4 b
  | .alt a b => Frag4 a ∧ Frag4 b
  | .star a => Frag4 a
  | .plus a => Frag4 a
  | .opt a => Frag4 a
  | .rep a m n => Frag4 a ∧ m ≤ n
  | .set _ items => items ≠ [] ∧ ∀ it ∈ items, GoodIt it

theorem Frag4.wellFormed : ∀ p, Frag4 p → WellFormed p
  | .lit _, _ => trivial
  | .dot, _ => trivial
  | .short _, _ => trivial
  | .set _ _, _ => trivial
  | .cat a b, h => ⟨Frag4.wellFormed a h.1, Frag4.wellFormed b h.2⟩
  | .alt a b, h => ⟨Frag4.wellFormed a h.1, Frag4.wellFormed b h.2⟩
  | .star a, h => Frag4.wellFormed a h
  | .plus a, h => Frag4.wellFormed a h
  | .opt a, h => Frag4.wellFormed a h
  | .rep a _ _, h => ⟨Frag4.wellFormed a h.1, h.2⟩

theorem toK_text : ∀ p ctx, Frag4 p → (ktoks tok0 (toK p ctx)).flatten = render p ctx
  | .lit c, _, _ => by simp [toK, ktoks, tok0, txt0, render]
  | .dot, _, _ => by simp [toK, ktoks, tok0, txt0, render]
  | .short k, _, _ => by simp [toK, ktoks, tok0, txt0, render]
  | .set neg items, _, _ => by simp [toK, ktoks, tok0, txt0, render, set0_eq]
  | .cat a b, ctx, h => by
    by_cases hc : ctx = .q <;>
      simp [toK, ktoks, render, hc, paren, toK_text a .cat h.1, toK_text b .cat h.2]
  | .alt a b, ctx, h => by
    by_cases hc : ctx = .top <;>
      simp [toK, ktoks, render, hc, paren, toK_text a .top h.1, toK_text b .top h.2]
  | .star a, _, h => by
    by_cases hq : isQuantified a = true <;>
      simp [toK, wrapK, ktoks, render, hq, paren, toK_text a .q h]
  | .plus a, _, h => by
    by_cases hq : isQuantified a = true <;>
      simp [toK, wrapK, ktoks, render, hq, paren, toK_text a .q h]
  | .opt a, _, h => by
    by_cases hq : isQuantified a = true <;>
      simp [toK, wrapK, ktoks, render, hq, paren, toK_text a .q h]
  | .rep a m n, _, h => by
    by_cases hq : isQuantified a = true <;> by_cases hmn : m = n <;>
      simp [toK, wrapK, ktoks, render, hq, paren, toK_text a .q h.1, C.braces, hmn, sing_flatten]

theorem toK_ok : ∀ p ctx, Frag4 p → KOK (toK p ctx)
  | .lit _, _, h => h
  | .dot, _, _ => trivial
  | .short _, _, h => h
  | .set _ _, _, h => h
  | .cat a b, ctx, h => by
    have : KOK (K.seq (toK a .cat) (toK b .cat)) := ⟨toK_ok a .cat h.1, toK_ok b .cat h.2⟩
    by_cases hc : ctx = .q <;> simpa [toK, hc, KOK] using this
  | .alt a b, ctx, h => by
    have : KOK (K.bar (toK a .top) (toK b .top)) := ⟨toK_ok a .top h.1, toK_ok b .top h.2⟩
    by_cases hc : ctx = .top <;> simpa [toK, hc, KOK] using this
  | .star a, _, h => by
    show KOK (wrapK a (toK a .q)); unfold wrapK; split <;> exact toK_ok a .q h
  | .plus a, _, h => by
    show KOK (wrapK a (toK a .q)); unfold wrapK; split <;> exact toK_ok a .q h
  | .opt a, _, h => by
    show KOK (wrapK a (toK a .q)); unfold wrapK; split <;> exact toK_ok a .q h
  | .rep a m n, _, h => by
    show KOK (wrapK a (toK a .q)); unfold wrapK; split <;> exact toK_ok a .q h.1

/-! ### the form of the tree -/

theorem tokOf_leaf (c : Char) (h : c ∈ printables) : LeafTok true (tokOf c) := by
  unfold tokOf
  by_cases hb : c = ' '
  · subst hb
    exact Or.inr (Or.inr (Or.inr (Or.inl ⟨' ', by simp, by unfold EscOK; decide, fun e => by simp at e⟩)))
  · by_cases hm : c ∈ metaChars
    · simp only [hb, hm, if_false, if_true]
      exact Or.inr (Or.inr (Or.inr (Or.inl ⟨c, rfl, (meta_facts c hm).2.2, fun e => by simp at e⟩)))
    · simp only [hb, hm, if_false]
      exact Or.inl ⟨c, rfl, (plain_facts3 c h hm hb).2.2.2⟩

theorem toD_unit : ∀ a, Frag4 a → DUnit (toD (wrapK a (toK a .q)))
  | .lit _, _ => trivial
  | .dot, _ => trivial
  | .short _, _ => trivial
  | .set _ _, _ => trivial
  | .cat _ _, _ => trivial
  | .alt _ _, _ => trivial
  | .star _, _ => trivial
  | .plus _, _ => trivial
  | .opt _, _ => trivial
  | .rep _ _ _, _ => trivial

theorem toD_cl_cat : ∀ p, Frag4 p → dcl (toD (toK p .cat)) ≤ 1
  | .lit _, _ => by simp [toK, toD, dcl]
  | .dot, _ => by simp [toK, toD, dcl]
  | .short _, _ => by simp [toK, toD, dcl]
  | .set _ _, _ => by simp [toK, toD, dcl]
  | .cat _ _, _ => by simp [toK, toD, dcl]
  | .alt _ _, _ => by simp [toK, toD, dcl]
  | .star _, _ => by simp [toK, toD, dcl]
  | .plus _, _ => by simp [toK, toD, dcl]
  | .opt _, _ => by simp [toK, toD, dcl]
  | .rep _ _ _, _ => by simp [toK, toD, dcl]

theorem toD_form : ∀ p ctx, Frag4 p → Form3 true true true (toD (toK p ctx))
  | .lit c, _, h => tokOf_leaf c h
  | .dot, _, _ => Or.inr (Or.inr (Or.inl rfl))
  | .short k, _, h => shortToks_utok k h
  | .set neg items, _, h => ⟨cts_ne_nil neg items h.1 h.2, fun t ht => (cts_toks neg items h.2 t ht).2⟩
  | .cat a b, ctx, h => by
    have : Form3 true true true (D.seq (toD (toK a .cat)) (toD (toK b .cat))) :=
      ⟨toD_form a .cat h.1, toD_form b .cat h.2, toD_cl_cat a h.1, toD_cl_cat b h.2⟩
    by_cases hc : ctx = .q <;> simpa [toK, toD, hc, Form3] using this
  | .alt a b, ctx, h => by
    have : Form3 true true true (D.bar (toD (toK a .top)) (toD (toK b .top))) :=
      ⟨toD_form a .top h.1, toD_form b .top h.2⟩
    by_cases hc : ctx = .top <;> simpa [toK, toD, hc, Form3] using this
  | .star a, _, h => by
    refine ⟨?_, toD_unit a h⟩
    unfold wrapK; split <;> exact toD_form a .q h
  | .plus a, _, h => by
    refine ⟨rfl, ?_, toD_unit a h⟩
    unfold wrapK; split <;> exact toD_form a .q h
  | .opt a, _, h => by
    refine ⟨rfl, ?_, toD_unit a h⟩
    unfold wrapK; split <;> exact toD_form a .q h
  | .rep a m n, _, h => by
    refine ⟨rfl, ?_, toD_unit a h.1, h.2⟩
    unfold wrapK; split <;> exact toD_form a .q h.1

/-! ### the meaning of the tree -/

theorem dot_chars : escapedPrintables.map tokChar = printables.filter (· ≠ '\n') := by decide

theorem short_chars : ∀ k ∈ ['d', 's', 'w'],
    shortToks k ≠ [] ∧ (shortToks k).all a3nB = true ∧ (shortToks k).map tokChar = shortChars k := by
  decide

theorem tokOf_leafRx (c : Char) (h : c ∈ printables) :
    rx3 (.tk (tokOf c)) = PyRx.sym c := by
  have hd : tokOf c ≠ ['.'] := by
    unfold tokOf
    by_cases hb : c = ' '
    · simp [hb]
    · by_cases hm : c ∈ metaChars
      · simp [hb, hm]
      · simp only [hb, hm, if_false]
        intro e
        simp only [List.cons.injEq, and_true] at e
        subst e
        exact hm (by decide)
  rw [rx3, if_neg hd]
  unfold tokOf
  by_cases hb : c = ' '
  · subst hb
    simp only [if_true, leaf_esc]
  · by_cases hm : c ∈ metaChars
    · simp only [hb, hm, if_false, if_true, leaf_esc]
    · simp only [hb, hm, if_false]
      exact leaf_pl c (tk1_pl (plain_facts3 c h hm hb).2.2.2)

theorem toD_rx : ∀ p ctx, Frag4 p → Eqv (rx3 (toD (toK p ctx))) (desugar printables p)
  | .lit c, _, h => by
    simp only [toK, toD, desugar, tokOf_leafRx c h]
    exact Eqv.rfl'
  | .dot, _, _ => by
    have := altc_anyOf escapedPrintables escapedPrintables_ne (by decide)
    rw [dot_chars] at this
    simpa [toK, toD, rx3, desugar] using this
  | .short k, _, h => by
    have hk : k ∈ ['d', 's', 'w'] := by rcases h with rfl | rfl | rfl <;> simp
    have h3 := short_chars k hk
    have := altc_anyOf (shortToks k) h3.1 h3.2.1
    rw [h3.2.2] at this
    simpa [toK, toD, rx3, desugar] using this
  | .set neg items, _, h => by
    have := altc_anyOf_mem (cts neg items) (setChars printables neg items) (cts_ne_nil neg items h.1 h.2)
      (List.all_eq_true.mpr (fun t ht => (cts_toks neg items h.2 t ht).1)) (cts_chars neg items h.2)
    simpa [toK, toD, rx3, desugar] using this
  | .cat a b, ctx, h => by
    have := Eqv.cat (toD_rx a .cat h.1) (toD_rx b .cat h.2)
    by_cases hc : ctx = .q <;> simpa [toK, toD, rx3, desugar, hc] using this
  | .alt a b, ctx, h => by
    have := Eqv.alt (toD_rx a .top h.1) (toD_rx b .top h.2)
    by_cases hc : ctx = .top <;> simpa [toK, toD, rx3, desugar, hc] using this
  | .star a, _, h => by
    have := Eqv.star (toD_rx a .q h)
    by_cases hq : isQuantified a = true <;> simpa [toK, wrapK, toD, rx3, desugar, hq] using this
  | .plus a, _, h => by
    have := Eqv.cat (toD_rx a .q h) (Eqv.star (toD_rx a .q h))
    by_cases hq : isQuantified a = true <;> simpa [toK, wrapK, toD, rx3, desugar, hq] using this
  | .opt a, _, h => by
    have := Eqv.alt (toD_rx a .q h) (Eqv.rfl' (a := .eps))
    by_cases hq : isQuantified a = true <;> simpa [toK, wrapK, toD, rx3, desugar, hq] using this
  | .rep a m n, _, h => by
    have := Eqv.cat (copies_congr (toD_rx a .q h.1) m) (optCopies_congr (toD_rx a .q h.1) (n - m))
    by_cases hq : isQuantified a = true <;> simpa [toK, wrapK, toD, rx3, desugar, hq] using this

/-! ### stages 3 and 4 -/

theorem ktext_ascii : ∀ x, KOK x → ∀ c ∈ (ktoks tok0 x).flatten, c.toNat < 128
  | .lf (.lit d), h => by
    intro c hc
    simp only [ktoks, tok0, txt0, List.flatten_cons, List.flatten_nil, List.append_nil] at hc
    split at hc
    · simp only [List.mem_cons, List.not_mem_nil, or_false] at hc
      rcases hc with rfl | rfl
      · decide
      · exact printable_ascii _ h
    · simp only [List.mem_cons, List.not_mem_nil, or_false] at hc
      subst hc; exact printable_ascii _ h
  | .lf .dot, _ => by
    intro c hc
    simp [ktoks, tok0, txt0] at hc
    subst hc; decide
  | .lf (.short k), h => by
    intro c hc
    simp [ktoks, tok0, txt0] at hc
    rcases hc with rfl | rfl
    · decide
    · rcases h with rfl | rfl | rfl <;> decide
  | .lf (.set neg items), h => by
    intro c hc
    simp only [ktoks, tok0, txt0, List.flatten_cons, List.flatten_nil, List.append_nil] at hc
    exact set0_ascii neg items h.2 c hc
  | .grp x, h => by
    intro c hc
    simp only [ktoks, List.flatten_cons, List.flatten_append, List.flatten_nil, List.append_nil,
      List.mem_append, List.mem_cons, List.not_mem_nil, or_false] at hc
    rcases hc with rfl | hc | rfl
    · decide
    · exact ktext_ascii x h c hc
    · decide
  | .seq a b, h => by
    intro c hc
    simp only [ktoks, List.flatten_append, List.mem_append] at hc
    rcases hc with hc | hc
    · exact ktext_ascii a h.1 c hc
    · exact ktext_ascii b h.2 c hc
  | .bar a b, h => by
    intro c hc
    simp only [ktoks, List.flatten_append, List.flatten_cons, List.mem_append, List.mem_cons,
      List.not_mem_nil, or_false] at hc
    rcases hc with hc | rfl | hc
    · exact ktext_ascii a h.1 c hc
    · decide
    · exact ktext_ascii b h.2 c hc
  | .star a, h => by
    intro c hc
    simp only [ktoks, List.flatten_append, List.flatten_cons, List.flatten_nil, List.append_nil,
      List.mem_append, List.mem_cons, List.not_mem_nil, or_false] at hc
    rcases hc with hc | rfl
    · exact ktext_ascii a h c hc
    · decide
  | .plus a, h => by
    intro c hc
    simp only [ktoks, List.flatten_append, List.flatten_cons, List.flatten_nil, List.append_nil,
      List.mem_append, List.mem_cons, List.not_mem_nil, or_false] at hc
    rcases hc with hc | rfl
    · exact ktext_ascii a h c hc
    · decide
  | .opt a, h => by
    intro c hc
    simp only [ktoks, List.flatten_append, List.flatten_cons, List.flatten_nil, List.append_nil,
      List.mem_append, List.mem_cons, List.not_mem_nil, or_false] at hc
    rcases hc with hc | rfl
    · exact ktext_ascii a h c hc
    · decide
  | .rep a m n, h => by
    intro c hc
    simp only [ktoks, List.flatten_append, sing_flatten, List.mem_append] at hc
    rcases hc with hc | hc
    · exact ktext_ascii a h c hc
    · exact (braces_ch2 m n c hc).facts.2.2.2.2.2

theorem render_ascii (p : P) (ctx : Ctx) (h : Frag4 p) : ∀ c ∈ render p ctx, c.toNat < 128 := by
  rw [← toK_text p ctx h]
  exact ktext_ascii _ (toK_ok p ctx h)

theorem stage4 (p : P) (h : Frag4 p) : ∃ t fuel r, transform (render p .top) = .ok t ∧
    parse fuel t = .ok r ∧ ∀ w : List Char, Denote r (word w) ↔ Matches printables p w := by
  have hk := toK_ok p .top h
  have hx := toD_form p .top h
  obtain ⟨s4, s5, s6, fuel, r, h4, h5, h6, hr, hE⟩ := backend _ hx
  have e1 := pass1 _ hk
  have e2 := pass2 _ hk
  have e3 := pass3 _ hk
  rw [toK_text p .top h] at e1
  have ht := transform_eq (render p .top) _ s4 s5 s6 (render_ascii p .top h)
    (by rw [e1, e2, e3]) (by rw [← toD_toks]; exact h4) h5 h6
  refine ⟨_, fuel, r, ht, hr, ?_⟩
  intro w
  rw [hE, toD_rx p .top h]
  exact desugar_denote printables p (Frag4.wellFormed p h) w

/-- the fragment of stage 3: no sets -/
def Frag3 : P → Prop
  | .lit c => c ∈ printables
  | .dot => True
  | .short k => k = 'd' ∨ k = 's' ∨ k = 'w'
  | .cat a b => Frag3 a ∧ Frag3 b
  | .alt a b => Frag3 a ∧ Frag3 b
  | .star a => Frag3 a
  | .plus a => Frag3 a
  | .opt a => Frag3 a
  | .rep a m n => Frag3 a ∧ m ≤ n
  | .set _ _ => False

theorem Frag3.frag4 : ∀ p, Frag3 p → Frag4 p
  | .lit _, h => h
  | .dot, _ => trivial
  | .short _, h => h
  | .cat a b, h => ⟨Frag3.frag4 a h.1, Frag3.frag4 b h.2⟩
  | .alt a b, h => ⟨Frag3.frag4 a h.1, Frag3.frag4 b h.2⟩
  | .star a, h => Frag3.frag4 a h
  | .plus a, h => Frag3.frag4 a h
  | .opt a, h => Frag3.frag4 a h
  | .rep a _ _, h => ⟨Frag3.frag4 a h.1, h.2⟩

theorem stage3 (p : P) (h : Frag3 p) : ∃ t fuel r, transform (render p .top) = .ok t ∧
    parse fuel t = .ok r ∧ ∀ w : List Char, Denote r (word w) ↔ Matches printables p w :=
  stage4 p (Frag3.frag4 p h)

end Pfl.PyRx.E2E.S3
