/-
Termination of the exploration loop of `FST.translate`: the generic counting argument.

Every pop either meets a configuration already seen (the stack shrinks) or expands a new one (one
more element of a finite universe `U` is seen, at most `|delta|` successors are pushed), so
`|stack| + |delta| * #(unseen elements of U)` pops are enough.
-/
import Pfl.Proofs.FSTLemmas
import Mathlib.Data.List.ProdSigma
import Mathlib.Data.List.Infix

namespace Pfl
namespace FST
namespace Term
open Lem
set_option linter.unusedSectionVars false
variable {σ : Type} [DecidableEq σ]

/-! ### one round of the loop, for an arbitrary length bound -/

/-- successors of a configuration of `translate` under the length bound `ml` -/
def next (T : FST σ) (ml : Option Nat) (c : Cfg σ) : List (Cfg σ) :=
  (match c.1 with
    | [] => []
    | a :: rest => (T.delta.filter fun t => t.1 = c.2.2 ∧ t.2.1 = some a).map
        fun t => (rest, c.2.1 ++ t.2.2.2, t.2.2.1)) ++
  (if (match ml with | none => true | some m => decide (c.2.1.length < m)) then
    (T.delta.filter fun t => t.1 = c.2.2 ∧ t.2.1 = none).map
      fun t => (c.1, c.2.1 ++ t.2.2.2, t.2.2.1)
  else [])

theorem loop_succ (T : FST σ) (ml : Option Nat) (fuel : Nat) (c : Cfg σ) (stack seen : List (Cfg σ))
    (out : List (List String)) :
    translateLoop T ml (fuel + 1) (c :: stack) seen out =
      if c ∈ seen then translateLoop T ml fuel stack seen out else
        translateLoop T ml fuel ((next T ml c).reverse ++ stack) (c :: seen)
          (if c.1 = [] ∧ c.2.2 ∈ T.finals then c.2.1 :: out else out) := by
  obtain ⟨rem, gen, q⟩ := c
  cases rem <;> cases ml <;> simp [translateLoop, next]

theorem mem_epsPart {T : FST σ} {rem gen : List String} {q : σ} {c' : Cfg σ}
    (h : c' ∈ (T.delta.filter fun t => t.1 = q ∧ t.2.1 = none).map
      fun t => (rem, gen ++ t.2.2.2, t.2.2.1)) :
    ∃ r o, (q, none, r, o) ∈ T.delta ∧ c' = (rem, gen ++ o, r) := by
  simp only [List.mem_map, List.mem_filter, decide_eq_true_eq] at h
  obtain ⟨⟨q', a', r, o⟩, ⟨ht, hq, ha⟩, rfl⟩ := h
  dsimp only at hq ha
  subst hq ha
  exact ⟨r, o, ht, rfl⟩

theorem mem_next {T : FST σ} {ml : Option Nat} {c c' : Cfg σ} (h : c' ∈ next T ml c) :
    (∃ a rest r o, c.1 = a :: rest ∧ (c.2.2, some a, r, o) ∈ T.delta ∧ c' = (rest, c.2.1 ++ o, r)) ∨
    (∃ r o, (c.2.2, none, r, o) ∈ T.delta ∧ (∀ m, ml = some m → c.2.1.length < m) ∧
      c' = (c.1, c.2.1 ++ o, r)) := by
  obtain ⟨rem, gen, q⟩ := c
  simp only [next] at h
  rcases List.mem_append.mp h with h | h
  · left
    cases rem with
    | nil => simp at h
    | cons a rest =>
      simp only [List.mem_map, List.mem_filter, decide_eq_true_eq] at h
      obtain ⟨⟨q', a', r, o⟩, ⟨ht, hq, ha⟩, rfl⟩ := h
      dsimp only at hq ha
      subst hq ha
      exact ⟨a, rest, r, o, rfl, ht, rfl⟩
  · right
    cases ml with
    | none =>
      rw [if_pos rfl] at h
      obtain ⟨r, o, ht, rfl⟩ := mem_epsPart h
      exact ⟨r, o, ht, by simp, rfl⟩
    | some m =>
      dsimp only at h
      split at h
      · rename_i hb
        obtain ⟨r, o, ht, rfl⟩ := mem_epsPart h
        refine ⟨r, o, ht, ?_, rfl⟩
        intro m' hm
        cases hm
        simpa using hb
      · simp at h

theorem filter_disjoint_length {α : Type} (p q : α → Bool) (hpq : ∀ x, ¬ (p x = true ∧ q x = true))
    (l : List α) : (l.filter p).length + (l.filter q).length ≤ l.length := by
  induction l with
  | nil => simp
  | cons x l ih =>
    have := hpq x
    simp only [List.filter_cons, List.length_cons]
    cases hp : p x <;> cases hq : q x <;> simp_all <;> omega

theorem length_ite_map_le {α β : Type} (b : Bool) (l : List α) (f : α → β) :
    (if b = true then l.map f else []).length ≤ l.length := by
  cases b <;> simp

theorem length_next_le (T : FST σ) (ml : Option Nat) (c : Cfg σ) :
    (next T ml c).length ≤ T.delta.length := by
  obtain ⟨rem, gen, q⟩ := c
  simp only [next]
  rw [List.length_append]
  refine Nat.le_trans (Nat.add_le_add_left (length_ite_map_le _ _ _) _) ?_
  cases rem with
  | nil =>
    rw [List.length_nil, Nat.zero_add]
    exact List.length_filter_le _ _
  | cons a rest =>
    have := filter_disjoint_length
      (fun t : σ × Option String × σ × List String => decide (t.1 = q ∧ t.2.1 = some a))
      (fun t => decide (t.1 = q ∧ t.2.1 = none)) (by
        intro t h
        simp only [decide_eq_true_eq] at h
        have := h.1.2.symm.trans h.2.2
        cases this) T.delta
    rw [List.length_map]
    exact this

/-! ### counting the unseen part of the universe -/

theorem filter_length_mono {α : Type} (p q : α → Bool) (h : ∀ x, p x = true → q x = true)
    (l : List α) : (l.filter p).length ≤ (l.filter q).length := by
  induction l with
  | nil => simp
  | cons x l ih =>
    have := h x
    cases hp : p x <;> cases hq : q x <;> simp_all
    omega

theorem filter_length_lt {α : Type} (p q : α → Bool) (h : ∀ x, p x = true → q x = true)
    (l : List α) (c : α) (hc : c ∈ l) (hpc : p c = false) (hqc : q c = true) :
    (l.filter p).length + 1 ≤ (l.filter q).length := by
  induction l with
  | nil => cases hc
  | cons x l ih =>
    rcases List.mem_cons.mp hc with rfl | hc
    · have := filter_length_mono p q h l
      simp only [List.filter_cons, hpc, hqc, if_true, List.length_cons]
      simpa using this
    · have := ih hc
      have := h x
      cases hp : p x <;> cases hq : q x <;> simp_all
      omega

/-- how many elements of `U` (with multiplicity) have not been seen -/
def unseen {α : Type} [DecidableEq α] (U seen : List α) : Nat :=
  (U.filter fun d => decide (d ∉ seen)).length

theorem unseen_le {α : Type} [DecidableEq α] (U seen : List α) : unseen U seen ≤ U.length :=
  List.length_filter_le _ _

theorem unseen_lt {α : Type} [DecidableEq α] (U : List α) (c : α) (seen : List α)
    (hc : c ∈ U) (hn : c ∉ seen) : unseen U (c :: seen) + 1 ≤ unseen U seen := by
  unfold unseen
  apply filter_length_lt _ _ _ U c hc
  · simp
  · simpa using hn
  · intro x hx
    simp only [decide_eq_true_eq] at hx ⊢
    exact fun h => hx (List.mem_cons_of_mem _ h)

/-! ### the counting argument -/

/-- if the configurations on the stack satisfy an invariant `P` kept by the successor function and
all configurations with `P` lie in the finite list `U`, then
`|stack| + |delta| * #(unseen of U)` rounds are enough -/
theorem loop_isSome (T : FST σ) (ml : Option Nat) (P : Cfg σ → Prop) (U : List (Cfg σ))
    (hPU : ∀ c, P c → c ∈ U) (hP : ∀ c c', P c → c' ∈ next T ml c → P c') :
    ∀ (fuel : Nat) (stack seen : List (Cfg σ)) (out : List (List String)),
      (∀ c ∈ stack, P c) →
      stack.length + T.delta.length * unseen U seen ≤ fuel →
      (translateLoop T ml fuel stack seen out).isSome := by
  intro fuel
  induction fuel with
  | zero =>
    intro stack seen out _ hf
    cases stack with
    | nil => simp [translateLoop]
    | cons c stack => simp at hf
  | succ n ih =>
    intro stack seen out hst hf
    cases stack with
    | nil => simp [translateLoop]
    | cons c stack =>
      rw [loop_succ]
      have hPc : P c := hst c List.mem_cons_self
      split
      · apply ih
        · intro d hd; exact hst d (List.mem_cons_of_mem _ hd)
        · simp only [List.length_cons] at hf
          omega
      · rename_i hcs
        apply ih
        · intro d hd
          simp only [List.mem_append, List.mem_reverse] at hd
          rcases hd with hd | hd
          · exact hP c d hPc hd
          · exact hst d (List.mem_cons_of_mem _ hd)
        · have h1 := unseen_lt U c seen (hPU c hPc) hcs
          have h2 := length_next_le T ml c
          have h3 := Nat.mul_le_mul_left T.delta.length h1
          rw [Nat.mul_succ] at h3
          simp only [List.length_cons, List.length_append, List.length_reverse] at hf ⊢
          omega

end Term
end FST
end Pfl
