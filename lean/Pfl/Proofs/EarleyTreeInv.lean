/-
The positional invariant of the tree-carrying Earley run: every state of the chart / of `processed`
carries a tree whose root is the head of its rule, whose sons spell the part of the body before the dot,
are well-formed trees of the skeleton grammar and yield the span of the state.
-/
import Pfl.Model.EarleyTree
import Mathlib.Data.List.Basic
namespace Pfl.Earley.Tr
open FsDag CFG

/-! ### lists -/

theorem mem_colGet_set {α : Type} (l : List (List α)) (i j : Nat) (d : List α) (x : α)
    (h : x ∈ colGet (l.set i d) j) : (i = j ∧ x ∈ d) ∨ x ∈ colGet l j := by
  unfold colGet at *
  rw [List.getD_eq_getElem?_getD, List.getElem?_set] at h
  rw [List.getD_eq_getElem?_getD]
  split at h
  · rename_i hij
    split at h
    · left; exact ⟨hij, by simpa using h⟩
    · simp at h
  · right; exact h

theorem mem_colGet_replicate {α : Type} (n j : Nat) (x : α) :
    x ∉ colGet (List.replicate n ([] : List α)) j := by
  unfold colGet
  rw [List.getD_eq_getElem?_getD, List.getElem?_replicate]
  split <;> simp

theorem span_append (w : List String) (b e f : Nat) (h1 : b ≤ e) (h2 : e ≤ f) :
    (w.drop b).take (e - b) ++ (w.drop e).take (f - e) = (w.drop b).take (f - b) := by
  have he : e = b + (e - b) := by omega
  have hf : f - b = (e - b) + (f - e) := by omega
  rw [hf, List.take_add, List.drop_drop]
  rw [← he]

theorem span_single (w : List String) (e : Nat) (t : String) (h : w[e]? = some t) :
    (w.drop e).take 1 = [t] := by
  obtain ⟨hlt, rfl⟩ := List.getElem?_eq_some_iff.1 h
  rw [List.drop_eq_getElem_cons hlt]
  rfl

/-! ### trees -/

theorem yieldL_append (l1 l2 : List PTree) : yieldL (l1 ++ l2) = yieldL l1 ++ yieldL l2 := by
  induction l1 with
  | nil => simp [yieldL]
  | cons a l ih => simp [yieldL, ih]

theorem wellFormedL_append (C : CFG) (l1 l2 : List PTree) :
    wellFormedL C (l1 ++ l2) = (wellFormedL C l1 && wellFormedL C l2) := by
  induction l1 with
  | nil => simp [wellFormedL]
  | cons a l ih => simp [wellFormedL, ih, Bool.and_assoc]

theorem node_eta (t : PTree) : t = .node t.sym t.sons := by cases t; rfl

theorem skeleton_prods (G : Grammar) :
    (skeleton G).prods = G.prods.map fun p => (p.head, p.body) := rfl

theorem skeleton_start (G : Grammar) : (skeleton G).start = some G.start := rfl

/-! ### the grammar -/

theorem prodOf_lt (G : Grammar) (k : Nat) (h : k < G.prods.length) : prodOf G k = G.prods[k] := by
  unfold prodOf
  rw [List.getD_eq_getElem?_getD, List.getElem?_eq_getElem h]
  rfl

theorem prodOf_ge (G : Grammar) (k : Nat) (h : ¬ k < G.prods.length) :
    prodOf G k = { head := G.gammaName, body := [.var G.start], feats := G.gammaFeats } := by
  unfold prodOf
  rw [List.getD_eq_getElem?_getD, List.getElem?_eq_none (by omega)]
  rfl

theorem start_mem_vars (G : Grammar) : G.start ∈ grammarVars G.prods G.start := by
  unfold grammarVars
  rw [List.mem_eraseDups]
  exact List.mem_cons_self ..

theorem nextSym_var_mem (G : Grammar) (s : EState) (A : String)
    (h : nextSym G s = some (.var A)) : A ∈ grammarVars G.prods G.start := by
  unfold nextSym at h
  by_cases hk : s.prod < G.prods.length
  · rw [prodOf_lt G _ hk] at h
    have hm := List.mem_of_getElem? h
    unfold grammarVars
    rw [List.mem_eraseDups]
    refine List.mem_cons_of_mem _ (List.mem_flatMap.2 ⟨G.prods[s.prod], List.getElem_mem hk,
      List.mem_cons_of_mem _ ?_⟩)
    rw [List.mem_filterMap]
    exact ⟨.var A, hm, rfl⟩
  · rw [prodOf_ge G _ hk] at h
    have hm := List.mem_of_getElem? h
    simp only [List.mem_singleton, Sym.var.injEq] at hm
    rw [hm]
    exact start_mem_vars G

theorem head_mem_vars_real (G : Grammar) (k : Nat) (hG : G.gammaName ∉ grammarVars G.prods G.start)
    (h : (prodOf G k).head ∈ grammarVars G.prods G.start) : k < G.prods.length := by
  by_contra hk
  rw [prodOf_ge G _ hk] at h
  exact hG h

/-! ### the invariant of one state -/

structure TreeOK (G : Grammar) (w : List String) (p : TState) : Prop where
  root : p.2.sym = if p.1.prod < G.prods.length then Sym.var (prodOf G p.1.prod).head else Sym.var "BEGIN"
  syms : p.2.sons.map PTree.sym = (prodOf G p.1.prod).body.take p.1.dot
  dot_le : p.1.dot ≤ (prodOf G p.1.prod).body.length
  be : p.1.b ≤ p.1.e
  ew : p.1.e ≤ w.length
  yld : yieldL p.2.sons = (w.drop p.1.b).take (p.1.e - p.1.b)
  wf : wellFormedL (skeleton G) p.2.sons = true

def Good (G : Grammar) (w : List String) (i : Nat) (p : TState) : Prop := TreeOK G w p ∧ p.1.e = i

theorem TreeOK.first (G : Grammar) (w : List String) (fs : Nat) :
    TreeOK G w ({ prod := G.prods.length, b := 0, e := 0, dot := 0, fs := fs }, .node (.var "BEGIN") []) := by
  refine ⟨?_, ?_, ?_, ?_, ?_, ?_, ?_⟩ <;> simp [PTree.sym, PTree.sons, yieldL, wellFormedL]

theorem TreeOK.pred (G : Grammar) (w : List String) (k i fs : Nat) (hk : k < G.prods.length)
    (hi : i ≤ w.length) :
    TreeOK G w ({ prod := k, b := i, e := i, dot := 0, fs := fs }, .node (.var G.prods[k].head) []) := by
  refine ⟨?_, ?_, ?_, ?_, ?_, ?_, ?_⟩ <;>
    simp [PTree.sym, PTree.sons, yieldL, wellFormedL, hk, prodOf_lt G k hk, hi]

theorem TreeOK.scan (G : Grammar) (w : List String) (p : TState) (t : String) (fs : Nat)
    (hp : TreeOK G w p) (hn : nextSym G p.1 = some (.ter t)) (hw : w[p.1.e]? = some t) :
    TreeOK G w ({ prod := p.1.prod, b := p.1.b, e := p.1.e + 1, dot := p.1.dot + 1, fs := fs },
      addSon p.2 (.node (.ter t) [])) := by
  obtain ⟨hlt, _⟩ := List.getElem?_eq_some_iff.1 hw
  unfold nextSym at hn
  obtain ⟨hdl, _⟩ := List.getElem?_eq_some_iff.1 hn
  refine ⟨?_, ?_, ?_, ?_, ?_, ?_, ?_⟩
  · exact hp.root
  · show (p.2.sons ++ [PTree.node (.ter t) []]).map PTree.sym = _
    rw [List.map_append, hp.syms, List.take_add_one, hn]; rfl
  · show p.1.dot + 1 ≤ (prodOf G p.1.prod).body.length
    omega
  · show p.1.b ≤ p.1.e + 1
    have := hp.be; omega
  · show p.1.e + 1 ≤ _
    omega
  · show yieldL (p.2.sons ++ [PTree.node (.ter t) []]) = (w.drop p.1.b).take (p.1.e + 1 - p.1.b)
    rw [yieldL_append, hp.yld, ← span_append w p.1.b p.1.e (p.1.e + 1) hp.be (by omega)]
    congr 1
    rw [show p.1.e + 1 - p.1.e = 1 by omega, span_single w _ t hw]
    simp [yieldL, yieldT]
  · show wellFormedL (skeleton G) (p.2.sons ++ [PTree.node (.ter t) []]) = true
    rw [wellFormedL_append, hp.wf]
    simp [wellFormedL, wellFormedT]

/-- a completed state of a real production carries a well-formed tree of its span -/
theorem TreeOK.complete (G : Grammar) (w : List String) (s : TState) (hs : TreeOK G w s)
    (hk : s.1.prod < G.prods.length) (hc : incomplete G s.1 = false) :
    s.2.sym = .var (prodOf G s.1.prod).head ∧ wellFormedT (skeleton G) s.2 = true ∧
      yieldT s.2 = (w.drop s.1.b).take (s.1.e - s.1.b) := by
  have hroot := hs.root
  rw [if_pos hk] at hroot
  refine ⟨hroot, ?_, ?_⟩
  · rw [node_eta s.2, hroot, wellFormedT, hs.wf, hs.syms, skeleton_prods]
    have hd : s.1.dot = (prodOf G s.1.prod).body.length := by
      have := hs.dot_le
      unfold incomplete at hc
      simp only [decide_eq_false_iff_not] at hc
      omega
    rw [hd, List.take_length, prodOf_lt G _ hk]
    simp only [Bool.and_true, decide_eq_true_eq, List.mem_map]
    exact ⟨G.prods[s.1.prod], List.getElem_mem hk, rfl⟩
  · rw [node_eta s.2, hroot, yieldT, hs.yld]

theorem TreeOK.adv (G : Grammar) (w : List String) (nx s : TState) (fs : Nat)
    (hG : G.gammaName ∉ grammarVars G.prods G.start)
    (hnx : TreeOK G w nx) (hs : TreeOK G w s) (hbe : nx.1.e = s.1.b)
    (hc : incomplete G s.1 = false)
    (hn : nextSym G nx.1 = some (.var (prodOf G s.1.prod).head)) :
    TreeOK G w ({ prod := nx.1.prod, b := nx.1.b, e := s.1.e, dot := nx.1.dot + 1, fs := fs },
      addSon nx.2 s.2) := by
  have hk : s.1.prod < G.prods.length :=
    head_mem_vars_real G _ hG (nextSym_var_mem G _ _ hn)
  obtain ⟨h1, h2, h3⟩ := hs.complete G w s hk hc
  unfold nextSym at hn
  obtain ⟨hdl, _⟩ := List.getElem?_eq_some_iff.1 hn
  refine ⟨?_, ?_, ?_, ?_, ?_, ?_, ?_⟩
  · exact hnx.root
  · show (nx.2.sons ++ [s.2]).map PTree.sym = _
    rw [List.map_append, hnx.syms, List.take_add_one, hn, List.map_cons, h1]; rfl
  · show nx.1.dot + 1 ≤ (prodOf G nx.1.prod).body.length
    omega
  · show nx.1.b ≤ s.1.e
    have := hnx.be; have := hs.be; omega
  · exact hs.ew
  · show yieldL (nx.2.sons ++ [s.2]) = (w.drop nx.1.b).take (s.1.e - nx.1.b)
    rw [yieldL_append, hnx.yld, ← span_append w nx.1.b nx.1.e s.1.e hnx.be (by have := hs.be; omega)]
    congr 1
    rw [yieldL, yieldL, List.append_nil, h3, hbe]
  · show wellFormedL (skeleton G) (nx.2.sons ++ [s.2]) = true
    rw [wellFormedL_append, hnx.wf, wellFormedL, wellFormedL, h2]
    rfl

/-! ### the invariant of the tables -/

def TInv (G : Grammar) (w : List String) (T : TablesT) : Prop :=
  (∀ i, ∀ p ∈ colGet T.chart i, Good G w i p) ∧
  (∀ i, ∀ e ∈ colGet T.processed i, ∀ p ∈ e.2, Good G w i p)

theorem TInv.withStore {G : Grammar} {w : List String} {T : TablesT} (h : TInv G w T) (st : Store) :
    TInv G w { T with store := st } := h

theorem snapshot_good {G : Grammar} {w : List String} {T : TablesT} (h : TInv G w T) (i : Nat)
    (p : TState) (hp : p ∈ (colGet T.processed i).flatMap (·.2)) : Good G w i p := by
  obtain ⟨e, he, hpe⟩ := List.mem_flatMap.1 hp
  exact h.2 i e he p hpe

theorem procAddT_chart (G : Grammar) (T : TablesT) (i : Nat) (s : TState) :
    (procAddT G T i s).1.chart = T.chart := by
  unfold procAddT
  simp only
  cases (colGet T.processed i).find? (fun x => decide (x.1 = keyOf G s.1)) <;> simp only <;>
    split <;> rfl

theorem procAddT_inv {G : Grammar} {w : List String} {T : TablesT} (h : TInv G w T) (i : Nat)
    (s : TState) (hs : Good G w i s) : TInv G w (procAddT G T i s).1 := by
  refine ⟨by rw [procAddT_chart]; exact h.1, ?_⟩
  have key : ∀ d' : List (Key × List TState),
      (∀ e ∈ d', ∀ p ∈ e.2, p = s ∨ ∃ e0 ∈ colGet T.processed i, p ∈ e0.2) →
      ∀ j, ∀ e ∈ colGet (T.processed.set i d') j, ∀ p ∈ e.2, Good G w j p := by
    intro d' hd' j e he p hp
    rcases mem_colGet_set _ _ _ _ _ he with ⟨rfl, he'⟩ | he'
    · rcases hd' e he' p hp with rfl | ⟨e0, he0, hp0⟩
      · exact hs
      · exact h.2 i e0 he0 p hp0
    · exact h.2 j e he' p hp
  have hA : ∀ k : Key, ∀ e ∈ (if ((colGet T.processed i).any fun x => decide (x.1 = k)) = true
      then colGet T.processed i else colGet T.processed i ++ [(k, [])]),
      ∀ p ∈ e.2, p = s ∨ ∃ e0 ∈ colGet T.processed i, p ∈ e0.2 := by
    intro k e he p hp
    split at he
    · exact Or.inr ⟨e, he, hp⟩
    · rcases List.mem_append.1 he with he | he
      · exact Or.inr ⟨e, he, hp⟩
      · simp only [List.mem_singleton] at he
        subst he
        simp at hp
  have hB : ∀ k : Key, ∀ e ∈ (if ((colGet T.processed i).any fun x => decide (x.1 = k)) = true
      then (colGet T.processed i).map fun e => if e.1 = k then (e.1, e.2 ++ [s]) else e
      else colGet T.processed i ++ [(k, [s])]),
      ∀ p ∈ e.2, p = s ∨ ∃ e0 ∈ colGet T.processed i, p ∈ e0.2 := by
    intro k e he p hp
    split at he
    · obtain ⟨e0, he0, rfl⟩ := List.mem_map.1 he
      split at hp
      · rcases List.mem_append.1 hp with hp | hp
        · exact Or.inr ⟨e0, he0, hp⟩
        · left; simpa using hp
      · exact Or.inr ⟨e0, he0, hp⟩
    · rcases List.mem_append.1 he with he | he
      · exact Or.inr ⟨e, he, hp⟩
      · simp only [List.mem_singleton] at he
        subst he
        left; simpa using hp
  unfold procAddT
  simp only
  cases (colGet T.processed i).find? (fun x => decide (x.1 = keyOf G s.1)) <;> simp only <;> split
  · exact key _ (hA _)
  · exact key _ (hB _)
  · exact key _ (hA _)
  · exact key _ (hB _)

theorem pushIfNewT_inv {G : Grammar} {w : List String} {T : TablesT} (h : TInv G w T) (i : Nat)
    (s : TState) (hs : Good G w i s) : TInv G w (pushIfNewT G T i s) := by
  unfold pushIfNewT
  have h' := procAddT_inv h i s hs
  simp only
  split
  · refine ⟨?_, h'.2⟩
    intro j p hp
    rcases mem_colGet_set _ _ _ _ _ hp with ⟨rfl, hp'⟩ | hp'
    · rcases List.mem_append.1 hp' with hp' | hp'
      · exact h'.1 i p hp'
      · simp only [List.mem_singleton] at hp'
        subst hp'; exact hs
    · exact h'.1 j p hp'
  · exact h'

theorem advanceT_inv {G : Grammar} {w : List String} {T : TablesT}
    (hG : G.gammaName ∉ grammarVars G.prods G.start) (h : TInv G w T) (nx s : TState)
    (hnx : TreeOK G w nx) (hs : TreeOK G w s) (hbe : nx.1.e = s.1.b)
    (hc : incomplete G s.1 = false)
    (hn : nextSym G nx.1 = some (.var (prodOf G s.1.prod).head)) :
    TInv G w (advanceT G T nx s) := by
  unfold advanceT
  simp only
  split
  · exact h
  · split
    · exact h
    · split
      · exact pushIfNewT_inv (h.withStore _) _ _ ⟨TreeOK.adv G w nx s _ hG hnx hs hbe hc hn, rfl⟩
      · exact h

theorem foldl_inv {α : Type} (P : TablesT → Prop) (f : TablesT → α → TablesT) (l : List α)
    (h : ∀ T x, x ∈ l → P T → P (f T x)) (T : TablesT) (hT : P T) : P (l.foldl f T) := by
  induction l generalizing T with
  | nil => exact hT
  | cons a l ih =>
    simp only [List.foldl_cons]
    exact ih (fun T x hx => h T x (List.mem_cons_of_mem _ hx)) _ (h T a (List.mem_cons_self ..) hT)

theorem mem_zip_range {α : Type} (l : List α) (pk : α × Nat) (h : pk ∈ l.zip (List.range l.length)) :
    ∃ hk : pk.2 < l.length, l[pk.2] = pk.1 := by
  obtain ⟨k, hk, hpk⟩ := List.getElem_of_mem h
  simp only [List.getElem_zip, List.getElem_range] at hpk
  simp only [List.length_zip, List.length_range, Nat.min_self] at hk
  subst hpk
  exact ⟨hk, rfl⟩

theorem predictorT_inv {G : Grammar} {w : List String} {T : TablesT}
    (hG : G.gammaName ∉ grammarVars G.prods G.start) (h : TInv G w T) (s : TState)
    (hs : TreeOK G w s) : TInv G w (predictorT G T s) := by
  unfold predictorT
  split
  · rename_i v hv
    simp only
    have h1 : TInv G w ((G.prods.zip (List.range G.prods.length)).foldl (fun T pk =>
        if pk.1.head = v then
          pushIfNewT G T s.1.e ({ prod := pk.2, b := s.1.e, e := s.1.e, dot := 0, fs := pk.1.feats },
            .node (.var pk.1.head) [])
        else T) T) := by
      apply foldl_inv (TInv G w) _ _ _ _ h
      intro T pk hpk hT
      split
      · obtain ⟨hk, hkk⟩ := mem_zip_range _ _ hpk
        refine pushIfNewT_inv hT _ _ ⟨?_, rfl⟩
        rw [← hkk]
        exact TreeOK.pred G w pk.2 s.1.e _ hk hs.ew
      · exact hT
    revert h1
    generalize ((G.prods.zip (List.range G.prods.length)).foldl _ T) = T1
    intro h1
    apply foldl_inv (TInv G w) _ _ _ _ h1
    intro T' c hc hT'
    split
    · rename_i hcond
      obtain ⟨hc1, hc2, hc3⟩ := hcond
      have hcg := snapshot_good h1 _ _ hc
      refine advanceT_inv hG hT' s c hs hcg.1 hc2.symm (by simpa using hc1) ?_
      rw [hv, hc3]
    · exact hT'
  · exact h

theorem scannerT_inv {G : Grammar} {w : List String} {T : TablesT} (h : TInv G w T) (s : TState)
    (t : String) (hs : TreeOK G w s) (hn : nextSym G s.1 = some (.ter t))
    (hw : w[s.1.e]? = some t) : TInv G w (scannerT G T s) := by
  unfold scannerT
  rw [hn]
  exact pushIfNewT_inv h _ _ ⟨TreeOK.scan G w s t _ hs hn hw, rfl⟩

theorem completerT_inv {G : Grammar} {w : List String} {T : TablesT}
    (hG : G.gammaName ∉ grammarVars G.prods G.start) (h : TInv G w T) (s : TState)
    (hs : TreeOK G w s) (hc : incomplete G s.1 = false) : TInv G w (completerT G T s) := by
  unfold completerT
  simp only
  apply foldl_inv (TInv G w) _ _ _ _ h
  intro T' nx hnx hT'
  split
  · rename_i hcond
    have hg := snapshot_good h _ _ hnx
    exact advanceT_inv hG hT' nx s hg.1 hs hg.2 hc hcond.2
  · exact hT'

theorem columnLoopT_inv {G : Grammar} {w : List String}
    (hG : G.gammaName ∉ grammarVars G.prods G.start) (i f : Nat) (T T' : TablesT)
    (h : TInv G w T) (hr : columnLoopT G w i f T = some T') : TInv G w T' := by
  induction f generalizing T with
  | zero => simp [columnLoopT] at hr
  | succ f ih =>
    unfold columnLoopT at hr
    cases hl : (colGet T.chart i).getLast? with
    | none => rw [hl] at hr; simp only [Option.some.injEq] at hr; rw [← hr]; exact h
    | some s =>
      rw [hl] at hr
      simp only at hr
      have hsm : s ∈ colGet T.chart i := List.mem_of_getLast? hl
      obtain ⟨hs, hse⟩ := h.1 i s hsm
      have h0 : TInv G w { T with chart := T.chart.set i (colGet T.chart i).dropLast } := by
        refine ⟨?_, h.2⟩
        intro j p hp
        rcases mem_colGet_set _ _ _ _ _ hp with ⟨rfl, hp'⟩ | hp'
        · exact h.1 i p (List.dropLast_subset _ hp')
        · exact h.1 j p hp'
      refine ih _ ?_ hr
      split
      · split
        · exact predictorT_inv hG h0 s hs
        · rename_i t ht
          split
          · rename_i hw
            rw [← hse] at hw
            exact scannerT_inv h0 s t hs ht hw
          · exact h0
        · exact h0
      · rename_i hinc
        exact completerT_inv hG h0 s hs (by simpa using hinc)

theorem cols_inv {G : Grammar} {w : List String}
    (hG : G.gammaName ∉ grammarVars G.prods G.start) (fuel : Nat) (l : List Nat) (T T' : TablesT)
    (h : TInv G w T) (hr : parseTree.cols G w fuel l T = some T') : TInv G w T' := by
  induction l generalizing T with
  | nil => simp only [parseTree.cols, Option.some.injEq] at hr; rw [← hr]; exact h
  | cons i l ih =>
    unfold parseTree.cols at hr
    cases hc : columnLoopT G w i fuel T with
    | none => rw [hc] at hr; simp at hr
    | some T1 =>
      rw [hc] at hr
      exact ih T1 (columnLoopT_inv hG i fuel T T1 h hc) hr

theorem parseTree_valid' (G : Grammar) (st0 : Store) (word : List String) (fuel : Nat) (t : PTree)
    (hG : G.gammaName ∉ grammarVars G.prods G.start)
    (h : parseTree G st0 word fuel = some (some t)) :
    (skeleton G).treeValid t word = true := by
  unfold parseTree at h
  simp only at h
  have h1 : TInv G word (pushIfNewT G ⟨st0, List.replicate (word.length + 1) [],
      List.replicate (word.length + 1) []⟩ 0
      ({ prod := G.prods.length, b := 0, e := 0, dot := 0, fs := G.gammaFeats },
        .node (.var "BEGIN") [])) := by
    refine pushIfNewT_inv ?_ _ _ ⟨TreeOK.first G word _, rfl⟩
    constructor
    · intro i p hp; exact absurd hp (mem_colGet_replicate _ _ _)
    · intro i e he; exact absurd he (mem_colGet_replicate _ _ _)
  cases hc : parseTree.cols G word fuel (List.range (word.length + 1)) _ with
  | none => rw [hc] at h; simp at h
  | some T3 =>
    rw [hc] at h
    simp only [Option.some.injEq, Option.map_eq_some_iff] at h
    obtain ⟨s, hf, rfl⟩ := h
    have h3 := cols_inv hG fuel _ _ T3 h1 hc
    have hsm := List.mem_of_find?_eq_some hf
    have hsp := List.find?_some hf
    simp only [Bool.and_eq_true, decide_eq_true_eq, Bool.not_eq_true', Bool.decide_and] at hsp
    obtain ⟨hb, hinc, hhead⟩ := hsp
    obtain ⟨hs, hse⟩ := snapshot_good h3 _ _ hsm
    have hk : s.1.prod < G.prods.length :=
      head_mem_vars_real G _ hG (by rw [hhead]; exact start_mem_vars G)
    obtain ⟨r1, r2, r3⟩ := hs.complete G word s hk hinc
    unfold treeValid
    rw [skeleton_start]
    simp only [Bool.and_eq_true, decide_eq_true_eq]
    refine ⟨⟨?_, r2⟩, ?_⟩
    · rw [r1, hhead]
    · rw [r3, hb, hse]; simp

end Pfl.Earley.Tr
