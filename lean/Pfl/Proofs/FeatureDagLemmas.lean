/-
Helper lemmas for C18 (pointer-level model of `FeatureStructure.unify`, `Pfl/Model/FeatureDag.lean`).
Parts: (1) store access, `deref`, invariants, semantic models; (2) primitive store updates;
(3) semantic soundness of `unify`; (4) structural correctness of `unify` on ranked stores;
(5) characterisation of `sat (read ..)`; (6) specification of `buildInto`; (7) assembly.
-/
import Pfl.Model.FeatureDag
import Mathlib.Data.List.Basic
import Std.Data.String.ToNat
namespace Pfl
namespace FsDag
namespace Lem
open FsGround

/-! ## Part: Base -/

abbrev ptr (st : Store) (i : Nat) : Option Nat := (get st i).pointer
abbrev cont (st : Store) (i : Nat) : List (String × Nat) := (get st i).content
abbrev val (st : Store) (i : Nat) : Option String := (get st i).value

def emptyNode : Node := { value := none, content := [], pointer := none }

/-! ### store access -/

theorem get_ge {st : Store} {i : Nat} (h : st.length ≤ i) : get st i = emptyNode := by
  simp [get, emptyNode, List.getD_eq_getElem?_getD, List.getElem?_eq_none h]

theorem get_lt {st : Store} {i : Nat} (h : i < st.length) : get st i = st[i] := by
  simp [get, List.getD_eq_getElem?_getD, List.getElem?_eq_getElem h]

theorem get_set (st : Store) (i j : Nat) (n : Node) :
    get (st.set i n) j = if i = j ∧ i < st.length then n else get st j := by
  simp only [get, List.getD_eq_getElem?_getD, List.getElem?_set]
  by_cases h : i = j
  · subst h
    by_cases h2 : i < st.length
    · simp [h2]
    · simp [h2]
  · simp [h]

theorem get_set_self {st : Store} {i : Nat} (n : Node) (h : i < st.length) :
    get (st.set i n) i = n := by
  rw [get_set]; simp [h]

theorem get_set_ne {st : Store} {i j : Nat} (n : Node) (h : i ≠ j) :
    get (st.set i n) j = get st j := by
  rw [get_set]; simp [h]

theorem get_append_lt {st : Store} (l : Store) {i : Nat} (h : i < st.length) :
    get (st ++ l) i = get st i := by
  simp [get, List.getD_eq_getElem?_getD, List.getElem?_append_left h]

theorem get_append_len (st : Store) (n : Node) : get (st ++ [n]) st.length = n := by
  simp [get, List.getD_eq_getElem?_getD]

theorem ptr_lt {st : Store} {i j : Nat} (h : ptr st i = some j) : i < st.length := by
  by_contra hc
  rw [ptr, get_ge (Nat.le_of_not_lt hc)] at h
  simp [emptyNode] at h

theorem cont_lt {st : Store} {i : Nat} {e : String × Nat} (h : e ∈ cont st i) : i < st.length := by
  by_contra hc
  rw [cont, get_ge (Nat.le_of_not_lt hc)] at h
  simp [emptyNode] at h

theorem val_lt {st : Store} {i : Nat} {v : String} (h : val st i = some v) : i < st.length := by
  by_contra hc
  rw [val, get_ge (Nat.le_of_not_lt hc)] at h
  simp [emptyNode] at h

/-! ### lookupC -/

theorem lookupC_mem {g : String} {x : Nat} : ∀ {c : List (String × Nat)},
    lookupC g c = some x → (g, x) ∈ c
  | [], h => by simp [lookupC] at h
  | (h', y) :: rest, h => by
    simp only [lookupC] at h
    split at h
    · rename_i hg; subst hg; simp at h; subst h; simp
    · exact List.mem_cons_of_mem _ (lookupC_mem h)

theorem lookupC_isSome_of_mem {g : String} {x : Nat} : ∀ {c : List (String × Nat)},
    (g, x) ∈ c → ∃ x', lookupC g c = some x'
  | [], h => by simp at h
  | (h', y) :: rest, h => by
    simp only [lookupC]
    split
    · exact ⟨_, rfl⟩
    · rename_i hg
      rcases List.mem_cons.1 h with h | h
      · simp only [Prod.mk.injEq] at h; exact absurd h.1.symm hg
      · exact lookupC_isSome_of_mem h

theorem lookupC_append (g : String) (c d : List (String × Nat)) :
    lookupC g (c ++ d) = match lookupC g c with
      | some x => some x
      | none => lookupC g d := by
  induction c with
  | nil => simp [lookupC]
  | cons e c ih =>
    obtain ⟨h, y⟩ := e
    simp only [List.cons_append, lookupC]
    split
    · rfl
    · exact ih

theorem lookupC_append_some {g : String} {c : List (String × Nat)} {x : Nat}
    (d : List (String × Nat)) (h : lookupC g c = some x) : lookupC g (c ++ d) = some x := by
  rw [lookupC_append, h]

theorem lookupC_append_single_self {g : String} {c : List (String × Nat)} (n : Nat)
    (h : lookupC g c = none) : lookupC g (c ++ [(g, n)]) = some n := by
  rw [lookupC_append, h]; simp [lookupC]

theorem lookupC_append_single_ne {g g' : String} (c : List (String × Nat)) (n : Nat)
    (h : g' ≠ g) : lookupC g (c ++ [(g', n)]) = lookupC g c := by
  rw [lookupC_append]
  cases lookupC g c with
  | some x => rfl
  | none => simp [lookupC, h]

/-! ### derefF / deref -/

theorem derefF_zero (st : Store) (i : Nat) : derefF st 0 i = i := rfl

theorem derefF_succ_some {st : Store} {i j : Nat} (f : Nat) (h : ptr st i = some j) :
    derefF st (f + 1) i = derefF st f j := by
  simp only [derefF]; rw [show (get st i).pointer = some j from h]

theorem derefF_none {st : Store} {i : Nat} (f : Nat) (h : ptr st i = none) :
    derefF st f i = i := by
  cases f with
  | zero => rfl
  | succ f => simp only [derefF]; rw [show (get st i).pointer = none from h]

theorem derefF_stable {st : Store} : ∀ (f : Nat) (i : Nat),
    ptr st (derefF st f i) = none → derefF st (f + 1) i = derefF st f i := by
  intro f
  induction f with
  | zero => intro i h; simp only [derefF_zero] at h; rw [derefF_none _ h]; rfl
  | succ f ih =>
    intro i h
    cases hp : ptr st i with
    | none => rw [derefF_none _ hp, derefF_none _ hp]
    | some j =>
      rw [derefF_succ_some _ hp] at h
      rw [derefF_succ_some _ hp, derefF_succ_some _ hp]
      exact ih j h

theorem derefF_stable_le {st : Store} {f f' : Nat} {i : Nat} (hle : f ≤ f')
    (h : ptr st (derefF st f i) = none) : derefF st f' i = derefF st f i := by
  induction hle with
  | refl => rfl
  | step _ ih => rw [derefF_stable _ _ (by rw [ih]; exact h), ih]

/-- acyclic pointer chains -/
def Acyc (st : Store) : Prop := ∃ h : Nat → Nat, ∀ i j, ptr st i = some j → h j < h i

theorem chain_list {st : Store} {h : Nat → Nat} (hh : ∀ i j, ptr st i = some j → h j < h i) :
    ∀ (f i : Nat), ptr st (derefF st f i) ≠ none →
      ∃ l : List Nat, l.length = f + 1 ∧ l.Pairwise (fun a b => h b < h a) ∧
        ∀ x ∈ l, h x ≤ h i ∧ ptr st x ≠ none := by
  intro f
  induction f with
  | zero =>
    intro i hi
    exact ⟨[i], rfl, List.pairwise_singleton _ _, by simpa [derefF_zero] using hi⟩
  | succ f ih =>
    intro i hi
    cases hp : ptr st i with
    | none => rw [derefF_none _ hp] at hi; exact absurd hp hi
    | some j =>
      rw [derefF_succ_some _ hp] at hi
      obtain ⟨l, hl, hpw, hall⟩ := ih j hi
      have hji := hh i j hp
      refine ⟨i :: l, by simp [hl], List.pairwise_cons.2 ⟨fun x hx => ?_, hpw⟩, ?_⟩
      · exact Nat.lt_of_le_of_lt (hall x hx).1 hji
      · intro x hx
        rcases List.mem_cons.1 hx with rfl | hx
        · exact ⟨Nat.le_refl _, by rw [hp]; simp⟩
        · exact ⟨Nat.le_trans (hall x hx).1 (Nat.le_of_lt hji), (hall x hx).2⟩

theorem chain_len_le {st : Store} {h : Nat → Nat} {l : List Nat}
    (hpw : l.Pairwise (fun a b => h b < h a)) (hall : ∀ x ∈ l, ptr st x ≠ none) :
    l.length ≤ st.length := by
  have hnd : l.Nodup := by
    refine List.Pairwise.imp ?_ hpw
    intro a b hab he; subst he; exact Nat.lt_irrefl _ hab
  have hsub : l ⊆ List.range st.length := by
    intro x hx
    rw [List.mem_range]
    cases hp : ptr st x with
    | none => exact absurd hp (hall x hx)
    | some j => exact ptr_lt hp
  simpa using hnd.length_le_of_subset hsub

theorem derefF_ptr_none_of_pred {st : Store} (ha : Acyc st) {i j : Nat} (hp : ptr st i = some j) :
    ptr st (derefF st (st.length - 1) j) = none := by
  obtain ⟨h, hh⟩ := ha
  by_contra hc
  obtain ⟨l, hl, hpw, hall⟩ := chain_list hh (st.length - 1) j hc
  have hji := hh i j hp
  have h1 : (i :: l).Pairwise (fun a b => h b < h a) :=
    List.pairwise_cons.2 ⟨fun x hx => Nat.lt_of_le_of_lt (hall x hx).1 hji, hpw⟩
  have h2 : ∀ x ∈ i :: l, ptr st x ≠ none := by
    intro x hx
    rcases List.mem_cons.1 hx with rfl | hx
    · rw [hp]; simp
    · exact (hall x hx).2
  have := chain_len_le h1 h2
  have hpos := ptr_lt hp
  simp only [List.length_cons, hl] at this
  omega

theorem deref_ptr_none {st : Store} (ha : Acyc st) (i : Nat) : ptr st (deref st i) = none := by
  cases hp : ptr st i with
  | none => rw [deref, derefF_none _ hp]; exact hp
  | some j =>
    have hpos := ptr_lt hp
    have h1 := derefF_ptr_none_of_pred ha hp
    have : deref st i = derefF st (st.length - 1) j := by
      rw [deref, show st.length = (st.length - 1) + 1 by omega, derefF_succ_some _ hp]
      simp
    rw [this]; exact h1

theorem deref_of_none {st : Store} {i : Nat} (h : ptr st i = none) : deref st i = i :=
  derefF_none _ h

theorem deref_step {st : Store} (ha : Acyc st) {i j : Nat} (hp : ptr st i = some j) :
    deref st i = deref st j := by
  have hpos := ptr_lt hp
  have h1 := derefF_ptr_none_of_pred ha hp
  have e1 : deref st i = derefF st (st.length - 1) j := by
    rw [deref, show st.length = (st.length - 1) + 1 by omega, derefF_succ_some _ hp]
    simp
  rw [e1, deref]
  exact (derefF_stable_le (by omega) h1).symm

theorem deref_idem {st : Store} (ha : Acyc st) (i : Nat) : deref st (deref st i) = deref st i :=
  deref_of_none (deref_ptr_none ha i)

/-- `deref` is the unique function compatible with the pointers -/
theorem deref_unique {st : Store} (ha : Acyc st) (F : Nat → Nat)
    (h0 : ∀ i, ptr st i = none → F i = i) (h1 : ∀ i j, ptr st i = some j → F i = F j) :
    ∀ i, deref st i = F i := by
  obtain ⟨h, hh⟩ := id ha
  intro i
  induction hn : h i using Nat.strongRecOn generalizing i with
  | _ n ih =>
    cases hp : ptr st i with
    | none => rw [deref_of_none hp, h0 i hp]
    | some j =>
      rw [deref_step ha hp, h1 i j hp]
      exact ih (h j) (by rw [← hn]; exact hh i j hp) j rfl

theorem derefF_frame {st st' : Store} (P : Nat → Prop)
    (hP : ∀ j, P j → ptr st' j = ptr st j)
    (hcl : ∀ j j2, P j → ptr st j = some j2 → P j2) :
    ∀ (f i : Nat), P i → derefF st' f i = derefF st f i ∧ P (derefF st f i) := by
  intro f
  induction f with
  | zero => intro i hi; exact ⟨rfl, hi⟩
  | succ f ih =>
    intro i hi
    cases hp : ptr st i with
    | none =>
      rw [derefF_none _ hp, derefF_none _ (by rw [hP i hi]; exact hp)]
      exact ⟨rfl, hi⟩
    | some j =>
      rw [derefF_succ_some _ hp, derefF_succ_some _ (by rw [hP i hi]; exact hp)]
      exact ih j (hcl i j hi hp)

/-- pointers unchanged on a pointer-closed set: `deref` unchanged there -/
theorem deref_frame {st st' : Store} (ha : Acyc st) (hlen : st.length ≤ st'.length) (P : Nat → Prop)
    (hP : ∀ j, P j → ptr st' j = ptr st j)
    (hcl : ∀ j j2, P j → ptr st j = some j2 → P j2) (i : Nat) (hi : P i) :
    deref st' i = deref st i := by
  obtain ⟨e, hc⟩ := derefF_frame P hP hcl st.length i hi
  have hn : ptr st' (derefF st' st.length i) = none := by
    rw [e, hP _ hc]; exact deref_ptr_none ha i
  rw [deref, derefF_stable_le hlen hn, e]; rfl

theorem deref_mem_closed {st : Store} (P : Nat → Prop)
    (hcl : ∀ j j2, P j → ptr st j = some j2 → P j2) (i : Nat) (hi : P i) : P (deref st i) :=
  (derefF_frame (st := st) (st' := st) P (fun _ _ => rfl) hcl st.length i hi).2

/-! ### invariants -/

/-- all references are in range -/
structure Rng (st : Store) : Prop where
  p : ∀ i j, ptr st i = some j → j < st.length
  c : ∀ i g x, (g, x) ∈ cont st i → x < st.length

theorem deref_lt {st : Store} (hr : Rng st) {i : Nat} (hi : i < st.length) :
    deref st i < st.length :=
  deref_mem_closed (· < st.length) (fun j j2 _ h => hr.p j j2 h) i hi

/-- rank of the `g`-child of a record of rank `r` (root 2, "agr" record 1, leaves 0) -/
def cr (r : Nat) (g : String) : Nat := if r = 2 ∧ g = "agr" then 1 else 0

theorem cr_lt {r : Nat} (g : String) (h : 0 < r) : cr r g < r := by
  unfold cr; split <;> omega

structure InvB (st : Store) (rk : Nat → Nat) : Prop where
  acyc : Acyc st
  rkp : ∀ i j, ptr st i = some j → rk i = rk j
  rkc : ∀ i g x, (g, x) ∈ cont st i → rk x = cr (rk i) g ∧ 0 < rk i
  rkv : ∀ i v, val st i = some v → rk i = 0

theorem rk_deref {st : Store} {rk : Nat → Nat} (hI : InvB st rk) (i : Nat) :
    rk (deref st i) = rk i :=
  deref_mem_closed (fun j => rk j = rk i) (fun j j2 hj h => by rw [← hI.rkp j j2 h]; exact hj) i rfl

theorem cont_nil_of_rk_zero {st : Store} {rk : Nat → Nat} (hI : InvB st rk) {i : Nat}
    (h : rk i = 0) : cont st i = [] := by
  cases hc : cont st i with
  | nil => rfl
  | cons e rest =>
    have := (hI.rkc i e.1 e.2 (by rw [hc]; simp)).2
    omega

/-- the representative of the class of `i` has every feature of `i`, with equivalent value -/
def CCat (st : Store) (i : Nat) : Prop :=
  ∀ g x, lookupC g (cont st i) = some x →
    ∃ x', lookupC g (cont st (deref st i)) = some x' ∧ deref st x' = deref st x

def CCle (st : Store) (rk : Nat → Nat) (k : Nat) : Prop := ∀ i, rk i ≤ k → CCat st i

theorem CCat_of_rep {st : Store} {i : Nat} (h : ptr st i = none) : CCat st i := by
  intro g x hx
  rw [deref_of_none h]
  exact ⟨x, hx, rfl⟩

/-! ### semantic models: every object denotes a function from paths to values -/

structure Model (st : Store) (ρ : Nat → List String → String) : Prop where
  p : ∀ i j, ptr st i = some j → ρ i = ρ j
  v : ∀ i v, val st i = some v → ρ i [] = v
  c : ∀ i g x, (g, x) ∈ cont st i → ∀ q, ρ i (g :: q) = ρ x q

theorem model_deref {st : Store} {ρ : Nat → List String → String} (hm : Model st ρ) (i : Nat) :
    ρ (deref st i) = ρ i :=
  deref_mem_closed (fun j => ρ j = ρ i) (fun j j2 hj h => by rw [← hm.p j j2 h]; exact hj) i rfl

/-! ### byPath -/

theorem byPath_nil (st : Store) (i : Nat) : byPath st i [] = some i := rfl

theorem byPath_cons (st : Store) (i : Nat) (g : String) (p : List String) :
    byPath st i (g :: p) = match lookupC g (cont st (deref st i)) with
      | some x => byPath st x p
      | none => none := rfl

theorem byPath_cons_of {st : Store} {i : Nat} {g : String} {x : Nat} (p : List String)
    (h : lookupC g (cont st (deref st i)) = some x) : byPath st i (g :: p) = byPath st x p := by
  rw [byPath_cons, h]

theorem byPath_congr {st : Store} {i j : Nat} (h : deref st i = deref st j) (g : String)
    (p : List String) : byPath st i (g :: p) = byPath st j (g :: p) := by
  rw [byPath_cons, byPath_cons, h]

theorem model_byPath {st : Store} {ρ : Nat → List String → String} (hm : Model st ρ) :
    ∀ (p : List String) (i n : Nat), byPath st i p = some n → ∀ q, ρ i (p ++ q) = ρ n q := by
  intro p
  induction p with
  | nil => intro i n h q; simp [byPath_nil] at h; subst h; rfl
  | cons g p ih =>
    intro i n h q
    rw [byPath_cons] at h
    cases hl : lookupC g (cont st (deref st i)) with
    | none => rw [hl] at h; simp at h
    | some x =>
      rw [hl] at h
      have := hm.c _ g x (lookupC_mem hl) (p ++ q)
      rw [model_deref hm] at this
      rw [List.cons_append, this]
      exact ih x n h q


/-! ## Part: Prim -/

/-! ### equations of `unify` -/

/-- the field `g` of record `ca`, created (fresh empty object) when missing -/
def addFresh (st : Store) (ca : Nat) (g : String) : Store :=
  (st ++ [emptyNode]).set ca
    { get (st ++ [emptyNode]) ca with content := (get (st ++ [emptyNode]) ca).content ++ [(g, st.length)] }

def fieldOf (st : Store) (ca : Nat) (g : String) : Store × Nat :=
  match lookupC g (cont st ca) with
  | some x => (st, x)
  | none => (addFresh st ca g, st.length)

theorem go_nil (f ca : Nat) (st : Store) : unify.go f ca st [] = .ok st := unify.go.eq_1 f ca st

theorem go_cons (f ca : Nat) (st : Store) (g : String) (y : Nat) (rest : List (String × Nat)) :
    unify.go f ca st ((g, y) :: rest) =
      match unify f (fieldOf st ca g).1 (fieldOf st ca g).2 y with
      | .ok st2 => unify.go f ca st2 rest
      | r => r := by
  rw [unify.go.eq_2]
  unfold fieldOf addFresh alloc emptyNode
  cases lookupC g (cont st ca) <;> rfl

theorem unify_zero (st : Store) (a b : Nat) : unify 0 st a b = .fuel := unify.eq_1 st a b

theorem unify_succ (f : Nat) (st : Store) (a b : Nat) :
    unify (f + 1) st a b =
      if deref st a = deref st b then .ok st else
      if cont st (deref st a) = [] ∧ cont st (deref st b) = [] then
        if val st (deref st a) = val st (deref st b) then .ok (setPointer st (deref st a) (deref st b))
        else if val st (deref st a) = none then .ok (setPointer st (deref st a) (deref st b))
        else if val st (deref st b) = none then .ok (setPointer st (deref st b) (deref st a))
        else .conflict
      else unify.go f (deref st a) (setPointer st (deref st b) (deref st a)) (cont st (deref st b)) := by
  rw [unify.eq_2]
  simp only [List.isEmpty_iff]

/-! ### setPointer -/

theorem length_setPointer (st : Store) (c d : Nat) : (setPointer st c d).length = st.length := by
  simp [setPointer]

theorem get_setPointer (st : Store) (c d j : Nat) :
    get (setPointer st c d) j =
      if c = j ∧ c < st.length then { get st c with pointer := some d } else get st j := by
  unfold setPointer; rw [get_set]

theorem get_setPointer_ne {st : Store} {c j : Nat} (d : Nat) (h : c ≠ j) :
    get (setPointer st c d) j = get st j := by
  rw [get_setPointer]; simp [h]

theorem ptr_setPointer_self {st : Store} {c : Nat} (d : Nat) (h : c < st.length) :
    ptr (setPointer st c d) c = some d := by
  rw [ptr, get_setPointer]; simp [h]

theorem cont_setPointer (st : Store) (c d j : Nat) : cont (setPointer st c d) j = cont st j := by
  rw [cont, get_setPointer]; split
  · rename_i h; rw [← h.1]
  · rfl

theorem val_setPointer (st : Store) (c d j : Nat) : val (setPointer st c d) j = val st j := by
  rw [val, get_setPointer]; split
  · rename_i h; rw [← h.1]
  · rfl

theorem ptr_setPointer (st : Store) (c d j : Nat) :
    ptr (setPointer st c d) j = if c = j ∧ c < st.length then some d else ptr st j := by
  rw [ptr, get_setPointer]; split <;> rfl

theorem acyc_setPointer {st : Store} (ha : Acyc st) {c d : Nat} (hc : ptr st c = none)
    (hd : ptr st d = none) (hcd : c ≠ d) : Acyc (setPointer st c d) := by
  obtain ⟨h, hh⟩ := id ha
  refine ⟨fun i => if deref st i = c then h i + h d + 1 else h i, ?_⟩
  intro i j hp
  rw [ptr_setPointer] at hp
  split at hp
  · rename_i hci
    obtain ⟨rfl, _⟩ := hci
    simp only [Option.some.injEq] at hp; subst hp
    simp only [deref_of_none hc, deref_of_none hd, if_true, if_neg (Ne.symm hcd)]
    omega
  · have e := deref_step ha hp
    have := hh i j hp
    simp only [e]
    split <;> omega

theorem deref_setPointer {st : Store} (ha : Acyc st) {c d : Nat} (hc : ptr st c = none)
    (hd : ptr st d = none) (hcd : c ≠ d) (hlt : c < st.length) (i : Nat) :
    deref (setPointer st c d) i = if deref st i = c then d else deref st i := by
  refine deref_unique (acyc_setPointer ha hc hd hcd)
    (fun i => if deref st i = c then d else deref st i) ?_ ?_ i
  · intro i hp
    rw [ptr_setPointer] at hp
    split at hp
    · simp at hp
    · rename_i hn
      rw [deref_of_none hp]
      have : i ≠ c := fun e => hn ⟨e.symm, hlt⟩
      simp [this]
  · intro i j hp
    rw [ptr_setPointer] at hp
    split at hp
    · rename_i hci
      obtain ⟨rfl, _⟩ := hci
      simp only [Option.some.injEq] at hp; subst hp
      simp [deref_of_none hc, deref_of_none hd, Ne.symm hcd]
    · rw [deref_step ha hp]

theorem rng_setPointer {st : Store} (hr : Rng st) (c : Nat) {d : Nat} (hd : d < st.length) :
    Rng (setPointer st c d) := by
  constructor
  · intro i j hp
    rw [length_setPointer]
    rw [ptr_setPointer] at hp
    split at hp
    · simp only [Option.some.injEq] at hp; subst hp; exact hd
    · exact hr.p i j hp
  · intro i g x hx
    rw [length_setPointer]
    rw [cont_setPointer] at hx
    exact hr.c i g x hx

theorem invB_setPointer {st : Store} {rk : Nat → Nat} (hI : InvB st rk) {c d : Nat}
    (hc : ptr st c = none) (hd : ptr st d = none) (hcd : c ≠ d) (hrk : rk c = rk d) :
    InvB (setPointer st c d) rk := by
  constructor
  · exact acyc_setPointer hI.acyc hc hd hcd
  · intro i j hp
    rw [ptr_setPointer] at hp
    split at hp
    · rename_i hci
      obtain ⟨rfl, _⟩ := hci
      simp only [Option.some.injEq] at hp; subst hp; exact hrk
    · exact hI.rkp i j hp
  · intro i g x hx
    rw [cont_setPointer] at hx
    exact hI.rkc i g x hx
  · intro i v hv
    rw [val_setPointer] at hv
    exact hI.rkv i v hv

theorem model_setPointer {st : Store} {ρ : Nat → List String → String} (hm : Model st ρ)
    {c d : Nat} (h : ρ c = ρ d) : Model (setPointer st c d) ρ := by
  constructor
  · intro i j hp
    rw [ptr_setPointer] at hp
    split at hp
    · rename_i hci
      obtain ⟨rfl, _⟩ := hci
      simp only [Option.some.injEq] at hp; subst hp; exact h
    · exact hm.p i j hp
  · intro i v hv
    rw [val_setPointer] at hv
    exact hm.v i v hv
  · intro i g x hx
    rw [cont_setPointer] at hx
    exact hm.c i g x hx

/-! ### addFresh -/

theorem length_addFresh (st : Store) (ca : Nat) (g : String) :
    (addFresh st ca g).length = st.length + 1 := by
  simp [addFresh]

theorem get_addFresh {st : Store} {ca : Nat} (g : String) (hca : ca < st.length) (j : Nat) :
    get (addFresh st ca g) j =
      if j = ca then { get st ca with content := cont st ca ++ [(g, st.length)] }
      else get st j := by
  unfold addFresh
  rw [get_set, get_append_lt _ hca]
  by_cases h : j = ca
  · subst h; simp [Nat.lt_succ_of_lt hca]
  · have h' : ¬ (ca = j ∧ ca < (st ++ [emptyNode]).length) := fun e => h e.1.symm
    rw [if_neg h', if_neg h]
    by_cases hj : j < st.length
    · exact get_append_lt _ hj
    · rw [get_ge (Nat.le_of_not_lt hj)]
      by_cases hj2 : j = st.length
      · subst hj2; exact get_append_len st emptyNode
      · apply get_ge; simp; omega

theorem ptr_addFresh {st : Store} {ca : Nat} (g : String) (hca : ca < st.length) (j : Nat) :
    ptr (addFresh st ca g) j = ptr st j := by
  rw [ptr, get_addFresh g hca]; split
  · rename_i h; subst h; rfl
  · rfl

theorem val_addFresh {st : Store} {ca : Nat} (g : String) (hca : ca < st.length) (j : Nat) :
    val (addFresh st ca g) j = val st j := by
  rw [val, get_addFresh g hca]; split
  · rename_i h; subst h; rfl
  · rfl

theorem cont_addFresh {st : Store} {ca : Nat} (g : String) (hca : ca < st.length) (j : Nat) :
    cont (addFresh st ca g) j = if j = ca then cont st ca ++ [(g, st.length)] else cont st j := by
  rw [cont, get_addFresh g hca]; split <;> rfl

theorem acyc_addFresh {st : Store} (ha : Acyc st) {ca : Nat} (g : String) (hca : ca < st.length) :
    Acyc (addFresh st ca g) := by
  obtain ⟨h, hh⟩ := ha
  exact ⟨h, fun i j hp => hh i j (by rw [ptr_addFresh g hca] at hp; exact hp)⟩

theorem deref_addFresh {st : Store} (ha : Acyc st) {ca : Nat} (g : String) (hca : ca < st.length)
    (i : Nat) : deref (addFresh st ca g) i = deref st i :=
  deref_frame ha (by rw [length_addFresh]; omega) (fun _ => True)
    (fun j _ => ptr_addFresh g hca j) (fun _ _ _ _ => trivial) i trivial

theorem rng_addFresh {st : Store} (hr : Rng st) {ca : Nat} (g : String) (hca : ca < st.length) :
    Rng (addFresh st ca g) := by
  constructor
  · intro i j hp
    rw [ptr_addFresh g hca] at hp
    rw [length_addFresh]
    exact Nat.lt_succ_of_lt (hr.p i j hp)
  · intro i g' x hx
    rw [length_addFresh]
    rw [cont_addFresh g hca] at hx
    split at hx
    · rcases List.mem_append.1 hx with hx | hx
      · exact Nat.lt_succ_of_lt (hr.c ca g' x hx)
      · simp at hx; omega
    · exact Nat.lt_succ_of_lt (hr.c i g' x hx)

theorem invB_addFresh {st : Store} {rk : Nat → Nat} (hr : Rng st) (hI : InvB st rk) {ca : Nat}
    (g : String) (hca : ca < st.length) (hpos : 0 < rk ca) :
    InvB (addFresh st ca g) (Function.update rk st.length (cr (rk ca) g)) := by
  have hup : ∀ i, i < st.length → Function.update rk st.length (cr (rk ca) g) i = rk i := by
    intro i hi; rw [Function.update_of_ne (by omega)]
  constructor
  · exact acyc_addFresh hI.acyc g hca
  · intro i j hp
    rw [ptr_addFresh g hca] at hp
    rw [hup i (ptr_lt hp), hup j (hr.p i j hp)]
    exact hI.rkp i j hp
  · intro i g' x hx
    have hi : i < st.length := by
      rw [cont_addFresh g hca] at hx
      split at hx
      · rename_i h; subst h; exact hca
      · exact cont_lt hx
    rw [hup i hi]
    rw [cont_addFresh g hca] at hx
    split at hx
    · rename_i h; subst h
      rcases List.mem_append.1 hx with hx | hx
      · rw [hup x (hr.c _ g' x hx)]; exact hI.rkc _ g' x hx
      · simp only [List.mem_singleton, Prod.mk.injEq] at hx
        obtain ⟨rfl, rfl⟩ := hx
        rw [Function.update_self]; exact ⟨rfl, hpos⟩
    · rw [hup x (hr.c i g' x hx)]; exact hI.rkc i g' x hx
  · intro i v hv
    rw [val_addFresh g hca] at hv
    rw [hup i (val_lt hv)]
    exact hI.rkv i v hv

theorem model_addFresh {st : Store} {ρ : Nat → List String → String} (hr : Rng st)
    (hm : Model st ρ) {ca : Nat} (g : String) (hca : ca < st.length) :
    Model (addFresh st ca g) (Function.update ρ st.length (fun q => ρ ca (g :: q))) := by
  have hup : ∀ i, i < st.length →
      Function.update ρ st.length (fun q => ρ ca (g :: q)) i = ρ i := by
    intro i hi; rw [Function.update_of_ne (by omega)]
  constructor
  · intro i j hp
    rw [ptr_addFresh g hca] at hp
    rw [hup i (ptr_lt hp), hup j (hr.p i j hp)]
    exact hm.p i j hp
  · intro i v hv
    rw [val_addFresh g hca] at hv
    rw [hup i (val_lt hv)]
    exact hm.v i v hv
  · intro i g' x hx q
    have hi : i < st.length := by
      rw [cont_addFresh g hca] at hx
      split at hx
      · rename_i h; subst h; exact hca
      · exact cont_lt hx
    rw [hup i hi]
    rw [cont_addFresh g hca] at hx
    split at hx
    · rename_i h; subst h
      rcases List.mem_append.1 hx with hx | hx
      · rw [hup x (hr.c _ g' x hx)]; exact hm.c _ g' x hx q
      · simp only [List.mem_singleton, Prod.mk.injEq] at hx
        obtain ⟨rfl, rfl⟩ := hx
        rw [Function.update_self]
    · rw [hup x (hr.c i g' x hx)]; exact hm.c i g' x hx q


/-! ## Part: Sem -/

abbrev Interp := Nat → List String → String

def PostS (st : Store) (a b : Nat) (res : Res) : Prop :=
  (∀ st', res = .ok st' → Rng st' ∧ st.length ≤ st'.length ∧
      ∀ ρ : Interp, Model st ρ → ρ a = ρ b →
        ∃ ρ' : Interp, (∀ i, i < st.length → ρ' i = ρ i) ∧ Model st' ρ') ∧
  (res = .conflict → ∀ ρ : Interp, Model st ρ → ρ a ≠ ρ b)

def GoEq (ρ : Interp) (ca : Nat) (rest : List (String × Nat)) : Prop :=
  ∀ e ∈ rest, ∀ q, ρ ca (e.1 :: q) = ρ e.2 q

def GoPostS (st : Store) (ca : Nat) (rest : List (String × Nat)) (res : Res) : Prop :=
  (∀ st', res = .ok st' → Rng st' ∧ st.length ≤ st'.length ∧
      ∀ ρ : Interp, Model st ρ → GoEq ρ ca rest →
        ∃ ρ' : Interp, (∀ i, i < st.length → ρ' i = ρ i) ∧ Model st' ρ') ∧
  (res = .conflict → ∀ ρ : Interp, Model st ρ → ¬ GoEq ρ ca rest)

/-- the store and the object for field `g` of `ca` -/
theorem fieldOf_spec {st : Store} (hr : Rng st) {ca : Nat} (hca : ca < st.length) (g : String) :
    Rng (fieldOf st ca g).1 ∧ st.length ≤ (fieldOf st ca g).1.length ∧
    (fieldOf st ca g).2 < (fieldOf st ca g).1.length ∧
    ∀ ρ : Interp, Model st ρ → ∃ ρ' : Interp, (∀ i, i < st.length → ρ' i = ρ i) ∧
      Model (fieldOf st ca g).1 ρ' ∧ ∀ q, ρ' (fieldOf st ca g).2 q = ρ ca (g :: q) := by
  unfold fieldOf
  cases hl : lookupC g (cont st ca) with
  | some x =>
    refine ⟨hr, Nat.le_refl _, hr.c ca g x (lookupC_mem hl), fun ρ hm => ⟨ρ, fun _ _ => rfl, hm, ?_⟩⟩
    intro q; exact (hm.c ca g x (lookupC_mem hl) q).symm
  | none =>
    refine ⟨rng_addFresh hr g hca, by simp [length_addFresh], by simp [length_addFresh],
      fun ρ hm => ⟨_, ?_, model_addFresh hr hm g hca, ?_⟩⟩
    · intro i hi; rw [Function.update_of_ne (by omega)]
    · intro q; rw [Function.update_self]

theorem go_sem (f : Nat)
    (IH : ∀ st a b, Rng st → a < st.length → b < st.length → PostS st a b (unify f st a b))
    (ca : Nat) : ∀ (rest : List (String × Nat)) (st : Store), Rng st → ca < st.length →
      (∀ e ∈ rest, e.2 < st.length) → GoPostS st ca rest (unify.go f ca st rest) := by
  intro rest
  induction rest with
  | nil =>
    intro st hr hca _
    rw [go_nil]
    refine ⟨?_, by simp⟩
    intro st' h; simp only [Res.ok.injEq] at h; subst h
    exact ⟨hr, Nat.le_refl _, fun ρ hm _ => ⟨ρ, fun _ _ => rfl, hm⟩⟩
  | cons e rest ih =>
    obtain ⟨g, y⟩ := e
    intro st hr hca hrest
    rw [go_cons]
    obtain ⟨hr1, hlen1, hx1, hρ1⟩ := fieldOf_spec hr hca g
    have hy : y < st.length := hrest (g, y) (by simp)
    have hsub := IH (fieldOf st ca g).1 (fieldOf st ca g).2 y hr1 hx1 (by omega)
    cases hres : unify f (fieldOf st ca g).1 (fieldOf st ca g).2 y with
    | fuel => exact ⟨by simp, by simp⟩
    | conflict =>
      refine ⟨by simp, fun _ ρ hm heq => ?_⟩
      obtain ⟨ρ1, hag, hm1, hx⟩ := hρ1 ρ hm
      refine hsub.2 hres ρ1 hm1 ?_
      funext q
      rw [hx q, hag y hy]
      exact heq (g, y) (by simp) q
    | ok st2 =>
      obtain ⟨hr2, hlen2, hρ2⟩ := hsub.1 st2 hres
      have hgo := ih st2 hr2 (by omega) (fun e he => by
        have := hrest e (List.mem_cons_of_mem _ he); omega)
      -- transport of the equations
      have key : ∀ ρ : Interp, Model st ρ → GoEq ρ ca ((g, y) :: rest) →
          ∃ ρ2 : Interp, (∀ i, i < st.length → ρ2 i = ρ i) ∧ Model st2 ρ2 ∧ GoEq ρ2 ca rest := by
        intro ρ hm heq
        obtain ⟨ρ1, hag, hm1, hx⟩ := hρ1 ρ hm
        have hxy : ρ1 (fieldOf st ca g).2 = ρ1 y := by
          funext q
          rw [hx q, hag y hy]
          exact heq (g, y) (by simp) q
        obtain ⟨ρ2, hag2, hm2⟩ := hρ2 ρ1 hm1 hxy
        have hag' : ∀ i, i < st.length → ρ2 i = ρ i := fun i hi => by
          rw [hag2 i (by omega), hag i hi]
        refine ⟨ρ2, hag', hm2, ?_⟩
        intro e he q
        have he2 : e.2 < st.length := hrest e (List.mem_cons_of_mem _ he)
        rw [hag' ca hca, hag' e.2 he2]
        exact heq e (List.mem_cons_of_mem _ he) q
      refine ⟨?_, ?_⟩
      · intro st' h
        obtain ⟨hr', hlen', hρ'⟩ := hgo.1 st' h
        refine ⟨hr', by omega, fun ρ hm heq => ?_⟩
        obtain ⟨ρ2, hag2, hm2, heq2⟩ := key ρ hm heq
        obtain ⟨ρ', hag', hm'⟩ := hρ' ρ2 hm2 heq2
        exact ⟨ρ', fun i hi => by rw [hag' i (by omega), hag2 i hi], hm'⟩
      · intro h ρ hm heq
        obtain ⟨ρ2, _, hm2, heq2⟩ := key ρ hm heq
        exact hgo.2 h ρ2 hm2 heq2

theorem unify_sem : ∀ (f : Nat) (st : Store) (a b : Nat), Rng st → a < st.length → b < st.length →
    PostS st a b (unify f st a b) := by
  intro f
  induction f with
  | zero => intro st a b _ _ _; rw [unify_zero]; exact ⟨by simp, by simp⟩
  | succ f IH =>
    intro st a b hr ha hb
    have hca := deref_lt hr ha
    have hcb := deref_lt hr hb
    rw [unify_succ]
    have okcase : ∀ c d, d < st.length →
        (∀ ρ : Interp, Model st ρ → ρ a = ρ b → ρ c = ρ d) →
        PostS st a b (.ok (setPointer st c d)) := by
      intro c d hd hcd
      refine ⟨?_, by simp⟩
      intro st' h; simp only [Res.ok.injEq] at h; subst h
      refine ⟨rng_setPointer hr c hd, by rw [length_setPointer]; exact Nat.le_refl _, ?_⟩
      intro ρ hm hab
      exact ⟨ρ, fun _ _ => rfl, model_setPointer hm (hcd ρ hm hab)⟩
    have eab : ∀ ρ : Interp, Model st ρ → ρ a = ρ b → ρ (deref st a) = ρ (deref st b) := by
      intro ρ hm hab; rw [model_deref hm, model_deref hm, hab]
    split
    · refine ⟨?_, by simp⟩
      intro st' h; simp only [Res.ok.injEq] at h; subst h
      exact ⟨hr, Nat.le_refl _, fun ρ hm _ => ⟨ρ, fun _ _ => rfl, hm⟩⟩
    · split
      · split
        · exact okcase _ _ hcb eab
        · split
          · exact okcase _ _ hcb eab
          · split
            · exact okcase _ _ hca (fun ρ hm hab => (eab ρ hm hab).symm)
            · rename_i hne h1 h2
              refine ⟨by simp, fun _ ρ hm hab => ?_⟩
              cases hva : val st (deref st a) with
              | none => exact h1 hva
              | some va =>
                cases hvb : val st (deref st b) with
                | none => exact h2 hvb
                | some vb =>
                  have e := eab ρ hm hab
                  have e1 := hm.v _ va hva
                  have e2 := hm.v _ vb hvb
                  rw [e, e2] at e1
                  apply hne
                  rw [hva, hvb, e1]
      · -- records
        have hr0 : Rng (setPointer st (deref st b) (deref st a)) := rng_setPointer hr _ hca
        have hgo := go_sem f IH (deref st a) (cont st (deref st b))
          (setPointer st (deref st b) (deref st a)) hr0 (by rw [length_setPointer]; exact hca)
          (fun e he => by rw [length_setPointer]; exact hr.c _ e.1 e.2 he)
        have key : ∀ ρ : Interp, Model st ρ → ρ a = ρ b →
            Model (setPointer st (deref st b) (deref st a)) ρ ∧
              GoEq ρ (deref st a) (cont st (deref st b)) := by
          intro ρ hm hab
          have e := eab ρ hm hab
          refine ⟨model_setPointer hm e.symm, ?_⟩
          intro e' he q
          rw [e]
          exact hm.c _ e'.1 e'.2 he q
        refine ⟨?_, ?_⟩
        · intro st' h
          obtain ⟨hr', hlen', hρ'⟩ := hgo.1 st' h
          rw [length_setPointer] at hlen'
          refine ⟨hr', hlen', fun ρ hm hab => ?_⟩
          obtain ⟨hm0, heq⟩ := key ρ hm hab
          obtain ⟨ρ', hag, hm'⟩ := hρ' ρ hm0 heq
          exact ⟨ρ', fun i hi => hag i (by rw [length_setPointer]; exact hi), hm'⟩
        · intro h ρ hm hab
          obtain ⟨hm0, heq⟩ := key ρ hm hab
          exact hgo.2 h ρ hm0 heq


/-! ## Part: Unify -/

/-- `st'` extends `st`: only objects of rank `≤ r` were touched, new objects have rank `< r`,
classes only merged (`e1`), values of classes kept (`e2`), features kept (`m`) -/
structure Ext (st : Store) (rk : Nat → Nat) (st' : Store) (rk' : Nat → Nat) (r : Nat) : Prop where
  len : st.length ≤ st'.length
  rkold : ∀ i, i < st.length → rk' i = rk i
  rknew : ∀ i, st.length ≤ i → i < st'.length → rk' i < r
  frame : ∀ i, i < st.length → r < rk i → get st' i = get st i
  e1 : ∀ i j, i < st.length → j < st.length → deref st i = deref st j → deref st' i = deref st' j
  e2 : ∀ i v, i < st.length → val st (deref st i) = some v → val st' (deref st' i) = some v
  m : ∀ i g x, i < st.length → lookupC g (cont st i) = some x → lookupC g (cont st' i) = some x

theorem Ext.refl (st : Store) (rk : Nat → Nat) (r : Nat) : Ext st rk st rk r :=
  ⟨Nat.le_refl _, fun _ _ => rfl, fun i h1 h2 => by omega, fun _ _ _ => rfl,
    fun _ _ _ _ h => h, fun _ _ _ h => h, fun _ _ _ _ h => h⟩

theorem Ext.trans {st st1 st2 : Store} {rk rk1 rk2 : Nat → Nat} {r : Nat}
    (h1 : Ext st rk st1 rk1 r) (h2 : Ext st1 rk1 st2 rk2 r) : Ext st rk st2 rk2 r := by
  have hl := h1.len
  constructor
  · exact Nat.le_trans h1.len h2.len
  · intro i hi; rw [h2.rkold i (by omega), h1.rkold i hi]
  · intro i hi1 hi2
    by_cases hi : i < st1.length
    · rw [h2.rkold i hi]; exact h1.rknew i hi1 hi
    · exact h2.rknew i (by omega) hi2
  · intro i hi hr
    rw [h2.frame i (by omega) (by rw [h1.rkold i hi]; exact hr), h1.frame i hi hr]
  · intro i j hi hj h
    exact h2.e1 i j (by omega) (by omega) (h1.e1 i j hi hj h)
  · intro i v hi h
    exact h2.e2 i v (by omega) (h1.e2 i v hi h)
  · intro i g x hi h
    exact h2.m i g x (by omega) (h1.m i g x hi h)

theorem Ext.mono {st st' : Store} {rk rk' : Nat → Nat} {r r' : Nat} (h : Ext st rk st' rk' r)
    (hr : r ≤ r') : Ext st rk st' rk' r' :=
  ⟨h.len, h.rkold, fun i h1 h2 => Nat.lt_of_lt_of_le (h.rknew i h1 h2) hr,
    fun i hi hri => h.frame i hi (by omega), h.e1, h.e2, h.m⟩

/-- `deref` of objects of high rank is unchanged -/
theorem Ext.deref_high {st st' : Store} {rk rk' : Nat → Nat} {r : Nat} (h : Ext st rk st' rk' r)
    (hr : Rng st) (hI : InvB st rk) {i : Nat} (hi : i < st.length) (hri : r < rk i) :
    deref st' i = deref st i := by
  refine deref_frame hI.acyc h.len (fun j => j < st.length ∧ r < rk j) ?_ ?_ i ⟨hi, hri⟩
  · intro j hj; rw [ptr, h.frame j hj.1 hj.2]
  · intro j j2 hj hp
    exact ⟨hr.p j j2 hp, by rw [← hI.rkp j j2 hp]; exact hj.2⟩

theorem CCat_frame {st st' : Store} {rk rk' : Nat → Nat} {r : Nat} (h : Ext st rk st' rk' r)
    (hr : Rng st) (hI : InvB st rk) {i : Nat} (hi : i < st.length) (hri : r < rk i)
    (hc : CCat st i) : CCat st' i := by
  intro g x hx
  rw [cont, h.frame i hi hri] at hx
  obtain ⟨x', hx', he⟩ := hc g x hx
  have hd : deref st i < st.length := deref_lt hr hi
  refine ⟨x', ?_, ?_⟩
  · rw [h.deref_high hr hI hi hri, cont, h.frame _ hd (by rw [rk_deref hI]; exact hri)]
    exact hx'
  · exact h.e1 x' x (hr.c _ g x' (lookupC_mem hx')) (hr.c _ g x (lookupC_mem hx)) he

/-! ### the pointer update as an extension -/

theorem ext_setPointer {st : Store} {rk : Nat → Nat} (hI : InvB st rk) {c d : Nat}
    (hc : ptr st c = none) (hd : ptr st d = none) (hcd : c ≠ d) (hclt : c < st.length) {k : Nat}
    (hk : rk c = k) (hv : ∀ v, val st c = some v → val st d = some v) :
    Ext st rk (setPointer st c d) rk k := by
  have hder := deref_setPointer hI.acyc hc hd hcd hclt
  constructor
  · rw [length_setPointer]; exact Nat.le_refl _
  · intro _ _; rfl
  · intro i h1 h2; rw [length_setPointer] at h2; omega
  · intro i _ hri
    exact get_setPointer_ne d (fun e => by subst e; omega)
  · intro i j _ _ h
    rw [hder, hder, h]
  · intro i v _ h
    rw [hder, val_setPointer]
    split
    · rename_i e; rw [e] at h; exact hv v h
    · exact h
  · intro i g x _ h
    rw [cont_setPointer]; exact h

/-! ### the loop over the features of the second operand -/

structure GoPreU (st : Store) (rk : Nat → Nat) (ca r : Nat) (rest : List (String × Nat)) : Prop where
  rng : Rng st
  inv : InvB st rk
  hca : ca < st.length
  pca : ptr st ca = none
  rca : rk ca = r
  rpos : 0 < r
  hrest : ∀ e ∈ rest, e.2 < st.length ∧ rk e.2 = cr r e.1
  ccl : ∀ i, rk i < r → CCat st i
  ccw : ∀ i, rk i = r → ∀ g x, lookupC g (cont st i) = some x →
    (∃ x', lookupC g (cont st (deref st i)) = some x' ∧ deref st x' = deref st x) ∨
    (deref st i = ca ∧ ∃ y, (g, y) ∈ rest ∧ deref st y = deref st x)

def PostU (f : Nat) (st : Store) (rk : Nat → Nat) (k a b : Nat) : Res → Prop
  | .ok st' => ∃ rk', Ext st rk st' rk' k ∧ InvB st' rk' ∧ CCle st' rk' k ∧ deref st' a = deref st' b
  | .conflict => True
  | .fuel => f ≤ k

def GoPostU (f : Nat) (st : Store) (rk : Nat → Nat) (r : Nat) : Res → Prop
  | .ok st' => ∃ rk', Ext st rk st' rk' r ∧ InvB st' rk' ∧ CCle st' rk' r
  | .conflict => True
  | .fuel => f < r

theorem goPre_addFresh {st : Store} {rk : Nat → Nat} {ca r : Nat} {L : List (String × Nat)}
    (h : GoPreU st rk ca r L) (g : String) (hl : lookupC g (cont st ca) = none) :
    GoPreU (addFresh st ca g) (Function.update rk st.length (cr r g)) ca r L ∧
    Ext st rk (addFresh st ca g) (Function.update rk st.length (cr r g)) r ∧
    lookupC g (cont (addFresh st ca g) ca) = some st.length := by
  have hca := h.hca
  have hup : ∀ i, i < st.length → Function.update rk st.length (cr r g) i = rk i := by
    intro i hi; rw [Function.update_of_ne (by omega)]
  have hupn : Function.update rk st.length (cr r g) st.length = cr r g := Function.update_self ..
  have hder := deref_addFresh h.inv.acyc g hca
  have hcr := cr_lt g h.rpos
  refine ⟨?_, ?_, ?_⟩
  · constructor
    · exact rng_addFresh h.rng g hca
    · have := invB_addFresh h.rng h.inv g hca (by rw [h.rca]; exact h.rpos)
      rw [h.rca] at this; exact this
    · rw [length_addFresh]; omega
    · rw [ptr_addFresh g hca]; exact h.pca
    · rw [hup ca hca]; exact h.rca
    · exact h.rpos
    · intro e he
      obtain ⟨h1, h2⟩ := h.hrest e he
      rw [length_addFresh, hup _ h1]; exact ⟨by omega, h2⟩
    · intro i hi g' x hx
      by_cases hin : i = st.length
      · subst hin
        rw [cont_addFresh g hca, if_neg (by omega), cont, get_ge (Nat.le_refl _)] at hx
        simp [emptyNode, lookupC] at hx
      · rw [Function.update_of_ne hin] at hi
        have hica : i ≠ ca := fun e => by subst e; rw [h.rca] at hi; omega
        rw [cont_addFresh g hca, if_neg hica] at hx
        obtain ⟨x', hx', he⟩ := h.ccl i hi g' x hx
        have hdca : deref st i ≠ ca := fun e => by
          have := rk_deref h.inv i; rw [e, h.rca] at this; omega
        refine ⟨x', ?_, ?_⟩
        · rw [hder, cont_addFresh g hca, if_neg hdca]; exact hx'
        · rw [hder, hder]; exact he
    · intro i hi g' x hx
      by_cases hin : i = st.length
      · subst hin; rw [hupn] at hi; omega
      · rw [Function.update_of_ne hin] at hi
        by_cases hica : i = ca
        · subst hica
          left
          refine ⟨x, ?_, rfl⟩
          rw [deref_of_none (by rw [ptr_addFresh g hca]; exact h.pca)]; exact hx
        · rw [cont_addFresh g hca, if_neg hica] at hx
          rcases h.ccw i hi g' x hx with ⟨x', hx', he⟩ | ⟨h1, y, hy, he⟩
          · left
            refine ⟨x', ?_, by rw [hder, hder]; exact he⟩
            rw [hder, cont_addFresh g hca]
            split
            · rename_i e; rw [e] at hx'; exact lookupC_append_some _ hx'
            · exact hx'
          · right
            exact ⟨by rw [hder]; exact h1, y, hy, by rw [hder, hder]; exact he⟩
  · constructor
    · rw [length_addFresh]; omega
    · exact hup
    · intro i h1 h2
      rw [length_addFresh] at h2
      have : i = st.length := by omega
      subst this; rw [hupn]; exact hcr
    · intro i hi hri
      rw [get_addFresh g hca, if_neg (fun e => by subst e; rw [h.rca] at hri; omega)]
    · intro i j _ _ he; rw [hder, hder]; exact he
    · intro i v _ he; rw [hder, val_addFresh g hca]; exact he
    · intro i g' x _ hx
      rw [cont_addFresh g hca]
      split
      · rename_i e; subst e; exact lookupC_append_some _ hx
      · exact hx
  · rw [cont_addFresh g hca, if_pos rfl]
    exact lookupC_append_single_self _ hl

theorem goPre_field {st : Store} {rk : Nat → Nat} {ca r : Nat} {L : List (String × Nat)}
    (h : GoPreU st rk ca r L) (g : String) :
    ∃ rk1, GoPreU (fieldOf st ca g).1 rk1 ca r L ∧ Ext st rk (fieldOf st ca g).1 rk1 r ∧
      lookupC g (cont (fieldOf st ca g).1 ca) = some (fieldOf st ca g).2 := by
  unfold fieldOf
  cases hl : lookupC g (cont st ca) with
  | some x => exact ⟨rk, h, Ext.refl _ _ _, hl⟩
  | none => exact ⟨_, goPre_addFresh h g hl⟩

/-- after the sub-unification of the field `g` the loop invariant holds for the remaining fields -/
theorem goPre_sub {st : Store} {rk : Nat → Nat} {ca r : Nat} {g : String} {y : Nat}
    {rest : List (String × Nat)} (h : GoPreU st rk ca r ((g, y) :: rest)) {x : Nat}
    (hl : lookupC g (cont st ca) = some x) {st2 : Store} {rk2 : Nat → Nat} {k : Nat} (hk : k < r)
    (hr2 : Rng st2) (he : Ext st rk st2 rk2 k) (hI2 : InvB st2 rk2) (hc2 : CCle st2 rk2 k)
    (hxy : deref st2 x = deref st2 y) : GoPreU st2 rk2 ca r rest := by
  have hold : ∀ i, i < st2.length → k ≤ rk2 i → i < st.length := by
    intro i hi hki
    by_contra hc
    have := he.rknew i (by omega) hi
    omega
  have hcaf : get st2 ca = get st ca := he.frame ca h.hca (by rw [h.rca]; exact hk)
  constructor
  · exact hr2
  · exact hI2
  · exact Nat.lt_of_lt_of_le h.hca he.len
  · rw [ptr, hcaf]; exact h.pca
  · rw [he.rkold ca h.hca]; exact h.rca
  · exact h.rpos
  · intro e hem
    obtain ⟨h1, h2⟩ := h.hrest e (List.mem_cons_of_mem _ hem)
    exact ⟨Nat.lt_of_lt_of_le h1 he.len, by rw [he.rkold _ h1]; exact h2⟩
  · intro i hi
    by_cases hik : rk2 i ≤ k
    · exact hc2 i hik
    · by_cases hi2 : i < st2.length
      · have hi1 := hold i hi2 (by omega)
        have hrk := he.rkold i hi1
        exact CCat_frame he h.rng h.inv hi1 (by omega) (h.ccl i (by omega))
      · intro g' x' hx'
        rw [cont, get_ge (by omega)] at hx'
        simp [emptyNode, lookupC] at hx'
  · intro i hi g' x0 hx0
    have hi2 : i < st2.length := cont_lt (lookupC_mem hx0)
    have hi1 := hold i hi2 (by omega)
    have hrk := he.rkold i hi1
    have hri : k < rk i := by omega
    rw [cont, he.frame i hi1 hri] at hx0
    have hdi : deref st2 i = deref st i := he.deref_high h.rng h.inv hi1 hri
    have hx0lt : x0 < st.length := h.rng.c i g' x0 (lookupC_mem hx0)
    rcases h.ccw i (by omega) g' x0 hx0 with ⟨x', hx', hee⟩ | ⟨h1, y', hy', hee⟩
    · left
      refine ⟨x', ?_, he.e1 x' x0 (h.rng.c _ g' x' (lookupC_mem hx')) hx0lt hee⟩
      rw [hdi, cont, he.frame _ (deref_lt h.rng hi1) (by rw [rk_deref h.inv]; exact hri)]
      exact hx'
    · have hy'lt : y' < st.length := (h.hrest (g', y') hy').1
      have hee2 := he.e1 y' x0 hy'lt hx0lt hee
      rcases List.mem_cons.1 hy' with heq | hmem
      · simp only [Prod.mk.injEq] at heq
        obtain ⟨rfl, rfl⟩ := heq
        left
        refine ⟨x, ?_, by rw [hxy]; exact hee2⟩
        rw [hdi, h1, cont, hcaf]; exact hl
      · right
        exact ⟨by rw [hdi]; exact h1, y', hmem, hee2⟩

theorem go_U (f : Nat)
    (IH : ∀ st rk k a b, Rng st → InvB st rk → CCle st rk k → a < st.length → b < st.length →
      rk a = k → rk b = k → PostU f st rk k a b (unify f st a b))
    (ca r : Nat) : ∀ (rest : List (String × Nat)) (st : Store) (rk : Nat → Nat),
      GoPreU st rk ca r rest → GoPostU f st rk r (unify.go f ca st rest) := by
  intro rest
  induction rest with
  | nil =>
    intro st rk h
    rw [go_nil]
    refine ⟨rk, Ext.refl _ _ _, h.inv, ?_⟩
    intro i hi
    by_cases hlt : rk i < r
    · exact h.ccl i hlt
    · intro g x hx
      rcases h.ccw i (by omega) g x hx with hh | ⟨_, y, hy, _⟩
      · exact hh
      · simp at hy
  | cons e rest ih =>
    obtain ⟨g, y⟩ := e
    intro st rk h
    rw [go_cons]
    obtain ⟨rk1, h1, he1, hl1⟩ := goPre_field h g
    have hxlt := h1.rng.c ca g _ (lookupC_mem hl1)
    have hxrk := (h1.inv.rkc ca g _ (lookupC_mem hl1)).1
    rw [h1.rca] at hxrk
    obtain ⟨hylt, hyrk⟩ := h1.hrest (g, y) (by simp)
    have hk := cr_lt g h1.rpos
    have hsub := IH (fieldOf st ca g).1 rk1 (cr r g) (fieldOf st ca g).2 y h1.rng h1.inv
      (fun i hi => h1.ccl i (by omega)) hxlt hylt hxrk hyrk
    have hsem := unify_sem f (fieldOf st ca g).1 (fieldOf st ca g).2 y h1.rng hxlt hylt
    cases hres : unify f (fieldOf st ca g).1 (fieldOf st ca g).2 y with
    | fuel =>
      rw [hres] at hsub
      show f < r
      have : f ≤ cr r g := hsub
      omega
    | conflict => trivial
    | ok st2 =>
      rw [hres] at hsub
      obtain ⟨rk2, he2, hI2, hc2, hxy⟩ := hsub
      have hr2 := (hsem.1 st2 hres).1
      have h2 := goPre_sub h1 hl1 hk hr2 he2 hI2 hc2 hxy
      have hgo := ih st2 rk2 h2
      show GoPostU f st rk r (unify.go f ca st2 rest)
      cases hres2 : unify.go f ca st2 rest with
      | fuel => rw [hres2] at hgo; exact hgo
      | conflict => trivial
      | ok st' =>
        rw [hres2] at hgo
        obtain ⟨rk', he', hI', hc'⟩ := hgo
        exact ⟨rk', (he1.trans (he2.mono (Nat.le_of_lt hk))).trans he', hI', hc'⟩

/-! ### the two kinds of merge -/

/-- merging a class without features into another class -/
theorem ccle_setPointer_leaf {st : Store} {rk : Nat → Nat} (hI : InvB st rk) {c d : Nat}
    (hc : ptr st c = none) (hd : ptr st d = none) (hcd : c ≠ d) (hclt : c < st.length) {k : Nat}
    (hcc : CCle st rk k) (hcont : cont st c = []) : CCle (setPointer st c d) rk k := by
  have hder := deref_setPointer hI.acyc hc hd hcd hclt
  intro i hi g x hx
  rw [cont_setPointer] at hx
  obtain ⟨x', hx', he⟩ := hcc i hi g x hx
  by_cases hdc : deref st i = c
  · rw [hdc, hcont] at hx'; simp [lookupC] at hx'
  · refine ⟨x', ?_, by rw [hder, hder, he]⟩
    rw [hder, if_neg hdc, cont_setPointer]; exact hx'

/-- redirecting the record `cb` to the record `ca` establishes the loop invariant -/
theorem goPre_rec {st : Store} {rk : Nat → Nat} (hr : Rng st) (hI : InvB st rk) {ca cb k : Nat}
    (hca : ptr st ca = none) (hcb : ptr st cb = none) (hne : ca ≠ cb) (hcalt : ca < st.length)
    (hcblt : cb < st.length) (hrka : rk ca = k) (hrkb : rk cb = k) (hpos : 0 < k)
    (hcc : CCle st rk k) :
    GoPreU (setPointer st cb ca) rk ca k (cont st cb) := by
  have hder := deref_setPointer hI.acyc hcb hca (Ne.symm hne) hcblt
  constructor
  · exact rng_setPointer hr cb hcalt
  · exact invB_setPointer hI hcb hca (Ne.symm hne) (by rw [hrka, hrkb])
  · rw [length_setPointer]; exact hcalt
  · rw [ptr_setPointer, if_neg (fun e => hne e.1.symm)]; exact hca
  · exact hrka
  · exact hpos
  · intro e he
    rw [length_setPointer]
    refine ⟨hr.c cb e.1 e.2 he, ?_⟩
    rw [← hrkb]; exact (hI.rkc cb e.1 e.2 he).1
  · intro i hi g x hx
    rw [cont_setPointer] at hx
    obtain ⟨x', hx', he⟩ := hcc i (by omega) g x hx
    have hdc : deref st i ≠ cb := fun e => by
      have := rk_deref hI i; rw [e] at this; omega
    refine ⟨x', ?_, by rw [hder, hder, he]⟩
    rw [hder, if_neg hdc, cont_setPointer]; exact hx'
  · intro i hi g x hx
    rw [cont_setPointer] at hx
    obtain ⟨x', hx', he⟩ := hcc i (by omega) g x hx
    by_cases hdc : deref st i = cb
    · right
      refine ⟨by rw [hder, if_pos hdc], x', ?_, by rw [hder, hder, he]⟩
      rw [hdc] at hx'; exact lookupC_mem hx'
    · left
      refine ⟨x', ?_, by rw [hder, hder, he]⟩
      rw [hder, if_neg hdc, cont_setPointer]; exact hx'

theorem unify_U : ∀ (f : Nat) (st : Store) (rk : Nat → Nat) (k a b : Nat), Rng st → InvB st rk →
    CCle st rk k → a < st.length → b < st.length → rk a = k → rk b = k →
    PostU f st rk k a b (unify f st a b) := by
  intro f
  induction f with
  | zero => intro st rk k a b _ _ _ _ _ _ _; rw [unify_zero]; exact Nat.zero_le _
  | succ f IH =>
    intro st rk k a b hr hI hcc ha hb hrka hrkb
    have hcalt := deref_lt hr ha
    have hcblt := deref_lt hr hb
    have hpa := deref_ptr_none hI.acyc a
    have hpb := deref_ptr_none hI.acyc b
    have hka : rk (deref st a) = k := by rw [rk_deref hI]; exact hrka
    have hkb : rk (deref st b) = k := by rw [rk_deref hI]; exact hrkb
    rw [unify_succ]
    -- the three successful leaf cases
    have leaf : ∀ c d, ptr st c = none → ptr st d = none → c ≠ d → c < st.length → rk c = k →
        rk d = k → cont st c = [] → (∀ v, val st c = some v → val st d = some v) →
        ((deref st a = c ∧ deref st b = d) ∨ (deref st a = d ∧ deref st b = c)) →
        PostU f.succ st rk k a b (.ok (setPointer st c d)) := by
      intro c d hc hd hcd hclt hkc hkd hcont hv hab
      refine ⟨rk, ext_setPointer hI hc hd hcd hclt hkc hv,
        invB_setPointer hI hc hd hcd (by rw [hkc, hkd]),
        ccle_setPointer_leaf hI hc hd hcd hclt hcc hcont, ?_⟩
      rw [deref_setPointer hI.acyc hc hd hcd hclt, deref_setPointer hI.acyc hc hd hcd hclt]
      rcases hab with ⟨e1, e2⟩ | ⟨e1, e2⟩
      · rw [e1, e2]; simp [Ne.symm hcd]
      · rw [e1, e2]; simp [Ne.symm hcd]
    split
    · rename_i heq
      exact ⟨rk, Ext.refl _ _ _, hI, hcc, heq⟩
    · rename_i hne
      split
      · rename_i hemp
        split
        · rename_i hv
          exact leaf _ _ hpa hpb hne hcalt hka hkb hemp.1 (fun v h => by rw [← hv]; exact h)
            (Or.inl ⟨rfl, rfl⟩)
        · split
          · rename_i hv
            exact leaf _ _ hpa hpb hne hcalt hka hkb hemp.1 (fun v h => by rw [hv] at h; simp at h)
              (Or.inl ⟨rfl, rfl⟩)
          · split
            · rename_i hv
              exact leaf _ _ hpb hpa (Ne.symm hne) hcblt hkb hka hemp.2
                (fun v h => by rw [hv] at h; simp at h) (Or.inr ⟨rfl, rfl⟩)
            · trivial
      · rename_i hemp
        have hpos : 0 < k := by
          by_cases h1 : cont st (deref st a) = []
          · have h2 : cont st (deref st b) ≠ [] := fun h2 => hemp ⟨h1, h2⟩
            obtain ⟨e, he⟩ := List.exists_mem_of_ne_nil _ h2
            have := (hI.rkc _ e.1 e.2 he).2
            omega
          · obtain ⟨e, he⟩ := List.exists_mem_of_ne_nil _ h1
            have := (hI.rkc _ e.1 e.2 he).2
            omega
        have hpre := goPre_rec hr hI hpa hpb hne hcalt hcblt hka hkb hpos hcc
        have hgo := go_U f IH (deref st a) k _ _ rk hpre
        have hext : Ext st rk (setPointer st (deref st b) (deref st a)) rk k :=
          ext_setPointer hI hpb hpa (Ne.symm hne) hcblt hkb (fun v h => by
            have := hI.rkv _ v h; omega)
        cases hres : unify.go f (deref st a) (setPointer st (deref st b) (deref st a))
            (cont st (deref st b)) with
        | fuel =>
          rw [hres] at hgo
          have : f < k := hgo
          show f + 1 ≤ k
          omega
        | conflict => trivial
        | ok st' =>
          rw [hres] at hgo
          obtain ⟨rk', he', hI', hc'⟩ := hgo
          refine ⟨rk', hext.trans he', hI', hc', ?_⟩
          apply he'.e1 a b (by rw [length_setPointer]; exact ha) (by rw [length_setPointer]; exact hb)
          rw [deref_setPointer hI.acyc hpb hpa (Ne.symm hne) hcblt,
            deref_setPointer hI.acyc hpb hpa (Ne.symm hne) hcblt]
          simp [hne]


/-! ## Part: Read -/

namespace Read

/-! ### `sat` -/

/-- the two elementary reformulations of `sat` -/
theorem sat_iff (s : SFS) (asg : Asg) :
    sat s asg = true ↔
      (∀ p v, (p, Leaf.atom v) ∈ s → valOf asg p = some v) ∧
      (∀ p p' x, (p, Leaf.var x) ∈ s → (p', Leaf.var x) ∈ s → valOf asg p = valOf asg p') := by
  unfold sat
  rw [List.all_eq_true]
  constructor
  · intro h
    refine ⟨?_, ?_⟩
    · intro p v hm
      have := h _ hm
      simpa using this
    · intro p p' x hm hm'
      have := h _ hm
      simp only [List.all_eq_true] at this
      have := this _ hm'
      simpa using this
  · rintro ⟨h1, h2⟩ ⟨p, l⟩ hm
    cases l with
    | atom v => simpa using h1 p v hm
    | free => rfl
    | var x =>
      simp only [List.all_eq_true]
      rintro ⟨p', l'⟩ hm'
      cases l' with
      | atom v => rfl
      | free => rfl
      | var y =>
        by_cases hxy : x = y
        · subst hxy
          simpa using h2 p p' x hm hm'
        · simp [hxy]

/-! ### `allAsg` -/

theorem valOf_cons_self (p : List String) (v : String) (a : Asg) :
    valOf ((p, v) :: a) p = some v := by
  simp [valOf]

theorem valOf_cons_ne (p q : List String) (v : String) (a : Asg) (h : q ≠ p) :
    valOf ((q, v) :: a) p = valOf a p := by
  simp [valOf, h]

theorem valOf_allAsg_some (vals : List String) (paths : List (List String)) (asg : Asg)
    (h : asg ∈ allAsg vals paths) (p : List String) (hp : p ∈ paths) :
    ∃ v, valOf asg p = some v := by
  induction paths generalizing asg with
  | nil => cases hp
  | cons q qs ih =>
    simp only [allAsg, List.mem_flatMap, List.mem_map] at h
    obtain ⟨a, ha, v, _, rfl⟩ := h
    by_cases hq : q = p
    · subst hq
      exact ⟨v, valOf_cons_self _ _ _⟩
    · rw [valOf_cons_ne _ _ _ _ hq]
      rcases List.mem_cons.1 hp with e | e
      · exact absurd e.symm hq
      · exact ih a ha e

theorem valOf_allAsg_none (vals : List String) (paths : List (List String)) (asg : Asg)
    (h : asg ∈ allAsg vals paths) (p : List String) (hp : p ∉ paths) : valOf asg p = none := by
  induction paths generalizing asg with
  | nil =>
    simp only [allAsg, List.mem_singleton] at h
    subst h
    rfl
  | cons q qs ih =>
    simp only [allAsg, List.mem_flatMap, List.mem_map] at h
    obtain ⟨a, ha, v, _, rfl⟩ := h
    have hq : q ≠ p := fun e => hp (e ▸ List.mem_cons_self)
    rw [valOf_cons_ne _ _ _ _ hq]
    exact ih a ha (fun e => hp (List.mem_cons_of_mem _ e))

/-! ### `read` -/

/-- the name of the `k`-th sharing class -/
def cname (k : Nat) : String := "c" ++ toString k

theorem cname_inj {j k : Nat} (h : cname j = cname k) : j = k := by
  unfold cname at h
  have h' := (String.append_right_inj "c").1 h
  exact Nat.repr_injective h'

/-- one step of the fold in `read` -/
def step (st : Store) (root : Nat) (acc : SFS × List Nat) (p : List String) : SFS × List Nat :=
  match byPath st root p with
  | none => acc
  | some n =>
    let d := deref st n
    let nd := get st d
    if !nd.content.isEmpty then acc else
    match nd.value with
    | some v => (acc.1 ++ [(p, Leaf.atom v)], acc.2)
    | none =>
      match acc.2.idxOf? d with
      | some k => (acc.1 ++ [(p, Leaf.var (cname k))], acc.2)
      | none => (acc.1 ++ [(p, Leaf.var (cname acc.2.length))], acc.2 ++ [d])

theorem read_eq (st : Store) (r : Nat) (paths : List (List String)) :
    read st r paths = (paths.foldl (step st r) ([], [])).1 := rfl

/-- what an entry `(p, l)` of the accumulator means -/
def Good (st : Store) (r : Nat) (seen : List Nat) (p : List String) (l : Leaf) : Prop :=
  ∃ n, byPath st r p = some n ∧ (get st (deref st n)).content = [] ∧
    ((∃ v, (get st (deref st n)).value = some v ∧ l = Leaf.atom v) ∨
     ((get st (deref st n)).value = none ∧
        ∃ k, seen[k]? = some (deref st n) ∧ l = Leaf.var (cname k)))

theorem Good.mono {st : Store} {r : Nat} {seen : List Nat} {p : List String} {l : Leaf}
    (h : Good st r seen p l) (d : Nat) : Good st r (seen ++ [d]) p l := by
  obtain ⟨n, h1, h2, h3⟩ := h
  refine ⟨n, h1, h2, ?_⟩
  rcases h3 with h3 | ⟨h3, k, hk, hl⟩
  · exact Or.inl h3
  · refine Or.inr ⟨h3, k, ?_, hl⟩
    have hlt : k < seen.length := by
      rcases Nat.lt_or_ge k seen.length with h | h
      · exact h
      · rw [List.getElem?_eq_none h] at hk; cases hk
    rw [List.getElem?_append_left hlt]; exact hk

structure Inv (st : Store) (r : Nat) (acc : SFS × List Nat) (proc : List (List String)) :
    Prop where
  nd : acc.2.Nodup
  sound : ∀ p l, (p, l) ∈ acc.1 → p ∈ proc ∧ Good st r acc.2 p l
  complete : ∀ p ∈ proc, ∀ n, byPath st r p = some n → (get st (deref st n)).content = [] →
    ∃ l, (p, l) ∈ acc.1

theorem Inv.init (st : Store) (r : Nat) : Inv st r ([], []) [] := by
  refine ⟨by simp, ?_, ?_⟩
  · intro p l h; cases h
  · intro p h; cases h

/-- invariant is preserved when the accumulator is unchanged and `p` yields no entry -/
theorem Inv.skip {st : Store} {r : Nat} {acc : SFS × List Nat} {proc : List (List String)}
    (h : Inv st r acc proc) (p : List String)
    (hp : ∀ n, byPath st r p = some n → (get st (deref st n)).content ≠ []) :
    Inv st r acc (proc ++ [p]) := by
  refine ⟨h.nd, ?_, ?_⟩
  · intro q l hm
    obtain ⟨a, b⟩ := h.sound q l hm
    exact ⟨List.mem_append_left _ a, b⟩
  · intro q hq n hn hc
    rcases List.mem_append.1 hq with hq | hq
    · exact h.complete q hq n hn hc
    · rw [List.mem_singleton] at hq
      subst hq
      exact absurd hc (hp n hn)

/-- invariant is preserved when an entry for `p` is appended (and possibly `seen` grows) -/
theorem Inv.push {st : Store} {r : Nat} {acc : SFS × List Nat} {proc : List (List String)}
    (h : Inv st r acc proc) (p : List String) (l : Leaf)
    (hg : Good st r acc.2 p l) :
    Inv st r (acc.1 ++ [(p, l)], acc.2) (proc ++ [p]) := by
  refine ⟨h.nd, ?_, ?_⟩
  · intro q l' hm
    rcases List.mem_append.1 hm with hm | hm
    · obtain ⟨a, b⟩ := h.sound q l' hm
      exact ⟨List.mem_append_left _ a, b⟩
    · rw [List.mem_singleton] at hm
      cases hm
      exact ⟨List.mem_append_right _ (List.mem_singleton.2 rfl), hg⟩
  · intro q hq n hn hc
    rcases List.mem_append.1 hq with hq | hq
    · obtain ⟨l', hl'⟩ := h.complete q hq n hn hc
      exact ⟨l', List.mem_append_left _ hl'⟩
    · rw [List.mem_singleton] at hq
      subst hq
      exact ⟨l, List.mem_append_right _ (List.mem_singleton.2 rfl)⟩

theorem Inv.grow {st : Store} {r : Nat} {acc : SFS × List Nat} {proc : List (List String)}
    (h : Inv st r acc proc) (d : Nat) (hd : d ∉ acc.2) :
    Inv st r (acc.1, acc.2 ++ [d]) proc := by
  refine ⟨?_, ?_, h.complete⟩
  · refine List.nodup_append.2 ⟨h.nd, by simp, ?_⟩
    intro a ha b hb
    rw [List.mem_singleton] at hb
    subst hb
    intro e
    exact hd (e ▸ ha)
  · intro q l hm
    obtain ⟨a, b⟩ := h.sound q l hm
    exact ⟨a, b.mono d⟩

theorem Inv.step {st : Store} {r : Nat} {acc : SFS × List Nat} {proc : List (List String)}
    (h : Inv st r acc proc) (p : List String) :
    Inv st r (step st r acc p) (proc ++ [p]) := by
  unfold FsDag.Lem.Read.step
  cases hb : byPath st r p with
  | none =>
    exact h.skip p (fun n hn => by rw [hb] at hn; cases hn)
  | some n =>
    dsimp only
    by_cases hc : (get st (deref st n)).content = []
    · have hce : (!(get st (deref st n)).content.isEmpty) = false := by
        rw [hc]; rfl
      rw [if_neg (by rw [hce]; exact Bool.false_ne_true)]
      cases hv : (get st (deref st n)).value with
      | some v =>
        dsimp only
        exact h.push p _ ⟨n, hb, hc, Or.inl ⟨v, hv, rfl⟩⟩
      | none =>
        dsimp only
        cases hi : acc.2.idxOf? (deref st n) with
        | some k =>
          dsimp only
          refine h.push p _ ⟨n, hb, hc, Or.inr ⟨hv, k, ?_, rfl⟩⟩
          obtain ⟨hlt, hk, _⟩ := List.idxOf?_eq_some_iff.1 hi
          rw [List.getElem?_eq_getElem hlt, hk]
        | none =>
          dsimp only
          have hd : deref st n ∉ acc.2 := List.idxOf?_eq_none_iff.1 hi
          have h' := h.grow (deref st n) hd
          refine h'.push p _ ⟨n, hb, hc, Or.inr ⟨hv, acc.2.length, ?_, rfl⟩⟩
          simp
    · have hce : (!(get st (deref st n)).content.isEmpty) = true := by
        cases hcc : (get st (deref st n)).content with
        | nil => exact absurd hcc hc
        | cons a b => rfl
      rw [if_pos hce]
      refine h.skip p (fun n' hn' => ?_)
      rw [hb] at hn'
      cases hn'
      exact hc

theorem Inv.foldl {st : Store} {r : Nat} (paths : List (List String)) :
    ∀ {acc : SFS × List Nat} {proc : List (List String)}, Inv st r acc proc →
      Inv st r (paths.foldl (FsDag.Lem.Read.step st r) acc) (proc ++ paths) := by
  induction paths with
  | nil => intro acc proc h; simpa using h
  | cons p ps ih =>
    intro acc proc h
    have := ih (h.step p)
    simpa [List.foldl_cons, List.append_assoc] using this

theorem Inv.read (st : Store) (r : Nat) (paths : List (List String)) :
    Inv st r (paths.foldl (FsDag.Lem.Read.step st r) ([], [])) paths := by
  simpa using Inv.foldl paths (Inv.init st r)

theorem nodup_getElem?_inj {l : List Nat} (h : l.Nodup) {j k : Nat} {d : Nat}
    (hj : l[j]? = some d) (hk : l[k]? = some d) : j = k := by
  obtain ⟨hj1, hj2⟩ := List.getElem?_eq_some_iff.1 hj
  obtain ⟨hk1, hk2⟩ := List.getElem?_eq_some_iff.1 hk
  exact (List.getElem_inj h).1 (hj2.trans hk2.symm)

/-- pairwise characterisation of satisfaction of the structure read back from a store -/
def RSat (st : Store) (r : Nat) (paths : List (List String)) (asg : Asg) : Prop :=
  (∀ p ∈ paths, ∀ n, byPath st r p = some n → (get st (deref st n)).content = [] →
      ∀ v, (get st (deref st n)).value = some v → valOf asg p = some v) ∧
  (∀ p ∈ paths, ∀ p' ∈ paths, ∀ n n', byPath st r p = some n → byPath st r p' = some n' →
      (get st (deref st n)).content = [] → (get st (deref st n)).value = none →
      deref st n = deref st n' → valOf asg p = valOf asg p')

theorem read_sat (st : Store) (r : Nat) (paths : List (List String)) (asg : Asg) :
    sat (read st r paths) asg = true ↔ RSat st r paths asg := by
  rw [sat_iff, read_eq]
  have I := Inv.read st r paths
  generalize paths.foldl (FsDag.Lem.Read.step st r) ([], []) = acc at I
  constructor
  · rintro ⟨h1, h2⟩
    refine ⟨?_, ?_⟩
    · intro p hp n hn hc v hv
      obtain ⟨l, hl⟩ := I.complete p hp n hn hc
      obtain ⟨_, n', hn', _, hg⟩ := I.sound p l hl
      rw [hn] at hn'; cases hn'
      rcases hg with ⟨v', hv', rfl⟩ | ⟨hv', _⟩
      · rw [hv] at hv'; cases hv'
        exact h1 p v hl
      · rw [hv] at hv'; cases hv'
    · intro p hp p' hp' n n' hn hn' hc hv hd
      obtain ⟨l, hl⟩ := I.complete p hp n hn hc
      obtain ⟨l', hl'⟩ := I.complete p' hp' n' hn' (hd ▸ hc)
      obtain ⟨_, m, hm, _, hg⟩ := I.sound p l hl
      rw [hn] at hm; cases hm
      obtain ⟨_, m', hm', _, hg'⟩ := I.sound p' l' hl'
      rw [hn'] at hm'; cases hm'
      rcases hg with ⟨v, hv', _⟩ | ⟨_, k, hk, rfl⟩
      · rw [hv] at hv'; cases hv'
      rcases hg' with ⟨v, hv', _⟩ | ⟨_, k', hk', rfl⟩
      · rw [← hd, hv] at hv'; cases hv'
      rw [← hd] at hk'
      have := nodup_getElem?_inj I.nd hk hk'
      subst this
      exact h2 p p' _ hl hl'
  · rintro ⟨h1, h2⟩
    refine ⟨?_, ?_⟩
    · intro p v hm
      obtain ⟨hp, n, hn, hc, hg⟩ := I.sound p _ hm
      rcases hg with ⟨v', hv', e⟩ | ⟨_, _, _, e⟩
      · cases e
        exact h1 p hp n hn hc v hv'
      · cases e
    · intro p p' x hm hm'
      obtain ⟨hp, n, hn, hc, hg⟩ := I.sound p _ hm
      obtain ⟨hp', n', hn', hc', hg'⟩ := I.sound p' _ hm'
      rcases hg with ⟨_, _, e⟩ | ⟨hv, k, hk, e⟩
      · cases e
      rcases hg' with ⟨_, _, e'⟩ | ⟨hv', k', hk', e'⟩
      · cases e'
      cases e
      have := cname_inj (Leaf.var.inj e')
      subst this
      rw [hk] at hk'
      exact h2 p hp p' hp' n n' hn hn' hc hv (Option.some.inj hk')


end Read
open Read

/-! ## Part: Build -/

/-- what `buildInto st0 s` produces: store `st`, root `st0.length`, rank function `rk` -/
structure BuildSpec (st0 : Store) (rk0 : Nat → Nat) (s : SFS) (st : Store) (rk : Nat → Nat) : Prop where
  len : st0.length < st.length
  old : ∀ i, i < st0.length → get st i = get st0 i
  rkold : ∀ i, i < st0.length → rk i = rk0 i
  rkroot : rk st0.length = 2
  rkle : ∀ i, rk i ≤ 2
  rng : Rng st
  inv : InvB st rk
  cc : ∀ i, CCat st i
  paths : ∀ p l, (p, l) ∈ s → ∃ n, byPath st st0.length p = some n ∧ n < st.length ∧ rk n = 0 ∧
    ∀ v, l = Leaf.atom v → val st (deref st n) = some v
  sameVar : ∀ p p' x n n', (p, Leaf.var x) ∈ s → (p', Leaf.var x) ∈ s →
    byPath st st0.length p = some n → byPath st st0.length p' = some n' → deref st n = deref st n'
  model : ∀ (A : List String → String) (ρ0 : Nat → List String → String), Model st0 ρ0 →
    (∀ p v, (p, Leaf.atom v) ∈ s → A p = v) →
    (∀ p p' x, (p, Leaf.var x) ∈ s → (p', Leaf.var x) ∈ s → ∀ q, A (p ++ q) = A (p' ++ q)) →
    ∃ ρ : Nat → List String → String, (∀ i, i < st0.length → ρ i = ρ0 i) ∧ Model st ρ ∧ ρ st0.length = A

namespace Build
open FsGround

def addField (st : Store) (r : Nat) (g : String) (x : Nat) : Store :=
  st.set r { get st r with content := (get st r).content ++ [(g, x)] }

abbrev St := Store × List (String × Nat) × Option Nat

def mkLeaf (st : Store) (vars : List (String × Nat)) : Leaf → Store × List (String × Nat) × Nat
  | .atom v => (st ++ [{ value := some v, content := [], pointer := none }], vars, st.length)
  | .free => (st ++ [emptyNode], vars, st.length)
  | .var x =>
    match lookupC x vars with
    | some vn => (st ++ [{ value := none, content := [], pointer := some vn }], vars, st.length)
    | none => (st ++ [emptyNode] ++ [{ value := none, content := [], pointer := some st.length }],
                vars ++ [(x, st.length)], (st ++ [emptyNode]).length)

def attach (root : Nat) (st1 : Store) (vars1 : List (String × Nat)) (agr : Option Nat) (leaf : Nat) :
    List String → St
  | [g] => (addField st1 root g leaf, vars1, agr)
  | [_, g] =>
    match agr with
    | some a => (addField st1 a g leaf, vars1, some a)
    | none => (addField (addField (st1 ++ [emptyNode]) root "agr" st1.length) st1.length g leaf, vars1,
        some st1.length)
  | _ => (st1, vars1, agr)

def bstep (root : Nat) (acc : St) (e : List String × Leaf) : St :=
  attach root (mkLeaf acc.1 acc.2.1 e.2).1 (mkLeaf acc.1 acc.2.1 e.2).2.1 acc.2.2
    (mkLeaf acc.1 acc.2.1 e.2).2.2 e.1

def bstep0 (root : Nat) : St → List String × Leaf → St := 
  (fun (acc : Store × List (String × Nat) × Option Nat) e =>
    let (st, vars, agr) := acc
    -- the leaf object
    let (st1, vars1, leaf) : Store × List (String × Nat) × Nat := match e.2 with
      | .atom v => let (st', n) := alloc st { value := some v, content := [], pointer := none }; (st', vars, n)
      | .free => let (st', n) := alloc st { value := none, content := [], pointer := none }; (st', vars, n)
      | .var x =>
        let (st', vars', vn) : Store × List (String × Nat) × Nat := match lookupC x vars with
          | some vn => (st, vars, vn)
          | none => let (st', vn) := alloc st { value := none, content := [], pointer := none }
                    (st', vars ++ [(x, vn)], vn)
        let (st'', n) := alloc st' { value := none, content := [], pointer := some vn }
        (st'', vars', n)
    match e.1 with
    | [g] => (addField st1 root g leaf, vars1, agr)
    | [_, g] =>
      let (st2, agrId) : Store × Nat := match agr with
        | some a => (st1, a)
        | none => let (st', a) := alloc st1 { value := none, content := [], pointer := none }
                  (addField st' root "agr" a, a)
      (addField st2 agrId g leaf, vars1, some agrId)
    | _ => (st1, vars1, agr))

theorem buildInto_eq0 (st0 : Store) (s : SFS) :
    buildInto st0 s = ((s.foldl (bstep0 st0.length) (st0 ++ [emptyNode], [], none)).1, st0.length) := by
  rfl

theorem bstep_eq (root : Nat) (acc) (e : List String × Leaf) :
    bstep0 root acc e = bstep root acc e := by
  obtain ⟨st, vars, agr⟩ := acc
  obtain ⟨p, l⟩ := e
  cases l with
  | atom v => 
    simp only [bstep0, bstep, mkLeaf, alloc]
    unfold attach
    split <;> first | rfl | (cases agr <;> rfl)
  | free => 
    simp only [bstep0, bstep, mkLeaf, alloc, emptyNode]
    unfold attach
    split <;> first | rfl | (cases agr <;> rfl)
  | var x => 
    simp only [bstep0, bstep, mkLeaf, alloc, emptyNode]
    cases lookupC x vars <;> 
    · simp only []
      unfold attach
      split <;> first | rfl | (cases agr <;> rfl)

theorem buildInto_eq (st0 : Store) (s : SFS) :
    buildInto st0 s = ((s.foldl (bstep st0.length) (st0 ++ [emptyNode], [], none)).1, st0.length) := by
  rw [buildInto_eq0]
  have : bstep0 st0.length = bstep st0.length := by funext a e; exact bstep_eq _ _ _
  rw [this]

/-! ### primitive store operations -/

theorem get_snoc (st : Store) (nd : Node) (i : Nat) :
    get (st ++ [nd]) i = if i = st.length then nd else get st i := by
  by_cases h : i = st.length
  · subst h; simp [get_append_len]
  · rw [if_neg h]
    by_cases h2 : i < st.length
    · exact get_append_lt _ h2
    · rw [get_ge (by simp; omega), get_ge (by omega)]

theorem ptr_snoc (st : Store) (nd : Node) (i : Nat) :
    ptr (st ++ [nd]) i = if i = st.length then nd.pointer else ptr st i := by
  simp only [ptr, get_snoc]; split <;> rfl

theorem cont_snoc (st : Store) (nd : Node) (i : Nat) :
    cont (st ++ [nd]) i = if i = st.length then nd.content else cont st i := by
  simp only [cont, get_snoc]; split <;> rfl

theorem val_snoc (st : Store) (nd : Node) (i : Nat) :
    val (st ++ [nd]) i = if i = st.length then nd.value else val st i := by
  simp only [val, get_snoc]; split <;> rfl

theorem length_snoc (st : Store) (nd : Node) : (st ++ [nd]).length = st.length + 1 := by simp

theorem length_addField (st : Store) (r : Nat) (g : String) (x : Nat) :
    (addField st r g x).length = st.length := by simp [addField]

theorem ptr_addField (st : Store) (r : Nat) (g : String) (x : Nat) (i : Nat) :
    ptr (addField st r g x) i = ptr st i := by
  simp only [ptr, addField, get_set]; split
  · rename_i h; rw [h.1]
  · rfl

theorem val_addField (st : Store) (r : Nat) (g : String) (x : Nat) (i : Nat) :
    val (addField st r g x) i = val st i := by
  simp only [val, addField, get_set]; split
  · rename_i h; rw [h.1]
  · rfl

theorem cont_addField {st : Store} {r : Nat} (h : r < st.length) (g : String) (x : Nat) (i : Nat) :
    cont (addField st r g x) i = if i = r then cont st r ++ [(g, x)] else cont st i := by
  simp only [cont, addField, get_set]
  by_cases hi : i = r
  · subst hi; simp [h]
  · have : ¬ r = i := fun h => hi h.symm
    simp [hi, this]

theorem cont_addField_ne {st : Store} {r : Nat} (g : String) (x : Nat) {i : Nat} (h : i ≠ r) :
    cont (addField st r g x) i = cont st i := by
  simp only [cont, addField, get_set]
  have : ¬ r = i := fun h' => h h'.symm
  simp [this]

theorem get_addField_lt {st : Store} {r : Nat} (g : String) (x : Nat) {i : Nat} (h : i < r) :
    get (addField st r g x) i = get st i := by
  simp only [addField, get_set]
  have : ¬ r = i := by omega
  simp [this]

/-! ### frame and range -/

structure FR (st0 st : Store) : Prop where
  len : st0.length < st.length
  old : ∀ i, i < st0.length → get st i = get st0 i
  rng : Rng st

theorem Rng_snoc {st : Store} {nd : Node} (h : Rng st) (hc : nd.content = [])
    (hp : ∀ j, nd.pointer = some j → j < st.length) : Rng (st ++ [nd]) := by
  constructor
  · intro i j hij
    rw [ptr_snoc] at hij
    rw [length_snoc]
    split at hij
    · have := hp j hij; omega
    · have := h.p i j hij; omega
  · intro i g x hx
    rw [cont_snoc] at hx
    rw [length_snoc]
    split at hx
    · rw [hc] at hx; simp at hx
    · have := h.c i g x hx; omega

theorem Rng_addField {st : Store} {r : Nat} {g : String} {x : Nat} (h : Rng st) (hr : r < st.length)
    (hx : x < st.length) : Rng (addField st r g x) := by
  constructor
  · intro i j hij
    rw [ptr_addField] at hij
    rw [length_addField]; exact h.p i j hij
  · intro i g' y hy
    rw [cont_addField hr] at hy
    rw [length_addField]
    split at hy
    · rcases List.mem_append.1 hy with hy | hy
      · exact h.c r g' y hy
      · simp at hy; omega
    · exact h.c i g' y hy

theorem FR_snoc {st0 st : Store} {nd : Node} (h : FR st0 st) (hc : nd.content = [])
    (hp : ∀ j, nd.pointer = some j → j < st.length) : FR st0 (st ++ [nd]) := by
  refine ⟨by have := h.len; rw [length_snoc]; omega, ?_, Rng_snoc h.rng hc hp⟩
  intro i hi
  rw [get_snoc, if_neg (by have := h.len; omega)]
  exact h.old i hi

theorem FR_addField {st0 st : Store} {r : Nat} {g : String} {x : Nat} (h : FR st0 st)
    (hr0 : st0.length ≤ r) (hr : r < st.length) (hx : x < st.length) :
    FR st0 (addField st r g x) := by
  refine ⟨by rw [length_addField]; exact h.len, ?_, Rng_addField h.rng hr hx⟩
  intro i hi
  rw [get_addField_lt _ _ (by omega)]
  exact h.old i hi

/-! ### typing of the new nodes -/

structure TY (n0 : Nat) (st : Store) (agr : Option Nat) : Prop where
  rp : ptr st n0 = none
  rv : val st n0 = none
  rc : ∀ g x, (g, x) ∈ cont st n0 → n0 < x ∧ (g = "agr" ↔ agr = some x)
  ap : ∀ a, agr = some a → n0 < a ∧ a < st.length ∧ ptr st a = none ∧ val st a = none
  ac : ∀ a, agr = some a → ∀ g x, (g, x) ∈ cont st a → n0 < x ∧ x ≠ a
  lf : ∀ i, n0 < i → agr ≠ some i → cont st i = [] ∧
    ∀ j, ptr st i = some j → n0 < j ∧ agr ≠ some j ∧ ptr st j = none

theorem TY_snoc {n0 : Nat} {st : Store} {agr : Option Nat} {nd : Node} (h : TY n0 st agr)
    (hr : Rng st) (hl : n0 < st.length) (hc : nd.content = [])
    (hp : ∀ j, nd.pointer = some j → n0 < j ∧ j < st.length ∧ agr ≠ some j ∧ ptr st j = none) :
    TY n0 (st ++ [nd]) agr := by
  have hn : n0 ≠ st.length := by omega
  constructor
  · rw [ptr_snoc, if_neg hn]; exact h.rp
  · rw [val_snoc, if_neg hn]; exact h.rv
  · intro g x; rw [cont_snoc, if_neg hn]; exact h.rc g x
  · intro a ha
    obtain ⟨h1, h2, h3, h4⟩ := h.ap a ha
    have : a ≠ st.length := by omega
    rw [ptr_snoc, val_snoc, length_snoc, if_neg this, if_neg this]
    exact ⟨h1, by omega, h3, h4⟩
  · intro a ha g x
    have : a ≠ st.length := by have := h.ap a ha; omega
    rw [cont_snoc, if_neg this]; exact h.ac a ha g x
  · intro i hi hia
    rw [cont_snoc, ptr_snoc]
    by_cases hil : i = st.length
    · rw [if_pos hil, if_pos hil]
      refine ⟨hc, fun j hj => ?_⟩
      obtain ⟨h1, h2, h3, h4⟩ := hp j hj
      rw [ptr_snoc, if_neg (by omega)]
      exact ⟨h1, h3, h4⟩
    · rw [if_neg hil, if_neg hil]
      refine ⟨(h.lf i hi hia).1, fun j hj => ?_⟩
      obtain ⟨h1, h3, h4⟩ := (h.lf i hi hia).2 j hj
      have := hr.p i j hj
      rw [ptr_snoc, if_neg (by omega)]
      exact ⟨h1, h3, h4⟩

theorem TY_addField_root {n0 : Nat} {st : Store} {agr : Option Nat} {g : String} {x : Nat}
    (h : TY n0 st agr) (hl : n0 < st.length) (hx : n0 < x) (hg : g = "agr" ↔ agr = some x) :
    TY n0 (addField st n0 g x) agr := by
  constructor
  · rw [ptr_addField]; exact h.rp
  · rw [val_addField]; exact h.rv
  · intro g' y hy
    rw [cont_addField hl, if_pos rfl] at hy
    rcases List.mem_append.1 hy with hy | hy
    · exact h.rc g' y hy
    · simp at hy; obtain ⟨rfl, rfl⟩ := hy; exact ⟨hx, hg⟩
  · intro a ha
    rw [ptr_addField, val_addField, length_addField]; exact h.ap a ha
  · intro a ha g' y
    have : a ≠ n0 := by have := h.ap a ha; omega
    rw [cont_addField_ne _ _ this]; exact h.ac a ha g' y
  · intro i hi hia
    rw [cont_addField_ne _ _ (by omega)]
    simp only [ptr_addField]
    exact h.lf i hi hia

theorem TY_addField_agr {n0 : Nat} {st : Store} {a : Nat} {g : String} {x : Nat}
    (h : TY n0 st (some a)) (hx : n0 < x) (hxa : x ≠ a) :
    TY n0 (addField st a g x) (some a) := by
  obtain ⟨h1, h2, h3, h4⟩ := h.ap a rfl
  constructor
  · rw [ptr_addField]; exact h.rp
  · rw [val_addField]; exact h.rv
  · intro g' y
    rw [cont_addField_ne _ _ (by omega)]; exact h.rc g' y
  · intro a' ha
    rw [ptr_addField, val_addField, length_addField]; exact h.ap a' ha
  · intro a' ha g' y hy
    simp only [Option.some.injEq] at ha; subst ha
    rw [cont_addField h2, if_pos rfl] at hy
    rcases List.mem_append.1 hy with hy | hy
    · exact h.ac a rfl g' y hy
    · simp at hy; obtain ⟨rfl, rfl⟩ := hy; exact ⟨hx, hxa⟩
  · intro i hi hia
    rw [cont_addField_ne _ _ (by intro hh; subst hh; exact hia rfl)]
    simp only [ptr_addField]
    exact h.lf i hi hia

theorem TY_promote {n0 : Nat} {st : Store} {a : Nat} (h : TY n0 st none)
    (ha0 : n0 < a) (hal : a < st.length) (hp : ptr st a = none) (hv : val st a = none)
    (hnp : ∀ i j, ptr st i = some j → j ≠ a) (hnc : ∀ g x, (g, x) ∈ cont st n0 → x ≠ a) :
    TY n0 st (some a) := by
  constructor
  · exact h.rp
  · exact h.rv
  · intro g x hx
    have := h.rc g x hx
    have := hnc g x hx
    simp_all
    omega
  · intro a' ha'; simp only [Option.some.injEq] at ha'; subst ha'; exact ⟨ha0, hal, hp, hv⟩
  · intro a' ha' g x hx
    simp only [Option.some.injEq] at ha'; subst ha'
    rw [(h.lf a ha0 (by simp)).1] at hx; simp at hx
  · intro i hi hia
    refine ⟨(h.lf i hi (by simp)).1, fun j hj => ?_⟩
    obtain ⟨h1, _, h3⟩ := (h.lf i hi (by simp)).2 j hj
    have := hnp i j hj
    exact ⟨h1, by simp; omega, h3⟩

theorem TY_allocAgr {n0 : Nat} {st : Store} (h : TY n0 st none) (hr : Rng st) (hl : n0 < st.length) :
    TY n0 (addField (st ++ [emptyNode]) n0 "agr" st.length) (some st.length) := by
  have h1 : TY n0 (st ++ [emptyNode]) none :=
    TY_snoc h hr hl rfl (by intro j hj; simp [emptyNode] at hj)
  have h2 : TY n0 (st ++ [emptyNode]) (some st.length) := by
    refine TY_promote h1 hl (by simp) ?_ ?_ ?_ ?_
    · rw [ptr_snoc, if_pos rfl]; rfl
    · rw [val_snoc, if_pos rfl]; rfl
    · intro i j hij
      rw [ptr_snoc] at hij
      split at hij
      · simp [emptyNode] at hij
      · have := hr.p i j hij; omega
    · intro g x hx
      rw [cont_snoc, if_neg (by omega)] at hx
      have := hr.c _ g x hx; omega
  exact TY_addField_root h2 (by simp; omega) hl (by simp)

/-! ### path bookkeeping -/

theorem lookupC_snoc_ne_none {g g' : String} {c : List (String × Nat)} {n : Nat}
    (h : lookupC g' (c ++ [(g, n)]) ≠ none) : g' = g ∨ lookupC g' c ≠ none := by
  by_cases hg : g = g'
  · exact Or.inl hg.symm
  · rw [lookupC_append_single_ne c n hg] at h; exact Or.inr h

theorem lookupC_snoc_some {g g' : String} {c : List (String × Nat)} {n m : Nat}
    (h : lookupC g' (c ++ [(g, n)]) = some m) : lookupC g' c = some m ∨ (lookupC g' c = none ∧ g' = g ∧ m = n) := by
  rw [lookupC_append] at h
  cases hc : lookupC g' c with
  | some y => rw [hc] at h; exact Or.inl h
  | none =>
    rw [hc] at h
    simp only [lookupC] at h
    split at h
    · rename_i hg; simp at h; exact Or.inr ⟨rfl, hg.symm, h.symm⟩
    · simp at h

/-- `n` is a leaf object for the leaf description `l` -/
structure LeafOk (n0 : Nat) (st : Store) (vars : List (String × Nat)) (agr : Option Nat) (l : Leaf)
    (n : Nat) : Prop where
  lo : n0 < n
  hi : n < st.length
  na : agr ≠ some n
  atm : ∀ v, l = .atom v → val st n = some v ∧ ptr st n = none
  vr : ∀ x, l = .var x → ∃ vn, lookupC x vars = some vn ∧ ptr st n = some vn

/-- `n` is attached at path `p` -/
def At (n0 : Nat) (st : Store) (agr : Option Nat) (p : List String) (n : Nat) : Prop :=
  (∃ g, p = [g] ∧ lookupC g (cont st n0) = some n) ∨
  (∃ g a, p = ["agr", g] ∧ agr = some a ∧ lookupC g (cont st a) = some n)

theorem LeafOk_snoc {n0 : Nat} {st : Store} {vars : List (String × Nat)} {agr : Option Nat} {l : Leaf}
    {n : Nat} (nd : Node) (h : LeafOk n0 st vars agr l n) : LeafOk n0 (st ++ [nd]) vars agr l n := by
  have hn : n ≠ st.length := by have := h.hi; omega
  refine ⟨h.lo, by rw [length_snoc]; have := h.hi; omega, h.na, ?_, ?_⟩
  · rw [val_snoc, ptr_snoc, if_neg hn, if_neg hn]; exact h.atm
  · rw [ptr_snoc, if_neg hn]; exact h.vr

theorem LeafOk_var {n0 : Nat} {st : Store} {vars : List (String × Nat)} {agr : Option Nat} {l : Leaf}
    {n : Nat} (e : List (String × Nat)) (h : LeafOk n0 st vars agr l n) :
    LeafOk n0 st (vars ++ e) agr l n := by
  refine ⟨h.lo, h.hi, h.na, h.atm, ?_⟩
  intro x hx
  obtain ⟨vn, h1, h2⟩ := h.vr x hx
  exact ⟨vn, lookupC_append_some _ h1, h2⟩

theorem LeafOk_addField {n0 : Nat} {st : Store} {vars : List (String × Nat)} {agr : Option Nat}
    {l : Leaf} {n : Nat} (r : Nat) (g : String) (x : Nat) (h : LeafOk n0 st vars agr l n) :
    LeafOk n0 (addField st r g x) vars agr l n := by
  refine ⟨h.lo, by rw [length_addField]; exact h.hi, h.na, ?_, ?_⟩
  · rw [val_addField, ptr_addField]; exact h.atm
  · rw [ptr_addField]; exact h.vr

theorem LeafOk_setAgr {n0 : Nat} {st : Store} {vars : List (String × Nat)} {agr : Option Nat}
    {l : Leaf} {n : Nat} {agr' : Option Nat} (h : LeafOk n0 st vars agr l n) (ha : agr' ≠ some n) :
    LeafOk n0 st vars agr' l n :=
  ⟨h.lo, h.hi, ha, h.atm, h.vr⟩

theorem At_snoc {n0 : Nat} {st : Store} {agr : Option Nat} {p : List String} {n : Nat} (nd : Node)
    (hl : n0 < st.length) (ha : ∀ a, agr = some a → a < st.length) (h : At n0 st agr p n) :
    At n0 (st ++ [nd]) agr p n := by
  rcases h with ⟨g, hp, hg⟩ | ⟨g, a, hp, haa, hg⟩
  · left; refine ⟨g, hp, ?_⟩
    rw [cont_snoc, if_neg (by omega)]; exact hg
  · right; refine ⟨g, a, hp, haa, ?_⟩
    rw [cont_snoc, if_neg (by have := ha a haa; omega)]; exact hg

theorem lookupC_cont_addField {st : Store} {r : Nat} {g' : String} {i m : Nat} (g : String) (x : Nat)
    (h : lookupC g' (cont st i) = some m) : lookupC g' (cont (addField st r g x) i) = some m := by
  by_cases hr : r < st.length
  · rw [cont_addField hr]
    split
    · rename_i hi; subst hi; exact lookupC_append_some _ h
    · exact h
  · have : addField st r g x = st := by
      unfold addField; exact List.set_eq_of_length_le (by omega)
    rw [this]; exact h

theorem At_addField {n0 : Nat} {st : Store} {agr : Option Nat} {p : List String} {n : Nat}
    (r : Nat) (g : String) (x : Nat) (h : At n0 st agr p n) : At n0 (addField st r g x) agr p n := by
  rcases h with ⟨g', hp, hg⟩ | ⟨g', a, hp, haa, hg⟩
  · left; exact ⟨g', hp, lookupC_cont_addField g x hg⟩
  · right; exact ⟨g', a, hp, haa, lookupC_cont_addField g x hg⟩

theorem At_setAgr {n0 : Nat} {st : Store} {p : List String} {n : Nat} (a : Nat)
    (h : At n0 st none p n) : At n0 st (some a) p n := by
  rcases h with ⟨g', hp, hg⟩ | ⟨g', a, hp, haa, hg⟩
  · left; exact ⟨g', hp, hg⟩
  · simp at haa

structure PB (n0 : Nat) (st : Store) (vars : List (String × Nat)) (agr : Option Nat) (s1 : SFS) :
    Prop where
  an : agr = none → lookupC "agr" (cont st n0) = none
  asm : ∀ a, agr = some a → lookupC "agr" (cont st n0) = some a
  fr : ∀ g, lookupC g (cont st n0) ≠ none → g = "agr" ∨ ∃ l, ([g], l) ∈ s1
  fa : ∀ a, agr = some a → ∀ g, lookupC g (cont st a) ≠ none → ∃ l, (["agr", g], l) ∈ s1
  vr : ∀ x vn, lookupC x vars = some vn →
    n0 < vn ∧ vn < st.length ∧ agr ≠ some vn ∧ ptr st vn = none
  lf : ∀ p l, (p, l) ∈ s1 → ∃ n, LeafOk n0 st vars agr l n ∧ At n0 st agr p n

theorem PB_snoc {n0 : Nat} {st : Store} {vars : List (String × Nat)} {agr : Option Nat} {s1 : SFS}
    (nd : Node) (h : PB n0 st vars agr s1) (hl : n0 < st.length)
    (ha : ∀ a, agr = some a → a < st.length) : PB n0 (st ++ [nd]) vars agr s1 := by
  have hn : n0 ≠ st.length := by omega
  constructor
  · rw [cont_snoc, if_neg hn]; exact h.an
  · rw [cont_snoc, if_neg hn]; exact h.asm
  · rw [cont_snoc, if_neg hn]; exact h.fr
  · intro a haa
    rw [cont_snoc, if_neg (by have := ha a haa; omega)]; exact h.fa a haa
  · intro x vn hx
    obtain ⟨h1, h2, h3, h4⟩ := h.vr x vn hx
    rw [ptr_snoc, if_neg (by omega), length_snoc]
    exact ⟨h1, by omega, h3, h4⟩
  · intro p l hpl
    obtain ⟨n, h1, h2⟩ := h.lf p l hpl
    exact ⟨n, LeafOk_snoc nd h1, At_snoc nd hl ha h2⟩

theorem PB_var {n0 : Nat} {st : Store} {vars : List (String × Nat)} {agr : Option Nat} {s1 : SFS}
    {x : String} {vn : Nat} (h : PB n0 st vars agr s1) (h1 : n0 < vn) (h2 : vn < st.length)
    (h3 : agr ≠ some vn) (h4 : ptr st vn = none) : PB n0 st (vars ++ [(x, vn)]) agr s1 := by
  refine ⟨h.an, h.asm, h.fr, h.fa, ?_, ?_⟩
  · intro y w hy
    rcases lookupC_snoc_some hy with hy | ⟨_, _, rfl⟩
    · exact h.vr y w hy
    · exact ⟨h1, h2, h3, h4⟩
  · intro p l hpl
    obtain ⟨n, h1, h2⟩ := h.lf p l hpl
    exact ⟨n, LeafOk_var _ h1, h2⟩

theorem PB_addField_root {n0 : Nat} {st : Store} {vars : List (String × Nat)} {agr : Option Nat}
    {s1 : SFS} {g : String} {l : Leaf} {n : Nat} (h : PB n0 st vars agr s1) (hl : n0 < st.length)
    (hg : g ≠ "agr") (hfr : ∀ l', ([g], l') ∉ s1) (hn : LeafOk n0 st vars agr l n)
    (ha : ∀ a, agr = some a → a ≠ n0) :
    PB n0 (addField st n0 g n) vars agr (s1 ++ [([g], l)]) := by
  have hnone : lookupC g (cont st n0) = none := by
    by_contra hc
    rcases h.fr g hc with h1 | ⟨l', h1⟩
    · exact hg h1
    · exact hfr l' h1
  constructor
  · intro haa
    rw [cont_addField hl, if_pos rfl, lookupC_append_single_ne _ _ hg]; exact h.an haa
  · intro a haa
    exact lookupC_cont_addField _ _ (h.asm a haa)
  · intro g' hg'
    rw [cont_addField hl, if_pos rfl] at hg'
    rcases lookupC_snoc_ne_none hg' with rfl | hg'
    · right; exact ⟨l, by simp⟩
    · rcases h.fr g' hg' with h1 | ⟨l', h1⟩
      · exact Or.inl h1
      · right; exact ⟨l', by simp [h1]⟩
  · intro a haa g'
    rw [cont_addField_ne _ _ (ha a haa)]
    intro hg'
    obtain ⟨l', h1⟩ := h.fa a haa g' hg'
    exact ⟨l', by simp [h1]⟩
  · intro x vn hx
    rw [ptr_addField, length_addField]; exact h.vr x vn hx
  · intro p l' hpl
    rcases List.mem_append.1 hpl with hpl | hpl
    · obtain ⟨m, h1, h2⟩ := h.lf p l' hpl
      exact ⟨m, LeafOk_addField _ _ _ h1, At_addField _ _ _ h2⟩
    · simp only [List.mem_singleton, Prod.mk.injEq] at hpl
      obtain ⟨rfl, rfl⟩ := hpl
      refine ⟨n, LeafOk_addField _ _ _ hn, Or.inl ⟨g, rfl, ?_⟩⟩
      rw [cont_addField hl, if_pos rfl]
      exact lookupC_append_single_self n hnone

theorem PB_addField_agr {n0 : Nat} {st : Store} {vars : List (String × Nat)} {a : Nat}
    {s1 : SFS} {g : String} {l : Leaf} {n : Nat} (h : PB n0 st vars (some a) s1) (hl : a < st.length)
    (ha : a ≠ n0) (hfr : ∀ l', (["agr", g], l') ∉ s1) (hn : LeafOk n0 st vars (some a) l n) :
    PB n0 (addField st a g n) vars (some a) (s1 ++ [(["agr", g], l)]) := by
  have hnone : lookupC g (cont st a) = none := by
    by_contra hc
    obtain ⟨l', h1⟩ := h.fa a rfl g hc
    exact hfr l' h1
  constructor
  · intro haa; simp at haa
  · intro a' haa
    exact lookupC_cont_addField _ _ (h.asm a' haa)
  · intro g' hg'
    rw [cont_addField_ne _ _ (fun hh => ha hh.symm)] at hg'
    rcases h.fr g' hg' with h1 | ⟨l', h1⟩
    · exact Or.inl h1
    · right; exact ⟨l', by simp [h1]⟩
  · intro a' haa g' hg'
    simp only [Option.some.injEq] at haa; subst haa
    rw [cont_addField hl, if_pos rfl] at hg'
    rcases lookupC_snoc_ne_none hg' with rfl | hg'
    · exact ⟨l, by simp⟩
    · obtain ⟨l', h1⟩ := h.fa a rfl g' hg'
      exact ⟨l', by simp [h1]⟩
  · intro x vn hx
    rw [ptr_addField, length_addField]; exact h.vr x vn hx
  · intro p l' hpl
    rcases List.mem_append.1 hpl with hpl | hpl
    · obtain ⟨m, h1, h2⟩ := h.lf p l' hpl
      exact ⟨m, LeafOk_addField _ _ _ h1, At_addField _ _ _ h2⟩
    · simp only [List.mem_singleton, Prod.mk.injEq] at hpl
      obtain ⟨rfl, rfl⟩ := hpl
      refine ⟨n, LeafOk_addField _ _ _ hn, Or.inr ⟨g, a, rfl, rfl, ?_⟩⟩
      rw [cont_addField hl, if_pos rfl]
      exact lookupC_append_single_self n hnone

theorem PB_allocAgr {n0 : Nat} {st : Store} {vars : List (String × Nat)} {s1 : SFS}
    (h : PB n0 st vars none s1) (hl : n0 < st.length) :
    PB n0 (addField (st ++ [emptyNode]) n0 "agr" st.length) vars (some st.length) s1 := by
  have hl' : n0 < (st ++ [emptyNode]).length := by rw [length_snoc]; omega
  have hn : n0 ≠ st.length := by omega
  constructor
  · intro haa; simp at haa
  · intro a haa
    simp only [Option.some.injEq] at haa; subst haa
    rw [cont_addField hl', if_pos rfl, cont_snoc, if_neg hn]
    exact lookupC_append_single_self _ (h.an rfl)
  · intro g' hg'
    rw [cont_addField hl', if_pos rfl, cont_snoc, if_neg hn] at hg'
    rcases lookupC_snoc_ne_none hg' with rfl | hg'
    · exact Or.inl rfl
    · exact h.fr g' hg'
  · intro a haa g' hg'
    simp only [Option.some.injEq] at haa; subst haa
    rw [cont_addField_ne _ _ (fun hh => hn hh.symm), cont_snoc, if_pos rfl] at hg'
    simp [emptyNode, lookupC] at hg'
  · intro x vn hx
    obtain ⟨h1, h2, h3, h4⟩ := h.vr x vn hx
    rw [ptr_addField, length_addField, ptr_snoc, if_neg (by omega), length_snoc]
    refine ⟨h1, by omega, ?_, h4⟩
    simp; omega
  · intro p l hpl
    obtain ⟨m, h1, h2⟩ := h.lf p l hpl
    refine ⟨m, LeafOk_addField _ _ _ (LeafOk_snoc _ (LeafOk_setAgr h1 ?_)),
      At_addField _ _ _ (At_setAgr _ (At_snoc _ hl (by simp) h2))⟩
    have := h1.hi; simp; omega

/-! ### semantic invariant -/

def upd (ρ : Nat → List String → String) (k : Nat) (f : List String → String) :
    Nat → List String → String := fun i => if i = k then f else ρ i

theorem upd_self (ρ : Nat → List String → String) (k : Nat) (f : List String → String) :
    upd ρ k f k = f := by simp [upd]

theorem upd_ne (ρ : Nat → List String → String) {k i : Nat} (f : List String → String) (h : i ≠ k) :
    upd ρ k f i = ρ i := by simp [upd, h]

theorem Model_snoc {st : Store} {ρ : Nat → List String → String} {nd : Node}
    {f : List String → String} (hm : Model st ρ) (hr : Rng st) (hc : nd.content = [])
    (hp : ∀ j, nd.pointer = some j → j < st.length ∧ f = ρ j)
    (hv : ∀ v, nd.value = some v → f [] = v) : Model (st ++ [nd]) (upd ρ st.length f) := by
  constructor
  · intro i j hij
    rw [ptr_snoc] at hij
    split at hij
    · rename_i hi; subst hi
      obtain ⟨h1, h2⟩ := hp j hij
      rw [upd_self, upd_ne _ _ (by omega)]; exact h2
    · have h1 := ptr_lt hij
      have h2 := hr.p i j hij
      rw [upd_ne _ _ (by omega), upd_ne _ _ (by omega)]
      exact hm.p i j hij
  · intro i v hiv
    rw [val_snoc] at hiv
    split at hiv
    · rename_i hi; subst hi
      rw [upd_self]; exact hv v hiv
    · have h1 := val_lt hiv
      rw [upd_ne _ _ (by omega)]
      exact hm.v i v hiv
  · intro i g x hx
    rw [cont_snoc] at hx
    split at hx
    · rw [hc] at hx; simp at hx
    · have h1 := cont_lt hx
      have h2 := hr.c i g x hx
      rw [upd_ne _ _ (by omega), upd_ne _ _ (by omega)]
      exact hm.c i g x hx

theorem mem_cont_addField {st : Store} {r : Nat} {g : String} {x i : Nat} {e : String × Nat}
    (h : e ∈ cont (addField st r g x) i) : e ∈ cont st i ∨ (i = r ∧ e = (g, x)) := by
  by_cases hr : r < st.length
  · rw [cont_addField hr] at h
    split at h
    · rename_i hi; subst hi
      rcases List.mem_append.1 h with h | h
      · exact Or.inl h
      · simp at h; exact Or.inr ⟨rfl, h⟩
    · exact Or.inl h
  · have : addField st r g x = st := by
      unfold addField; exact List.set_eq_of_length_le (by omega)
    rw [this] at h; exact Or.inl h

theorem Model_addField {st : Store} {ρ : Nat → List String → String} {r : Nat} {g : String} {x : Nat}
    (hm : Model st ρ) (h : ∀ q, ρ r (g :: q) = ρ x q) : Model (addField st r g x) ρ := by
  constructor
  · intro i j hij; rw [ptr_addField] at hij; exact hm.p i j hij
  · intro i v hiv; rw [val_addField] at hiv; exact hm.v i v hiv
  · intro i g' y hy
    rcases mem_cont_addField hy with hy2 | ⟨rfl, hy2⟩
    · exact hm.c i g' y hy2
    · simp only [Prod.mk.injEq] at hy2; obtain ⟨rfl, rfl⟩ := hy2; exact h

structure MS (n0 : Nat) (s : SFS) (A : List String → String) (ρ0 : Nat → List String → String)
    (st : Store) (vars : List (String × Nat)) (agr : Option Nat)
    (ρ : Nat → List String → String) : Prop where
  m : Model st ρ
  old : ∀ i, i < n0 → ρ i = ρ0 i
  root : ρ n0 = A
  agr : ∀ a, agr = some a → ρ a = fun q => A ("agr" :: q)
  var : ∀ x vn, lookupC x vars = some vn →
    ∃ p0, (p0, Leaf.var x) ∈ s ∧ ρ vn = fun q => A (p0 ++ q)

theorem MS_snoc {n0 : Nat} {s : SFS} {A : List String → String} {ρ0 : Nat → List String → String}
    {st : Store} {vars : List (String × Nat)} {agr : Option Nat} {ρ : Nat → List String → String}
    {nd : Node} {f : List String → String} (h : MS n0 s A ρ0 st vars agr ρ) (hr : Rng st)
    (hl : n0 < st.length) (ha : ∀ a, agr = some a → a < st.length)
    (hvr : ∀ x vn, lookupC x vars = some vn → vn < st.length) (hc : nd.content = [])
    (hp : ∀ j, nd.pointer = some j → j < st.length ∧ f = ρ j)
    (hv : ∀ v, nd.value = some v → f [] = v) :
    MS n0 s A ρ0 (st ++ [nd]) vars agr (upd ρ st.length f) := by
  constructor
  · exact Model_snoc h.m hr hc hp hv
  · intro i hi; rw [upd_ne _ _ (by omega)]; exact h.old i hi
  · rw [upd_ne _ _ (by omega)]; exact h.root
  · intro a haa; rw [upd_ne _ _ (by have := ha a haa; omega)]; exact h.agr a haa
  · intro x vn hx; rw [upd_ne _ _ (by have := hvr x vn hx; omega)]; exact h.var x vn hx

theorem MS_var {n0 : Nat} {s : SFS} {A : List String → String} {ρ0 : Nat → List String → String}
    {st : Store} {vars : List (String × Nat)} {agr : Option Nat} {ρ : Nat → List String → String}
    {x : String} {vn : Nat} {p : List String} (h : MS n0 s A ρ0 st vars agr ρ)
    (hp : (p, Leaf.var x) ∈ s) (hv : ρ vn = fun q => A (p ++ q)) :
    MS n0 s A ρ0 st (vars ++ [(x, vn)]) agr ρ := by
  refine ⟨h.m, h.old, h.root, h.agr, ?_⟩
  intro y w hy
  rcases lookupC_snoc_some hy with hy | ⟨_, rfl, rfl⟩
  · exact h.var y w hy
  · exact ⟨p, hp, hv⟩

theorem MS_addField {n0 : Nat} {s : SFS} {A : List String → String} {ρ0 : Nat → List String → String}
    {st : Store} {vars : List (String × Nat)} {agr : Option Nat} {ρ : Nat → List String → String}
    {r : Nat} {g : String} {x : Nat} (h : MS n0 s A ρ0 st vars agr ρ)
    (hq : ∀ q, ρ r (g :: q) = ρ x q) : MS n0 s A ρ0 (addField st r g x) vars agr ρ :=
  ⟨Model_addField h.m hq, h.old, h.root, h.agr, h.var⟩

theorem MS_setAgr {n0 : Nat} {s : SFS} {A : List String → String} {ρ0 : Nat → List String → String}
    {st : Store} {vars : List (String × Nat)} {ρ : Nat → List String → String}
    {a : Nat} (h : MS n0 s A ρ0 st vars none ρ) (ha : ρ a = fun q => A ("agr" :: q)) :
    MS n0 s A ρ0 st vars (some a) ρ := by
  refine ⟨h.m, h.old, h.root, ?_, h.var⟩
  intro a' haa; simp only [Option.some.injEq] at haa; subst haa; exact ha

/-! ### the combined structural invariant and the fold step -/

structure SI (st0 st : Store) (vars : List (String × Nat)) (agr : Option Nat) (s1 : SFS) : Prop where
  fr : FR st0 st
  ty : TY st0.length st agr
  pb : PB st0.length st vars agr s1

theorem SI.agr_lt {st0 st : Store} {vars : List (String × Nat)} {agr : Option Nat} {s1 : SFS}
    (h : SI st0 st vars agr s1) : ∀ a, agr = some a → a < st.length :=
  fun a ha => (h.ty.ap a ha).2.1

theorem SI.agr_ne_len {st0 st : Store} {vars : List (String × Nat)} {agr : Option Nat} {s1 : SFS}
    (h : SI st0 st vars agr s1) : agr ≠ some st.length := by
  intro ha; have := h.agr_lt _ ha; omega

theorem SI_snoc {st0 st : Store} {vars : List (String × Nat)} {agr : Option Nat} {s1 : SFS}
    {nd : Node} (h : SI st0 st vars agr s1) (hc : nd.content = [])
    (hp : ∀ j, nd.pointer = some j →
      st0.length < j ∧ j < st.length ∧ agr ≠ some j ∧ ptr st j = none) :
    SI st0 (st ++ [nd]) vars agr s1 :=
  ⟨FR_snoc h.fr hc (fun j hj => (hp j hj).2.1), TY_snoc h.ty h.fr.rng h.fr.len hc hp,
    PB_snoc nd h.pb h.fr.len h.agr_lt⟩

theorem SI_var {st0 st : Store} {vars : List (String × Nat)} {agr : Option Nat} {s1 : SFS}
    {x : String} {vn : Nat} (h : SI st0 st vars agr s1) (h1 : st0.length < vn) (h2 : vn < st.length)
    (h3 : agr ≠ some vn) (h4 : ptr st vn = none) : SI st0 st (vars ++ [(x, vn)]) agr s1 :=
  ⟨h.fr, h.ty, PB_var h.pb h1 h2 h3 h4⟩

theorem mkLeaf_SI {st0 st : Store} {vars : List (String × Nat)} {agr : Option Nat} {s1 : SFS}
    (h : SI st0 st vars agr s1) (l : Leaf) :
    SI st0 (mkLeaf st vars l).1 (mkLeaf st vars l).2.1 agr s1 ∧
    LeafOk st0.length (mkLeaf st vars l).1 (mkLeaf st vars l).2.1 agr l (mkLeaf st vars l).2.2 := by
  have hl := h.fr.len
  have hna := h.agr_ne_len
  cases l with
  | atom v =>
    simp only [mkLeaf]
    refine ⟨SI_snoc h rfl (by simp), hl, by simp, hna, ?_, by simp⟩
    intro v' hv'; simp only [Leaf.atom.injEq] at hv'; subst hv'
    rw [val_snoc, ptr_snoc, if_pos rfl, if_pos rfl]; exact ⟨rfl, rfl⟩
  | free =>
    simp only [mkLeaf]
    exact ⟨SI_snoc h rfl (by simp [emptyNode]), hl, by simp, hna, by simp, by simp⟩
  | var x =>
    simp only [mkLeaf]
    cases hx : lookupC x vars with
    | some vn =>
      simp only []
      obtain ⟨h1, h2, h3, h4⟩ := h.pb.vr x vn hx
      refine ⟨SI_snoc h rfl ?_, hl, by simp, hna, by simp, ?_⟩
      · intro j hj; simp only [Option.some.injEq] at hj; subst hj; exact ⟨h1, h2, h3, h4⟩
      · intro x' hx'; simp only [Leaf.var.injEq] at hx'; subst hx'
        exact ⟨vn, hx, by rw [ptr_snoc, if_pos rfl]⟩
    | none =>
      simp only []
      have e1 : SI st0 (st ++ [emptyNode]) vars agr s1 := SI_snoc h rfl (by simp [emptyNode])
      have hp : ptr (st ++ [emptyNode]) st.length = none := by rw [ptr_snoc, if_pos rfl]; rfl
      have e2 : SI st0 (st ++ [emptyNode]) (vars ++ [(x, st.length)]) agr s1 :=
        SI_var e1 hl (by simp) hna hp
      refine ⟨SI_snoc e2 rfl ?_, by simp; omega, by simp, e2.agr_ne_len, by simp, ?_⟩
      · intro j hj; simp only [Option.some.injEq] at hj; subst hj
        exact ⟨hl, by simp, hna, hp⟩
      · intro x' hx'; simp only [Leaf.var.injEq] at hx'; subst hx'
        refine ⟨st.length, lookupC_append_single_self _ hx, ?_⟩
        rw [ptr_snoc, if_pos rfl]

theorem LeafOk.ne_root {n0 : Nat} {st : Store} {vars : List (String × Nat)} {agr : Option Nat}
    {l : Leaf} {n : Nat} (h : LeafOk n0 st vars agr l n) : n ≠ n0 := by have := h.lo; omega

theorem SI_attach_root {st0 st : Store} {vars : List (String × Nat)} {agr : Option Nat} {s1 : SFS}
    {g : String} {l : Leaf} {n : Nat} (h : SI st0 st vars agr s1)
    (hn : LeafOk st0.length st vars agr l n) (hg : g ≠ "agr") (hfr : ∀ l', ([g], l') ∉ s1) :
    SI st0 (addField st st0.length g n) vars agr (s1 ++ [([g], l)]) := by
  refine ⟨FR_addField h.fr (Nat.le_refl _) h.fr.len hn.hi, ?_, ?_⟩
  · refine TY_addField_root h.ty h.fr.len hn.lo ?_
    constructor
    · intro h1; exact absurd h1 hg
    · intro h1; exact absurd h1 hn.na
  · refine PB_addField_root h.pb h.fr.len hg hfr hn ?_
    intro a ha; have := (h.ty.ap a ha).1; omega

theorem SI_attach_agr {st0 st : Store} {vars : List (String × Nat)} {a : Nat} {s1 : SFS}
    {g : String} {l : Leaf} {n : Nat} (h : SI st0 st vars (some a) s1)
    (hn : LeafOk st0.length st vars (some a) l n) (hfr : ∀ l', (["agr", g], l') ∉ s1) :
    SI st0 (addField st a g n) vars (some a) (s1 ++ [(["agr", g], l)]) := by
  obtain ⟨h1, h2, _, _⟩ := h.ty.ap a rfl
  refine ⟨FR_addField h.fr (by omega) h2 hn.hi, ?_, ?_⟩
  · refine TY_addField_agr h.ty hn.lo ?_
    intro hh; subst hh; exact hn.na rfl
  · exact PB_addField_agr h.pb h2 (by omega) hfr hn

theorem SI_allocAgr {st0 st : Store} {vars : List (String × Nat)} {s1 : SFS}
    (h : SI st0 st vars none s1) :
    SI st0 (addField (st ++ [emptyNode]) st0.length "agr" st.length) vars (some st.length) s1 := by
  have hl := h.fr.len
  refine ⟨?_, TY_allocAgr h.ty h.fr.rng hl, PB_allocAgr h.pb hl⟩
  refine FR_addField (FR_snoc h.fr rfl (by simp [emptyNode])) (Nat.le_refl _) ?_ ?_
  · rw [length_snoc]; omega
  · rw [length_snoc]; omega

theorem LeafOk_allocAgr {n0 : Nat} {st : Store} {vars : List (String × Nat)} {l : Leaf} {n : Nat}
    (h : LeafOk n0 st vars none l n) :
    LeafOk n0 (addField (st ++ [emptyNode]) n0 "agr" st.length) vars (some st.length) l n := by
  refine LeafOk_addField _ _ _ (LeafOk_snoc _ (LeafOk_setAgr h ?_))
  have := h.hi; simp; omega

/-- shape of the current entry w.r.t. the processed prefix -/
def Fresh (s1 : SFS) (p : List String) : Prop :=
  (∃ g, p = [g] ∧ g ≠ "agr" ∧ ∀ l', ([g], l') ∉ s1) ∨ (∃ g, p = ["agr", g] ∧ ∀ l', (["agr", g], l') ∉ s1)

theorem attach_SI {st0 st : Store} {vars : List (String × Nat)} {agr : Option Nat} {s1 : SFS}
    {p : List String} {l : Leaf} {n : Nat} (h : SI st0 st vars agr s1)
    (hn : LeafOk st0.length st vars agr l n) (hp : Fresh s1 p) :
    SI st0 (attach st0.length st vars agr n p).1 (attach st0.length st vars agr n p).2.1
      (attach st0.length st vars agr n p).2.2 (s1 ++ [(p, l)]) := by
  rcases hp with ⟨g, rfl, hg, hfr⟩ | ⟨g, rfl, hfr⟩
  · simp only [attach]
    exact SI_attach_root h hn hg hfr
  · cases agr with
    | some a =>
      simp only [attach]
      exact SI_attach_agr h hn hfr
    | none =>
      simp only [attach]
      exact SI_attach_agr (SI_allocAgr h) (LeafOk_allocAgr hn) hfr

theorem bstep_SI {st0 : Store} {acc : St} {s1 : SFS} {e : List String × Leaf}
    (h : SI st0 acc.1 acc.2.1 acc.2.2 s1) (hp : Fresh s1 e.1) :
    SI st0 (bstep st0.length acc e).1 (bstep st0.length acc e).2.1 (bstep st0.length acc e).2.2
      (s1 ++ [e]) := by
  obtain ⟨h1, h2⟩ := mkLeaf_SI h e.2
  exact attach_SI h1 h2 hp

/-! ### the semantic part of the fold step -/

theorem mkLeaf_MS {st0 st : Store} {vars : List (String × Nat)} {agr : Option Nat} {s1 s : SFS}
    {A : List String → String} {ρ0 ρ : Nat → List String → String} {p : List String} {l : Leaf}
    (h : SI st0 st vars agr s1) (hm : MS st0.length s A ρ0 st vars agr ρ) (hpl : (p, l) ∈ s)
    (hA : ∀ p v, (p, Leaf.atom v) ∈ s → A p = v)
    (hV : ∀ p p' x, (p, Leaf.var x) ∈ s → (p', Leaf.var x) ∈ s → ∀ q, A (p ++ q) = A (p' ++ q)) :
    ∃ ρ', MS st0.length s A ρ0 (mkLeaf st vars l).1 (mkLeaf st vars l).2.1 agr ρ' ∧
      ρ' (mkLeaf st vars l).2.2 = fun q => A (p ++ q) := by
  have hl := h.fr.len
  have hna := h.agr_ne_len
  have hvr : ∀ x vn, lookupC x vars = some vn → vn < st.length :=
    fun x vn hx => (h.pb.vr x vn hx).2.1
  cases l with
  | atom v =>
    simp only [mkLeaf]
    refine ⟨upd ρ st.length (fun q => A (p ++ q)),
      MS_snoc hm h.fr.rng hl h.agr_lt hvr rfl (by simp) ?_, upd_self _ _ _⟩
    intro v' hv'; simp only [Option.some.injEq] at hv'; subst hv'
    simp only [List.append_nil]; exact hA p _ hpl
  | free =>
    simp only [mkLeaf]
    exact ⟨upd ρ st.length (fun q => A (p ++ q)),
      MS_snoc hm h.fr.rng hl h.agr_lt hvr rfl (by simp [emptyNode]) (by simp [emptyNode]),
      upd_self _ _ _⟩
  | var x =>
    simp only [mkLeaf]
    cases hx : lookupC x vars with
    | some vn =>
      simp only []
      refine ⟨upd ρ st.length (fun q => A (p ++ q)),
        MS_snoc hm h.fr.rng hl h.agr_lt hvr rfl ?_ (by simp), upd_self _ _ _⟩
      intro j hj; simp only [Option.some.injEq] at hj; subst hj
      obtain ⟨p0, hp0, hρ⟩ := hm.var x vn hx
      refine ⟨hvr x vn hx, ?_⟩
      rw [hρ]; funext q; exact hV p p0 x hpl hp0 q
    | none =>
      simp only []
      have e1 : SI st0 (st ++ [emptyNode]) vars agr s1 := SI_snoc h rfl (by simp [emptyNode])
      have hp : ptr (st ++ [emptyNode]) st.length = none := by rw [ptr_snoc, if_pos rfl]; rfl
      have e2 : SI st0 (st ++ [emptyNode]) (vars ++ [(x, st.length)]) agr s1 :=
        SI_var e1 hl (by simp) hna hp
      have m1 : MS st0.length s A ρ0 (st ++ [emptyNode]) vars agr
          (upd ρ st.length (fun q => A (p ++ q))) :=
        MS_snoc hm h.fr.rng hl h.agr_lt hvr rfl (by simp [emptyNode]) (by simp [emptyNode])
      have m2 : MS st0.length s A ρ0 (st ++ [emptyNode]) (vars ++ [(x, st.length)]) agr
          (upd ρ st.length (fun q => A (p ++ q))) := MS_var m1 hpl (upd_self _ _ _)
      refine ⟨upd (upd ρ st.length (fun q => A (p ++ q))) (st ++ [emptyNode]).length
        (fun q => A (p ++ q)),
        MS_snoc m2 e2.fr.rng e2.fr.len e2.agr_lt (fun x vn hx => (e2.pb.vr x vn hx).2.1) rfl ?_
          (by simp), upd_self _ _ _⟩
      intro j hj; simp only [Option.some.injEq] at hj; subst hj
      exact ⟨by simp, (upd_self _ _ _).symm⟩

theorem MS_allocAgr {st0 st : Store} {vars : List (String × Nat)} {s1 s : SFS}
    {A : List String → String} {ρ0 ρ : Nat → List String → String}
    (h : SI st0 st vars none s1) (hm : MS st0.length s A ρ0 st vars none ρ) :
    MS st0.length s A ρ0 (addField (st ++ [emptyNode]) st0.length "agr" st.length) vars
      (some st.length) (upd ρ st.length (fun q => A ("agr" :: q))) := by
  have hl := h.fr.len
  have hvr : ∀ x vn, lookupC x vars = some vn → vn < st.length :=
    fun x vn hx => (h.pb.vr x vn hx).2.1
  have m1 : MS st0.length s A ρ0 (st ++ [emptyNode]) vars none
      (upd ρ st.length (fun q => A ("agr" :: q))) :=
    MS_snoc hm h.fr.rng hl h.agr_lt hvr rfl (by simp [emptyNode]) (by simp [emptyNode])
  refine MS_setAgr (MS_addField m1 ?_) (upd_self _ _ _)
  intro q
  rw [upd_self, upd_ne _ _ (by omega), hm.root]

theorem attach_MS {st0 st : Store} {vars : List (String × Nat)} {agr : Option Nat} {s1 s : SFS}
    {A : List String → String} {ρ0 ρ : Nat → List String → String} {p : List String} {l : Leaf}
    {n : Nat} (h : SI st0 st vars agr s1) (hn : LeafOk st0.length st vars agr l n)
    (hm : MS st0.length s A ρ0 st vars agr ρ) (hρ : ρ n = fun q => A (p ++ q)) (hp : Fresh s1 p) :
    ∃ ρ', MS st0.length s A ρ0 (attach st0.length st vars agr n p).1
      (attach st0.length st vars agr n p).2.1 (attach st0.length st vars agr n p).2.2 ρ' := by
  rcases hp with ⟨g, rfl, hg, hfr⟩ | ⟨g, rfl, hfr⟩
  · simp only [attach]
    refine ⟨ρ, MS_addField hm ?_⟩
    intro q; rw [hm.root, hρ]; rfl
  · cases agr with
    | some a =>
      simp only [attach]
      refine ⟨ρ, MS_addField hm ?_⟩
      intro q; rw [hm.agr a rfl, hρ]; rfl
    | none =>
      simp only [attach]
      have m1 := MS_allocAgr h hm
      refine ⟨_, MS_addField m1 ?_⟩
      intro q
      rw [upd_self, upd_ne _ _ (by have := hn.hi; omega), hρ]; rfl

theorem bstep_MS {st0 : Store} {acc : St} {s1 s : SFS} {e : List String × Leaf}
    {A : List String → String} {ρ0 ρ : Nat → List String → String}
    (h : SI st0 acc.1 acc.2.1 acc.2.2 s1) (hm : MS st0.length s A ρ0 acc.1 acc.2.1 acc.2.2 ρ)
    (he : e ∈ s) (hp : Fresh s1 e.1)
    (hA : ∀ p v, (p, Leaf.atom v) ∈ s → A p = v)
    (hV : ∀ p p' x, (p, Leaf.var x) ∈ s → (p', Leaf.var x) ∈ s → ∀ q, A (p ++ q) = A (p' ++ q)) :
    ∃ ρ', MS st0.length s A ρ0 (bstep st0.length acc e).1 (bstep st0.length acc e).2.1
      (bstep st0.length acc e).2.2 ρ' := by
  obtain ⟨h1, h2⟩ := mkLeaf_SI h e.2
  obtain ⟨ρ1, m1, hρ1⟩ := mkLeaf_MS (p := e.1) (l := e.2) h hm he hA hV
  exact attach_MS h1 h2 m1 hρ1 hp

/-! ### the fold -/

theorem fold_inv (n0 : Nat) (s : SFS) (P : St → SFS → Prop)
    (hstep : ∀ acc s1 e s2, s = s1 ++ e :: s2 → P acc s1 → P (bstep n0 acc e) (s1 ++ [e])) :
    ∀ (s2 s1 : SFS) (acc : St), s = s1 ++ s2 → P acc s1 → P (s2.foldl (bstep n0) acc) s := by
  intro s2
  induction s2 with
  | nil => intro s1 acc hs h; simp at hs; subst hs; exact h
  | cons e s2 ih =>
    intro s1 acc hs h
    rw [List.foldl_cons]
    exact ih (s1 ++ [e]) _ (by simp [hs]) (hstep acc s1 e s2 hs h)

theorem fresh_of {s s1 s2 : SFS} {e : List String × Leaf}
    (hsh : ∀ e ∈ s, (∃ g, e.1 = [g] ∧ g ≠ "agr") ∨ (∃ g, e.1 = ["agr", g]))
    (hnd : (s.map (·.1)).Nodup) (hs : s = s1 ++ e :: s2) : Fresh s1 e.1 := by
  have hno : ∀ l', (e.1, l') ∉ s1 := by
    intro l' hl'
    rw [hs, List.map_append, List.map_cons] at hnd
    have := (List.nodup_append.1 hnd).2.2 e.1 (List.mem_map.2 ⟨_, hl', rfl⟩) e.1 (by simp)
    exact this rfl
  rcases hsh e (by rw [hs]; simp) with ⟨g, hg, hga⟩ | ⟨g, hg⟩
  · left; exact ⟨g, hg, hga, by rw [← hg]; exact hno⟩
  · right; exact ⟨g, hg, by rw [← hg]; exact hno⟩

/-! ### the initial state -/

theorem init_SI {st0 : Store} (hR : Rng st0) : SI st0 (st0 ++ [emptyNode]) [] none [] := by
  have hemp : ∀ i, st0.length < i → get (st0 ++ [emptyNode]) i = emptyNode := by
    intro i hi; rw [get_snoc, if_neg (by omega)]; exact get_ge (by omega)
  refine ⟨⟨by simp, ?_, Rng_snoc hR rfl (by simp [emptyNode])⟩, ?_, ?_⟩
  · intro i hi; rw [get_snoc, if_neg (by omega)]
  · constructor
    · rw [ptr_snoc, if_pos rfl]; rfl
    · rw [val_snoc, if_pos rfl]; rfl
    · intro g x hx; rw [cont_snoc, if_pos rfl] at hx; simp [emptyNode] at hx
    · intro a ha; simp at ha
    · intro a ha; simp at ha
    · intro i hi _
      simp only [ptr, cont, hemp i hi]
      simp [emptyNode]
  · constructor
    · intro _; rw [cont_snoc, if_pos rfl]; rfl
    · intro a ha; simp at ha
    · intro g hg; rw [cont_snoc, if_pos rfl] at hg; simp [emptyNode, lookupC] at hg
    · intro a ha; simp at ha
    · intro x vn hx; simp [lookupC] at hx
    · intro p l hpl; simp at hpl

theorem init_MS {st0 : Store} (hR : Rng st0) (s : SFS) (A : List String → String)
    (ρ0 : Nat → List String → String) (hm : Model st0 ρ0) :
    MS st0.length s A ρ0 (st0 ++ [emptyNode]) [] none (upd ρ0 st0.length A) := by
  constructor
  · exact Model_snoc hm hR rfl (by simp [emptyNode]) (by simp [emptyNode])
  · intro i hi; rw [upd_ne _ _ (by omega)]
  · exact upd_self _ _ _
  · intro a ha; simp at ha
  · intro x vn hx; simp [lookupC] at hx

theorem fold_SI {st0 : Store} (hR : Rng st0) (s : SFS)
    (hsh : ∀ e ∈ s, (∃ g, e.1 = [g] ∧ g ≠ "agr") ∨ (∃ g, e.1 = ["agr", g]))
    (hnd : (s.map (·.1)).Nodup) :
    SI st0 (s.foldl (bstep st0.length) (st0 ++ [emptyNode], [], none)).1
      (s.foldl (bstep st0.length) (st0 ++ [emptyNode], [], none)).2.1
      (s.foldl (bstep st0.length) (st0 ++ [emptyNode], [], none)).2.2 s := by
  refine fold_inv st0.length s (fun acc s1 => SI st0 acc.1 acc.2.1 acc.2.2 s1) ?_ s []
    (st0 ++ [emptyNode], [], none) rfl (init_SI hR)
  intro acc s1 e s2 hs h
  exact bstep_SI h (fresh_of hsh hnd hs)

theorem fold_MS {st0 : Store} (hR : Rng st0) (s : SFS)
    (hsh : ∀ e ∈ s, (∃ g, e.1 = [g] ∧ g ≠ "agr") ∨ (∃ g, e.1 = ["agr", g]))
    (hnd : (s.map (·.1)).Nodup) (A : List String → String) (ρ0 : Nat → List String → String)
    (hm : Model st0 ρ0) (hA : ∀ p v, (p, Leaf.atom v) ∈ s → A p = v)
    (hV : ∀ p p' x, (p, Leaf.var x) ∈ s → (p', Leaf.var x) ∈ s → ∀ q, A (p ++ q) = A (p' ++ q)) :
    ∃ ρ, MS st0.length s A ρ0 (s.foldl (bstep st0.length) (st0 ++ [emptyNode], [], none)).1
      (s.foldl (bstep st0.length) (st0 ++ [emptyNode], [], none)).2.1
      (s.foldl (bstep st0.length) (st0 ++ [emptyNode], [], none)).2.2 ρ := by
  refine (fold_inv st0.length s (fun acc s1 => SI st0 acc.1 acc.2.1 acc.2.2 s1 ∧
      ∃ ρ, MS st0.length s A ρ0 acc.1 acc.2.1 acc.2.2 ρ) ?_ s []
    (st0 ++ [emptyNode], [], none) rfl ⟨init_SI hR, _, init_MS hR s A ρ0 hm⟩).2
  intro acc s1 e s2 hs h
  obtain ⟨h1, ρ, h2⟩ := h
  have hf := fresh_of hsh hnd hs
  exact ⟨bstep_SI h1 hf, bstep_MS h1 h2 (by rw [hs]; simp) hf hA hV⟩

/-! ### deriving `BuildSpec` from the structural invariant -/

def rkN (st0 : Store) (rk0 : Nat → Nat) (agr : Option Nat) (i : Nat) : Nat :=
  if i < st0.length then rk0 i else if i = st0.length then 2 else if agr = some i then 1 else 0

section final
variable {st0 st : Store} {vars : List (String × Nat)} {agr : Option Nat} {s1 : SFS}

theorem SI.old_ptr (h : SI st0 st vars agr s1) {i : Nat} (hi : i < st0.length) :
    ptr st i = ptr st0 i := by simp only [ptr, h.fr.old i hi]

theorem SI.old_cont (h : SI st0 st vars agr s1) {i : Nat} (hi : i < st0.length) :
    cont st i = cont st0 i := by simp only [cont, h.fr.old i hi]

theorem SI.old_val (h : SI st0 st vars agr s1) {i : Nat} (hi : i < st0.length) :
    val st i = val st0 i := by simp only [val, h.fr.old i hi]

theorem SI.ptr_some (h : SI st0 st vars agr s1) (hR : Rng st0) {i j : Nat}
    (hij : ptr st i = some j) :
    (i < st0.length ∧ j < st0.length ∧ ptr st0 i = some j) ∨
    (st0.length < i ∧ agr ≠ some i ∧ st0.length < j ∧ agr ≠ some j ∧ ptr st j = none ∧
      cont st i = []) := by
  by_cases h1 : i < st0.length
  · rw [h.old_ptr h1] at hij
    exact Or.inl ⟨h1, hR.p i j hij, hij⟩
  · right
    have h2 : i ≠ st0.length := by
      intro hh; subst hh; rw [h.ty.rp] at hij; simp at hij
    have h3 : agr ≠ some i := by
      intro hh; rw [(h.ty.ap i hh).2.2.1] at hij; simp at hij
    have h4 : st0.length < i := by omega
    obtain ⟨h5, h6⟩ := h.ty.lf i h4 h3
    obtain ⟨h7, h8, h9⟩ := h6 j hij
    exact ⟨h4, h3, h7, h8, h9, h5⟩

theorem SI.acyc (h : SI st0 st vars agr s1) (hR : Rng st0) (ha : Acyc st0) : Acyc st := by
  obtain ⟨h0, hh0⟩ := ha
  refine ⟨fun i => if i < st0.length then h0 i else if (ptr st i).isSome then 1 else 0, ?_⟩
  intro i j hij
  rcases h.ptr_some hR hij with ⟨h1, h2, h3⟩ | ⟨h1, _, h3, _, h5, _⟩
  · simp only [if_pos h1, if_pos h2]; exact hh0 i j h3
  · simp only [if_neg (show ¬ i < st0.length by omega), if_neg (show ¬ j < st0.length by omega),
      hij, h5]
    simp

theorem SI.deref_old (h : SI st0 st vars agr s1) (hR : Rng st0) (ha : Acyc st0) {i : Nat}
    (hi : i < st0.length) : deref st i = deref st0 i :=
  deref_frame ha (Nat.le_of_lt h.fr.len) (· < st0.length) (fun _ hj => h.old_ptr hj)
    (fun j j2 _ hp => hR.p j j2 hp) i hi

theorem SI.invB (h : SI st0 st vars agr s1) (hR : Rng st0) {rk0 : Nat → Nat} (hI : InvB st0 rk0) :
    InvB st (rkN st0 rk0 agr) := by
  refine ⟨h.acyc hR hI.acyc, ?_, ?_, ?_⟩
  · intro i j hij
    rcases h.ptr_some hR hij with ⟨h1, h2, h3⟩ | ⟨h1, h2, h3, h4, _, _⟩
    · simp only [rkN, if_pos h1, if_pos h2]; exact hI.rkp i j h3
    · simp only [rkN, if_neg (show ¬ i < st0.length by omega), if_neg (show ¬ j < st0.length by omega),
        if_neg (show ¬ i = st0.length by omega), if_neg (show ¬ j = st0.length by omega),
        if_neg h2, if_neg h4]
  · intro i g x hx
    by_cases h1 : i < st0.length
    · rw [h.old_cont h1] at hx
      have := hR.c i g x hx
      simp only [rkN, if_pos h1, if_pos this]; exact hI.rkc i g x hx
    · by_cases h2 : i = st0.length
      · subst h2
        obtain ⟨h3, h4⟩ := h.ty.rc g x hx
        simp only [rkN, if_neg h1, if_neg (show ¬ x < st0.length by omega),
          if_neg (show ¬ x = st0.length by omega), cr]
        by_cases h5 : g = "agr"
        · simp [h5, h4.1 h5]
        · have : agr ≠ some x := fun hh => h5 (h4.2 hh)
          simp [h5, this]
      · by_cases h3 : agr = some i
        · obtain ⟨h4, h5⟩ := h.ty.ac i h3 g x hx
          have : agr ≠ some x := by rw [h3]; simp; omega
          simp only [rkN, if_neg h1, if_neg h2, if_pos h3, if_neg (show ¬ x < st0.length by omega),
            if_neg (show ¬ x = st0.length by omega), if_neg this, cr]
          simp
        · rw [(h.ty.lf i (by omega) h3).1] at hx; simp at hx
  · intro i v hv
    by_cases h1 : i < st0.length
    · rw [h.old_val h1] at hv
      simp only [rkN, if_pos h1]; exact hI.rkv i v hv
    · have h2 : i ≠ st0.length := by
        intro hh; subst hh; rw [h.ty.rv] at hv; simp at hv
      have h3 : agr ≠ some i := by
        intro hh; rw [(h.ty.ap i hh).2.2.2] at hv; simp at hv
      simp only [rkN, if_neg h1, if_neg h2, if_neg h3]

theorem SI.cc (h : SI st0 st vars agr s1) (hR : Rng st0) (ha : Acyc st0) (hC : ∀ i, CCat st0 i) :
    ∀ i, CCat st i := by
  intro i
  cases hp : ptr st i with
  | none => exact CCat_of_rep hp
  | some _ =>
    rcases h.ptr_some hR hp with ⟨h1, _, _⟩ | ⟨_, _, _, _, _, h6⟩
    · intro g x hx
      rw [h.old_cont h1] at hx
      obtain ⟨x', hx', hd⟩ := hC i g x hx
      have hdi : deref st0 i < st0.length := deref_lt hR h1
      have hxl := hR.c _ g x (lookupC_mem hx)
      have hxl' := hR.c _ g x' (lookupC_mem hx')
      refine ⟨x', ?_, ?_⟩
      · rw [h.deref_old hR ha h1, h.old_cont hdi]; exact hx'
      · rw [h.deref_old hR ha hxl, h.deref_old hR ha hxl']; exact hd
    · intro g x hx
      rw [h6] at hx; simp [lookupC] at hx

theorem SI.byPath_of_At (h : SI st0 st vars agr s1) {p : List String} {n : Nat}
    (hat : At st0.length st agr p n) : byPath st st0.length p = some n := by
  have hroot : deref st st0.length = st0.length := deref_of_none h.ty.rp
  rcases hat with ⟨g, rfl, hg⟩ | ⟨g, a, rfl, ha, hg⟩
  · rw [byPath_cons_of _ (by rw [hroot]; exact hg)]; rfl
  · have hda : deref st a = a := deref_of_none (h.ty.ap a ha).2.2.1
    rw [byPath_cons_of _ (by rw [hroot]; exact h.pb.asm a ha),
      byPath_cons_of _ (by rw [hda]; exact hg)]; rfl

theorem rkN_leaf (rk0 : Nat → Nat) {l : Leaf} {n : Nat}
    (hn : LeafOk st0.length st vars agr l n) : rkN st0 rk0 agr n = 0 := by
  have := hn.lo
  simp only [rkN, if_neg (show ¬ n < st0.length by omega), if_neg (show ¬ n = st0.length by omega),
    if_neg hn.na]

end final

end Build

open Build in
theorem buildInto_spec (st0 : Store) (rk0 : Nat → Nat) (hR : Rng st0) (hI : InvB st0 rk0)
    (hC : ∀ i, CCat st0 i) (hrk : ∀ i, rk0 i ≤ 2) (s : SFS)
    (hsh : ∀ e ∈ s, (∃ g, e.1 = [g] ∧ g ≠ "agr") ∨ (∃ g, e.1 = ["agr", g]))
    (hnd : (s.map (·.1)).Nodup) :
    ∃ st rk, buildInto st0 s = (st, st0.length) ∧ BuildSpec st0 rk0 s st rk := by
  have h := fold_SI hR s hsh hnd
  have hms := fold_MS hR s hsh hnd
  have heq := buildInto_eq st0 s
  generalize s.foldl (bstep st0.length) (st0 ++ [emptyNode], [], none) = r at h hms heq
  obtain ⟨st, vars, agr⟩ := r
  simp only at h hms heq
  refine ⟨st, rkN st0 rk0 agr, heq, ?_⟩
  have hacyc := h.acyc hR hI.acyc
  constructor
  · exact h.fr.len
  · exact h.fr.old
  · intro i hi; simp only [rkN, if_pos hi]
  · simp [rkN]
  · intro i; have := hrk i; simp only [rkN]; split
    · exact this
    · split
      · omega
      · split <;> omega
  · exact h.fr.rng
  · exact h.invB hR hI
  · exact h.cc hR hI.acyc hC
  · intro p l hpl
    obtain ⟨n, hn, hat⟩ := h.pb.lf p l hpl
    refine ⟨n, h.byPath_of_At hat, hn.hi, rkN_leaf rk0 hn, ?_⟩
    intro v hv
    obtain ⟨h1, h2⟩ := hn.atm v hv
    rw [deref_of_none h2]; exact h1
  · intro p p' x n n' hp hp' hb hb'
    obtain ⟨m, hm, hat⟩ := h.pb.lf _ _ hp
    obtain ⟨m', hm', hat'⟩ := h.pb.lf _ _ hp'
    have e1 := h.byPath_of_At hat
    have e2 := h.byPath_of_At hat'
    rw [hb] at e1; rw [hb'] at e2
    simp only [Option.some.injEq] at e1 e2
    subst e1; subst e2
    obtain ⟨vn, hv1, hv2⟩ := hm.vr x rfl
    obtain ⟨vn', hv1', hv2'⟩ := hm'.vr x rfl
    rw [hv1] at hv1'; simp only [Option.some.injEq] at hv1'; subst hv1'
    rw [deref_step hacyc hv2, deref_step hacyc hv2']
  · intro A ρ0 hm hA hV
    obtain ⟨ρ, hρ⟩ := hms A ρ0 hm hA hV
    exact ⟨ρ, hρ.old, hρ.m, hρ.root⟩


/-! ## Part: Lemmas -/

/-! ### frames for `byPath` -/

theorem byPath_frame {st st' : Store} (ha : Acyc st) (hr : Rng st) (hlen : st.length ≤ st'.length)
    (hold : ∀ i, i < st.length → get st' i = get st i) :
    ∀ (p : List String) (i : Nat), i < st.length → byPath st' i p = byPath st i p := by
  have hder : ∀ i, i < st.length → deref st' i = deref st i := fun i hi =>
    deref_frame ha hlen (· < st.length) (fun j hj => by rw [ptr, hold j hj])
      (fun j j2 _ h => hr.p j j2 h) i hi
  intro p
  induction p with
  | nil => intro i _; rfl
  | cons g p ih =>
    intro i hi
    rw [byPath_cons, byPath_cons, hder i hi, cont, hold _ (deref_lt hr hi)]
    cases hl : lookupC g (get st (deref st i)).content with
    | none => rfl
    | some x => exact ih x (hr.c _ g x (lookupC_mem hl))

/-- features, classes and paths survive an extension whose result is congruence closed -/
theorem path_pres {st st' : Store} {rk rk' : Nat → Nat} {r : Nat} (he : Ext st rk st' rk' r)
    (hr : Rng st) (hI : InvB st rk) (hcc : ∀ i, CCat st' i) :
    ∀ (p : List String) (i n : Nat), i < st.length → byPath st i p = some n →
      n < st.length ∧ ∃ n', byPath st' i p = some n' ∧ deref st' n' = deref st' n := by
  intro p
  induction p with
  | nil =>
    intro i n hi h
    simp only [byPath_nil, Option.some.injEq] at h; subst h
    exact ⟨hi, i, rfl, rfl⟩
  | cons g p ih =>
    intro i n hi h
    rw [byPath_cons] at h
    cases hl : lookupC g (cont st (deref st i)) with
    | none => rw [hl] at h; simp at h
    | some x =>
      rw [hl] at h
      have hc := deref_lt hr hi
      have hx := hr.c _ g x (lookupC_mem hl)
      obtain ⟨hn, n', hn', hd'⟩ := ih x n hx h
      refine ⟨hn, ?_⟩
      have hm := he.m _ g x hc hl
      obtain ⟨x', hx', hdx⟩ := hcc (deref st i) g x hm
      have hdi : deref st' (deref st i) = deref st' i :=
        he.e1 _ _ hc hi (deref_idem hI.acyc i)
      rw [hdi] at hx'
      rw [byPath_cons_of _ hx']
      cases p with
      | nil =>
        simp only [byPath_nil, Option.some.injEq] at hn' h ⊢
        subst hn' h
        exact ⟨x', rfl, hdx⟩
      | cons g2 p2 =>
        rw [byPath_congr hdx]
        exact ⟨n', hn', hd'⟩

/-! ### the empty store -/

theorem get_nil (i : Nat) : get [] i = emptyNode := get_ge (Nat.zero_le _)

theorem rng_nil : Rng [] :=
  ⟨fun i j h => by rw [ptr, get_nil] at h; simp [emptyNode] at h,
   fun i g x h => by rw [cont, get_nil] at h; simp [emptyNode] at h⟩

theorem invB_nil : InvB [] (fun _ => 0) :=
  ⟨⟨fun _ => 0, fun i j h => by rw [ptr, get_nil] at h; simp [emptyNode] at h⟩,
   fun _ _ _ => rfl,
   fun i g x h => by rw [cont, get_nil] at h; simp [emptyNode] at h,
   fun _ _ _ => rfl⟩

theorem ccat_nil (i : Nat) : CCat [] i := by
  intro g x h; rw [cont, get_nil] at h; simp [emptyNode, lookupC] at h

theorem model_nil (ρ : Interp) : Model [] ρ :=
  ⟨fun i j h => by rw [ptr, get_nil] at h; simp [emptyNode] at h,
   fun i v h => by rw [val, get_nil] at h; simp [emptyNode] at h,
   fun i g x h => by rw [cont, get_nil] at h; simp [emptyNode] at h⟩

/-! ### the hypotheses on descriptions -/

/-- the shape and uniqueness conditions of `Typed`, without reference to the Props file -/
structure Desc (paths : List (List String)) (s : SFS) : Prop where
  sub : ∀ e ∈ s, e.1 ∈ paths
  nodup : (s.map (·.1)).Nodup
  shape : ∀ p ∈ paths, (∃ g, p = [g] ∧ g ≠ "agr") ∨ (∃ g, p = ["agr", g])

/-- the value function of an assignment -/
def valFn (asg : Asg) (p : List String) : String := (valOf asg p).getD ""

theorem shape_ext {paths : List (List String)}
    (hs : ∀ p ∈ paths, (∃ g, p = [g] ∧ g ≠ "agr") ∨ (∃ g, p = ["agr", g]))
    {p : List String} (hp : p ∈ paths) {q : List String} (hq : q ≠ []) : p ++ q ∉ paths := by
  intro hpq
  obtain ⟨g0, q0, rfl⟩ : ∃ g0 q0, q = g0 :: q0 := by
    cases q with
    | nil => exact absurd rfl hq
    | cons g0 q0 => exact ⟨g0, q0, rfl⟩
  rcases hs p hp with ⟨g, rfl, hg⟩ | ⟨g, rfl⟩
  · rcases hs _ hpq with ⟨g', h', _⟩ | ⟨g', h'⟩
    · simp at h'
    · simp only [List.cons_append, List.nil_append, List.cons.injEq] at h'
      exact hg h'.1
  · rcases hs _ hpq with ⟨g', h', _⟩ | ⟨g', h'⟩
    · simp at h'
    · simp at h'

theorem shape_ne_nil {paths : List (List String)}
    (hs : ∀ p ∈ paths, (∃ g, p = [g] ∧ g ≠ "agr") ∨ (∃ g, p = ["agr", g]))
    {p : List String} (hp : p ∈ paths) : ∃ g p', p = g :: p' := by
  rcases hs p hp with ⟨g, rfl, _⟩ | ⟨g, rfl⟩
  · exact ⟨g, [], rfl⟩
  · exact ⟨"agr", [g], rfl⟩

/-- the two compatibility conditions needed by `BuildSpec.model` -/
theorem model_hyps {paths : List (List String)} {vals : List String} {s : SFS} (hd : Desc paths s)
    {asg : Asg} (hasg : asg ∈ allAsg vals paths) (hsat : sat s asg = true) :
    (∀ p v, (p, Leaf.atom v) ∈ s → valFn asg p = v) ∧
    (∀ p p' x, (p, Leaf.var x) ∈ s → (p', Leaf.var x) ∈ s →
      ∀ q, valFn asg (p ++ q) = valFn asg (p' ++ q)) := by
  obtain ⟨h1, h2⟩ := (sat_iff s asg).1 hsat
  refine ⟨fun p v hp => by simp [valFn, h1 p v hp], ?_⟩
  intro p p' x hp hp' q
  by_cases hq : q = []
  · subst hq; simp [valFn, h2 p p' x hp hp']
  · have e1 := valOf_allAsg_none vals paths asg hasg _
      (shape_ext hd.shape (hd.sub _ hp) hq)
    have e2 := valOf_allAsg_none vals paths asg hasg _
      (shape_ext hd.shape (hd.sub _ hp') hq)
    simp [valFn, e1, e2]

/-! ### the combined store -/

/-- everything known about the store in which both operands have been built -/
structure Setup (paths : List (List String)) (a b : SFS) (st2 : Store) (rb : Nat) (rk2 : Nat → Nat) :
    Prop where
  rng : Rng st2
  inv : InvB st2 rk2
  cc : ∀ i, CCat st2 i
  rkle : ∀ i, rk2 i ≤ 2
  ra_lt : 0 < st2.length
  rb_lt : rb < st2.length
  rk_ra : rk2 0 = 2
  rk_rb : rk2 rb = 2
  pathsA : ∀ p l, (p, l) ∈ a → ∃ n, byPath st2 0 p = some n ∧ n < st2.length ∧ rk2 n = 0 ∧
    ∀ v, l = Leaf.atom v → val st2 (deref st2 n) = some v
  pathsB : ∀ p l, (p, l) ∈ b → ∃ n, byPath st2 rb p = some n ∧ n < st2.length ∧ rk2 n = 0 ∧
    ∀ v, l = Leaf.atom v → val st2 (deref st2 n) = some v
  sameA : ∀ p p' x n n', (p, Leaf.var x) ∈ a → (p', Leaf.var x) ∈ a →
    byPath st2 0 p = some n → byPath st2 0 p' = some n' → deref st2 n = deref st2 n'
  sameB : ∀ p p' x n n', (p, Leaf.var x) ∈ b → (p', Leaf.var x) ∈ b →
    byPath st2 rb p = some n → byPath st2 rb p' = some n' → deref st2 n = deref st2 n'
  model : ∀ (vals : List String) (asg : Asg), asg ∈ allAsg vals paths → sat a asg = true →
    sat b asg = true → ∃ ρ : Interp, Model st2 ρ ∧ ρ 0 = valFn asg ∧ ρ rb = valFn asg

theorem setup {paths : List (List String)} {a b : SFS} (ha : Desc paths a) (hb : Desc paths b) :
    ∃ st2 rb rk2, (∀ fuel, unifySFS a b fuel = (unify fuel st2 0 rb, 0)) ∧
      Setup paths a b st2 rb rk2 := by
  have hshA : ∀ e ∈ a, (∃ g, e.1 = [g] ∧ g ≠ "agr") ∨ (∃ g, e.1 = ["agr", g]) :=
    fun e he => ha.shape _ (ha.sub e he)
  have hshB : ∀ e ∈ b, (∃ g, e.1 = [g] ∧ g ≠ "agr") ∨ (∃ g, e.1 = ["agr", g]) :=
    fun e he => hb.shape _ (hb.sub e he)
  obtain ⟨st1, rk1, hb1, s1⟩ := buildInto_spec [] (fun _ => 0) rng_nil invB_nil ccat_nil
    (fun _ => by omega) a hshA ha.nodup
  obtain ⟨st2, rk2, hb2, s2⟩ := buildInto_spec st1 rk1 s1.rng s1.inv s1.cc s1.rkle b hshB hb.nodup
  simp only [List.length_nil] at hb1
  have hlen1 : 0 < st1.length := s1.len
  have hlen2 : st1.length < st2.length := s2.len
  have hder : ∀ i, i < st1.length → deref st2 i = deref st1 i := fun i hi =>
    deref_frame s1.inv.acyc (Nat.le_of_lt hlen2) (· < st1.length)
      (fun j hj => by rw [ptr, s2.old j hj]) (fun j j2 _ h => s1.rng.p j j2 h) i hi
  have hbp := byPath_frame s1.inv.acyc s1.rng (Nat.le_of_lt hlen2) s2.old
  refine ⟨st2, st1.length, rk2, ?_, ?_⟩
  · intro fuel
    simp only [unifySFS, hb1, hb2]
  · constructor
    · exact s2.rng
    · exact s2.inv
    · exact s2.cc
    · exact s2.rkle
    · omega
    · exact hlen2
    · rw [s2.rkold 0 hlen1]; exact s1.rkroot
    · exact s2.rkroot
    · intro p l hpl
      obtain ⟨n, hn, hnlt, hrk, hv⟩ := s1.paths p l hpl
      simp only [List.length_nil] at hn
      refine ⟨n, by rw [hbp p 0 hlen1]; exact hn, by omega, by rw [s2.rkold n hnlt]; exact hrk, ?_⟩
      intro v hl
      rw [hder n hnlt, val, s2.old _ (deref_lt s1.rng hnlt)]
      exact hv v hl
    · exact s2.paths
    · intro p p' x n n' hp hp' hn hn'
      rw [hbp p 0 hlen1] at hn
      rw [hbp p' 0 hlen1] at hn'
      have hnlt : n < st1.length := by
        obtain ⟨m, hm, hmlt, _⟩ := s1.paths p _ hp
        simp only [List.length_nil] at hm
        rw [hm] at hn; simp only [Option.some.injEq] at hn; omega
      have hnlt' : n' < st1.length := by
        obtain ⟨m, hm, hmlt, _⟩ := s1.paths p' _ hp'
        simp only [List.length_nil] at hm
        rw [hm] at hn'; simp only [Option.some.injEq] at hn'; omega
      rw [hder n hnlt, hder n' hnlt']
      exact s1.sameVar p p' x n n' hp hp' (by simpa using hn) (by simpa using hn')
    · exact s2.sameVar
    · intro vals asg hasg hsa hsb
      obtain ⟨a1, a2⟩ := model_hyps ha hasg hsa
      obtain ⟨b1, b2⟩ := model_hyps hb hasg hsb
      obtain ⟨ρ1, _, hm1, hr1⟩ := s1.model (valFn asg) (fun _ _ => "") (model_nil _) a1 a2
      obtain ⟨ρ2, hag, hm2, hr2⟩ := s2.model (valFn asg) ρ1 hm1 b1 b2
      simp only [List.length_nil] at hr1
      exact ⟨ρ2, hm2, by rw [hag 0 hlen1, hr1], hr2⟩

/-! ### reading the result -/

/-- the description `s`, built at root `r0`, is implied by what is read from the result -/
theorem sat_of_rsat {paths : List (List String)} {s : SFS} (hd : Desc paths s) {st2 st : Store}
    {rk2 rk' : Nat → Nat} {k : Nat} (hr2 : Rng st2) (hI2 : InvB st2 rk2)
    (he : Ext st2 rk2 st rk' k) (hI : InvB st rk') (hcc : ∀ i, CCat st i) {r0 : Nat}
    (hr0 : r0 < st2.length) (hroot : deref st r0 = deref st 0)
    (hpaths : ∀ p l, (p, l) ∈ s → ∃ n, byPath st2 r0 p = some n ∧ n < st2.length ∧ rk2 n = 0 ∧
      ∀ v, l = Leaf.atom v → val st2 (deref st2 n) = some v)
    (hsame : ∀ p p' x n n', (p, Leaf.var x) ∈ s → (p', Leaf.var x) ∈ s →
      byPath st2 r0 p = some n → byPath st2 r0 p' = some n' → deref st2 n = deref st2 n')
    {asg : Asg} (hrs : RSat st 0 paths asg) : sat s asg = true := by
  -- every described path exists in the result, from the root `0`, in the class of its leaf
  have key : ∀ p l, (p, l) ∈ s → ∃ n m, byPath st2 r0 p = some n ∧ n < st2.length ∧
      byPath st 0 p = some m ∧ deref st m = deref st n ∧ cont st (deref st m) = [] ∧
      ∀ v, l = Leaf.atom v → val st (deref st m) = some v := by
    intro p l hpl
    obtain ⟨n, hn, hnlt, hrk, hv⟩ := hpaths p l hpl
    obtain ⟨_, m, hm, hdm⟩ := path_pres he hr2 hI2 hcc p r0 n hr0 hn
    obtain ⟨g, p', rfl⟩ := shape_ne_nil hd.shape (hd.sub _ hpl)
    rw [byPath_congr hroot] at hm
    refine ⟨n, m, hn, hnlt, hm, hdm, ?_, ?_⟩
    · apply cont_nil_of_rk_zero hI
      rw [hdm, rk_deref hI, he.rkold n hnlt, hrk]
    · intro v hl
      rw [hdm]
      exact he.e2 n v hnlt (hv v hl)
  rw [sat_iff]
  constructor
  · intro p v hp
    obtain ⟨n, m, _, _, hm, _, hc, hv⟩ := key p _ hp
    exact hrs.1 p (hd.sub _ hp) m hm hc v (hv v rfl)
  · intro p p' x hp hp'
    obtain ⟨n, m, hn, hnlt, hm, hdm, hc, _⟩ := key p _ hp
    obtain ⟨n', m', hn', hnlt', hm', hdm', hc', _⟩ := key p' _ hp'
    have hnn := he.e1 n n' hnlt hnlt' (hsame p p' x n n' hp hp' hn hn')
    have hmm : deref st m = deref st m' := by rw [hdm, hdm', hnn]
    cases hval : val st (deref st m) with
    | none => exact hrs.2 p (hd.sub _ hp) p' (hd.sub _ hp') m m' hm hm' hc hval hmm
    | some v =>
      rw [hrs.1 p (hd.sub _ hp) m hm hc v hval,
        hrs.1 p' (hd.sub _ hp') m' hm' hc' v (by rw [← hmm]; exact hval)]

/-- a model of the result whose root denotes the assignment satisfies what is read -/
theorem rsat_of_model {paths : List (List String)} {vals : List String} {asg : Asg}
    (hasg : asg ∈ allAsg vals paths) {st : Store} {ρ : Interp} (hm : Model st ρ)
    (hroot : ρ 0 = valFn asg) : RSat st 0 paths asg := by
  have hval : ∀ p ∈ paths, ∀ n, byPath st 0 p = some n →
      valOf asg p = some (ρ (deref st n) []) := by
    intro p hp n hn
    obtain ⟨w, hw⟩ := valOf_allAsg_some vals paths asg hasg p hp
    have := model_byPath hm p 0 n hn []
    rw [List.append_nil, hroot] at this
    rw [model_deref hm, ← this, hw]
    simp [valFn, hw]
  constructor
  · intro p hp n hn _ v hv
    rw [hval p hp n hn, hm.v _ v hv]
  · intro p hp p' hp' n n' hn hn' _ _ hd
    rw [hval p hp n hn, hval p' hp' n' hn', hd]

/-! ### the three theorems, for `Desc` -/

theorem unifySFS_fuel {paths : List (List String)} {a b : SFS} (ha : Desc paths a)
    (hb : Desc paths b) (fuel : Nat) (hf : 3 ≤ fuel) (r : Nat) : unifySFS a b fuel ≠ (.fuel, r) := by
  obtain ⟨st2, rb, rk2, heq, S⟩ := setup ha hb
  rw [heq]
  intro h
  have hU := unify_U fuel st2 rk2 2 0 rb S.rng S.inv (fun i _ => S.cc i) S.ra_lt S.rb_lt
    S.rk_ra S.rk_rb
  simp only [Prod.mk.injEq] at h
  rw [h.1] at hU
  have : fuel ≤ 2 := hU
  omega

theorem unifySFS_ok_desc {paths : List (List String)} {vals : List String} {a b : SFS}
    (ha : Desc paths a) (hb : Desc paths b) {fuel : Nat} {st : Store} {r : Nat}
    (h : unifySFS a b fuel = (.ok st, r)) {asg : Asg} (hasg : asg ∈ allAsg vals paths) :
    sat (read st r paths) asg = true ↔ (sat a asg = true ∧ sat b asg = true) := by
  obtain ⟨st2, rb, rk2, heq, S⟩ := setup ha hb
  rw [heq] at h
  simp only [Prod.mk.injEq] at h
  obtain ⟨hres, rfl⟩ := h
  have hU := unify_U fuel st2 rk2 2 0 rb S.rng S.inv (fun i _ => S.cc i) S.ra_lt S.rb_lt
    S.rk_ra S.rk_rb
  have hS := unify_sem fuel st2 0 rb S.rng S.ra_lt S.rb_lt
  rw [hres] at hU hS
  obtain ⟨rk', he, hI, hc, hab⟩ := hU
  obtain ⟨hr', _, hρ⟩ := hS.1 st rfl
  have hcc : ∀ i, CCat st i := by
    intro i
    by_cases hi : i < st.length
    · apply hc i
      by_cases hi2 : i < st2.length
      · rw [he.rkold i hi2]; exact S.rkle i
      · have := he.rknew i (by omega) hi; omega
    · intro g x hx
      rw [cont, get_ge (by omega)] at hx
      simp [emptyNode, lookupC] at hx
  rw [read_sat]
  constructor
  · intro hrs
    exact ⟨sat_of_rsat ha S.rng S.inv he hI hcc S.ra_lt rfl S.pathsA S.sameA hrs,
      sat_of_rsat hb S.rng S.inv he hI hcc S.rb_lt hab.symm S.pathsB S.sameB hrs⟩
  · intro ⟨hsa, hsb⟩
    obtain ⟨ρ, hm, h0, hrb⟩ := S.model vals asg hasg hsa hsb
    obtain ⟨ρ', hag, hm'⟩ := hρ ρ hm (by rw [h0, hrb])
    exact rsat_of_model hasg hm' (by rw [hag 0 S.ra_lt, h0])

theorem unifySFS_conflict_desc {paths : List (List String)} {vals : List String} {a b : SFS}
    (ha : Desc paths a) (hb : Desc paths b) {fuel : Nat} {r : Nat}
    (h : unifySFS a b fuel = (.conflict, r)) {asg : Asg} (hasg : asg ∈ allAsg vals paths) :
    ¬ (sat a asg = true ∧ sat b asg = true) := by
  obtain ⟨st2, rb, rk2, heq, S⟩ := setup ha hb
  rw [heq] at h
  simp only [Prod.mk.injEq] at h
  have hS := unify_sem fuel st2 0 rb S.rng S.ra_lt S.rb_lt
  intro ⟨hsa, hsb⟩
  obtain ⟨ρ, hm, h0, hrb⟩ := S.model vals asg hasg hsa hsb
  exact hS.2 h.1 ρ hm (by rw [h0, hrb])


end Lem
end FsDag
end Pfl
