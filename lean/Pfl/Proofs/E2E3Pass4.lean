/-
`_preprocess_positive_closure` and `_add_repetition` on trees with token leaves.
-/
import Pfl.Proofs.E2E3Syntax
namespace Pfl.PyRx.E2E.S3
open Pfl.RegexReader Pfl.Rx Pfl.Rx.Lem Pfl.PyPass
open Pfl.PyRx.E2E

/-! ### balanced token lists -/

inductive BalT : List Tok → Prop
  | nil : BalT []
  | tok (t : Tok) : t ≠ ['('] → t ≠ [')'] → BalT [t]
  | wrap {u : List Tok} : BalT u → BalT (['('] :: (u ++ [[')']]))
  | app {u v : List Tok} : BalT u → BalT v → BalT (u ++ v)

theorem BalT.of_all {l : List Tok} (h : ∀ t ∈ l, t ≠ ['('] ∧ t ≠ [')']) : BalT l := by
  induction l with
  | nil => exact .nil
  | cons t r ih =>
    have := BalT.app (.tok t (h t (by simp)).1 (h t (by simp)).2) (ih (fun d hd => h d (by simp [hd])))
    simpa using this

theorem wrap_rev (u : List Tok) :
    (['('] :: (u ++ [[')']])).reverse = [')'] :: (u.reverse ++ [['(']]) := by simp

theorem beq_tok_false {t s : Tok} (h : t ≠ s) : (t == s) = false := by simpa using h

theorem fpoT {u : List Tok} (h : BalT u) : ∀ (k : Int) (rest : RToks) (acc : List Tok), 1 ≤ k →
    findPrevOpenR (u.reverse ++ rest) k acc = findPrevOpenR rest k (u ++ acc) := by
  induction h with
  | nil => intro k rest acc _; rfl
  | tok t h1 h2 =>
    intro k rest acc _
    simp [findPrevOpenR, beq_tok_false h1, beq_tok_false h2]
  | @wrap u _ ih =>
    intro k rest acc hk
    rw [wrap_rev]
    have e1 : ∀ r a, findPrevOpenR ([')'] :: r) k a = findPrevOpenR r (k + 1) ([')'] :: a) := by
      intro r a; simp [findPrevOpenR]
    have hk1 : (k + 1 == 1) = false := by simp; omega
    have e2 : ∀ r a, findPrevOpenR (['('] :: r) (k + 1) a = findPrevOpenR r k (['('] :: a) := by
      intro r a
      rw [findPrevOpenR]
      simp [hk1]
    simp only [List.cons_append, List.append_assoc, List.nil_append]
    rw [e1, ih (k + 1) _ _ (by omega), e2]
  | @app u v _ _ ihu ihv =>
    intro k rest acc hk
    rw [List.reverse_append, List.append_assoc, ihv k _ _ hk, ihu k _ _ hk]
    simp

theorem fpoT_group (u : List Tok) (h : BalT u) (rest : RToks) :
    findPrevOpenR ((['('] :: (u ++ [[')']])).reverse ++ rest) 0 [] =
      .ok (['('] :: (u ++ [[')']])).reverse := by
  rw [wrap_rev]
  have e1 : ∀ r, findPrevOpenR ([')'] :: r) 0 [] = findPrevOpenR r 1 [[')']] := by
    intro r; simp [findPrevOpenR]
  simp only [List.cons_append, List.append_assoc, List.nil_append]
  rw [e1, fpoT h 1 _ _ (by omega)]
  simp [findPrevOpenR]

theorem frsT {u : List Tok} (h : BalT u) : ∀ (k : Int) (rest : RToks) (acc : List Tok), k ≤ -1 →
    findRepeatedScanR (u.reverse ++ rest) k acc = findRepeatedScanR rest k (u ++ acc) := by
  induction h with
  | nil => intro k rest acc _; rfl
  | tok t h1 h2 =>
    intro k rest acc _
    simp [findRepeatedScanR, beq_tok_false h1, beq_tok_false h2]
  | @wrap u _ ih =>
    intro k rest acc hk
    rw [wrap_rev]
    have e1 : ∀ r a, findRepeatedScanR ([')'] :: r) k a = findRepeatedScanR r (k - 1) ([')'] :: a) := by
      intro r a; simp [findRepeatedScanR]
    have hk1 : (k - 1 + 1 == 0) = false := by simp; omega
    have e2 : ∀ r a, findRepeatedScanR (['('] :: r) (k - 1) a = findRepeatedScanR r k (['('] :: a) := by
      intro r a
      rw [findRepeatedScanR]
      simp only [hk1]
      simp
    simp only [List.cons_append, List.append_assoc, List.nil_append]
    rw [e1, ih (k - 1) _ _ (by omega), e2]
  | @app u v _ _ ihu ihv =>
    intro k rest acc hk
    rw [List.reverse_append, List.append_assoc, ihv k _ _ hk, ihu k _ _ hk]
    simp

theorem frsT_group (u : List Tok) (h : BalT u) (rest : RToks) :
    findRepeatedR ((['('] :: (u ++ [[')']])).reverse ++ rest) =
      .ok (['('] :: (u ++ [[')']])).reverse := by
  rw [wrap_rev]
  simp only [List.cons_append, List.append_assoc, List.nil_append, findRepeatedR]
  rw [if_neg (by simp), frsT h (-1) _ _ (by omega)]
  simp [findRepeatedScanR]

/-! ### `_preprocess_positive_closure`: the character loop -/

/-- the loop maps the text `s` to the tokens `l'` -/
def PCT (s : List Char) (l' : List Tok) : Prop :=
  NoBsT l' ∧ ∀ rt, escNext rt = false →
    s.foldlM positiveClosureStep rt = .ok (l'.reverse ++ rt)

theorem PCT.append {s1 s2 : List Char} {l1 l2 : List Tok} (h1 : PCT s1 l1) (h2 : PCT s2 l2) :
    PCT (s1 ++ s2) (l1 ++ l2) := by
  refine ⟨fun c hc => (List.mem_append.mp hc).elim (h1.1 c) (h2.1 c), fun rt hrt => ?_⟩
  rw [List.foldlM_append, h1.2 rt hrt]
  show List.foldlM positiveClosureStep (l1.reverse ++ rt) s2 = _
  rw [h2.2 _ (escNext_toks l1 h1.1 rt hrt)]
  simp

theorem PCT.nil : PCT [] [] := ⟨by intro t ht; simp at ht, fun rt _ => rfl⟩

theorem PCT.ch (c : Char) (h1 : c ≠ '+') (h2 : c ≠ '\\') : PCT [c] [[c]] := by
  refine ⟨by intro t ht; simp at ht; subst ht; simpa using h2, fun rt hrt => ?_⟩
  simp [positiveClosureStep, h1, pushSym_of rt c hrt, pure, Except.pure]
  rfl

theorem PCT.esc (c : Char) : PCT ['\\', c] [['\\', c]] := by
  refine ⟨by intro t ht; simp at ht; subst ht; simp, fun rt hrt => ?_⟩
  have h1 : pushSym rt '\\' = ['\\'] :: rt := pushSym_of rt '\\' hrt
  have h2 : escNext (['\\'] :: rt) = true := by simp [escNext]
  simp only [List.foldlM_cons, List.foldlM_nil, positiveClosureStep, hrt, h1]
  simp [h2, pushSym, pushTok, pure, Except.pure, bind, Except.bind]

/-- the characters of a list of tokens that the loop only pushes -/
theorem PCT.flat : ∀ (l : List Tok), (∀ t ∈ l, (∃ c, t = [c] ∧ c ≠ '+' ∧ c ≠ '\\') ∨ ∃ c, t = ['\\', c]) →
    PCT l.flatten l
  | [], _ => PCT.nil
  | t :: r, h => by
    have ih := PCT.flat r (fun x hx => h x (by simp [hx]))
    rcases h t (by simp) with ⟨c, rfl, h1, h2⟩ | ⟨c, rfl⟩
    · have := (PCT.ch c h1 h2).append ih
      simpa using this
    · have := (PCT.esc c).append ih
      simpa using this

theorem PCT.plus_tok {s : List Char} {t : Tok} (h : PCT s [t]) (ht : t ≠ [')']) :
    PCT (s ++ ['+']) [t, t, ['*']] := by
  have hb : t ≠ ['\\'] := h.1 t (by simp)
  refine ⟨by intro d hd; simp at hd; rcases hd with rfl | rfl | rfl <;> first | exact hb | simp,
    fun rt hrt => ?_⟩
  rw [List.foldlM_append, h.2 rt hrt]
  show List.foldlM positiveClosureStep ([t].reverse ++ rt) ['+'] = _
  have he : escNext (t :: rt) = false := by simp [escNext, hb]
  simp [positiveClosureStep, he, ht, pure, Except.pure]
  rfl

theorem PCT.plus_grp {s : List Char} {u : List Tok} (h : PCT s (['('] :: (u ++ [[')']])))
    (hu : BalT u) :
    PCT (s ++ ['+']) ((['('] :: (u ++ [[')']])) ++ (['('] :: (u ++ [[')']])) ++ [['*']]) := by
  refine ⟨by
    intro d hd
    simp only [List.mem_append, List.mem_cons, List.not_mem_nil, or_false] at hd
    rcases hd with (hd | hd) | rfl
    · exact h.1 d (by
        simp only [List.mem_append, List.mem_cons, List.not_mem_nil, or_false]; exact hd)
    · exact h.1 d (by
        simp only [List.mem_append, List.mem_cons, List.not_mem_nil, or_false]; exact hd)
    · simp, fun rt hrt => ?_⟩
  rw [List.foldlM_append, h.2 rt hrt]
  show List.foldlM positiveClosureStep ((['('] :: (u ++ [[')']])).reverse ++ rt) ['+'] = _
  have he : escNext ((['('] :: (u ++ [[')']])).reverse ++ rt) = false :=
    escNext_toks _ h.1 rt hrt
  have hg := fpoT_group u hu rt
  rw [List.foldlM_cons]
  unfold positiveClosureStep
  rw [he]
  simp only [bne_self_eq_false, Bool.or_self, Bool.false_eq_true, if_false]
  rw [wrap_rev] at hg ⊢
  simp only [List.cons_append] at hg ⊢
  simp only [bne_self_eq_false, Bool.false_eq_true, if_false, hg]
  simp [pure, Except.pure, bind, Except.bind]

/-! ### tokens -/

/-- tokens the character loops only push -/
def Push (t : Tok) : Prop := (∃ c, t = [c] ∧ c ≠ '+' ∧ c ≠ '\\' ∧ c ≠ '(' ∧ c ≠ ')') ∨
  ∃ c, t = ['\\', c]

theorem LeafTok.push {q : Bool} {t : Tok} (h : LeafTok q t) : Push t := by
  rcases h with ⟨c, rfl, hc⟩ | rfl | rfl | ⟨c, rfl, _, _⟩ | ⟨_, rfl⟩
  · exact Or.inl ⟨c, rfl, tk1_ne hc _ (by simp), tk1_ne hc _ (by simp), tk1_ne hc _ (by simp),
      tk1_ne hc _ (by simp)⟩
  · exact Or.inl ⟨_, rfl, by decide, by decide, by decide, by decide⟩
  · exact Or.inl ⟨_, rfl, by decide, by decide, by decide, by decide⟩
  · exact Or.inr ⟨c, rfl⟩
  · exact Or.inl ⟨_, rfl, by decide, by decide, by decide, by decide⟩

theorem LeafTok.ne_brace {q : Bool} {t : Tok} (h : LeafTok q t) : t ≠ ['{'] := by
  rcases h with ⟨c, rfl, hc⟩ | rfl | rfl | ⟨c, rfl, _, _⟩ | ⟨_, rfl⟩
  · simpa using tk1_ne hc '{' (by simp)
  all_goals simp

theorem UTok.push {q : Bool} {t : Tok} (h : UTok q t) : Push t := by
  rcases h with h | rfl
  · exact h.1.push
  · exact Or.inl ⟨_, rfl, by decide, by decide, by decide, by decide⟩

theorem Push.ne_open {t : Tok} (h : Push t) : t ≠ ['('] := by
  rcases h with ⟨c, rfl, _, _, h, _⟩ | ⟨c, rfl⟩
  · simpa using h
  · simp

theorem Push.ne_close {t : Tok} (h : Push t) : t ≠ [')'] := by
  rcases h with ⟨c, rfl, _, _, _, h⟩ | ⟨c, rfl⟩
  · simpa using h
  · simp

theorem Push.ne_bs {t : Tok} (h : Push t) : t ≠ ['\\'] := by
  rcases h with ⟨c, rfl, _, h, _⟩ | ⟨c, rfl⟩
  · simpa using h
  · simp

theorem push_ch (c : Char) (h : c ≠ '+' ∧ c ≠ '\\' ∧ c ≠ '(' ∧ c ≠ ')') : Push [c] :=
  Or.inl ⟨c, rfl, h⟩

theorem Push.pct {l : List Tok} (h : ∀ t ∈ l, Push t ∨ t = ['('] ∨ t = [')'] ∨ t = ['{']) :
    PCT l.flatten l := by
  apply PCT.flat
  intro t ht
  rcases h t ht with (⟨c, rfl, h1, h2, _⟩ | h) | rfl | rfl | rfl
  · exact Or.inl ⟨c, rfl, h1, h2⟩
  · exact Or.inr h
  · exact Or.inl ⟨_, rfl, by decide, by decide⟩
  · exact Or.inl ⟨_, rfl, by decide, by decide⟩
  · exact Or.inl ⟨_, rfl, by decide, by decide⟩

theorem insertOr_push (ts : List Tok) (h : ∀ t ∈ ts, Push t) : ∀ t ∈ insertOr ts, Push t := by
  intro t ht
  rcases insertOr_mem ts t ht with ht | rfl
  · exact h t ht
  · exact push_ch '|' (by decide)

theorem sing_push (s : List Char)
    (h : ∀ c ∈ s, c ≠ '+' ∧ c ≠ '\\' ∧ c ≠ '(' ∧ c ≠ ')') :
    ∀ t ∈ sing s, Push t ∨ t = ['('] ∨ t = [')'] ∨ t = ['{'] := by
  intro t ht
  simp only [sing, List.mem_map] at ht
  obtain ⟨c, hc, rfl⟩ := ht
  exact Or.inl (push_ch c ⟨(h c hc).1, (h c hc).2.1, (h c hc).2.2.1, (h c hc).2.2.2⟩)

theorem braces_push (m n : Nat) :
    ∀ t ∈ sing (C.braces m n), Push t ∨ t = ['('] ∨ t = [')'] ∨ t = ['{'] := by
  apply sing_push
  intro c hc
  have h1 := (braces_ch2 m n c hc).noBs
  have h2 : c ≠ '+' := fun e => braces_noplus m n (e ▸ hc)
  have h3 : c ≠ '(' ∧ c ≠ ')' := by
    rcases braces_ch2 m n c hc with h | h
    · exact alnum_noparen c (Or.inl h)
    · unfold C.braces at hc
      have hd : ∀ k, ∀ d ∈ natText k, d ≠ '(' ∧ d ≠ ')' := fun k d hd =>
        alnum_noparen d (Or.inl (digit_alnum d (natText_digits k d hd)))
      split at hc <;>
        simp only [List.mem_append, List.mem_cons, List.not_mem_nil, or_false] at hc
      · rcases hc with (rfl | hc) | rfl
        · decide
        · exact hd _ c hc
        · decide
      · rcases hc with (((rfl | hc) | rfl) | hc) | rfl
        · decide
        · exact hd _ c hc
        · decide
        · exact hd _ c hc
        · decide
  exact ⟨h2, h1, h3.1, h3.2⟩

/-- the tokens of a tree are balanced -/
theorem toks_bal {pl rp op : Bool} : ∀ x, Form3 pl rp op x → BalT (dtoks x)
  | .tk t, h => .tok t h.push.ne_open h.push.ne_close
  | .uni ts, h => (BalT.of_all (fun t ht =>
      ⟨(insertOr_push ts (fun t ht => (h.2 t ht).push) t ht).ne_open,
        (insertOr_push ts (fun t ht => (h.2 t ht).push) t ht).ne_close⟩)).wrap
  | .grp x, h => (toks_bal x h).wrap
  | .seq a b, h => (toks_bal a h.1).app (toks_bal b h.2.1)
  | .bar a b, h => (toks_bal a h.1).app ((BalT.tok ['|'] (by simp) (by simp)).app (toks_bal b h.2))
  | .star a, h => (toks_bal a h.1).app (.tok ['*'] (by simp) (by simp))
  | .plus a, h => (toks_bal a h.2.1).app (.tok ['+'] (by simp) (by simp))
  | .opt a, h => (toks_bal a h.2.1).app (.tok ['?'] (by simp) (by simp))
  | .rep a m n, h => (toks_bal a h.2.1).app (BalT.of_all (fun t ht => by
      rcases braces_push m n t ht with h | rfl | rfl | rfl
      · exact ⟨h.ne_open, h.ne_close⟩
      · exact absurd ht (by
          simp only [sing, List.mem_map, not_exists, not_and]
          intro c hc e
          simp only [List.cons.injEq, and_true] at e
          subst e
          rcases braces_ch2 m n _ hc with h | h
          · exact absurd h (by decide)
          · have := braces_bal m n
            unfold C.braces at hc
            have hd : ∀ k, '(' ∉ natText k := fun k hk => absurd (natText_digits k _ hk) (by decide)
            split at hc <;> simp [hd] at hc)
      · exact absurd ht (by
          simp only [sing, List.mem_map, not_exists, not_and]
          intro c hc e
          simp only [List.cons.injEq, and_true] at e
          subst e
          unfold C.braces at hc
          have hd : ∀ k, ')' ∉ natText k := fun k hk => absurd (natText_digits k _ hk) (by decide)
          split at hc <;> simp [hd] at hc)
      · exact ⟨by simp, by simp⟩))

/-- `_preprocess_positive_closure` on the trees -/
def p4a : D → D
  | .tk t => .tk t
  | .uni ts => .uni ts
  | .grp x => .grp (p4a x)
  | .seq a b => .seq (p4a a) (p4a b)
  | .bar a b => .bar (p4a a) (p4a b)
  | .star a => .star (p4a a)
  | .plus a => .seq (p4a a) (.star (p4a a))
  | .opt a => .opt (p4a a)
  | .rep a m n => .rep (p4a a) m n

theorem p4a_form {rp op : Bool} : ∀ x, Form3 true rp op x →
    Form3 false rp op (p4a x) ∧ (DUnit x → DUnit (p4a x)) ∧ (dcl x ≤ 1 → dcl (p4a x) ≤ 1)
  | .tk t, h => ⟨h, fun _ => trivial, fun _ => by simp [p4a, dcl]⟩
  | .uni ts, h => ⟨h, fun _ => trivial, fun _ => by simp [p4a, dcl]⟩
  | .grp x, h => ⟨(p4a_form x h).1, fun _ => trivial, fun _ => by simp [p4a, dcl]⟩
  | .seq a b, h => ⟨⟨(p4a_form a h.1).1, (p4a_form b h.2.1).1, (p4a_form a h.1).2.2 h.2.2.1,
      (p4a_form b h.2.1).2.2 h.2.2.2⟩, fun hu => absurd hu (by simp [DUnit]),
      fun _ => by simp [p4a, dcl]⟩
  | .bar a b, h => ⟨⟨(p4a_form a h.1).1, (p4a_form b h.2).1⟩, fun hu => absurd hu (by simp [DUnit]),
      fun hc => by simp [dcl] at hc⟩
  | .star a, h => ⟨⟨(p4a_form a h.1).1, (p4a_form a h.1).2.1 h.2⟩,
      fun hu => absurd hu (by simp [DUnit]), fun _ => by simp [p4a, dcl]⟩
  | .plus a, h => ⟨⟨(p4a_form a h.2.1).1, ⟨(p4a_form a h.2.1).1, (p4a_form a h.2.1).2.1 h.2.2⟩,
      by rw [((p4a_form a h.2.1).2.1 h.2.2).cl0]; omega, by simp [dcl]⟩,
      fun hu => absurd hu (by simp [DUnit]), fun _ => by simp [p4a, dcl]⟩
  | .opt a, h => ⟨⟨h.1, (p4a_form a h.2.1).1, (p4a_form a h.2.1).2.1 h.2.2⟩,
      fun hu => absurd hu (by simp [DUnit]), fun _ => by simp [p4a, dcl]⟩
  | .rep a m n, h => ⟨⟨h.1, (p4a_form a h.2.1).1, (p4a_form a h.2.1).2.1 h.2.2.1, h.2.2.2⟩,
      fun hu => absurd hu (by simp [DUnit]), fun _ => by simp [p4a, dcl]⟩

theorem pct_one (c : Char) (h : c ≠ '+' ∧ c ≠ '\\') : PCT [c] [[c]] := PCT.ch c h.1 h.2

theorem uni_push {q : Bool} (ts : List Tok) (h : ∀ t ∈ ts, UTok q t) :
    ∀ t ∈ ['('] :: (insertOr ts ++ [[')']]), Push t ∨ t = ['('] ∨ t = [')'] ∨ t = ['{'] := by
  intro t ht
  simp only [List.mem_cons, List.mem_append, List.not_mem_nil, or_false] at ht
  rcases ht with rfl | ht | rfl
  · exact Or.inr (Or.inl rfl)
  · exact Or.inl (insertOr_push ts (fun t ht => (h t ht).push) t ht)
  · exact Or.inr (Or.inr (Or.inl rfl))

theorem p4a_pct {rp op : Bool} : ∀ x, Form3 true rp op x → PCT (dtext x) (dtoks (p4a x))
  | .tk t, h => Push.pct (l := [t]) (by intro t' ht; simp at ht; subst ht; exact Or.inl h.push)
  | .uni ts, h => Push.pct (uni_push ts h.2)
  | .grp x, h => by
    have := ((pct_one '(' (by decide)).append (p4a_pct x h)).append (pct_one ')' (by decide))
    simpa [dtext, dtoks, p4a] using this
  | .seq a b, h => by
    have := (p4a_pct a h.1).append (p4a_pct b h.2.1)
    simpa [dtext, dtoks, p4a] using this
  | .bar a b, h => by
    have := (p4a_pct a h.1).append ((pct_one '|' (by decide)).append (p4a_pct b h.2))
    simpa [dtext, dtoks, p4a] using this
  | .star a, h => by
    have := (p4a_pct a h.1).append (pct_one '*' (by decide))
    simpa [dtext, dtoks, p4a] using this
  | .opt a, h => by
    have := (p4a_pct a h.2.1).append (pct_one '?' (by decide))
    simpa [dtext, dtoks, p4a] using this
  | .rep a m n, h => by
    have := (p4a_pct a h.2.1).append (Push.pct (braces_push m n))
    simpa [dtext, dtoks, p4a, sing_flatten] using this
  | .plus a, h => by
    have ih := p4a_pct a h.2.1
    have hf := (p4a_form a h.2.1).1
    cases a with
    | tk t =>
      have := PCT.plus_tok ih (LeafTok.push h.2.1).ne_close
      simpa [dtext, dtoks, p4a] using this
    | uni ts =>
      have hb : BalT (insertOr ts) := BalT.of_all (fun t ht =>
        ⟨(insertOr_push ts (fun t ht => (h.2.1.2 t ht).push) t ht).ne_open,
          (insertOr_push ts (fun t ht => (h.2.1.2 t ht).push) t ht).ne_close⟩)
      have := PCT.plus_grp ih hb
      simpa [dtext, dtoks, p4a] using this
    | grp y =>
      have := PCT.plus_grp ih (toks_bal _ (show Form3 false rp op (p4a y) from hf))
      simpa [dtext, dtoks, p4a] using this
    | seq _ _ => exact absurd h.2.2 (by simp [DUnit])
    | bar _ _ => exact absurd h.2.2 (by simp [DUnit])
    | star _ => exact absurd h.2.2 (by simp [DUnit])
    | plus _ => exact absurd h.2.2 (by simp [DUnit])
    | opt _ => exact absurd h.2.2 (by simp [DUnit])
    | rep _ _ _ => exact absurd h.2.2 (by simp [DUnit])

/-! ### `_add_repetition` -/

theorem AR.toks (l : List Tok) (h : ∀ t ∈ l, t ≠ ['{']) : AR l l := by
  induction l with
  | nil => intro rest res; rfl
  | cons t r ih =>
    have ht : t ≠ ['{'] := h t (by simp)
    intro rest res
    have hr : ∀ tl, isRepetition t tl = none := by
      intro tl; simp [isRepetition, ht]
    have := ih (fun x hx => h x (by simp [hx])) rest (t :: res)
    rw [List.cons_append, addRepetitionGo, hr]
    simp only
    rw [this]
    simp

/-- a single token other than `)` or a balanced group -/
def UnitToks (u : List Tok) : Prop :=
  (∃ t, u = [t] ∧ t ≠ [')']) ∨ (∃ v, u = ['('] :: (v ++ [[')']]) ∧ BalT v)

theorem findRepeatedR_unitT (u : List Tok) (h : UnitToks u) (res : RToks) :
    findRepeatedR (u.reverse ++ res) = .ok u.reverse := by
  rcases h with ⟨t, rfl, ht⟩ | ⟨v, rfl, hv⟩
  · simp [findRepeatedR, ht]
  · exact frsT_group v hv res

def powT (u : List Tok) (k : Nat) : List Tok := (List.replicate k u).flatten

/-- the tokens `_add_repetition` writes for `u{m}` / `u{m,n}` -/
def repToks (u : List Tok) (m n : Nat) : List Tok :=
  if m = n then (if n = 0 then [['$']] else powT u n)
  else (if m = 0 then [['$']] else powT u m) ++ powT (u ++ [['?']]) (n - m)

theorem powT_rev (u : List Tok) (k : Nat) :
    (powT u k).reverse = (List.replicate k u.reverse).flatten := by
  induction k with
  | zero => rfl
  | succ k ih =>
    rw [powT, List.replicate_succ, List.flatten_cons, List.reverse_append]
    rw [show (List.replicate k u).flatten = powT u k from rfl, ih, List.replicate_succ']
    simp

theorem AR.repT {l u : List Tok} (h : AR l u) (hu : UnitToks u) (m n : Nat) :
    AR (l ++ sing (C.braces m n)) (repToks u m n) := by
  intro rest res
  rw [List.append_assoc, h]
  have hfr := findRepeatedR_unitT u hu res
  have hlen : (u.reverse ++ res).drop u.reverse.length = res := by simp
  unfold C.braces repToks
  by_cases hmn : m = n
  · subst hmn
    simp only [if_true]
    have e : sing (['{'] ++ natText m ++ ['}']) ++ rest =
        ['{'] :: (sing (natText m) ++ ['}'] :: rest) := by simp [sing]
    rw [e, addRepetitionGo, isRepetition_exact]
    simp only [hfr, bind, Except.bind]
    have hsk := addRep_skip (sing (natText m) ++ [['}']]) rest
    simp only [List.length_append, List.length_cons, List.length_nil, sing, List.length_map,
      List.append_assoc, List.cons_append, List.nil_append] at hsk
    simp only [sing] at hsk ⊢
    rw [hsk]
    by_cases h0 : m = 0
    · subst h0
      simp [extendN]
    · have : (m == 0) = false := by simpa using h0
      simp only [this, Bool.false_eq_true, if_false, h0]
      rw [extendN_eq, powT_rev]
      obtain ⟨k, rfl⟩ : ∃ k, m = k + 1 := ⟨m - 1, by omega⟩
      simp [List.replicate_succ']
  · simp only [hmn, if_false]
    have e : sing (['{'] ++ natText m ++ [','] ++ natText n ++ ['}']) ++ rest =
        ['{'] :: (sing (natText m ++ ',' :: natText n) ++ ['}'] :: rest) := by simp [sing]
    rw [e, addRepetitionGo, isRepetition_between]
    simp only [hfr, bind, Except.bind]
    have hsk := addRep_skip (sing (natText m ++ ',' :: natText n) ++ [['}']]) rest
    simp only [List.length_append, List.length_cons, List.length_nil, sing, List.length_map,
      List.append_assoc, List.cons_append, List.nil_append] at hsk
    simp only [sing, List.length_append, List.length_cons] at hsk ⊢
    rw [hsk]
    have hq : ['?'] :: u.reverse = (u ++ [['?']]).reverse := by simp
    rw [hq, extendN_eq, extendN_eq, ← powT_rev]
    by_cases h0 : m = 0
    · subst h0
      simp
    · have : (m == 0) = false := by simpa using h0
      simp only [this, Bool.false_eq_true, if_false, h0]
      have h2 := powT_rev u m
      obtain ⟨k, rfl⟩ : ∃ k, m = k + 1 := ⟨m - 1, by omega⟩
      rw [List.reverse_append, h2]
      simp [List.replicate_succ']

/-- `k + 1` copies -/
def dpow (a : D) : Nat → D
  | 0 => a
  | k + 1 => .seq a (dpow a k)

def repD (a : D) (m n : Nat) : D :=
  if m = n then (if n = 0 then .tk ['$'] else dpow a (n - 1))
  else .seq (if m = 0 then .tk ['$'] else dpow a (m - 1)) (dpow (.opt a) (n - m - 1))

/-- `_add_repetition` on the trees -/
def p4b : D → D
  | .tk t => .tk t
  | .uni ts => .uni ts
  | .grp x => .grp (p4b x)
  | .seq a b => .seq (p4b a) (p4b b)
  | .bar a b => .bar (p4b a) (p4b b)
  | .star a => .star (p4b a)
  | .plus a => .plus (p4b a)
  | .opt a => .opt (p4b a)
  | .rep a m n => repD (p4b a) m n

theorem dpow_toks (a : D) (k : Nat) : dtoks (dpow a k) = powT (dtoks a) (k + 1) := by
  induction k with
  | zero => simp [dpow, powT]
  | succ k ih => rw [dpow, dtoks, ih, powT, powT, List.replicate_succ (n := k + 1)]; simp

theorem repD_toks (a : D) (m n : Nat) (h : m ≤ n) :
    dtoks (repD a m n) = repToks (dtoks a) m n := by
  unfold repD repToks
  by_cases hmn : m = n
  · subst hmn
    by_cases h0 : m = 0
    · simp [h0, dtoks]
    · simp only [if_true, h0, if_false, dpow_toks]
      rw [Nat.sub_add_cancel (by omega)]
  · simp only [hmn, if_false, dtoks]
    have e : dtoks (dpow (.opt a) (n - m - 1)) = powT (dtoks a ++ [['?']]) (n - m) := by
      rw [dpow_toks, dtoks, show n - m - 1 + 1 = n - m by omega]
    rw [e]
    by_cases h0 : m = 0
    · simp [h0, dtoks]
    · simp only [h0, if_false, dpow_toks]
      rw [Nat.sub_add_cancel (by omega)]

theorem dpow_cl (a : D) (k : Nat) (h : dcl a ≤ 1) : dcl (dpow a k) ≤ 1 := by
  cases k with
  | zero => exact h
  | succ k => simp [dpow, dcl]

theorem dpow_form {pl rp op : Bool} (a : D) (k : Nat) (h : Form3 pl rp op a) (hc : dcl a ≤ 1) :
    Form3 pl rp op (dpow a k) := by
  induction k with
  | zero => exact h
  | succ k ih => exact ⟨h, ih, hc, dpow_cl a k hc⟩

theorem dollar_leaf (q : Bool) : LeafTok q ['$'] := Or.inr (Or.inl rfl)

theorem repD_form {pl rp : Bool} (a : D) (m n : Nat) (h : Form3 pl rp true a) (hu : DUnit a) :
    Form3 pl rp true (repD a m n) ∧ dcl (repD a m n) ≤ 1 := by
  have h1 : ∀ k, Form3 pl rp true (dpow a k) := fun k => dpow_form a k h (by rw [hu.cl0]; omega)
  have h2 : ∀ k, Form3 pl rp true (dpow (.opt a) k) := fun k =>
    dpow_form (.opt a) k ⟨rfl, h, hu⟩ (by simp [dcl])
  have h3 : Form3 pl rp true (.tk ['$']) := dollar_leaf true
  have c1 : ∀ k, dcl (dpow a k) ≤ 1 := fun k => dpow_cl a k (by rw [hu.cl0]; omega)
  unfold repD
  by_cases hmn : m = n
  · by_cases h0 : n = 0
    · simp only [hmn, h0, if_true]; exact ⟨h3, by simp [dcl]⟩
    · simp only [hmn, h0, if_true, if_false]; exact ⟨h1 _, c1 _⟩
  · simp only [hmn, if_false]
    refine ⟨⟨?_, h2 _, ?_, dpow_cl _ _ (by simp [dcl])⟩, by simp [dcl]⟩
    · split
      · exact h3
      · exact h1 _
    · split
      · simp [dcl]
      · exact c1 _

theorem p4b_form : ∀ x, Form3 false true true x →
    Form3 false false true (p4b x) ∧ (DUnit x → DUnit (p4b x)) ∧ (dcl x ≤ 1 → dcl (p4b x) ≤ 1)
  | .tk t, h => ⟨h, fun _ => trivial, fun _ => by simp [p4b, dcl]⟩
  | .uni ts, h => ⟨h, fun _ => trivial, fun _ => by simp [p4b, dcl]⟩
  | .grp x, h => ⟨(p4b_form x h).1, fun _ => trivial, fun _ => by simp [p4b, dcl]⟩
  | .seq a b, h => ⟨⟨(p4b_form a h.1).1, (p4b_form b h.2.1).1, (p4b_form a h.1).2.2 h.2.2.1,
      (p4b_form b h.2.1).2.2 h.2.2.2⟩, fun hu => absurd hu (by simp [DUnit]),
      fun _ => by simp [p4b, dcl]⟩
  | .bar a b, h => ⟨⟨(p4b_form a h.1).1, (p4b_form b h.2).1⟩, fun hu => absurd hu (by simp [DUnit]),
      fun hc => by simp [dcl] at hc⟩
  | .star a, h => ⟨⟨(p4b_form a h.1).1, (p4b_form a h.1).2.1 h.2⟩,
      fun hu => absurd hu (by simp [DUnit]), fun _ => by simp [p4b, dcl]⟩
  | .plus a, h => absurd h.1 (by simp)
  | .opt a, h => ⟨⟨rfl, (p4b_form a h.2.1).1, (p4b_form a h.2.1).2.1 h.2.2⟩,
      fun hu => absurd hu (by simp [DUnit]), fun _ => by simp [p4b, dcl]⟩
  | .rep a m n, h => by
    have := repD_form (pl := false) (rp := false) (p4b a) m n (p4b_form a h.2.1).1
      ((p4b_form a h.2.1).2.1 h.2.2.1)
    exact ⟨this.1, fun hu => absurd hu (by simp [DUnit]), fun _ => this.2⟩

theorem unit_toks {pl rp op : Bool} (a : D) (h : Form3 pl rp op a) (hu : DUnit a) :
    UnitToks (dtoks a) := by
  cases a with
  | tk t => exact Or.inl ⟨t, rfl, (LeafTok.push h).ne_close⟩
  | uni ts => exact Or.inr ⟨insertOr ts, rfl, BalT.of_all (fun t ht =>
      ⟨(insertOr_push ts (fun t ht => (h.2 t ht).push) t ht).ne_open,
        (insertOr_push ts (fun t ht => (h.2 t ht).push) t ht).ne_close⟩)⟩
  | grp y => exact Or.inr ⟨dtoks y, rfl, toks_bal y h⟩
  | _ => exact absurd hu (by simp [DUnit])

theorem ar_one (t : Tok) (h : t ≠ ['{']) : AR [t] [t] :=
  AR.toks [t] (by intro x hx; simp at hx; subst hx; exact h)

theorem isDigitStr_cons_false (c : Char) (r : List Char) (h : c.isDigit = false) :
    isDigitStr (c :: r) = false := by
  simp [isDigitStr, h]

theorem splitComma_ne_nil : ∀ r : List Char, splitComma r ≠ []
  | [] => by simp [splitComma]
  | c :: r => by
    rw [splitComma]
    cases h : splitComma r with
    | nil => simp
    | cons p ps => by_cases hc : c = ',' <;> simp [hc]

theorem splitComma_head (c : Char) (r : List Char) (hc : c ≠ ',') :
    ∃ p ps, splitComma (c :: r) = (c :: p) :: ps := by
  rw [splitComma]
  cases h : splitComma r with
  | nil => exact absurd h (splitComma_ne_nil r)
  | cons p ps => exact ⟨p, ps, by simp [hc]⟩

/-- a `{` followed by `|` or `)` starts no repetition -/
theorem isRep_none (x : Tok) (hx : x = ['|'] ∨ x = [')']) (tl : List Tok) :
    isRepetition ['{'] (x :: tl) = none := by
  have hx1 : (x == ['}']) = false := by rcases hx with rfl | rfl <;> decide
  obtain ⟨c, hc, hd, hcm⟩ : ∃ c, x = [c] ∧ c.isDigit = false ∧ c ≠ ',' := by
    rcases hx with rfl | rfl
    · exact ⟨'|', rfl, by decide, by decide⟩
    · exact ⟨')', rfl, by decide, by decide⟩
  unfold isRepetition
  simp only [bne_self_eq_false, Bool.false_eq_true, if_false, untilClose, hx1]
  cases hu : untilClose tl with
  | none => rfl
  | some inner =>
    subst hc
    simp only [Option.map_some, List.flatten_cons, List.singleton_append]
    obtain ⟨p, ps, hsp⟩ := splitComma_head c inner.flatten hcm
    rw [hsp]
    split
    · -- a comma inside
      cases ps with
      | nil => rfl
      | cons b ps =>
        cases ps with
        | nil => simp [isDigitStr_cons_false c p hd]
        | cons _ _ => rfl
    · simp [isDigitStr_cons_false c _ hd]

/-- every `{` token is followed by `|` or `)` -/
def BraceOK : List Tok → Prop
  | [] => True
  | t :: r => (t = ['{'] → ∃ x r', r = x :: r' ∧ (x = ['|'] ∨ x = [')'])) ∧ BraceOK r

theorem AR.braceOK : ∀ l : List Tok, BraceOK l → AR l l
  | [], _ => by intro rest res; rfl
  | t :: r, h => by
    intro rest res
    have hr : isRepetition t (r ++ rest) = none := by
      by_cases ht : t = ['{']
      · obtain ⟨x, r', e, hx⟩ := h.1 ht
        subst ht e
        exact isRep_none x hx _
      · simp [isRepetition, ht]
    have := AR.braceOK r h.2 rest (t :: res)
    rw [List.cons_append, addRepetitionGo, hr]
    simp only
    rw [this]
    simp

theorem braceOK_insertOr : ∀ ts : List Tok, BraceOK (insertOr ts ++ [[')']])
  | [] => ⟨fun h => by simp at h, trivial⟩
  | [t] => ⟨fun _ => ⟨[')'], [], rfl, Or.inr rfl⟩, fun h => by simp at h, trivial⟩
  | t :: t' :: r => by
    have e : insertOr (t :: t' :: r) = t :: ['|'] :: insertOr (t' :: r) := rfl
    rw [e]
    exact ⟨fun _ => ⟨['|'], _, rfl, Or.inl rfl⟩, fun h => by simp at h,
      braceOK_insertOr (t' :: r)⟩

theorem p4b_ar : ∀ x, Form3 false true true x → AR (dtoks x) (dtoks (p4b x))
  | .tk t, h => ar_one t (LeafTok.ne_brace h)
  | .uni ts, _ => AR.braceOK _ ⟨fun h => by simp at h, braceOK_insertOr ts⟩
  | .grp x, h => by
    have := ((ar_one ['('] (by simp)).append (p4b_ar x h)).append (ar_one [')'] (by simp))
    simpa [dtoks, p4b] using this
  | .seq a b, h => (p4b_ar a h.1).append (p4b_ar b h.2.1)
  | .bar a b, h => by
    have := (p4b_ar a h.1).append ((ar_one ['|'] (by simp)).append (p4b_ar b h.2))
    simpa [dtoks, p4b] using this
  | .star a, h => (p4b_ar a h.1).append (ar_one ['*'] (by simp))
  | .plus a, h => absurd h.1 (by simp)
  | .opt a, h => (p4b_ar a h.2.1).append (ar_one ['?'] (by simp))
  | .rep a m n, h => by
    have hf := p4b_form a h.2.1
    have := AR.repT (p4b_ar a h.2.1) (unit_toks _ hf.1 (hf.2.1 h.2.2.1)) m n
    rw [← repD_toks _ m n h.2.2.2] at this
    exact this

/-- the whole pass -/
theorem pass4 (x : D) (h : Form3 true true true x) :
    preprocessPositiveClosure (dtext x) = .ok (dtext (p4b (p4a x))) := by
  have h1 := (p4a_pct x h).2 [] rfl
  have hf := (p4a_form x h).1
  have h2 := p4b_ar (p4a x) hf [] []
  simp only [List.append_nil] at h1 h2
  have h3 : addRepetition (dtoks (p4a x)) = .ok (dtoks (p4b (p4a x))) := by
    simp only [addRepetition, h2, addRepetitionGo]
    show Except.ok (dtoks (p4b (p4a x))).reverse.reverse = _
    rw [List.reverse_reverse]
  simp only [preprocessPositiveClosure, h1]
  show (do let l ← addRepetition (dtoks (p4a x)).reverse.reverse; pure l.flatten) = _
  rw [List.reverse_reverse, h3]
  rfl

/-! ### the language -/

theorem rx_p4a : ∀ x, Eqv (rx3 (p4a x)) (rx3 x)
  | .tk _ => Eqv.rfl'
  | .uni _ => Eqv.rfl'
  | .grp x => rx_p4a x
  | .seq a b => Eqv.cat (rx_p4a a) (rx_p4a b)
  | .bar a b => Eqv.alt (rx_p4a a) (rx_p4a b)
  | .star a => Eqv.star (rx_p4a a)
  | .plus a => Eqv.cat (rx_p4a a) (Eqv.star (rx_p4a a))
  | .opt a => Eqv.alt (rx_p4a a) Eqv.rfl'
  | .rep a m n => Eqv.cat (copies_congr (rx_p4a a) m) (optCopies_congr (rx_p4a a) (n - m))

theorem leaf_dollar : E.leaf ['$'] = .eps := by simp [E.leaf, toNode]

theorem rx_dollar : rx3 (.tk ['$']) = .eps := by
  simp [rx3, leaf_dollar]

theorem rx_dpow (a : D) : ∀ k, Eqv (rx3 (dpow a k)) (copies (rx3 a) (k + 1))
  | 0 => (Eqv.cat_eps _).symm
  | k + 1 => Eqv.cat Eqv.rfl' (rx_dpow a k)

theorem rx_dpow_opt (a : D) : ∀ k, Eqv (rx3 (dpow (.opt a) k)) (optCopies (rx3 a) (k + 1))
  | 0 => (Eqv.cat_eps _).symm
  | k + 1 => Eqv.cat Eqv.rfl' (rx_dpow_opt a k)

theorem rx_repD (a : D) (m n : Nat) (h : m ≤ n) :
    Eqv (rx3 (repD a m n)) (.cat (copies (rx3 a) m) (optCopies (rx3 a) (n - m))) := by
  unfold repD
  by_cases hmn : m = n
  · subst hmn
    simp only [if_true, Nat.sub_self, optCopies]
    refine Eqv.trans ?_ (Eqv.cat_eps _).symm
    by_cases h0 : m = 0
    · subst h0; simp only [if_true, rx_dollar]; exact Eqv.rfl'
    · simp only [h0, if_false]
      have := rx_dpow a (m - 1)
      rwa [Nat.sub_add_cancel (by omega)] at this
  · simp only [hmn, if_false]
    have h2 := rx_dpow_opt a (n - m - 1)
    rw [show n - m - 1 + 1 = n - m by omega] at h2
    refine Eqv.cat ?_ h2
    by_cases h0 : m = 0
    · subst h0; simp only [if_true, rx_dollar]; exact Eqv.rfl'
    · simp only [h0, if_false]
      have := rx_dpow a (m - 1)
      rwa [Nat.sub_add_cancel (by omega)] at this

theorem rx_p4b : ∀ x, Form3 false true true x → Eqv (rx3 (p4b x)) (rx3 x)
  | .tk _, _ => Eqv.rfl'
  | .uni _, _ => Eqv.rfl'
  | .grp x, h => rx_p4b x h
  | .seq a b, h => Eqv.cat (rx_p4b a h.1) (rx_p4b b h.2.1)
  | .bar a b, h => Eqv.alt (rx_p4b a h.1) (rx_p4b b h.2)
  | .star a, h => Eqv.star (rx_p4b a h.1)
  | .plus a, h => absurd h.1 (by simp)
  | .opt a, h => Eqv.alt (rx_p4b a h.2.1) Eqv.rfl'
  | .rep a m n, h =>
    (rx_repD (p4b a) m n h.2.2.2).trans
      (Eqv.cat (copies_congr (rx_p4b a h.2.1) m) (optCopies_congr (rx_p4b a h.2.1) (n - m)))

end Pfl.PyRx.E2E.S3
