/-
Helper lemmas for C14 (library model `Pfl/Model/LL1Lib.lean`): dictionaries of sets, the work
queue, and the FIRST worklist.
-/
import Pfl.Model.LL1Lib
import Pfl.Proofs.LL1
import Pfl.Props.C14_LL1
namespace Pfl
namespace LL1Lib
namespace Lem
open CFG
set_option linter.unusedSectionVars false

/-! ### dictionaries of sets -/

section SetMap
variable {κ α : Type} [DecidableEq κ] [DecidableEq α]

theorem getD_nil (k : κ) : getD ([] : SetMap κ α) k = [] := rfl

theorem getD_cons (e : κ × List α) (m : SetMap κ α) (k : κ) :
    getD (e :: m) k = if e.1 = k then e.2 else getD m k := by
  unfold getD
  rw [List.find?_cons]
  by_cases h : e.1 = k
  · simp [h]
  · simp [h]

theorem hasKey_cons (e : κ × List α) (m : SetMap κ α) (k : κ) :
    hasKey (e :: m) k = (decide (e.1 = k) || hasKey m k) := by
  unfold hasKey; rw [List.any_cons]

theorem getD_of_not_hasKey (m : SetMap κ α) (k : κ) (h : hasKey m k = false) : getD m k = [] := by
  induction m with
  | nil => rfl
  | cons e m ih =>
    rw [hasKey_cons, Bool.or_eq_false_iff] at h
    rw [getD_cons, if_neg (by simpa using h.1), ih h.2]

theorem getD_map_upd (m : SetMap κ α) (k : κ) (v : List α) (k' : κ) :
    getD (m.map fun e => if e.1 = k then (k, v) else e) k' =
      if k' = k then (if hasKey m k then v else []) else getD m k' := by
  induction m with
  | nil => simp [getD_nil, hasKey]
  | cons e m ih =>
    rw [List.map_cons, getD_cons, ih, hasKey_cons, getD_cons]
    by_cases h1 : e.1 = k
    · by_cases h2 : k' = k
      · subst h2; simp [h1]
      · have : ¬ e.1 = k' := fun h => h2 (h ▸ h1)
        have h3 : ¬ k = k' := fun h => h2 h.symm
        simp [h1, h2, h3]
    · by_cases h2 : k' = k
      · subst h2; simp [h1]
      · simp [h1, h2]

theorem getD_append_new (m : SetMap κ α) (k : κ) (v : List α) (k' : κ) (h : hasKey m k = false) :
    getD (m ++ [(k, v)]) k' = if k' = k then v else getD m k' := by
  induction m with
  | nil =>
    rw [List.nil_append, getD_cons, getD_nil]
    by_cases h2 : k' = k
    · subst h2; simp
    · have h3 : ¬ k = k' := fun h => h2 h.symm
      simp [h2, h3]
  | cons e m ih =>
    rw [hasKey_cons, Bool.or_eq_false_iff] at h
    have h1 : ¬ e.1 = k := by simpa using h.1
    rw [List.cons_append, getD_cons, ih h.2, getD_cons]
    by_cases h2 : k' = k
    · subst h2; simp [h1]
    · simp [h2]

theorem getD_setKey (m : SetMap κ α) (k : κ) (v : List α) (k' : κ) :
    getD (setKey m k v) k' = if k' = k then v else getD m k' := by
  unfold setKey
  by_cases h : hasKey m k = true
  · rw [if_pos h, getD_map_upd, if_pos h]
  · rw [if_neg h, getD_append_new _ _ _ _ (by simpa using h)]

theorem getD_setKey_self (m : SetMap κ α) (k : κ) (v : List α) : getD (setKey m k v) k = v := by
  rw [getD_setKey, if_pos rfl]

theorem getD_setKey_ne (m : SetMap κ α) (k : κ) (v : List α) (k' : κ) (h : k' ≠ k) :
    getD (setKey m k v) k' = getD m k' := by
  rw [getD_setKey, if_neg h]

/-- rewriting a key with its own value changes nothing observable -/
theorem getD_setKey_same (m : SetMap κ α) (k k' : κ) : getD (setKey m k (getD m k)) k' = getD m k' := by
  rw [getD_setKey]; split
  · next h => rw [h]
  · rfl

/-! ### `union` -/

theorem union_step_cases (acc : List α) (x : α) :
    ((if x ∈ acc then acc else acc ++ [x]) = acc ∧ x ∈ acc) ∨
    ((if x ∈ acc then acc else acc ++ [x]) = acc ++ [x] ∧ x ∉ acc) := by
  by_cases hm : x ∈ acc
  · left; rw [if_pos hm]; exact ⟨rfl, hm⟩
  · right; rw [if_neg hm]; exact ⟨rfl, hm⟩

theorem union_prefix (a b : List α) : a <+: union a b :=
  LL1.foldAdd_prefix _ (fun x : α => x) union_step_cases b a

theorem mem_union (a b : List α) (x : α) : x ∈ union a b ↔ x ∈ a ∨ x ∈ b := by
  unfold union
  rw [LL1.foldAdd_mem _ (fun x : α => x) union_step_cases]
  constructor
  · rintro (h | ⟨e, he, rfl⟩)
    · exact Or.inl h
    · exact Or.inr he
  · rintro (h | h)
    · exact Or.inl h
    · exact Or.inr ⟨x, h, rfl⟩

theorem union_nodup (a b : List α) (h : a.Nodup) : (union a b).Nodup :=
  LL1.foldAdd_nodup _ (fun x : α => x) union_step_cases b a h

theorem union_eq_of_length (a b : List α) (h : (union a b).length = a.length) : union a b = a :=
  ((union_prefix a b).eq_of_length h.symm).symm

theorem union_nil (a : List α) : union a [] = a := rfl

/-! ### the work queue -/

theorem mem_qpush (q : List κ) (x y : κ) : y ∈ qpush q x ↔ y ∈ q ∨ y = x := by
  unfold qpush
  split
  · next h =>
    constructor
    · exact Or.inl
    · rintro (h' | rfl)
      · exact h'
      · exact h
  · simp

theorem mem_foldl_qpush (l : List κ) : ∀ (q : List κ) (y : κ), y ∈ l.foldl qpush q ↔ y ∈ q ∨ y ∈ l := by
  induction l with
  | nil => intro q y; simp
  | cons x l ih =>
    intro q y
    rw [List.foldl_cons, ih, mem_qpush, List.mem_cons, or_assoc]

theorem mem_dropLast_or (q : List κ) (cur : κ) (h : q.getLast? = some cur) (y : κ) (hy : y ∈ q) :
    y ∈ q.dropLast ∨ y = cur := by
  have hq : q = q.dropLast ++ [cur] := by
    have hne : q ≠ [] := by rintro rfl; simp at h
    rw [List.getLast?_eq_some_getLast hne] at h
    cases h
    exact (List.dropLast_concat_getLast hne).symm
  rw [hq] at hy
  rcases List.mem_append.mp hy with h1 | h1
  · exact Or.inl h1
  · exact Or.inr (by simpa using h1)

end SetMap


section Fold
variable {σ π : Type}

theorem foldl_inv' (P : σ → Prop) (g : σ → π → σ) (l : List π)
    (h : ∀ x ∈ l, ∀ s, P s → P (g s x)) : ∀ s, P s → P (l.foldl g s) := by
  induction l with
  | nil => intro s hs; exact hs
  | cons x l ih =>
    intro s hs
    rw [List.foldl_cons]
    exact ih (fun y hy => h y (List.mem_cons_of_mem _ hy)) _ (h x List.mem_cons_self s hs)

/-- a property established by the step of `x` and kept by all later steps holds at the end -/
theorem foldl_establish (Q : π → σ → Prop) (g : σ → π → σ) (l : List π)
    (hest : ∀ x s, Q x (g s x)) (hpres : ∀ x y s, Q x s → Q x (g s y)) :
    ∀ s, ∀ x ∈ l, Q x (l.foldl g s) := by
  induction l with
  | nil => intro s x hx; cases hx
  | cons y l ih =>
    intro s x hx
    rw [List.foldl_cons]
    rcases List.mem_cons.mp hx with rfl | hx
    · exact foldl_inv' (Q x) g l (fun z _ s hs => hpres x z s hs) _ (hest x s)
    · exact ih _ x hx

end Fold

/-! ### FIRST of a body -/

/-- `a` is collected by the scan of the body: it lies in the set of a symbol all of whose
predecessors have ε -/
def Reach (f : Sym → List Look) : List Sym → Look → Prop
  | [], _ => False
  | x :: xs, a => a ∈ f x ∨ (Look.eps ∈ f x ∧ Reach f xs a)

/-- membership in `firstProd`, in terms of the sets only -/
def FP (f : Sym → List Look) (b : List Sym) (a : Look) : Prop :=
  (a ≠ Look.eps ∧ Reach f b a) ∨ (a = Look.eps ∧ b ≠ [] ∧ ∀ y ∈ b, Look.eps ∈ f y)

theorem reach_mem {f : Sym → List Look} {b : List Sym} {a : Look} (h : Reach f b a) :
    ∃ x ∈ b, a ∈ f x := by
  induction b with
  | nil => exact h.elim
  | cons x xs ih =>
    rcases h with h | ⟨_, h⟩
    · exact ⟨x, List.mem_cons_self, h⟩
    · obtain ⟨y, hy, hay⟩ := ih h
      exact ⟨y, List.mem_cons_of_mem _ hy, hay⟩

theorem reach_mono {f f' : Sym → List Look} (hm : ∀ x a, a ∈ f x → a ∈ f' x) {b : List Sym} {a : Look}
    (h : Reach f b a) : Reach f' b a := by
  induction b with
  | nil => exact h.elim
  | cons x xs ih =>
    rcases h with h | ⟨h1, h⟩
    · exact Or.inl (hm _ _ h)
    · exact Or.inr ⟨hm _ _ h1, ih h⟩

theorem reach_congr {f f' : Sym → List Look} {b : List Sym} (hm : ∀ x ∈ b, f' x = f x) {a : Look} :
    Reach f' b a ↔ Reach f b a := by
  induction b with
  | nil => exact Iff.rfl
  | cons x xs ih =>
    show (_ ∨ _ ∧ _) ↔ (_ ∨ _ ∧ _)
    rw [hm x List.mem_cons_self, ih (fun y hy => hm y (List.mem_cons_of_mem _ hy))]

theorem fp_congr {f f' : Sym → List Look} {b : List Sym} (hm : ∀ x ∈ b, f' x = f x) {a : Look} :
    FP f' b a ↔ FP f b a := by
  unfold FP
  rw [reach_congr hm]
  have : (∀ y ∈ b, Look.eps ∈ f' y) ↔ (∀ y ∈ b, Look.eps ∈ f y) := by
    constructor
    · intro h y hy; rw [← hm y hy]; exact h y hy
    · intro h y hy; rw [hm y hy]; exact h y hy
  rw [this]

theorem reach_eps_of_all {f : Sym → List Look} {b : List Sym} (h : ∀ y ∈ b, Look.eps ∈ f y)
    (hb : b ≠ []) : Reach f b Look.eps := by
  cases b with
  | nil => exact absurd rfl hb
  | cons x xs => exact Or.inl (h x List.mem_cons_self)

theorem go_spec (F : SetMap Sym Look) : ∀ (b : List Sym) (acc : List Look),
    ((firstProd.go F acc b).2 = true ↔ ∀ y ∈ b, Look.eps ∈ getD F y) ∧
    ∀ a, a ∈ (firstProd.go F acc b).1 ↔ a ∈ acc ∨ Reach (getD F) b a := by
  intro b
  induction b with
  | nil => intro acc; simp [firstProd.go, Reach]
  | cons x xs ih =>
    intro acc
    simp only [firstProd.go]
    split
    · next he =>
      obtain ⟨ih1, ih2⟩ := ih (union acc (getD F x))
      refine ⟨?_, ?_⟩
      · rw [ih1]; simp [he]
      · intro a
        rw [ih2, mem_union]
        show _ ↔ (_ ∨ (_ ∨ _ ∧ _))
        constructor
        · rintro ((h | h) | h)
          · exact Or.inl h
          · exact Or.inr (Or.inl h)
          · exact Or.inr (Or.inr ⟨he, h⟩)
        · rintro (h | h | ⟨_, h⟩)
          · exact Or.inl (Or.inl h)
          · exact Or.inl (Or.inr h)
          · exact Or.inr h
    · next he =>
      refine ⟨?_, ?_⟩
      · simp only [Bool.false_eq_true, false_iff]
        intro h; exact he (h x List.mem_cons_self)
      · intro a
        rw [mem_union]
        show _ ↔ (_ ∨ (_ ∨ _ ∧ _))
        constructor
        · rintro (h | h)
          · exact Or.inl h
          · exact Or.inr (Or.inl h)
        · rintro (h | h | ⟨h, _⟩)
          · exact Or.inl h
          · exact Or.inr h
          · exact absurd h he

theorem mem_firstProd (F : SetMap Sym Look) (b : List Sym) (a : Look) :
    a ∈ firstProd F b ↔ FP (getD F) b a := by
  obtain ⟨h1, h2⟩ := go_spec F b []
  unfold firstProd FP
  rcases hgo : firstProd.go F [] b with ⟨acc, allEps⟩
  rw [hgo] at h1 h2
  simp only at h1 h2 ⊢
  cases allEps with
  | true =>
    have hall := h1.mp rfl
    simp only [if_true]
    rw [h2]
    simp only [List.not_mem_nil, false_or]
    constructor
    · intro h
      by_cases ha : a = Look.eps
      · refine Or.inr ⟨ha, ?_, hall⟩
        rintro rfl; exact h
      · exact Or.inl ⟨ha, h⟩
    · rintro (⟨_, h⟩ | ⟨rfl, hb, _⟩)
      · exact h
      · exact reach_eps_of_all hall hb
  | false =>
    have hall : ¬ ∀ y ∈ b, Look.eps ∈ getD F y := fun h => by simpa using h1.mpr h
    simp only [Bool.false_eq_true, if_false, List.mem_filter, decide_eq_true_eq]
    rw [h2]
    simp only [List.not_mem_nil, false_or]
    constructor
    · rintro ⟨h, ha⟩; exact Or.inl ⟨ha, h⟩
    · rintro (⟨ha, h⟩ | ⟨_, _, h⟩)
      · exact ⟨h, ha⟩
      · exact absurd h hall

theorem firstProd_nodup (F : SetMap Sym Look) (b : List Sym) : (firstProd F b).Nodup := by
  have hgo : ∀ (b : List Sym) (acc : List Look), acc.Nodup → (firstProd.go F acc b).1.Nodup := by
    intro b
    induction b with
    | nil => intro acc h; simpa [firstProd.go] using h
    | cons x xs ih =>
      intro acc h
      simp only [firstProd.go]
      split
      · exact ih _ (union_nodup _ _ h)
      · exact union_nodup _ _ h
  unfold firstProd
  have := hgo b [] List.nodup_nil
  rcases hgo' : firstProd.go F [] b with ⟨acc, allEps⟩
  rw [hgo'] at this
  simp only at this ⊢
  split
  · exact this
  · exact this.filter _

/-! ### soundness of the FIRST sets -/

/-- what an entry of the dictionary claims -/
def Just (G : CFG) : Sym → Look → Prop
  | .ter t, a => a = Look.ter t
  | .var v, .ter t => ∃ w, G.Gen (.var v) (t :: w)
  | .var v, .eps => G.Gen (.var v) []
  | .var _, .eof => False

def Sound (G : CFG) (f : Sym → List Look) : Prop := ∀ k a, a ∈ f k → Just G k a

theorem alleps_sound {G : CFG} {f : Sym → List Look} (hs : Sound G f) :
    ∀ b : List Sym, (∀ y ∈ b, Look.eps ∈ f y) → G.GenList b [] := by
  intro b
  induction b with
  | nil => intro _; exact GenList.nil
  | cons x xs ih =>
    intro h
    have hx := hs x _ (h x List.mem_cons_self)
    cases x with
    | ter t => cases hx
    | var v => exact GenList.cons (w₁ := []) hx (ih (fun y hy => h y (List.mem_cons_of_mem _ hy)))

theorem reach_sound {G : CFG} {f : Sym → List Look} (hs : Sound G f) (t : String) :
    ∀ b : List Sym, (∀ s ∈ b, ∃ w, G.Gen s w) → Reach f b (Look.ter t) → ∃ w, G.GenList b (t :: w) := by
  intro b
  induction b with
  | nil => intro _ h; exact h.elim
  | cons x xs ih =>
    intro hb h
    have hxs : ∀ s ∈ xs, ∃ w, G.Gen s w := fun s hs => hb s (List.mem_cons_of_mem _ hs)
    rcases h with h | ⟨h1, h⟩
    · obtain ⟨wr, hwr⟩ := genList_of_forall G xs hxs
      have hx := hs x _ h
      cases x with
      | ter t' =>
        cases hx
        exact ⟨wr, GenList.cons (w₁ := [t]) (Gen.ter t) hwr⟩
      | var v =>
        obtain ⟨w, hw⟩ := hx
        exact ⟨w ++ wr, GenList.cons (w₁ := t :: w) hw hwr⟩
    · obtain ⟨w, hw⟩ := ih hxs h
      have hx := hs x _ h1
      cases x with
      | ter t' => cases hx
      | var v => exact ⟨w, GenList.cons (w₁ := []) hx hw⟩

theorem reach_eof {G : CFG} {f : Sym → List Look} (hs : Sound G f) (b : List Sym) :
    ¬ Reach f b Look.eof := by
  intro h
  obtain ⟨x, _, hx⟩ := reach_mem h
  have := hs x _ hx
  cases x with
  | ter t => cases this
  | var v => exact this

theorem fp_sound {G : CFG} {f : Sym → List Look} (hs : Sound G f) (p : Pfl.Prod) (hp : p ∈ G.prods)
    (hb : ∀ s ∈ p.2, ∃ w, G.Gen s w) (a : Look) (h : FP f p.2 a) : Just G (.var p.1) a := by
  rcases h with ⟨ha, h⟩ | ⟨rfl, _, h⟩
  · cases a with
    | ter t =>
      obtain ⟨w, hw⟩ := reach_sound hs t p.2 hb h
      exact ⟨w, Gen.var (body := p.2) hp hw⟩
    | eps => exact absurd rfl ha
    | eof => exact absurd h (reach_eof hs _)
  · exact Gen.var (body := p.2) hp (alleps_sound hs p.2 h)

/-! ### completeness of closed FIRST sets -/

theorem closed_complete (G : CFG) (hG : G.WF) (f : Sym → List Look)
    (hters : ∀ t ∈ G.ters, Look.ter t ∈ f (.ter t))
    (heps : ∀ p ∈ G.prods, p.2 = [] → Look.eps ∈ f (.var p.1))
    (hcl : ∀ p ∈ G.prods, p.2 ≠ [] → ∀ a, FP f p.2 a → a ∈ f (.var p.1))
    {s : Sym} {w : List String} (hgen : G.Gen s w) :
    (∀ t, s = .ter t → t ∈ G.ters) →
      (w = [] → Look.eps ∈ f s) ∧ (∀ t w', w = t :: w' → Look.ter t ∈ f s) := by
  refine Gen.rec (G := G)
    (motive_1 := fun s w _ => (∀ t, s = .ter t → t ∈ G.ters) →
      (w = [] → Look.eps ∈ f s) ∧ (∀ t w', w = t :: w' → Look.ter t ∈ f s))
    (motive_2 := fun u w _ => (∀ t, Sym.ter t ∈ u → t ∈ G.ters) →
      (w = [] → ∀ y ∈ u, Look.eps ∈ f y) ∧ (∀ t w', w = t :: w' → Reach f u (Look.ter t)))
    ?_ ?_ ?_ ?_ hgen
  · intro t ht
    refine ⟨fun e => (by cases e), ?_⟩
    intro t' w' e
    cases e
    exact hters t (ht t rfl)
  · intro h body w hp _ ih _
    obtain ⟨ih1, ih2⟩ := ih (hG.ter_mem _ hp)
    by_cases hb : body = []
    · subst hb
      refine ⟨fun _ => heps _ hp rfl, ?_⟩
      intro t w' e
      exact (ih2 t w' e).elim
    · refine ⟨?_, ?_⟩
      · intro e
        exact hcl _ hp hb _ (Or.inr ⟨rfl, hb, ih1 e⟩)
      · intro t w' e
        exact hcl _ hp hb _ (Or.inl ⟨(by intro h; cases h), ih2 t w' e⟩)
  · intro _
    exact ⟨fun _ y hy => (by cases hy), fun t w' e => (by cases e)⟩
  · intro s u w₁ w₂ _ _ ih1 ih2 hu
    obtain ⟨a1, a2⟩ := ih1 (fun t e => hu t (e ▸ List.mem_cons_self))
    obtain ⟨b1, b2⟩ := ih2 (fun t ht => hu t (List.mem_cons_of_mem _ ht))
    refine ⟨?_, ?_⟩
    · intro e
      obtain ⟨e1, e2⟩ := List.append_eq_nil_iff.mp e
      intro y hy
      rcases List.mem_cons.mp hy with rfl | hy
      · exact a1 e1
      · exact b1 e2 y hy
    · intro t w' e
      cases w₁ with
      | nil => exact Or.inr ⟨a1 rfl, b2 t w' e⟩
      | cons c w1 =>
        simp only [List.cons_append, List.cons.injEq] at e
        exact Or.inl (a2 t w1 (by rw [e.1]))


/-! ### the FIRST worklist -/

theorem mem_trig (G : CFG) (s : Sym) (h : String) :
    h ∈ trig (triggers G) s ↔ ∃ p ∈ G.prods, p.1 = h ∧ s ∈ p.2 := by
  unfold trig triggers
  simp only [List.mem_map, List.mem_filter, List.mem_flatMap, decide_eq_true_eq]
  constructor
  · rintro ⟨e, ⟨⟨p, hp, x, hx, rfl⟩, rfl⟩, rfl⟩
    exact ⟨p, hp, rfl, hx⟩
  · rintro ⟨p, hp, rfl, hs⟩
    exact ⟨(s, p.1), ⟨⟨p, hp, s, hs, rfl⟩, rfl⟩, rfl⟩

/-- the body of the inner `for production in productions[current]` loop -/
def fstep (T : List (Sym × String)) (st : SetMap Sym Look × List String) (p : Pfl.Prod) :
    SetMap Sym Look × List String :=
  if p.2.isEmpty then st else
    let temp := firstProd st.1 p.2
    let old := getD st.1 (.var p.1)
    let new := union old temp
    let F1 := setKey st.1 (.var p.1) new
    if new.length ≠ old.length then (F1, (trig T (.var p.1)).foldl qpush st.2) else (F1, st.2)

theorem firstLoop_step (G : CFG) (T : List (Sym × String)) (fuel : Nat) (F : SetMap Sym Look)
    (q : List String) (cur : String) (h : q.getLast? = some cur) :
    firstLoop G T (fuel + 1) F q =
      firstLoop G T fuel ((G.prods.filter (·.1 = cur)).foldl (fstep T) (F, q.dropLast)).1
        ((G.prods.filter (·.1 = cur)).foldl (fstep T) (F, q.dropLast)).2 := by
  cases q with
  | nil => simp at h
  | cons x q' =>
    rw [firstLoop]
    · simp only [h]
      rfl
    · simp

theorem firstLoop_inv (G : CFG) (T : List (Sym × String)) (Inv : SetMap Sym Look → List String → Prop)
    (hstep : ∀ F q cur, q.getLast? = some cur → Inv F q →
      Inv ((G.prods.filter (·.1 = cur)).foldl (fstep T) (F, q.dropLast)).1
        ((G.prods.filter (·.1 = cur)).foldl (fstep T) (F, q.dropLast)).2) :
    ∀ fuel F q F', Inv F q → firstLoop G T fuel F q = some F' → Inv F' [] := by
  intro fuel
  induction fuel with
  | zero =>
    intro F q F' hI h
    cases q with
    | nil => rw [firstLoop] at h; cases h; exact hI
    | cons x q' => rw [firstLoop] at h; cases h
  | succ fuel ih =>
    intro F q F' hI h
    cases q with
    | nil => rw [firstLoop] at h; cases h; exact hI
    | cons x q' =>
      have hne : (x :: q') ≠ [] := by simp
      have hl : (x :: q').getLast? = some ((x :: q').getLast hne) := List.getLast?_eq_some_getLast hne
      rw [firstLoop_step G T fuel F _ _ hl] at h
      exact ih _ _ F' (hstep F _ _ hl hI) h

/-- the invariant inside the `for` loop over the productions of `cur` -/
structure Mid (G : CFG) (cur : String) (F : SetMap Sym Look) (q : List String) (rem : List Pfl.Prod) :
    Prop where
  sound : Sound G (getD F)
  ters : ∀ t ∈ G.ters, getD F (.ter t) = [Look.ter t]
  epsP : ∀ p ∈ G.prods, p.2 = [] → Look.eps ∈ getD F (.var p.1)
  pend : ∀ p ∈ G.prods, p.2 ≠ [] →
    (∀ a, FP (getD F) p.2 a → a ∈ getD F (.var p.1)) ∨ p.1 ∈ q ∨ (p.1 = cur ∧ p ∈ rem)

/-- the invariant of the `while to_process` loop -/
structure FInv (G : CFG) (F : SetMap Sym Look) (q : List String) : Prop where
  sound : Sound G (getD F)
  ters : ∀ t ∈ G.ters, getD F (.ter t) = [Look.ter t]
  epsP : ∀ p ∈ G.prods, p.2 = [] → Look.eps ∈ getD F (.var p.1)
  pend : ∀ p ∈ G.prods, p.2 ≠ [] →
    (∀ a, FP (getD F) p.2 a → a ∈ getD F (.var p.1)) ∨ p.1 ∈ q

theorem fstep_mid (G : CFG) (hg : ∀ p ∈ G.prods, ∀ s ∈ p.2, ∃ w, G.Gen s w) (cur : String)
    (F : SetMap Sym Look) (q : List String) (p : Pfl.Prod) (rem : List Pfl.Prod)
    (hp : p ∈ G.prods) (hm : Mid G cur F q (p :: rem)) :
    Mid G cur (fstep (triggers G) (F, q) p).1 (fstep (triggers G) (F, q) p).2 rem := by
  by_cases hb : p.2 = []
  · have : fstep (triggers G) (F, q) p = (F, q) := by unfold fstep; simp [hb]
    rw [this]
    refine ⟨hm.sound, hm.ters, hm.epsP, ?_⟩
    intro p' hp' hb'
    rcases hm.pend p' hp' hb' with h | h | ⟨h1, h2⟩
    · exact Or.inl h
    · exact Or.inr (Or.inl h)
    · rcases List.mem_cons.mp h2 with rfl | h2
      · exact absurd hb hb'
      · exact Or.inr (Or.inr ⟨h1, h2⟩)
  · -- the new dictionary and queue
    have hbe : p.2.isEmpty = false := by cases hpb : p.2 with
      | nil => exact absurd hpb hb
      | cons _ _ => rfl
    let new := union (getD F (.var p.1)) (firstProd F p.2)
    let F1 := setKey F (.var p.1) new
    let q1 := if new.length ≠ (getD F (.var p.1)).length then
      (trig (triggers G) (.var p.1)).foldl qpush q else q
    have hst : fstep (triggers G) (F, q) p = (F1, q1) := by
      unfold fstep
      simp only [hbe, Bool.false_eq_true, if_false]
      show (if new.length ≠ (getD F (.var p.1)).length then _ else _) = _
      by_cases hl : new.length ≠ (getD F (.var p.1)).length
      · simp only [q1, if_pos hl]; rfl
      · simp only [q1, if_neg hl]; rfl
    rw [hst]
    show Mid G cur F1 q1 rem
    have hget : ∀ k, getD F1 k = if k = .var p.1 then new else getD F k :=
      fun k => getD_setKey F _ _ k
    have hmono : ∀ k a, a ∈ getD F k → a ∈ getD F1 k := by
      intro k a ha
      rw [hget]
      split
      · next hk => subst hk; exact (mem_union _ _ _).mpr (Or.inl ha)
      · exact ha
    have hqmono : ∀ h, h ∈ q → h ∈ q1 := by
      intro h hh
      show h ∈ (if _ then _ else _)
      split
      · exact (mem_foldl_qpush _ _ _).mpr (Or.inl hh)
      · exact hh
    -- either nothing observable changed for a production, or its head is queued
    have hkey : ∀ p' ∈ G.prods, (∀ x ∈ p'.2, getD F1 x = getD F x) ∨ p'.1 ∈ q1 := by
      intro p' hp'
      by_cases hl : new.length ≠ (getD F (.var p.1)).length
      · by_cases hin : Sym.var p.1 ∈ p'.2
        · right
          show p'.1 ∈ (if _ then _ else _)
          rw [if_pos hl]
          exact (mem_foldl_qpush _ _ _).mpr (Or.inr ((mem_trig G _ _).mpr ⟨p', hp', rfl, hin⟩))
        · left
          intro x hx
          rw [hget, if_neg]
          rintro rfl; exact hin hx
      · left
        intro x _
        have hnew : new = getD F (.var p.1) := union_eq_of_length _ _ (by simpa using hl)
        show getD (setKey F (.var p.1) new) x = _
        rw [hnew, getD_setKey_same]
    refine ⟨?_, ?_, ?_, ?_⟩
    · intro k a ha
      rw [hget] at ha
      split at ha
      · next hk =>
        subst hk
        rcases (mem_union _ _ _).mp ha with h | h
        · exact hm.sound _ _ h
        · exact fp_sound hm.sound p hp (hg p hp) a ((mem_firstProd _ _ _).mp h)
      · exact hm.sound _ _ ha
    · intro t ht
      rw [hget, if_neg (by intro h; cases h)]
      exact hm.ters t ht
    · intro p' hp' hb'
      exact hmono _ _ (hm.epsP p' hp' hb')
    · intro p' hp' hb'
      rcases hkey p' hp' with hsame | hq
      · have hfp : ∀ a, FP (getD F1) p'.2 a ↔ FP (getD F) p'.2 a := fun a => fp_congr hsame
        rcases hm.pend p' hp' hb' with h | h | ⟨h1, h2⟩
        · left
          intro a ha
          exact hmono _ _ (h a ((hfp a).mp ha))
        · exact Or.inr (Or.inl (hqmono _ h))
        · rcases List.mem_cons.mp h2 with rfl | h2
          · left
            intro a ha
            rw [hget, if_pos rfl]
            exact (mem_union _ _ _).mpr (Or.inr ((mem_firstProd _ _ _).mpr ((hfp a).mp ha)))
          · exact Or.inr (Or.inr ⟨h1, h2⟩)
      · exact Or.inr (Or.inl hq)

theorem fold_mid (G : CFG) (hg : ∀ p ∈ G.prods, ∀ s ∈ p.2, ∃ w, G.Gen s w) (cur : String) :
    ∀ (rem : List Pfl.Prod) (F : SetMap Sym Look) (q : List String), (∀ p ∈ rem, p ∈ G.prods) →
      Mid G cur F q rem →
      Mid G cur (rem.foldl (fstep (triggers G)) (F, q)).1 (rem.foldl (fstep (triggers G)) (F, q)).2 [] := by
  intro rem
  induction rem with
  | nil => intro F q _ hm; exact hm
  | cons p rem ih =>
    intro F q hrem hm
    rw [List.foldl_cons]
    exact ih _ _ (fun p' hp' => hrem p' (List.mem_cons_of_mem _ hp'))
      (fstep_mid G hg cur F q p rem (hrem p List.mem_cons_self) hm)

theorem loop_step_inv (G : CFG) (hg : ∀ p ∈ G.prods, ∀ s ∈ p.2, ∃ w, G.Gen s w)
    (F : SetMap Sym Look) (q : List String) (cur : String) (hl : q.getLast? = some cur)
    (hI : FInv G F q) :
    FInv G ((G.prods.filter (·.1 = cur)).foldl (fstep (triggers G)) (F, q.dropLast)).1
      ((G.prods.filter (·.1 = cur)).foldl (fstep (triggers G)) (F, q.dropLast)).2 := by
  have hm : Mid G cur F q.dropLast (G.prods.filter (·.1 = cur)) := by
    refine ⟨hI.sound, hI.ters, hI.epsP, ?_⟩
    intro p hp hb
    rcases hI.pend p hp hb with h | h
    · exact Or.inl h
    · rcases mem_dropLast_or q cur hl _ h with h | h
      · exact Or.inr (Or.inl h)
      · exact Or.inr (Or.inr ⟨h, List.mem_filter.mpr ⟨hp, by simpa using h⟩⟩)
  have := fold_mid G hg cur _ F q.dropLast (fun p hp => (List.mem_filter.mp hp).1) hm
  refine ⟨this.sound, this.ters, this.epsP, ?_⟩
  intro p hp hb
  rcases this.pend p hp hb with h | h | ⟨_, h⟩
  · exact Or.inl h
  · exact Or.inr h
  · cases h


/-! ### initialisation -/

def init1 (T : List (Sym × String)) (st : SetMap Sym Look × List String) (t : String) :
    SetMap Sym Look × List String :=
  (setKey st.1 (.ter t) [Look.ter t], (trig T (.ter t)).foldl qpush st.2)

def init2 (T : List (Sym × String)) (st : SetMap Sym Look × List String) (p : Pfl.Prod) :
    SetMap Sym Look × List String :=
  if p.2.isEmpty then (setKey st.1 (.var p.1) [Look.eps], (trig T (.var p.1)).foldl qpush st.2)
  else st

theorem firstInit_eq (G : CFG) (T : List (Sym × String)) :
    firstInit G T = G.prods.foldl (init2 T) (G.ters.foldl (init1 T) ([], [])) := rfl

/-- during initialisation: entries are the seeds, and every non-empty set has its triggers queued -/
structure InitInv (G : CFG) (T : List (Sym × String)) (st : SetMap Sym Look × List String) : Prop where
  seeds : ∀ k a, a ∈ getD st.1 k → (∃ t ∈ G.ters, k = .ter t ∧ a = Look.ter t) ∨
    (∃ p ∈ G.prods, p.2 = [] ∧ k = .var p.1 ∧ a = Look.eps)
  queued : ∀ k, getD st.1 k ≠ [] → ∀ h ∈ trig T k, h ∈ st.2

theorem init1_inv (G : CFG) (T : List (Sym × String)) (t : String) (ht : t ∈ G.ters)
    (st : SetMap Sym Look × List String) (h : InitInv G T st) : InitInv G T (init1 T st t) := by
  refine ⟨?_, ?_⟩
  · intro k a ha
    simp only [init1, getD_setKey] at ha
    split at ha
    · next hk =>
      simp only [List.mem_singleton] at ha
      exact Or.inl ⟨t, ht, hk, ha⟩
    · exact h.seeds k a ha
  · intro k hk x hx
    simp only [init1, getD_setKey] at hk ⊢
    rw [mem_foldl_qpush]
    split at hk
    · next hkk => subst hkk; exact Or.inr hx
    · exact Or.inl (h.queued k hk x hx)

theorem init2_inv (G : CFG) (T : List (Sym × String)) (p : Pfl.Prod) (hp : p ∈ G.prods)
    (st : SetMap Sym Look × List String) (h : InitInv G T st) : InitInv G T (init2 T st p) := by
  unfold init2
  split
  · next hb =>
    have hb' : p.2 = [] := List.isEmpty_iff.mp hb
    refine ⟨?_, ?_⟩
    · intro k a ha
      simp only [getD_setKey] at ha
      split at ha
      · next hk =>
        simp only [List.mem_singleton] at ha
        exact Or.inr ⟨p, hp, hb', hk, ha⟩
      · exact h.seeds k a ha
    · intro k hk x hx
      simp only [getD_setKey] at hk ⊢
      rw [mem_foldl_qpush]
      split at hk
      · next hkk => subst hkk; exact Or.inr hx
      · exact Or.inl (h.queued k hk x hx)
  · exact h

theorem firstInit_inv (G : CFG) : InitInv G (triggers G) (firstInit G (triggers G)) := by
  rw [firstInit_eq]
  refine foldl_inv' (InitInv G (triggers G)) _ _ (fun p hp st h => init2_inv G _ p hp st h) _ ?_
  refine foldl_inv' (InitInv G (triggers G)) _ _ (fun t ht st h => init1_inv G _ t ht st h) _ ?_
  exact ⟨fun k a ha => by simp [getD_nil] at ha, fun k hk => absurd (getD_nil k) hk⟩

theorem firstInit_ters (G : CFG) (T : List (Sym × String)) :
    ∀ t ∈ G.ters, getD (firstInit G T).1 (.ter t) = [Look.ter t] := by
  intro t ht
  rw [firstInit_eq]
  refine foldl_inv' (fun st : SetMap Sym Look × List String => getD st.1 (Sym.ter t) = [Look.ter t]) _ _ ?_ _ ?_
  · intro p _ st h
    unfold init2
    split
    · simp only [getD_setKey]; rw [if_neg (by intro e; cases e)]; exact h
    · exact h
  · refine foldl_establish (fun (t : String) (st : SetMap Sym Look × List String) => getD st.1 (Sym.ter t) = [Look.ter t]) _ _ ?_ ?_ _ t ht
    · intro x st; simp only [init1, getD_setKey_self]
    · intro x y st h
      simp only [init1, getD_setKey]
      split
      · next e => cases e; rfl
      · exact h

theorem firstInit_eps (G : CFG) (T : List (Sym × String)) :
    ∀ p ∈ G.prods, p.2 = [] → Look.eps ∈ getD (firstInit G T).1 (.var p.1) := by
  intro p hp
  rw [firstInit_eq]
  refine foldl_establish (fun (p : Pfl.Prod) (st : SetMap Sym Look × List String) => p.2 = [] → Look.eps ∈ getD st.1 (Sym.var p.1)) _ _ ?_ ?_ _ p hp
  · intro x st hx
    unfold init2
    rw [if_pos (by rw [hx]; rfl)]
    simp only [getD_setKey_self, List.mem_singleton]
  · intro x y st h hx
    unfold init2
    split
    · simp only [getD_setKey]
      split
      · simp
      · exact h hx
    · exact h hx

theorem firstInit_finv (G : CFG) :
    FInv G (firstInit G (triggers G)).1 (firstInit G (triggers G)).2 := by
  have hi := firstInit_inv G
  refine ⟨?_, firstInit_ters G _, firstInit_eps G _, ?_⟩
  · intro k a ha
    rcases hi.seeds k a ha with ⟨t, _, rfl, rfl⟩ | ⟨p, hp, hb, rfl, rfl⟩
    · rfl
    · show G.Gen (.var p.1) []
      exact Gen.var (body := p.2) hp (by rw [hb]; exact GenList.nil)
  · intro p hp hb
    by_cases hq : p.1 ∈ (firstInit G (triggers G)).2
    · exact Or.inr hq
    · left
      have hempty : ∀ x ∈ p.2, getD (firstInit G (triggers G)).1 x = [] := by
        intro x hx
        refine Classical.byContradiction fun hne => ?_
        exact hq (hi.queued x hne p.1 ((mem_trig G _ _).mpr ⟨p, hp, rfl, hx⟩))
      intro a ha
      rcases ha with ⟨_, h⟩ | ⟨_, _, h⟩
      · obtain ⟨x, hx, hax⟩ := reach_mem h
        rw [hempty x hx] at hax; cases hax
      · cases hpb : p.2 with
        | nil => exact absurd hpb hb
        | cons x xs =>
          have hx : x ∈ p.2 := by rw [hpb]; exact List.mem_cons_self
          have := h x hx
          rw [hempty x hx] at this; cases this

/-- what `get_first_set` leaves behind -/
theorem firstSet_finv (G : CFG) (hg : ∀ p ∈ G.prods, ∀ s ∈ p.2, ∃ w, G.Gen s w) (fuel : Nat)
    (F : SetMap Sym Look) (h : firstSet G fuel = some F) : FInv G F [] := by
  unfold firstSet at h
  exact firstLoop_inv G (triggers G) (FInv G) (fun F q cur hl hI => loop_step_inv G hg F q cur hl hI)
    fuel _ _ F (firstInit_finv G) h

/-- semantic reading of the final FIRST dictionary, for every symbol of the grammar -/
theorem firstSet_sem (G : CFG) (hg : ∀ p ∈ G.prods, ∀ s ∈ p.2, ∃ w, G.Gen s w) (hG : G.WF)
    (fuel : Nat) (F : SetMap Sym Look) (h : firstSet G fuel = some F) (s : Sym)
    (hs : ∀ t, s = .ter t → t ∈ G.ters) :
    (∀ t, Look.ter t ∈ getD F s ↔ ∃ w, G.Gen s (t :: w)) ∧
    (Look.eps ∈ getD F s ↔ G.Gen s []) ∧ Look.eof ∉ getD F s := by
  have hI := firstSet_finv G hg fuel F h
  have hcl : ∀ p ∈ G.prods, p.2 ≠ [] → ∀ a, FP (getD F) p.2 a → a ∈ getD F (.var p.1) := by
    intro p hp hb
    rcases hI.pend p hp hb with h | h
    · exact h
    · cases h
  have hcomp : ∀ w, G.Gen s w → _ := fun w hw =>
    closed_complete G hG (getD F) (fun t ht => by rw [hI.ters t ht]; simp) hI.epsP hcl hw hs
  refine ⟨?_, ?_, ?_⟩
  · intro t
    constructor
    · intro ht
      have := hI.sound s _ ht
      cases s with
      | ter t' => cases this; exact ⟨[], Gen.ter t⟩
      | var v => exact this
    · rintro ⟨w, hw⟩
      exact (hcomp _ hw).2 t w rfl
  · constructor
    · intro he
      have := hI.sound s _ he
      cases s with
      | ter t' => cases this
      | var v => exact this
    · intro hw
      exact (hcomp _ hw).1 rfl
  · intro he
    have := hI.sound s _ he
    cases s with
    | ter t' => cases this
    | var v => exact this


theorem fstep_ter (T : List (Sym × String)) (st : SetMap Sym Look × List String) (p : Pfl.Prod)
    (t : String) : getD (fstep T st p).1 (.ter t) = getD st.1 (.ter t) := by
  unfold fstep
  split
  · rfl
  · simp only
    split <;> exact getD_setKey_ne _ _ _ _ (by intro e; cases e)

/-- the terminal entries never change (no hypothesis on the grammar) -/
theorem firstSet_ters (G : CFG) (fuel : Nat) (F : SetMap Sym Look) (h : firstSet G fuel = some F) :
    ∀ t ∈ G.ters, getD F (.ter t) = [Look.ter t] := by
  unfold firstSet at h
  refine firstLoop_inv G (triggers G) (fun F _ => ∀ t ∈ G.ters, getD F (.ter t) = [Look.ter t]) ?_
    fuel _ _ F (firstInit_ters G _) h
  intro F q cur _ hI t ht
  refine foldl_inv' (fun st : SetMap Sym Look × List String => getD st.1 (Sym.ter t) = [Look.ter t])
    _ _ ?_ _ (hI t ht)
  intro p _ st hst
  rw [fstep_ter]; exact hst

end Lem
end LL1Lib
end Pfl
