/-
Termination of the Earley model (C18), part 3: the strengthened invariant `TB` along `advance`,
`scanner`, `predictor`, `completer`; the loop of a column ends within the fuel given by the
column bound; the recogniser answers.
-/
import Pfl.Proofs.EarleyTerminationChain
namespace Pfl
namespace Earley
namespace Term
open FsDag FsDag.Lem Lem Cmp

/-! ### `advance` -/

/-- the anatomy of `advance`: two copies, one unification, at most one push; the invariant at the
store of the copies and, when the unification succeeds, at its result together with what is needed
to push the new state -/
theorem advance_setup {C : Ctx} (hC : CtxOK C) {vals : List String} {L : Nat} (hc : TC C vals L)
    {d : String} (hd : C.P d) {T : Tables}
    {rk : Nat → Nat} {X : List (Nat × EState)} (hT : TB C vals L T rk X) {i : Nat} {c nx : EState}
    (hs : (i, c) ∈ X) (hnx : (c.b, nx) ∈ X) (hi : i < C.word.length + 1)
    (hcomp : incomplete C.G c = false) (hinc : incomplete C.G nx = true)
    (hnext : nextSym C.G nx = some (.var (prodOf C.G c.prod).head)) :
    ∃ (st1 : Store) (cl : Nat) (κ1 : Nat → Nat) (dom1 : Nat → Prop) (π1 : Nat → Nat)
      (st2 : Store) (cr : Nat) (κ2 : Nat → Nat) (dom2 : Nat → Prop) (π2 : Nat → Nat)
      (rh rs : Nat) (rk1 rk2 : Nat → Nat),
      CopySpec T.store c.fs st1 cl κ1 dom1 π1 ∧ CopySpec st1 nx.fs st2 cr κ2 dom2 π2 ∧
      WFS st1 rk1 ∧ WFS st2 rk2 ∧
      byPath T.store c.fs ["head"] = some rh ∧ dom1 rh ∧
      byPath st1 nx.fs [toString nx.dot] = some rs ∧ dom2 rs ∧
      (rk2 cr = 2 ∧ rk2 (κ2 rs) = 1 ∧ rk2 (κ1 rh) = 1) ∧
      Pfl.Earley.advance C.G T nx c = (match unify (st2.length + 2) st2 (κ2 rs) (κ1 rh) with
        | .ok st3 => pushIfNew C.G { T with store := st3 } c.e
            { prod := nx.prod, b := nx.b, e := c.e, dot := nx.dot + 1, fs := cr }
        | _ => { T with store := st2 }) ∧
      TB C vals L { T with store := st2 } rk2 X ∧
      (∀ st3, unify (st2.length + 2) st2 (κ2 rs) (κ1 rh) = .ok st3 →
        ∃ rk3, TB C vals L { T with store := st3 } rk3 X ∧
          StOK C st3 rk3 c.e { prod := nx.prod, b := nx.b, e := c.e, dot := nx.dot + 1, fs := cr } ∧
          HasPaths C st3 cr nx.prod ∧ RootLab st3 cr L ∧ nx.dot + 1 ≤ L ∧
          c.e < C.word.length + 1 ∧ Fr T.store st3) := by
  have hB := hT.base
  have hcOK := hB.inv.extra _ hs
  have hnxOK := hB.inv.extra _ hnx
  have hw0 := hB.inv.wf
  have hr0 := hw0.rng
  have ha0 := hw0.inv.acyc
  have hie : c.e = i := hcOK.e_eq
  -- first copy
  obtain ⟨κ1, dom1, π1, hc1, hw1⟩ := wfs_copy' hw0 hcOK.fs_lt
  generalize hcp1 : copy T.store c.fs = r1 at hc1 hw1
  obtain ⟨st1, cl⟩ := r1
  simp only at hc1 hw1
  have hcl : cl < st1.length := by rw [← hc1.κF]; exact (hc1.rng _ hc1.domF).2
  have hrkcl : rk (proj T.store π1 cl) = 2 := by
    rw [← hc1.κF, hc1.proj_κ hc1.domF]; exact hcOK.rk2
  have hfr1 : Fr T.store st1 := copy_fr hc1
  obtain ⟨⟨rh, hrh⟩, _⟩ := hB.pthx _ hs
  simp only at hrh
  obtain ⟨hdomrh, hleft0⟩ := hc1.byPath_κ hr0 ha0 _ _ _ hc1.domF hrh
  rw [hc1.κF] at hleft0
  have hleftge : T.store.length ≤ κ1 rh := (hc1.rng rh hdomrh).1
  have hleftlt : κ1 rh < st1.length := byPath_lt hw1.rng _ _ _ hcl hleft0
  have hrkleft : rk (proj T.store π1 (κ1 rh)) + 1 = 2 := by
    have := rk_child hw1 hleft0
    rw [this, hrkcl]
  -- second copy
  have hnxlt1 : nx.fs < st1.length := Nat.lt_of_lt_of_le hnxOK.fs_lt hfr1.len
  obtain ⟨κ2, dom2, π2, hc2, hw2⟩ := wfs_copy' hw1 hnxlt1
  generalize hcp2 : copy st1 nx.fs = r2 at hc2 hw2
  obtain ⟨st2, cr⟩ := r2
  simp only at hc2 hw2
  have hcr : cr < st2.length := by rw [← hc2.κF]; exact (hc2.rng _ hc2.domF).2
  have hfr2 : Fr st1 st2 := copy_fr hc2
  have hdotlt : nx.dot < (prX C nx.prod).2.length := by
    unfold incomplete at hinc
    rw [body_prX hC, List.length_map] at hinc
    simpa using hinc
  have hdotL : nx.dot + 1 ≤ L := by
    have h1 := hc.body nx.prod
    unfold incomplete at hinc
    have h2 : nx.dot < (prodOf C.G nx.prod).body.length := by simpa using hinc
    omega
  obtain ⟨_, hps⟩ := hB.pthx _ hnx
  obtain ⟨rs, hrs⟩ := hps nx.dot hdotlt
  simp only at hrs
  have hrs1 : byPath st1 nx.fs [toString nx.dot] = some rs := by
    rw [hfr1.byPath_eq ha0 hr0 _ hnxOK.fs_lt]; exact hrs
  obtain ⟨hdomrs, hcons0⟩ := hc2.byPath_κ hw1.rng hw1.inv.acyc _ _ _ hc2.domF hrs1
  rw [hc2.κF] at hcons0
  have hconsge : st1.length ≤ κ2 rs := (hc2.rng rs hdomrs).1
  have hw1' := hw1
  generalize hrk1 : (fun n => rk (proj T.store π1 n)) = rk1 at hw1'
  generalize hrk2 : (fun n => rk1 (proj st1 π2 n)) = rk2
  have hw2' : WFS st2 rk2 := by rw [← hrk2, ← hrk1]; exact hw2
  have hrk1old : ∀ j, j < T.store.length → rk1 j = rk j := by
    intro j hj; rw [← hrk1]; simp only [proj_old hj]
  have hrk2old : ∀ j, j < st1.length → rk2 j = rk1 j := by
    intro j hj; rw [← hrk2]; simp only [proj_old hj]
  have hrk1cl : rk1 cl = 2 := by rw [← hrk1]; exact hrkcl
  have hrk1left : rk1 (κ1 rh) + 1 = 2 := by rw [← hrk1]; exact hrkleft
  have hrk2cr : rk2 cr = 2 := by
    rw [← hrk2]
    simp only
    rw [← hc2.κF, hc2.proj_κ hc2.domF, hrk1old _ hnxOK.fs_lt]; exact hnxOK.rk2
  have hconslt : κ2 rs < st2.length := byPath_lt hw2'.rng _ _ _ hcr hcons0
  have hleftlt2 : κ1 rh < st2.length := Nat.lt_of_lt_of_le hleftlt hfr2.len
  have hrk2cons : rk2 (κ2 rs) + 1 = 2 := by rw [rk_child hw2' hcons0, hrk2cr]
  have hrk2left : rk2 (κ1 rh) + 1 = 2 := by rw [hrk2old _ hleftlt]; exact hrk1left
  have hleft2 : byPath st2 cl ["head"] = some (κ1 rh) := by
    rw [hfr2.byPath_eq hw1.inv.acyc hw1.rng _ hcl]; exact hleft0
  have hcl2 : cl < st2.length := Nat.lt_of_lt_of_le hcl hfr2.len
  have hk : rk2 (κ2 rs) = rk2 (κ1 rh) := by omega
  -- the extra invariants of the copies
  have hsx1 : SX C.P st1 rk1 := by
    rw [← hrk1]
    exact ⟨copy_kf hc1 hB.sx.kf, copy_vr hc1 hr0 ha0 hB.sx.vr, copy_alln hc1 hB.sx.alln,
      copy_ap hc1 hB.sx.ap⟩
  have hsx2 : SX C.P st2 rk2 := by
    rw [← hrk2]
    exact ⟨copy_kf hc2 hsx1.kf, copy_vr hc2 hw1'.rng hw1'.inv.acyc hsx1.vr, copy_alln hc2 hsx1.alln,
      copy_ap hc2 hsx1.ap⟩
  have hnv2 : C.featured = false → NoVal st2 := fun hf =>
    copy_noval hc2 (copy_noval hc1 (hB.nv hf))
  have hstep1 : Lem.Step C.P T.store rk st1 rk1 :=
    ⟨hc1.len, hrk1old, fun F hF => copy_sim_old hc1 hr0 ha0 hF⟩
  have hstep2 : Lem.Step C.P st1 rk1 st2 rk2 :=
    ⟨hc2.len, hrk2old, fun F hF => copy_sim_old hc2 hw1'.rng hw1'.inv.acyc hF⟩
  have hstep12 := hstep1.trans hstep2
  have hfr12 := hfr1.trans hfr2
  have hB2 := hB.step hstep12 hfr12 hw2' hsx2 hnv2 hd
  refine ⟨st1, cl, κ1, dom1, π1, st2, cr, κ2, dom2, π2, rh, rs, rk1, rk2, hc1, hc2, hw1', hw2',
    hrh, hdomrh, hrs1, hdomrs, ⟨hrk2cr, by omega, by omega⟩, ?_, hT.store hB2 hfr12, ?_⟩
  · unfold Pfl.Earley.advance
    rw [hcp1]
    simp only
    rw [hleft0]
    simp only
    rw [hcp2]
    simp only
    rw [hcons0]
    simp only
    cases unify (st2.length + 2) st2 (κ2 rs) (κ1 rh) <;> rfl
  · intro st3 hun
    obtain ⟨rk3, hw3, he, hder, hpp⟩ := unify_step' hw2' hconslt hleftlt2 hk hun
    obtain ⟨kf3, vr3, an3, ap3, vals3⟩ := unify_sx hw2' hsx2.kf hsx2.vr hsx2.alln hsx2.ap
      hconslt hleftlt2 (by omega) (by omega) he hun
    have hclosed : ClosedAbove st2 T.store.length :=
      copy_closed hc2 hfr1.len (copy_closed hc1 (Nat.le_refl _) (closedAbove_length _))
    have hframe3 : ∀ j, j < T.store.length → get st3 j = get st2 j :=
      unify_frame hw2'.rng hsx2.kf hfr12.len hclosed.1 hclosed.2 hconslt hleftlt2
        (by have := hfr1.len; omega) hleftge hun
    have hfr3 : Fr T.store st3 :=
      ⟨Nat.le_trans hfr12.len he.len, fun j hj => by rw [hframe3 j hj, hfr12.old j hj]⟩
    obtain ⟨_, _, _, _, _, _, hsim3⟩ := Lem.unify_step C.P hw2' hconslt hleftlt2 hk hun
    have hstep3 : Lem.Step C.P st2 rk2 st3 rk3 := ⟨he.len, he.rkold, hsim3⟩
    have hstepAll := hstep12.trans hstep3
    have hB3 : Base C { T with store := st3 } rk3 X :=
      hB.step hstepAll hfr3 hw3 ⟨kf3, vr3, an3, ap3⟩
        (fun hf j => by rw [vals3 j]; exact hnv2 hf j) hd
    have hT3 := hT.store hB3 hfr3
    -- the new state
    have hcr3 : cr < st3.length := Nat.lt_of_lt_of_le hcr he.len
    obtain ⟨_, l', hl', hdl'⟩ := hpp _ _ _ hcl2 hleft2
    obtain ⟨_, c', hc', hdc'⟩ := hpp _ _ _ hcr hcons0
    have hlink : byPath st3 cr [toString nx.dot, "n"] = byPath st3 cl ["head", "n"] := by
      have e1 := byPath_append st3 [toString nx.dot] ["n"] cr
      have e2 := byPath_append st3 ["head"] ["n"] cl
      simp only [List.cons_append, List.nil_append] at e1 e2
      rw [e1, e2, hc', hl']
      simp only [Option.bind_some]
      exact byPath_congr (by rw [hdc', hdl', hder]) "n" []
    have simA : Sim C.P T.store nx.fs st3 cr :=
      ((hstep1.sim _ hnxOK.fs_lt).trans (hc2.sim C.P hw1'.rng hw1'.inv.acyc)).trans (hsim3 _ hcr)
    have simB : Sim C.P T.store c.fs st3 cl :=
      ((hc1.sim C.P hr0 ha0).trans (hstep2.sim _ hcl)).trans (hsim3 _ hcl2)
    have hrk3cr : rk3 cr = 2 := by rw [he.rkold _ hcr]; exact hrk2cr
    have hnsOK := compl_good (rk3 := rk3) hC hcOK hnxOK hcomp hinc hnext simA simB hlink hcr3 hrk3cr
    have hpath3 : ∀ p r, byPath T.store nx.fs p = some r → ∃ r', byPath st3 cr p = some r' := by
      intro p r hp
      have h1 : byPath st1 nx.fs p = some r := by
        rw [hfr1.byPath_eq ha0 hr0 _ hnxOK.fs_lt]; exact hp
      obtain ⟨_, h2⟩ := hc2.byPath_κ hw1'.rng hw1'.inv.acyc _ _ _ hc2.domF h1
      rw [hc2.κF] at h2
      obtain ⟨_, r', hr', _⟩ := hpp _ _ _ hcr h2
      exact ⟨r', hr'⟩
    have hnsP : HasPaths C st3 cr nx.prod := by
      obtain ⟨⟨r0, hr0'⟩, hps'⟩ := hB.pthx _ hnx
      exact ⟨hpath3 _ _ hr0', fun j hj => by
        obtain ⟨r1, hr1⟩ := hps' j hj
        exact hpath3 _ _ hr1⟩
    -- the features of the root of the new record are those of the waiting state
    have hrl : RootLab st3 cr L := by
      have hrl0 := hT.rlx _ hnx
      intro g x hx
      have hlt12 : rk2 (κ2 rs) < rk2 cr := by omega
      have hd3 : deref st3 cr = deref st2 cr :=
        he.deref_high hw2'.rng hw2'.inv hcr hlt12
      have hdlt : deref st2 cr < st2.length := deref_lt hw2'.rng hcr
      rw [hd3, cont, he.frame _ hdlt (by rw [rkR_deref hw2'.inv]; exact hlt12)] at hx
      obtain ⟨hdκ, hdom⟩ := hc2.deref_κ hw1'.rng hw1'.inv.acyc nx.fs hc2.domF
      rw [hc2.κF] at hdκ
      rw [hdκ, hc2.node _ hdom] at hx
      simp only [List.mem_map, Prod.mk.injEq] at hx
      obtain ⟨e, hem, hg, _⟩ := hx
      rw [hfr1.deref_eq ha0 hr0 hnxOK.fs_lt, cont, hfr1.old _ (deref_lt hr0 hnxOK.fs_lt)] at hem
      rw [← hg]
      exact hrl0 e.1 e.2 hem
    exact ⟨rk3, hT3, hnsOK, hnsP, hrl, hdotL, by rw [hie]; exact hi, hfr3⟩

theorem advance_tb {C : Ctx} (hC : CtxOK C) {vals : List String} {L : Nat} (hc : TC C vals L)
    {d : String} (hd : C.P d) {T : Tables}
    {rk : Nat → Nat} {X : List (Nat × EState)} (hT : TB C vals L T rk X) {i : Nat} {c nx : EState}
    (hs : (i, c) ∈ X) (hnx : (c.b, nx) ∈ X) (hi : i < C.word.length + 1)
    (hcomp : incomplete C.G c = false) (hinc : incomplete C.G nx = true)
    (hnext : nextSym C.G nx = some (.var (prodOf C.G c.prod).head)) :
    ∃ rk', TB C vals L (Pfl.Earley.advance C.G T nx c) rk' X := by
  obtain ⟨st1, cl, κ1, dom1, π1, st2, cr, κ2, dom2, π2, rh, rs, rk1, rk2, _, _, _, _, _, _, _, _, _,
    heq, hT2, hok⟩ := advance_setup hC hc hd hT hs hnx hi hcomp hinc hnext
  rw [heq]
  cases hun : unify (st2.length + 2) st2 (κ2 rs) (κ1 rh) with
  | ok st3 =>
    obtain ⟨rk3, hT3, hnsOK, hnsP, hrl, hdotL, hce, _⟩ := hok st3 hun
    exact ⟨rk3, hT3.push hc hce hnsOK hnsP hrl hdotL⟩
  | conflict => exact ⟨rk2, hT2⟩
  | fuel => exact ⟨rk2, hT2⟩

/-! ### scanner, completer, predictor -/

theorem scanner_tb {C : Ctx} (hC : CtxOK C) {vals : List String} {L : Nat} (hc : TC C vals L)
    {T : Tables} {rk : Nat → Nat} {X : List (Nat × EState)} (hT : TB C vals L T rk X) {i : Nat}
    {s : EState} (hs : StOK C T.store rk i s) (hp : HasPaths C T.store s.fs s.prod)
    (hrl : RootLab T.store s.fs L) {t : String}
    (hn : nextSym C.G s = some (.ter t)) (hw : C.word[i]? = some t) :
    TB C vals L (scanner C.G T s) rk X := by
  have hilt : i < C.word.length := by
    by_contra hc'; rw [List.getElem?_eq_none (by omega)] at hw; simp at hw
  have hse : s.e = i := hs.e_eq
  have hok : StOK C T.store rk (s.e + 1) { s with e := s.e + 1, dot := s.dot + 1 } := by
    refine ⟨rfl, Nat.le_succ_of_le hs.ble, hs.fs_lt, hs.rk2, hs.prod_le, ?_⟩
    intro pr hpr
    obtain ⟨hd', hg⟩ := hs.good pr hpr
    obtain ⟨_, hb, _⟩ := prodOf_spec hC hpr
    unfold nextSym at hn
    rw [hb, List.getElem?_map] at hn
    simp only [Option.map_eq_some_iff] at hn
    obtain ⟨it, hit, hit1⟩ := hn
    have hlt : s.dot < pr.2.length := (List.getElem?_eq_some_iff.1 hit).1
    refine ⟨hlt, fun σ hσ => ?_⟩
    obtain ⟨env, he, ho, hgl⟩ := hg σ hσ
    refine ⟨env, he, ho, ?_⟩
    show C.tgt.GenList ((ibody C.vf env pr.2).take (s.dot + 1)) (seg C.word s.b (s.e + 1))
    rw [ibody_take_succ C.vf env pr.2 s.dot it hit, hit1]
    have hwe : C.word[s.e]? = some t := by rw [hs.e_eq]; exact hw
    rw [← seg_succ C.word hs.ble hwe]
    exact CFG.genList_append hgl (CFG.GenList.cons (.ter t) .nil)
  have hdot : s.dot + 1 ≤ L := by
    have h1 := hc.body s.prod
    unfold nextSym at hn
    have h2 : s.dot < (prodOf C.G s.prod).body.length := by
      by_contra hc'
      rw [List.getElem?_eq_none (by omega)] at hn
      simp at hn
    omega
  unfold Pfl.Earley.scanner
  rw [hse] at hok ⊢
  exact hT.push hc (by omega) hok hp hrl hdot

/-- the strengthened invariant is kept by the primitive steps and bounds the columns -/
theorem tb_chain {C : Ctx} (hC : CtxOK C) {vals : List String} {L : Nat} (hc : TC C vals L)
    {d : String} (hd : C.P d) :
    Chain C (TB C vals L) (colBound C.spec.length C.word.length L vals.length) where
  weaken := fun h hsub => h.weaken hsub
  withProc := fun h j => h.withProc j
  pop := fun h hs => h.pop hs
  lens := fun h => ⟨h.base.lenc, h.base.lenp⟩
  eeq := fun h e he => (h.base.inv.extra e he).e_eq
  adv := fun h hs hnx hi hcomp hinc hnext => advance_tb hC hc hd h hs hnx hi hcomp hinc hnext
  scan := fun h hm hn hw =>
    scanner_tb hC hc h (h.base.inv.extra _ hm) (h.base.pthx _ hm) (h.rlx _ hm) hn hw
  pred := fun h hget he =>
    h.push hc he (predicted_ok hC h.base.inv hget _) (h.base.opth _ _ hget) (h.rlo _ _ hget)
      (Nat.zero_le _)
  bound := fun h j => h.acc_le j

/-- the invariant after the initial push -/
theorem tb_init {C : Ctx} (hC : CtxOK C) {vals : List String} {L : Nat}
    (hc : TC C vals L) {st0 : Store} {rk0 : Nat → Nat}
    (hw : WFS st0 rk0) (hlen : 2 ≤ st0.length)
    (hobjs : ∀ k p, C.G.prods[k]? = some p →
      p.feats < st0.length ∧ rk0 p.feats = 2 ∧ GoodObj C st0 k p.feats)
    (hgam : C.G.gammaFeats < st0.length ∧ rk0 C.G.gammaFeats = 2)
    (hsx : SX C.P st0 rk0) (hnv : C.featured = false → NoVal st0)
    (hcov : ∀ k p pr env, C.G.prods[k]? = some p → C.spec[k]? = some pr → C.okEnv k env →
      Cov C st0 p.feats k env)
    (hpth : ∀ k p, C.G.prods[k]? = some p → HasPaths C st0 p.feats k)
    (hgpth : HasPaths C st0 C.G.gammaFeats C.spec.length)
    (hrlo : ∀ (k : Nat) (p : FProd), C.G.prods[k]? = some p → RootLab st0 p.feats L)
    (hrlg : RootLab st0 C.G.gammaFeats L)
    :
    TB C vals L (pushIfNew C.G (Tables.mk st0 (List.replicate (C.word.length + 1) [])
      (List.replicate (C.word.length + 1) [])) 0
      { prod := C.G.prods.length, b := 0, e := 0, dot := 0, fs := C.G.gammaFeats }) rk0 [] := by
  have hT0 : Lem.Inv C (Tables.mk st0 (List.replicate (C.word.length + 1) [])
      (List.replicate (C.word.length + 1) [])) rk0 [] := by
    refine ⟨hw, hobjs, ?_, ?_, by simp⟩
    · intro i s hm; rw [colGet_replicate] at hm; simp at hm
    · intro i s hm; unfold procStates at hm; rw [colGet_replicate] at hm; simp at hm
  have hB0 : Base C (Tables.mk st0 (List.replicate (C.word.length + 1) [])
      (List.replicate (C.word.length + 1) [])) rk0 [] := by
    refine ⟨hT0, hsx, hnv, hcov, hpth, ?_, ?_, by simp, ?_, by simp, by simp⟩
    · intro i s hm; rw [colGet_replicate] at hm; simp at hm
    · intro i s hm; unfold procStates at hm; rw [colGet_replicate] at hm; simp at hm
    · intro j e he; rw [colGet_replicate] at he; simp at he
  have hTB0 : TB C vals L (Tables.mk st0 (List.replicate (C.word.length + 1) [])
      (List.replicate (C.word.length + 1) [])) rk0 [] := by
    refine ⟨hB0, hlen, ?_, ?_, by simp, hrlo, ?_, ?_, ?_⟩
    · intro i s hm; rw [colGet_replicate] at hm; simp at hm
    · intro i s hm; unfold procStates at hm; rw [colGet_replicate] at hm; simp at hm
    · intro j; rw [colGet_replicate]; simp
    · intro j e he; rw [colGet_replicate] at he; simp at he
    · intro j e he; rw [colGet_replicate] at he; simp at he
  have hfirst : StOK C st0 rk0 0
      { prod := C.G.prods.length, b := 0, e := 0, dot := 0, fs := C.G.gammaFeats } :=
    ⟨rfl, Nat.le_refl _, hgam.1, hgam.2, Nat.le_of_eq hC.prods_len, by
      intro pr hpr
      change C.spec[C.G.prods.length]? = some pr at hpr
      rw [hC.prods_len, List.getElem?_eq_none (Nat.le_refl _)] at hpr
      simp at hpr⟩
  exact hTB0.push hc (i := 0) (by omega) hfirst (by rw [hC.prods_len]; exact hgpth) hrlg
    (Nat.zero_le _)

/-- the recogniser answers within the fuel `colBound + 1` -/
theorem contains_total {C : Ctx} (hC : CtxOK C) {vals : List String} {L : Nat}
    (hc : TC C vals L) {st0 : Store} {rk0 : Nat → Nat}
    (hw : WFS st0 rk0) (hlen : 2 ≤ st0.length)
    (hobjs : ∀ k p, C.G.prods[k]? = some p →
      p.feats < st0.length ∧ rk0 p.feats = 2 ∧ GoodObj C st0 k p.feats)
    (hgam : C.G.gammaFeats < st0.length ∧ rk0 C.G.gammaFeats = 2)
    (hsx : SX C.P st0 rk0) (hnv : C.featured = false → NoVal st0)
    (hcov : ∀ k p pr env, C.G.prods[k]? = some p → C.spec[k]? = some pr → C.okEnv k env →
      Cov C st0 p.feats k env)
    (hpth : ∀ k p, C.G.prods[k]? = some p → HasPaths C st0 p.feats k)
    (hgpth : HasPaths C st0 C.G.gammaFeats C.spec.length)
    (hrlo : ∀ (k : Nat) (p : FProd), C.G.prods[k]? = some p → RootLab st0 p.feats L)
    (hrlg : RootLab st0 C.G.gammaFeats L)
    {d : String} (hd : C.P d) {fuel : Nat}
    (hfuel : colBound C.spec.length C.word.length L vals.length + 1 ≤ fuel) :
    (contains C.G st0 C.word fuel).isSome = true :=
  chain_contains (tb_chain hC hc hd)
    (tb_init hC hc hw hlen hobjs hgam hsx hnv hcov hpth hgpth hrlo hrlg) hfuel

end Term
end Earley
end Pfl
