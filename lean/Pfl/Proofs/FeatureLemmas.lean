/-
Helper lemmas for C18 (feature-structure unification): `lookup` in records with pairwise distinct
feature names, and the behaviour of `unifyFields` on such records expressed through `lookup`.
-/
import Pfl.Model.Feature
import Mathlib.Data.List.Basic

namespace Pfl.FS.Lem
open Pfl Pfl.FS

/-- the feature names of a record -/
abbrev names (fs : List (String × FS)) : List String := fs.map (·.1)

theorem lookup_eq_none_iff {f : String} {fs : List (String × FS)} :
    lookup f fs = none ↔ f ∉ names fs := by
  induction fs with
  | nil => simp [lookup]
  | cons e rest ih =>
    obtain ⟨g, x⟩ := e
    by_cases h : g = f
    · simp [lookup, h]
    · have h' : ¬ f = g := fun e => h e.symm
      simp [lookup, h, h', ih]

theorem lookup_some_mem {f : String} {fs : List (String × FS)} {x : FS} :
    lookup f fs = some x → (f, x) ∈ fs := by
  induction fs with
  | nil => simp [lookup]
  | cons e rest ih =>
    obtain ⟨g, y⟩ := e
    by_cases h : g = f
    · subst h; simp only [lookup, if_true]; intro hx; cases hx; exact List.mem_cons_self
    · simp only [lookup, h, if_false]; intro hx; exact List.mem_cons_of_mem _ (ih hx)

theorem mem_lookup {f : String} {fs : List (String × FS)} {x : FS} (hnd : (names fs).Nodup) :
    (f, x) ∈ fs → lookup f fs = some x := by
  induction fs with
  | nil => simp
  | cons e rest ih =>
    obtain ⟨g, y⟩ := e
    simp only [names, List.map_cons, List.nodup_cons] at hnd
    intro hm
    rcases List.mem_cons.1 hm with h | h
    · cases h; simp [lookup]
    · have hne : g ≠ f := by
        rintro rfl
        exact hnd.1 (List.mem_map.2 ⟨(g, x), h, rfl⟩)
      simp only [lookup, hne, if_false]
      exact ih hnd.2 h

theorem lookup_append_single (f g : String) (y : FS) (fs : List (String × FS)) :
    lookup f (fs ++ [(g, y)]) =
      match lookup f fs with
      | some x => some x
      | none => if g = f then some y else none := by
  induction fs with
  | nil => simp [lookup]
  | cons e rest ih =>
    obtain ⟨k, x⟩ := e
    by_cases h : k = f
    · simp [lookup, h]
    · simp [lookup, h, ih]

theorem lookup_map_upd (f g : String) (z : FS) (fs : List (String × FS)) :
    lookup f (fs.map fun e => if e.1 = g then (e.1, z) else e) =
      if g = f then (lookup f fs).map (fun _ => z) else lookup f fs := by
  induction fs with
  | nil => simp [lookup]
  | cons e rest ih =>
    obtain ⟨k, x⟩ := e
    by_cases hk : k = g
    · subst hk
      by_cases h : k = f
      · simp [lookup, h]
      · simp [lookup, h, ih]
    · by_cases h : k = f
      · subst h
        have : ¬ g = k := fun e => hk e.symm
        simp [lookup, hk, this]
      · simp only [List.map_cons, hk, if_false, lookup, h, ih]

theorem names_map_upd (g : String) (z : FS) (fs : List (String × FS)) :
    names (fs.map fun e => if e.1 = g then (e.1, z) else e) = names fs := by
  induction fs with
  | nil => rfl
  | cons e rest ih =>
    simp only [names, List.map_cons] at ih ⊢
    rw [ih]
    by_cases h : e.1 = g <;> simp [h]

theorem sizeOf_lookup {f : String} {fs : List (String × FS)} {x : FS} (h : lookup f fs = some x) :
    sizeOf x < sizeOf (FS.node fs) := by
  have hm := lookup_some_mem h
  have h1 := List.sizeOf_lt_of_mem hm
  have h2 : sizeOf (f, x) = 1 + sizeOf f + sizeOf x := rfl
  have h3 : sizeOf (FS.node fs) = 1 + sizeOf fs := FS.node.sizeOf_spec fs
  omega

/-- the value the merged record has at a feature, given the values of the two arguments -/
def mergeOpt : Option FS → Option FS → Option FS
  | some x, some y => unify x y
  | some x, none => some x
  | none, y => y

theorem unifyFields_spec (gs : List (String × FS)) :
    ∀ (fs hs : List (String × FS)), (names fs).Nodup → (names gs).Nodup →
      unifyFields fs gs = some hs →
      (names hs).Nodup ∧ ∀ f, lookup f hs = mergeOpt (lookup f fs) (lookup f gs) := by
  induction gs with
  | nil =>
    intro fs hs hfs _ h
    rw [unifyFields.eq_1] at h
    cases h
    refine ⟨hfs, fun f => ?_⟩
    cases hl : lookup f fs <;> simp [lookup, mergeOpt]
  | cons e rest ih =>
    obtain ⟨g, y⟩ := e
    intro fs hs hfs hgs h
    simp only [names, List.map_cons, List.nodup_cons] at hgs
    obtain ⟨hg, hrest⟩ := hgs
    have hgrest : lookup g rest = none := lookup_eq_none_iff.2 hg
    rw [unifyFields.eq_2] at h
    cases hl : lookup g fs with
    | none =>
      rw [hl] at h
      simp only at h
      have hgfs : g ∉ names fs := lookup_eq_none_iff.1 hl
      have hnd : (names (fs ++ [(g, y)])).Nodup := by
        simp only [names, List.map_append, List.map_cons, List.map_nil]
        rw [List.nodup_append]
        refine ⟨hfs, by simp, ?_⟩
        intro a ha b hb
        simp only [List.mem_singleton] at hb
        subst hb
        rintro rfl
        exact hgfs ha
      obtain ⟨h1, h2⟩ := ih _ _ hnd hrest h
      refine ⟨h1, fun f => ?_⟩
      rw [h2 f, lookup_append_single]
      by_cases hf : g = f
      · subst hf
        simp [hl, hgrest, lookup, mergeOpt]
      · cases hl' : lookup f fs <;> simp [lookup, hf, mergeOpt]
    | some x =>
      rw [hl] at h
      simp only at h
      cases hu : unify x y with
      | none => rw [hu] at h; simp at h
      | some z =>
        rw [hu] at h
        simp only at h
        have hnd : (names (fs.map fun e => if e.1 = g then (e.1, z) else e)).Nodup := by
          rw [names_map_upd]; exact hfs
        obtain ⟨h1, h2⟩ := ih _ _ hnd hrest h
        refine ⟨h1, fun f => ?_⟩
        rw [h2 f, lookup_map_upd]
        by_cases hf : g = f
        · subst hf
          simp [hl, hgrest, lookup, mergeOpt, hu]
        · simp [lookup, hf]

theorem unifyFields_none_iff (gs : List (String × FS)) :
    ∀ (fs : List (String × FS)), (names fs).Nodup → (names gs).Nodup →
      (unifyFields fs gs = none ↔
        ∃ g x y, lookup g fs = some x ∧ lookup g gs = some y ∧ unify x y = none) := by
  induction gs with
  | nil =>
    intro fs _ _
    rw [unifyFields.eq_1]
    simp [lookup]
  | cons e rest ih =>
    obtain ⟨g, y⟩ := e
    intro fs hfs hgs
    simp only [names, List.map_cons, List.nodup_cons] at hgs
    obtain ⟨hg, hrest⟩ := hgs
    have hgrest : lookup g rest = none := lookup_eq_none_iff.2 hg
    rw [unifyFields.eq_2]
    cases hl : lookup g fs with
    | none =>
      simp only
      have hgfs : g ∉ names fs := lookup_eq_none_iff.1 hl
      have hnd : (names (fs ++ [(g, y)])).Nodup := by
        simp only [names, List.map_append, List.map_cons, List.map_nil]
        rw [List.nodup_append]
        refine ⟨hfs, by simp, ?_⟩
        intro a ha b hb
        simp only [List.mem_singleton] at hb
        subst hb
        rintro rfl
        exact hgfs ha
      rw [ih _ hnd hrest]
      constructor
      · rintro ⟨k, x', y', h1, h2, h3⟩
        have hk : g ≠ k := by
          rintro rfl
          rw [hgrest] at h2; cases h2
        refine ⟨k, x', y', ?_, ?_, h3⟩
        · rw [lookup_append_single] at h1
          cases hl' : lookup k fs with
          | none => rw [hl'] at h1; simp [hk] at h1
          | some x'' => rw [hl'] at h1; simpa using h1
        · simp [lookup, hk, h2]
      · rintro ⟨k, x', y', h1, h2, h3⟩
        have hk : g ≠ k := by
          rintro rfl
          rw [hl] at h1; cases h1
        refine ⟨k, x', y', ?_, ?_, h3⟩
        · rw [lookup_append_single, h1]
        · simpa [lookup, hk] using h2
    | some x =>
      simp only
      cases hu : unify x y with
      | none =>
        simp only [true_iff]
        exact ⟨g, x, y, hl, by simp [lookup], hu⟩
      | some z =>
        simp only
        have hnd : (names (fs.map fun e => if e.1 = g then (e.1, z) else e)).Nodup := by
          rw [names_map_upd]; exact hfs
        rw [ih _ hnd hrest]
        constructor
        · rintro ⟨k, x', y', h1, h2, h3⟩
          have hk : g ≠ k := by
            rintro rfl
            rw [hgrest] at h2; cases h2
          refine ⟨k, x', y', ?_, ?_, h3⟩
          · rw [lookup_map_upd] at h1
            simpa [hk] using h1
          · simp [lookup, hk, h2]
        · rintro ⟨k, x', y', h1, h2, h3⟩
          have hk : g ≠ k := by
            rintro rfl
            rw [hl] at h1; cases h1
            simp only [lookup, if_true] at h2; cases h2
            rw [hu] at h3; cases h3
          refine ⟨k, x', y', ?_, ?_, h3⟩
          · rw [lookup_map_upd]; simpa [hk] using h1
          · simpa [lookup, hk] using h2

end Pfl.FS.Lem
