/-
Termination (fuel sufficiency) of the lock-step walk of `_is_equivalent_to_minimal`
(`ENFA.isoWalkLoop` / `ENFA.isoWalk`), of the language-difference oracle `ENFA.langDiff` and of
what is built on it (`sameRight`, `nerodeGroups`, `isReduced`).
-/
import Pfl.Proofs.Termination2FA
import Pfl.Proofs.FAIso
import Mathlib.Data.List.Sublists

namespace Pfl.Term2
open Pfl Pfl.ENFA

set_option linter.unusedSectionVars false
variable {σ τ : Type} [DecidableEq σ] [DecidableEq τ]

/-! ### (T5) the walk: a state of the first automaton is queued at most once -/

theorem find_none_not_mem (m : List (σ × τ)) (p : σ)
    (h : m.find? (fun x => x.1 = p) = none) : p ∉ m.map (·.1) := by
  intro hp
  obtain ⟨x, hx, rfl⟩ := List.mem_map.mp hp
  have := List.find?_eq_none.mp h x hx
  simp at this

theorem walkZip_count (U : List σ) (l : List ((Nat × σ) × (Nat × τ))) :
    ∀ (todo m todo' m' : List (σ × τ)), walkZip l todo m = some (todo', m') →
      (m.map (·.1)).Nodup → (∀ x ∈ m, x.1 ∈ U) → (∀ e ∈ l, e.1.2 ∈ U) →
      (m'.map (·.1)).Nodup ∧ (∀ x ∈ m', x.1 ∈ U) ∧
        todo'.length + m.length = todo.length + m'.length := by
  induction l with
  | nil =>
    intro todo m todo' m' h hnd hm _
    simp only [walkZip, Option.some.injEq, Prod.mk.injEq] at h
    obtain ⟨rfl, rfl⟩ := h
    exact ⟨hnd, hm, rfl⟩
  | cons e rest ih =>
    intro todo m todo' m' h hnd hm hl
    obtain ⟨⟨a, p⟩, ⟨b, q⟩⟩ := e
    have hl' : ∀ e ∈ rest, e.1.2 ∈ U := fun e he => hl e (List.mem_cons_of_mem _ he)
    simp only [walkZip] at h
    split at h
    · cases h
    · split at h
      · split at h
        · exact ih _ _ _ _ h hnd hm hl'
        · cases h
      · rename_i hfind
        have hp : p ∉ m.map (·.1) := find_none_not_mem m p hfind
        have hpU : p ∈ U := hl _ List.mem_cons_self
        obtain ⟨h1, h2, h3⟩ := ih _ _ _ _ h
          (by simpa using ⟨by simpa using hp, hnd⟩)
          (by
            intro x hx
            rcases List.mem_cons.mp hx with rfl | hx
            · exact hpU
            · exact hm x hx) hl'
        refine ⟨h1, h2, ?_⟩
        simp only [List.length_cons] at h3
        omega

theorem isoWalkLoop_isSome_of (M1 : ENFA σ) (M2 : ENFA τ) (U : List σ)
    (hU : ∀ t ∈ M1.delta, t.2.2 ∈ U) :
    ∀ fuel (todo m : List (σ × τ)), (m.map (·.1)).Nodup → (∀ x ∈ m, x.1 ∈ U) →
      todo.length + U.length < fuel + m.length + 1 → (isoWalkLoop M1 M2 fuel todo m).isSome := by
  intro fuel
  induction fuel with
  | zero =>
    intro todo m hnd hm hlt
    have hle : (m.map (·.1)).length ≤ U.length :=
      hnd.length_le_of_subset (by
        intro k hk; obtain ⟨x, hx, rfl⟩ := List.mem_map.mp hk; exact hm x hx)
    simp only [List.length_map] at hle
    cases todo with
    | nil => simp [isoWalkLoop]
    | cons a t => simp only [List.length_cons] at hlt; omega
  | succ fuel ih =>
    intro todo m hnd hm hlt
    cases todo with
    | nil => simp [isoWalkLoop]
    | cons pq todo =>
      obtain ⟨p, q⟩ := pq
      simp only [isoWalkLoop]
      split
      · rfl
      · split
        · rfl
        · split
          · rfl
          · rename_i todo' m' hw
            obtain ⟨h1, h2, h3⟩ := walkZip_count U _ _ _ _ _ hw hnd hm (by
              intro e he
              have h1 : e.1 ∈ M1.outEdges p := (List.of_mem_zip he).1
              have := (ENFA.mem_outEdges M1 p e.1.2 e.1.1).mp h1
              exact hU _ this)
            apply ih _ _ h1 h2
            simp only [List.length_cons] at hlt
            omega

/-- (T5) the walk of `_is_equivalent_to_minimal` answers within `|Q₁|` rounds -/
theorem isoWalk_isSome (M1 : ENFA σ) (M2 : ENFA τ) (h1 : M1.WF) (hs1 : M1.starts ≠ [])
    (hs2 : M2.starts ≠ []) (fuel : Nat) (hf : M1.states.length ≤ fuel) :
    (isoWalk M1 M2 fuel).isSome := by
  obtain ⟨s1, r1, e1⟩ := List.exists_cons_of_ne_nil hs1
  obtain ⟨s2, r2, e2⟩ := List.exists_cons_of_ne_nil hs2
  unfold isoWalk
  rw [e1, e2]
  simp only [List.head?_cons]
  apply isoWalkLoop_isSome_of M1 M2 M1.states h1.delta_dst
  · simp
  · intro x hx
    simp only [List.mem_singleton] at hx
    subst hx
    exact h1.starts_sub s1 (by rw [e1]; exact List.mem_cons_self)
  · simp only [List.length_cons, List.length_nil]; omega

/-- without a start state on either side there is nothing to walk -/
theorem isoWalk_none (M1 : ENFA σ) (M2 : ENFA τ) (fuel : Nat)
    (h : M1.starts = [] ∨ M2.starts = []) : isoWalk M1 M2 fuel = none := by
  unfold isoWalk
  rcases h with h | h
  · rw [h]; rfl
  · rw [h]; cases M1.starts.head? <;> rfl

/-! ### (T5) the language-difference oracle: the keys are pairs of sub-lists of the state lists -/

theorem canonS_mem_sublists (A : ENFA σ) (S : List σ) : A.canonS S ∈ A.states.sublists :=
  List.mem_sublists.mpr List.filter_sublist

theorem langDiff_isSome (A : ENFA σ) (B : ENFA τ) (fuel : Nat)
    (hf : 2 ^ A.states.length * 2 ^ B.states.length ≤ fuel) : (A.langDiff B fuel).isSome := by
  unfold langDiff
  simp only [Option.isSome_map]
  apply bfsK_isSome (·.1) (diffNext A B) (ENFA.prod A.states.sublists B.states.sublists)
  · intro x y hy
    unfold diffNext at hy
    obtain ⟨a, _, rfl⟩ := List.mem_map.mp hy
    exact (mem_prod _ _ _ _).mpr ⟨canonS_mem_sublists A _, canonS_mem_sublists B _⟩
  · simp
  · intro z hz
    simp only [List.mem_singleton] at hz
    subst hz
    exact (mem_prod _ _ _ _).mpr ⟨canonS_mem_sublists A _, canonS_mem_sublists B _⟩
  · rw [length_prod, List.length_sublists, List.length_sublists]
    simp only [List.length_cons, List.length_nil]
    omega

theorem sameRight_isSome (A : ENFA σ) (fuel : Nat) (hf : 4 ^ A.states.length ≤ fuel)
    (p q : Option σ) : (A.sameRight fuel p q).isSome := by
  unfold sameRight
  rw [Option.isSome_map]
  apply langDiff_isSome
  show 2 ^ A.states.length * 2 ^ A.states.length ≤ fuel
  rw [← Nat.mul_pow]
  exact hf

theorem insertGroup_isSome (A : ENFA σ) (fuel : Nat) (hf : 4 ^ A.states.length ≤ fuel)
    (x : Option σ) : ∀ gs, (A.insertGroup fuel x gs).isSome := by
  intro gs
  induction gs with
  | nil => rfl
  | cons g gs ih =>
    cases g with
    | nil =>
      simp only [insertGroup, Option.isSome_map]
      exact ih
    | cons r g =>
      simp only [insertGroup]
      obtain ⟨b, hb⟩ := Option.isSome_iff_exists.mp (sameRight_isSome A fuel hf r x)
      rw [hb]
      cases b with
      | true => rfl
      | false => simp only [Option.isSome_map]; exact ih

theorem foldlM_isSome {α β : Type} (f : β → α → Option β) (h : ∀ b a, (f b a).isSome) :
    ∀ (l : List α) (b : β), (l.foldlM f b).isSome := by
  intro l
  induction l with
  | nil => intro b; rfl
  | cons a l ih =>
    intro b
    obtain ⟨b', hb'⟩ := Option.isSome_iff_exists.mp (h b a)
    simp only [List.foldlM_cons, hb', Option.bind_eq_bind, Option.bind_some]
    exact ih b'

/-- (T5) the Nerode partition oracle answers with fuel `4 ^ |Q|` -/
theorem nerodeGroups_isSome (A : ENFA σ) (fuel : Nat) (hf : 4 ^ A.states.length ≤ fuel) :
    (A.nerodeGroups fuel).isSome := by
  unfold nerodeGroups
  exact foldlM_isSome _ (fun gs x => insertGroup_isSome A fuel hf x gs) _ _

/-- (T5) `isReduced` answers with fuel `4 ^ |Q|` -/
theorem isReduced_isSome (M : ENFA σ) (fuel : Nat) (hf : 4 ^ M.states.length ≤ fuel) :
    (M.isReduced fuel).isSome := by
  unfold isReduced
  simp only
  split
  · rfl
  · apply foldlM_isSome
    intro acc pq
    rw [Option.isSome_map]
    exact sameRight_isSome M fuel hf _ _

end Pfl.Term2
