/- Proofs for Pfl/Props/C19_PDAObject.lean (PDA object model). -/
import Pfl.Model.PDAObject
import Pfl.Proofs.PDAModes
import Pfl.Proofs.FAObject
import Mathlib.Data.List.Nodup
namespace Pfl
namespace PDAObj

/-- the shape of every table reachable through the API: unique keys, no outcome twice -/
def TInv (T : Table) : Prop := (T.map (·.1)).Nodup ∧ ∀ e ∈ T, e.2.Nodup

namespace P

/-! ### tables as association lists -/

theorem tabGet_eq (T : Table) (k : Key) : tabGet T k = FAObj.P.aget T k := rfl
theorem tabSet_eq (T : Table) (k : Key) (v : List Outcome) : tabSet T k v = FAObj.P.aset T k v := rfl

theorem tinv_nil : TInv [] := by
  constructor
  · simp
  · intro e he; simp at he

theorem edges_nil : edges [] = [] := rfl

theorem edges_cons (e : Key × List Outcome) (T : Table) :
    edges (e :: T) = (e.2.map fun out => (e.1.1, e.1.2.1, e.1.2.2, out.1, out.2)) ++ edges T := by
  simp [edges]

theorem mem_edges_iff (T : Table) (q : String) (a : Option String) (x q2 : String) (push : List String) :
    (q, a, x, q2, push) ∈ edges T ↔ ∃ outs, ((q, a, x), outs) ∈ T ∧ (q2, push) ∈ outs := by
  unfold edges
  simp only [List.mem_flatMap, List.mem_map, Prod.mk.injEq]
  constructor
  · rintro ⟨⟨⟨k1, k2, k3⟩, outs⟩, he, ⟨o1, o2⟩, ho, h1, h2, h3, h4, h5⟩
    simp only at h1 h2 h3 h4 h5
    subst h1 h2 h3 h4 h5
    exact ⟨outs, he, ho⟩
  · rintro ⟨outs, h1, h2⟩
    exact ⟨_, h1, _, h2, rfl, rfl, rfl, rfl, rfl⟩

theorem mem_edges_get {T : Table} (hi : TInv T) (q : String) (a : Option String) (x q2 : String)
    (push : List String) :
    (q, a, x, q2, push) ∈ edges T ↔ ∃ outs, tabGet T (q, a, x) = some outs ∧ (q2, push) ∈ outs := by
  rw [mem_edges_iff]
  simp only [tabGet_eq, FAObj.P.aget_eq_some_iff hi.1]

theorem addT_eq {T : Table} (hi : TInv T) (k : Key) (out : Outcome) :
    ∃ v, addT T k out = tabSet T k v ∧ v.Nodup ∧
      ∀ o, o ∈ v ↔ o = out ∨ ∃ outs, tabGet T k = some outs ∧ o ∈ outs := by
  unfold addT
  cases h : tabGet T k with
  | none => exact ⟨[out], rfl, by simp, by simp⟩
  | some outs =>
    have hn : outs.Nodup := hi.2 (k, outs) (FAObj.P.mem_of_aget h)
    by_cases ho : out ∈ outs
    · refine ⟨outs, by simp [ho], hn, ?_⟩
      intro o
      simp only [Option.some.injEq, exists_eq_left']
      constructor
      · exact Or.inr
      · rintro (rfl | h1)
        · exact ho
        · exact h1
    · refine ⟨outs ++ [out], by simp [ho], ?_, ?_⟩
      · rw [List.nodup_append]
        refine ⟨hn, by simp, ?_⟩
        intro a ha b hb
        simp only [List.mem_singleton] at hb
        subst hb; intro h2; subst h2; exact ho ha
      · intro o
        simp [or_comm]

theorem tinv_tabSet {T : Table} (hi : TInv T) (k : Key) {v : List Outcome} (hv : v.Nodup) :
    TInv (tabSet T k v) := by
  rw [tabSet_eq]
  refine ⟨FAObj.P.aset_keys_nodup k v hi.1, ?_⟩
  intro e he
  rcases FAObj.P.mem_aset he with rfl | h
  · exact hv
  · exact hi.2 e h

/-- adding a transition adds exactly that transition -/
theorem addT_spec {T : Table} (hi : TInv T) (k : Key) (out : Outcome) :
    TInv (addT T k out) ∧
      ∀ t, t ∈ edges (addT T k out) ↔ t = (k.1, k.2.1, k.2.2, out.1, out.2) ∨ t ∈ edges T := by
  obtain ⟨v, heq, hv, hm⟩ := addT_eq hi k out
  have hi' : TInv (addT T k out) := by rw [heq]; exact tinv_tabSet hi k hv
  refine ⟨hi', ?_⟩
  rintro ⟨q, a, x, q2, push⟩
  obtain ⟨k1, k2, k3⟩ := k
  obtain ⟨o1, o2⟩ := out
  rw [mem_edges_get hi', mem_edges_get hi, heq, tabSet_eq, tabGet_eq, FAObj.P.aget_aset]
  by_cases hk : ((q, a, x) : Key) = (k1, k2, k3)
  · rw [if_pos hk]
    simp only [Prod.mk.injEq] at hk
    obtain ⟨rfl, rfl, rfl⟩ := hk
    simp only [Option.some.injEq, exists_eq_left', hm, Prod.mk.injEq, true_and, tabGet_eq]
  · rw [if_neg hk]
    simp only [Prod.mk.injEq] at hk ⊢
    constructor
    · exact Or.inr
    · rintro (⟨h1, h2, h3, -⟩ | h)
      · exact absurd ⟨h1, h2, h3⟩ hk
      · exact h

theorem edges_nodup {T : Table} (hi : TInv T) : (edges T).Nodup := by
  unfold edges
  rw [List.nodup_flatMap]
  constructor
  · intro e he
    refine (hi.2 e he).map ?_
    intro x y hxy
    simp only [Prod.mk.injEq, true_and] at hxy
    exact Prod.ext hxy.1 hxy.2
  · have := hi.1
    rw [List.Nodup, List.pairwise_map] at this
    refine this.imp ?_
    intro e g hfg
    simp only [Function.onFun]
    rw [List.disjoint_left]
    intro t h1 h2
    simp only [List.mem_map] at h1 h2
    obtain ⟨r1, _, rfl⟩ := h1
    obtain ⟨r2, _, h3⟩ := h2
    simp only [Prod.mk.injEq] at h3
    exact hfg (Prod.ext h3.1.symm (Prod.ext h3.2.1.symm h3.2.2.1.symm))

theorem run_cons (o : Obj) (op : Op) (ops : List Op) : run o (op :: ops) = run (step o op) ops := rfl

/-- (1) after any history the transitions present are those the object had plus those added, nothing
repeated; the table keeps its shape -/
theorem run_edges (o : Obj) (ops : List Op) (hi : TInv o.trans) :
    TInv (run o ops).trans ∧ (edges (run o ops).trans).Nodup ∧
      ∀ t, t ∈ edges (run o ops).trans ↔ t ∈ edges o.trans ∨ t ∈ added ops := by
  induction ops generalizing o with
  | nil => exact ⟨hi, edges_nodup hi, by simp [run, added]⟩
  | cons op ops ih =>
    rw [run_cons]
    cases op with
    | addT q a x q2 push =>
      have hs := addT_spec hi (q, a, x) (q2, push)
      have hi' : TInv (step o (.addT q a x q2 push)).trans := hs.1
      obtain ⟨h1, h2, h3⟩ := ih _ hi'
      refine ⟨h1, h2, ?_⟩
      intro t
      rw [h3]
      have : (step o (.addT q a x q2 push)).trans = addT o.trans (q, a, x) (q2, push) := rfl
      rw [this, hs.2 t]
      simp only [added, List.mem_cons]
      tauto
    | setStart q => exact ih _ hi
    | setStartStack z => exact ih _ hi
    | addFinal q => exact ih _ hi

/-- (2) `get_number_transitions()` counts the transitions present -/
theorem numTransitions_eq (T : Table) : numTransitions T = (edges T).length := by
  induction T with
  | nil => rfl
  | cons e T ih =>
    rw [edges_cons, List.length_append, List.length_map, ← ih]
    simp [numTransitions]

theorem mem_ins {x y : String} {l : List String} : y ∈ ins x l ↔ y = x ∨ y ∈ l := by
  unfold ins
  by_cases h : x ∈ l
  · rw [if_pos h]
    constructor
    · exact Or.inr
    · rintro (rfl | h1)
      · exact h
      · exact h1
  · rw [if_neg h]; simp [or_comm]

theorem mem_insAll {xs l : List String} {y : String} : y ∈ insAll xs l ↔ y ∈ xs ∨ y ∈ l := by
  induction xs generalizing l with
  | nil => simp [insAll]
  | cons x xs ih =>
    have : insAll (x :: xs) l = insAll xs (ins x l) := rfl
    rw [this, ih, mem_ins]
    simp only [List.mem_cons]
    tauto

/-- (3) the object the constructor builds stands for a well-formed value -/
theorem mk_wf (states inputs stack : List String) (start startStack : Option String)
    (finals : List String) :
    (toPDA (mk states inputs stack start startStack finals)).WF ∧
      TInv (mk states inputs stack start startStack finals).trans := by
  refine ⟨⟨?_, ?_, ?_, ?_, ?_, ?_, ?_, ?_⟩, tinv_nil⟩
  · intro t ht; exact absurd ht (by simp [toPDA, mk, edges_nil])
  · intro t ht; exact absurd ht (by simp [toPDA, mk, edges_nil])
  · intro t ht; exact absurd ht (by simp [toPDA, mk, edges_nil])
  · intro t ht; exact absurd ht (by simp [toPDA, mk, edges_nil])
  · intro t ht; exact absurd ht (by simp [toPDA, mk, edges_nil])
  · intro s hs
    simp only [toPDA, mk] at hs ⊢
    subst hs
    simp [mem_insAll]
  · intro z hz
    simp only [toPDA, mk] at hz ⊢
    subst hz
    simp [mem_insAll]
  · intro f hf
    simp only [toPDA, mk] at hf ⊢
    rw [mem_insAll] at hf ⊢
    rcases hf with hf | hf
    · exact Or.inl hf
    · simp at hf

/-- a mutator call keeps well-formedness -/
theorem step_wf {o : Obj} (op : Op) (hi : TInv o.trans) (hwf : (toPDA o).WF) :
    (toPDA (step o op)).WF ∧ TInv (step o op).trans := by
  have h1 := hwf.src
  have h2 := hwf.dst
  have h3 := hwf.pop
  have h4 := hwf.push
  have h5 := hwf.inp
  have h6 := hwf.start
  have h7 := hwf.startStack
  have h8 := hwf.finals
  simp only [toPDA] at h1 h2 h3 h4 h5 h6 h7 h8
  cases op with
  | addT q a x q2 push =>
    have hs := addT_spec hi (q, a, x) (q2, push)
    refine ⟨⟨?_, ?_, ?_, ?_, ?_, ?_, ?_, ?_⟩, hs.1⟩
    · intro t ht
      simp only [toPDA, step] at ht ⊢
      rcases (hs.2 t).1 ht with rfl | h
      · simp [mem_ins]
      · simp [mem_ins, h1 t h]
    · intro t ht
      simp only [toPDA, step] at ht ⊢
      rcases (hs.2 t).1 ht with rfl | h
      · simp [mem_ins]
      · simp [mem_ins, h2 t h]
    · intro t ht
      simp only [toPDA, step] at ht ⊢
      rcases (hs.2 t).1 ht with rfl | h
      · simp [mem_ins, mem_insAll]
      · simp [mem_ins, mem_insAll, h3 t h]
    · intro t ht y hy
      simp only [toPDA, step] at ht hy ⊢
      rcases (hs.2 t).1 ht with rfl | h
      · simp only at hy; simp [mem_insAll, hy]
      · simp [mem_ins, mem_insAll, h4 t h y hy]
    · intro t ht c hc
      simp only [toPDA, step] at ht hc ⊢
      rcases (hs.2 t).1 ht with rfl | h
      · simp only at hc; subst hc; simp [mem_ins]
      · have := h5 t h c hc
        cases a with
        | none => exact this
        | some c' => simp [mem_ins, this]
    · intro s hs'
      simp only [toPDA, step] at hs' ⊢
      simp [mem_ins, h6 s hs']
    · intro z hz
      simp only [toPDA, step] at hz ⊢
      simp [mem_ins, mem_insAll, h7 z hz]
    · intro f hf
      simp only [toPDA, step] at hf ⊢
      simp [mem_ins, h8 f hf]
  | setStart q =>
    refine ⟨⟨?_, ?_, ?_, ?_, ?_, ?_, ?_, ?_⟩, hi⟩
    · intro t ht; simp only [toPDA, step] at ht ⊢; simp [mem_ins, h1 t ht]
    · intro t ht; simp only [toPDA, step] at ht ⊢; simp [mem_ins, h2 t ht]
    · intro t ht; exact h3 t ht
    · intro t ht; exact h4 t ht
    · intro t ht; exact h5 t ht
    · intro s hs; simp only [toPDA, step] at hs ⊢; simp only [Option.some.injEq] at hs; subst hs; simp [mem_ins]
    · intro z hz; exact h7 z hz
    · intro f hf; simp only [toPDA, step] at hf ⊢; simp [mem_ins, h8 f hf]
  | setStartStack z =>
    refine ⟨⟨?_, ?_, ?_, ?_, ?_, ?_, ?_, ?_⟩, hi⟩
    · intro t ht; exact h1 t ht
    · intro t ht; exact h2 t ht
    · intro t ht; simp only [toPDA, step] at ht ⊢; simp [mem_ins, h3 t ht]
    · intro t ht y hy; simp only [toPDA, step] at ht hy ⊢; simp [mem_ins, h4 t ht y hy]
    · intro t ht; exact h5 t ht
    · intro s hs; exact h6 s hs
    · intro z' hz; simp only [toPDA, step] at hz ⊢; simp only [Option.some.injEq] at hz; subst hz; simp [mem_ins]
    · intro f hf; exact h8 f hf
  | addFinal q =>
    refine ⟨⟨?_, ?_, ?_, ?_, ?_, ?_, ?_, ?_⟩, hi⟩
    · intro t ht; simp only [toPDA, step] at ht ⊢; simp [mem_ins, h1 t ht]
    · intro t ht; simp only [toPDA, step] at ht ⊢; simp [mem_ins, h2 t ht]
    · intro t ht; exact h3 t ht
    · intro t ht; exact h4 t ht
    · intro t ht; exact h5 t ht
    · intro s hs; simp only [toPDA, step] at hs ⊢; simp [mem_ins, h6 s hs]
    · intro z hz; exact h7 z hz
    · intro f hf
      simp only [toPDA, step] at hf ⊢
      rw [mem_ins] at hf ⊢
      rcases hf with hf | hf
      · exact Or.inl hf
      · exact Or.inr (h8 f hf)

/-- (4) everything the public API can build stands for a well-formed PDA — the hypothesis `WF` of the
conversion theorems of C13 and of the intersection theorem of C11 (since the repair of
`add_final_state`, which did not register the state) -/
theorem run_wf (o : Obj) (ops : List Op) (hi : TInv o.trans) (hwf : (toPDA o).WF) :
    (toPDA (run o ops)).WF ∧ TInv (run o ops).trans := by
  induction ops generalizing o with
  | nil => exact ⟨hwf, hi⟩
  | cons op ops ih =>
    rw [run_cons]
    obtain ⟨h1, h2⟩ := step_wf op hi hwf
    exact ih _ h2 h1

theorem foldOuts_spec (k : Key) (outs : List Outcome) {acc : Table} (hi : TInv acc) :
    TInv (outs.foldl (fun acc out => addT acc k out) acc) ∧
      ∀ t, t ∈ edges (outs.foldl (fun acc out => addT acc k out) acc) ↔
        t ∈ edges acc ∨ t ∈ outs.map fun out => (k.1, k.2.1, k.2.2, out.1, out.2) := by
  induction outs generalizing acc with
  | nil => exact ⟨hi, by simp⟩
  | cons out outs ih =>
    rw [List.foldl_cons]
    have hs := addT_spec hi k out
    obtain ⟨h1, h2⟩ := ih hs.1
    refine ⟨h1, ?_⟩
    intro t
    rw [h2, hs.2 t]
    simp only [List.map_cons, List.mem_cons]
    tauto

theorem foldT_spec (L : Table) {acc : Table} (hi : TInv acc) :
    TInv (L.foldl (fun acc e => e.2.foldl (fun acc out => addT acc e.1 out) acc) acc) ∧
      ∀ t, t ∈ edges (L.foldl (fun acc e => e.2.foldl (fun acc out => addT acc e.1 out) acc) acc) ↔
        t ∈ edges acc ∨ t ∈ edges L := by
  induction L generalizing acc with
  | nil => exact ⟨hi, by simp [edges_nil]⟩
  | cons e L ih =>
    rw [List.foldl_cons]
    have hs := foldOuts_spec e.1 e.2 hi
    obtain ⟨h1, h2⟩ := ih hs.1
    refine ⟨h1, ?_⟩
    intro t
    rw [h2, hs.2 t, edges_cons, List.mem_append]
    tauto

/-- (5) `TransitionFunction.copy()` (used by `to_empty_stack`, `to_final_state`, `intersection`) holds
exactly the same transitions -/
theorem copyT_spec {T : Table} (hi : TInv T) :
    TInv (copyT T) ∧ ∀ t, t ∈ edges (copyT T) ↔ t ∈ edges T := by
  have _ := hi
  obtain ⟨h1, h2⟩ := foldT_spec T tinv_nil
  refine ⟨h1, ?_⟩
  intro t
  unfold copyT
  rw [h2, edges_nil]
  simp

end P
end PDAObj
end Pfl
