/-
Helper lemmas for C09_Termination: the grammar left by the clean-up chain of `to_normal_form`
takes the fast path (or has no production), so the recursion stops after one step.
-/
import Pfl.Props.C09_CNF
import Pfl.Proofs.CFGWords
namespace Pfl
namespace CFG
namespace Term

/-! ### generic list facts -/

theorem length_eq_of_mem_iff {α : Type} [DecidableEq α] (l m : List α) (hl : l.Nodup) (hm : m.Nodup)
    (h : ∀ a, a ∈ l ↔ a ∈ m) : l.length = m.length :=
  Nat.le_antisymm (List.Nodup.length_le_of_subset hl fun a ha => (h a).mp ha)
    (List.Nodup.length_le_of_subset hm fun a ha => (h a).mpr ha)

theorem nodup_eraseDups (l : List String) : l.eraseDups.Nodup := Words.nodup_eraseDups_w l

/-- a worklist whose elements have no successor just empties itself -/
theorem bfsK_nil_next {α κ : Type} [DecidableEq κ] (key : α → κ) (next : α → List α) :
    ∀ fuel todo seen, (∀ x ∈ todo, next x = []) → todo.length ≤ fuel →
      bfsK key next fuel todo seen = some seen := by
  intro fuel
  induction fuel with
  | zero =>
    intro todo seen _ hl
    cases todo with
    | nil => simp [bfsK]
    | cons a t => simp at hl
  | succ n ih =>
    intro todo seen hn hl
    cases todo with
    | nil => simp [bfsK]
    | cons x todo =>
      simp only [bfsK]
      rw [hn x List.mem_cons_self]
      simp only [addNewK]
      exact ih _ _ (fun y hy => hn y (List.mem_cons_of_mem _ hy)) (by simp at hl; omega)

/-! ### `mk'` -/

theorem mk'_vars_nodup (vars ters : List String) (start : Option String) (prods : List Prod) :
    (mk' vars ters start prods).vars.Nodup := nodup_eraseDups _

theorem mk'_ters_nodup (vars ters : List String) (start : Option String) (prods : List Prod) :
    (mk' vars ters start prods).ters.Nodup := nodup_eraseDups _

theorem mem_mk'_vars (vars ters : List String) (start : Option String) (prods : List Prod)
    (v : String) (h : v ∈ (mk' vars ters start prods).vars) :
    v ∈ vars ∨ start = some v ∨ ∃ p ∈ prods, Sym.var v ∈ Sym.var p.1 :: p.2 := by
  simp only [mk', List.mem_eraseDups, List.mem_append, List.mem_flatMap] at h
  rcases h with (h | h) | ⟨p, hp, h⟩
  · exact Or.inl h
  · right; left
    cases start with
    | none => simp at h
    | some s => simp at h; rw [h]
  · right; right
    refine ⟨p, hp, ?_⟩
    rcases List.mem_cons.mp h with h | h
    · rw [h]; exact List.mem_cons_self
    · obtain ⟨s, hs, hv⟩ := List.mem_filterMap.mp h
      cases s with
      | ter t => simp at hv
      | var u => simp at hv; subst hv; exact List.mem_cons_of_mem _ hs

theorem mem_mk'_ters (vars ters : List String) (start : Option String) (prods : List Prod)
    (t : String) (h : t ∈ (mk' vars ters start prods).ters) :
    t ∈ ters ∨ ∃ p ∈ prods, Sym.ter t ∈ p.2 := by
  simp only [mk', List.mem_eraseDups, List.mem_append, List.mem_flatMap] at h
  rcases h with h | ⟨p, hp, h⟩
  · exact Or.inl h
  · right
    refine ⟨p, hp, ?_⟩
    obtain ⟨s, hs, hv⟩ := List.mem_filterMap.mp h
    cases s with
    | var u => simp at hv
    | ter u => simp at hv; subst hv; exact hs

/-! ### the four counts compared by `isFastPath` -/

/-- without ε-productions the saturation from the empty set adds nothing -/
theorem nullable_nil (G : CFG) (h : ∀ p ∈ G.prods, p.2 ≠ []) : G.nullable = [] := by
  have hstep : G.closeStep [] = [] := by
    rw [closeStep_eq]
    have : ∀ ps : List Prod, (∀ p ∈ ps, p.2 ≠ []) → ps.foldl stepF [] = [] := by
      intro ps
      induction ps with
      | nil => intro _; rfl
      | cons p ps ih =>
        intro hps
        have hp : stepF [] p = [] := by
          have hne := hps p List.mem_cons_self
          unfold stepF
          cases hb : p.2 with
          | nil => exact absurd hb hne
          | cons x r => simp
        rw [List.foldl_cons, hp]
        exact ih fun q hq => hps q (List.mem_cons_of_mem _ hq)
    exact this _ h
  unfold nullable
  exact iter_fix _ _ hstep _

/-- without unit productions the unit pairs are the reflexive ones -/
theorem unitPairs_length (G : CFG) (h : ∀ p ∈ G.prods, isUnit p = false) (hnd : G.vars.Nodup) :
    G.unitPairs.length = G.vars.length := by
  have hnext : ∀ x, Clean.unitNext G x = [] := by
    intro x
    have : G.unitTargets x.2 = [] := by
      rw [List.eq_nil_iff_forall_not_mem]
      intro c hc
      have hp := (Clean.mem_unitTargets G _ _).mp hc
      have := h _ hp
      simp [isUnit] at this
    simp [Clean.unitNext, this]
  rw [Clean.unitPairs_eq]
  unfold bfs
  rw [bfsK_nil_next id (Clean.unitNext G) _ _ _ (fun x _ => hnext x) (by
    simp only [List.length_map]; omega)]
  simp only [Option.getD_some]
  have h1 := @Clean.nodup_eraseDups _ instBEqOfDecidableEq _ (G.vars.map fun v => (v, v))
  have h2 : (G.vars.map fun v => (v, v)).Nodup :=
    List.Nodup.map (fun a b e => by simpa using congrArg Prod.fst e) hnd
  exact (length_eq_of_mem_iff _ _ h1 h2 fun a =>
    @List.mem_eraseDups _ instBEqOfDecidableEq _ _ _).trans (by simp)

theorem allSyms_nodup (G : CFG) (hv : G.vars.Nodup) (ht : G.ters.Nodup) : (Words.allSyms G).Nodup := by
  unfold Words.allSyms
  rw [List.nodup_append]
  refine ⟨List.Nodup.map (fun a b e => by cases e; rfl) hv,
    List.Nodup.map (fun a b e => by cases e; rfl) ht, ?_⟩
  intro a ha b hb
  obtain ⟨v, _, rfl⟩ := List.mem_map.mp ha
  obtain ⟨t, _, rfl⟩ := List.mem_map.mp hb
  intro e; cases e

theorem allSyms_length (G : CFG) : (Words.allSyms G).length = G.vars.length + G.ters.length := by
  simp [Words.allSyms]

/-- if every registered symbol is generating, the count compared by `isFastPath` agrees -/
theorem generating_length (G : CFG) (hG : G.WF) (hv : G.vars.Nodup) (ht : G.ters.Nodup)
    (h : ∀ s ∈ Words.allSyms G, s ∈ G.generating) :
    G.generating.length = G.vars.length + G.ters.length := by
  rw [← allSyms_length]
  exact length_eq_of_mem_iff _ _ (generating_nodup G ht) (allSyms_nodup G hv ht)
    fun a => ⟨fun ha => Words.generating_subset G hG ha, h a⟩

theorem reachable_length (G : CFG) (hG : G.WF) (hv : G.vars.Nodup) (ht : G.ters.Nodup)
    (h : ∀ s ∈ Words.allSyms G, s ∈ G.reachable) :
    G.reachable.length = G.vars.length + G.ters.length := by
  rw [← allSyms_length]
  exact length_eq_of_mem_iff _ _ (Words.reachable_nodup G) (allSyms_nodup G hv ht)
    fun a => ⟨fun ha => Words.reachable_subset G hG ha, h a⟩

/-- the fast-path test from its meaning -/
theorem isFastPath_of (G : CFG) (hG : G.WF) (hv : G.vars.Nodup) (ht : G.ters.Nodup)
    (hne : ∀ p ∈ G.prods, p.2 ≠ []) (hnu : ∀ p ∈ G.prods, isUnit p = false)
    (hgen : ∀ s ∈ Words.allSyms G, s ∈ G.generating)
    (hreach : ∀ s ∈ Words.allSyms G, s ∈ G.reachable) : G.isFastPath = true := by
  have h1 : G.nullable.length = 0 := by rw [nullable_nil G hne]; rfl
  have h2 := unitPairs_length G hnu hv
  have h3 : G.prods.any isUnit = false := by
    rw [List.any_eq_false]
    intro p hp; rw [hnu p hp]; simp
  have h4 := generating_length G hG hv ht hgen
  have h5 := reachable_length G hG hv ht hreach
  simp only [isFastPath, Bool.and_eq_true, decide_eq_true_eq, Bool.not_eq_true']
  exact ⟨⟨⟨⟨h1, h2⟩, h3⟩, h4⟩, h5⟩

/-! ### the result of `removeUseless` -/

theorem removeUseless_eq (G : CFG) : G.removeUseless =
    mk' ((G.vars.filter fun v => Sym.var v ∈ G.generating).filter fun v =>
          Sym.var v ∈ (Clean.usefulTmp G).reachable)
      ((G.ters.filter fun t => Sym.ter t ∈ G.generating).filter fun t =>
          Sym.ter t ∈ (Clean.usefulTmp G).reachable)
      G.start G.removeUseless.prods := rfl

theorem removeUseless_vars_nodup (G : CFG) : G.removeUseless.vars.Nodup := by
  rw [removeUseless_eq]; exact mk'_vars_nodup _ _ _ _

theorem removeUseless_ters_nodup (G : CFG) : G.removeUseless.ters.Nodup := by
  rw [removeUseless_eq]; exact mk'_ters_nodup _ _ _ _

theorem removeUseless_prods_sub (G : CFG) (p : Prod) (hp : p ∈ G.removeUseless.prods) :
    p ∈ G.prods :=
  ((Clean.mem_usefulTmp_prods G p).mp ((Clean.mem_removeUseless_prods G p).mp hp).1).1

/-- a symbol from which the walk of `reachable` starts is either the start symbol itself or the
start symbol heads a production -/
theorem reach_start_cases (G : CFG) (st : String) (z : Sym)
    (h : Reach G.rnext (Sym.var st) z) : z = Sym.var st ∨ ∃ body, (st, body) ∈ G.prods := by
  induction h with
  | refl => exact Or.inl rfl
  | @tail y z _ hz ih =>
    rcases ih with rfl | h
    · obtain ⟨v, body, hv, hp, _⟩ := (mem_rnext G _ _).mp hz
      cases hv
      exact Or.inr ⟨body, hp⟩
    · exact Or.inr h

/-- no start symbol, or a start symbol that is not generating: nothing survives -/
theorem removeUseless_prods_nil (G : CFG)
    (h : ∀ st, G.start = some st → Sym.var st ∉ G.generating) : G.removeUseless.prods = [] := by
  rw [List.eq_nil_iff_forall_not_mem]
  intro p hp
  obtain ⟨hp₁, hr⟩ := (Clean.mem_removeUseless_prods G p).mp hp
  obtain ⟨st, hst, hreach⟩ := Words.reachable_reach _ _ hr
  have hst' : G.start = some st := hst
  have hhead : ∃ body, (st, body) ∈ (Clean.usefulTmp G).prods := by
    rcases reach_start_cases _ st _ hreach with e | h'
    · cases e; exact ⟨p.2, hp₁⟩
    · exact h'
  obtain ⟨body, hb⟩ := hhead
  exact h st hst' ((Clean.mem_usefulTmp_prods G _).mp hb).2.1

/-- a generating symbol that the intermediate grammar reaches stays generating and reachable -/
theorem survives (G : CFG) (hG : G.WF) (v : String) (hg : Sym.var v ∈ G.generating)
    (hr : Sym.var v ∈ (Clean.usefulTmp G).reachable) :
    Sym.var v ∈ G.removeUseless.generating ∧ Sym.var v ∈ G.removeUseless.reachable := by
  constructor
  · rw [mem_generating_iff _ (Clean.removeUseless_wf G)]
    rcases (mem_generating_iff G hG _).mp hg with ⟨t, ht, _⟩ | ⟨v', w, hv, hgen⟩
    · cases ht
    · cases hv
      exact Or.inr ⟨v, w, rfl, Clean.gen_removeUseless (Clean.gen_usefulTmp hG hgen) hr⟩
  · exact Clean.reachable_restrict (G := Clean.usefulTmp G) (R := G.removeUseless) rfl
      (fun p hp h₁ => (Clean.mem_removeUseless_prods G p).mpr ⟨hp, h₁⟩) hr

theorem removeUseless_all (G : CFG) (hG : G.WF) (st : String) (hst : G.start = some st)
    (hsg : Sym.var st ∈ G.generating) :
    ∀ s ∈ Words.allSyms G.removeUseless,
      s ∈ G.removeUseless.generating ∧ s ∈ G.removeUseless.reachable := by
  intro s hs
  unfold Words.allSyms at hs
  rcases List.mem_append.mp hs with hs | hs
  · obtain ⟨v, hv, rfl⟩ := List.mem_map.mp hs
    rw [removeUseless_eq] at hv
    rcases mem_mk'_vars _ _ _ _ _ hv with h | h | ⟨p, hp, h⟩
    · simp only [List.mem_filter, decide_eq_true_eq] at h
      exact survives G hG v h.1.2 h.2
    · rw [hst] at h; cases h
      exact survives G hG st hsg (Clean.reachable_start (G := Clean.usefulTmp G) hst)
    · exact Clean.removeUseless_useful G hG p hp _ h
  · obtain ⟨t, ht, rfl⟩ := List.mem_map.mp hs
    refine ⟨(mem_generating_iff _ (Clean.removeUseless_wf G) _).mpr (Or.inl ⟨t, rfl, ht⟩), ?_⟩
    rw [removeUseless_eq] at ht
    rcases mem_mk'_ters _ _ _ _ _ ht with h | ⟨p, hp, h⟩
    · simp only [List.mem_filter, decide_eq_true_eq] at h
      exact Clean.reachable_restrict (G := Clean.usefulTmp G) (R := G.removeUseless) rfl
        (fun p hp h₁ => (Clean.mem_removeUseless_prods G p).mpr ⟨hp, h₁⟩) h.2
    · exact (Clean.removeUseless_useful G hG p hp _ (List.mem_cons_of_mem _ h)).2

/-- `removeUseless` of a well-formed grammar without ε- and unit productions passes the
fast-path test unless it has no production left -/
theorem removeUseless_fast (H : CFG) (hH : H.WF) (hne : ∀ p ∈ H.prods, p.2 ≠ [])
    (hnu : ∀ p ∈ H.prods, isUnit p = false) :
    H.removeUseless.isFastPath = true ∨ H.removeUseless.prods.length = 0 := by
  by_cases hs : ∃ st, H.start = some st ∧ Sym.var st ∈ H.generating
  · obtain ⟨st, hst, hsg⟩ := hs
    left
    have hall := removeUseless_all H hH st hst hsg
    exact isFastPath_of _ (Clean.removeUseless_wf H) (removeUseless_vars_nodup H)
      (removeUseless_ters_nodup H)
      (fun p hp => hne p (removeUseless_prods_sub H p hp))
      (fun p hp => hnu p (removeUseless_prods_sub H p hp))
      (fun s hs => (hall s hs).1) (fun s hs => (hall s hs).2)
  · right
    rw [removeUseless_prods_nil H fun st hst hg => hs ⟨st, hst, hg⟩]
    rfl

/-- the clean-up chain of `to_normal_form` -/
def cleaned (G : CFG) : CFG := G.removeUseless.removeEpsilon.removeUseless.elimUnit.removeUseless

theorem elimUnit_noEps (G : CFG) (h : ∀ p ∈ G.prods, p.2 ≠ []) : ∀ p ∈ G.elimUnit.prods, p.2 ≠ [] := by
  intro p hp
  rcases (Clean.mem_elimUnit_prods G p).mp hp with ⟨hp', _⟩ | ⟨b, _, hp', _⟩
  · exact h p hp'
  · exact h (b, p.2) hp'

theorem cleaned_fast (G : CFG) : (cleaned G).isFastPath = true ∨ (cleaned G).prods.length = 0 := by
  unfold cleaned
  refine removeUseless_fast _ (elimUnit_wf _) ?_ (Clean.elimUnit_noUnit _)
  apply elimUnit_noEps
  intro p hp
  exact Clean.removeEpsilon_noEps _ p (removeUseless_prods_sub _ p hp)

end Term
end CFG
end Pfl
