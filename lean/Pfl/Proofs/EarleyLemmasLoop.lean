/-
The invariant of the Earley recogniser (`Pfl/Model/Earley.lean`) and its preservation by
`procAdd`, `pushIfNew`, `predictor`, `scanner`, `completer`, `columnLoop` and `contains`.
Abstract over the instantiated target grammar (context `Ctx`).
-/
import Pfl.Proofs.EarleyLemmasSem
import Pfl.Proofs.EarleyLemmasCopy
import Pfl.Proofs.CFGBase
namespace Pfl
namespace Earley
namespace Lem
open FsDag FsDag.Lem

abbrev SpecT := List ((String × Feat) × List (Sym × Feat))
abbrev Env := List (String × String)

/-- name of an occurrence `x` with feature `f` under the environment `env` -/
def nmOf (vf : Env → String → String) (env : Env) (x : String) (f : Feat) : String :=
  match f with
  | none => x
  | some v => x ++ "_" ++ vf env v

def ibody (vf : Env → String → String) (env : Env) (body : List (Sym × Feat)) : List Sym :=
  body.map fun it => match it.1 with
    | .ter t => Sym.ter t
    | .var x => Sym.var (nmOf vf env x it.2)

/-- the segment `w[b..e)` -/
def seg (w : List String) (b e : Nat) : List String := (w.drop b).take (e - b)

theorem seg_self (w : List String) (b : Nat) : seg w b b = [] := by simp [seg]

theorem seg_append (w : List String) {b e e' : Nat} (h1 : b ≤ e) (h2 : e ≤ e') :
    seg w b e ++ seg w e e' = seg w b e' := by
  unfold seg
  have : w.drop e = (w.drop b).drop (e - b) := by rw [List.drop_drop]; congr 1; omega
  rw [this, show e' - b = (e - b) + (e' - e) by omega, List.take_add]

theorem seg_succ (w : List String) {b e : Nat} {t : String} (h1 : b ≤ e) (h : w[e]? = some t) :
    seg w b e ++ [t] = seg w b (e + 1) := by
  rw [← seg_append w h1 (Nat.le_succ e)]
  congr 1
  unfold seg
  rw [show e + 1 - e = 1 by omega]
  have he : e < w.length := by
    by_contra hc; rw [List.getElem?_eq_none (by omega)] at h; simp at h
  rw [List.getElem?_eq_getElem he] at h
  simp only [Option.some.injEq] at h
  rw [List.drop_eq_getElem_cons he, h]; simp

theorem seg_full (w : List String) : seg w 0 w.length = w := by simp [seg]

structure Ctx where
  spec : SpecT
  G : Grammar
  word : List String
  tgt : CFG
  vf : Env → String → String
  okEnv : Nat → Env → Prop
  P : String → Prop
  featured : Bool

structure CtxOK (C : Ctx) : Prop where
  prods_len : C.G.prods.length = C.spec.length
  prods_get : ∀ (k : Nat) (pr : (String × Feat) × List (Sym × Feat)), C.spec[k]? = some pr →
    ∃ p : FProd, C.G.prods[k]? = some p ∧ p.head = pr.1.1 ∧ p.body = pr.2.map (·.1)
  start_ne : C.G.start ≠ C.G.gammaName
  uniform : ∀ pr ∈ C.spec, pr.1.2.isSome = C.featured ∧
    ∀ it ∈ pr.2, ∀ X, it.1 = Sym.var X → it.2.isSome = C.featured
  noGamma : ∀ pr ∈ C.spec, ∀ it ∈ pr.2, it.1 ≠ Sym.var C.G.gammaName
  close : ∀ (k : Nat) (pr : (String × Feat) × List (Sym × Feat)) (env : Env) (u : List String),
    C.spec[k]? = some pr → C.okEnv k env →
    C.tgt.GenList (ibody C.vf env pr.2) u → C.tgt.Gen (.var (nmOf C.vf env pr.1.1 pr.1.2)) u

/-- the features read in `F` are those of the production `pr` instantiated by `env` -/
def Occ (C : Ctx) (st : Store) (σ : Nat → String) (F : Nat)
    (pr : (String × Feat) × List (Sym × Feat)) (env : Env) : Prop :=
  (∀ v, pr.1.2 = some v → rdv st σ F ["head", "n"] = some (C.vf env v)) ∧
  ∀ (j : Nat) (X v : String), pr.2[j]? = some (Sym.var X, some v) →
    rdv st σ F [toString j, "n"] = some (C.vf env v)

/-- the (never modified) features object of production `k` -/
def GoodObj (C : Ctx) (st : Store) (k : Nat) (F : Nat) : Prop :=
  ∀ pr, C.spec[k]? = some pr → ∀ σ, Resp C.P st σ → ∃ env, C.okEnv k env ∧ Occ C st σ F pr env

def GoodSt (C : Ctx) (st : Store) (s : EState) : Prop :=
  ∀ pr, C.spec[s.prod]? = some pr → s.dot ≤ pr.2.length ∧
    ∀ σ, Resp C.P st σ → ∃ env, C.okEnv s.prod env ∧ Occ C st σ s.fs pr env ∧
      C.tgt.GenList ((ibody C.vf env pr.2).take s.dot) (seg C.word s.b s.e)

structure StOK (C : Ctx) (st : Store) (rk : Nat → Nat) (i : Nat) (s : EState) : Prop where
  e_eq : s.e = i
  ble : s.b ≤ s.e
  fs_lt : s.fs < st.length
  rk2 : rk s.fs = 2
  prod_le : s.prod ≤ C.spec.length
  good : GoodSt C st s

def procStates (T : Tables) (i : Nat) : List EState := (colGet T.processed i).flatMap (·.2)

/-- the invariant, with a list `X` of additionally tracked states -/
structure Inv (C : Ctx) (T : Tables) (rk : Nat → Nat) (X : List (Nat × EState)) : Prop where
  wf : WFS T.store rk
  objs : ∀ k p, C.G.prods[k]? = some p →
    p.feats < T.store.length ∧ rk p.feats = 2 ∧ GoodObj C T.store k p.feats
  chart : ∀ i s, s ∈ colGet T.chart i → StOK C T.store rk i s
  proc : ∀ i s, s ∈ procStates T i → StOK C T.store rk i s
  extra : ∀ e ∈ X, StOK C T.store rk e.1 e.2

/-! ### transport along store changes -/

/-- the store `st'` is a later version of `st` -/
structure Step (P : String → Prop) (st : Store) (rk : Nat → Nat) (st' : Store) (rk' : Nat → Nat) :
    Prop where
  len : st.length ≤ st'.length
  rk : ∀ i, i < st.length → rk' i = rk i
  sim : ∀ F, F < st.length → Sim P st F st' F

theorem Step.refl (P : String → Prop) (st : Store) (rk : Nat → Nat) : Step P st rk st rk :=
  ⟨Nat.le_refl _, fun _ _ => rfl, fun F _ => Sim.refl P st F⟩

theorem Step.trans {P : String → Prop} {st st1 st2 : Store} {rk rk1 rk2 : Nat → Nat}
    (h1 : Step P st rk st1 rk1) (h2 : Step P st1 rk1 st2 rk2) : Step P st rk st2 rk2 :=
  ⟨Nat.le_trans h1.len h2.len,
   fun i hi => by rw [h2.rk i (Nat.lt_of_lt_of_le hi h1.len), h1.rk i hi],
   fun F hF => (h1.sim F hF).trans (h2.sim F (Nat.lt_of_lt_of_le hF h1.len))⟩

theorem Occ.sim {C : Ctx} {st st' : Store} {F F' : Nat} {σ σ' : Nat → String}
    {pr : (String × Feat) × List (Sym × Feat)} {env : Env}
    (h : ∀ p a, rdv st σ F p = some a → rdv st' σ' F' p = some a) (ho : Occ C st σ F pr env) :
    Occ C st' σ' F' pr env :=
  ⟨fun v hv => h _ _ (ho.1 v hv), fun j X v hj => h _ _ (ho.2 j X v hj)⟩

theorem GoodObj.step {C : Ctx} {st st' : Store} {k F : Nat} (hs : Sim C.P st F st' F)
    (h : GoodObj C st k F) : GoodObj C st' k F := by
  intro pr hpr σ' hσ'
  obtain ⟨σ, hσ, hp⟩ := hs σ' hσ'
  obtain ⟨env, he, ho⟩ := h pr hpr σ hσ
  exact ⟨env, he, ho.sim hp⟩

theorem GoodSt.step {C : Ctx} {st st' : Store} {s : EState} (hs : Sim C.P st s.fs st' s.fs)
    (h : GoodSt C st s) : GoodSt C st' s := by
  intro pr hpr
  obtain ⟨hd, h2⟩ := h pr hpr
  refine ⟨hd, fun σ' hσ' => ?_⟩
  obtain ⟨σ, hσ, hp⟩ := hs σ' hσ'
  obtain ⟨env, he, ho, hg⟩ := h2 σ hσ
  exact ⟨env, he, ho.sim hp, hg⟩

theorem StOK.step {C : Ctx} {st st' : Store} {rk rk' : Nat → Nat} {i : Nat} {s : EState}
    (hs : Step C.P st rk st' rk') (h : StOK C st rk i s) : StOK C st' rk' i s :=
  ⟨h.e_eq, h.ble, Nat.lt_of_lt_of_le h.fs_lt hs.len, by rw [hs.rk _ h.fs_lt]; exact h.rk2,
    h.prod_le, h.good.step (hs.sim _ h.fs_lt)⟩

theorem Inv.step {C : Ctx} {T : Tables} {rk rk' : Nat → Nat} {X : List (Nat × EState)}
    {st' : Store} (hs : Step C.P T.store rk st' rk') (hw : WFS st' rk') (h : Inv C T rk X) :
    Inv C { T with store := st' } rk' X :=
  ⟨hw,
   fun k p hp => by
     obtain ⟨h1, h2, h3⟩ := h.objs k p hp
     exact ⟨Nat.lt_of_lt_of_le h1 hs.len, by rw [hs.rk _ h1]; exact h2, h3.step (hs.sim _ h1)⟩,
   fun i s hm => (h.chart i s hm).step hs,
   fun i s hm => (h.proc i s hm).step hs,
   fun e he => (h.extra e he).step hs⟩

/-! ### the tables -/

theorem mem_colGet_set {α : Type} {l : List (List α)} {i j : Nat} {x : List α} {a : α}
    (h : a ∈ colGet (l.set i x) j) : (j = i ∧ a ∈ x) ∨ a ∈ colGet l j := by
  unfold colGet at h ⊢
  rw [List.getD_eq_getElem?_getD, List.getElem?_set] at h
  rw [List.getD_eq_getElem?_getD]
  by_cases hij : i = j
  · subst hij
    rw [if_pos rfl] at h
    by_cases hl : i < l.length
    · rw [if_pos hl] at h; exact Or.inl ⟨rfl, by simpa using h⟩
    · rw [if_neg hl] at h; simp at h
  · rw [if_neg hij] at h; exact Or.inr h

theorem Inv.mono {C : Ctx} {T T' : Tables} {rk : Nat → Nat} {X : List (Nat × EState)}
    (h : Inv C T rk X) (hst : T'.store = T.store)
    (hc : ∀ j s', s' ∈ colGet T'.chart j → s' ∈ colGet T.chart j ∨ StOK C T.store rk j s')
    (hp : ∀ j s', s' ∈ procStates T' j → s' ∈ procStates T j ∨ StOK C T.store rk j s') :
    Inv C T' rk X := by
  refine ⟨by rw [hst]; exact h.wf, by rw [hst]; exact h.objs, ?_, ?_, by rw [hst]; exact h.extra⟩
  · intro j s' hm
    rw [hst]
    rcases hc j s' hm with h1 | h1
    · exact h.chart j s' h1
    · exact h1
  · intro j s' hm
    rw [hst]
    rcases hp j s' hm with h1 | h1
    · exact h.proc j s' h1
    · exact h1

theorem procAdd_eq (G : Grammar) (T : Tables) (i : Nat) (s : EState) :
    ∃ d', (procAdd G T i s).1 = { T with processed := T.processed.set i d' } ∧
      ∀ s' ∈ d'.flatMap (·.2), s' = s ∨ s' ∈ (colGet T.processed i).flatMap (·.2) := by
  unfold procAdd
  simp only
  split_ifs with h1 h2 h3
  · exact ⟨_, rfl, fun s' h => Or.inr h⟩
  · refine ⟨_, rfl, fun s' h => ?_⟩
    simp only [List.flatMap_append, List.mem_append] at h
    rcases h with h | h
    · exact Or.inr h
    · simp at h
  · refine ⟨_, rfl, fun s' h => ?_⟩
    rw [List.mem_flatMap] at h
    obtain ⟨e, he, hs⟩ := h
    rw [List.mem_map] at he
    obtain ⟨e0, he0, rfl⟩ := he
    split at hs
    · simp only [List.mem_append, List.mem_singleton] at hs
      rcases hs with hs | hs
      · exact Or.inr (List.mem_flatMap.2 ⟨e0, he0, hs⟩)
      · exact Or.inl hs
    · exact Or.inr (List.mem_flatMap.2 ⟨e0, he0, hs⟩)
  · refine ⟨_, rfl, fun s' h => ?_⟩
    simp only [List.flatMap_append, List.mem_append] at h
    rcases h with h | h
    · exact Or.inr h
    · simp at h; exact Or.inl h

theorem procAdd_store (G : Grammar) (T : Tables) (i : Nat) (s : EState) :
    (procAdd G T i s).1.store = T.store ∧ (procAdd G T i s).1.chart = T.chart := by
  obtain ⟨d', h, _⟩ := procAdd_eq G T i s
  rw [h]; exact ⟨rfl, rfl⟩

theorem procAdd_states (G : Grammar) (T : Tables) (i : Nat) (s : EState) (j : Nat) (s' : EState)
    (h : s' ∈ procStates (procAdd G T i s).1 j) : (j = i ∧ s' = s) ∨ s' ∈ procStates T j := by
  obtain ⟨d', hd, hd'⟩ := procAdd_eq G T i s
  rw [hd] at h
  unfold procStates at h ⊢
  rw [List.mem_flatMap] at h
  obtain ⟨e, he, hs⟩ := h
  rcases mem_colGet_set he with ⟨rfl, he2⟩ | he2
  · rcases hd' s' (List.mem_flatMap.2 ⟨e, he2, hs⟩) with h1 | h1
    · exact Or.inl ⟨rfl, h1⟩
    · exact Or.inr h1
  · exact Or.inr (List.mem_flatMap.2 ⟨e, he2, hs⟩)

theorem pushIfNew_store (G : Grammar) (T : Tables) (i : Nat) (s : EState) :
    (pushIfNew G T i s).store = T.store := by
  unfold pushIfNew
  simp only
  split <;> simp [(procAdd_store G T i s).1]

theorem Inv.pushIfNew {C : Ctx} {T : Tables} {rk : Nat → Nat} {X : List (Nat × EState)}
    (h : Inv C T rk X) {i : Nat} {s : EState} (hs : StOK C T.store rk i s) :
    Inv C (pushIfNew C.G T i s) rk X := by
  refine h.mono (pushIfNew_store C.G T i s) ?_ ?_
  · intro j s' hm
    unfold Pfl.Earley.pushIfNew at hm
    simp only at hm
    split at hm
    · simp only [(procAdd_store C.G T i s).2] at hm
      rcases mem_colGet_set hm with ⟨rfl, h2⟩ | h2
      · rcases List.mem_append.1 h2 with h3 | h3
        · exact Or.inl h3
        · simp only [List.mem_singleton] at h3; subst h3; exact Or.inr hs
      · exact Or.inl h2
    · rw [(procAdd_store C.G T i s).2] at hm; exact Or.inl hm
  · intro j s' hm
    have : s' ∈ procStates (procAdd C.G T i s).1 j := by
      unfold Pfl.Earley.pushIfNew at hm
      simp only at hm
      split at hm
      · exact hm
      · exact hm
    rcases procAdd_states C.G T i s j s' this with ⟨rfl, rfl⟩ | h2
    · exact Or.inr hs
    · exact Or.inl h2

/-! ### productions -/

theorem prodOf_spec {C : Ctx} (hC : CtxOK C) {k : Nat} {pr : (String × Feat) × List (Sym × Feat)}
    (h : C.spec[k]? = some pr) :
    (prodOf C.G k).head = pr.1.1 ∧ (prodOf C.G k).body = pr.2.map (·.1) ∧
      C.G.prods[k]? = some (prodOf C.G k) := by
  obtain ⟨p, hp, h1, h2⟩ := hC.prods_get k pr h
  have : prodOf C.G k = p := by
    unfold prodOf; rw [List.getD_eq_getElem?_getD, hp]; rfl
  rw [this]; exact ⟨h1, h2, hp⟩

theorem prodOf_gamma {C : Ctx} (hC : CtxOK C) {k : Nat} (h : C.spec[k]? = none) :
    prodOf C.G k = { head := C.G.gammaName, body := [.var C.G.start], feats := C.G.gammaFeats } := by
  have : C.G.prods[k]? = none := by
    rw [List.getElem?_eq_none_iff] at h ⊢; rw [hC.prods_len]; exact h
  unfold prodOf; rw [List.getD_eq_getElem?_getD, this]; rfl

theorem mem_zip_range {α : Type} {l : List α} {a : α} {k : Nat}
    (h : (a, k) ∈ l.zip (List.range l.length)) : l[k]? = some a := by
  obtain ⟨n, hn⟩ := List.mem_iff_getElem?.1 h
  rw [List.getElem?_zip_eq_some] at hn
  obtain ⟨h1, h2⟩ := hn
  have hn : n < l.length := (List.getElem?_eq_some_iff.1 h1).1
  rw [List.getElem?_range hn] at h2
  simp only [Option.some.injEq] at h2
  subst h2; exact h1

theorem ibody_take_succ (vf : Env → String → String) (env : Env) (body : List (Sym × Feat))
    (d : Nat) (it : Sym × Feat) (h : body[d]? = some it) :
    (ibody vf env body).take (d + 1) = (ibody vf env body).take d ++
      [match it.1 with
        | .ter t => Sym.ter t
        | .var x => Sym.var (nmOf vf env x it.2)] := by
  rw [List.take_add_one]
  congr 1
  unfold ibody
  rw [List.getElem?_map, h]; rfl

/-! ### scanner -/

theorem Inv.scanner {C : Ctx} (hC : CtxOK C) {T : Tables} {rk : Nat → Nat}
    {X : List (Nat × EState)} (h : Inv C T rk X) {i : Nat} {s : EState}
    (hs : StOK C T.store rk i s) {t : String} (hn : nextSym C.G s = some (.ter t))
    (hw : C.word[i]? = some t) : Inv C (scanner C.G T s) rk X := by
  unfold Pfl.Earley.scanner
  refine h.pushIfNew ⟨rfl, Nat.le_succ_of_le hs.ble, hs.fs_lt, hs.rk2, hs.prod_le, ?_⟩
  intro pr hpr
  obtain ⟨hd, hg⟩ := hs.good pr hpr
  obtain ⟨_, hb, _⟩ := prodOf_spec hC hpr
  unfold nextSym at hn
  rw [hb, List.getElem?_map] at hn
  simp only [Option.map_eq_some_iff] at hn
  obtain ⟨it, hit, hit1⟩ := hn
  have hlt : s.dot < pr.2.length := (List.getElem?_eq_some_iff.1 hit).1
  refine ⟨hlt, fun σ hσ => ?_⟩
  obtain ⟨env, he, ho, hgl⟩ := hg σ hσ
  refine ⟨env, he, ho, ?_⟩
  show C.tgt.GenList ((ibody C.vf env pr.2).take (s.dot + 1)) (seg C.word s.b (s.e + 1))
  rw [ibody_take_succ C.vf env pr.2 s.dot it hit, hit1]
  have hwe : C.word[s.e]? = some t := by rw [hs.e_eq]; exact hw
  rw [← seg_succ C.word hs.ble hwe]
  exact CFG.genList_append hgl (CFG.GenList.cons (.ter t) .nil)

/-! ### completer: the semantic core -/

theorem nmOf_congr {vf : Env → String → String} {ea eb : Env} {x : String} {f f' : Feat} {b : Bool}
    (h1 : f.isSome = b) (h2 : f'.isSome = b)
    (h : ∀ v v', f = some v → f' = some v' → vf ea v = vf eb v') :
    nmOf vf ea x f = nmOf vf eb x f' := by
  cases f with
  | none =>
    cases f' with
    | none => rfl
    | some v' => simp at h1 h2; rw [h1] at h2; simp at h2
  | some v =>
    cases f' with
    | none => simp at h1 h2; rw [h1] at h2; simp at h2
    | some v' => simp only [nmOf]; rw [h v v' rfl rfl]

theorem compl_good {C : Ctx} (hC : CtxOK C) {st st3 : Store} {rk rk3 : Nat → Nat} {s nx : EState}
    {cl cr i : Nat} (hs : StOK C st rk i s) (hnx : StOK C st rk s.b nx)
    (hcomp : incomplete C.G s = false) (hinc : incomplete C.G nx = true)
    (hnext : nextSym C.G nx = some (.var (prodOf C.G s.prod).head))
    (simA : Sim C.P st nx.fs st3 cr) (simB : Sim C.P st s.fs st3 cl)
    (hlink : byPath st3 cr [toString nx.dot, "n"] = byPath st3 cl ["head", "n"])
    (hcr : cr < st3.length) (hrk : rk3 cr = 2) :
    StOK C st3 rk3 s.e { prod := nx.prod, b := nx.b, e := s.e, dot := nx.dot + 1, fs := cr } := by
  have hbe : nx.e = s.b := hnx.e_eq
  refine ⟨rfl, ?_, hcr, hrk, hnx.prod_le, ?_⟩
  · show nx.b ≤ s.e
    have := hnx.ble; have := hs.ble; omega
  intro pr hpr
  change C.spec[nx.prod]? = some pr at hpr
  obtain ⟨hdnx, hgnx⟩ := hnx.good pr hpr
  obtain ⟨_, hbody, _⟩ := prodOf_spec hC hpr
  have hlt : nx.dot < pr.2.length := by
    unfold incomplete at hinc
    rw [hbody] at hinc
    simpa using hinc
  unfold nextSym at hnext
  rw [hbody, List.getElem?_map] at hnext
  simp only [Option.map_eq_some_iff] at hnext
  obtain ⟨it, hit, hit1⟩ := hnext
  have hprmem : pr ∈ C.spec := List.mem_of_getElem? hpr
  have hitmem : it ∈ pr.2 := List.mem_of_getElem? hit
  have hng : (prodOf C.G s.prod).head ≠ C.G.gammaName := by
    intro e
    exact hC.noGamma pr hprmem it hitmem (by rw [hit1, e])
  cases hsp : C.spec[s.prod]? with
  | none => rw [prodOf_gamma hC hsp] at hng; exact absurd rfl hng
  | some prs =>
    obtain ⟨hhead, hbodys, _⟩ := prodOf_spec hC hsp
    obtain ⟨hds, hgs⟩ := hs.good prs hsp
    have hdeq : prs.2.length ≤ s.dot := by
      unfold incomplete at hcomp
      rw [hbodys] at hcomp
      simpa using hcomp
    refine ⟨hlt, fun σ3 hσ3 => ?_⟩
    obtain ⟨σa, hσa, hpa⟩ := simA σ3 hσ3
    obtain ⟨enva, hea, hoa, hga⟩ := hgnx σa hσa
    obtain ⟨σb, hσb, hpb⟩ := simB σ3 hσ3
    obtain ⟨envb, heb, hob, hgb⟩ := hgs σb hσb
    have hoa3 := hoa.sim hpa
    have hob3 := hob.sim hpb
    refine ⟨enva, hea, hoa3, ?_⟩
    show C.tgt.GenList ((ibody C.vf enva pr.2).take (nx.dot + 1)) (seg C.word nx.b s.e)
    rw [ibody_take_succ C.vf enva pr.2 nx.dot it hit, hit1]
    rw [← seg_append C.word (b := nx.b) (e := s.b) (e' := s.e) (by rw [← hbe]; exact hnx.ble) hs.ble]
    rw [hbe] at hga
    refine CFG.genList_append hga ?_
    rw [← List.append_nil (seg C.word s.b s.e)]
    refine CFG.GenList.cons ?_ .nil
    have hfull : (ibody C.vf envb prs.2).take s.dot = ibody C.vf envb prs.2 := by
      apply List.take_of_length_le
      unfold ibody; rw [List.length_map]; exact hdeq
    rw [hfull] at hgb
    have hgen := hC.close s.prod prs envb _ hsp heb hgb
    have hname : nmOf C.vf enva (prodOf C.G s.prod).head it.2 =
        nmOf C.vf envb prs.1.1 prs.1.2 := by
      rw [hhead]
      have hprsmem : prs ∈ C.spec := List.mem_of_getElem? hsp
      refine nmOf_congr ((hC.uniform pr hprmem).2 it hitmem _ hit1) (hC.uniform prs hprsmem).1 ?_
      intro v v' hv hv'
      have e1 := hoa3.2 nx.dot (prodOf C.G s.prod).head v (by
        rw [hit]; congr 1; exact Prod.ext hit1 hv)
      have e2 := hob3.1 v' hv'
      unfold rdv at e1 e2
      rw [hlink, e2] at e1
      simpa using e1.symm
    show C.tgt.Gen (Sym.var (nmOf C.vf enva (prodOf C.G s.prod).head it.2)) _
    rw [hname]; exact hgen

/-! ### completer: the store steps -/

theorem wfs_copy (P : String → Prop) {st : Store} {rk : Nat → Nat} {F : Nat} (hw : WFS st rk)
    (hF : F < st.length) :
    ∃ rk1, WFS (copy st F).1 rk1 ∧ Step P st rk (copy st F).1 rk1 ∧
      (copy st F).2 < (copy st F).1.length ∧ rk1 (copy st F).2 = rk F ∧
      Sim P st F (copy st F).1 (copy st F).2 ∧ ∃ e, (copy st F).1 = st ++ e := by
  obtain ⟨h, hh⟩ := id hw.inv.acyc
  obtain ⟨κ, dom, π, hc⟩ := copy_spec (F := F) hw.rng hw.inv.acyc hF
    (fun a b => rk a < rk b ∨ (rk a = rk b ∧ h a < h b))
    (fun a ha => by rcases ha with ha | ⟨_, ha⟩ <;> omega)
    (fun a b c h1 h2 => by
      rcases h1 with h1 | ⟨h1, h1'⟩ <;> rcases h2 with h2 | ⟨h2, h2'⟩
      · left; omega
      · left; omega
      · left; omega
      · right; exact ⟨by omega, by omega⟩)
    (fun i j hp => Or.inr ⟨(hw.inv.rkp i j hp).symm, hh i j hp⟩)
    (fun i g x hx => by
      obtain ⟨h1, h2⟩ := hw.inv.rkc i g x hx
      unfold crE at h1
      left; omega)
  obtain ⟨rk1, hw1, hrk, hlen, hF', hrkF, hsim, hsimold⟩ := copy_step P hw hc
  exact ⟨rk1, hw1, ⟨hlen, hrk, hsimold⟩, hF', hrkF, hsim, hc.ext⟩

theorem rk_child {st : Store} {rk : Nat → Nat} (hw : WFS st rk) {F x : Nat} {g : String}
    (h : byPath st F [g] = some x) : rk x + 1 = rk F := by
  rw [byPath_cons] at h
  cases hl : lookupC g (cont st (deref st F)) with
  | none => rw [hl] at h; simp at h
  | some y =>
    rw [hl] at h
    simp only [byPath_nil, Option.some.injEq] at h; subst h
    obtain ⟨h1, h2⟩ := hw.inv.rkc _ g y (lookupC_mem hl)
    rw [rkR_deref hw.inv] at h1 h2
    unfold crE at h1
    omega

/-- `advance` preserves the invariant: `s` is a complete state, `nx` a state waiting at the
beginning of `s` for the head of `s` -/
theorem Inv.advance {C : Ctx} (hC : CtxOK C) {T : Tables} {rk : Nat → Nat}
    {X : List (Nat × EState)} (h : Inv C T rk X) {i : Nat} {s nx : EState} (hs : (i, s) ∈ X)
    (hnx : (s.b, nx) ∈ X) (hcomp : incomplete C.G s = false) (hinc : incomplete C.G nx = true)
    (hnext : nextSym C.G nx = some (.var (prodOf C.G s.prod).head)) :
    ∃ rk', Inv C (Pfl.Earley.advance C.G T nx s) rk' X := by
  unfold Pfl.Earley.advance
  have hsOK := h.extra _ hs
  have hnxOK := h.extra _ hnx
  -- first copy
  obtain ⟨rk1, hw1, hstep1, hcl, hrkcl, hsimcl, e1, he1⟩ := wfs_copy C.P h.wf hsOK.fs_lt
  generalize hcp1 : copy T.store s.fs = r1 at *
  obtain ⟨st1, cl⟩ := r1
  simp only at hw1 hstep1 hcl hrkcl hsimcl he1 ⊢
  cases hleft : byPath st1 cl ["head"] with
  | none => exact ⟨rk1, h.step hstep1 hw1⟩
  | some left =>
    simp only
    have hleftlt : left < st1.length := byPath_lt hw1.rng _ _ _ hcl hleft
    have hrkleft : rk1 left + 1 = 2 := by rw [rk_child hw1 hleft, hrkcl]; exact hsOK.rk2
    -- second copy
    have hnxlt1 : nx.fs < st1.length := Nat.lt_of_lt_of_le hnxOK.fs_lt hstep1.len
    obtain ⟨rk2, hw2, hstep2, hcr, hrkcr, hsimcr, e2, he2⟩ := wfs_copy C.P hw1 hnxlt1
    generalize hcp2 : copy st1 nx.fs = r2 at *
    obtain ⟨st2, cr⟩ := r2
    simp only at hw2 hstep2 hcr hrkcr hsimcr he2 ⊢
    have hstep12 := hstep1.trans hstep2
    cases hcons : byPath st2 cr [toString nx.dot] with
    | none => exact ⟨rk2, h.step hstep12 hw2⟩
    | some considered =>
      simp only
      have hconslt : considered < st2.length := byPath_lt hw2.rng _ _ _ hcr hcons
      have hrkcr2 : rk2 cr = 2 := by
        rw [hrkcr, hstep1.rk _ hnxOK.fs_lt]; exact hnxOK.rk2
      have hrkcons : rk2 considered + 1 = 2 := by rw [rk_child hw2 hcons, hrkcr2]
      have hleftlt2 : left < st2.length := Nat.lt_of_lt_of_le hleftlt hstep2.len
      have hrkleft2 : rk2 left = rk1 left := hstep2.rk _ hleftlt
      cases hun : unify (st2.length + 2) st2 considered left with
      | ok st3 =>
        simp only
        obtain ⟨rk3, hw3, hlen3, hrk3, hder, hpp, hsim3⟩ :=
          unify_step C.P hw2 hconslt hleftlt2 (by omega) hun
        have hstep3 : Step C.P st2 rk2 st3 rk3 := ⟨hlen3, hrk3, hsim3⟩
        have hstepAll := hstep12.trans hstep3
        have hInv3 := h.step hstepAll hw3
        refine ⟨rk3, hInv3.pushIfNew ?_⟩
        show StOK C st3 rk3 s.e _
        have hleft2 : byPath st2 cl ["head"] = some left := by
          rw [he2, byPath_append_store e2 hw1.inv.acyc hw1.rng _ hcl]; exact hleft
        have hcl2 : cl < st2.length := Nat.lt_of_lt_of_le hcl hstep2.len
        obtain ⟨_, l', hl', hdl'⟩ := hpp _ _ _ hcl2 hleft2
        obtain ⟨_, c', hc', hdc'⟩ := hpp _ _ _ hcr hcons
        have hlink : byPath st3 cr [toString nx.dot, "n"] = byPath st3 cl ["head", "n"] := by
          have e1 := byPath_append st3 [toString nx.dot] ["n"] cr
          have e2 := byPath_append st3 ["head"] ["n"] cl
          simp only [List.cons_append, List.nil_append] at e1 e2
          rw [e1, e2, hc', hl']
          simp only [Option.bind_some]
          exact byPath_congr (by rw [hdc', hdl', hder]) "n" []
        have simA : Sim C.P T.store nx.fs st3 cr :=
          ((hstep1.sim _ hnxOK.fs_lt).trans hsimcr).trans (hsim3 _ hcr)
        have simB : Sim C.P T.store s.fs st3 cl :=
          (hsimcl.trans (hstep2.sim _ hcl)).trans (hsim3 _ hcl2)
        exact compl_good hC hsOK hnxOK hcomp hinc hnext simA simB hlink
          (Nat.lt_of_lt_of_le hcr hlen3) (by rw [hrk3 _ hcr]; exact hrkcr2)
      | conflict => exact ⟨rk2, h.step hstep12 hw2⟩
      | fuel => exact ⟨rk2, h.step hstep12 hw2⟩

/-! ### completer, predictor, column loop, recogniser -/

theorem Inv.weaken {C : Ctx} {T : Tables} {rk : Nat → Nat} {X X' : List (Nat × EState)}
    (h : Inv C T rk X) (hsub : ∀ e ∈ X', e ∈ X) : Inv C T rk X' :=
  ⟨h.wf, h.objs, h.chart, h.proc, fun e he => h.extra e (hsub e he)⟩

/-- the invariant with the processed states of column `j` tracked additionally -/
theorem Inv.withProc {C : Ctx} {T : Tables} {rk : Nat → Nat} {X : List (Nat × EState)}
    (h : Inv C T rk X) (j : Nat) :
    Inv C T rk (X ++ (procStates T j).map fun nx => (j, nx)) := by
  refine ⟨h.wf, h.objs, h.chart, h.proc, fun e he => ?_⟩
  rcases List.mem_append.1 he with he | he
  · exact h.extra e he
  · rw [List.mem_map] at he
    obtain ⟨nx, hnx, rfl⟩ := he
    exact h.proc _ _ hnx

theorem Inv.completer {C : Ctx} (hC : CtxOK C) {T : Tables} {rk : Nat → Nat}
    {X : List (Nat × EState)} (h : Inv C T rk X) {i : Nat} {s : EState} (hs : (i, s) ∈ X)
    (hcomp : incomplete C.G s = false) : ∃ rk', Inv C (Pfl.Earley.completer C.G T s) rk' X := by
  unfold Pfl.Earley.completer
  simp only
  have hX' := h.withProc s.b
  have key : ∀ (l : List EState) (T' : Tables) (rk' : Nat → Nat) (X' : List (Nat × EState)),
      Inv C T' rk' X' → (i, s) ∈ X' → (∀ nx ∈ l, (s.b, nx) ∈ X') →
      ∃ rk'', Inv C (l.foldl (fun T nx =>
        if incomplete C.G nx ∧ nextSym C.G nx = some (.var (prodOf C.G s.prod).head) then
          Pfl.Earley.advance C.G T nx s else T) T') rk'' X' := by
    intro l
    induction l with
    | nil => intro T' rk' X' h' _ _; exact ⟨rk', h'⟩
    | cons nx l ih =>
      intro T' rk' X' h' hs' hl
      rw [List.foldl_cons]
      have h1 : ∃ rk1, Inv C (if incomplete C.G nx ∧
          nextSym C.G nx = some (.var (prodOf C.G s.prod).head) then
          Pfl.Earley.advance C.G T' nx s else T') rk1 X' := by
        split
        · rename_i hcond
          exact h'.advance hC hs' (hl nx (List.mem_cons_self ..)) hcomp hcond.1 hcond.2
        · exact ⟨rk', h'⟩
      obtain ⟨rk1, h1⟩ := h1
      exact ih _ rk1 X' h1 hs' (fun nx' hn => hl nx' (List.mem_cons_of_mem _ hn))
  obtain ⟨rk', h'⟩ := key (procStates T s.b) T rk _ hX' (List.mem_append_left _ hs)
    (fun nx hn => List.mem_append_right _ (List.mem_map.2 ⟨nx, hn, rfl⟩))
  exact ⟨rk', h'.weaken (fun e he => List.mem_append_left _ he)⟩

/-- first phase of the predictor: the predicted items -/
theorem Inv.predict {C : Ctx} (hC : CtxOK C) (v : String) (e : Nat) {rk : Nat → Nat}
    {X : List (Nat × EState)} :
    ∀ (l : List (FProd × Nat)) (T : Tables), Inv C T rk X →
      (∀ pk ∈ l, C.G.prods[pk.2]? = some pk.1) →
      Inv C (l.foldl (fun T pk =>
        if pk.1.head = v then Pfl.Earley.pushIfNew C.G T e
          { prod := pk.2, b := e, e := e, dot := 0, fs := pk.1.feats }
        else T) T) rk X := by
  intro l
  induction l with
  | nil => intro T hT _; exact hT
  | cons pk l ih =>
    intro T hT hl
    rw [List.foldl_cons]
    refine ih _ ?_ (fun pk' h' => hl pk' (List.mem_cons_of_mem _ h'))
    split
    · refine hT.pushIfNew ?_
      have hpk := hl pk (List.mem_cons_self ..)
      obtain ⟨h1, h2, h3⟩ := hT.objs pk.2 pk.1 hpk
      have hlt : pk.2 < C.spec.length := by
        rw [← hC.prods_len]
        exact (List.getElem?_eq_some_iff.1 hpk).1
      refine ⟨rfl, Nat.le_refl _, h1, h2, Nat.le_of_lt hlt, ?_⟩
      intro pr hpr
      refine ⟨Nat.zero_le _, fun σ hσ => ?_⟩
      obtain ⟨env, he, ho⟩ := h3 pr hpr σ hσ
      refine ⟨env, he, ho, ?_⟩
      simp only [List.take_zero, seg_self]
      exact .nil
    · exact hT

theorem Inv.predictor {C : Ctx} (hC : CtxOK C) {T : Tables} {rk : Nat → Nat}
    {X : List (Nat × EState)} (h : Inv C T rk X) {s : EState} (hs : (s.e, s) ∈ X)
    (hinc : incomplete C.G s = true) : ∃ rk', Inv C (Pfl.Earley.predictor C.G T s) rk' X := by
  unfold Pfl.Earley.predictor
  split
  · rename_i v hnext
    simp only
    have h1 := Inv.predict hC v s.e _ T h (fun pk hpk => mem_zip_range hpk)
    generalize (List.foldl (fun T pk =>
        if pk.1.head = v then Pfl.Earley.pushIfNew C.G T s.e
          { prod := pk.2, b := s.e, e := s.e, dot := 0, fs := pk.1.feats }
        else T) T (C.G.prods.zip (List.range C.G.prods.length))) = T1 at h1 ⊢
    have hX' := h1.withProc s.e
    have key : ∀ (l : List EState) (T' : Tables) (rk' : Nat → Nat) (X' : List (Nat × EState)),
        Inv C T' rk' X' → (s.e, s) ∈ X' → (∀ c ∈ l, (s.e, c) ∈ X') →
        ∃ rk'', Inv C (l.foldl (fun T c =>
          if !(incomplete C.G c) ∧ c.b = s.e ∧ (prodOf C.G c.prod).head = v then
            Pfl.Earley.advance C.G T s c else T) T') rk'' X' := by
      intro l
      induction l with
      | nil => intro T' rk' X' h' _ _; exact ⟨rk', h'⟩
      | cons c l ih =>
        intro T' rk' X' h' hs' hl
        rw [List.foldl_cons]
        have h1 : ∃ rk1, Inv C (if !(incomplete C.G c) ∧ c.b = s.e ∧
            (prodOf C.G c.prod).head = v then Pfl.Earley.advance C.G T' s c else T') rk1 X' := by
          split
          · rename_i hcond
            obtain ⟨hc1, hc2, hc3⟩ := hcond
            refine h'.advance hC (hl c (List.mem_cons_self ..)) (by rw [hc2]; exact hs')
              (by simpa using hc1) hinc (by rw [hc3]; exact hnext)
          · exact ⟨rk', h'⟩
        obtain ⟨rk1, h1⟩ := h1
        exact ih _ rk1 X' h1 hs' (fun c' hn => hl c' (List.mem_cons_of_mem _ hn))
    obtain ⟨rk', h'⟩ := key (procStates T1 s.e) T1 rk _ hX' (List.mem_append_left _ hs)
      (fun c hn => List.mem_append_right _ (List.mem_map.2 ⟨c, hn, rfl⟩))
    exact ⟨rk', h'.weaken (fun e he => List.mem_append_left _ he)⟩
  · exact ⟨rk, h⟩

theorem Inv.columnLoop {C : Ctx} (hC : CtxOK C) (i : Nat) :
    ∀ (f : Nat) (T T' : Tables) (rk : Nat → Nat), Inv C T rk [] →
      Pfl.Earley.columnLoop C.G C.word i f T = some T' → ∃ rk', Inv C T' rk' [] := by
  intro f
  induction f with
  | zero => intro T T' rk _ h; simp [Pfl.Earley.columnLoop] at h
  | succ f ih =>
    intro T T' rk h hr
    unfold Pfl.Earley.columnLoop at hr
    cases hl : (colGet T.chart i).getLast? with
    | none => rw [hl] at hr; simp only [Option.some.injEq] at hr; subst hr; exact ⟨rk, h⟩
    | some s =>
      rw [hl] at hr
      simp only at hr
      have hsmem : s ∈ colGet T.chart i := List.mem_of_getLast? hl
      have hsOK := h.chart i s hsmem
      have h0 : Inv C { T with chart := T.chart.set i (colGet T.chart i).dropLast } rk [(i, s)] := by
        refine ⟨h.wf, h.objs, ?_, h.proc, ?_⟩
        · intro j s' hm
          rcases mem_colGet_set hm with ⟨rfl, h2⟩ | h2
          · exact h.chart _ s' (List.dropLast_subset _ h2)
          · exact h.chart j s' h2
        · intro e he
          simp only [List.mem_singleton] at he; subst he; exact hsOK
      have hmem : (i, s) ∈ [(i, s)] := List.mem_singleton.2 rfl
      have step : ∃ rk1, Inv C
          (if incomplete C.G s then
            match nextSym C.G s with
            | some (.var _) => Pfl.Earley.predictor C.G { T with chart := T.chart.set i (colGet T.chart i).dropLast } s
            | some (.ter t) => if C.word[i]? = some t then
                Pfl.Earley.scanner C.G { T with chart := T.chart.set i (colGet T.chart i).dropLast } s
              else { T with chart := T.chart.set i (colGet T.chart i).dropLast }
            | none => { T with chart := T.chart.set i (colGet T.chart i).dropLast }
          else Pfl.Earley.completer C.G { T with chart := T.chart.set i (colGet T.chart i).dropLast } s) rk1 [] := by
        split
        · rename_i hinc
          split
          · have hmem' : (s.e, s) ∈ [(i, s)] := by rw [hsOK.e_eq]; exact hmem
            obtain ⟨rk1, h1⟩ := h0.predictor hC hmem' hinc
            exact ⟨rk1, h1.weaken (by simp)⟩
          · rename_i t hnext
            split
            · rename_i hw
              exact ⟨rk, (h0.scanner hC hsOK hnext hw).weaken (by simp)⟩
            · exact ⟨rk, h0.weaken (by simp)⟩
          · exact ⟨rk, h0.weaken (by simp)⟩
        · rename_i hinc
          obtain ⟨rk1, h1⟩ := h0.completer hC hmem (by simpa using hinc)
          exact ⟨rk1, h1.weaken (by simp)⟩
      obtain ⟨rk1, h1⟩ := step
      exact ih _ T' rk1 h1 hr

theorem colGet_replicate {α : Type} (n i : Nat) : colGet (List.replicate n ([] : List α)) i = [] := by
  unfold colGet
  rw [List.getD_eq_getElem?_getD]
  by_cases h : i < n
  · rw [List.getElem?_replicate, if_pos h]; rfl
  · rw [List.getElem?_eq_none (by simp; omega)]; rfl

/-- the result of a successful recognition -/
theorem contains_sound {C : Ctx} (hC : CtxOK C) {st0 : Store} {rk0 : Nat → Nat}
    (hw : WFS st0 rk0)
    (hobjs : ∀ k p, C.G.prods[k]? = some p →
      p.feats < st0.length ∧ rk0 p.feats = 2 ∧ GoodObj C st0 k p.feats)
    (hgam : C.G.gammaFeats < st0.length ∧ rk0 C.G.gammaFeats = 2) {d : String} (hd : C.P d)
    {fuel : Nat} (h : contains C.G st0 C.word fuel = some true) :
    ∃ k pr env, C.spec[k]? = some pr ∧ pr.1.1 = C.G.start ∧ C.okEnv k env ∧
      C.tgt.Gen (.var (nmOf C.vf env pr.1.1 pr.1.2)) C.word ∧
      ∀ v, pr.1.2 = some v → C.P (C.vf env v) := by
  unfold contains at h
  simp only at h
  -- the initial tables
  have hT0 : Inv C (Tables.mk st0 (List.replicate (C.word.length + 1) [])
      (List.replicate (C.word.length + 1) [])) rk0 [] := by
    refine ⟨hw, hobjs, ?_, ?_, by simp⟩
    · intro i s hm; rw [colGet_replicate] at hm; simp at hm
    · intro i s hm; unfold procStates at hm; rw [colGet_replicate] at hm; simp at hm
  have hT1 := hT0.pushIfNew (i := 0)
    (s := { prod := C.G.prods.length, b := 0, e := 0, dot := 0, fs := C.G.gammaFeats })
    ⟨rfl, Nat.le_refl _, hgam.1, hgam.2, by rw [hC.prods_len]; exact Nat.le_refl _, by
      intro pr hpr
      change C.spec[C.G.prods.length]? = some pr at hpr
      rw [hC.prods_len, List.getElem?_eq_none (Nat.le_refl _)] at hpr
      simp at hpr⟩
  have hcols : ∀ (l : List Nat) (T T' : Tables) (rk : Nat → Nat), Inv C T rk [] →
      contains.cols C.G C.word fuel l T = some T' → ∃ rk', Inv C T' rk' [] := by
    intro l
    induction l with
    | nil =>
      intro T T' rk hT hr
      simp only [contains.cols, Option.some.injEq] at hr; subst hr; exact ⟨rk, hT⟩
    | cons i l ih =>
      intro T T' rk hT hr
      simp only [contains.cols] at hr
      cases hcl : Pfl.Earley.columnLoop C.G C.word i fuel T with
      | none => rw [hcl] at hr; simp at hr
      | some T1 =>
        rw [hcl] at hr
        obtain ⟨rk1, h1⟩ := Inv.columnLoop hC i fuel T T1 rk hT hcl
        exact ih T1 T' rk1 h1 hr
  cases hc : contains.cols C.G C.word fuel (List.range (C.word.length + 1))
      (Pfl.Earley.pushIfNew C.G (Tables.mk st0 (List.replicate (C.word.length + 1) [])
        (List.replicate (C.word.length + 1) [])) 0
        { prod := C.G.prods.length, b := 0, e := 0, dot := 0, fs := C.G.gammaFeats }) with
  | none => rw [hc] at h; simp at h
  | some T3 =>
    rw [hc] at h
    simp only [Option.some.injEq, List.any_eq_true] at h
    obtain ⟨rk3, h3⟩ := hcols _ _ T3 rk0 hT1 hc
    ·
      obtain ⟨s, hsm, hs⟩ := h
      simp only [decide_eq_true_eq] at hs
      obtain ⟨hb, hinc, hhead⟩ := hs
      simp only [Bool.not_eq_true'] at hinc
      have hsOK := h3.proc C.word.length s hsm
      cases hsp : C.spec[s.prod]? with
      | none =>
        rw [prodOf_gamma hC hsp] at hhead
        exact absurd hhead.symm hC.start_ne
      | some pr =>
        obtain ⟨hh, hbody, _⟩ := prodOf_spec hC hsp
        obtain ⟨hdot, hg⟩ := hsOK.good pr hsp
        obtain ⟨env, he, ho, hgl⟩ := hg _ (resp_default C.P T3.store hd)
        have hdeq : pr.2.length ≤ s.dot := by
          unfold incomplete at hinc
          rw [hbody] at hinc
          simpa using hinc
        have hfull : (ibody C.vf env pr.2).take s.dot = ibody C.vf env pr.2 := by
          apply List.take_of_length_le
          unfold ibody; rw [List.length_map]; exact hdeq
        rw [hfull, hb, hsOK.e_eq, seg_full] at hgl
        refine ⟨s.prod, pr, env, hsp, by rw [← hh]; exact hhead, he,
          hC.close s.prod pr env _ hsp he hgl, ?_⟩
        intro v hv
        have := ho.1 v hv
        unfold rdv at this
        simp only [Option.map_eq_some_iff] at this
        obtain ⟨n, _, hn⟩ := this
        rw [← hn]
        exact (resp_default C.P T3.store hd).1 _

end Lem
end Earley
end Pfl
