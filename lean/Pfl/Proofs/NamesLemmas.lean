/-
Helper lemmas for the naming layer: splitting at the first separator, injectivity of
`List.intercalate` on separator-free pieces, and membership under `sortNames`.
-/
import Pfl.Model.Names
import Mathlib.Data.List.Sort
namespace Pfl
namespace Names

/-- the first occurrence of `c` determines the split -/
theorem split_at_first {α : Type} (c : α) :
    ∀ (u u' v v' : List α), c ∉ u → c ∉ u' → u ++ c :: v = u' ++ c :: v' → u = u' ∧ v = v' := by
  intro u
  induction u with
  | nil =>
    intro u' v v' _ hu' h
    cases u' with
    | nil => simpa using h
    | cons a u' =>
      simp only [List.nil_append, List.cons_append, List.cons.injEq] at h
      exact absurd (h.1 ▸ List.mem_cons_self) hu'
  | cons a u ih =>
    intro u' v v' hu hu' h
    cases u' with
    | nil =>
      simp only [List.nil_append, List.cons_append, List.cons.injEq] at h
      exact absurd (h.1 ▸ List.mem_cons_self) hu
    | cons b u' =>
      simp only [List.cons_append, List.cons.injEq] at h
      obtain ⟨hab, h⟩ := h
      have := ih u' v v' (fun hm => hu (List.mem_cons_of_mem _ hm))
        (fun hm => hu' (List.mem_cons_of_mem _ hm)) h
      exact ⟨by rw [hab, this.1], this.2⟩

theorem intercalate_nil' {α : Type} (sep : List α) : sep.intercalate [] = [] := by
  simp [List.intercalate]

theorem intercalate_single' {α : Type} (sep x : List α) : sep.intercalate [x] = x := by
  simp [List.intercalate]

theorem intercalate_cons_cons' {α : Type} (sep x y : List α) (zs : List (List α)) :
    sep.intercalate (x :: y :: zs) = x ++ sep ++ sep.intercalate (y :: zs) := by
  simp [List.intercalate]

/-- joining a non-empty list of non-empty strings gives a non-empty string -/
theorem intercalate_ne_nil {α : Type} (sep : List α) (xs : List (List α)) (hne : xs ≠ [])
    (h : ∀ x ∈ xs, x ≠ []) : sep.intercalate xs ≠ [] := by
  cases xs with
  | nil => exact absurd rfl hne
  | cons x xs =>
    have hx : x ≠ [] := h x List.mem_cons_self
    cases xs with
    | nil => rw [intercalate_single']; exact hx
    | cons y zs =>
      rw [intercalate_cons_cons']
      intro h0
      simp only [List.append_eq_nil_iff] at h0
      exact hx h0.1.1

/-- `c.join` is injective on non-empty lists of `c`-free strings -/
theorem intercalate_inj {α : Type} (c : α) :
    ∀ (xs ys : List (List α)), xs ≠ [] → ys ≠ [] → (∀ x ∈ xs, c ∉ x) → (∀ y ∈ ys, c ∉ y) →
      [c].intercalate xs = [c].intercalate ys → xs = ys := by
  intro xs
  induction xs with
  | nil => intro ys h; exact absurd rfl h
  | cons x xs ih =>
    intro ys _ hys hx hy heq
    cases ys with
    | nil => exact absurd rfl hys
    | cons y ys =>
      have hxc : c ∉ x := hx x List.mem_cons_self
      have hyc : c ∉ y := hy y List.mem_cons_self
      cases xs with
      | nil =>
        cases ys with
        | nil => simpa [intercalate_single'] using heq
        | cons y' ys' =>
          rw [intercalate_single', intercalate_cons_cons'] at heq
          exfalso; apply hxc; rw [heq]; simp
      | cons x' xs' =>
        cases ys with
        | nil =>
          rw [intercalate_single', intercalate_cons_cons'] at heq
          exfalso; apply hyc; rw [← heq]; simp
        | cons y' ys' =>
          rw [intercalate_cons_cons', intercalate_cons_cons'] at heq
          simp only [List.append_assoc, List.singleton_append] at heq
          obtain ⟨h1, h2⟩ := split_at_first c _ _ _ _ hxc hyc heq
          have := ih (y' :: ys') (List.cons_ne_nil _ _) (List.cons_ne_nil _ _)
            (fun z hz => hx z (List.mem_cons_of_mem _ hz))
            (fun z hz => hy z (List.mem_cons_of_mem _ hz)) h2
          rw [h1, this]

theorem mem_sortNames (l : List (List Char)) (x : List Char) : x ∈ sortNames l ↔ x ∈ l :=
  (List.mergeSort_perm l _).mem_iff

theorem sortNames_eq_nil (l : List (List Char)) : sortNames l = [] ↔ l = [] := by
  constructor
  · intro h
    have := List.mergeSort_perm l (fun a b => decide (a ≤ b))
    unfold sortNames at h
    rw [h] at this
    exact List.perm_nil.mp this.symm
  · intro h; subst h; simp [sortNames]

/-- equal joins of sorted name lists have the same members, for non-empty `;`-free names -/
theorem mem_of_join_sort_eq (l m : List (List Char)) (hl : ∀ x ∈ l, x ≠ [] ∧ ';' ∉ x)
    (hm : ∀ x ∈ m, x ≠ [] ∧ ';' ∉ x)
    (h : [';'].intercalate (sortNames l) = [';'].intercalate (sortNames m)) :
    ∀ x, x ∈ l ↔ x ∈ m := by
  have hl' : ∀ x ∈ sortNames l, x ≠ [] ∧ ';' ∉ x := fun x hx => hl x ((mem_sortNames l x).mp hx)
  have hm' : ∀ x ∈ sortNames m, x ≠ [] ∧ ';' ∉ x := fun x hx => hm x ((mem_sortNames m x).mp hx)
  have key : sortNames l = sortNames m := by
    by_cases h1 : sortNames l = []
    · by_cases h2 : sortNames m = []
      · rw [h1, h2]
      · exfalso
        rw [h1, intercalate_nil'] at h
        exact intercalate_ne_nil _ _ h2 (fun x hx => (hm' x hx).1) h.symm
    · by_cases h2 : sortNames m = []
      · exfalso
        rw [h2, intercalate_nil'] at h
        exact intercalate_ne_nil _ _ h1 (fun x hx => (hl' x hx).1) h
      · exact intercalate_inj ';' _ _ h1 h2 (fun x hx => (hl' x hx).2) (fun x hx => (hm' x hx).2) h
  intro x
  rw [← mem_sortNames l x, ← mem_sortNames m x, key]

/-! ### a kernel-reducible variant of `mergeName` (insertion sort instead of merge sort) -/

theorem sortNames_eq_insertionSort (l : List (List Char)) :
    sortNames l = l.insertionSort (· ≤ ·) := by
  unfold sortNames
  exact List.mergeSort_eq_insertionSort (r := (· ≤ ·)) l

/-- `mergeName` with insertion sort; structural, so closed instances reduce in the kernel -/
def mergeName' {σ : Type} (names : σ → List Char) (S : List σ) : List Char :=
  [';'].intercalate ((S.map names).insertionSort (· ≤ ·))

theorem mergeName_eq_mergeName' {σ : Type} : @mergeName σ = @mergeName' σ := by
  funext names S
  simp only [mergeName, mergeName', sortNames_eq_insertionSort]

end Names
end Pfl
