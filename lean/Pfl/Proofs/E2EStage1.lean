/-
From the AST to the concrete syntax tree of its rendered text; stage 1 (no pass reacts).
-/
import Pfl.Proofs.E2ESyntax
import Pfl.Props.C07_Desugar
namespace Pfl.PyRx.E2E
open Pfl.RegexReader Pfl.RegexReader.Lem Pfl.Rx Pfl.Rx.Lem Pfl.PyPass
open C E

/-- the operand of a postfix operator -/
def wrapQ (a : P) (x : C) : C := if isQuantified a then .grp x else x

def toC : P → Ctx → C
  | .lit c, _ => .ch c
  | .cat a b, ctx =>
    let s := C.seq (toC a .cat) (toC b .cat)
    if ctx = .q then .grp s else s
  | .alt a b, ctx =>
    let s := C.bar (toC a .top) (toC b .top)
    if ctx ≠ .top then .grp s else s
  | .star a, _ => .star (wrapQ a (toC a .q))
  | .plus a, _ => .plus (wrapQ a (toC a .q))
  | .opt a, _ => .opt (wrapQ a (toC a .q))
  | .rep a m n, _ => .rep (wrapQ a (toC a .q)) m n
  | _, _ => .ch ' '

/-- letters and digits, `* + ? {m} {m,n}` with `m ≤ n` -/
def Frag2 : P → Prop
  | .lit c => c.isAlphanum = true
  | .cat a b => Frag2 a ∧ Frag2 b
  | .alt a b => Frag2 a ∧ Frag2 b
  | .star a => Frag2 a
  | .plus a => Frag2 a
  | .opt a => Frag2 a
  | .rep a m n => Frag2 a ∧ m ≤ n
  | _ => False

def Frag1 : P → Prop
  | .lit c => c.isAlphanum = true
  | .cat a b => Frag1 a ∧ Frag1 b
  | .alt a b => Frag1 a ∧ Frag1 b
  | .star a => Frag1 a
  | _ => False

theorem Frag1.frag2 : ∀ p, Frag1 p → Frag2 p
  | .lit _, h => h
  | .cat a b, h => ⟨Frag1.frag2 a h.1, Frag1.frag2 b h.2⟩
  | .alt a b, h => ⟨Frag1.frag2 a h.1, Frag1.frag2 b h.2⟩
  | .star a, h => Frag1.frag2 a h

theorem Frag2.wellFormed : ∀ p, Frag2 p → WellFormed p
  | .lit _, _ => trivial
  | .cat a b, h => ⟨Frag2.wellFormed a h.1, Frag2.wellFormed b h.2⟩
  | .alt a b, h => ⟨Frag2.wellFormed a h.1, Frag2.wellFormed b h.2⟩
  | .star a, h => Frag2.wellFormed a h
  | .plus a, h => Frag2.wellFormed a h
  | .opt a, h => Frag2.wellFormed a h
  | .rep a _ _, h => ⟨Frag2.wellFormed a h.1, h.2⟩

theorem alnum_not_meta (c : Char) (h : c.isAlphanum = true) : c ∉ metaChars := by
  intro hm
  have key : ∀ d ∈ metaChars, d.isAlphanum = false := by decide
  rw [key c hm] at h
  exact absurd h (by simp)

theorem toC_text : ∀ p ctx, Frag2 p → text (toC p ctx) = render p ctx
  | .lit c, _, h => by simp [toC, text, render, alnum_not_meta c h]
  | .cat a b, ctx, h => by
    by_cases hc : ctx = .q <;>
      simp [toC, text, render, hc, paren, toC_text a .cat h.1, toC_text b .cat h.2]
  | .alt a b, ctx, h => by
    by_cases hc : ctx = .top <;>
      simp [toC, text, render, hc, paren, toC_text a .top h.1, toC_text b .top h.2]
  | .star a, _, h => by
    by_cases hq : isQuantified a = true <;>
      simp [toC, wrapQ, text, render, hq, paren, toC_text a .q h]
  | .plus a, _, h => by
    by_cases hq : isQuantified a = true <;>
      simp [toC, wrapQ, text, render, hq, paren, toC_text a .q h]
  | .opt a, _, h => by
    by_cases hq : isQuantified a = true <;>
      simp [toC, wrapQ, text, render, hq, paren, toC_text a .q h]
  | .rep a m n, _, h => by
    by_cases hq : isQuantified a = true <;> by_cases hmn : m = n <;>
      simp [toC, wrapQ, text, render, hq, paren, toC_text a .q h.1, braces, hmn]

/-- a single character or a parenthesised group -/
def IsUnit : C → Prop
  | .ch _ => True
  | .grp _ => True
  | _ => False

theorem IsUnit.cl {x : C} (h : IsUnit x) : cl x = 0 := by
  cases x <;> first | rfl | exact absurd h (by simp [IsUnit])

theorem wrapQ_unit : ∀ a, Frag2 a → IsUnit (wrapQ a (toC a .q))
  | .lit _, _ => trivial
  | .cat _ _, _ => trivial
  | .alt _ _, _ => trivial
  | .star _, _ => trivial
  | .plus _, _ => trivial
  | .opt _, _ => trivial
  | .rep _ _ _, _ => trivial

theorem toC_cl_q : ∀ p, Frag2 p → cl (toC p .q) = 0
  | .lit _, _ => rfl
  | .cat _ _, _ => rfl
  | .alt _ _, _ => rfl
  | .star _, _ => rfl
  | .plus _, _ => rfl
  | .opt _, _ => rfl
  | .rep _ _ _, _ => rfl

theorem toC_cl_cat : ∀ p, Frag2 p → cl (toC p .cat) ≤ 1
  | .lit _, _ => by simp [toC, cl]
  | .cat _ _, _ => by simp [toC, cl]
  | .alt _ _, _ => by simp [toC, cl]
  | .star _, _ => by simp [toC, cl]
  | .plus _, _ => by simp [toC, cl]
  | .opt _, _ => by simp [toC, cl]
  | .rep _ _ _, _ => by simp [toC, cl]

theorem alnum_leaf (c : Char) (h : c.isAlphanum = true) : LeafCh c := by
  refine Or.inl ⟨alnum_ne c _ h (by decide), alnum_ne c _ h (by decide), ?_⟩
  have key : ∀ d ∈ ['.', '|', '+', '*', '$', '(', ')'], d.isAlphanum = false := by decide
  cases hs : isSpecialChar c with
  | false => rfl
  | true =>
    simp only [isSpecialChar, decide_eq_true_eq] at hs
    rw [key c hs] at h
    exact absurd h (by simp)

theorem toC_core : ∀ p ctx, Frag1 p → Core (toC p ctx)
  | .lit c, _, h => alnum_leaf c h
  | .cat a b, ctx, h => by
    have : Core (C.seq (toC a .cat) (toC b .cat)) :=
      ⟨toC_core a .cat h.1, toC_core b .cat h.2, toC_cl_cat a (Frag1.frag2 a h.1),
        toC_cl_cat b (Frag1.frag2 b h.2)⟩
    by_cases hc : ctx = .q <;> simpa [toC, hc, Core] using this
  | .alt a b, ctx, h => by
    have : Core (C.bar (toC a .top) (toC b .top)) := ⟨toC_core a .top h.1, toC_core b .top h.2⟩
    by_cases hc : ctx = .top <;> simpa [toC, hc, Core] using this
  | .star a, _, h => by
    have h1 := toC_core a .q h
    have h2 := (wrapQ_unit a (Frag1.frag2 a h)).cl
    refine ⟨?_, h2⟩
    unfold wrapQ; split
    · exact h1
    · exact h1

theorem toC_rx : ∀ p ctx, Frag2 p → rx (toC p ctx) = desugar printables p
  | .lit c, _, h => by
    have : c ≠ '$' := alnum_ne c _ h (by decide)
    simp [toC, rx, desugar, this]
  | .cat a b, ctx, h => by
    by_cases hc : ctx = .q <;> simp [toC, rx, desugar, hc, toC_rx a .cat h.1, toC_rx b .cat h.2]
  | .alt a b, ctx, h => by
    by_cases hc : ctx = .top <;> simp [toC, rx, desugar, hc, toC_rx a .top h.1, toC_rx b .top h.2]
  | .star a, _, h => by
    by_cases hq : isQuantified a = true <;> simp [toC, wrapQ, rx, desugar, hq, toC_rx a .q h]
  | .plus a, _, h => by
    by_cases hq : isQuantified a = true <;> simp [toC, wrapQ, rx, desugar, hq, toC_rx a .q h]
  | .opt a, _, h => by
    by_cases hq : isQuantified a = true <;> simp [toC, wrapQ, rx, desugar, hq, toC_rx a .q h]
  | .rep a m n, _, h => by
    by_cases hq : isQuantified a = true <;> simp [toC, wrapQ, rx, desugar, hq, toC_rx a .q h.1]

/-- characters of a stage-1 text -/
def Ch1 (c : Char) : Prop := c.isAlphanum = true ∨ c = '(' ∨ c = ')' ∨ c = '|' ∨ c = '*'

theorem Ch1.inert {c : Char} (h : Ch1 c) : Inert c := by
  rcases h with h | rfl | rfl | rfl | rfl
  · have := alnum_range c h
    exact ⟨alnum_ne c _ h (by decide), alnum_ne c _ h (by decide), alnum_ne c _ h (by decide),
      alnum_ne c _ h (by decide), alnum_ne c _ h (by decide), alnum_ne c _ h (by decide),
      alnum_ne c _ h (by decide), alnum_ne c _ h (by decide), by omega⟩
  all_goals exact ⟨by decide, by decide, by decide, by decide, by decide, by decide, by decide,
    by decide, by decide⟩

theorem render_ch1 : ∀ p ctx, Frag1 p → ∀ c ∈ render p ctx, Ch1 c
  | .lit c, _, h => by
    intro d hd
    simp only [render, alnum_not_meta c h, if_false, List.mem_cons, List.not_mem_nil,
      or_false] at hd
    subst hd; exact Or.inl h
  | .cat a b, ctx, h => by
    intro d hd
    have key : ∀ d ∈ render a .cat ++ render b .cat, Ch1 d := by
      intro d hd
      rcases List.mem_append.mp hd with hd | hd
      · exact render_ch1 a .cat h.1 d hd
      · exact render_ch1 b .cat h.2 d hd
    by_cases hc : ctx = .q
    · simp only [render, hc, if_true, paren, List.mem_append, List.mem_cons, List.not_mem_nil,
        or_false] at hd
      rcases hd with (rfl | hd) | rfl
      · exact Or.inr (Or.inl rfl)
      · exact key d (List.mem_append.mpr hd)
      · exact Or.inr (Or.inr (Or.inl rfl))
    · simp only [render, hc, if_false] at hd
      exact key d hd
  | .alt a b, ctx, h => by
    intro d hd
    have key : ∀ d ∈ render a .top ++ ['|'] ++ render b .top, Ch1 d := by
      intro d hd
      simp only [List.mem_append, List.mem_cons, List.not_mem_nil, or_false] at hd
      rcases hd with (hd | rfl) | hd
      · exact render_ch1 a .top h.1 d hd
      · exact Or.inr (Or.inr (Or.inr (Or.inl rfl)))
      · exact render_ch1 b .top h.2 d hd
    by_cases hc : ctx = .top
    · simp only [render, hc, ne_eq, not_true_eq_false, if_false] at hd
      exact key d hd
    · simp only [render, hc, ne_eq, not_false_eq_true, if_true, paren] at hd
      rcases List.mem_append.mp hd with hd | hd
      · rcases List.mem_append.mp hd with hd | hd
        · simp only [List.mem_cons, List.not_mem_nil, or_false] at hd
          subst hd; exact Or.inr (Or.inl rfl)
        · exact key d hd
      · simp only [List.mem_cons, List.not_mem_nil, or_false] at hd
        subst hd; exact Or.inr (Or.inr (Or.inl rfl))
  | .star a, _, h => by
    intro d hd
    simp only [render, paren] at hd
    rcases List.mem_append.mp hd with hd | hd
    · split at hd
      · simp only [List.mem_append, List.mem_cons, List.not_mem_nil, or_false] at hd
        rcases hd with (rfl | hd) | rfl
        · exact Or.inr (Or.inl rfl)
        · exact render_ch1 a .q h d hd
        · exact Or.inr (Or.inr (Or.inl rfl))
      · exact render_ch1 a .q h d hd
    · simp only [List.mem_cons, List.not_mem_nil, or_false] at hd
      subst hd; exact Or.inr (Or.inr (Or.inr (Or.inr rfl)))

/-- stage 1, on the models -/
theorem stage1 (p : P) (h : Frag1 p) : ∃ t fuel r, transform (render p .top) = .ok t ∧
    parse fuel t = .ok r ∧ ∀ w : List Char, Denote r (word w) ↔ Matches printables p w := by
  have h2 := Frag1.frag2 p h
  have hcore := toC_core p .top h
  obtain ⟨fuel, r, hr, hE⟩ := parse_core (toC p .top) hcore
  rw [toC_text p .top h2] at hr
  refine ⟨_, fuel, r, transform_inert _ (fun c hc => (render_ch1 p .top h c hc).inert), hr, ?_⟩
  intro w
  rw [hE, toC_rx p .top h2]
  exact desugar_denote printables p (Frag2.wellFormed p h2) w

end Pfl.PyRx.E2E
