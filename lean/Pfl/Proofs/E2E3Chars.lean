/-
Reading texts with escaped symbols: blank-joined symbols (the re-entry of the reader) and the text
`_separate` produces (blank-joined tokens, a `.` replaced by the union of the printable characters).
-/
import Pfl.Proofs.E2EChars
import Pfl.Proofs.E2ESyntax
namespace Pfl.PyRx.E2E
open Pfl.RegexReader Pfl.RegexReader.Lem Pfl.PyPass

/-- the symbols of the reader: special characters, plain symbols, escaped characters -/
def A3 (x : List Char) : Prop :=
  IsSp x ∨ (IsPl x ∧ x ≠ "epsilon".toList) ∨ (∃ c, x = ['\\', c])

def enc (x : List Char) : List Char := if x = ['\\', ' '] then ['\\'] else x
def own (x : List Char) : Nat := if x = ['\\', ' '] then 1 else 0

theorem enc_piece {x : List Char} (h : A3 x) : Piece (enc x) := by
  unfold enc
  split
  · exact Or.inr (Or.inr (Or.inr rfl))
  · rename_i hx
    rcases h with h | h | ⟨c, rfl⟩
    · exact Or.inl h
    · exact Or.inr (Or.inl h.1)
    · exact Or.inr (Or.inr (Or.inl ⟨c, rfl, fun e => hx (by rw [e])⟩))

theorem enc_bs {x : List Char} (h : A3 x) : enc x = ['\\'] → 1 ≤ own x := by
  unfold enc own
  split
  · intro _; omega
  · intro e
    subst e
    rcases h with ⟨c, hc, hs⟩ | h | ⟨c, hc⟩
    · simp only [List.cons.injEq, and_true] at hc; subst hc; simp [isSpecialChar] at hs
    · exact absurd rfl (h.1.2 '\\' (by simp)).2.1
    · simp at hc

theorem dec_enc {x : List Char} (h : A3 x) : dec (enc x) = x := by
  by_cases hx : x = ['\\', ' ']
  · subst hx; rfl
  · have : enc x = x := by simp [enc, hx]
    rw [this, dec, if_neg]
    intro e
    have := enc_bs h (this.trans e)
    simp [own, hx] at this

theorem enc_own (x : List Char) : enc x ++ blanks (own x) = x := by
  unfold enc own
  split
  · rename_i h; subst h; rfl
  · simp [blanks]

/-- a symbol that is not a special character -/
def A3n (x : List Char) : Prop := (IsPl x ∧ x ≠ "epsilon".toList) ∨ (∃ c, x = ['\\', c])

theorem A3n.a3 {x : List Char} (h : A3n x) : A3 x := Or.inr h

theorem A3n.not_sp {x : List Char} (h : A3n x) : ¬ IsSp (enc x) := by
  rintro ⟨c, hc, hs⟩
  by_cases hx : x = ['\\', ' ']
  · subst hx
    simp only [enc, if_true, List.cons.injEq, and_true] at hc
    subst hc; simp [isSpecialChar] at hs
  · have : enc x = x := by simp [enc, hx]
    rw [this] at hc
    subst hc
    rcases h with h | ⟨d, hd⟩
    · have := (h.1.2 c (by simp)).2.2
      rw [hs] at this; exact absurd this (by simp)
    · simp at hd

/-! ### blank-joined symbols -/

def layJ : List (List Char) → List (List Char × Nat)
  | [] => []
  | [a] => [(enc a, own a)]
  | a :: b :: l => (enc a, own a + 1) :: layJ (b :: l)

theorem blanks_add (a b : Nat) : blanks (a + b) = blanks a ++ blanks b := by
  simp [blanks, List.replicate_append_replicate]

theorem lt_layJ : ∀ l : List (List Char), lt (layJ l) = jb l
  | [] => rfl
  | [a] => by simp [layJ, lt, jb, enc_own]
  | a :: b :: l => by
    rw [layJ, lt_cons, lt_layJ (b :: l), jb, blanks_add, ← List.append_assoc, enc_own]
    simp [blanks]

theorem wlay_layJ : ∀ l : List (List Char), (∀ a ∈ l, A3 a) → WLay (layJ l)
  | [], _ => trivial
  | [a], h => ⟨enc_piece (h a (by simp)), enc_bs (h a (by simp))⟩
  | a :: b :: l, h => by
    have ih := wlay_layJ (b :: l) (fun x hx => h x (by simp [hx]))
    cases l with
    | nil =>
      exact ⟨enc_piece (h a (by simp)), fun _ => by omega, fun e => by omega, ih⟩
    | cons c l =>
      exact ⟨enc_piece (h a (by simp)), fun _ => by omega, fun e => by omega, ih⟩

theorem lastOK_layJ : ∀ l : List (List Char), (∀ a ∈ l, A3 a) → LastOK (layJ l)
  | [], _ => by intro L0 p k e; simp [layJ] at e
  | [a], h => by
    intro L0 p k e
    have : L0 = [] ∧ (enc a, own a) = (p, k) := by
      cases L0 with
      | nil => simpa [layJ] using e
      | cons x L0 => simp [layJ] at e
    obtain ⟨_, e2⟩ := this
    simp only [Prod.mk.injEq] at e2
    obtain ⟨rfl, rfl⟩ := e2
    by_cases hx : a = ['\\', ' ']
    · subst hx; rfl
    · have he : enc a = a := by simp [enc, hx]
      have : enc a ≠ ['\\'] := fun e => by
        have := enc_bs (h a (by simp)) e; simp [own, hx] at this
      simp [own, hx, this]
  | a :: b :: l, h => by
    intro L0 p k e
    have ih := lastOK_layJ (b :: l) (fun x hx => h x (by simp [hx]))
    cases L0 with
    | nil =>
      have := congrArg List.length e
      cases l <;> simp [layJ] at this
    | cons x L0 =>
      rw [layJ, List.cons_append, List.cons.injEq] at e
      exact ih L0 p k e.2

theorem map_dec_layJ : ∀ l : List (List Char), (∀ a ∈ l, A3 a) →
    (layJ l).map (fun x => dec x.1) = l
  | [], _ => rfl
  | [a], h => by simp [layJ, dec_enc (h a (by simp))]
  | a :: b :: l, h => by
    rw [layJ, List.map_cons, map_dec_layJ (b :: l) (fun x hx => h x (by simp [hx]))]
    simp [dec_enc (h a (by simp))]

theorem toks_A3 : Toks A3 where
  re := fun l hne hl => by
    rw [joinBlank_eq, ← lt_layJ,
      components_lay _ (wlay_layJ l hl) (by cases l with
        | nil => exact absurd rfl hne
        | cons a l => cases l <;> simp [layJ]) (lastOK_layJ l hl),
      map_dec_layJ l hl]
  op := Or.inl ⟨_, rfl, by decide⟩
  cl := Or.inl ⟨_, rfl, by decide⟩
  st := Or.inl ⟨_, rfl, by decide⟩
  bar := Or.inl ⟨_, rfl, by decide⟩

/-! ### the text written by `_separate` -/

theorem WLay.append : ∀ (L1 L2 : List (List Char × Nat)) (q : List Char) (j : Nat),
    WLay (L1 ++ [(q, j)]) → 1 ≤ j → WLay L2 → WLay (L1 ++ (q, j) :: L2)
  | [], L2, q, j, h1, hj, h2 => by
    cases L2 with
    | nil => exact h1
    | cons x L2 => exact ⟨h1.1, h1.2, fun e => by omega, h2⟩
  | [(p, k)], L2, q, j, h1, hj, h2 => by
    have ih := WLay.append [] L2 q j h1.2.2.2 hj h2
    exact ⟨h1.1, h1.2.1, h1.2.2.1, ih⟩
  | (p, k) :: (p', k') :: L1, L2, q, j, h1, hj, h2 => by
    have ih := WLay.append ((p', k') :: L1) L2 q j h1.2.2.2 hj h2
    exact ⟨h1.1, h1.2.1, h1.2.2.1, ih⟩

/-- the pieces of `t1|t2|...|tn` -/
def inter : List Tok → List (List Char × Nat)
  | [] => []
  | [a] => [(enc a, own a)]
  | a :: b :: r => (enc a, own a) :: (['|'], 0) :: inter (b :: r)

/-- the pieces of `(t1|...|tn)` followed by `e` blanks -/
def unionLay (ts : List Tok) (e : Nat) : List (List Char × Nat) :=
  (['('], 0) :: (inter ts ++ [([')'], e)])

theorem sp_bar : IsSp ['|'] := ⟨_, rfl, by decide⟩
theorem sp_open : IsSp ['('] := ⟨_, rfl, by decide⟩
theorem sp_close : IsSp [')'] := ⟨_, rfl, by decide⟩

theorem wlay_inter : ∀ (ts : List Tok) (e : Nat), (∀ a ∈ ts, A3n a) →
    WLay (inter ts ++ [([')'], e)])
  | [], e, _ => ⟨Or.inl sp_close, fun h => by simp at h⟩
  | [a], e, h => ⟨enc_piece (h a (by simp)).a3, enc_bs (h a (by simp)).a3, fun _ => Or.inr sp_close,
      Or.inl sp_close, fun h => by simp at h⟩
  | a :: b :: r, e, h => by
    have ih := wlay_inter (b :: r) e (fun x hx => h x (by simp [hx]))
    refine ⟨enc_piece (h a (by simp)).a3, enc_bs (h a (by simp)).a3, fun _ => Or.inr sp_bar, ?_⟩
    cases r with
    | nil => exact ⟨Or.inl sp_bar, fun h => by simp at h, fun _ => Or.inl sp_bar, ih⟩
    | cons c r => exact ⟨Or.inl sp_bar, fun h => by simp at h, fun _ => Or.inl sp_bar, ih⟩

theorem wlay_unionLay (ts : List Tok) (e : Nat) (h : ∀ a ∈ ts, A3n a) : WLay (unionLay ts e) := by
  have := wlay_inter ts e h
  unfold unionLay
  cases hi : inter ts ++ [([')'], e)] with
  | nil => simp at hi
  | cons x L =>
    obtain ⟨p, k⟩ := x
    rw [hi] at this
    exact ⟨Or.inl sp_open, fun h => by simp at h, fun _ => Or.inl sp_open, this⟩

theorem lt_inter : ∀ ts : List Tok, lt (inter ts) = join ['|'] ts
  | [] => rfl
  | [a] => by simp [inter, lt, join, enc_own]
  | a :: b :: r => by
    have e : join ['|'] (a :: b :: r) = a ++ ['|'] ++ join ['|'] (b :: r) := rfl
    rw [inter, lt_cons, lt_cons, lt_inter (b :: r), e, enc_own]
    simp [blanks]

theorem lt_unionLay (ts : List Tok) (e : Nat) :
    lt (unionLay ts e) = '(' :: (join ['|'] ts ++ ')' :: blanks e) := by
  simp [unionLay, lt_cons, lt_append, lt_inter, lt, blanks]

theorem map_dec_inter : ∀ ts : List Tok, (∀ a ∈ ts, A3n a) →
    (inter ts).map (fun x => dec x.1) = insertOr ts
  | [], _ => rfl
  | [a], h => by simp [inter, insertOr, dec_enc (h a (by simp)).a3]
  | a :: b :: r, h => by
    have e : insertOr (a :: b :: r) = a :: ['|'] :: insertOr (b :: r) := rfl
    rw [inter, List.map_cons, List.map_cons, map_dec_inter (b :: r) (fun x hx => h x (by simp [hx])),
      e, dec_enc (h a (by simp)).a3]
    simp [dec]

/-- the symbols a token stands for in the text -/
def expand (t : Tok) : List Tok :=
  if t = ['.'] then ['('] :: (insertOr escapedPrintables ++ [[')']]) else [t]

def expT (t : Tok) : Tok := if t = ['.'] then dotReplacement else t

def lay1 (t : Tok) (e : Nat) : List (List Char × Nat) :=
  if t = ['.'] then unionLay escapedPrintables e else [(enc t, own t + e)]

def layTop : List Tok → List (List Char × Nat)
  | [] => []
  | [t] => lay1 t 0
  | t :: t' :: r => lay1 t 1 ++ layTop (t' :: r)

def a3nB (a : List Char) : Bool :=
  (a.length == 2 && a.head? == some '\\') ||
    (a.length == 1 && a.all fun c => c != ' ' && c != '\\' && !isSpecialChar c)

theorem a3nB_sound (a : List Char) (h : a3nB a = true) : A3n a := by
  unfold a3nB at h
  rcases Bool.or_eq_true_iff.mp h with h | h
  · simp only [Bool.and_eq_true, beq_iff_eq] at h
    match a, h with
    | [c, d], h =>
      simp only [List.head?_cons, Option.some.injEq] at h
      exact Or.inr ⟨d, by rw [h.2]⟩
  · simp only [Bool.and_eq_true, beq_iff_eq] at h
    match a, h with
    | [c], h =>
      have h2 := h.2
      simp only [List.all_cons, List.all_nil, Bool.and_true, Bool.and_eq_true, bne_iff_ne, ne_eq,
        Bool.not_eq_true'] at h2
      refine Or.inl ⟨⟨by simp, ?_⟩, ?_⟩
      · intro d hd; simp at hd; subst hd; exact ⟨h2.1.1, h2.1.2, h2.2⟩
      · intro e; have := congrArg List.length e; simp at this

theorem escapedPrintables_a3n : ∀ a ∈ escapedPrintables, A3n a := by
  have : escapedPrintables.all a3nB = true := by decide
  intro a ha
  exact a3nB_sound a (List.all_eq_true.mp this a ha)

theorem lt_lay1 (t : Tok) (e : Nat) : lt (lay1 t e) = expT t ++ blanks e := by
  unfold lay1 expT
  split
  · rw [lt_unionLay, dotReplacement]; simp
  · simp [lt, blanks_add, ← List.append_assoc, enc_own]

theorem lt_layTop : ∀ ts : List Tok, lt (layTop ts) = join [' '] (ts.map expT)
  | [] => rfl
  | [t] => by simp [layTop, lt_lay1, join, blanks]
  | t :: t' :: r => by
    rw [layTop, lt_append, lt_lay1, lt_layTop (t' :: r)]
    simp [join, blanks]

theorem LastOK.append (L1 L2 : List (List Char × Nat)) (hne : L2 ≠ []) (h : LastOK L2) :
    LastOK (L1 ++ L2) := by
  intro L0 p k e
  rcases snoc_cases L2 with rfl | ⟨L2', x, rfl⟩
  · exact absurd rfl hne
  · rw [← List.append_assoc] at e
    have := snoc_inj e
    exact h L2' p k (by rw [this.2])

theorem lastOK_single (p : List Char) (k : Nat) (h : k = if p = ['\\'] then 1 else 0) :
    LastOK [(p, k)] := by
  intro L0 q j e
  have : L0 = [] ∧ (p, k) = (q, j) := by
    cases L0 with
    | nil => simpa using e
    | cons x L0 => simp at e
  obtain ⟨_, e2⟩ := this
  simp only [Prod.mk.injEq] at e2
  obtain ⟨rfl, rfl⟩ := e2
  exact h

theorem own_eq {a : List Char} (h : A3 a) : own a = if enc a = ['\\'] then 1 else 0 := by
  by_cases hx : a = ['\\', ' ']
  · subst hx; rfl
  · have : enc a ≠ ['\\'] := fun e => by
      have := enc_bs h e; simp [own, hx] at this
    simp [own, hx, this]

theorem wlay_lay1 (t : Tok) (e : Nat) (h : t ≠ ['.'] → A3 t) : WLay (lay1 t e) := by
  unfold lay1
  split
  · exact wlay_unionLay _ _ escapedPrintables_a3n
  · rename_i ht
    exact ⟨enc_piece (h ht), fun e' => by have := enc_bs (h ht) e'; omega⟩

theorem lay1_snoc (t : Tok) (e : Nat) : ∃ L1 q, lay1 t e = L1 ++ [(q, (if t = ['.'] then 0 else own t) + e)] := by
  unfold lay1
  split
  · exact ⟨(['('], 0) :: inter escapedPrintables, [')'], by simp [unionLay]⟩
  · exact ⟨[], enc t, rfl⟩

theorem layTop_ne_nil : ∀ ts : List Tok, ts ≠ [] → layTop ts ≠ []
  | [], h => absurd rfl h
  | [t], _ => by
    obtain ⟨L1, q, e⟩ := lay1_snoc t 0
    rw [layTop, e]; simp
  | t :: t' :: r, _ => by
    obtain ⟨L1, q, e⟩ := lay1_snoc t 1
    rw [layTop, e]; simp

theorem wlay_layTop : ∀ ts : List Tok, (∀ t ∈ ts, t ≠ ['.'] → A3 t) → WLay (layTop ts)
  | [], _ => trivial
  | [t], h => wlay_lay1 t 0 (h t (by simp))
  | t :: t' :: r, h => by
    have ih := wlay_layTop (t' :: r) (fun x hx => h x (by simp [hx]))
    have h1 := wlay_lay1 t 1 (h t (by simp))
    obtain ⟨L1, q, e⟩ := lay1_snoc t 1
    rw [layTop, e, List.append_assoc]
    rw [e] at h1
    exact WLay.append L1 _ q _ h1 (by omega) ih

theorem lastOK_lay1 (t : Tok) (h : t ≠ ['.'] → A3 t) : LastOK (lay1 t 0) := by
  unfold lay1
  split
  · have : unionLay escapedPrintables 0 = ((['('], 0) :: inter escapedPrintables) ++ [([')'], 0)] := by
      simp [unionLay]
    rw [this]
    exact LastOK.append _ _ (by simp) (lastOK_single _ _ (by simp))
  · rename_i ht
    exact lastOK_single _ _ (by simpa using own_eq (h ht))

theorem lastOK_layTop : ∀ ts : List Tok, ts ≠ [] → (∀ t ∈ ts, t ≠ ['.'] → A3 t) → LastOK (layTop ts)
  | [], h, _ => absurd rfl h
  | [t], _, h => lastOK_lay1 t (h t (by simp))
  | t :: t' :: r, _, h =>
    LastOK.append _ _ (layTop_ne_nil _ (by simp))
      (lastOK_layTop (t' :: r) (by simp) (fun x hx => h x (by simp [hx])))

theorem map_dec_lay1 (t : Tok) (e : Nat) (h : t ≠ ['.'] → A3 t) :
    (lay1 t e).map (fun x => dec x.1) = expand t := by
  unfold lay1 expand
  split
  · have := map_dec_inter _ escapedPrintables_a3n
    simp only [unionLay, List.map_cons, List.map_append, this, List.map_nil]
    simp [dec]
  · rename_i ht
    simp [dec_enc (h ht)]

theorem map_dec_layTop : ∀ ts : List Tok, (∀ t ∈ ts, t ≠ ['.'] → A3 t) →
    (layTop ts).map (fun x => dec x.1) = ts.flatMap expand
  | [], _ => rfl
  | [t], h => by simp [layTop, map_dec_lay1 t 0 (h t (by simp))]
  | t :: t' :: r, h => by
    rw [layTop, List.map_append, map_dec_lay1 t 1 (h t (by simp)),
      map_dec_layTop (t' :: r) (fun x hx => h x (by simp [hx]))]
    simp

/-- the reader's components of the text `_separate` writes -/
theorem components_separate (ts : List Tok) (hne : ts ≠ []) (h : ∀ t ∈ ts, t ≠ ['.'] → A3 t) :
    components (preProcess (join [' '] (ts.map expT))) = ts.flatMap expand := by
  rw [← lt_layTop, components_lay _ (wlay_layTop ts h) (layTop_ne_nil ts hne)
    (lastOK_layTop ts hne h), map_dec_layTop ts h]

end Pfl.PyRx.E2E
