/-
Token-level lemmas for the regex reader: parenthesis depths, first complete closing, stripping of
extreme parentheses, precedence computation, and the main theorem `parse_toks`.
-/
import Pfl.Proofs.ReaderChars
namespace Pfl.RegexReader.Lem

/-! ### depths and the first complete closing -/

def bal (cs : List (List Char)) : Int := (cs.map parVal).sum

@[simp] theorem bal_nil : bal [] = 0 := rfl
@[simp] theorem bal_cons (c : List Char) (cs) : bal (c :: cs) = parVal c + bal cs := by
  simp [bal]
@[simp] theorem bal_append (a b : List (List Char)) : bal (a ++ b) = bal a + bal b := by
  simp [bal]

def depthsFrom (d : Int) : List (List Char) → List Int
  | [] => []
  | c :: cs => (d + parVal c) :: depthsFrom (d + parVal c) cs

@[simp] theorem depthsFrom_length (d : Int) (cs : List (List Char)) :
    (depthsFrom d cs).length = cs.length := by
  induction cs generalizing d with
  | nil => rfl
  | cons c cs ih => simp [depthsFrom, ih]

theorem depthsFrom_append (d : Int) (a b : List (List Char)) :
    depthsFrom d (a ++ b) = depthsFrom d a ++ depthsFrom (d + bal a) b := by
  induction a generalizing d with
  | nil => simp [depthsFrom]
  | cons c a ih => simp [depthsFrom, ih, Int.add_assoc]

theorem depths_eq (cs : List (List Char)) : depths cs = depthsFrom 0 cs := by
  unfold depths
  have : ∀ (acc : List Int) (d : Int),
      (cs.foldl (fun (acc : List Int × Int) c => let d := acc.2 + parVal c; (acc.1 ++ [d], d))
        (acc, d)).1 = acc ++ depthsFrom d cs := by
    induction cs with
    | nil => intro acc d; simp [depthsFrom]
    | cons c cs ih => intro acc d; simp [depthsFrom, ih]
  simpa using this [] 0

/-- index (relative) of the first position where the running depth, started at `d`, is 0 -/
def scan (d : Int) : List (List Char) → Option Nat
  | [] => none
  | c :: cs => if d + parVal c = 0 then some 0 else (scan (d + parVal c) cs).map (· + 1)

theorem find_depthsFrom (d : Int) (cs : List (List Char)) (s : Nat) :
    ((depthsFrom d cs).zip (List.range' s cs.length)).find? (fun e => e.1 = 0) =
      (scan d cs).map (fun j => ((0 : Int), s + j)) := by
  induction cs generalizing d s with
  | nil => rfl
  | cons c cs ih =>
    simp only [depthsFrom, List.length_cons, List.range'_succ, List.zip_cons_cons, scan]
    by_cases h : d + parVal c = 0
    · simp [h]
    · rw [List.find?_cons_of_neg (by simpa using h), ih, if_neg h]
      cases scan (d + parVal c) cs <;> simp <;> omega

theorem firstClosing_append (pre post : List (List Char)) :
    firstClosing (depths (pre ++ post)) pre.length =
      match scan (bal pre) post with
      | some j => ((pre.length + j : Nat) : Int)
      | none => -2 := by
  unfold firstClosing
  rw [depths_eq, depthsFrom_append, List.range_eq_range']
  have hlen : (depthsFrom 0 pre ++ depthsFrom (0 + bal pre) post).length
      = pre.length + post.length := by simp
  rw [hlen, ← List.range'_append_1 (s := 0)]
  rw [List.zip_append (by simp), List.drop_left' (by simp)]
  simp only [Int.zero_add, Nat.zero_add]
  rw [find_depthsFrom]
  cases scan (bal pre) post <;> simp

theorem firstClosing_zero (cs : List (List Char)) :
    firstClosing (depths cs) 0 =
      match scan 0 cs with
      | some j => ((j : Nat) : Int)
      | none => -2 := by
  have := firstClosing_append [] cs
  simpa using this

/-! ### balanced segments and groups -/

/-- a balanced segment: skipping it does not change a positive running depth, and the depth
never reaches 0 inside -/
def Inner (ts : List (List Char)) : Prop :=
  bal ts = 0 ∧ ∀ d : Int, 0 < d → ∀ rest, scan d (ts ++ rest) = (scan d rest).map (· + ts.length)

theorem Inner.nil : Inner [] := by
  refine ⟨rfl, fun d _ rest => ?_⟩
  simp

theorem Inner.single {x : List Char} (h : parVal x = 0) : Inner [x] := by
  refine ⟨by simp [h], fun d hd rest => ?_⟩
  have : d ≠ 0 := by omega
  simp [scan, h, this]

theorem Inner.append {a b : List (List Char)} (ha : Inner a) (hb : Inner b) : Inner (a ++ b) := by
  refine ⟨by simp [ha.1, hb.1], fun d hd rest => ?_⟩
  rw [List.append_assoc, ha.2 d hd, hb.2 d hd]
  cases scan d rest <;> simp <;> omega

theorem parVal_open : parVal ['('] = 1 := by decide
theorem parVal_close : parVal [')'] = -1 := by decide

theorem Inner.paren {ts : List (List Char)} (h : Inner ts) : Inner (['('] :: ts ++ [[')']]) := by
  refine ⟨by simp [h.1, parVal_open, parVal_close], fun d hd rest => ?_⟩
  have h1 : d + 1 ≠ 0 := by omega
  have h2 : d + 1 + -1 = d := by omega
  have h3 : d ≠ 0 := by omega
  simp only [List.cons_append, List.append_assoc, scan, parVal_open, h1, if_false]
  rw [h.2 (d + 1) (by omega)]
  simp only [List.nil_append, scan, parVal_close, h2, h3, if_false]
  cases scan d rest <;> simp <;> omega

/-- a group: one non-parenthesis token, or a parenthesised balanced segment -/
def Grp (g : List (List Char)) : Prop :=
  (∃ x, g = [x] ∧ x ≠ ['('] ∧ x ≠ [')']) ∨ (∃ ts, g = ['('] :: ts ++ [[')']] ∧ Inner ts)

theorem parVal_other {x : List Char} (h1 : x ≠ ['(']) (h2 : x ≠ [')']) : parVal x = 0 := by
  simp [parVal, h1, h2]

theorem Grp.inner {g : List (List Char)} (h : Grp g) : Inner g := by
  rcases h with ⟨x, rfl, h1, h2⟩ | ⟨ts, rfl, hts⟩
  · exact Inner.single (parVal_other h1 h2)
  · exact hts.paren

theorem Grp.length_pos {g : List (List Char)} (h : Grp g) : 0 < g.length := by
  rcases h with ⟨x, rfl, h1, h2⟩ | ⟨ts, rfl, hts⟩ <;> simp

theorem Grp.scan {g : List (List Char)} (h : Grp g) (rest : List (List Char)) :
    scan 0 (g ++ rest) = some (g.length - 1) := by
  rcases h with ⟨x, rfl, h1, h2⟩ | ⟨ts, rfl, hts⟩
  · simp [Lem.scan, parVal_other h1 h2]
  · simp only [List.cons_append, List.append_assoc, Lem.scan, parVal_open]
    rw [if_neg (by decide), hts.2 _ (by decide)]
    simp [Lem.scan, parVal_close]

theorem Grp.paren {ts : List (List Char)} (h : Inner ts) : Grp (['('] :: ts ++ [[')']]) :=
  Or.inr ⟨ts, rfl, h⟩

theorem endFirstGroup_grp (pre g rest : List (List Char)) (hpre : bal pre = 0) (hg : Grp g) :
    endFirstGroup (pre ++ g ++ rest) pre.length = .ok (pre.length + g.length) := by
  have hfc := firstClosing_append pre (g ++ rest)
  rw [hpre, hg.scan, ← List.append_assoc] at hfc
  simp only at hfc
  have hpos := hg.length_pos
  have hlen : ¬ pre.length ≥ (pre ++ g ++ rest).length := by simp; omega
  have hget : (pre ++ g ++ rest)[pre.length]? = g.head? := by
    cases g with
    | nil => simp at hpos
    | cons x g => simp
  generalize pre ++ g ++ rest = cs at *
  unfold endFirstGroup
  rw [if_neg hlen, hget]
  rcases hg with ⟨x, rfl, h1, h2⟩ | ⟨ts, rfl, hts⟩
  · simp [h1, h2]
  · simp only [List.cons_append, List.head?_cons]
    have hgt : firstClosing (depths cs) pre.length > 0 := by rw [hfc]; simp; omega
    rw [if_neg (by decide), if_pos trivial, if_pos hgt, hfc]
    simp; omega

theorem endFirstGroup_zero (g rest : List (List Char)) (hg : Grp g) :
    endFirstGroup (g ++ rest) 0 = .ok g.length := by
  simpa using endFirstGroup_grp [] g rest rfl hg

/-! ### stripping the extreme parentheses -/

theorem isSurrounded_grp_rest (g rest : List (List Char)) (hg : Grp g) :
    isSurrounded (g ++ rest) = decide (rest = []) := by
  unfold isSurrounded
  rw [firstClosing_zero, hg.scan]
  have := hg.length_pos
  cases rest with
  | nil => simp; omega
  | cons x rest => simp; omega

theorem stripParens_paren (f : Nat) (ts : List (List Char)) (h : Inner ts) :
    stripParens (f + 1) (['('] :: ts ++ [[')']]) = stripParens f ts := by
  have hs := isSurrounded_grp_rest _ [] (Grp.paren h)
  simp only [List.append_nil, decide_true] at hs
  rw [List.cons_append] at hs ⊢
  rw [stripParens, if_pos rfl, hs]
  simp

theorem stripParens_stop_tok (f : Nat) (x : List Char) (l : List (List Char)) (h : x ≠ ['(']) :
    stripParens (f + 1) (x :: l) = .ok (x :: l) := by
  rw [stripParens]
  simp [h]

theorem stripParens_stop_grp (f : Nat) (g rest : List (List Char)) (hg : Grp g)
    (hr : rest ≠ []) : stripParens (f + 1) (g ++ rest) = .ok (g ++ rest) := by
  have hs := isSurrounded_grp_rest g rest hg
  simp only [hr, decide_false] at hs
  have := hg.length_pos
  cases hgr : g ++ rest with
  | nil => simp at hgr; simp [hgr.1] at this
  | cons c l =>
    rw [hgr] at hs
    rw [stripParens]
    simp [hs]

def wrap : Nat → List (List Char) → List (List Char)
  | 0, ts => ts
  | n + 1, ts => ['('] :: wrap n ts ++ [[')']]

theorem Inner.wrap {ts : List (List Char)} (h : Inner ts) : ∀ n, Inner (wrap n ts)
  | 0 => h
  | n + 1 => (Inner.wrap h n).paren

theorem wrap_length (ts : List (List Char)) : ∀ n, (wrap n ts).length = ts.length + 2 * n
  | 0 => rfl
  | n + 1 => by simp [wrap, wrap_length ts n]; omega

theorem stripParens_wrap (ts : List (List Char)) (h : Inner ts)
    (hstop : ∀ f, stripParens (f + 1) ts = .ok ts) :
    ∀ n f, n < f → stripParens f (wrap n ts) = .ok ts
  | 0, f, hf => by
    obtain ⟨f, rfl⟩ : ∃ f', f = f' + 1 := ⟨f - 1, by omega⟩
    exact hstop f
  | n + 1, f, hf => by
    obtain ⟨f, rfl⟩ : ∃ f', f = f' + 1 := ⟨f - 1, by omega⟩
    rw [wrap, stripParens_paren f _ (h.wrap n)]
    exact stripParens_wrap ts h hstop n f (by omega)

/-! ### precedence computation -/

theorem insertParens_zero (a b : List (List Char)) :
    insertParens (a ++ b) 0 a.length = ['('] :: a ++ [')'] :: b := by
  simp [insertParens, List.take_append, List.drop_append]

theorem toNode_star : toNode ['*'] = .nStar := by simp [toNode]
theorem toNode_dot : toNode ['.'] = .nConcat := by simp [toNode]
theorem toNode_bar : toNode ['|'] = .nUnion := by simp [toNode]

theorem getElem?_mid (g : List (List Char)) (x : List Char) (rest : List (List Char)) :
    (g ++ x :: rest)[g.length]? = some x := by simp

theorem cp_done (f : Nat) (g : List (List Char)) (hg : Grp g) :
    computePrecedence (f + 1) g = .ok g := by
  rw [computePrecedence]
  split
  · rfl
  · have := endFirstGroup_zero g [] hg
    rw [List.append_nil] at this
    rw [this]
    simp [bind, Except.bind]

theorem cp_star (f : Nat) (g rest : List (List Char)) (hg : Grp g) :
    computePrecedence (f + 1) (g ++ ['*'] :: rest) =
      computePrecedence f (['('] :: g ++ [['*'], [')']] ++ rest) := by
  have hpos := hg.length_pos
  rw [computePrecedence, if_neg (by simp; omega), endFirstGroup_zero g _ hg]
  simp only [bind, Except.bind]
  rw [if_neg (by simp), getElem?_mid]
  simp only [Option.getD_some, toNode_star, if_true]
  have := insertParens_zero (g ++ [['*']]) rest
  simp only [List.length_append, List.length_cons, List.length_nil, List.append_assoc,
    List.cons_append, List.nil_append, Nat.zero_add] at this
  rw [this]
  simp

theorem cp_union (f : Nat) (g rest : List (List Char)) (hg : Grp g) :
    computePrecedence (f + 1) (g ++ ['|'] :: rest) = .ok (g ++ ['|'] :: rest) := by
  have hpos := hg.length_pos
  rw [computePrecedence, if_neg (by simp; omega), endFirstGroup_zero g _ hg]
  simp only [bind, Except.bind]
  rw [if_neg (by simp), getElem?_mid]
  simp [toNode_bar]

theorem scan_step (cs : List (List Char)) (f endG e2 : Nat) (node : Node)
    (h1 : endG < cs.length) (h2 : node ≠ .nUnion)
    (h3 : endFirstGroup cs (if isOperatorNotStar node = true then endG + 1 else endG) = .ok e2) :
    scanToUnion cs (f + 1) endG node =
      scanToUnion cs f e2 (if e2 < cs.length then toNode (cs[e2]?.getD []) else node) := by
  rw [scanToUnion, if_pos ⟨h1, h2⟩]
  simp only [h3, bind, Except.bind]

theorem scan_stop (cs : List (List Char)) (f endG : Nat) (node : Node)
    (h1 : ¬ endG < cs.length) :
    scanToUnion cs (f + 1) endG node = .ok (endG, node) := by
  rw [scanToUnion, if_neg (fun h => h1 h.1)]

theorem bal_grp_dot (g : List (List Char)) (hg : Grp g) : bal (g ++ [['.']]) = 0 := by
  simp [hg.inner.1, parVal]

theorem scan_concat (g g' st : List (List Char)) (hg : Grp g) (hg' : Grp g')
    (hst : st = [] ∨ st = [['*']]) (f : Nat) :
    ∃ node, scanToUnion (g ++ ['.'] :: (g' ++ st)) (f + 3) g.length .nConcat =
      .ok ((g ++ ['.'] :: (g' ++ st)).length, node) ∧ node ≠ .nUnion := by
  have e1 : endFirstGroup (g ++ ['.'] :: (g' ++ st)) (g.length + 1) =
      .ok (g.length + 1 + g'.length) := by
    have := endFirstGroup_grp (g ++ [['.']]) g' st (bal_grp_dot g hg) hg'
    simpa using this
  rcases hst with rfl | rfl
  · refine ⟨.nConcat, ?_, by decide⟩
    rw [scan_step _ _ _ (g.length + 1 + g'.length) _ (by simp) (by decide)
      (by simpa [isOperatorNotStar] using e1)]
    rw [if_neg (by simp; omega), scan_stop _ _ _ _ (by simp; omega)]
    simp; omega
  · refine ⟨.nStar, ?_, by decide⟩
    rw [scan_step _ _ _ (g.length + 1 + g'.length) _ (by simp) (by decide)
      (by simpa [isOperatorNotStar] using e1)]
    have hget : (g ++ ['.'] :: (g' ++ [['*']]))[g.length + 1 + g'.length]? = some ['*'] := by
      have := getElem?_mid (g ++ ['.'] :: g') ['*'] []
      simp [Nat.add_assoc, Nat.add_comm 1]
    rw [if_pos (by simp; omega), hget]
    simp only [Option.getD_some, toNode_star]
    have e2 : endFirstGroup (g ++ ['.'] :: (g' ++ [['*']])) (g.length + 1 + g'.length) =
        .ok (g.length + 1 + g'.length + 1) := by
      have := endFirstGroup_grp (g ++ ['.'] :: g') [['*']] []
        (by simp [hg.inner.1, hg'.inner.1, parVal]) (Or.inl ⟨_, rfl, by decide, by decide⟩)
      simpa [Nat.add_assoc, Nat.add_comm 1] using this
    rw [scan_step _ _ _ (g.length + 1 + g'.length + 1) _ (by simp; omega) (by decide)
      (by simpa [isOperatorNotStar] using e2)]
    rw [if_neg (by simp; omega), scan_stop _ _ _ _ (by simp; omega)]
    simp; omega

theorem cp_concat (f : Nat) (g g' st : List (List Char)) (hg : Grp g) (hg' : Grp g')
    (hst : st = [] ∨ st = [['*']]) :
    computePrecedence (f + 1) (g ++ ['.'] :: (g' ++ st)) = .ok (g ++ ['.'] :: (g' ++ st)) := by
  have hpos := hg.length_pos
  have hpos' := hg'.length_pos
  rw [computePrecedence, if_neg (by simp; omega), endFirstGroup_zero g _ hg]
  simp only [bind, Except.bind]
  rw [if_neg (by simp), getElem?_mid]
  simp only [Option.getD_some, toNode_dot]
  rw [if_neg (by decide), if_neg (by decide)]
  obtain ⟨node, hn, hnu⟩ := scan_concat g g' st hg hg' hst ((g ++ ['.'] :: (g' ++ st)).length - 1)
  have hlen : (g ++ ['.'] :: (g' ++ st)).length + 2 =
      (g ++ ['.'] :: (g' ++ st)).length - 1 + 3 := by simp; omega
  rw [hlen, hn]
  simp [hnu]

/-! ### the tokens of a tree -/

theorem IsPl.ne_sp {x : List Char} (h : IsPl x) {c : Char} (hc : isSpecialChar c = true) :
    x ≠ [c] := by
  rintro rfl
  have := (h.2 c (by simp)).2.2
  rw [hc] at this
  exact absurd this (by simp)

theorem IsPl.grp {x : List Char} (h : IsPl x) : Grp [x] :=
  Or.inl ⟨x, rfl, h.ne_sp (by decide), h.ne_sp (by decide)⟩

theorem toNode_pl {x : List Char} (h : IsPl x) (he : x ≠ "epsilon".toList) :
    toNode x = .nSym x := by
  unfold toNode
  have h0 : x.isEmpty = false := by simpa using h.1
  have h1 : x ≠ ['.'] := h.ne_sp (by decide)
  have h2 : x ≠ ['|'] := h.ne_sp (by decide)
  have h3 : x ≠ ['+'] := h.ne_sp (by decide)
  have h4 : x ≠ ['*'] := h.ne_sp (by decide)
  have h5 : x ≠ ['$'] := h.ne_sp (by decide)
  have h6 : x.head? ≠ some '\\' := by
    cases x with
    | nil => simp
    | cons c u => simpa using (h.2 c (by simp)).2.1
  simp only [h0, h1, h2, h3, h4, h5, h6, he, Bool.false_eq_true, if_false, or_self]

theorem PSym.toNode {s : String} (h : PSym s) : toNode s.toList = .nSym s.toList :=
  toNode_pl h.1 (fun e => h.2 (String.toList_inj.mp e))

theorem toks_inner : ∀ (r : Rx), PRx r → Inner (toks r)
  | .empty, h => absurd h (by simp [PRx])
  | .eps, _ => Inner.single (by decide)
  | .sym s, h => h.1.grp.inner
  | .cat a b, h => by
    have := ((toks_inner a h.1).append (Inner.single (x := ['.']) (by decide))).append
      (toks_inner b h.2)
    simpa [toks] using this.paren
  | .alt a b, h => by
    have := ((toks_inner a h.1).append (Inner.single (x := ['|']) (by decide))).append
      (toks_inner b h.2)
    simpa [toks] using this.paren
  | .star a, h => by
    have := (toks_inner a h).paren.append (Inner.single (x := ['*']) (by decide))
    simpa [toks] using this

/-- the first group of the tokens of a tree -/
def gtoks : Rx → List (List Char)
  | .star a => ['('] :: toks a ++ [[')']]
  | r => toks r

/-- what follows the first group -/
def stl : Rx → List (List Char)
  | .star _ => [['*']]
  | _ => []

theorem toks_split (r : Rx) : toks r = gtoks r ++ stl r := by
  cases r <;> simp [toks, gtoks, stl]

theorem stl_cases (r : Rx) : stl r = [] ∨ stl r = [['*']] := by
  cases r <;> simp [stl]

theorem gtoks_grp : ∀ (r : Rx), PRx r → Grp (gtoks r)
  | .empty, h => absurd h (by simp [PRx])
  | .eps, _ => Or.inl ⟨_, rfl, by decide, by decide⟩
  | .sym s, h => h.1.grp
  | .cat a b, h => by
    have := ((toks_inner a h.1).append (Inner.single (x := ['.']) (by decide))).append
      (toks_inner b h.2)
    simpa [toks, gtoks] using Grp.paren this
  | .alt a b, h => by
    have := ((toks_inner a h.1).append (Inner.single (x := ['|']) (by decide))).append
      (toks_inner b h.2)
    simpa [toks, gtoks] using Grp.paren this
  | .star a, h => Grp.paren (toks_inner a h)

/-- number of parentheses the precedence computation puts around a first operand -/
def fstN : Rx → Nat
  | .star _ => 1
  | _ => 0

theorem fst_grp (r : Rx) (h : PRx r) : Grp (wrap (fstN r) (toks r)) := by
  cases r with
  | star a => exact Grp.paren (toks_inner (.star a) h)
  | _ => exact gtoks_grp _ h

theorem cp_op (op : List Char) (hop : op = ['.'] ∨ op = ['|']) (a b : Rx) (ha : PRx a)
    (hb : PRx b) (f : Nat) (hf : 2 ≤ f) :
    computePrecedence f (toks a ++ op :: toks b) =
      .ok (wrap (fstN a) (toks a) ++ op :: toks b) := by
  obtain ⟨f, rfl⟩ : ∃ f', f = f' + 2 := ⟨f - 2, by omega⟩
  have key : ∀ f g, Grp g → computePrecedence (f + 1) (g ++ op :: toks b) =
      .ok (g ++ op :: toks b) := by
    intro f g hg
    rcases hop with rfl | rfl
    · rw [toks_split b]
      exact cp_concat f g _ _ hg (gtoks_grp b hb) (stl_cases b)
    · exact cp_union f g _ hg
  cases a with
  | star a =>
    have h1 := cp_star (f + 1) (gtoks (.star a)) (op :: toks b) (gtoks_grp _ ha)
    have h2 := key f _ (fst_grp (.star a) ha)
    simp only [gtoks, toks, fstN, wrap] at h1 h2 ⊢
    simp only [List.cons_append, List.append_assoc, List.nil_append] at h1 h2 ⊢
    rw [h1, h2]
  | empty => exact absurd ha (by simp [PRx])
  | eps => exact key (f + 1) _ (gtoks_grp _ ha)
  | sym s => exact key (f + 1) _ (gtoks_grp _ ha)
  | cat x y => exact key (f + 1) _ (gtoks_grp _ ha)
  | alt x y => exact key (f + 1) _ (gtoks_grp _ ha)

theorem cp_starR (a : Rx) (ha : PRx a) (f : Nat) (hf : 2 ≤ f) :
    computePrecedence f (toks (.star a)) = .ok (wrap 1 (toks (.star a))) := by
  obtain ⟨f, rfl⟩ : ∃ f', f = f' + 2 := ⟨f - 2, by omega⟩
  have h1 := cp_star (f + 1) (gtoks (.star a)) [] (gtoks_grp (.star a) ha)
  have h2 := cp_done f _ (fst_grp (.star a) ha)
  simp only [gtoks, toks, fstN, wrap] at h1 h2 ⊢
  simp only [List.cons_append, List.append_assoc, List.nil_append, List.append_nil] at h1 h2 ⊢
  rw [h1, h2]

/-! ### the last stage of `parse` -/

/-- the operator case of `parse` -/
def finish2 (fuel : Nat) (cs : List (List Char)) : Except Err Rx := do
  let endG ← endFirstGroup cs 0
  match cs[endG]? with
  | none => .error .misformed
  | some c =>
    let next := toNode c
    if next = .nStar then do
      let son ← parse fuel (joinBlank (cs.take endG))
      .ok (.star son)
    else
      let isSym := match next with
        | .nSym _ => true | .nEps => true | .nEmpty => true | _ => false
      let begin2 := if isSym then endG else endG + 1
      let a ← parse fuel (joinBlank (cs.take endG))
      let b ← parse fuel (joinBlank (cs.drop begin2))
      if isSym then .ok (.cat a b)
      else if next = .nUnion then .ok (.alt a b) else .ok (.cat a b)

def finish (fuel : Nat) (cs : List (List Char)) : Except Err Rx :=
  match cs with
  | [] => .ok .empty
  | [c] =>
    match toNode c with
    | .nSym v => .ok (.sym (String.ofList v))
    | .nEps => .ok .eps
    | .nEmpty => .ok .empty
    | _ => .error .misformed
  | _ => finish2 fuel cs

theorem parse_succ (fuel : Nat) (s : List Char) :
    parse (fuel + 1) s = (do
      let cs := components (preProcess s)
      let cs ← stripParens (cs.length + 2) cs
      let cs ← computePrecedence (cs.length + 2) cs
      let cs ← stripParens (cs.length + 2) cs
      finish fuel cs) := by
  rw [parse]
  rfl

theorem finish_two (fuel : Nat) (cs : List (List Char)) (h : 2 ≤ cs.length) :
    finish fuel cs = finish2 fuel cs := by
  match cs, h with
  | _ :: _ :: _, _ => rfl

theorem finish_star (fuel : Nat) (g : List (List Char)) (hg : Grp g) :
    finish fuel (g ++ [['*']]) = (do
      let son ← parse fuel (joinBlank g)
      .ok (.star son)) := by
  have := hg.length_pos
  rw [finish_two _ _ (by simp; omega), finish2, endFirstGroup_zero g _ hg]
  simp only [bind, Except.bind]
  rw [getElem?_mid]
  simp [toNode_star]

theorem finish_bin (fuel : Nat) (g rest : List (List Char)) (hg : Grp g) (op : List Char)
    (hop : op = ['.'] ∨ op = ['|']) :
    finish fuel (g ++ op :: rest) = (do
      let a ← parse fuel (joinBlank g)
      let b ← parse fuel (joinBlank rest)
      if op = ['|'] then .ok (.alt a b) else .ok (.cat a b)) := by
  have := hg.length_pos
  rw [finish_two _ _ (by simp; omega), finish2, endFirstGroup_zero g _ hg]
  simp only [bind, Except.bind]
  rw [getElem?_mid]
  rcases hop with rfl | rfl
  · simp [toNode_dot]
  · simp [toNode_bar]

/-! ### the main theorem at token level -/

theorem wrap_paren (ts : List (List Char)) :
    ∀ n, wrap n (['('] :: ts ++ [[')']]) = wrap (n + 1) ts
  | 0 => rfl
  | n + 1 => by rw [wrap, wrap_paren ts n]; rfl

theorem wrap_atm (ts : List (List Char)) (h : ∀ a ∈ ts, Atm a) : ∀ n, ∀ a ∈ wrap n ts, Atm a
  | 0 => h
  | n + 1 => by
    intro a ha
    simp only [wrap, List.cons_append, List.mem_cons, List.mem_append, List.not_mem_nil,
      or_false] at ha
    rcases ha with rfl | ha | rfl
    · exact Or.inl ⟨_, rfl, by decide⟩
    · exact wrap_atm ts h n a ha
    · exact Or.inl ⟨_, rfl, by decide⟩

theorem wrap_ne_nil (ts : List (List Char)) (h : ts ≠ []) : ∀ n, wrap n ts ≠ []
  | 0 => h
  | n + 1 => by simp [wrap]

theorem toks_ne_nil (r : Rx) (h : PRx r) : toks r ≠ [] := by
  cases r <;> simp_all [toks, PRx]

theorem stage1 (ts : List (List Char)) (hi : Inner ts)
    (hstop : ∀ f, stripParens (f + 1) ts = .ok ts) (n : Nat) :
    stripParens ((wrap n ts).length + 2) (wrap n ts) = .ok ts :=
  stripParens_wrap ts hi hstop n _ (by rw [wrap_length]; omega)

theorem reentry (r : Rx) (h : PRx r) (n : Nat) :
    components (preProcess (joinBlank (wrap n (toks r)))) = wrap n (toks r) :=
  components_joinBlank _ (wrap_ne_nil _ (toks_ne_nil r h) n) (wrap_atm _ (toks_atm r h) n)

/-- enough fuel for `parse` -/
def need : Rx → Nat
  | .cat a b => need a + need b + 1
  | .alt a b => need a + need b + 1
  | .star a => need a + 1
  | _ => 1

theorem parse_single (fuel : Nat) (s : List Char) (x : List Char) (n : Nat) (hx : Grp [x])
    (hs : components (preProcess s) = wrap n [x]) :
    parse (fuel + 1) s = finish fuel [x] := by
  have hx1 : x ≠ ['('] := by
    rcases hx with ⟨y, e, h1, _⟩ | ⟨ts, e, _⟩
    · simp only [List.cons.injEq, and_true] at e; subst e; exact h1
    · have := congrArg List.length e; simp at this
  rw [parse_succ]
  simp only [hs]
  rw [stage1 [x] hx.inner (fun f => stripParens_stop_tok f x [] hx1) n]
  simp only [bind, Except.bind]
  rw [computePrecedence, if_pos (by simp)]
  simp only
  rw [stripParens_stop_tok _ x [] hx1]

theorem parse_bin (fuel : Nat) (s : List Char) (a b : Rx) (ha : PRx a) (hb : PRx b) (n : Nat)
    (op : List Char) (hop : op = ['.'] ∨ op = ['|'])
    (hs : components (preProcess s) = wrap (n + 1) (toks a ++ op :: toks b)) :
    parse (fuel + 1) s = finish fuel (wrap (fstN a) (toks a) ++ op :: toks b) := by
  have hop0 : parVal op = 0 := by rcases hop with rfl | rfl <;> decide
  have hi : Inner (toks a ++ op :: toks b) :=
    (toks_inner a ha).append ((Inner.single hop0).append (toks_inner b hb))
  have hstop : ∀ f, stripParens (f + 1) (toks a ++ op :: toks b) =
      .ok (toks a ++ op :: toks b) := by
    intro f
    have := stripParens_stop_grp f (gtoks a) (stl a ++ op :: toks b) (gtoks_grp a ha) (by simp)
    rw [← List.append_assoc, ← toks_split] at this
    exact this
  rw [parse_succ]
  simp only [hs]
  rw [stage1 _ hi hstop (n + 1)]
  simp only [bind, Except.bind]
  rw [cp_op op hop a b ha hb _ (by omega)]
  simp only
  rw [stripParens_stop_grp _ _ _ (fst_grp a ha) (by simp)]

theorem parse_starR (fuel : Nat) (s : List Char) (a : Rx) (ha : PRx a) (n : Nat)
    (hs : components (preProcess s) = wrap n (toks (.star a))) :
    parse (fuel + 1) s = finish fuel (toks (.star a)) := by
  have hi : Inner (toks (.star a)) := toks_inner (.star a) ha
  have hstop : ∀ f, stripParens (f + 1) (toks (.star a)) = .ok (toks (.star a)) := by
    intro f
    have := stripParens_stop_grp f (gtoks (.star a)) (stl (.star a)) (gtoks_grp _ ha)
      (by simp [stl])
    rw [← toks_split] at this
    exact this
  rw [parse_succ]
  simp only [hs]
  rw [stage1 _ hi hstop n]
  simp only [bind, Except.bind]
  rw [cp_starR a ha _ (by omega)]
  simp only
  rw [stage1 _ hi hstop 1]

theorem parse_toks : ∀ (r : Rx), PRx r → ∀ (n fuel : Nat) (s : List Char), need r ≤ fuel →
    components (preProcess s) = wrap n (toks r) → parse fuel s = .ok r
  | .empty, h => absurd h (by simp [PRx])
  | .eps, _ => by
    intro n fuel s hf hs
    obtain ⟨fuel, rfl⟩ : ∃ f', fuel = f' + 1 := ⟨fuel - 1, by simp [need] at hf; omega⟩
    rw [parse_single fuel s ['$'] n (Or.inl ⟨_, rfl, by decide, by decide⟩) hs]
    simp [finish, toNode]
  | .sym x, h => by
    intro n fuel s hf hs
    obtain ⟨fuel, rfl⟩ : ∃ f', fuel = f' + 1 := ⟨fuel - 1, by simp [need] at hf; omega⟩
    rw [parse_single fuel s x.toList n h.1.grp hs]
    simp [finish, h.toNode]
  | .cat a b, h => by
    intro n fuel s hf hs
    obtain ⟨fuel, rfl⟩ : ∃ f', fuel = f' + 1 := ⟨fuel - 1, by simp [need] at hf; omega⟩
    simp only [need] at hf
    have hs' : components (preProcess s) = wrap (n + 1) (toks a ++ ['.'] :: toks b) := by
      rw [hs, ← wrap_paren]; simp [toks]
    rw [parse_bin fuel s a b h.1 h.2 n _ (Or.inl rfl) hs',
      finish_bin fuel _ _ (fst_grp a h.1) _ (Or.inl rfl),
      parse_toks a h.1 (fstN a) fuel _ (by omega) (reentry a h.1 _),
      (show parse fuel (joinBlank (toks b)) = .ok b from
        parse_toks b h.2 0 fuel _ (by omega) (reentry b h.2 0))]
    simp [bind, Except.bind]
  | .alt a b, h => by
    intro n fuel s hf hs
    obtain ⟨fuel, rfl⟩ : ∃ f', fuel = f' + 1 := ⟨fuel - 1, by simp [need] at hf; omega⟩
    simp only [need] at hf
    have hs' : components (preProcess s) = wrap (n + 1) (toks a ++ ['|'] :: toks b) := by
      rw [hs, ← wrap_paren]; simp [toks]
    rw [parse_bin fuel s a b h.1 h.2 n _ (Or.inr rfl) hs',
      finish_bin fuel _ _ (fst_grp a h.1) _ (Or.inr rfl),
      parse_toks a h.1 (fstN a) fuel _ (by omega) (reentry a h.1 _),
      (show parse fuel (joinBlank (toks b)) = .ok b from
        parse_toks b h.2 0 fuel _ (by omega) (reentry b h.2 0))]
    simp [bind, Except.bind]
  | .star a, h => by
    intro n fuel s hf hs
    obtain ⟨fuel, rfl⟩ : ∃ f', fuel = f' + 1 := ⟨fuel - 1, by simp [need] at hf; omega⟩
    simp only [need] at hf
    have e : toks (.star a) = wrap 1 (toks a) ++ [['*']] := by simp [toks, wrap]
    rw [parse_starR fuel s a h n hs, e,
      finish_star fuel (wrap 1 (toks a)) (Grp.paren (toks_inner a h)),
      parse_toks a h 1 fuel _ (by omega) (reentry a h 1)]
    simp [bind, Except.bind]

end Pfl.RegexReader.Lem
