/-
Shared definitions for the soundness proof of the Earley model (C18): well-formed ranked stores,
the specification of `copy` and the specification of `buildGrammar`.
-/
import Pfl.Model.Earley
import Pfl.Proofs.EarleyLemmasUnify
namespace Pfl
namespace Earley
namespace Lem
open FsDag FsDag.Lem

/-- well-formed store: references in range, ranked (`InvR`: pointers keep the rank, a feature of an
object of rank `r > 0` has rank `r - 1`, atoms only at rank 0, pointer chains acyclic) and
congruence closed (`CCat`: the representative of a class has every feature of its members) -/
structure WFS (st : Store) (rk : Nat → Nat) : Prop where
  rng : Rng st
  inv : InvR st rk
  cc : ∀ i, CCat st i

/-- `(st1, F')` is the result of copying the sub-structure of `st` reachable from `F`:
`st1` extends `st`, `dom` is the set of copied objects (closed under pointers and features),
`κ` maps an object to its copy, every new object is the copy of exactly one object (`π` is the
inverse of `κ` on the new objects) -/
structure CopySpec (st : Store) (F : Nat) (st1 : Store) (F' : Nat) (κ : Nat → Nat)
    (dom : Nat → Prop) (π : Nat → Nat) : Prop where
  ext : ∃ e, st1 = st ++ e
  domF : dom F
  κF : κ F = F'
  dom_lt : ∀ j, dom j → j < st.length
  dom_ptr : ∀ j p, dom j → ptr st j = some p → dom p
  dom_cont : ∀ j g x, dom j → (g, x) ∈ cont st j → dom x
  rng : ∀ j, dom j → st.length ≤ κ j ∧ κ j < st1.length
  node : ∀ j, dom j → get st1 (κ j) =
    { value := val st (deref st j),
      content := (cont st j).map (fun e => (e.1, κ e.2)),
      pointer := (ptr st j).map κ }
  inj : ∀ j j', dom j → dom j' → κ j = κ j' → j = j'
  surj : ∀ n, st.length ≤ n → n < st1.length → dom (π n) ∧ κ (π n) = n

/-- the leaf below the symbol record `name` of the production object `F` carries the feature `v`:
a constant is an atom, all occurrences of a variable share the class of the object `vn v` -/
def LeafAt (st : Store) (F : Nat) (name : String) (v : String) (vn : String → Nat) : Prop :=
  ∃ n, byPath st F [name, "n"] = some n ∧
    if v.startsWith "?" then deref st n = deref st (vn v) else val st (deref st n) = some v

/-- the object `F` represents the features of the production `pr` -/
def ProdOK (st : Store) (pr : (String × Feat) × List (Sym × Feat)) (F : Nat) : Prop :=
  ∃ vn : String → Nat,
    (∀ v, pr.1.2 = some v → LeafAt st F "head" v vn) ∧
    (∀ (j : Nat) (X v : String), pr.2[j]? = some (Sym.var X, some v) → LeafAt st F (toString j) v vn)

end Lem
end Earley
end Pfl
