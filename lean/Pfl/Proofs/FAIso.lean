/-
Helper lemmas for C02_Iso: the lock-step walk, the isomorphism oracle.
-/
import Pfl.Props.C02_Min
import Pfl.Proofs.FAOracle
import Pfl.Proofs.FAEpsCopy
import Mathlib.Data.List.Sort
set_option linter.unusedSectionVars false
namespace Pfl

namespace FAIso
variable {α β : Type} [DecidableEq α] [DecidableEq β]

theorem nodup_eraseDups' {γ : Type} [BEq γ] [LawfulBEq γ] (l : List γ) : l.eraseDups.Nodup := by
  generalize hn : l.length = n
  induction n using Nat.strongRecOn generalizing l with
  | _ n ih =>
    cases l with
    | nil => simp
    | cons a as =>
      rw [List.eraseDups_cons, List.nodup_cons]
      refine ⟨?_, ?_⟩
      · simp [List.mem_eraseDups, List.mem_filter]
      · refine ih _ ?_ _ rfl
        have := List.length_filter_le (fun b => !b == a) as
        simp at hn; omega

/-- a deduplicated list of length one: exactly one distinct element -/
theorem eraseDups_length_eq_one_iff {γ : Type} [BEq γ] [LawfulBEq γ] (l : List γ) :
    l.eraseDups.length = 1 ↔ ∃ x ∈ l, ∀ y ∈ l, y = x := by
  have hnd := nodup_eraseDups' l
  have hmem : ∀ x, x ∈ l.eraseDups ↔ x ∈ l := fun x => List.mem_eraseDups
  generalize l.eraseDups = m at hnd hmem
  constructor
  · intro hlen
    match m, hlen with
    | [x], _ =>
      refine ⟨x, (hmem x).mp (by simp), ?_⟩
      intro y hy
      have := (hmem y).mpr hy
      simpa using this
  · rintro ⟨x, hx, hall⟩
    match m, hnd, hmem with
    | [], _, hmem => exact absurd ((hmem x).mpr hx) (by simp)
    | [_], _, _ => rfl
    | a :: b :: m, hnd, hmem =>
      exfalso
      have ha : a = x := hall a ((hmem a).mp (by simp))
      have hb : b = x := hall b ((hmem b).mp (by simp))
      subst ha; subst hb
      simp at hnd

theorem filter_fst_unique (m : List (α × β)) (p : α) :
    (m.filter (·.1 = p)).eraseDups.length = 1 ↔
      ∃ q, (p, q) ∈ m ∧ ∀ q', (p, q') ∈ m → q' = q := by
  rw [eraseDups_length_eq_one_iff]
  constructor
  · rintro ⟨⟨p', q⟩, hx, hall⟩
    simp only [List.mem_filter, decide_eq_true_eq] at hx
    obtain ⟨hx, rfl⟩ := hx
    refine ⟨q, hx, ?_⟩
    intro q' hq'
    have := hall (p', q') (by simp [List.mem_filter, hq'])
    simpa using this
  · rintro ⟨q, hq, hall⟩
    refine ⟨(p, q), by simp [List.mem_filter, hq], ?_⟩
    rintro ⟨p', q'⟩ hy
    simp only [List.mem_filter, decide_eq_true_eq] at hy
    obtain ⟨hy, rfl⟩ := hy
    rw [hall q' hy]

theorem filter_snd_unique (m : List (α × β)) (q : β) :
    (m.filter (·.2 = q)).eraseDups.length = 1 ↔
      ∃ p, (p, q) ∈ m ∧ ∀ p', (p', q) ∈ m → p' = p := by
  rw [eraseDups_length_eq_one_iff]
  constructor
  · rintro ⟨⟨p, q'⟩, hx, hall⟩
    simp only [List.mem_filter, decide_eq_true_eq] at hx
    obtain ⟨hx, rfl⟩ := hx
    refine ⟨p, hx, ?_⟩
    intro p' hp'
    have := hall (p', q') (by simp [List.mem_filter, hp'])
    simpa using this
  · rintro ⟨p, hp, hall⟩
    refine ⟨(p, q), by simp [List.mem_filter, hp], ?_⟩
    rintro ⟨p', q'⟩ hy
    simp only [List.mem_filter, decide_eq_true_eq] at hy
    obtain ⟨hy, rfl⟩ := hy
    rw [hall p' hy]

end FAIso

namespace ENFA
variable {σ τ : Type} [DecidableEq σ] [DecidableEq τ]

/-- transport a run along a relation that is total on states and preserves edges -/
theorem Run.transport {σ τ : Type} {M1 : ENFA σ} {M2 : ENFA τ} (w1 : M1.WF) (e1 : M1.EpsFree)
    (R : σ → τ → Prop) (tot : ∀ p ∈ M1.states, ∃ q, R p q)
    (edge : ∀ p q p' q' a, R p q → R p' q' → (p, some a, p') ∈ M1.delta →
      (q, some a, q') ∈ M2.delta)
    {p f : σ} {w : List Nat} (hr : M1.Run p w f) :
    ∀ q, R p q → ∃ f', R f f' ∧ M2.Run q w f' := by
  induction hr with
  | nil p => intro q hq; exact ⟨q, hq, Run.nil q⟩
  | eps he _ _ => exact absurd rfl (e1 _ he)
  | step he _ ih =>
    intro q hq
    obtain ⟨q', hq'⟩ := tot _ (w1.delta_dst _ he)
    obtain ⟨f', hf', hrun⟩ := ih q' hq'
    exact ⟨f', hf', Run.step (edge _ _ _ _ _ hq hq' he) hrun⟩

/-! ### sorted out-edges -/

theorem mem_insertEdge (e x : Nat × σ) (l : List (Nat × σ)) :
    x ∈ insertEdge e l ↔ x = e ∨ x ∈ l := by
  induction l with
  | nil => simp [insertEdge]
  | cons f fs ih =>
    unfold insertEdge; split
    · simp
    · simp only [List.mem_cons, ih]; tauto

theorem mem_sortEdges (x : Nat × σ) (l : List (Nat × σ)) : x ∈ sortEdges l ↔ x ∈ l := by
  induction l with
  | nil => simp [sortEdges]
  | cons e l ih =>
    show x ∈ insertEdge e (sortEdges l) ↔ _
    rw [mem_insertEdge, ih]; simp

theorem insertEdge_perm (e : Nat × σ) (l : List (Nat × σ)) : (insertEdge e l).Perm (e :: l) := by
  induction l with
  | nil => simp [insertEdge]
  | cons f fs ih =>
    unfold insertEdge; split
    · exact List.Perm.refl _
    · exact (List.Perm.cons f ih).trans (List.Perm.swap e f fs)

theorem sortEdges_perm (l : List (Nat × σ)) : (sortEdges l).Perm l := by
  induction l with
  | nil => simp [sortEdges]
  | cons e l ih =>
    show (insertEdge e (sortEdges l)).Perm _
    exact (insertEdge_perm e _).trans (List.Perm.cons e ih)

theorem insertEdge_sorted (e : Nat × σ) (l : List (Nat × σ))
    (h : l.Pairwise (fun x y => x.1 ≤ y.1)) : (insertEdge e l).Pairwise (fun x y => x.1 ≤ y.1) := by
  induction l with
  | nil => simp [insertEdge]
  | cons f fs ih =>
    rw [List.pairwise_cons] at h
    unfold insertEdge; split
    · rename_i hlt
      rw [List.pairwise_cons]
      refine ⟨?_, List.pairwise_cons.mpr h⟩
      intro y hy
      rcases List.mem_cons.mp hy with rfl | hy
      · omega
      · have := h.1 y hy; omega
    · rename_i hlt
      rw [List.pairwise_cons]
      refine ⟨?_, ih h.2⟩
      intro y hy
      rcases (mem_insertEdge e y fs).mp hy with rfl | hy
      · omega
      · exact h.1 y hy

theorem sortEdges_sorted (l : List (Nat × σ)) : (sortEdges l).Pairwise (fun x y => x.1 ≤ y.1) := by
  induction l with
  | nil => simp [sortEdges]
  | cons e l ih => exact insertEdge_sorted e _ ih

theorem mem_outEdges (M : ENFA σ) (q r : σ) (a : Nat) :
    (a, r) ∈ M.outEdges q ↔ (q, some a, r) ∈ M.delta := by
  unfold outEdges
  rw [mem_sortEdges, List.mem_eraseDups, List.mem_filterMap]
  constructor
  · rintro ⟨⟨x, b, y⟩, ht, h⟩
    split at h
    · rename_i hc
      simp only at hc; subst hc
      cases b with
      | none => simp at h
      | some b =>
        simp only [Option.map_some, Option.some.injEq, Prod.mk.injEq] at h
        obtain ⟨rfl, rfl⟩ := h
        exact ht
    · cases h
  · intro h
    exact ⟨(q, some a, r), h, by simp⟩

/-- for a deterministic automaton the sorted out-edges are strictly increasing in the symbol -/
theorem outEdges_strict (M : ENFA σ) (hd : M.Deterministic) (q : σ) :
    (M.outEdges q).Pairwise (fun x y => x.1 < y.1) := by
  have hnd : (M.outEdges q).Nodup := by
    unfold outEdges
    exact (sortEdges_perm _).nodup_iff.mpr (FAIso.nodup_eraseDups' _)
  have hs : (M.outEdges q).Pairwise (fun x y => x.1 ≤ y.1) := sortEdges_sorted _
  refine (hs.and hnd).imp_of_mem ?_
  rintro ⟨a, r⟩ ⟨b, r'⟩ hx hy ⟨hle, hne⟩
  simp only at hle ⊢
  rcases Nat.lt_or_ge a b with h | h
  · exact h
  · exfalso
    have hab : a = b := by omega
    subst hab
    have := hd.2.1 q (some a) r r' ((mem_outEdges M q r a).mp hx) ((mem_outEdges M q r' a).mp hy)
    subst this
    exact hne rfl

/-- same enabled symbols => the sorted out-edge lists have the same symbols, position by position -/
theorem outEdges_syms_eq (M1 : ENFA σ) (M2 : ENFA τ) (h1 : M1.Deterministic) (h2 : M2.Deterministic)
    (p : σ) (q : τ)
    (h : ∀ a, (∃ r, (p, some a, r) ∈ M1.delta) ↔ (∃ r, (q, some a, r) ∈ M2.delta)) :
    (M1.outEdges p).map (·.1) = (M2.outEdges q).map (·.1) := by
  have s1 : ((M1.outEdges p).map (·.1)).Pairwise (· < ·) :=
    List.pairwise_map.mpr (outEdges_strict M1 h1 p)
  have s2 : ((M2.outEdges q).map (·.1)).Pairwise (· < ·) :=
    List.pairwise_map.mpr (outEdges_strict M2 h2 q)
  refine s1.eq_of_mem_iff s2 ?_
  intro a
  simp only [List.mem_map]
  constructor
  · rintro ⟨⟨a', r⟩, hm, rfl⟩
    obtain ⟨r', hr'⟩ := (h a').mp ⟨r, (mem_outEdges M1 p r a').mp hm⟩
    exact ⟨(a', r'), (mem_outEdges M2 q r' a').mpr hr', rfl⟩
  · rintro ⟨⟨a', r⟩, hm, rfl⟩
    obtain ⟨r', hr'⟩ := (h a').mpr ⟨r, (mem_outEdges M2 q r a').mp hm⟩
    exact ⟨(a', r'), (mem_outEdges M1 p r' a').mpr hr', rfl⟩

theorem zip_fst_eq {α β : Type} (l1 : List (Nat × α)) (l2 : List (Nat × β))
    (h : l1.map (·.1) = l2.map (·.1)) : ∀ e ∈ l1.zip l2, e.1.1 = e.2.1 := by
  induction l1 generalizing l2 with
  | nil => intro e he; simp at he
  | cons x xs ih =>
    cases l2 with
    | nil => intro e he; simp at he
    | cons y ys =>
      simp only [List.map_cons, List.cons.injEq] at h
      intro e he
      simp only [List.zip_cons_cons, List.mem_cons] at he
      rcases he with rfl | he
      · exact h.1
      · exact ih ys h.2 e he

/-- every element of the first list occurs as a first component of the zip (equal lengths) -/
theorem mem_zip_left {α β : Type} (l1 : List α) (l2 : List β) (h : l1.length = l2.length)
    (x : α) (hx : x ∈ l1) : ∃ y, (x, y) ∈ l1.zip l2 := by
  induction l1 generalizing l2 with
  | nil => cases hx
  | cons a as ih =>
    cases l2 with
    | nil => simp at h
    | cons b bs =>
      simp only [List.length_cons, Nat.add_right_cancel_iff] at h
      rcases List.mem_cons.mp hx with rfl | hx
      · exact ⟨b, by simp⟩
      · obtain ⟨y, hy⟩ := ih bs h hx
        exact ⟨y, by simp [hy]⟩

theorem mem_zip_right {α β : Type} (l1 : List α) (l2 : List β) (h : l1.length = l2.length)
    (y : β) (hy : y ∈ l2) : ∃ x, (x, y) ∈ l1.zip l2 := by
  induction l1 generalizing l2 with
  | nil =>
    cases l2 with
    | nil => cases hy
    | cons b bs => simp at h
  | cons a as ih =>
    cases l2 with
    | nil => cases hy
    | cons b bs =>
      simp only [List.length_cons, Nat.add_right_cancel_iff] at h
      rcases List.mem_cons.mp hy with rfl | hy
      · exact ⟨a, by simp⟩
      · obtain ⟨x, hx⟩ := ih bs h hy
        exact ⟨x, by simp [hx]⟩

/-! ### `walkZip` -/

/-- what a successful pass over the zipped edge lists establishes -/
theorem walkZip_some (l : List ((Nat × σ) × (Nat × τ))) :
    ∀ (todo m todo' m' : List (σ × τ)), walkZip l todo m = some (todo', m') →
      (∀ x ∈ todo, x ∈ todo') ∧ (∀ x ∈ m, x ∈ m') ∧
      (∀ x ∈ m', x ∈ m ∨ (x ∈ todo' ∧ ∃ e ∈ l, x = (e.1.2, e.2.2))) ∧
      (∀ x ∈ todo', x ∈ todo ∨ ∃ e ∈ l, x = (e.1.2, e.2.2)) ∧
      (∀ e ∈ l, e.1.1 = e.2.1 ∧ (e.1.2, e.2.2) ∈ m') := by
  induction l with
  | nil =>
    intro todo m todo' m' h
    simp only [walkZip, Option.some.injEq, Prod.mk.injEq] at h
    obtain ⟨rfl, rfl⟩ := h
    simp
  | cons e rest ih =>
    intro todo m todo' m' h
    obtain ⟨⟨a, p⟩, ⟨b, q⟩⟩ := e
    simp only [walkZip] at h
    split at h
    · cases h
    · rename_i hab
      have hab : a = b := by simpa using hab
      subst hab
      split at h
      · rename_i x hx
        split at h
        · rename_i hxq
          obtain ⟨i1, i2, i3, i4, i5⟩ := ih _ _ _ _ h
          have hxm : x ∈ m := List.mem_of_find?_eq_some hx
          have hxp : x.1 = p := by simpa using List.find?_some hx
          have hxe : x = (p, q) := by
            obtain ⟨x1, x2⟩ := x
            simp only at hxp hxq; rw [hxp, hxq]
          refine ⟨i1, i2, ?_, ?_, ?_⟩
          · intro y hy
            rcases i3 y hy with h' | ⟨h', e, he, hye⟩
            · exact Or.inl h'
            · exact Or.inr ⟨h', e, List.mem_cons_of_mem _ he, hye⟩
          · intro y hy
            rcases i4 y hy with h' | ⟨e, he, hye⟩
            · exact Or.inl h'
            · exact Or.inr ⟨e, List.mem_cons_of_mem _ he, hye⟩
          · intro e he
            rcases List.mem_cons.mp he with rfl | he
            · exact ⟨rfl, i2 _ (hxe ▸ hxm)⟩
            · exact i5 e he
        · cases h
      · obtain ⟨i1, i2, i3, i4, i5⟩ := ih _ _ _ _ h
        refine ⟨fun x hx => i1 x (List.mem_cons_of_mem _ hx),
          fun x hx => i2 x (List.mem_cons_of_mem _ hx), ?_, ?_, ?_⟩
        · intro y hy
          rcases i3 y hy with h' | ⟨h', e, he, hye⟩
          · rcases List.mem_cons.mp h' with rfl | h'
            · exact Or.inr ⟨i1 _ List.mem_cons_self, _, List.mem_cons_self, rfl⟩
            · exact Or.inl h'
          · exact Or.inr ⟨h', e, List.mem_cons_of_mem _ he, hye⟩
        · intro y hy
          rcases i4 y hy with h' | ⟨e, he, hye⟩
          · rcases List.mem_cons.mp h' with rfl | h'
            · exact Or.inr ⟨_, List.mem_cons_self, rfl⟩
            · exact Or.inl h'
          · exact Or.inr ⟨e, List.mem_cons_of_mem _ he, hye⟩
        · intro e he
          rcases List.mem_cons.mp he with rfl | he
          · exact ⟨rfl, i2 _ List.mem_cons_self⟩
          · exact i5 e he

/-- a failing pass: a symbol mismatch, or a state of `M1` matched with two states of `M2` -/
theorem walkZip_none (P : σ × τ → Prop) (l : List ((Nat × σ) × (Nat × τ))) :
    ∀ (todo m : List (σ × τ)), walkZip l todo m = none → (∀ x ∈ m, P x) →
      (∀ e ∈ l, e.1.1 = e.2.1 → P (e.1.2, e.2.2)) →
      (∃ e ∈ l, e.1.1 ≠ e.2.1) ∨ (∃ p q q', P (p, q) ∧ P (p, q') ∧ q ≠ q') := by
  induction l with
  | nil => intro todo m h; simp [walkZip] at h
  | cons e rest ih =>
    intro todo m h hm hl
    obtain ⟨⟨a, p⟩, ⟨b, q⟩⟩ := e
    simp only [walkZip] at h
    split at h
    · rename_i hab
      exact Or.inl ⟨_, List.mem_cons_self, hab⟩
    · rename_i hab
      have hab : a = b := by simpa using hab
      subst hab
      have hpq : P (p, q) := hl _ List.mem_cons_self rfl
      have hl' : ∀ e ∈ rest, e.1.1 = e.2.1 → P (e.1.2, e.2.2) :=
        fun e he => hl e (List.mem_cons_of_mem _ he)
      have lift : (∃ e ∈ rest, e.1.1 ≠ e.2.1) ∨ (∃ p q q', P (p, q) ∧ P (p, q') ∧ q ≠ q') →
          (∃ e ∈ ((a, p), (a, q)) :: rest, e.1.1 ≠ e.2.1) ∨
            (∃ p q q', P (p, q) ∧ P (p, q') ∧ q ≠ q') := by
        rintro (⟨e, he, hne⟩ | h')
        · exact Or.inl ⟨e, List.mem_cons_of_mem _ he, hne⟩
        · exact Or.inr h'
      split at h
      · rename_i x hx
        have hxm : x ∈ m := List.mem_of_find?_eq_some hx
        have hxp : x.1 = p := by simpa using List.find?_some hx
        split at h
        · exact lift (ih _ _ h hm hl')
        · rename_i hxq
          obtain ⟨x1, x2⟩ := x
          simp only at hxp hxq; subst hxp
          exact Or.inr ⟨x1, x2, q, hm _ hxm, hpq, hxq⟩
      · refine lift (ih _ _ h ?_ hl')
        intro x hx
        rcases List.mem_cons.mp hx with rfl | hx
        · exact hpq
        · exact hm x hx

/-! ### the walk answers `True` -/

/-- the local check the walk performs at a pair, relative to a set `S` of matched pairs -/
def Checked (M1 : ENFA σ) (M2 : ENFA τ) (S : List (σ × τ)) (x : σ × τ) : Prop :=
  (x.1 ∈ M1.finals ↔ x.2 ∈ M2.finals) ∧
  (∀ a p', (x.1, some a, p') ∈ M1.delta → ∃ q', (x.2, some a, q') ∈ M2.delta ∧ (p', q') ∈ S) ∧
  (∀ a q', (x.2, some a, q') ∈ M2.delta → ∃ p', (x.1, some a, p') ∈ M1.delta ∧ (p', q') ∈ S)

theorem isoWalkLoop_true (M1 : ENFA σ) (M2 : ENFA τ) :
    ∀ (fuel : Nat) (todo m : List (σ × τ)), isoWalkLoop M1 M2 fuel todo m = some true →
      ∃ S : List (σ × τ), (∀ x ∈ m, x ∈ S) ∧
        ∀ x ∈ S, (x ∈ m ∧ x ∉ todo) ∨ Checked M1 M2 S x := by
  intro fuel
  induction fuel with
  | zero =>
    intro todo m h
    cases todo with
    | nil => exact ⟨m, fun x hx => hx, fun x hx => Or.inl ⟨hx, by simp⟩⟩
    | cons a t => simp [isoWalkLoop] at h
  | succ n ih =>
    intro todo m h
    cases todo with
    | nil => exact ⟨m, fun x hx => hx, fun x hx => Or.inl ⟨hx, by simp⟩⟩
    | cons pq todo =>
      obtain ⟨p, q⟩ := pq
      simp only [isoWalkLoop] at h
      split at h
      · cases h
      · rename_i hfin
        split at h
        · cases h
        · rename_i hlen
          have hlen : (M1.outEdges p).length = (M2.outEdges q).length := by simpa using hlen
          split at h
          · cases h
          · rename_i todo' m' hz
            obtain ⟨S, hS1, hS2⟩ := ih _ _ h
            obtain ⟨i1, i2, i3, i4, i5⟩ := walkZip_some _ _ _ _ _ hz
            refine ⟨S, fun x hx => hS1 x (i2 x hx), ?_⟩
            intro x hx
            rcases hS2 x hx with ⟨hxm', hxt'⟩ | hc
            · by_cases hxe : x = (p, q)
              · subst hxe
                right
                refine ⟨?_, ?_, ?_⟩
                · simpa using hfin
                · intro a p' he
                  have hm := (mem_outEdges M1 p p' a).mpr he
                  obtain ⟨⟨b, q'⟩, hy⟩ := mem_zip_left _ _ hlen _ hm
                  obtain ⟨hab, hin⟩ := i5 _ hy
                  simp only at hab hin; subst hab
                  exact ⟨q', (mem_outEdges M2 q q' a).mp (List.of_mem_zip hy).2, hS1 _ hin⟩
                · intro a q' he
                  have hm := (mem_outEdges M2 q q' a).mpr he
                  obtain ⟨⟨b, p'⟩, hy⟩ := mem_zip_right _ _ hlen _ hm
                  obtain ⟨hab, hin⟩ := i5 _ hy
                  simp only at hab hin; subst hab
                  exact ⟨p', (mem_outEdges M1 p p' b).mp (List.of_mem_zip hy).1, hS1 _ hin⟩
              · left
                rcases i3 x hxm' with hxm | ⟨hxt, _⟩
                · refine ⟨hxm, ?_⟩
                  intro hmem
                  rcases List.mem_cons.mp hmem with h' | h'
                  · exact hxe h'
                  · exact hxt' (i1 x h')
                · exact absurd hxt hxt'
            · exact Or.inr hc

/-- pairs related by a set of checked pairs accept the same words -/
theorem checked_bisim (M1 : ENFA σ) (M2 : ENFA τ) (e1 : M1.EpsFree) (e2 : M2.EpsFree)
    (S : List (σ × τ)) (hS : ∀ x ∈ S, Checked M1 M2 S x) (w : List Nat) :
    ∀ p q, (p, q) ∈ S → ((∃ f ∈ M1.finals, M1.Run p w f) ↔ (∃ f ∈ M2.finals, M2.Run q w f)) := by
  induction w with
  | nil =>
    intro p q hpq
    have := (hS _ hpq).1
    constructor
    · rintro ⟨f, hf, hr⟩
      have := (e1.run_nil_iff _ _).mp hr; subst this
      exact ⟨q, this.mp hf, Run.nil q⟩
    · rintro ⟨f, hf, hr⟩
      have := (e2.run_nil_iff _ _).mp hr; subst this
      exact ⟨p, this.mpr hf, Run.nil p⟩
  | cons a w ih =>
    intro p q hpq
    obtain ⟨_, c2, c3⟩ := hS _ hpq
    constructor
    · rintro ⟨f, hf, hr⟩
      obtain ⟨p', he, hr'⟩ := (e1.run_cons_iff _ _ _ _).mp hr
      obtain ⟨q', he', hin⟩ := c2 a p' he
      obtain ⟨f', hf', hr''⟩ := (ih p' q' hin).mp ⟨f, hf, hr'⟩
      exact ⟨f', hf', Run.step he' hr''⟩
    · rintro ⟨f, hf, hr⟩
      obtain ⟨q', he, hr'⟩ := (e2.run_cons_iff _ _ _ _).mp hr
      obtain ⟨p', he', hin⟩ := c3 a q' he
      obtain ⟨f', hf', hr''⟩ := (ih p' q' hin).mpr ⟨f, hf, hr'⟩
      exact ⟨f', hf', Run.step he' hr''⟩

/-- a deterministic automaton accepts from its only start state -/
theorem Deterministic.lang_iff_head {M : ENFA σ} (hd : M.Deterministic) {s : σ}
    (hs : M.starts.head? = some s) (w : List Nat) :
    M.Lang w ↔ ∃ f ∈ M.finals, M.Run s w f := by
  have hsm : s ∈ M.starts := List.mem_of_head? hs
  constructor
  · rintro ⟨s', hs', f, hf, hr⟩
    rw [hd.1 s hsm s' hs']; exact ⟨f, hf, hr⟩
  · rintro ⟨f, hf, hr⟩; exact ⟨s, hsm, f, hf, hr⟩

/-! ### the quotient built by `minimizeOf` is trim -/

section Trim
variable {κ : Type} [DecidableEq κ]

/-- the reachable and co-reachable states -/
def liveL (A : ENFA σ) : List σ := A.states.filter fun q => q ∈ A.reachable ∧ q ∈ A.leadingToFinal

/-- the main branch of `minimizeOf` -/
def minCore (A : ENFA σ) (groups : List (List (Option σ))) (key : List (Option σ) → κ) : ENFA κ :=
  ofParts (A.starts.filterMap (groupKey groups key))
    ((A.liveL.filter (· ∈ A.finals)).filterMap (groupKey groups key))
    (A.liveL.flatMap fun q => A.syms.flatMap fun a => (A.succs q (some a)).filterMap fun r =>
      if r ∈ A.liveL then
        match groupKey groups key q, groupKey groups key r with
        | some kq, some kr => some (kq, some a, kr)
        | _, _ => none
      else none)

theorem minimizeOf_casesI (A : ENFA σ) (gs : List (List (Option σ))) (key : List (Option σ) → κ)
    (emptyKey : κ) :
    A.minimizeOf gs key emptyKey = ofParts [emptyKey] [] [] ∨
      A.minimizeOf gs key emptyKey = A.minCore gs key := by
  unfold minimizeOf
  split
  · exact Or.inl rfl
  · simp only
    split
    · exact Or.inl rfl
    · exact Or.inr rfl

theorem mem_liveL (A : ENFA σ) (hA : A.WF) (q : σ) :
    q ∈ A.liveL ↔ q ∈ A.states ∧ (∃ s ∈ A.starts, ∃ w, A.Run s w q) ∧
      ∃ w, ∃ f ∈ A.finals, A.Run q w f := by
  unfold liveL
  rw [List.mem_filter, decide_eq_true_eq, mem_reachable_iff A hA, mem_leadingToFinal_iff]

theorem groupKey_some (gs : List (List (Option σ))) (key : List (Option σ) → κ) (q : σ)
    (h : ∃ g ∈ gs, some q ∈ g) : ∃ k, groupKey gs key q = some k := by
  unfold groupKey
  cases hf : gs.find? fun g => decide (some q ∈ g) with
  | some g => exact ⟨key g, rfl⟩
  | none =>
    exfalso
    obtain ⟨g, hg, hq⟩ := h
    have := List.find?_eq_none.mp hf g hg
    simp [hq] at this

theorem minCore_edge (A : ENFA σ) (gs : List (List (Option σ))) (key : List (Option σ) → κ)
    {x y : σ} {a : Nat} {kx ky : κ} (hx : x ∈ A.liveL) (hy : y ∈ A.liveL)
    (he : (x, some a, y) ∈ A.delta) (ha : a ∈ A.syms) (hkx : groupKey gs key x = some kx)
    (hky : groupKey gs key y = some ky) : (kx, some a, ky) ∈ (A.minCore gs key).delta := by
  simp only [minCore, ofParts, List.mem_eraseDups, List.mem_flatMap, List.mem_filterMap]
  refine ⟨x, hx, a, ha, y, (mem_succs A x y (some a)).mpr he, ?_⟩
  rw [if_pos hy, hkx, hky]

theorem minCore_edge_inv (A : ENFA σ) (gs : List (List (Option σ))) (key : List (Option σ) → κ)
    (t : κ × Option Nat × κ) (ht : t ∈ (A.minCore gs key).delta) :
    ∃ y, y ∈ A.liveL ∧ groupKey gs key y = some t.2.2 := by
  simp only [minCore, ofParts, List.mem_eraseDups, List.mem_flatMap, List.mem_filterMap] at ht
  obtain ⟨x, hx, a, ha, y, hy, h⟩ := ht
  split at h
  · rename_i hyl
    split at h
    · rename_i kq kr hkq hkr
      simp only [Option.some.injEq] at h
      subst h
      exact ⟨y, hyl, hkr⟩
    · cases h
  · cases h

theorem minCore_final (A : ENFA σ) (gs : List (List (Option σ))) (key : List (Option σ) → κ)
    {f : σ} {kf : κ} (hl : f ∈ A.liveL) (hf : f ∈ A.finals) (hk : groupKey gs key f = some kf) :
    kf ∈ (A.minCore gs key).finals := by
  simp only [minCore, ofParts, List.mem_eraseDups, List.mem_filterMap, List.mem_filter,
    decide_eq_true_eq]
  exact ⟨f, ⟨hl, hf⟩, hk⟩

/-- an accepting run from a reachable state maps into the quotient -/
theorem minCore_run (A : ENFA σ) (hA : A.WF) (he : A.EpsFree) (gs : List (List (Option σ)))
    (hcov : ∀ q ∈ A.states, ∃ g ∈ gs, some q ∈ g) (key : List (Option σ) → κ)
    {x f : σ} {w : List Nat} (hr : A.Run x w f) (hf : f ∈ A.finals) :
    x ∈ A.states → (∃ s ∈ A.starts, ∃ u, A.Run s u x) →
      ∃ kx kf, groupKey gs key x = some kx ∧ kf ∈ (A.minCore gs key).finals ∧
        (A.minCore gs key).Run kx w kf := by
  induction hr with
  | nil q =>
    intro hq hreach
    obtain ⟨k, hk⟩ := groupKey_some gs key q (hcov q hq)
    have hl : q ∈ A.liveL := (mem_liveL A hA q).mpr ⟨hq, hreach, [], q, hf, Run.nil q⟩
    exact ⟨k, k, hk, minCore_final A gs key hl hf hk, Run.nil k⟩
  | eps hedge _ _ => exact absurd rfl (he _ hedge)
  | @step q r s a w hedge hrun ih =>
    intro hq hreach
    obtain ⟨s0, hs0, u, hu⟩ := hreach
    have hr : r ∈ A.states := hA.delta_dst _ hedge
    obtain ⟨kr, kf, hkr, hkf, hrun'⟩ := ih hf hr ⟨s0, hs0, u ++ [a], Run.snoc hu hedge⟩
    obtain ⟨kq, hkq⟩ := groupKey_some gs key q (hcov q hq)
    have hlq : q ∈ A.liveL :=
      (mem_liveL A hA q).mpr ⟨hq, ⟨s0, hs0, u, hu⟩, a :: w, s, hf, Run.step hedge hrun⟩
    have hlr : r ∈ A.liveL :=
      (mem_liveL A hA r).mpr ⟨hr, ⟨s0, hs0, u ++ [a], Run.snoc hu hedge⟩, w, s, hf, hrun⟩
    exact ⟨kq, kf, hkq, hkf,
      Run.step (minCore_edge A gs key hlq hlr hedge (hA.delta_sym _ hedge a rfl) hkq hkr) hrun'⟩

theorem minimizeOf_trim_aux (A : ENFA σ) (hA : A.WF) (he : A.EpsFree)
    (gs : List (List (Option σ))) (hcov : ∀ q ∈ A.states, ∃ g ∈ gs, some q ∈ g)
    (key : List (Option σ) → κ) (emptyKey : κ) :
    ∀ t ∈ (A.minimizeOf gs key emptyKey).delta,
      ∃ w, ∃ f ∈ (A.minimizeOf gs key emptyKey).finals,
        (A.minimizeOf gs key emptyKey).Run t.2.2 w f := by
  rcases minimizeOf_casesI A gs key emptyKey with h | h
  · rw [h]; intro t ht; simp [ofParts] at ht
  · rw [h]
    intro t ht
    obtain ⟨y, hyl, hky⟩ := minCore_edge_inv A gs key t ht
    obtain ⟨hys, hreach, w, f, hf, hrun⟩ := (mem_liveL A hA y).mp hyl
    obtain ⟨kx, kf, hkx, hkf, hrun'⟩ := minCore_run A hA he gs hcov key hrun hf hys hreach
    rw [hky] at hkx
    cases hkx
    exact ⟨w, kf, hkf, hrun'⟩

end Trim

/-! ### the walk answers `False` -/

/-- deterministic ε-free: after following `u` from `s` to `p`, acceptance of `u ++ z` is decided
at `p` -/
theorem accFrom_append {M : ENFA σ} (hd : M.Deterministic) (he : M.EpsFree) {u : List Nat} :
    ∀ {s p : σ}, M.Run s u p → ∀ z : List Nat,
      ((∃ f ∈ M.finals, M.Run s (u ++ z) f) ↔ ∃ f ∈ M.finals, M.Run p z f) := by
  induction u with
  | nil =>
    intro s p hr z
    have := (he.run_nil_iff _ _).mp hr
    subst this; simp
  | cons a u ih =>
    intro s p hr z
    obtain ⟨r, hedge, hr'⟩ := (he.run_cons_iff _ _ _ _).mp hr
    rw [← ih hr' z]
    constructor
    · rintro ⟨f, hf, hrun⟩
      obtain ⟨r', hedge', hrun'⟩ := (he.run_cons_iff _ _ _ _).mp hrun
      rw [hd.2.1 _ _ _ _ hedge hedge']
      exact ⟨f, hf, hrun'⟩
    · rintro ⟨f, hf, hrun⟩
      exact ⟨f, hf, Run.step hedge hrun⟩

theorem lang_append_iff {M : ENFA σ} (hd : M.Deterministic) (he : M.EpsFree) {s p : σ}
    (hs : M.starts.head? = some s) {u : List Nat} (hr : M.Run s u p) (z : List Nat) :
    M.Lang (u ++ z) ↔ ∃ f ∈ M.finals, M.Run p z f := by
  rw [hd.lang_iff_head hs, accFrom_append hd he hr]

/-- a symbol enabled after `u` in a trim automaton is enabled after `u` in any deterministic
automaton accepting at least the same words -/
theorem enabled_transfer {M1 : ENFA σ} {M2 : ENFA τ} (h1 : M1.Deterministic) (e1 : M1.EpsFree)
    (h2 : M2.Deterministic) (e2 : M2.EpsFree) {s1 : σ} {s2 : τ}
    (hs1 : M1.starts.head? = some s1) (hs2 : M2.starts.head? = some s2)
    (t1 : ∀ t ∈ M1.delta, ∃ w, ∃ f ∈ M1.finals, M1.Run t.2.2 w f)
    (himp : ∀ w, M1.Lang w → M2.Lang w) {u : List Nat} {p : σ} {q : τ}
    (hu1 : M1.Run s1 u p) (hu2 : M2.Run s2 u q) {a : Nat} {r : σ}
    (hedge : (p, some a, r) ∈ M1.delta) : ∃ r', (q, some a, r') ∈ M2.delta := by
  obtain ⟨z, f, hf, hrun⟩ := t1 _ hedge
  have hl1 : M1.Lang (u ++ a :: z) :=
    (lang_append_iff h1 e1 hs1 hu1 _).mpr ⟨f, hf, Run.step hedge hrun⟩
  obtain ⟨f', _, hrun'⟩ := (lang_append_iff h2 e2 hs2 hu2 _).mp (himp _ hl1)
  obtain ⟨r', hedge', _⟩ := (e2.run_cons_iff _ _ _ _).mp hrun'
  exact ⟨r', hedge'⟩

section WalkFalse
variable (M1 : ENFA σ) (M2 : ENFA τ) (w2 : M2.WF)
  (h1 : M1.Deterministic) (e1 : M1.EpsFree) (h2 : M2.Deterministic) (e2 : M2.EpsFree)
  (t1 : ∀ t ∈ M1.delta, ∃ w, ∃ f ∈ M1.finals, M1.Run t.2.2 w f)
  (t2 : ∀ t ∈ M2.delta, ∃ w, ∃ f ∈ M2.finals, M2.Run t.2.2 w f)
  (r2 : M2.Reduced) (s1 : σ) (s2 : τ)
  (hs1 : M1.starts.head? = some s1) (hs2 : M2.starts.head? = some s2)
  (heq : ∀ w, M1.Lang w ↔ M2.Lang w)

/-- the pair is reached by a common word from the start states -/
def CoR (s1 : σ) (s2 : τ) (x : σ × τ) : Prop := ∃ u, M1.Run s1 u x.1 ∧ M2.Run s2 u x.2

include h1 e1 h2 e2 hs1 hs2 heq in
theorem coR_final {p : σ} {q : τ} (h : CoR M1 M2 s1 s2 (p, q)) :
    p ∈ M1.finals ↔ q ∈ M2.finals := by
  obtain ⟨u, hu1, hu2⟩ := h
  have a1 := lang_append_iff h1 e1 hs1 hu1 []
  have a2 := lang_append_iff h2 e2 hs2 hu2 []
  have key : (∃ f ∈ M1.finals, M1.Run p [] f) ↔ ∃ f ∈ M2.finals, M2.Run q [] f := by
    rw [← a1, ← a2]; exact heq _
  constructor
  · intro hp
    obtain ⟨f, hf, hr⟩ := key.mp ⟨p, hp, Run.nil p⟩
    rw [(e2.run_nil_iff _ _).mp hr]; exact hf
  · intro hq
    obtain ⟨f, hf, hr⟩ := key.mpr ⟨q, hq, Run.nil q⟩
    rw [(e1.run_nil_iff _ _).mp hr]; exact hf

include h1 e1 h2 e2 hs1 hs2 heq t1 t2 in
theorem coR_enabled {p : σ} {q : τ} (h : CoR M1 M2 s1 s2 (p, q)) (a : Nat) :
    (∃ r, (p, some a, r) ∈ M1.delta) ↔ (∃ r, (q, some a, r) ∈ M2.delta) := by
  obtain ⟨u, hu1, hu2⟩ := h
  constructor
  · rintro ⟨r, hr⟩
    exact enabled_transfer h1 e1 h2 e2 hs1 hs2 t1 (fun w => (heq w).mp) hu1 hu2 hr
  · rintro ⟨r, hr⟩
    exact enabled_transfer h2 e2 h1 e1 hs2 hs1 t2 (fun w => (heq w).mpr) hu2 hu1 hr

include h1 e1 h2 e2 hs1 hs2 heq w2 r2 in
theorem coR_functional {p : σ} {q q' : τ} (h : CoR M1 M2 s1 s2 (p, q))
    (h' : CoR M1 M2 s1 s2 (p, q')) : q = q' := by
  obtain ⟨u, hu1, hu2⟩ := h
  obtain ⟨u', hu1', hu2'⟩ := h'
  have hs2m : s2 ∈ M2.states := w2.starts_sub _ (List.mem_of_head? hs2)
  refine r2.2 q (Run.mem_states w2 hu2 hs2m) q' (Run.mem_states w2 hu2' hs2m) ?_
  intro z
  show (∃ f ∈ M2.finals, M2.Run q z f) ↔ (∃ f ∈ M2.finals, M2.Run q' z f)
  rw [← lang_append_iff h2 e2 hs2 hu2 z, ← lang_append_iff h2 e2 hs2 hu2' z, ← heq, ← heq,
    lang_append_iff h1 e1 hs1 hu1 z, lang_append_iff h1 e1 hs1 hu1' z]

theorem coR_step {p p' : σ} {q q' : τ} {a : Nat} (h : CoR M1 M2 s1 s2 (p, q))
    (hp : (a, p') ∈ M1.outEdges p) (hq : (a, q') ∈ M2.outEdges q) : CoR M1 M2 s1 s2 (p', q') := by
  obtain ⟨u, hu1, hu2⟩ := h
  exact ⟨u ++ [a], Run.snoc hu1 ((mem_outEdges M1 p p' a).mp hp),
    Run.snoc hu2 ((mem_outEdges M2 q q' a).mp hq)⟩

include h1 e1 h2 e2 hs1 hs2 heq w2 r2 t1 t2 in
theorem isoWalkLoop_false :
    ∀ (fuel : Nat) (todo m : List (σ × τ)), isoWalkLoop M1 M2 fuel todo m = some false →
      (∀ x ∈ todo, CoR M1 M2 s1 s2 x) → (∀ x ∈ m, CoR M1 M2 s1 s2 x) → False := by
  intro fuel
  induction fuel with
  | zero =>
    intro todo m h
    cases todo with
    | nil => simp [isoWalkLoop] at h
    | cons a t => simp [isoWalkLoop] at h
  | succ n ih =>
    intro todo m h ht hm
    cases todo with
    | nil => simp [isoWalkLoop] at h
    | cons pq todo =>
      obtain ⟨p, q⟩ := pq
      have hpq : CoR M1 M2 s1 s2 (p, q) := ht _ List.mem_cons_self
      have hfin := coR_final M1 M2 h1 e1 h2 e2 s1 s2 hs1 hs2 heq hpq
      have hsyms := outEdges_syms_eq M1 M2 h1 h2 p q
        (coR_enabled M1 M2 h1 e1 h2 e2 t1 t2 s1 s2 hs1 hs2 heq hpq)
      have hlen : (M1.outEdges p).length = (M2.outEdges q).length := by
        have := congrArg List.length hsyms
        simpa using this
      have hzip := zip_fst_eq _ _ hsyms
      have hstep : ∀ e ∈ (M1.outEdges p).zip (M2.outEdges q), e.1.1 = e.2.1 →
          CoR M1 M2 s1 s2 (e.1.2, e.2.2) := by
        rintro ⟨⟨a, p'⟩, ⟨b, q'⟩⟩ he hab
        simp only at hab; subst hab
        exact coR_step M1 M2 s1 s2 hpq (List.of_mem_zip he).1 (List.of_mem_zip he).2
      simp only [isoWalkLoop] at h
      split at h
      · rename_i hne
        simp [hfin] at hne
      · split at h
        · rename_i hne
          exact hne hlen
        · split at h
          · rename_i hz
            rcases walkZip_none (CoR M1 M2 s1 s2) _ _ _ hz hm hstep with
              ⟨e, he, hne⟩ | ⟨p', q1, q2, hc1, hc2, hne⟩
            · exact hne (hzip e he)
            · exact hne (coR_functional M1 M2 w2 h1 e1 h2 e2 r2 s1 s2 hs1 hs2 heq hc1 hc2)
          · rename_i todo' m' hz
            obtain ⟨i1, i2, i3, i4, i5⟩ := walkZip_some _ _ _ _ _ hz
            refine ih _ _ h ?_ ?_
            · intro x hx
              rcases i4 x hx with h' | ⟨e, he, rfl⟩
              · exact ht x (List.mem_cons_of_mem _ h')
              · exact hstep e he (i5 e he).1
            · intro x hx
              rcases i3 x hx with h' | ⟨_, e, he, rfl⟩
              · exact hm x h'
              · exact hstep e he (i5 e he).1

end WalkFalse

end ENFA

end Pfl
