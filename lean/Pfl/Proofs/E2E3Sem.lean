/-
The characters tokens stand for, and the meaning of a union of tokens.
-/
import Pfl.Proofs.E2E3Pass5
import Pfl.Proofs.PyRegexLemmas
namespace Pfl.PyRx.E2E.S3
open Pfl.RegexReader Pfl.RegexReader.Lem Pfl.Rx Pfl.PyPass
open Pfl.PyRx.E2E

/-- the character a token stands for -/
def tokChar (t : Tok) : Char := (t.getLast?).getD ' '

theorem leaf_esc (c : Char) : E.leaf ['\\', c] = PyRx.sym c := by
  rw [E.leaf, toNode_esc, PyRx.sym, String.singleton_eq_ofList]

theorem leaf_pl (c : Char) (h : IsPl [c]) : E.leaf [c] = PyRx.sym c := by
  rw [E.leaf, toNode_pl h (one_ne_epsilon c), PyRx.sym, String.singleton_eq_ofList]

theorem leaf_a3nB (t : Tok) (h : a3nB t = true) : E.leaf t = PyRx.sym (tokChar t) := by
  have ha := a3nB_sound t h
  unfold a3nB at h
  rcases Bool.or_eq_true_iff.mp h with h | h
  · simp only [Bool.and_eq_true, beq_iff_eq] at h
    match t, h with
    | [b, c], h =>
      have h1 := h.2
      simp only [List.head?_cons, Option.some.injEq] at h1
      subst h1
      rw [leaf_esc]; rfl
  · simp only [Bool.and_eq_true, beq_iff_eq] at h
    match t, h, ha with
    | [c], _, ha =>
      rcases ha with ⟨hpl, hne⟩ | ⟨d, hd⟩
      · rw [leaf_pl c hpl]; rfl
      · simp at hd

theorem altc_denote : ∀ ts : List Tok, ts ≠ [] → ∀ ws,
    (Denote (E.tree (altc ts)) ws ↔ ∃ t ∈ ts, Denote (E.leaf t) ws)
  | [], h, _ => absurd rfl h
  | [t], _, ws => by simp [altc, E.tree]
  | t :: t' :: r, _, ws => by
    have e : altc (t :: t' :: r) = .alt (.tok t) (altc (t' :: r)) := rfl
    rw [e, E.tree, Rx.Lem.alt_denote, altc_denote (t' :: r) (by simp) ws]
    simp [E.tree]

theorem altc_anyOf (ts : List Tok) (hne : ts ≠ []) (h : ts.all a3nB = true) :
    Eqv (E.tree (altc ts)) (anyOf (ts.map tokChar)) := by
  intro ws
  rw [altc_denote ts hne, Lem.anyOf_denote]
  constructor
  · rintro ⟨t, ht, hd⟩
    rw [leaf_a3nB t (List.all_eq_true.mp h t ht), PyRx.sym, Rx.Lem.sym_denote] at hd
    exact ⟨tokChar t, List.mem_map.mpr ⟨t, ht, rfl⟩, hd⟩
  · rintro ⟨c, hc, hw⟩
    obtain ⟨t, ht, rfl⟩ := List.mem_map.mp hc
    refine ⟨t, ht, ?_⟩
    rw [leaf_a3nB t (List.all_eq_true.mp h t ht), PyRx.sym, Rx.Lem.sym_denote]
    exact hw

/-- membership form of `altc_anyOf` -/
theorem altc_anyOf_mem (ts : List Tok) (cs : List Char) (hne : ts ≠ []) (h : ts.all a3nB = true)
    (hc : ∀ c, (∃ t ∈ ts, tokChar t = c) ↔ c ∈ cs) : Eqv (E.tree (altc ts)) (anyOf cs) := by
  intro ws
  rw [altc_anyOf ts hne h ws, Lem.anyOf_denote, Lem.anyOf_denote]
  constructor
  · rintro ⟨c, hcm, hw⟩
    obtain ⟨t, ht, rfl⟩ := List.mem_map.mp hcm
    exact ⟨tokChar t, (hc _).mp ⟨t, ht, rfl⟩, hw⟩
  · rintro ⟨c, hcm, hw⟩
    obtain ⟨t, ht, rfl⟩ := (hc c).mpr hcm
    exact ⟨tokChar t, List.mem_map.mpr ⟨t, ht, rfl⟩, hw⟩

def utokB (t : Tok) : Bool :=
  (t.length == 1 &&
    t.all fun c => !(['\\', '(', ')', '|', '*', '+', '?', '{', '.', '$', ' ', '\x08'].contains c)) ||
  (t.length == 2 && t.head? == some '\\' && (t.getLast?.map fun c => !c.isAlphanum).getD false)

theorem utokB_sound (t : Tok) (h : utokB t = true) : UTok true t := by
  unfold utokB at h
  rcases Bool.or_eq_true_iff.mp h with h | h
  · simp only [Bool.and_eq_true, beq_iff_eq] at h
    match t, h with
    | [c], h =>
      have h2 := h.2
      simp only [List.all_cons, List.all_nil, Bool.and_true, Bool.not_eq_true',
        List.contains_eq_mem, decide_eq_false_iff_not] at h2
      refine Or.inl ⟨Or.inl ⟨c, rfl, h2⟩, ?_⟩
      intro e
      simp only [List.cons.injEq, and_true] at e
      subst e
      exact h2 (by simp)
  · simp only [Bool.and_eq_true, beq_iff_eq] at h
    match t, h with
    | [b, c], h =>
      have h1 := h.1.2
      simp only [List.head?_cons, Option.some.injEq] at h1
      subst h1
      have h2 := h.2
      simp at h2
      exact Or.inl ⟨Or.inr (Or.inr (Or.inr (Or.inl ⟨c, rfl, h2, fun e => by simp at e⟩))), by simp⟩

theorem printable_ascii : ∀ c ∈ printables, c.toNat < 128 := by decide

end Pfl.PyRx.E2E.S3
