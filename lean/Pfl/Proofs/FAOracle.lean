/-
Helper lemmas for C04: emptiness test, determinism tests, language-equivalence oracle.
-/
import Pfl.Proofs.FABase
import Pfl.Oracle.LangEquiv
namespace Pfl

namespace FAOracle
variable {α : Type} [DecidableEq α]

theorem nodup_eraseDups (l : List α) : l.eraseDups.Nodup := by
  generalize hn : l.length = n
  induction n using Nat.strongRecOn generalizing l with
  | _ n ih =>
    cases l with
    | nil => simp
    | cons a as =>
      rw [List.eraseDups_cons, List.nodup_cons]
      refine ⟨?_, ?_⟩
      · simp [List.mem_eraseDups, List.mem_filter]
      · refine ih _ ?_ _ rfl
        have := List.length_filter_le (fun b => !b == a) as
        simp at hn; omega

theorem eraseDups_length_le_one_iff (l : List α) :
    l.eraseDups.length ≤ 1 ↔ ∀ p ∈ l, ∀ q ∈ l, p = q := by
  have hnd := nodup_eraseDups l
  have hmem : ∀ x, x ∈ l.eraseDups ↔ x ∈ l := fun x => List.mem_eraseDups
  generalize l.eraseDups = m at hnd hmem
  constructor
  · intro hlen p hp q hq
    rw [← hmem] at hp hq
    match m, hlen with
    | [], _ => cases hp
    | [x], _ =>
      simp at hp hq; rw [hp, hq]
  · intro hall
    match m, hnd, hmem with
    | [], _, _ => simp
    | [x], _, _ => simp
    | x :: y :: m, hnd, hmem =>
      exfalso
      have hxy : x = y := hall x ((hmem x).mp (by simp)) y ((hmem y).mp (by simp))
      subst hxy
      simp at hnd

end FAOracle

namespace ENFA
variable {σ τ : Type} [DecidableEq σ] [DecidableEq τ]

/-! ### emptiness -/

theorem mem_outs (A : ENFA σ) (q r : σ) :
    r ∈ A.outs q ↔ (∃ a ∈ A.syms, (q, some a, r) ∈ A.delta) ∨ (q, none, r) ∈ A.delta := by
  unfold outs
  simp only [List.mem_append, List.mem_flatMap, mem_succs]

theorem reachable_bfs_isSome (A : ENFA σ) :
    (bfs A.outs (A.delta.length + A.starts.length + 1) A.starts).isSome := by
  unfold bfs
  refine bfsK_isSome id A.outs (A.starts.eraseDups ++ A.delta.map (·.2.2)) ?_ _ _ _ ?_ ?_ ?_
  · intro x y hy
    simp only [id]
    apply List.mem_append_right
    rcases (mem_outs A x y).mp hy with ⟨a, _, h⟩ | h
    · exact List.mem_map.mpr ⟨_, h, rfl⟩
    · exact List.mem_map.mpr ⟨_, h, rfl⟩
  · simpa using FAOracle.nodup_eraseDups A.starts
  · intro z hz; exact List.mem_append_left _ hz
  · simp only [List.length_append, List.length_map]; omega

theorem reach_outs_iff (A : ENFA σ) (hA : A.WF) (s q : σ) :
    Reach A.outs s q ↔ ∃ w, A.Run s w q := by
  constructor
  · intro h
    induction h with
    | refl => exact ⟨[], Run.nil s⟩
    | tail _ hz ih =>
      obtain ⟨w, hw⟩ := ih
      rcases (mem_outs A _ _).mp hz with ⟨a, _, h⟩ | h
      · exact ⟨w ++ [a], Run.append hw (Run.step h (Run.nil _))⟩
      · exact ⟨w, by simpa using Run.append hw (Run.eps h (Run.nil _))⟩
  · rintro ⟨w, hw⟩
    induction hw with
    | nil q => exact Reach.refl q
    | eps h _ ih =>
      exact Reach.head ((mem_outs A _ _).mpr (Or.inr h)) ih
    | step h _ ih =>
      exact Reach.head ((mem_outs A _ _).mpr (Or.inl ⟨_, hA.delta_sym _ h _ rfl, h⟩)) ih

theorem mem_reachable_iff (A : ENFA σ) (hA : A.WF) (q : σ) :
    q ∈ A.reachable ↔ ∃ s ∈ A.starts, ∃ w, A.Run s w q := by
  have hs := reachable_bfs_isSome A
  obtain ⟨res, hres⟩ := Option.isSome_iff_exists.mp hs
  have : A.reachable = res := by
    unfold reachable
    change (bfs A.outs _ A.starts).getD [] = res
    rw [hres]; rfl
  rw [this, mem_bfs_iff _ _ _ _ hres]
  constructor
  · rintro ⟨s, hs, hr⟩; exact ⟨s, hs, (reach_outs_iff A hA s q).mp hr⟩
  · rintro ⟨s, hs, hr⟩; exact ⟨s, hs, (reach_outs_iff A hA s q).mpr hr⟩

/-! ### determinism -/

theorem tfDeterministic_iff (A : ENFA σ) :
    A.tfDeterministic = true ↔
      ∀ q a r r', (q, a, r) ∈ A.delta → (q, a, r') ∈ A.delta → r = r' := by
  unfold tfDeterministic
  simp only [List.all_eq_true, decide_eq_true_eq, FAOracle.eraseDups_length_le_one_iff, mem_succs]
  constructor
  · intro h q a r r' h1 h2
    exact h (q, a, r) h1 r h1 r' h2
  · intro h t _ p hp q hq
    exact h _ _ _ _ hp hq

omit [DecidableEq σ] in
theorem run_nil_eq_of_selfloops (A : ENFA σ) (h : ∀ q r, (q, none, r) ∈ A.delta → r = q)
    {q r : σ} {w : List Nat} (hr : A.Run q w r) (hw : w = []) : r = q := by
  induction hr with
  | nil => rfl
  | eps he _ ih => rw [ih hw]; exact h _ _ he
  | step => cases hw

theorem ecloseSelf_iff (A : ENFA σ) (hA : A.WF) :
    (A.states.all fun q => (A.eclose q).all (· = q)) = true ↔
      ∀ q r, (q, none, r) ∈ A.delta → r = q := by
  simp only [List.all_eq_true, decide_eq_true_eq, mem_eclose_iff]
  constructor
  · intro h q r he
    exact h q (hA.delta_src _ he) r (Run.eps he (Run.nil r))
  · intro h q _ r hr
    exact run_nil_eq_of_selfloops A h hr rfl

/-! ### language-equivalence oracle -/

theorem mem_canonS (A : ENFA σ) (S : List σ) (q : σ) :
    q ∈ A.canonS S ↔ q ∈ A.states ∧ q ∈ S := by
  unfold canonS; simp [List.mem_filter]

theorem canonS_congr (A : ENFA σ) (S S' : List σ) (h : ∀ q ∈ A.states, q ∈ S ↔ q ∈ S') :
    A.canonS S = A.canonS S' := by
  unfold canonS
  apply List.filter_congr
  intro q hq
  simp [h q hq]

theorem subsetStep_canonS (A : ENFA σ) (hA : A.WF) (X : List σ) (a : Nat) :
    A.subsetStep (A.canonS X) a = A.canonS (A.ecloseL (A.nextL X (some a))) := by
  unfold subsetStep
  apply canonS_congr
  intro q _
  simp only [mem_ecloseL_iff, mem_nextL_iff, mem_canonS]
  constructor
  · rintro ⟨p, ⟨p', ⟨_, hp'⟩, he⟩, hr⟩; exact ⟨p, ⟨p', hp', he⟩, hr⟩
  · rintro ⟨p, ⟨p', hp', he⟩, hr⟩; exact ⟨p, ⟨p', ⟨hA.delta_src _ he, hp'⟩, he⟩, hr⟩

theorem foldl_subsetStep (A : ENFA σ) (hA : A.WF) (w : List Nat) (X : List σ) :
    w.foldl A.subsetStep (A.canonS X) = A.canonS (A.evalE X w) := by
  induction w generalizing X with
  | nil => rfl
  | cons a w ih =>
    rw [List.foldl_cons, subsetStep_canonS A hA, ih]
    rfl

theorem foldl_subsetStart (A : ENFA σ) (hA : A.WF) (w : List Nat) :
    w.foldl A.subsetStep A.subsetStart = A.canonS (A.evalE (A.ecloseL A.starts) w) :=
  foldl_subsetStep A hA w _

theorem hasFinal_canonS (A : ENFA σ) (hA : A.WF) (w : List Nat) :
    A.hasFinal (A.canonS (A.evalE (A.ecloseL A.starts) w)) = true ↔ A.Lang w := by
  rw [lang_iff_evalE]
  unfold hasFinal
  simp only [List.any_eq_true, decide_eq_true_eq, mem_canonS]
  constructor
  · rintro ⟨f, ⟨_, h1⟩, h2⟩; exact ⟨f, h2, h1⟩
  · rintro ⟨f, h2, h1⟩; exact ⟨f, ⟨hA.finals_sub f h2, h1⟩, h2⟩

theorem hasFinal_foldl (A : ENFA σ) (hA : A.WF) (w : List Nat) :
    A.hasFinal (w.foldl A.subsetStep A.subsetStart) = true ↔ A.Lang w := by
  rw [foldl_subsetStart A hA, hasFinal_canonS A hA]

omit [DecidableEq σ] in
theorem run_syms (A : ENFA σ) {q r : σ} {w : List Nat} (h : A.Run q w r) :
    ∀ a ∈ w, a ∈ A.delta.filterMap (·.2.1) := by
  induction h with
  | nil => intro a ha; cases ha
  | eps _ _ ih => exact ih
  | step he _ ih =>
    intro a ha
    rcases List.mem_cons.mp ha with rfl | ha
    · exact List.mem_filterMap.mpr ⟨_, he, rfl⟩
    · exact ih a ha

omit [DecidableEq σ] [DecidableEq τ] in
theorem lang_allSyms_left (A : ENFA σ) (B : ENFA τ) {w : List Nat} (h : A.Lang w) :
    ∀ a ∈ w, a ∈ allSyms A B := by
  obtain ⟨s, _, f, _, hr⟩ := h
  intro a ha
  have := run_syms A hr a ha
  unfold allSyms
  simp only [List.mem_eraseDups, List.mem_append]
  exact Or.inl (Or.inr this)

omit [DecidableEq σ] [DecidableEq τ] in
theorem lang_allSyms_right (A : ENFA σ) (B : ENFA τ) {w : List Nat} (h : B.Lang w) :
    ∀ a ∈ w, a ∈ allSyms A B := by
  obtain ⟨s, _, f, _, hr⟩ := h
  intro a ha
  have := run_syms B hr a ha
  unfold allSyms
  simp only [List.mem_eraseDups, List.mem_append]
  exact Or.inr this

/-- the search result of `langDiff` -/
def diffSeen (A : ENFA σ) (B : ENFA τ) (fuel : Nat) :
    Option (List ((List σ × List τ) × List Nat)) :=
  bfsK (·.1) (diffNext A B) fuel [((A.subsetStart, B.subsetStart), [])]
    [((A.subsetStart, B.subsetStart), [])]

/-- soundness invariant: every node's pair is the pair of subsets reached by its word -/
theorem diffSeen_sound (A : ENFA σ) (B : ENFA τ) (fuel : Nat)
    (res : List ((List σ × List τ) × List Nat)) (h : diffSeen A B fuel = some res) :
    ∀ n ∈ res, n.1.1 = n.2.foldl A.subsetStep A.subsetStart ∧
      n.1.2 = n.2.foldl B.subsetStep B.subsetStart := by
  unfold diffSeen at h
  refine bfsK_sound (·.1) (diffNext A B)
    (fun n => n.1.1 = n.2.foldl A.subsetStep A.subsetStart ∧
      n.1.2 = n.2.foldl B.subsetStep B.subsetStart) ?_ fuel _ _ res h ?_ ?_
  · rintro x y ⟨h1, h2⟩ hy
    unfold diffNext at hy
    obtain ⟨a, _, rfl⟩ := List.mem_map.mp hy
    simp only [List.foldl_append, List.foldl_cons, List.foldl_nil, ← h1, ← h2, and_self]
  · intro z hz; simp at hz; subst hz; exact ⟨rfl, rfl⟩
  · intro z hz; simp at hz; subst hz; exact ⟨rfl, rfl⟩

/-- completeness: every word over `allSyms` is represented -/
theorem diffSeen_complete (A : ENFA σ) (B : ENFA τ) (fuel : Nat)
    (res : List ((List σ × List τ) × List Nat)) (h : diffSeen A B fuel = some res)
    (w : List Nat) (hw : ∀ a ∈ w, a ∈ allSyms A B) :
    ∃ m ∈ res, m.1 = (w.foldl A.subsetStep A.subsetStart, w.foldl B.subsetStep B.subsetStart) := by
  unfold diffSeen at h
  have inv := bfsK_inv (·.1) (diffNext A B) fuel _ _ res h (fun z hz => hz)
    (fun x hx hxt => absurd hx hxt)
  have key : ∀ (v : List Nat), (∀ a ∈ v, a ∈ allSyms A B) → ∀ n ∈ res,
      ∃ m ∈ res, m.1 = (v.foldl A.subsetStep n.1.1, v.foldl B.subsetStep n.1.2) := by
    intro v
    induction v with
    | nil => intro _ n hn; exact ⟨n, hn, rfl⟩
    | cons a v ih =>
      intro hv n hn
      have ha : a ∈ allSyms A B := hv a List.mem_cons_self
      have hy : ((A.subsetStep n.1.1 a, B.subsetStep n.1.2 a), n.2 ++ [a]) ∈ diffNext A B n := by
        unfold diffNext; exact List.mem_map.mpr ⟨a, ha, rfl⟩
      obtain ⟨m', hm', hk⟩ := List.mem_map.mp (inv.2 n hn (by simp) _ hy)
      obtain ⟨m, hm, hmk⟩ := ih (fun b hb => hv b (List.mem_cons_of_mem _ hb)) m' hm'
      refine ⟨m, hm, ?_⟩
      rw [hmk, hk]; rfl
  exact key w hw _ (inv.1 _ List.mem_cons_self)

theorem langDiff_eq (A : ENFA σ) (B : ENFA τ) (fuel : Nat) :
    A.langDiff B fuel = (diffSeen A B fuel).map fun seen =>
      (seen.find? fun n => A.hasFinal n.1.1 != B.hasFinal n.1.2).map (·.2) := rfl

end ENFA
end Pfl
