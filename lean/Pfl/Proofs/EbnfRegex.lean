/-
Helper lemmas for the regex side of `RecursiveAutomaton.from_ebnf` (C20): the bodies of one head,
joined by " | ", are the blank-joined tokens of the (right-nested) alternation of the expressions.
-/
import Pfl.Proofs.EbnfLemmas
import Pfl.Proofs.E2EReader
import Pfl.Proofs.E2E3Chars
import Pfl.Proofs.RegexLemmas
namespace Pfl.Ebnf.Lem
open Pfl Pfl.Ebnf Pfl.TextCodec Pfl.TextCodec.Lem Pfl.LabelCodec.Lem
open Pfl.PyRx.E2E Pfl.PyRx.E2E.E Pfl.RegexReader Pfl.RegexReader.Lem

/-! ### alternation in the nesting that `E.WF` admits -/

/-- `a | c` where the alternatives of `a` are re-nested to the right: the text "a1 | a2 | c" is
the expression `alt a1 (alt a2 c)` -/
def altApp : E → E → E
  | .alt a b, c => .alt a (altApp b c)
  | .tok x, c => .alt (.tok x) c
  | .par e, c => .alt (.par e) c
  | .star e, c => .alt (.star e) c
  | .cat a b, c => .alt (.cat a b) c

/-- the alternation of a non-empty list of expressions -/
def altAll : List E → E
  | [] => .tok "epsilon".toList
  | [e] => e
  | e :: e' :: es => altApp e (altAll (e' :: es))

theorem flat_altApp (a c : E) : flat (altApp a c) = flat a ++ ['|'] :: flat c := by
  induction a with
  | alt a b _ ihb => simp [altApp, flat, ihb]
  | tok _ => rfl
  | par _ _ => rfl
  | star _ _ => rfl
  | cat _ _ _ _ => rfl

theorem wf_altApp {A : List Char → Prop} (a c : E) (ha : WF A a) (hc : WF A c) :
    WF A (altApp a c) := by
  induction a with
  | alt a b _ ihb => exact ⟨ha.1, ihb ha.2.1, ha.2.2⟩
  | tok _ => exact ⟨ha, hc, by simp [lvl]⟩
  | par _ _ => exact ⟨ha, hc, by simp [lvl]⟩
  | star _ _ => exact ⟨ha, hc, by simp [lvl]⟩
  | cat _ _ _ _ => exact ⟨ha, hc, by simp [lvl]⟩

theorem need_altApp (a c : E) : E.need (altApp a c) = E.need a + E.need c + 1 := by
  induction a with
  | alt a b _ ihb => simp only [altApp, E.need, ihb]; omega
  | tok _ => rfl
  | par _ _ => rfl
  | star _ _ => rfl
  | cat _ _ _ _ => rfl

theorem denote_altApp (a c : E) (w : List String) :
    Rx.Denote (tree (altApp a c)) w ↔ Rx.Denote (tree a) w ∨ Rx.Denote (tree c) w := by
  induction a with
  | alt a b _ ihb =>
    simp only [altApp, tree, Rx.Lem.alt_denote, ihb, or_assoc]
  | tok _ => exact Rx.Lem.alt_denote _ _ _
  | par _ _ => exact Rx.Lem.alt_denote _ _ _
  | star _ _ => exact Rx.Lem.alt_denote _ _ _
  | cat _ _ _ _ => exact Rx.Lem.alt_denote _ _ _

theorem wf_altAll {A : List Char → Prop} : ∀ (es : List E), es ≠ [] → (∀ e ∈ es, WF A e) →
    WF A (altAll es)
  | [], h, _ => absurd rfl h
  | [e], _, h => h e (by simp)
  | e :: e' :: es, _, h =>
    wf_altApp e _ (h e (by simp)) (wf_altAll (e' :: es) (by simp) fun x hx => h x (List.mem_cons_of_mem _ hx))

theorem need_altAll : ∀ (es : List E), es ≠ [] →
    E.need (altAll es) + 1 = (es.map E.need).sum + es.length
  | [], h => absurd rfl h
  | [e], _ => by simp [altAll]
  | e :: e' :: es, _ => by
    have ih := need_altAll (e' :: es) (by simp)
    simp only [altAll, need_altApp, List.map_cons, List.sum_cons, List.length_cons] at ih ⊢
    omega

theorem denote_altAll : ∀ (es : List E) (w : List String), es ≠ [] →
    (Rx.Denote (tree (altAll es)) w ↔ ∃ e ∈ es, Rx.Denote (tree e) w)
  | [], _, h => absurd rfl h
  | [e], w, _ => by simp [altAll]
  | e :: e' :: es, w, _ => by
    have ih := denote_altAll (e' :: es) w (by simp)
    rw [altAll, denote_altApp, ih]
    simp

/-! ### blank-joined texts -/

theorem jb_eq_joinWith : ∀ l : List (List Char), jb l = joinWith [' '] l
  | [] => rfl
  | [_] => rfl
  | a :: b :: l => by rw [jb, joinWith_cons_cons, jb_eq_joinWith (b :: l)]; simp

theorem jb_append : ∀ (a b : List (List Char)), a ≠ [] → b ≠ [] →
    jb (a ++ b) = jb a ++ ' ' :: jb b
  | [], _, h, _ => absurd rfl h
  | [x], b, _, hb => by
    obtain ⟨y, l, rfl⟩ := List.exists_cons_of_ne_nil hb
    rfl
  | x :: y :: l, b, _, hb => by
    have ih := jb_append (y :: l) b (by simp) hb
    simp only [List.cons_append, jb] at ih ⊢
    rw [ih]; simp

theorem jb_flat_altApp (a c : E) :
    jb (flat (altApp a c)) = jb (flat a) ++ sepBar ++ jb (flat c) := by
  obtain ⟨y, l, hy⟩ := List.exists_cons_of_ne_nil (flat_ne_nil c)
  rw [flat_altApp, jb_append _ _ (flat_ne_nil a) (by simp), hy]
  simp [jb, sepBar]

/-- the bodies of one head joined by " | " are the text of the alternation -/
theorem joinWith_bar : ∀ (es : List E), es ≠ [] →
    joinWith sepBar (es.map fun e => jb (flat e)) = jb (flat (altAll es))
  | [], h => absurd rfl h
  | [e], _ => rfl
  | e :: e' :: es, _ => by
    have ih := joinWith_bar (e' :: es) (by simp)
    rw [altAll, jb_flat_altApp, ← ih]
    rfl

/-! ### conditions on tokens -/

/-- a token that survives the line reader: free of white space and of "->" -/
def Plain (x : List Char) : Prop := (∀ c ∈ x, isSpace c = false) ∧ ¬ ['-', '>'] <:+: x

theorem a3_ne_nil {x : List Char} (h : A3 x) : x ≠ [] := by
  rcases h with ⟨c, rfl, _⟩ | ⟨h, _⟩ | ⟨c, rfl⟩
  · simp
  · exact h.1
  · simp

theorem jb_head : ∀ (l : List (List Char)) (c : Char), (∀ x ∈ l, x ≠ []) →
    (jb l).head? = some c → ∃ x ∈ l, c ∈ x
  | [], c, _, h => by simp [jb] at h
  | [x], c, _, h => ⟨x, by simp, List.mem_of_mem_head? (by simpa [jb] using h)⟩
  | x :: y :: l, c, hne, h => by
    refine ⟨x, by simp, ?_⟩
    obtain ⟨d, m, rfl⟩ := List.exists_cons_of_ne_nil (hne x (by simp))
    simp only [jb, List.cons_append, List.head?_cons, Option.some.injEq] at h
    subst h; simp

theorem jb_last : ∀ (l : List (List Char)) (c : Char), (∀ x ∈ l, x ≠ []) →
    (jb l).getLast? = some c → ∃ x ∈ l, c ∈ x
  | [], c, _, h => by simp [jb] at h
  | [x], c, _, h => ⟨x, by simp, List.mem_of_getLast? (by simpa [jb] using h)⟩
  | x :: y :: l, c, hne, h => by
    have hne' : ∀ z ∈ y :: l, z ≠ [] := fun z hz => hne z (List.mem_cons_of_mem _ hz)
    have hj : jb (y :: l) ≠ [] := by
      obtain ⟨d, m, e⟩ := List.exists_cons_of_ne_nil (hne y (by simp))
      cases l with
      | nil => simpa [jb] using hne y (by simp)
      | cons z l => rw [jb, e]; simp
    obtain ⟨d, m, e⟩ := List.exists_cons_of_ne_nil hj
    have : (jb (y :: l)).getLast? = some c := by
      rw [jb, e, List.append_cons, getLast?_append_cons] at h
      rw [e]; exact h
    obtain ⟨z, hz, hc⟩ := jb_last (y :: l) c hne' this
    exact ⟨z, List.mem_cons_of_mem _ hz, hc⟩

theorem mem_jb (l : List (List Char)) (c : Char) (h : c ∈ jb l) : c = ' ' ∨ ∃ x ∈ l, c ∈ x := by
  rw [jb_eq_joinWith] at h
  rcases mem_joinWith _ _ _ h with h | h
  · left; simpa using h
  · exact Or.inr h

theorem noArrow_jb : ∀ (l : List (List Char)), (∀ x ∈ l, ¬ ['-', '>'] <:+: x) →
    ¬ ['-', '>'] <:+: jb l
  | [], _ => noArrow_nil
  | [x], h => h x (by simp)
  | x :: y :: l, h => by
    rw [jb]
    apply noArrow_append (h x (by simp))
    · exact noArrow_cons (by decide)
        (noArrow_jb (y :: l) fun t ht => h t (List.mem_cons_of_mem _ ht))
    · right; simp

/-- a blank-joined text of plain tokens is a body text -/
theorem body_jb (l : List (List Char)) (hne : ∀ x ∈ l, x ≠ []) (hp : ∀ x ∈ l, Plain x) :
    Body (jb l) := by
  refine ⟨?_, ?_, noArrow_jb l fun x hx => (hp x hx).2⟩
  · apply strip_of_ends
    · intro c hc
      obtain ⟨x, hx, hcx⟩ := jb_head l c hne hc
      exact (hp x hx).1 c hcx
    · intro c hc
      obtain ⟨x, hx, hcx⟩ := jb_last l c hne hc
      exact (hp x hx).1 c hcx
  · intro c hc
    rcases mem_jb l c hc with rfl | ⟨x, hx, hcx⟩
    · decide
    · exact not_lineBreak_of_not_space c ((hp x hx).1 c hcx)

theorem jb_ne_nil (l : List (List Char)) (hl : l ≠ []) (hne : ∀ x ∈ l, x ≠ []) : jb l ≠ [] := by
  obtain ⟨x, l', rfl⟩ := List.exists_cons_of_ne_nil hl
  obtain ⟨d, m, rfl⟩ := List.exists_cons_of_ne_nil (hne x (by simp))
  cases l' <;> simp [jb]

/-! ### the token alphabet with the spelling "epsilon"

`A3` (the alphabet of `parse_grammar`) excludes the plain word "epsilon" — there every plain symbol is
a symbol leaf.  The reader itself takes it as any plain word (`components` returns it unchanged) and
`toNode` maps it to the ε node.  `A3e` is `A3` plus that word; the re-entry property `Toks` holds
for it by the same layout argument. -/

/-- special characters, plain symbols (the word "epsilon" included), escaped characters -/
def A3e (x : List Char) : Prop := IsSp x ∨ IsPl x ∨ (∃ c, x = ['\\', c])

theorem A3e_of_A3 {x : List Char} (h : A3 x) : A3e x := by
  rcases h with h | h | h
  · exact Or.inl h
  · exact Or.inr (Or.inl h.1)
  · exact Or.inr (Or.inr h)

theorem A3e_iff (x : List Char) : A3e x ↔ A3 x ∨ x = "epsilon".toList := by
  constructor
  · rintro (h | h | h)
    · exact Or.inl (Or.inl h)
    · by_cases e : x = "epsilon".toList
      · exact Or.inr e
      · exact Or.inl (Or.inr (Or.inl ⟨h, e⟩))
    · exact Or.inl (Or.inr (Or.inr h))
  · rintro (h | rfl)
    · exact A3e_of_A3 h
    · refine Or.inr (Or.inl ⟨by decide, ?_⟩)
      intro c hc
      have : c ∈ ['e', 'p', 's', 'i', 'l', 'o', 'n'] := hc
      simp only [List.mem_cons, List.not_mem_nil, or_false] at this
      rcases this with rfl | rfl | rfl | rfl | rfl | rfl | rfl <;> decide

/-- the spelling is not a token of `A3` -/
theorem epsilon_not_A3 : ¬ A3 "epsilon".toList := by
  rintro (⟨c, hc, _⟩ | h | ⟨c, hc⟩)
  · have := congrArg List.length hc; simp at this
  · exact h.2 rfl
  · have := congrArg List.length hc; simp at this

theorem enc_piece_e {x : List Char} (h : A3e x) : Piece (enc x) := by
  unfold enc
  split
  · exact Or.inr (Or.inr (Or.inr rfl))
  · rename_i hx
    rcases h with h | h | ⟨c, rfl⟩
    · exact Or.inl h
    · exact Or.inr (Or.inl h)
    · exact Or.inr (Or.inr (Or.inl ⟨c, rfl, fun e => hx (by rw [e])⟩))

theorem enc_bs_e {x : List Char} (h : A3e x) : enc x = ['\\'] → 1 ≤ own x := by
  unfold enc own
  split
  · intro _; omega
  · intro e
    subst e
    rcases h with ⟨c, hc, hs⟩ | h | ⟨c, hc⟩
    · simp only [List.cons.injEq, and_true] at hc; subst hc; simp [isSpecialChar] at hs
    · exact absurd rfl (h.2 '\\' (by simp)).2.1
    · simp at hc

theorem dec_enc_e {x : List Char} (h : A3e x) : dec (enc x) = x := by
  by_cases hx : x = ['\\', ' ']
  · subst hx; rfl
  · have : enc x = x := by simp [enc, hx]
    rw [this, dec, if_neg]
    intro e
    have := enc_bs_e h (this.trans e)
    simp [own, hx] at this

theorem wlay_layJ_e : ∀ l : List (List Char), (∀ a ∈ l, A3e a) → WLay (layJ l)
  | [], _ => trivial
  | [a], h => ⟨enc_piece_e (h a (by simp)), enc_bs_e (h a (by simp))⟩
  | a :: b :: l, h => by
    have ih := wlay_layJ_e (b :: l) (fun x hx => h x (by simp [hx]))
    cases l with
    | nil =>
      exact ⟨enc_piece_e (h a (by simp)), fun _ => by omega, fun e => by omega, ih⟩
    | cons c l =>
      exact ⟨enc_piece_e (h a (by simp)), fun _ => by omega, fun e => by omega, ih⟩

theorem lastOK_layJ_e : ∀ l : List (List Char), (∀ a ∈ l, A3e a) → LastOK (layJ l)
  | [], _ => by intro L0 p k e; simp [layJ] at e
  | [a], h => by
    intro L0 p k e
    have : L0 = [] ∧ (enc a, own a) = (p, k) := by
      cases L0 with
      | nil => simpa [layJ] using e
      | cons x L0 => simp [layJ] at e
    obtain ⟨_, e2⟩ := this
    simp only [Prod.mk.injEq] at e2
    obtain ⟨rfl, rfl⟩ := e2
    by_cases hx : a = ['\\', ' ']
    · subst hx; rfl
    · have : enc a ≠ ['\\'] := fun e => by
        have := enc_bs_e (h a (by simp)) e; simp [own, hx] at this
      simp [own, hx, this]
  | a :: b :: l, h => by
    intro L0 p k e
    have ih := lastOK_layJ_e (b :: l) (fun x hx => h x (by simp [hx]))
    cases L0 with
    | nil =>
      have := congrArg List.length e
      cases l <;> simp [layJ] at this
    | cons x L0 =>
      rw [layJ, List.cons_append, List.cons.injEq] at e
      exact ih L0 p k e.2

theorem map_dec_layJ_e : ∀ l : List (List Char), (∀ a ∈ l, A3e a) →
    (layJ l).map (fun x => dec x.1) = l
  | [], _ => rfl
  | [a], h => by simp [layJ, dec_enc_e (h a (by simp))]
  | a :: b :: l, h => by
    rw [layJ, List.map_cons, map_dec_layJ_e (b :: l) (fun x hx => h x (by simp [hx]))]
    simp [dec_enc_e (h a (by simp))]

theorem toks_A3e : Toks A3e where
  re := fun l hne hl => by
    rw [joinBlank_eq, ← lt_layJ,
      components_lay _ (wlay_layJ_e l hl) (by cases l with
        | nil => exact absurd rfl hne
        | cons a l => cases l <;> simp [layJ]) (lastOK_layJ_e l hl),
      map_dec_layJ_e l hl]
  op := Or.inl ⟨_, rfl, by decide⟩
  cl := Or.inl ⟨_, rfl, by decide⟩
  st := Or.inl ⟨_, rfl, by decide⟩
  bar := Or.inl ⟨_, rfl, by decide⟩

theorem wf_mono {A B : List Char → Prop} (hAB : ∀ x, A x → B x) : ∀ e : E, WF A e → WF B e
  | .tok _, h => ⟨hAB _ h.1, h.2⟩
  | .par e, h => wf_mono hAB e h
  | .star e, h => ⟨wf_mono hAB e h.1, h.2⟩
  | .cat a b, h => ⟨wf_mono hAB a h.1, wf_mono hAB b h.2.1, h.2.2⟩
  | .alt a b, h => ⟨wf_mono hAB a h.1, wf_mono hAB b h.2.1, h.2.2⟩

/-- the reader on the token text of an expression over `A3e` (`parse_grammar` for `A3e`) -/
theorem parse_grammar_e (e : E) (h : WF A3e e) (fuel : Nat) (hf : E.need e ≤ fuel) :
    parse fuel (joinBlank (flat e)) = .ok (tree e) :=
  parse_joinBlank toks_A3e e h fuel hf

theorem a3e_ne_nil {x : List Char} (h : A3e x) : x ≠ [] := by
  rcases h with ⟨c, rfl, _⟩ | h | ⟨c, rfl⟩
  · simp
  · exact h.1
  · simp

/-! ### rules -/

/-- the text written for a right-hand side (`none`: the empty right-hand side) -/
def bodyText : Option E → List Char
  | none => []
  | some e => joinBlank (flat e)

/-- the expression a right-hand side stands for -/
def exprOf : Option E → E
  | none => .tok "epsilon".toList
  | some e => e

/-- the rule lines as (head, body text) -/
def rawLines (rs : List (List Char × Option E)) : List (List Char × List Char) :=
  rs.map fun r => (r.1, bodyText r.2)

/-- the alternatives of head `h`, in order -/
def exprs (rs : List (List Char × Option E)) (h : List Char) : List E :=
  (rs.filter (·.1 = h)).map fun r => exprOf r.2

/-- a rule the line reader and the regex reader agree on -/
def RuleOK (r : List Char × Option E) : Prop :=
  Head r.1 ∧ ∀ e, r.2 = some e → WF A3e e ∧ ∀ x ∈ flat e, Plain x

theorem wf_epsilon : WF A3e (.tok "epsilon".toList) :=
  ⟨(A3e_iff _).mpr (Or.inr rfl), by decide, by decide, Or.inr (by decide)⟩

/-- the reader maps the spelling to the ε node, so the tree of an empty right-hand side is ε -/
theorem tree_epsilon : tree (.tok "epsilon".toList) = .eps := by decide

theorem wf_exprOf (r : List Char × Option E) (h : RuleOK r) : WF A3e (exprOf r.2) := by
  cases e : r.2 with
  | none => exact wf_epsilon
  | some e' => exact (h.2 e' e).1

theorem body_bodyText (r : List Char × Option E) (h : RuleOK r) : Body (bodyText r.2) := by
  cases e : r.2 with
  | none => exact ⟨rfl, by simp [bodyText], noArrow_nil⟩
  | some e' =>
    obtain ⟨hw, hp⟩ := h.2 e' e
    rw [bodyText, joinBlank_eq]
    exact body_jb _ (fun x hx => a3e_ne_nil (flat_A toks_A3e e' hw x hx)) hp

theorem epsBody_bodyText (r : List Char × Option E) (h : RuleOK r) :
    epsBody (bodyText r.2) = jb (flat (exprOf r.2)) := by
  cases e : r.2 with
  | none => rfl
  | some e' =>
    obtain ⟨hw, _⟩ := h.2 e' e
    have : jb (flat e') ≠ [] :=
      jb_ne_nil _ (flat_ne_nil e') (fun x hx => a3e_ne_nil (flat_A toks_A3e e' hw x hx))
    simp [epsBody, bodyText, exprOf, joinBlank_eq, this]

theorem heads_rawLines (rs : List (List Char × Option E)) :
    heads (rawLines rs) = (rs.map (·.1)).eraseDups := by
  simp [heads, rawLines, List.map_map, Function.comp_def]

theorem alts_rawLines (rs : List (List Char × Option E)) (hok : ∀ r ∈ rs, RuleOK r) (h : List Char) :
    alts (rawLines rs) h = (exprs rs h).map fun e => jb (flat e) := by
  unfold alts rawLines exprs
  rw [List.filter_map, List.map_map, List.map_map]
  apply List.map_congr_left
  intro r hr
  exact epsBody_bodyText r (hok r (List.mem_filter.mp hr).1)

theorem exprs_ne_nil (rs : List (List Char × Option E)) (h : List Char)
    (hh : h ∈ heads (rawLines rs)) : exprs rs h ≠ [] := by
  rw [heads_rawLines, List.mem_eraseDups, List.mem_map] at hh
  obtain ⟨r, hr, e⟩ := hh
  intro hn
  have : exprOf r.2 ∈ exprs rs h :=
    List.mem_map.mpr ⟨r, List.mem_filter.mpr ⟨hr, by simpa using e⟩, rfl⟩
  rw [hn] at this
  simp at this

theorem mem_exprs (rs : List (List Char × Option E)) (h : List Char) (e : E) :
    e ∈ exprs rs h ↔ ∃ r ∈ rs, r.1 = h ∧ exprOf r.2 = e := by
  simp [exprs, List.mem_map, List.mem_filter, and_assoc]

/-- the dict for rules: each head with the text of the alternation of its alternatives -/
theorem group_rawLines (rs : List (List Char × Option E)) (hok : ∀ r ∈ rs, RuleOK r) :
    group (rawLines rs) =
      (heads (rawLines rs)).map fun h => (h, joinBlank (flat (altAll (exprs rs h)))) := by
  rw [group_spec, groupSpec]
  apply List.map_congr_left
  intro h hh
  rw [alts_rawLines rs hok h, joinWith_bar _ (exprs_ne_nil rs h hh), joinBlank_eq]

theorem rawLines_ok (rs : List (List Char × Option E)) (hok : ∀ r ∈ rs, RuleOK r) :
    ∀ l ∈ rawLines rs, Head l.1 ∧ Body l.2 := by
  intro l hl
  obtain ⟨r, hr, rfl⟩ := List.mem_map.mp hl
  exact ⟨(hok r hr).1, body_bodyText r (hok r hr)⟩

/-! ### single-character tokens (for examples) -/

theorem noArrow_of_no_dash (x : List Char) (h : ∀ c ∈ x, c ≠ '-') : ¬ ['-', '>'] <:+: x := by
  intro hi
  exact h '-' (hi.subset (by simp)) rfl

theorem head_char (c : Char) (h : (!isSpace c && c != '-') = true) : Head [c] := by
  simp only [Bool.and_eq_true, Bool.not_eq_true', bne_iff_ne, ne_eq] at h
  refine ⟨by simp, ?_, noArrow_of_no_dash _ ?_⟩
  · intro d hd; simp only [List.mem_cons, List.not_mem_nil, or_false] at hd; subst hd; exact h.1
  · intro d hd; simp only [List.mem_cons, List.not_mem_nil, or_false] at hd; subst hd; exact h.2

theorem plain_char (c : Char) (h : (!isSpace c && c != '-') = true) : Plain [c] :=
  let hh := head_char c h
  ⟨hh.2.1, hh.2.2⟩

theorem wf_tok_char (c : Char) (h : (c != ' ' && c != '\\' && !isSpecialChar c) = true) :
    WF A3e (.tok [c]) := by
  simp only [Bool.and_eq_true, Bool.not_eq_true', bne_iff_ne, ne_eq] at h
  obtain ⟨⟨h1, h2⟩, h3⟩ := h
  have hs := h3
  simp only [isSpecialChar, List.mem_cons, List.not_mem_nil, or_false, decide_eq_false_iff_not,
    not_or] at hs
  refine ⟨Or.inr (Or.inl ⟨by simp, ?_⟩), ?_, ?_, Or.inl ⟨[c], ?_⟩⟩
  · intro d hd; simp only [List.mem_cons, List.not_mem_nil, or_false] at hd; subst hd
    exact ⟨h1, h2, h3⟩
  · simp only [ne_eq, List.cons.injEq, and_true]; exact hs.2.2.2.2.2.1
  · simp only [ne_eq, List.cons.injEq, and_true]; exact hs.2.2.2.2.2.2
  · simp [toNode, hs.1, hs.2.1, hs.2.2.1, hs.2.2.2.1, hs.2.2.2.2.1, h2]

end Pfl.Ebnf.Lem
