/-
Concrete syntax trees with token leaves (plain characters, escaped characters, `.`, unions of
tokens standing for character sets), their reader expressions and meaning.
-/
import Pfl.Proofs.E2E3Chars
import Pfl.Proofs.E2EPass5
namespace Pfl.PyRx.E2E.S3
open Pfl.RegexReader Pfl.RegexReader.Lem Pfl.Rx Pfl.Rx.Lem Pfl.PyPass
open Pfl.PyRx.E2E E

inductive D where
  | tk (t : Tok)
  | uni (ts : List Tok)
  | grp (x : D)
  | seq (a b : D)
  | bar (a b : D)
  | star (a : D)
  | plus (a : D)
  | opt (a : D)
  | rep (a : D) (m n : Nat)

def dtoks : D → List Tok
  | .tk t => [t]
  | .uni ts => ['('] :: (insertOr ts ++ [[')']])
  | .grp x => ['('] :: (dtoks x ++ [[')']])
  | .seq a b => dtoks a ++ dtoks b
  | .bar a b => dtoks a ++ ['|'] :: dtoks b
  | .star a => dtoks a ++ [['*']]
  | .plus a => dtoks a ++ [['+']]
  | .opt a => dtoks a ++ [['?']]
  | .rep a m n => dtoks a ++ sing (C.braces m n)

def dtext (x : D) : List Char := (dtoks x).flatten

def dcl : D → Nat
  | .seq _ _ => 1
  | .bar _ _ => 2
  | _ => 0

def DUnit : D → Prop
  | .tk _ => True
  | .uni _ => True
  | .grp _ => True
  | _ => False

theorem DUnit.cl0 {x : D} (h : DUnit x) : dcl x = 0 := by
  cases x <;> first | rfl | exact absurd h (by simp [DUnit])


/-- a plain character that none of the later passes nor the reader reacts to -/
def Tk1 (c : Char) : Prop := c ∉ ['\\', '(', ')', '|', '*', '+', '?', '{', '.', '$', ' ', '\x08']

/-- the character after a backslash: not a letter or digit (those escapes mean something else) -/
def EscOK (c : Char) : Prop := c.isAlphanum = false

/-- leaf tokens; `q` says whether `_preprocess_optional` has still to run (then `\?` is written so,
afterwards it is the plain token `?`) -/
def LeafTok (q : Bool) (t : Tok) : Prop :=
  (∃ c, t = [c] ∧ Tk1 c) ∨ t = ['$'] ∨ t = ['.'] ∨
    (∃ c, t = ['\\', c] ∧ EscOK c ∧ (q = false → c ≠ '?')) ∨ (q = false ∧ t = ['?'])

/-- tokens inside a union standing for a set: `{` is the only character that stays unescaped there
although it is escaped elsewhere -/
def UTok (q : Bool) (t : Tok) : Prop := (LeafTok q t ∧ t ≠ ['.']) ∨ t = ['{']

/-- the trees; the flags say whether `+`, `{..}`, `?` may occur -/
def Form3 (pl rp op : Bool) : D → Prop
  | .tk t => LeafTok op t
  | .uni ts => ts ≠ [] ∧ ∀ t ∈ ts, UTok op t
  | .grp x => Form3 pl rp op x
  | .seq a b => Form3 pl rp op a ∧ Form3 pl rp op b ∧ dcl a ≤ 1 ∧ dcl b ≤ 1
  | .bar a b => Form3 pl rp op a ∧ Form3 pl rp op b
  | .star a => Form3 pl rp op a ∧ DUnit a
  | .plus a => pl = true ∧ Form3 pl rp op a ∧ DUnit a
  | .opt a => op = true ∧ Form3 pl rp op a ∧ DUnit a
  | .rep a m n => rp = true ∧ Form3 pl rp op a ∧ DUnit a ∧ m ≤ n

/-! ### reader expressions -/

def altc : List Tok → E
  | [] => .tok []
  | [t] => .tok t
  | t :: r => .alt (.tok t) (altc r)

def toE3 : D → E
  | .tk t => if t = ['.'] then .par (altc escapedPrintables) else .tok t
  | .uni ts => .par (altc ts)
  | .grp x => .par (toE3 x)
  | .seq a b => app (toE3 a) (toE3 b)
  | .bar a b => E2E.uni (toE3 a) (toE3 b)
  | .star a => .star (toE3 a)
  | _ => .tok []

/-- the meaning of a tree -/
def rx3 : D → Rx
  | .tk t => if t = ['.'] then tree (altc escapedPrintables) else leaf t
  | .uni ts => tree (altc ts)
  | .grp x => rx3 x
  | .seq a b => .cat (rx3 a) (rx3 b)
  | .bar a b => .alt (rx3 a) (rx3 b)
  | .star a => .star (rx3 a)
  | .plus a => .cat (rx3 a) (.star (rx3 a))
  | .opt a => .alt (rx3 a) .eps
  | .rep a m n => .cat (copies (rx3 a) m) (optCopies (rx3 a) (n - m))

theorem toNode_esc (c : Char) : toNode ['\\', c] = .nSym [c] := by
  unfold toNode
  have h1 : (['\\', c] : List Char) ≠ ['.'] := by simp
  have h2 : (['\\', c] : List Char) ≠ ['|'] := by simp
  have h3 : (['\\', c] : List Char) ≠ ['+'] := by simp
  have h4 : (['\\', c] : List Char) ≠ ['*'] := by simp
  have h5 : (['\\', c] : List Char) ≠ ['$'] := by simp
  simp

theorem tk1_ne {c : Char} (h : Tk1 c) (d : Char)
    (hd : d ∈ ['\\', '(', ')', '|', '*', '+', '?', '{', '.', '$', ' ', '\x08']) : c ≠ d := by
  rintro rfl; exact h hd

theorem tk1_pl {c : Char} (h : Tk1 c) : IsPl [c] := by
  refine ⟨by simp, ?_⟩
  intro d hd
  simp only [List.mem_cons, List.not_mem_nil, or_false] at hd
  subst hd
  refine ⟨tk1_ne h _ (by simp), tk1_ne h _ (by simp), ?_⟩
  simp [isSpecialChar, tk1_ne h '.' (by simp), tk1_ne h '|' (by simp), tk1_ne h '+' (by simp),
    tk1_ne h '*' (by simp), tk1_ne h '$' (by simp), tk1_ne h '(' (by simp), tk1_ne h ')' (by simp)]

theorem one_ne_epsilon (c : Char) : [c] ≠ "epsilon".toList := by
  intro e; have := congrArg List.length e; simp at this

/-- final leaf tokens are symbols of the reader -/
theorem leafTok_sym {t : Tok} (h : LeafTok false t) (hd : t ≠ ['.']) : A3 t ∧ IsLeaf t := by
  rcases h with ⟨c, rfl, hc⟩ | rfl | rfl | ⟨c, rfl, _, _⟩ | ⟨_, rfl⟩
  · have hpl := tk1_pl hc
    exact ⟨Or.inr (Or.inl ⟨hpl, one_ne_epsilon c⟩),
      hpl.ne_sp (by decide), hpl.ne_sp (by decide), Or.inl ⟨_, toNode_pl hpl (one_ne_epsilon c)⟩⟩
  · exact ⟨Or.inl ⟨_, rfl, by decide⟩, by decide, by decide, Or.inr (by decide)⟩
  · exact absurd rfl hd
  · exact ⟨Or.inr (Or.inr ⟨c, rfl⟩), by simp, by simp, Or.inl ⟨_, toNode_esc c⟩⟩
  · have hpl : IsPl ['?'] := ⟨by simp, by intro d hd; simp at hd; subst hd; decide⟩
    exact ⟨Or.inr (Or.inl ⟨hpl, one_ne_epsilon _⟩),
      by decide, by decide, Or.inl ⟨_, toNode_pl hpl (one_ne_epsilon _)⟩⟩

theorem UTok.ne_dot {q : Bool} {t : Tok} (h : UTok q t) : t ≠ ['.'] := by
  rcases h with h | rfl
  · exact h.2
  · simp

theorem UTok.sym {t : Tok} (h : UTok false t) : A3 t ∧ IsLeaf t := by
  rcases h with h | rfl
  · exact leafTok_sym h.1 h.2
  · have hpl : IsPl ['{'] := ⟨by simp, by intro d hd; simp at hd; subst hd; decide⟩
    exact ⟨Or.inr (Or.inl ⟨hpl, one_ne_epsilon _⟩),
      by decide, by decide, Or.inl ⟨_, toNode_pl hpl (one_ne_epsilon _)⟩⟩

theorem altc_flat : ∀ ts : List Tok, ts ≠ [] → flat (altc ts) = insertOr ts
  | [], h => absurd rfl h
  | [t], _ => rfl
  | t :: t' :: r, _ => by
    have e : insertOr (t :: t' :: r) = t :: ['|'] :: insertOr (t' :: r) := rfl
    have e2 : altc (t :: t' :: r) = .alt (.tok t) (altc (t' :: r)) := rfl
    rw [e, e2, flat, altc_flat (t' :: r) (by simp)]
    rfl

theorem altc_wf : ∀ ts : List Tok, ts ≠ [] → (∀ t ∈ ts, A3 t ∧ IsLeaf t) → WF A3 (altc ts)
  | [], h, _ => absurd rfl h
  | [t], _, h => h t (by simp)
  | t :: t' :: r, _, h =>
    ⟨h t (by simp), altc_wf (t' :: r) (by simp) (fun x hx => h x (by simp [hx])), by simp [lvl]⟩

theorem escapedPrintables_leaf : ∀ t ∈ escapedPrintables, A3 t ∧ IsLeaf t := by
  intro t ht
  have h1 := escapedPrintables_a3n t ht
  refine ⟨h1.a3, ?_⟩
  rcases h1 with ⟨hpl, hne⟩ | ⟨c, rfl⟩
  · exact ⟨hpl.ne_sp (by decide), hpl.ne_sp (by decide), Or.inl ⟨_, toNode_pl hpl hne⟩⟩
  · exact ⟨by simp, by simp, Or.inl ⟨_, toNode_esc c⟩⟩

theorem escapedPrintables_ne : escapedPrintables ≠ [] := by decide

theorem toE_lvl (x : D) (h : Form3 false false false x) : lvl (toE3 x) = dcl x := by
  cases x with
  | tk t => simp only [toE3]; split <;> rfl
  | seq a b => exact app_lvl _ _
  | bar a b => exact uni_lvl _ _
  | plus a => exact absurd h.1 (by simp)
  | opt a => exact absurd h.1 (by simp)
  | rep a m n => exact absurd h.1 (by simp)
  | _ => rfl

theorem toE_wf : ∀ x, Form3 false false false x → WF A3 (toE3 x)
  | .tk t, h => by
    simp only [toE3]
    split
    · exact altc_wf _ escapedPrintables_ne escapedPrintables_leaf
    · rename_i hd; exact leafTok_sym h hd
  | .uni ts, h => altc_wf ts h.1 (fun t ht => (h.2 t ht).sym)
  | .grp x, h => toE_wf x h
  | .seq a b, h => app_wf _ _ (toE_wf a h.1) (toE_wf b h.2.1) (by rw [toE_lvl a h.1]; exact h.2.2.1)
      (by rw [toE_lvl b h.2.1]; exact h.2.2.2)
  | .bar a b, h => uni_wf _ _ (toE_wf a h.1) (toE_wf b h.2)
  | .star a, h => ⟨toE_wf a h.1, by rw [toE_lvl a h.1]; exact h.2.cl0⟩
  | .plus a, h => absurd h.1 (by simp)
  | .opt a, h => absurd h.1 (by simp)
  | .rep a m n, h => absurd h.1 (by simp)

theorem expand_ne {t : Tok} (h : t ≠ ['.']) : expand t = [t] := by simp [expand, h]

theorem flatMap_expand_id (l : List Tok) (h : ∀ t ∈ l, t ≠ ['.']) : l.flatMap expand = l := by
  induction l with
  | nil => rfl
  | cons t l ih =>
    rw [List.flatMap_cons, expand_ne (h t (by simp)), ih (fun x hx => h x (by simp [hx]))]
    rfl

theorem insertOr_mem : ∀ (ts : List Tok) (t : Tok), t ∈ insertOr ts → t ∈ ts ∨ t = ['|']
  | [], t, h => by simp [insertOr] at h
  | [a], t, h => by simp [insertOr] at h; exact Or.inl (by simp [h])
  | a :: b :: r, t, h => by
    have e : insertOr (a :: b :: r) = a :: ['|'] :: insertOr (b :: r) := rfl
    rw [e] at h
    simp only [List.mem_cons] at h
    rcases h with rfl | rfl | h
    · exact Or.inl (by simp)
    · exact Or.inr rfl
    · rcases insertOr_mem (b :: r) t h with h | h
      · exact Or.inl (by simp at h ⊢; exact Or.inr h)
      · exact Or.inr h

theorem toE_flat : ∀ x, Form3 false false false x → flat (toE3 x) = (dtoks x).flatMap expand
  | .tk t, h => by
    simp only [toE3, dtoks, List.flatMap_cons, List.flatMap_nil, List.append_nil]
    split
    · rename_i hd
      subst hd
      simp [flat, altc_flat _ escapedPrintables_ne, expand]
    · rename_i hd
      simp [flat, expand_ne hd]
  | .uni ts, h => by
    have hne : ∀ t ∈ ['('] :: (insertOr ts ++ [[')']]), t ≠ ['.'] := by
      intro t ht
      simp only [List.mem_cons, List.mem_append, List.not_mem_nil, or_false] at ht
      rcases ht with rfl | ht | rfl
      · simp
      · rcases insertOr_mem ts t ht with ht | rfl
        · exact (h.2 t ht).ne_dot
        · simp
      · simp
    simp only [toE3, dtoks]
    rw [flatMap_expand_id _ hne, flat, altc_flat ts h.1]
    simp
  | .grp x, h => by
    simp only [toE3, dtoks, flat, toE_flat x h, List.flatMap_cons, List.flatMap_append]
    simp [expand]
  | .seq a b, h => by
    simp only [toE3, dtoks, app_flat, toE_flat a h.1, toE_flat b h.2.1, List.flatMap_append]
  | .bar a b, h => by
    simp only [toE3, dtoks, uni_flat, toE_flat a h.1, toE_flat b h.2, List.flatMap_append,
      List.flatMap_cons]
    simp [expand]
  | .star a, h => by
    simp only [toE3, dtoks, flat, toE_flat a h.1, List.flatMap_append, List.flatMap_cons]
    simp [expand]
  | .plus a, h => absurd h.1 (by simp)
  | .opt a, h => absurd h.1 (by simp)
  | .rep a m n, h => absurd h.1 (by simp)

theorem toE_tree : ∀ x, Form3 false false false x → Eqv (tree (toE3 x)) (rx3 x)
  | .tk t, _ => by
    simp only [toE3, rx3]
    split <;> exact Eqv.rfl'
  | .uni ts, _ => Eqv.rfl'
  | .grp x, h => toE_tree x h
  | .seq a b, h => (app_tree _ _).trans (Eqv.cat (toE_tree a h.1) (toE_tree b h.2.1))
  | .bar a b, h => (uni_tree _ _).trans (Eqv.alt (toE_tree a h.1) (toE_tree b h.2))
  | .star a, h => Eqv.star (toE_tree a h.1)
  | .plus a, h => absurd h.1 (by simp)
  | .opt a, h => absurd h.1 (by simp)
  | .rep a m n, h => absurd h.1 (by simp)

theorem toks_ne_nil : ∀ x : D, dtoks x ≠ []
  | .tk _ => by simp [dtoks]
  | .uni _ => by simp [dtoks]
  | .grp _ => by simp [dtoks]
  | .seq a _ => by simp [dtoks, toks_ne_nil a]
  | .bar _ _ => by simp [dtoks]
  | .star _ => by simp [dtoks]
  | .plus _ => by simp [dtoks]
  | .opt _ => by simp [dtoks]
  | .rep a _ _ => by simp [dtoks, toks_ne_nil a]

/-- every token of a final tree other than `.` is a symbol of the reader -/
theorem toks_a3 : ∀ x, Form3 false false false x → ∀ t ∈ dtoks x, t ≠ ['.'] → A3 t
  | .tk t, h => by
    intro t' ht hd
    simp only [dtoks, List.mem_cons, List.not_mem_nil, or_false] at ht
    subst ht
    exact (leafTok_sym h hd).1
  | .uni ts, h => by
    intro t ht _
    simp only [dtoks, List.mem_cons, List.mem_append, List.not_mem_nil, or_false] at ht
    rcases ht with rfl | ht | rfl
    · exact toks_A3.op
    · rcases insertOr_mem ts t ht with ht | rfl
      · exact (h.2 t ht).sym.1
      · exact toks_A3.bar
    · exact toks_A3.cl
  | .grp x, h => by
    intro t ht hd
    simp only [dtoks, List.mem_cons, List.mem_append, List.not_mem_nil, or_false] at ht
    rcases ht with rfl | ht | rfl
    · exact toks_A3.op
    · exact toks_a3 x h t ht hd
    · exact toks_A3.cl
  | .seq a b, h => by
    intro t ht hd
    simp only [dtoks, List.mem_append] at ht
    rcases ht with ht | ht
    · exact toks_a3 a h.1 t ht hd
    · exact toks_a3 b h.2.1 t ht hd
  | .bar a b, h => by
    intro t ht hd
    simp only [dtoks, List.mem_cons, List.mem_append] at ht
    rcases ht with ht | rfl | ht
    · exact toks_a3 a h.1 t ht hd
    · exact toks_A3.bar
    · exact toks_a3 b h.2 t ht hd
  | .star a, h => by
    intro t ht hd
    simp only [dtoks, List.mem_cons, List.mem_append, List.not_mem_nil, or_false] at ht
    rcases ht with ht | rfl
    · exact toks_a3 a h.1 t ht hd
    · exact toks_A3.st
  | .plus a, h => absurd h.1 (by simp)
  | .opt a, h => absurd h.1 (by simp)
  | .rep a m n, h => absurd h.1 (by simp)

/-- reading the dtext `_separate` writes for a final tree -/
theorem parse_final (x : D) (h : Form3 false false false x) :
    ∃ fuel r, parse fuel (join [' '] ((dtoks x).map expT)) = .ok r ∧ Eqv r (rx3 x) := by
  refine ⟨E.need (toE3 x), tree (toE3 x), ?_, toE_tree x h⟩
  apply parse_flat toks_A3 _ (toE3 x) (Nat.le_refl _) (toE_wf x h) 0 _ _ (Nat.le_refl _)
  rw [components_separate _ (toks_ne_nil x) (toks_a3 x h), toE_flat x h]
  rfl

end Pfl.PyRx.E2E.S3
