/-
Termination of the LL(1) worklists (`firstLoop` / `followLoop` of `Pfl/Model/LL1Lib.lean`).

A key is pushed on the `SetQueue` only when the set of some key grew, the queue never holds a key
twice, the sets are duplicate-free lists over a finite universe.  With `V` keys that can be queued
and sets of total size at most `B`, the measure `(B - size) * (V + 1) + |queue|` decreases in every
round (`worklist_isSome`).
-/
import Pfl.Proofs.TerminationBase
import Pfl.Proofs.LL1LibFollow
import Pfl.Proofs.FAOracle

namespace Pfl.Term
open Pfl Pfl.LL1Lib Pfl.LL1Lib.Lem

/-! ### dictionaries whose sets are duplicate-free lists over a universe -/

section Generic
set_option linter.unusedSectionVars false
variable {κ α : Type} [DecidableEq κ] [DecidableEq α]

def Bounded (U : List α) (m : SetMap κ α) : Prop :=
  ∀ k, (getD m k).Nodup ∧ ∀ a ∈ getD m k, a ∈ U

theorem Bounded.length_le {U : List α} {m : SetMap κ α} (h : Bounded U m) (k : κ) :
    (getD m k).length ≤ U.length :=
  (h k).1.length_le_of_subset (fun a ha => (h k).2 a ha)

theorem bounded_setKey {U : List α} {m : SetMap κ α} (h : Bounded U m) (k : κ) (v : List α)
    (hv : v.Nodup) (hU : ∀ a ∈ v, a ∈ U) : Bounded U (setKey m k v) := by
  intro k'
  rw [getD_setKey]
  split
  · exact ⟨hv, hU⟩
  · exact h k'

theorem bounded_nil (U : List α) : Bounded U ([] : SetMap κ α) := by
  intro k
  rw [getD_nil]
  exact ⟨List.nodup_nil, fun _ h => by cases h⟩

theorem qpush_nodup (q : List κ) (x : κ) (h : q.Nodup) : (qpush q x).Nodup := by
  unfold qpush
  split
  · exact h
  · rename_i hx
    rw [List.nodup_append]
    exact ⟨h, by simp, fun a ha b hb => by
      simp only [List.mem_singleton] at hb; subst hb; rintro rfl; exact hx ha⟩

theorem foldl_qpush_nodup (l : List κ) : ∀ (q : List κ), q.Nodup → (l.foldl qpush q).Nodup := by
  induction l with
  | nil => intro q h; exact h
  | cons x l ih => intro q h; exact ih _ (qpush_nodup q x h)

theorem dropLast_length_succ (q : List κ) (h : q ≠ []) : q.dropLast.length + 1 = q.length := by
  rw [List.length_dropLast]
  have : 0 < q.length := List.length_pos_iff.mpr h
  omega

end Generic

/-! ### FIRST -/

/-- members of FIRST sets: the terminals and `Epsilon` -/
def firstU (G : CFG) : List Look := G.ters.map Look.ter ++ [Look.eps]

/-- the heads of the productions (the keys that `get_first_set` ever queues or enlarges) -/
def heads (G : CFG) : List String := (G.prods.map (·.1)).eraseDups

def varKeys (G : CFG) : List Sym := (heads G).map Sym.var

theorem mem_heads {G : CFG} {p : Pfl.Prod} (hp : p ∈ G.prods) : p.1 ∈ heads G :=
  List.mem_eraseDups.mpr (List.mem_map.mpr ⟨p, hp, rfl⟩)

theorem mem_varKeys {G : CFG} {p : Pfl.Prod} (hp : p ∈ G.prods) : Sym.var p.1 ∈ varKeys G :=
  List.mem_map.mpr ⟨p.1, mem_heads hp, rfl⟩

abbrev FSt := SetMap Sym Look × List String

/-- invariant of `get_first_set` -/
structure FInvT (G : CFG) (st : FSt) : Prop where
  bnd : Bounded (firstU G) st.1
  qnd : st.2.Nodup
  qmem : ∀ h ∈ st.2, h ∈ heads G

def fsize (G : CFG) (st : FSt) : Nat := sumOver (varKeys G) fun k => (getD st.1 k).length

theorem firstProd_mem_firstU {G : CFG} {F : SetMap Sym Look} (h : Bounded (firstU G) F)
    (b : List Sym) (a : Look) (ha : a ∈ firstProd F b) : a ∈ firstU G := by
  rcases (mem_firstProd F b a).mp ha with ⟨_, hr⟩ | ⟨rfl, _⟩
  · obtain ⟨x, _, hx⟩ := reach_mem hr
    exact (h x).2 a hx
  · simp [firstU]

theorem trig_mem_heads (G : CFG) (s : Sym) (h : String) (hh : h ∈ trig (triggers G) s) :
    h ∈ heads G := by
  obtain ⟨p, hp, rfl, _⟩ := (mem_trig G s h).mp hh
  exact mem_heads hp

/-- one production of the inner loop: the invariant is kept, no set shrinks, and either nothing
observable changed or the set of the head grew -/
theorem fstep_prog (G : CFG) (st : FSt) (p : Pfl.Prod) (h : FInvT G st) :
    FInvT G (fstep (triggers G) st p) ∧
    (∀ k, (getD st.1 k).length ≤ (getD (fstep (triggers G) st p).1 k).length) ∧
    (((∀ k, getD (fstep (triggers G) st p).1 k = getD st.1 k) ∧
        (fstep (triggers G) st p).2 = st.2) ∨
      (getD st.1 (.var p.1)).length < (getD (fstep (triggers G) st p).1 (.var p.1)).length) := by
  unfold fstep
  by_cases hb : p.2.isEmpty = true
  · rw [if_pos hb]
    exact ⟨h, fun _ => Nat.le_refl _, Or.inl ⟨fun _ => rfl, rfl⟩⟩
  · rw [if_neg hb]
    simp only []
    have hnd : (union (getD st.1 (.var p.1)) (firstProd st.1 p.2)).Nodup :=
      union_nodup _ _ (h.bnd _).1
    have hU : ∀ a ∈ union (getD st.1 (.var p.1)) (firstProd st.1 p.2), a ∈ firstU G := by
      intro a ha
      rcases (mem_union _ _ a).mp ha with ha | ha
      · exact (h.bnd _).2 a ha
      · exact firstProd_mem_firstU h.bnd _ a ha
    have hle : (getD st.1 (.var p.1)).length ≤
        (union (getD st.1 (.var p.1)) (firstProd st.1 p.2)).length :=
      (union_prefix _ _).length_le
    have hbnd := bounded_setKey h.bnd (.var p.1) _ hnd hU
    have hmono : ∀ k, (getD st.1 k).length ≤
        (getD (setKey st.1 (.var p.1) (union (getD st.1 (.var p.1)) (firstProd st.1 p.2))) k).length := by
      intro k
      rw [getD_setKey]
      split
      · next hk => rw [hk]; exact hle
      · exact Nat.le_refl _
    by_cases hl : (union (getD st.1 (.var p.1)) (firstProd st.1 p.2)).length =
        (getD st.1 (.var p.1)).length
    · rw [if_neg (by simpa using hl)]
      refine ⟨⟨hbnd, h.qnd, h.qmem⟩, hmono, Or.inl ⟨?_, rfl⟩⟩
      intro k
      rw [union_eq_of_length _ _ hl]
      exact getD_setKey_same _ _ _
    · rw [if_pos hl]
      refine ⟨⟨hbnd, foldl_qpush_nodup _ _ h.qnd, ?_⟩, hmono, Or.inr ?_⟩
      · intro x hx
        rcases (mem_foldl_qpush _ _ x).mp hx with hx | hx
        · exact h.qmem x hx
        · exact trig_mem_heads G _ x hx
      · show _ < (getD (setKey _ _ _) _).length
        rw [getD_setKey_self]
        omega

/-- the whole `for production in productions[current]` loop -/
theorem ffold_prog (G : CFG) (F : SetMap Sym Look) (q0 : List String) :
    ∀ (l : List Pfl.Prod) (st : FSt), (∀ p ∈ l, p ∈ G.prods) → FInvT G st →
      (∀ k, (getD F k).length ≤ (getD st.1 k).length) →
      (((∀ k, getD st.1 k = getD F k) ∧ st.2 = q0) ∨
        ∃ k ∈ varKeys G, (getD F k).length < (getD st.1 k).length) →
      FInvT G (l.foldl (fstep (triggers G)) st) ∧
      (∀ k, (getD F k).length ≤ (getD (l.foldl (fstep (triggers G)) st).1 k).length) ∧
      (((∀ k, getD (l.foldl (fstep (triggers G)) st).1 k = getD F k) ∧
          (l.foldl (fstep (triggers G)) st).2 = q0) ∨
        ∃ k ∈ varKeys G, (getD F k).length < (getD (l.foldl (fstep (triggers G)) st).1 k).length) := by
  intro l
  induction l with
  | nil => intro st _ h1 h2 h3; exact ⟨h1, h2, h3⟩
  | cons p l ih =>
    intro st hl h1 h2 h3
    rw [List.foldl_cons]
    obtain ⟨g1, g2, g3⟩ := fstep_prog G st p h1
    apply ih _ (fun p' hp' => hl p' (List.mem_cons_of_mem _ hp')) g1
    · intro k; exact Nat.le_trans (h2 k) (g2 k)
    · rcases h3 with ⟨h3a, h3b⟩ | ⟨k, hk, hlt⟩
      · rcases g3 with ⟨g3a, g3b⟩ | g3
        · left
          exact ⟨fun k => (g3a k).trans (h3a k), g3b.trans h3b⟩
        · right
          refine ⟨.var p.1, mem_varKeys (hl p List.mem_cons_self), ?_⟩
          rw [← h3a]; exact g3
      · right
        exact ⟨k, hk, Nat.lt_of_lt_of_le hlt (g2 k)⟩

/-- one round of the `while to_process` loop, as a function of the state -/
def fround (G : CFG) (st : FSt) : FSt :=
  match st.2.getLast? with
  | some cur => (G.prods.filter (·.1 = cur)).foldl (fstep (triggers G)) (st.1, st.2.dropLast)
  | none => st

theorem fround_spec (G : CFG) (st : FSt) (h : FInvT G st) (hq : st.2.length ≠ 0) :
    FInvT G (fround G st) ∧
    ((fsize G (fround G st) = fsize G st ∧ (fround G st).2.length + 1 = st.2.length) ∨
      fsize G st < fsize G (fround G st)) := by
  have hne : st.2 ≠ [] := by
    intro e; rw [e] at hq; exact hq rfl
  unfold fround
  rw [List.getLast?_eq_some_getLast hne]
  simp only []
  have h0 : FInvT G (st.1, st.2.dropLast) :=
    ⟨h.bnd, h.qnd.sublist (List.dropLast_sublist _),
      fun x hx => h.qmem x ((List.dropLast_sublist _).subset hx)⟩
  obtain ⟨g1, g2, g3⟩ := ffold_prog G st.1 st.2.dropLast
    (G.prods.filter (·.1 = st.2.getLast hne)) (st.1, st.2.dropLast)
    (fun p hp => (List.mem_filter.mp hp).1) h0 (fun _ => Nat.le_refl _)
    (Or.inl ⟨fun _ => rfl, rfl⟩)
  refine ⟨g1, ?_⟩
  rcases g3 with ⟨g3a, g3b⟩ | ⟨k, hk, hlt⟩
  · left
    refine ⟨sumOver_congr _ _ _ (fun k _ => by rw [g3a k]), ?_⟩
    rw [g3b]
    exact dropLast_length_succ _ hne
  · right
    exact sumOver_lt _ _ _ (fun k _ => g2 k) k hk hlt

theorem firstLoop_fround (G : CFG) (fuel : Nat) (st : FSt) (hq : st.2.length ≠ 0) :
    firstLoop G (triggers G) (fuel + 1) st.1 st.2 =
      firstLoop G (triggers G) fuel (fround G st).1 (fround G st).2 := by
  have hne : st.2 ≠ [] := by
    intro e; rw [e] at hq; exact hq rfl
  have hl := List.getLast?_eq_some_getLast hne
  rw [firstLoop_step G _ fuel st.1 st.2 _ hl]
  unfold fround
  rw [hl]

theorem firstLoop_nil (G : CFG) (T : List (Sym × String)) (fuel : Nat) (F : SetMap Sym Look) :
    firstLoop G T fuel F [] = some F := by
  cases fuel <;> rw [firstLoop]

/-- the numbers in the bound -/
def firstB (G : CFG) : Nat := (heads G).length * (G.ters.length + 1)

theorem fsize_le (G : CFG) (st : FSt) (h : FInvT G st) : fsize G st ≤ firstB G := by
  have := sumOver_le_mul (varKeys G) (fun k => (getD st.1 k).length) (firstU G).length
    (fun k _ => h.bnd.length_le k)
  simpa [fsize, firstB, varKeys, firstU] using this

theorem firstLoop_isSome (G : CFG) (fuel : Nat) (st : FSt) (h : FInvT G st)
    (hf : (firstB G - fsize G st) * ((heads G).length + 1) + st.2.length ≤ fuel) :
    (firstLoop G (triggers G) fuel st.1 st.2).isSome := by
  refine worklist_isSome (fun fuel (s : FSt) => firstLoop G (triggers G) fuel s.1 s.2)
    (fun s => s.2.length) (fsize G) (fround G) (FInvT G) (firstB G) (heads G).length
    ?_ ?_ ?_ ?_ ?_ ?_ fuel st h hf
  · intro fuel s hs
    have : s.2 = [] := List.eq_nil_of_length_eq_zero hs
    simp only [this, firstLoop_nil, Option.isSome_some]
  · intro fuel s hs
    exact firstLoop_fround G fuel s hs
  · intro s hs hq
    exact (fround_spec G s hs hq).1
  · intro s hs
    exact fsize_le G s hs
  · intro s hs
    exact hs.qnd.length_le_of_subset (fun x hx => hs.qmem x hx)
  · intro s hs hq
    exact (fround_spec G s hs hq).2

/-! #### initialisation -/

theorem init1_finvT (G : CFG) (st : FSt) (t : String) (ht : t ∈ G.ters) (h : FInvT G st) :
    FInvT G (init1 (triggers G) st t) := by
  unfold init1
  refine ⟨bounded_setKey h.bnd _ _ (by simp) ?_, foldl_qpush_nodup _ _ h.qnd, ?_⟩
  · intro a ha
    simp only [List.mem_singleton] at ha
    subst ha
    simp only [firstU, List.mem_append, List.mem_map]
    exact Or.inl ⟨t, ht, rfl⟩
  · intro x hx
    rcases (mem_foldl_qpush _ _ x).mp hx with hx | hx
    · exact h.qmem x hx
    · exact trig_mem_heads G _ x hx

theorem init2_finvT (G : CFG) (st : FSt) (p : Pfl.Prod) (h : FInvT G st) :
    FInvT G (init2 (triggers G) st p) := by
  unfold init2
  split
  · refine ⟨bounded_setKey h.bnd _ _ (by simp) ?_, foldl_qpush_nodup _ _ h.qnd, ?_⟩
    · intro a ha
      simp only [List.mem_singleton] at ha
      subst ha
      simp [firstU]
    · intro x hx
      rcases (mem_foldl_qpush _ _ x).mp hx with hx | hx
      · exact h.qmem x hx
      · exact trig_mem_heads G _ x hx
  · exact h

theorem firstInit_finvT (G : CFG) : FInvT G (firstInit G (triggers G)) := by
  rw [firstInit_eq]
  refine foldl_inv' (FInvT G) _ _ (fun p _ st h => init2_finvT G st p h) _ ?_
  refine foldl_inv' (FInvT G) _ _ (fun t ht st h => init1_finvT G st t ht h) _ ?_
  exact ⟨bounded_nil _, List.nodup_nil, fun _ h => by cases h⟩

/-- fuel that is always enough for `get_first_set`: with `V` the number of different heads and
`t` the number of terminals, `V * (t + 1) * (V + 1) + V` -/
def firstFuel (G : CFG) : Nat := firstB G * ((heads G).length + 1) + (heads G).length

theorem firstSet_isSome (G : CFG) (fuel : Nat) (hf : firstFuel G ≤ fuel) :
    (firstSet G fuel).isSome := by
  unfold firstSet
  simp only []
  have h := firstInit_finvT G
  apply firstLoop_isSome G fuel _ h
  have h1 : (firstInit G (triggers G)).2.length ≤ (heads G).length :=
    h.qnd.length_le_of_subset (fun x hx => h.qmem x hx)
  have h2 : (firstB G - fsize G (firstInit G (triggers G))) * ((heads G).length + 1) ≤
      firstB G * ((heads G).length + 1) := Nat.mul_le_mul_right _ (Nat.sub_le _ _)
  unfold firstFuel at hf
  omega

/-- the FIRST dictionary that `get_first_set` returns has duplicate-free sets over the terminals
and `Epsilon` -/
theorem firstSet_bounded (G : CFG) (fuel : Nat) (F : SetMap Sym Look)
    (h : firstSet G fuel = some F) : Bounded (firstU G) F := by
  unfold firstSet at h
  simp only [] at h
  have := firstLoop_inv G (triggers G) (fun F q => FInvT G (F, q)) ?_ fuel _ _ F
    (firstInit_finvT G) h
  · exact this.bnd
  · intro F q cur hl hI
    have hq : (F, q).2.length ≠ 0 := by
      intro e
      have : q = [] := List.eq_nil_of_length_eq_zero e
      rw [this] at hl; simp at hl
    have := (fround_spec G (F, q) hI hq).1
    unfold fround at this
    simp only [hl] at this
    exact this

/-! ### FOLLOW -/

/-- members of FOLLOW sets -/
def followU (G : CFG) : List Look := G.ters.map Look.ter ++ [Look.eps, Look.eof]

/-- the symbols occurring in bodies (the keys `get_follow_set` ever enlarges) -/
def bodySyms (G : CFG) : List Sym := (G.prods.flatMap (·.2)).eraseDups

def symKeys (G : CFG) : List (Option Sym) := (bodySyms G).map some

theorem mem_bodySyms {G : CFG} {p : Pfl.Prod} (hp : p ∈ G.prods) {x : Sym} (hx : x ∈ p.2) :
    x ∈ bodySyms G :=
  List.mem_eraseDups.mpr (List.mem_flatMap.mpr ⟨p, hp, hx⟩)

abbrev WSt := SetMap (Option Sym) Look × List (Option Sym)

/-- every key that can be queued: the start key and the body symbols -/
def qKeys (G : CFG) : List (Option Sym) := G.start.map Sym.var :: symKeys G

structure WInvT (G : CFG) (st : WSt) : Prop where
  bnd : Bounded (followU G) st.1
  qnd : st.2.Nodup
  qmem : ∀ k ∈ st.2, k ∈ qKeys G

def wsize (G : CFG) (st : WSt) : Nat := sumOver (symKeys G) fun k => (getD st.1 k).length

theorem wstep_prog (G : CFG) (cur : Option Sym) (st : WSt) (t : Sym) (ht : t ∈ bodySyms G)
    (h : WInvT G st) :
    WInvT G (wstep cur st t) ∧
    (∀ k, (getD st.1 k).length ≤ (getD (wstep cur st t).1 k).length) ∧
    (((∀ k, getD (wstep cur st t).1 k = getD st.1 k) ∧ (wstep cur st t).2 = st.2) ∨
      (getD st.1 (some t)).length < (getD (wstep cur st t).1 (some t)).length) := by
  unfold wstep
  simp only []
  have hnd : (union (getD st.1 (some t)) (getD st.1 cur)).Nodup := union_nodup _ _ (h.bnd _).1
  have hU : ∀ a ∈ union (getD st.1 (some t)) (getD st.1 cur), a ∈ followU G := by
    intro a ha
    rcases (mem_union _ _ a).mp ha with ha | ha
    · exact (h.bnd _).2 a ha
    · exact (h.bnd _).2 a ha
  have hle : (getD st.1 (some t)).length ≤ (union (getD st.1 (some t)) (getD st.1 cur)).length :=
    (union_prefix _ _).length_le
  have hbnd := bounded_setKey h.bnd (some t) _ hnd hU
  have hmono : ∀ k, (getD st.1 k).length ≤
      (getD (setKey st.1 (some t) (union (getD st.1 (some t)) (getD st.1 cur))) k).length := by
    intro k
    rw [getD_setKey]
    split
    · next hk => rw [hk]; exact hle
    · exact Nat.le_refl _
  by_cases hl : (union (getD st.1 (some t)) (getD st.1 cur)).length = (getD st.1 (some t)).length
  · rw [if_neg (by simpa using hl)]
    refine ⟨⟨hbnd, h.qnd, h.qmem⟩, hmono, Or.inl ⟨?_, rfl⟩⟩
    intro k
    rw [union_eq_of_length _ _ hl]
    exact getD_setKey_same _ _ _
  · rw [if_pos hl]
    refine ⟨⟨hbnd, qpush_nodup _ _ h.qnd, ?_⟩, hmono, Or.inr ?_⟩
    · intro x hx
      rcases (mem_qpush _ _ x).mp hx with hx | hx
      · exact h.qmem x hx
      · subst hx
        exact List.mem_cons_of_mem _ (List.mem_map.mpr ⟨t, ht, rfl⟩)
    · show _ < (getD (setKey _ _ _) _).length
      rw [getD_setKey_self]
      omega

theorem wfold_prog (G : CFG) (cur : Option Sym) (Fo : SetMap (Option Sym) Look)
    (q0 : List (Option Sym)) :
    ∀ (l : List Sym) (st : WSt), (∀ t ∈ l, t ∈ bodySyms G) → WInvT G st →
      (∀ k, (getD Fo k).length ≤ (getD st.1 k).length) →
      (((∀ k, getD st.1 k = getD Fo k) ∧ st.2 = q0) ∨
        ∃ k ∈ symKeys G, (getD Fo k).length < (getD st.1 k).length) →
      WInvT G (l.foldl (wstep cur) st) ∧
      (∀ k, (getD Fo k).length ≤ (getD (l.foldl (wstep cur) st).1 k).length) ∧
      (((∀ k, getD (l.foldl (wstep cur) st).1 k = getD Fo k) ∧
          (l.foldl (wstep cur) st).2 = q0) ∨
        ∃ k ∈ symKeys G, (getD Fo k).length < (getD (l.foldl (wstep cur) st).1 k).length) := by
  intro l
  induction l with
  | nil => intro st _ h1 h2 h3; exact ⟨h1, h2, h3⟩
  | cons t l ih =>
    intro st hl h1 h2 h3
    rw [List.foldl_cons]
    obtain ⟨g1, g2, g3⟩ := wstep_prog G cur st t (hl t List.mem_cons_self) h1
    apply ih _ (fun t' ht' => hl t' (List.mem_cons_of_mem _ ht')) g1
    · intro k; exact Nat.le_trans (h2 k) (g2 k)
    · rcases h3 with ⟨h3a, h3b⟩ | ⟨k, hk, hlt⟩
      · rcases g3 with ⟨g3a, g3b⟩ | g3
        · left
          exact ⟨fun k => (g3a k).trans (h3a k), g3b.trans h3b⟩
        · right
          refine ⟨some t, List.mem_map.mpr ⟨t, hl t List.mem_cons_self, rfl⟩, ?_⟩
          rw [← h3a]; exact g3
      · right
        exact ⟨k, hk, Nat.lt_of_lt_of_le hlt (g2 k)⟩

def wround (Tr : SetMap Sym Sym) (st : WSt) : WSt :=
  match st.2.getLast? with
  | some cur => (trigd Tr cur).foldl (wstep cur) (st.1, st.2.dropLast)
  | none => st

theorem trigd_mem (G : CFG) (F : SetMap Sym Look) (cur : Option Sym) :
    ∀ t ∈ trigd (followTriggers G F) cur, t ∈ bodySyms G := by
  intro t ht
  cases cur with
  | none => cases ht
  | some c =>
    obtain ⟨p, hp, _, pre, rest, hb, _⟩ := (mem_followTriggers G F c t).mp ht
    exact mem_bodySyms hp (by rw [hb]; simp)

theorem wround_spec (G : CFG) (F : SetMap Sym Look) (st : WSt) (h : WInvT G st)
    (hq : st.2.length ≠ 0) :
    WInvT G (wround (followTriggers G F) st) ∧
    ((wsize G (wround (followTriggers G F) st) = wsize G st ∧
        (wround (followTriggers G F) st).2.length + 1 = st.2.length) ∨
      wsize G st < wsize G (wround (followTriggers G F) st)) := by
  have hne : st.2 ≠ [] := by
    intro e; rw [e] at hq; exact hq rfl
  unfold wround
  rw [List.getLast?_eq_some_getLast hne]
  simp only []
  have h0 : WInvT G (st.1, st.2.dropLast) :=
    ⟨h.bnd, h.qnd.sublist (List.dropLast_sublist _),
      fun x hx => h.qmem x ((List.dropLast_sublist _).subset hx)⟩
  obtain ⟨g1, g2, g3⟩ := wfold_prog G (st.2.getLast hne) st.1 st.2.dropLast
    (trigd (followTriggers G F) (st.2.getLast hne)) (st.1, st.2.dropLast)
    (trigd_mem G F _) h0 (fun _ => Nat.le_refl _) (Or.inl ⟨fun _ => rfl, rfl⟩)
  refine ⟨g1, ?_⟩
  rcases g3 with ⟨g3a, g3b⟩ | ⟨k, hk, hlt⟩
  · left
    refine ⟨sumOver_congr _ _ _ (fun k _ => by rw [g3a k]), ?_⟩
    rw [g3b]
    exact dropLast_length_succ _ hne
  · right
    exact sumOver_lt _ _ _ (fun k _ => g2 k) k hk hlt

theorem followLoop_wround (Tr : SetMap Sym Sym) (fuel : Nat) (st : WSt) (hq : st.2.length ≠ 0) :
    followLoop Tr (fuel + 1) st.1 st.2 = followLoop Tr fuel (wround Tr st).1 (wround Tr st).2 := by
  have hne : st.2 ≠ [] := by
    intro e; rw [e] at hq; exact hq rfl
  have hl := List.getLast?_eq_some_getLast hne
  rw [followLoop_step Tr fuel st.1 st.2 _ hl]
  unfold wround
  rw [hl]

theorem followLoop_nil (Tr : SetMap Sym Sym) (fuel : Nat) (Fo : SetMap (Option Sym) Look) :
    followLoop Tr fuel Fo [] = some Fo := by
  cases fuel <;> rw [followLoop]

def followB (G : CFG) : Nat := (bodySyms G).length * (G.ters.length + 2)

theorem wsize_le (G : CFG) (st : WSt) (h : WInvT G st) : wsize G st ≤ followB G := by
  have := sumOver_le_mul (symKeys G) (fun k => (getD st.1 k).length) (followU G).length
    (fun k _ => h.bnd.length_le k)
  simpa [wsize, followB, symKeys, followU] using this

theorem qlen_le (G : CFG) (st : WSt) (h : WInvT G st) : st.2.length ≤ (bodySyms G).length + 1 := by
  have := h.qnd.length_le_of_subset (fun x hx => h.qmem x hx)
  simpa [qKeys, symKeys] using this

theorem followLoop_isSome (G : CFG) (F : SetMap Sym Look) (fuel : Nat) (st : WSt)
    (h : WInvT G st)
    (hf : (followB G - wsize G st) * ((bodySyms G).length + 2) + st.2.length ≤ fuel) :
    (followLoop (followTriggers G F) fuel st.1 st.2).isSome := by
  refine worklist_isSome (fun fuel (s : WSt) => followLoop (followTriggers G F) fuel s.1 s.2)
    (fun s => s.2.length) (wsize G) (wround (followTriggers G F)) (WInvT G) (followB G)
    ((bodySyms G).length + 1) ?_ ?_ ?_ ?_ ?_ ?_ fuel st h hf
  · intro fuel s hs
    have : s.2 = [] := List.eq_nil_of_length_eq_zero hs
    simp only [this, followLoop_nil, Option.isSome_some]
  · intro fuel s hs
    exact followLoop_wround _ fuel s hs
  · intro s hs hq
    exact (wround_spec G F s hs hq).1
  · intro s hs
    exact wsize_le G s hs
  · intro s hs
    exact qlen_le G s hs
  · intro s hs hq
    exact (wround_spec G F s hs hq).2

/-! #### initialisation -/

theorem firstU_sub_followU (G : CFG) (a : Look) (h : a ∈ firstU G) : a ∈ followU G := by
  simp only [firstU, followU, List.mem_append, List.mem_map, List.mem_cons,
    List.not_mem_nil, or_false] at h ⊢
  rcases h with h | h
  · exact Or.inl h
  · exact Or.inr (Or.inl h)

/-- the queue part of the initialisation: keys are pushed once, and are body symbols -/
theorem initGo_queue (G : CFG) (F : SetMap Sym Look) : ∀ (body : List Sym) (st : WSt),
    (∀ x ∈ body, x ∈ bodySyms G) → st.2.Nodup → (∀ k ∈ st.2, k ∈ qKeys G) →
    (followInit.go F st body).2.Nodup ∧ ∀ k ∈ (followInit.go F st body).2, k ∈ qKeys G := by
  intro body
  induction body with
  | nil => intro st _ h1 h2; rw [followInit.go]; exact ⟨h1, h2⟩
  | cons x rest ih =>
    intro st hb h1 h2
    rw [initGo_cons]
    apply ih _ (fun y hy => hb y (List.mem_cons_of_mem _ hy))
    · unfold istep
      simp only []
      split
      · exact h1
      · exact qpush_nodup _ _ h1
    · unfold istep
      simp only []
      split
      · exact h2
      · intro k hk
        rcases (mem_qpush _ _ k).mp hk with hk | hk
        · exact h2 k hk
        · subst hk
          exact List.mem_cons_of_mem _
            (List.mem_map.mpr ⟨x, hb x List.mem_cons_self, rfl⟩)

theorem followInit_eq (G : CFG) (F : SetMap Sym Look) (start : Option String) :
    followInit G F start = G.prods.foldl (fun st p => followInit.go F st p.2)
      (([(start.map Sym.var, [Look.eof])], [start.map Sym.var]) : WSt) := rfl

theorem followInit_winvT (G : CFG) (F : SetMap Sym Look) (hF : Bounded (firstU G) F) :
    WInvT G (followInit G F G.start) := by
  have hI := followInit_inv G F G.start
  have hq : (followInit G F G.start).2.Nodup ∧ ∀ k ∈ (followInit G F G.start).2, k ∈ qKeys G := by
    rw [followInit_eq]
    refine foldl_inv' (fun st : WSt => st.2.Nodup ∧ ∀ k ∈ st.2, k ∈ qKeys G) _ _ ?_ _ ?_
    · intro p hp st h
      exact initGo_queue G F p.2 st (fun x hx => mem_bodySyms hp hx) h.1 h.2
    · refine ⟨by simp, ?_⟩
      intro k hk
      simp only [List.mem_singleton] at hk
      subst hk
      exact List.mem_cons_self
  refine ⟨?_, hq.1, hq.2⟩
  intro k
  refine ⟨hI.nodup k, ?_⟩
  intro a ha
  rcases (hI.rep k a).mp ha with ⟨_, rfl⟩ | ⟨p, _, pre, x, rest, _, _, _, hr⟩
  · simp [followU]
  · obtain ⟨y, _, hy⟩ := reach_mem hr
    exact firstU_sub_followU G a ((hF y).2 a hy)

/-- fuel that is always enough for the FOLLOW worklist: with `K` the number of different symbols
in bodies and `t` the number of terminals, `K * (t + 2) * (K + 2) + K + 1` -/
def followFuel (G : CFG) : Nat :=
  followB G * ((bodySyms G).length + 2) + (bodySyms G).length + 1

theorem followSet_isSome (G : CFG) (fuel : Nat) (hf1 : firstFuel G ≤ fuel)
    (hf2 : followFuel G ≤ fuel) : (followSet G fuel).isSome := by
  unfold followSet
  have h1 := firstSet_isSome G fuel hf1
  obtain ⟨F, hF⟩ := Option.isSome_iff_exists.mp h1
  rw [hF]
  simp only []
  have h := followInit_winvT G F (firstSet_bounded G fuel F hF)
  apply followLoop_isSome G F fuel _ h
  have h2 := qlen_le G _ h
  have h3 : (followB G - wsize G (followInit G F G.start)) * ((bodySyms G).length + 2) ≤
      followB G * ((bodySyms G).length + 2) := Nat.mul_le_mul_right _ (Nat.sub_le _ _)
  unfold followFuel at hf2
  omega

end Pfl.Term
