/-
Termination (fuel sufficiency) of the remaining fuelled loops of the automata side, part 1:
the product exploration of `get_intersection` (`ENFA.inter`) and the path search of `is_acyclic`
(`ENFA.acyclicLoop`).
-/
import Pfl.Proofs.FABool
import Pfl.Proofs.FAWords
import Pfl.Proofs.FAEpsCopy
import Pfl.Proofs.TerminationBase
import Mathlib.Data.List.Nodup
import Mathlib.Data.List.ProdSigma

namespace Pfl.Term2
open Pfl Pfl.ENFA

set_option linter.unusedSectionVars false
variable {σ τ : Type} [DecidableEq σ] [DecidableEq τ]

/-! ### `prod` -/

theorem length_le_eraseDups {α : Type} [DecidableEq α] (l : List α) (h : l.Nodup) :
    l.length ≤ l.eraseDups.length :=
  h.length_le_of_subset (fun _ h => List.mem_eraseDups.mpr h)

theorem mem_eraseDups' {α : Type} [DecidableEq α] {l : List α} {a : α} :
    a ∈ l.eraseDups ↔ a ∈ l := List.mem_eraseDups

theorem prod_eq_product (xs : List σ) (ys : List τ) : ENFA.prod xs ys = xs ×ˢ ys := rfl

theorem length_prod (xs : List σ) (ys : List τ) :
    (ENFA.prod xs ys).length = xs.length * ys.length := by
  rw [prod_eq_product, List.length_product]

theorem prod_nodup {xs : List σ} {ys : List τ} (hx : xs.Nodup) (hy : ys.Nodup) :
    (ENFA.prod xs ys).Nodup := by
  rw [prod_eq_product]; exact hx.product hy

theorem ecloseL_nodup (A : ENFA σ) (S : List σ) : (A.ecloseL S).Nodup :=
  FAOracle.nodup_eraseDups _

theorem ecloseL_states (A : ENFA σ) (hA : A.WF) (S : List σ) (hS : ∀ q ∈ S, q ∈ A.states) :
    ∀ r ∈ A.ecloseL S, r ∈ A.states := by
  intro r hr
  obtain ⟨q, hq, hqr⟩ := (mem_ecloseL_iff A S r).mp hr
  exact Run.mem_states hA hqr (hS q hq)

theorem succs_states (A : ENFA σ) (hA : A.WF) (q : σ) (a : Option Nat) :
    ∀ r ∈ A.succs q a, r ∈ A.states := by
  intro r hr
  exact hA.delta_dst _ ((mem_succs A q r a).mp hr)

/-! ### (T1) `ENFA.inter` -/

/-- the worklist of `get_intersection` holds pairs of states and never queues a pair twice:
`|Q_A| * |Q_B|` rounds are enough -/
theorem inter_bfs_isSome (A : ENFA σ) (B : ENFA τ) (hA : A.WF) (hB : B.WF) (fuel : Nat)
    (hf : A.states.length * B.states.length ≤ fuel) :
    (bfs (interNext A B) fuel (ENFA.prod (A.ecloseL A.starts) (B.ecloseL B.starts))).isSome := by
  unfold bfs
  have hnd : (ENFA.prod (A.ecloseL A.starts) (B.ecloseL B.starts)).Nodup :=
    prod_nodup (ecloseL_nodup A _) (ecloseL_nodup B _)
  have hlen := length_le_eraseDups _ hnd
  apply bfsK_isSome id (interNext A B) (ENFA.prod A.states B.states)
  · rintro x ⟨y1, y2⟩ hy
    obtain ⟨a, _, _, h1, h2⟩ := (mem_interNext A B x (y1, y2)).mp hy
    exact (mem_prod _ _ _ _).mpr
      ⟨ecloseL_states A hA _ (succs_states A hA _ _) _ h1,
       ecloseL_states B hB _ (succs_states B hB _ _) _ h2⟩
  · simpa using FAOracle.nodup_eraseDups _
  · rintro ⟨z1, z2⟩ hz
    obtain ⟨h1, h2⟩ := (mem_prod _ _ _ _).mp (mem_eraseDups'.mp hz)
    exact (mem_prod _ _ _ _).mpr
      ⟨ecloseL_states A hA _ hA.starts_sub _ h1, ecloseL_states B hB _ hB.starts_sub _ h2⟩
  · rw [length_prod A.states B.states]
    omega

theorem inter_isSome (A : ENFA σ) (B : ENFA τ) (hA : A.WF) (hB : B.WF) (fuel : Nat)
    (hf : A.states.length * B.states.length ≤ fuel) : (A.inter B fuel).isSome := by
  unfold ENFA.inter
  simp only [Option.isSome_map]
  exact inter_bfs_isSome A B hA hB fuel hf

/-! ### (T2) `ENFA.acyclicLoop`

The stack holds pairs `(q, vis)`, `vis` being the path that led to `q`: the loop walks the tree of
all paths from the start states until a path closes.  A path never repeats a state, so the tree
has depth `≤ |U|` (`U` any list containing the start states and all targets), and every node has
at most `D` children (`D` a bound on the out-degree, parallel edges counted). -/

/-- number of nodes of the full `D`-ary tree of depth `k` -/
def treeW (D : Nat) : Nat → Nat
  | 0 => 1
  | k+1 => 1 + D * treeW D k

theorem treeW_pos (D k : Nat) : 0 < treeW D k := by
  cases k with
  | zero => simp [treeW]
  | succ k => simp only [treeW]; omega

theorem treeW_le_pow (D k : Nat) : treeW D k ≤ (D + 1) ^ k := by
  induction k with
  | zero => simp [treeW]
  | succ k ih =>
    have h1 : D * treeW D k ≤ D * (D + 1) ^ k := Nat.mul_le_mul_left D ih
    have h2 : 1 ≤ (D + 1) ^ k := Nat.one_le_pow _ _ (by omega)
    calc treeW D (k+1) = 1 + D * treeW D k := rfl
      _ ≤ (D + 1) ^ k + D * (D + 1) ^ k := by omega
      _ = (D + 1) ^ (k+1) := by rw [Nat.pow_succ, Nat.mul_add, Nat.mul_one, Nat.mul_comm]; omega

/-- weight of a stack: every entry may still unfold into a full tree below it -/
def stkW (D n : Nat) (stk : List (σ × List σ)) : Nat :=
  (stk.map fun e => treeW D (n - e.2.length)).sum

theorem stkW_cons (D n : Nat) (e : σ × List σ) (stk : List (σ × List σ)) :
    stkW D n (e :: stk) = treeW D (n - e.2.length) + stkW D n stk := by
  simp [stkW]

theorem stkW_append (D n : Nat) (s t : List (σ × List σ)) :
    stkW D n (s ++ t) = stkW D n s + stkW D n t := by
  simp [stkW]

theorem stkW_children (D n : Nat) (l : List σ) (vis : List σ) :
    stkW D n (l.map fun r => (r, vis)) = l.length * treeW D (n - vis.length) := by
  induction l with
  | nil => simp [stkW]
  | cons a l ih => rw [List.map_cons, stkW_cons, ih, List.length_cons, Nat.succ_mul]; simp only; omega

/-- stack entries are paths: no repetition, inside `U` -/
def StkOK (U : List σ) (stk : List (σ × List σ)) : Prop :=
  ∀ e ∈ stk, e.1 ∈ U ∧ e.2.Nodup ∧ ∀ v ∈ e.2, v ∈ U

theorem acyclicLoop_isSome_of (A : ENFA σ) (U : List σ) (D : Nat)
    (hU : ∀ q r, r ∈ A.outs q → r ∈ U) (hD : ∀ q ∈ U, (A.outs q).length ≤ D) :
    ∀ fuel stk, StkOK U stk → stkW D U.length stk ≤ fuel → (A.acyclicLoop fuel stk).isSome := by
  intro fuel
  induction fuel with
  | zero =>
    intro stk _ hw
    cases stk with
    | nil => simp [acyclicLoop]
    | cons e rest =>
      rw [stkW_cons] at hw
      have := treeW_pos D (U.length - e.2.length)
      omega
  | succ fuel ih =>
    intro stk hok hw
    cases stk with
    | nil => simp [acyclicLoop]
    | cons e rest =>
      obtain ⟨q, vis⟩ := e
      simp only [acyclicLoop]
      split
      · rfl
      · rename_i hq
        obtain ⟨hqU, hnd, hvU⟩ := hok (q, vis) List.mem_cons_self
        have hnd' : (q :: vis).Nodup := List.nodup_cons.mpr ⟨hq, hnd⟩
        have hsub : ∀ v ∈ q :: vis, v ∈ U := by
          intro v hv
          rcases List.mem_cons.mp hv with rfl | hv
          · exact hqU
          · exact hvU v hv
        have hlen : (q :: vis).length ≤ U.length := hnd'.length_le_of_subset hsub
        simp only [List.length_cons] at hlen
        apply ih
        · intro e he
          rcases List.mem_append.mp he with he | he
          · obtain ⟨r, hr, rfl⟩ := List.mem_map.mp he
            exact ⟨hU q r (List.mem_reverse.mp hr), hnd', hsub⟩
          · exact hok e (List.mem_cons_of_mem _ he)
        · rw [stkW_append, stkW_children, List.length_reverse]
          rw [stkW_cons] at hw
          simp only [List.length_cons] at hw ⊢
          have e1 : U.length - vis.length = (U.length - (vis.length + 1)) + 1 := by omega
          rw [e1] at hw
          simp only [treeW] at hw
          have := Nat.mul_le_mul_right (treeW D (U.length - (vis.length + 1))) (hD q hqU)
          omega

theorem stkW_starts (D n : Nat) (l : List σ) :
    stkW D n (l.map fun q => (q, ([] : List σ))) = l.length * treeW D n := by
  have := stkW_children D n l ([] : List σ)
  simpa using this

/-- general form: `U` contains the start states and all targets, `D` bounds the out-degree -/
theorem isAcyclic_isSome_of (A : ENFA σ) (U : List σ) (D : Nat)
    (hs : ∀ q ∈ A.starts, q ∈ U) (hU : ∀ q r, r ∈ A.outs q → r ∈ U)
    (hD : ∀ q ∈ U, (A.outs q).length ≤ D) (fuel : Nat)
    (hf : A.starts.length * (D + 1) ^ U.length ≤ fuel) : (A.isAcyclic fuel).isSome := by
  unfold isAcyclic
  apply acyclicLoop_isSome_of A U D hU hD
  · intro e he
    obtain ⟨q, hq, rfl⟩ := List.mem_map.mp he
    exact ⟨hs q (List.mem_reverse.mp hq), List.nodup_nil, by simp⟩
  · rw [stkW_starts, List.length_reverse]
    exact Nat.le_trans (Nat.mul_le_mul_left _ (treeW_le_pow D U.length)) hf

theorem outs_states (A : ENFA σ) (hA : A.WF) (q r : σ) (h : r ∈ A.outs q) : r ∈ A.states := by
  rcases (mem_outs A q r).mp h with ⟨a, _, h⟩ | h
  · exact hA.delta_dst _ h
  · exact hA.delta_dst _ h

theorem length_succs_le (A : ENFA σ) (q : σ) (a : Option Nat) :
    (A.succs q a).length ≤ A.delta.length := by
  unfold succs; exact List.length_filterMap_le _ _

theorem length_flatMap_le {α β : Type} (l : List α) (f : α → List β) (b : Nat)
    (h : ∀ x ∈ l, (f x).length ≤ b) : (l.flatMap f).length ≤ l.length * b := by
  induction l with
  | nil => simp
  | cons x l ih =>
    rw [List.flatMap_cons, List.length_append, List.length_cons, Nat.succ_mul]
    have := h x List.mem_cons_self
    have := ih (fun y hy => h y (List.mem_cons_of_mem _ hy))
    omega

theorem length_flatMap_const {α β : Type} (l : List α) (f : α → List β) (b : Nat)
    (h : ∀ x ∈ l, (f x).length = b) : (l.flatMap f).length = l.length * b := by
  induction l with
  | nil => simp
  | cons x l ih =>
    rw [List.flatMap_cons, List.length_append, List.length_cons, Nat.succ_mul,
      h x List.mem_cons_self, ih (fun y hy => h y (List.mem_cons_of_mem _ hy))]
    omega

/-- out-degree, parallel edges counted: at most `(|Σ| + 1) * |δ|` -/
theorem length_outs_le (A : ENFA σ) (q : σ) :
    (A.outs q).length ≤ (A.syms.length + 1) * A.delta.length := by
  unfold outs
  rw [List.length_append, Nat.succ_mul]
  have h1 := length_flatMap_le A.syms (fun a => A.succs q (some a)) A.delta.length
    (fun a _ => length_succs_le A q (some a))
  have h2 := length_succs_le A q none
  omega

/-! out-degree when `_input_symbols` lists every symbol once: at most `|δ|` -/

theorem sum_map_add_ite {α : Type} (l : List α) (f : α → Nat) (P : α → Prop) [DecidablePred P] :
    (l.map fun a => f a + (if P a then 1 else 0)).sum = (l.map f).sum + l.countP (fun a => decide (P a)) := by
  induction l with
  | nil => simp
  | cons a l ih =>
    simp only [List.map_cons, List.sum_cons, ih, List.countP_cons]
    by_cases h : P a <;> simp [h] <;> omega

theorem length_filterMap_cons_ite {α β : Type} (t : α) (l : List α) (P : α → Prop) [DecidablePred P]
    (v : α → β) :
    ((t :: l).filterMap fun t => if P t then some (v t) else none).length =
      (l.filterMap fun t => if P t then some (v t) else none).length + (if P t then 1 else 0) := by
  by_cases h : P t <;> simp [h]

theorem countP_eq_some_le_one (syms : List Nat) (hs : syms.Nodup) (c : Prop) [Decidable c]
    (lab : Option Nat) :
    syms.countP (fun a => decide (c ∧ lab = some a)) + (if c ∧ lab = none then 1 else 0) ≤ 1 := by
  cases lab with
  | none => simp; split <;> omega
  | some b =>
    have h1 : syms.countP (fun a => decide (c ∧ some b = some a)) ≤ syms.count b := by
      rw [List.count]
      apply List.countP_mono_left
      intro a _ ha
      simp only [Option.some.injEq, decide_eq_true_eq] at ha
      simp [ha.2]
    have h2 := List.nodup_iff_count_le_one.mp hs b
    simp only [reduceCtorEq, and_false, if_false]
    omega

theorem length_outs_le_of_nodup (A : ENFA σ) (hs : A.syms.Nodup) (q : σ) :
    (A.outs q).length ≤ A.delta.length := by
  unfold outs succs
  rw [List.length_append, List.length_flatMap]
  generalize A.delta = l
  induction l with
  | nil => simp
  | cons t l ih =>
    have e1 : ∀ a : Option Nat,
        ((t :: l).filterMap fun t => if t.1 = q ∧ t.2.1 = a then some t.2.2 else none).length =
        (l.filterMap fun t => if t.1 = q ∧ t.2.1 = a then some t.2.2 else none).length +
          (if t.1 = q ∧ t.2.1 = a then 1 else 0) :=
      fun a => length_filterMap_cons_ite t l (fun t => t.1 = q ∧ t.2.1 = a) (fun t => t.2.2)
    simp only [e1]
    rw [sum_map_add_ite A.syms _ (fun a => t.1 = q ∧ t.2.1 = some a)]
    have := countP_eq_some_le_one A.syms hs (t.1 = q) t.2.1
    simp only [List.length_cons]
    omega

/-- `is_acyclic` answers within `|starts| * (|δ| + 1) ^ |Q|` rounds when `_input_symbols` (a Python
set) lists every symbol once -/
theorem isAcyclic_isSome_nodup (A : ENFA σ) (hA : A.WF) (hs : A.syms.Nodup) (fuel : Nat)
    (hf : A.starts.length * (A.delta.length + 1) ^ A.states.length ≤ fuel) :
    (A.isAcyclic fuel).isSome :=
  isAcyclic_isSome_of A A.states _ hA.starts_sub (outs_states A hA)
    (fun q _ => length_outs_le_of_nodup A hs q) fuel hf

/-- `is_acyclic` answers within `|starts| * ((|Σ| + 1) * |δ| + 1) ^ |Q|` rounds -/
theorem isAcyclic_isSome (A : ENFA σ) (hA : A.WF) (fuel : Nat)
    (hf : A.starts.length * ((A.syms.length + 1) * A.delta.length + 1) ^ A.states.length ≤ fuel) :
    (A.isAcyclic fuel).isSome :=
  isAcyclic_isSome_of A A.states _ hA.starts_sub (outs_states A hA)
    (fun q _ => length_outs_le A q) fuel hf

end Pfl.Term2
