/-
Termination of the Earley model (C18), part 1: the converse of `subsumesF_spec` (a functional,
value preserving simulation makes `subsumes` answer True) and the finite "pattern" of a state's
feature record (sharing of the symbol records, sharing of the leaves, values of the leaves):
two records of rank 2 with the same pattern subsume each other.
-/
import Pfl.Proofs.EarleyCompleteOps
import Mathlib.Data.List.Basic
import Mathlib.Data.Fintype.BigOperators
import Mathlib.Data.Fintype.Prod
namespace Pfl
namespace Earley
namespace Term
open FsDag FsDag.Lem Lem Cmp

/-! ### a simulation makes `subsumesF` succeed -/

theorem fold_hom {st : Store} (Φ : Nat → Nat → Prop) (f cb : Nat) (Q : Nat → Prop)
    (IH : ∀ seen a b, Φ (deref st a) (deref st b) → (∀ e ∈ seen, Φ e.1 e.2) → Q a →
      ∃ seen', subsumesF f st seen a b = (true, seen') ∧ ∀ e ∈ seen', Φ e.1 e.2) :
    ∀ (cs : List (String × Nat)) (seen : List (Nat × Nat)), (∀ e ∈ seen, Φ e.1 e.2) →
      (∀ g x, (g, x) ∈ cs → ∃ y, lookupC g (cont st cb) = some y ∧
        Φ (deref st x) (deref st y) ∧ Q x) →
      ∃ seen', cs.foldl (subStep f st cb) (true, seen) = (true, seen') ∧
        ∀ e ∈ seen', Φ e.1 e.2 := by
  intro cs
  induction cs with
  | nil => intro seen hs _; exact ⟨seen, rfl, hs⟩
  | cons fc cs ih =>
    intro seen hs hc
    obtain ⟨y, hy, hΦ, hQ⟩ := hc fc.1 fc.2 (List.mem_cons_self ..)
    obtain ⟨s1, h1, hs1⟩ := IH seen fc.2 y hΦ hs hQ
    rw [List.foldl_cons]
    have hy' : lookupC fc.1 (get st cb).content = some y := hy
    have hstep : subStep f st cb (true, seen) fc = (true, s1) := by
      unfold subStep
      simp [hy', h1]
    rw [hstep]
    exact ih s1 hs1 (fun g x hx => hc g x (List.mem_cons_of_mem _ hx))

/-- `Φ` relates the classes of `a` to classes of `b`: functional, value preserving, compatible
with the features.  Then `subsumesF` succeeds (with enough fuel for the rank of `a`). -/
theorem subsumesF_hom {st : Store} {rk : Nat → Nat} (hI : InvR st rk) (Φ : Nat → Nat → Prop)
    (hfun : ∀ u v v', Φ u v → Φ u v' → v = v')
    (hval : ∀ u v, Φ u v → val st u = val st v)
    (hch : ∀ u v, Φ u v → ∀ g x, (g, x) ∈ cont st u →
      ∃ y, lookupC g (cont st v) = some y ∧ Φ (deref st x) (deref st y)) :
    ∀ (f : Nat) (seen : List (Nat × Nat)) (a b : Nat), Φ (deref st a) (deref st b) →
      (∀ e ∈ seen, Φ e.1 e.2) → rk a < f →
      ∃ seen', subsumesF f st seen a b = (true, seen') ∧ ∀ e ∈ seen', Φ e.1 e.2 := by
  intro f
  induction f with
  | zero => intro _ _ _ _ _ h; omega
  | succ f IH =>
    intro seen a b hab hs hrk
    rw [subsumesF_succ]
    cases hf : seen.find? (·.1 = deref st a) with
    | some e =>
      simp only
      have hmem := List.mem_of_find?_eq_some hf
      have hkey := List.find?_some hf
      simp only [decide_eq_true_eq] at hkey
      have h1 := hs e hmem
      rw [hkey] at h1
      have he : e.2 = deref st b := hfun _ _ _ h1 hab
      exact ⟨seen, by simp [he], hs⟩
    | none =>
      simp only
      have hv : (get st (deref st a)).value = (get st (deref st b)).value := hval _ _ hab
      rw [if_neg (by simp [hv])]
      refine fold_hom Φ f (deref st b) (fun x => rk x < f)
        (fun seen a b h1 h2 h3 => IH seen a b h1 h2 h3) _ _ ?_ ?_
      · intro e he
        rcases List.mem_append.1 he with he | he
        · exact hs e he
        · simp only [List.mem_singleton] at he; subst he; exact hab
      · intro g x hx
        obtain ⟨y, hy, hΦ⟩ := hch _ _ hab g x hx
        refine ⟨y, hy, hΦ, ?_⟩
        obtain ⟨h1, h2⟩ := hI.rkc _ g x hx
        rw [rkR_deref hI] at h1 h2
        unfold crE at h1
        show rk x < f
        omega

/-! ### the pattern of a record of rank 2 -/

/-- the feature names of a production record: `head`, `0`, `1`, … -/
def lab : Nat → String
  | 0 => "head"
  | j + 1 => toString j

/-- the class of the symbol record `lab j` -/
def slotOf (st : Store) (F j : Nat) : Option Nat := (byPath st F [lab j]).map (deref st)

/-- the class of the leaf below the symbol record `lab j` -/
def leafOf (st : Store) (F j : Nat) : Option Nat := (byPath st F [lab j, "n"]).map (deref st)

def valCode (vals : List String) : Option String → Nat
  | none => 0
  | some v => vals.idxOf v + 1

/-- `0`: no leaf; otherwise the code of the value of the leaf plus one -/
def leafCode (vals : List String) (st : Store) (F j : Nat) : Nat :=
  match leafOf st F j with
  | none => 0
  | some x => valCode vals (val st x) + 1

abbrev PatT (L m : Nat) := Fin (L + 1) → (Fin (L + 1) → Bool) × (Fin (L + 1) → Bool) × Fin (m + 3)

open Classical in
/-- the pattern: which symbol records coincide, which leaves coincide, the values of the leaves -/
noncomputable def pat (vals : List String) (L : Nat) (st : Store) (F : Nat) : PatT L vals.length :=
  fun i => (fun j => decide (∃ c, slotOf st F i = some c ∧ slotOf st F j = some c),
            fun j => decide (∃ x, leafOf st F i = some x ∧ leafOf st F j = some x),
            ⟨leafCode vals st F i % (vals.length + 3), Nat.mod_lt _ (by omega)⟩)

theorem card_patT (L m : Nat) :
    Fintype.card (PatT L m) = (2 ^ (L + 1) * (2 ^ (L + 1) * (m + 3))) ^ (L + 1) := by
  simp [PatT, Fintype.card_prod]

/-- the features of the record are among `head`, `0`, …, `L - 1` -/
def RootLab (st : Store) (F L : Nat) : Prop :=
  ∀ g x, (g, x) ∈ cont st (deref st F) → ∃ j, j ≤ L ∧ g = lab j

theorem pat_slot {vals : List String} {L : Nat} {st : Store} {a b : Nat}
    (h : pat vals L st a = pat vals L st b) {i j : Nat} (hi : i ≤ L) (hj : j ≤ L) :
    (∃ c, slotOf st a i = some c ∧ slotOf st a j = some c) ↔
      (∃ c, slotOf st b i = some c ∧ slotOf st b j = some c) := by
  have h1 := congrArg (fun p => (p ⟨i, by omega⟩).1 ⟨j, by omega⟩) h
  simpa [pat] using h1

theorem pat_leaf {vals : List String} {L : Nat} {st : Store} {a b : Nat}
    (h : pat vals L st a = pat vals L st b) {i j : Nat} (hi : i ≤ L) (hj : j ≤ L) :
    (∃ c, leafOf st a i = some c ∧ leafOf st a j = some c) ↔
      (∃ c, leafOf st b i = some c ∧ leafOf st b j = some c) := by
  have h1 := congrArg (fun p => (p ⟨i, by omega⟩).2.1 ⟨j, by omega⟩) h
  simpa [pat] using h1

theorem valCode_le (vals : List String) (o : Option String) : valCode vals o ≤ vals.length + 1 := by
  cases o with
  | none => simp [valCode]
  | some v => simp only [valCode]; have := @List.idxOf_le_length _ _ _ vals v; omega

theorem leafCode_lt (vals : List String) (st : Store) (F j : Nat) :
    leafCode vals st F j < vals.length + 3 := by
  unfold leafCode
  split
  · omega
  · have := valCode_le vals (val st ‹Nat›); omega

theorem pat_code {vals : List String} {L : Nat} {st : Store} {a b : Nat}
    (h : pat vals L st a = pat vals L st b) {i : Nat} (hi : i ≤ L) :
    leafCode vals st a i = leafCode vals st b i := by
  have h1 := congrArg (fun p => ((p ⟨i, by omega⟩).2.2).val) h
  simp only [pat] at h1
  rw [Nat.mod_eq_of_lt (leafCode_lt ..), Nat.mod_eq_of_lt (leafCode_lt ..)] at h1
  exact h1

theorem valCode_inj {vals : List String} {o o' : Option String}
    (ho : ∀ v, o = some v → v ∈ vals) (h : valCode vals o = valCode vals o') : o = o' := by
  cases o with
  | none =>
    cases o' with
    | none => rfl
    | some v' => simp [valCode] at h
  | some v =>
    cases o' with
    | none => simp [valCode] at h
    | some v' =>
      simp only [valCode, Nat.add_right_cancel_iff] at h
      rw [(List.idxOf_inj (ho v rfl)).1 h]

/-! ### paths of length one and two -/

theorem byPath_one (st : Store) (F : Nat) (g : String) :
    byPath st F [g] = lookupC g (cont st (deref st F)) := by
  rw [byPath_cons]
  cases lookupC g (cont st (deref st F)) <;> rfl

theorem byPath_two (st : Store) (F : Nat) (g h : String) :
    byPath st F [g, h] = (lookupC g (cont st (deref st F))).bind fun c =>
      lookupC h (cont st (deref st c)) := by
  rw [byPath_cons]
  cases lookupC g (cont st (deref st F)) with
  | none => rfl
  | some c => exact byPath_one st c h

theorem slotOf_some {st : Store} {F j u : Nat} (h : slotOf st F j = some u) :
    ∃ c, lookupC (lab j) (cont st (deref st F)) = some c ∧ deref st c = u := by
  unfold slotOf at h
  rw [byPath_one] at h
  simpa using h

theorem leafOf_some {st : Store} {F j u : Nat} (h : leafOf st F j = some u) :
    ∃ c x, lookupC (lab j) (cont st (deref st F)) = some c ∧
      lookupC "n" (cont st (deref st c)) = some x ∧ deref st x = u := by
  unfold leafOf at h
  rw [byPath_two] at h
  simp only [Option.map_eq_some_iff, Option.bind_eq_some_iff] at h
  obtain ⟨x, ⟨c, hc, hx⟩, hu⟩ := h
  exact ⟨c, x, hc, hx, hu⟩

theorem slotOf_of {st : Store} {F j c : Nat} (h : lookupC (lab j) (cont st (deref st F)) = some c) :
    slotOf st F j = some (deref st c) := by
  unfold slotOf; rw [byPath_one, h]; rfl

theorem leafOf_of {st : Store} {F j c x : Nat} (h : lookupC (lab j) (cont st (deref st F)) = some c)
    (hx : lookupC "n" (cont st (deref st c)) = some x) : leafOf st F j = some (deref st x) := by
  unfold leafOf; rw [byPath_two, h]; simp [hx]

theorem rk_lookup {st : Store} {rk : Nat → Nat} (hI : InvR st rk) {i x : Nat} {g : String}
    (h : lookupC g (cont st (deref st i)) = some x) : rk x + 1 = rk i := by
  obtain ⟨h1, h2⟩ := hI.rkc _ g x (lookupC_mem h)
  rw [rkR_deref hI] at h1 h2
  unfold crE at h1
  omega

theorem val_none_of_rk {st : Store} {rk : Nat → Nat} (hI : InvR st rk) {u : Nat} (h : rk u ≠ 0) :
    val st u = none := by
  cases hv : val st u with
  | none => rfl
  | some v => exact absurd (hI.rkv u v hv) h

/-! ### same pattern, hence subsumed -/

theorem subsumes_of_pat {vals : List String} {L : Nat} {st : Store} {rk : Nat → Nat}
    (hw : WFS st rk) (hkf : KF st) (hn : AllN st rk)
    (hap : ∀ i v, val st i = some v → v ∈ vals) (hlen : 2 ≤ st.length)
    {a b : Nat} (hra : rk a = 2) (hrb : rk b = 2) (hla : RootLab st a L)
    (hp : pat vals L st a = pat vals L st b) : subsumes st a b = true := by
  have hI := hw.inv
  let Φ : Nat → Nat → Prop := fun u v =>
    (u = deref st a ∧ v = deref st b) ∨
    (∃ i, i ≤ L ∧ slotOf st a i = some u ∧ slotOf st b i = some v) ∨
    (∃ i, i ≤ L ∧ leafOf st a i = some u ∧ leafOf st b i = some v)
  -- ranks
  have rkS : ∀ {F i u : Nat}, rk F = 2 → slotOf st F i = some u → rk u = 1 := by
    intro F i u hF h
    obtain ⟨c, hc, hu⟩ := slotOf_some h
    have := rk_lookup hI hc
    rw [← hu, rkR_deref hI]; omega
  have rkL : ∀ {F i u : Nat}, rk F = 2 → leafOf st F i = some u → rk u = 0 := by
    intro F i u hF h
    obtain ⟨c, x, hc, hx, hu⟩ := leafOf_some h
    have h1 := rk_lookup hI hc
    have h2 := rk_lookup hI hx
    rw [← hu, rkR_deref hI]; omega
  have rkA : rk (deref st a) = 2 := by rw [rkR_deref hI]; exact hra
  have rkB : rk (deref st b) = 2 := by rw [rkR_deref hI]; exact hrb
  have hfun : ∀ u v v', Φ u v → Φ u v' → v = v' := by
    intro u v v' h1 h2
    rcases h1 with ⟨hu, hv⟩ | ⟨i, hi, ha1, hb1⟩ | ⟨i, hi, ha1, hb1⟩ <;>
      rcases h2 with ⟨hu', hv'⟩ | ⟨i', hi', ha2, hb2⟩ | ⟨i', hi', ha2, hb2⟩
    · rw [hv, hv']
    · have := rkS hra ha2; rw [hu] at this; omega
    · have := rkL hra ha2; rw [hu] at this; omega
    · have := rkS hra ha1; rw [hu'] at this; omega
    · obtain ⟨c, hc1, hc2⟩ := (pat_slot hp hi hi').1 ⟨u, ha1, ha2⟩
      rw [hb1] at hc1; rw [hb2] at hc2
      simp only [Option.some.injEq] at hc1 hc2
      rw [hc1, hc2]
    · have h1 := rkS hra ha1; have h2 := rkL hra ha2; omega
    · have := rkL hra ha1; rw [hu'] at this; omega
    · have h1 := rkL hra ha1; have h2 := rkS hra ha2; omega
    · obtain ⟨c, hc1, hc2⟩ := (pat_leaf hp hi hi').1 ⟨u, ha1, ha2⟩
      rw [hb1] at hc1; rw [hb2] at hc2
      simp only [Option.some.injEq] at hc1 hc2
      rw [hc1, hc2]
  have hval : ∀ u v, Φ u v → val st u = val st v := by
    intro u v h
    rcases h with ⟨hu, hv⟩ | ⟨i, hi, ha1, hb1⟩ | ⟨i, hi, ha1, hb1⟩
    · rw [hu, hv, val_none_of_rk hI (by omega), val_none_of_rk hI (by omega)]
    · rw [val_none_of_rk hI (by rw [rkS hra ha1]; omega),
        val_none_of_rk hI (by rw [rkS hrb hb1]; omega)]
    · have hc := pat_code hp hi
      unfold leafCode at hc
      rw [ha1, hb1] at hc
      simp only [Nat.add_right_cancel_iff] at hc
      exact valCode_inj (fun w hw' => hap u w hw') hc
  have hch : ∀ u v, Φ u v → ∀ g x, (g, x) ∈ cont st u →
      ∃ y, lookupC g (cont st v) = some y ∧ Φ (deref st x) (deref st y) := by
    intro u v h g x hx
    rcases h with ⟨hu, hv⟩ | ⟨i, hi, ha1, hb1⟩ | ⟨i, hi, ha1, hb1⟩
    · subst hu hv
      obtain ⟨j, hj, rfl⟩ := hla g x hx
      have hl := hkf _ _ _ hx
      have hsa := slotOf_of hl
      obtain ⟨c, hc1, _⟩ := (pat_slot hp hj hj).1 ⟨_, hsa, hsa⟩
      obtain ⟨y, hy, hyc⟩ := slotOf_some hc1
      refine ⟨y, hy, Or.inr (Or.inl ⟨j, hj, hsa, ?_⟩)⟩
      rw [hc1, hyc]
    · obtain ⟨ca, hca, hcu⟩ := slotOf_some ha1
      obtain ⟨cb', hcb, hcv⟩ := slotOf_some hb1
      have hg : g = "n" := hn u g x (rkS hra ha1) hx
      subst hg
      have hl := hkf _ _ _ hx
      rw [← hcu] at hl
      have hla' := leafOf_of hca hl
      obtain ⟨c, hc1, _⟩ := (pat_leaf hp hi hi).1 ⟨_, hla', hla'⟩
      obtain ⟨c2, y, hc2, hy, hyc⟩ := leafOf_some hc1
      rw [hcb] at hc2
      simp only [Option.some.injEq] at hc2
      subst hc2
      refine ⟨y, by rw [← hcv]; exact hy, Or.inr (Or.inr ⟨i, hi, hla', ?_⟩)⟩
      rw [hc1, hyc]
    · have h0 := rkL hra ha1
      rw [cont_nil_of_rkR_zero hI h0] at hx
      simp at hx
  obtain ⟨seen', hs, _⟩ := subsumesF_hom hI Φ hfun hval hch (st.length + 1) [] a b
    (Or.inl ⟨rfl, rfl⟩) (by simp) (by omega)
  unfold subsumes
  rw [hs]

/-! ### the pattern only depends on the objects of the record -/

theorem slotOf_fr {st st' : Store} (hf : Fr st st') (ha : Acyc st) (hr : Rng st) {F : Nat}
    (hF : F < st.length) (j : Nat) : slotOf st' F j = slotOf st F j := by
  unfold slotOf
  rw [hf.byPath_eq ha hr _ hF]
  cases hb : byPath st F [lab j] with
  | none => rfl
  | some n =>
    simp only [Option.map_some]
    rw [hf.deref_eq ha hr (byPath_lt hr _ F n hF hb)]

theorem leafOf_fr {st st' : Store} (hf : Fr st st') (ha : Acyc st) (hr : Rng st) {F : Nat}
    (hF : F < st.length) (j : Nat) : leafOf st' F j = leafOf st F j := by
  unfold leafOf
  rw [hf.byPath_eq ha hr _ hF]
  cases hb : byPath st F [lab j, "n"] with
  | none => rfl
  | some n =>
    simp only [Option.map_some]
    rw [hf.deref_eq ha hr (byPath_lt hr _ F n hF hb)]

theorem leafOf_lt {st : Store} (hr : Rng st) {F j u : Nat} (hF : F < st.length)
    (h : leafOf st F j = some u) : u < st.length := by
  unfold leafOf at h
  simp only [Option.map_eq_some_iff] at h
  obtain ⟨n, hn, rfl⟩ := h
  exact deref_lt hr (byPath_lt hr _ F n hF hn)

theorem pat_fr {vals : List String} {L : Nat} {st st' : Store} (hf : Fr st st') (ha : Acyc st)
    (hr : Rng st) {F : Nat} (hF : F < st.length) : pat vals L st' F = pat vals L st F := by
  funext i
  have hcode : leafCode vals st' F i = leafCode vals st F i := by
    unfold leafCode
    rw [leafOf_fr hf ha hr hF]
    cases hl : leafOf st F i with
    | none => rfl
    | some x =>
      simp only
      rw [val, hf.old x (leafOf_lt hr hF hl)]
  simp only [pat, slotOf_fr hf ha hr hF, leafOf_fr hf ha hr hF, hcode]

theorem rootLab_fr {st st' : Store} (hf : Fr st st') (ha : Acyc st) (hr : Rng st) {F L : Nat}
    (hF : F < st.length) (h : RootLab st F L) : RootLab st' F L := by
  intro g x hx
  rw [hf.deref_eq ha hr hF, cont, hf.old _ (deref_lt hr hF)] at hx
  exact h g x hx

end Term
end Earley
end Pfl
