/-
Ranked stores for the Earley model: the theory of `Pfl/Proofs/FeatureDagLemmas.lean` (Part Unify)
re-done for the rank discipline "every feature of an object of rank `r` has rank `r - 1`"
(roots of productions 2, symbol records 1, leaves 0).
-/
import Pfl.Proofs.FeatureDagLemmas
namespace Pfl
namespace Earley
namespace Lem
open FsDag FsDag.Lem

/-- rank of the `g`-child of a record of rank `r` -/
def crE (r : Nat) (_g : String) : Nat := r - 1

theorem crE_lt {r : Nat} (g : String) (h : 0 < r) : crE r g < r := by
  unfold crE; omega

structure InvR (st : Store) (rk : Nat → Nat) : Prop where
  acyc : Acyc st
  rkp : ∀ i j, ptr st i = some j → rk i = rk j
  rkc : ∀ i g x, (g, x) ∈ cont st i → rk x = crE (rk i) g ∧ 0 < rk i
  rkv : ∀ i v, val st i = some v → rk i = 0

theorem rkR_deref {st : Store} {rk : Nat → Nat} (hI : InvR st rk) (i : Nat) :
    rk (deref st i) = rk i :=
  deref_mem_closed (fun j => rk j = rk i) (fun j j2 hj h => by rw [← hI.rkp j j2 h]; exact hj) i rfl

theorem cont_nil_of_rkR_zero {st : Store} {rk : Nat → Nat} (hI : InvR st rk) {i : Nat}
    (h : rk i = 0) : cont st i = [] := by
  cases hc : cont st i with
  | nil => rfl
  | cons e rest =>
    have := (hI.rkc i e.1 e.2 (by rw [hc]; simp)).2
    omega

theorem invR_setPointer {st : Store} {rk : Nat → Nat} (hI : InvR st rk) {c d : Nat}
    (hc : ptr st c = none) (hd : ptr st d = none) (hcd : c ≠ d) (hrk : rk c = rk d) :
    InvR (setPointer st c d) rk := by
  constructor
  · exact acyc_setPointer hI.acyc hc hd hcd
  · intro i j hp
    rw [ptr_setPointer] at hp
    split at hp
    · rename_i hci
      obtain ⟨rfl, _⟩ := hci
      simp only [Option.some.injEq] at hp; subst hp; exact hrk
    · exact hI.rkp i j hp
  · intro i g x hx
    rw [cont_setPointer] at hx
    exact hI.rkc i g x hx
  · intro i v hv
    rw [val_setPointer] at hv
    exact hI.rkv i v hv

theorem invR_addFresh {st : Store} {rk : Nat → Nat} (hr : Rng st) (hI : InvR st rk) {ca : Nat}
    (g : String) (hca : ca < st.length) (hpos : 0 < rk ca) :
    InvR (addFresh st ca g) (Function.update rk st.length (crE (rk ca) g)) := by
  have hup : ∀ i, i < st.length → Function.update rk st.length (crE (rk ca) g) i = rk i := by
    intro i hi; rw [Function.update_of_ne (by omega)]
  constructor
  · exact acyc_addFresh hI.acyc g hca
  · intro i j hp
    rw [ptr_addFresh g hca] at hp
    rw [hup i (ptr_lt hp), hup j (hr.p i j hp)]
    exact hI.rkp i j hp
  · intro i g' x hx
    have hi : i < st.length := by
      rw [cont_addFresh g hca] at hx
      split at hx
      · rename_i h; subst h; exact hca
      · exact cont_lt hx
    rw [hup i hi]
    rw [cont_addFresh g hca] at hx
    split at hx
    · rename_i h; subst h
      rcases List.mem_append.1 hx with hx | hx
      · rw [hup x (hr.c _ g' x hx)]; exact hI.rkc _ g' x hx
      · simp only [List.mem_singleton, Prod.mk.injEq] at hx
        obtain ⟨rfl, rfl⟩ := hx
        rw [Function.update_self]; exact ⟨rfl, hpos⟩
    · rw [hup x (hr.c i g' x hx)]; exact hI.rkc i g' x hx
  · intro i v hv
    rw [val_addFresh g hca] at hv
    rw [hup i (val_lt hv)]
    exact hI.rkv i v hv

/-! ## Part: Unify -/

/-- `st'` extends `st`: only objects of rank `≤ r` were touched, new objects have rank `< r`,
classes only merged (`e1`), values of classes kept (`e2`), features kept (`m`) -/
structure ExtR (st : Store) (rk : Nat → Nat) (st' : Store) (rk' : Nat → Nat) (r : Nat) : Prop where
  len : st.length ≤ st'.length
  rkold : ∀ i, i < st.length → rk' i = rk i
  rknew : ∀ i, st.length ≤ i → i < st'.length → rk' i < r
  frame : ∀ i, i < st.length → r < rk i → get st' i = get st i
  e1 : ∀ i j, i < st.length → j < st.length → deref st i = deref st j → deref st' i = deref st' j
  e2 : ∀ i v, i < st.length → val st (deref st i) = some v → val st' (deref st' i) = some v
  m : ∀ i g x, i < st.length → lookupC g (cont st i) = some x → lookupC g (cont st' i) = some x

theorem ExtR.refl (st : Store) (rk : Nat → Nat) (r : Nat) : ExtR st rk st rk r :=
  ⟨Nat.le_refl _, fun _ _ => rfl, fun i h1 h2 => by omega, fun _ _ _ => rfl,
    fun _ _ _ _ h => h, fun _ _ _ h => h, fun _ _ _ _ h => h⟩

theorem ExtR.trans {st st1 st2 : Store} {rk rk1 rk2 : Nat → Nat} {r : Nat}
    (h1 : ExtR st rk st1 rk1 r) (h2 : ExtR st1 rk1 st2 rk2 r) : ExtR st rk st2 rk2 r := by
  have hl := h1.len
  constructor
  · exact Nat.le_trans h1.len h2.len
  · intro i hi; rw [h2.rkold i (by omega), h1.rkold i hi]
  · intro i hi1 hi2
    by_cases hi : i < st1.length
    · rw [h2.rkold i hi]; exact h1.rknew i hi1 hi
    · exact h2.rknew i (by omega) hi2
  · intro i hi hr
    rw [h2.frame i (by omega) (by rw [h1.rkold i hi]; exact hr), h1.frame i hi hr]
  · intro i j hi hj h
    exact h2.e1 i j (by omega) (by omega) (h1.e1 i j hi hj h)
  · intro i v hi h
    exact h2.e2 i v (by omega) (h1.e2 i v hi h)
  · intro i g x hi h
    exact h2.m i g x (by omega) (h1.m i g x hi h)

theorem ExtR.mono {st st' : Store} {rk rk' : Nat → Nat} {r r' : Nat} (h : ExtR st rk st' rk' r)
    (hr : r ≤ r') : ExtR st rk st' rk' r' :=
  ⟨h.len, h.rkold, fun i h1 h2 => Nat.lt_of_lt_of_le (h.rknew i h1 h2) hr,
    fun i hi hri => h.frame i hi (by omega), h.e1, h.e2, h.m⟩

/-- `deref` of objects of high rank is unchanged -/
theorem ExtR.deref_high {st st' : Store} {rk rk' : Nat → Nat} {r : Nat} (h : ExtR st rk st' rk' r)
    (hr : Rng st) (hI : InvR st rk) {i : Nat} (hi : i < st.length) (hri : r < rk i) :
    deref st' i = deref st i := by
  refine deref_frame hI.acyc h.len (fun j => j < st.length ∧ r < rk j) ?_ ?_ i ⟨hi, hri⟩
  · intro j hj; rw [ptr, h.frame j hj.1 hj.2]
  · intro j j2 hj hp
    exact ⟨hr.p j j2 hp, by rw [← hI.rkp j j2 hp]; exact hj.2⟩

theorem ccatR_frame {st st' : Store} {rk rk' : Nat → Nat} {r : Nat} (h : ExtR st rk st' rk' r)
    (hr : Rng st) (hI : InvR st rk) {i : Nat} (hi : i < st.length) (hri : r < rk i)
    (hc : CCat st i) : CCat st' i := by
  intro g x hx
  rw [cont, h.frame i hi hri] at hx
  obtain ⟨x', hx', he⟩ := hc g x hx
  have hd : deref st i < st.length := deref_lt hr hi
  refine ⟨x', ?_, ?_⟩
  · rw [h.deref_high hr hI hi hri, cont, h.frame _ hd (by rw [rkR_deref hI]; exact hri)]
    exact hx'
  · exact h.e1 x' x (hr.c _ g x' (lookupC_mem hx')) (hr.c _ g x (lookupC_mem hx)) he

/-! ### the pointer update as an extension -/

theorem extR_setPointer {st : Store} {rk : Nat → Nat} (hI : InvR st rk) {c d : Nat}
    (hc : ptr st c = none) (hd : ptr st d = none) (hcd : c ≠ d) (hclt : c < st.length) {k : Nat}
    (hk : rk c = k) (hv : ∀ v, val st c = some v → val st d = some v) :
    ExtR st rk (setPointer st c d) rk k := by
  have hder := deref_setPointer hI.acyc hc hd hcd hclt
  constructor
  · rw [length_setPointer]; exact Nat.le_refl _
  · intro _ _; rfl
  · intro i h1 h2; rw [length_setPointer] at h2; omega
  · intro i _ hri
    exact get_setPointer_ne d (fun e => by subst e; omega)
  · intro i j _ _ h
    rw [hder, hder, h]
  · intro i v _ h
    rw [hder, val_setPointer]
    split
    · rename_i e; rw [e] at h; exact hv v h
    · exact h
  · intro i g x _ h
    rw [cont_setPointer]; exact h

/-! ### the loop over the features of the second operand -/

structure GoPreR (st : Store) (rk : Nat → Nat) (ca r : Nat) (rest : List (String × Nat)) : Prop where
  rng : Rng st
  inv : InvR st rk
  hca : ca < st.length
  pca : ptr st ca = none
  rca : rk ca = r
  rpos : 0 < r
  hrest : ∀ e ∈ rest, e.2 < st.length ∧ rk e.2 = crE r e.1
  ccl : ∀ i, rk i < r → CCat st i
  ccw : ∀ i, rk i = r → ∀ g x, lookupC g (cont st i) = some x →
    (∃ x', lookupC g (cont st (deref st i)) = some x' ∧ deref st x' = deref st x) ∨
    (deref st i = ca ∧ ∃ y, (g, y) ∈ rest ∧ deref st y = deref st x)

def PostR (f : Nat) (st : Store) (rk : Nat → Nat) (k a b : Nat) : Res → Prop
  | .ok st' => ∃ rk', ExtR st rk st' rk' k ∧ InvR st' rk' ∧ CCle st' rk' k ∧ deref st' a = deref st' b
  | .conflict => True
  | .fuel => f ≤ k

def GoPostR (f : Nat) (st : Store) (rk : Nat → Nat) (r : Nat) : Res → Prop
  | .ok st' => ∃ rk', ExtR st rk st' rk' r ∧ InvR st' rk' ∧ CCle st' rk' r
  | .conflict => True
  | .fuel => f < r

theorem goPreR_addFresh {st : Store} {rk : Nat → Nat} {ca r : Nat} {L : List (String × Nat)}
    (h : GoPreR st rk ca r L) (g : String) (hl : lookupC g (cont st ca) = none) :
    GoPreR (addFresh st ca g) (Function.update rk st.length (crE r g)) ca r L ∧
    ExtR st rk (addFresh st ca g) (Function.update rk st.length (crE r g)) r ∧
    lookupC g (cont (addFresh st ca g) ca) = some st.length := by
  have hca := h.hca
  have hup : ∀ i, i < st.length → Function.update rk st.length (crE r g) i = rk i := by
    intro i hi; rw [Function.update_of_ne (by omega)]
  have hupn : Function.update rk st.length (crE r g) st.length = crE r g := Function.update_self ..
  have hder := deref_addFresh h.inv.acyc g hca
  have hcr := crE_lt g h.rpos
  refine ⟨?_, ?_, ?_⟩
  · constructor
    · exact rng_addFresh h.rng g hca
    · have := invR_addFresh h.rng h.inv g hca (by rw [h.rca]; exact h.rpos)
      rw [h.rca] at this; exact this
    · rw [length_addFresh]; omega
    · rw [ptr_addFresh g hca]; exact h.pca
    · rw [hup ca hca]; exact h.rca
    · exact h.rpos
    · intro e he
      obtain ⟨h1, h2⟩ := h.hrest e he
      rw [length_addFresh, hup _ h1]; exact ⟨by omega, h2⟩
    · intro i hi g' x hx
      by_cases hin : i = st.length
      · subst hin
        rw [cont_addFresh g hca, if_neg (by omega), cont, get_ge (Nat.le_refl _)] at hx
        simp [emptyNode, lookupC] at hx
      · rw [Function.update_of_ne hin] at hi
        have hica : i ≠ ca := fun e => by subst e; rw [h.rca] at hi; omega
        rw [cont_addFresh g hca, if_neg hica] at hx
        obtain ⟨x', hx', he⟩ := h.ccl i hi g' x hx
        have hdca : deref st i ≠ ca := fun e => by
          have := rkR_deref h.inv i; rw [e, h.rca] at this; omega
        refine ⟨x', ?_, ?_⟩
        · rw [hder, cont_addFresh g hca, if_neg hdca]; exact hx'
        · rw [hder, hder]; exact he
    · intro i hi g' x hx
      by_cases hin : i = st.length
      · subst hin; rw [hupn] at hi; omega
      · rw [Function.update_of_ne hin] at hi
        by_cases hica : i = ca
        · subst hica
          left
          refine ⟨x, ?_, rfl⟩
          rw [deref_of_none (by rw [ptr_addFresh g hca]; exact h.pca)]; exact hx
        · rw [cont_addFresh g hca, if_neg hica] at hx
          rcases h.ccw i hi g' x hx with ⟨x', hx', he⟩ | ⟨h1, y, hy, he⟩
          · left
            refine ⟨x', ?_, by rw [hder, hder]; exact he⟩
            rw [hder, cont_addFresh g hca]
            split
            · rename_i e; rw [e] at hx'; exact lookupC_append_some _ hx'
            · exact hx'
          · right
            exact ⟨by rw [hder]; exact h1, y, hy, by rw [hder, hder]; exact he⟩
  · constructor
    · rw [length_addFresh]; omega
    · exact hup
    · intro i h1 h2
      rw [length_addFresh] at h2
      have : i = st.length := by omega
      subst this; rw [hupn]; exact hcr
    · intro i hi hri
      rw [get_addFresh g hca, if_neg (fun e => by subst e; rw [h.rca] at hri; omega)]
    · intro i j _ _ he; rw [hder, hder]; exact he
    · intro i v _ he; rw [hder, val_addFresh g hca]; exact he
    · intro i g' x _ hx
      rw [cont_addFresh g hca]
      split
      · rename_i e; subst e; exact lookupC_append_some _ hx
      · exact hx
  · rw [cont_addFresh g hca, if_pos rfl]
    exact lookupC_append_single_self _ hl

theorem goPreR_field {st : Store} {rk : Nat → Nat} {ca r : Nat} {L : List (String × Nat)}
    (h : GoPreR st rk ca r L) (g : String) :
    ∃ rk1, GoPreR (fieldOf st ca g).1 rk1 ca r L ∧ ExtR st rk (fieldOf st ca g).1 rk1 r ∧
      lookupC g (cont (fieldOf st ca g).1 ca) = some (fieldOf st ca g).2 := by
  unfold fieldOf
  cases hl : lookupC g (cont st ca) with
  | some x => exact ⟨rk, h, ExtR.refl _ _ _, hl⟩
  | none => exact ⟨_, goPreR_addFresh h g hl⟩

/-- after the sub-unification of the field `g` the loop invariant holds for the remaining fields -/
theorem goPreR_sub {st : Store} {rk : Nat → Nat} {ca r : Nat} {g : String} {y : Nat}
    {rest : List (String × Nat)} (h : GoPreR st rk ca r ((g, y) :: rest)) {x : Nat}
    (hl : lookupC g (cont st ca) = some x) {st2 : Store} {rk2 : Nat → Nat} {k : Nat} (hk : k < r)
    (hr2 : Rng st2) (he : ExtR st rk st2 rk2 k) (hI2 : InvR st2 rk2) (hc2 : CCle st2 rk2 k)
    (hxy : deref st2 x = deref st2 y) : GoPreR st2 rk2 ca r rest := by
  have hold : ∀ i, i < st2.length → k ≤ rk2 i → i < st.length := by
    intro i hi hki
    by_contra hc
    have := he.rknew i (by omega) hi
    omega
  have hcaf : get st2 ca = get st ca := he.frame ca h.hca (by rw [h.rca]; exact hk)
  constructor
  · exact hr2
  · exact hI2
  · exact Nat.lt_of_lt_of_le h.hca he.len
  · rw [ptr, hcaf]; exact h.pca
  · rw [he.rkold ca h.hca]; exact h.rca
  · exact h.rpos
  · intro e hem
    obtain ⟨h1, h2⟩ := h.hrest e (List.mem_cons_of_mem _ hem)
    exact ⟨Nat.lt_of_lt_of_le h1 he.len, by rw [he.rkold _ h1]; exact h2⟩
  · intro i hi
    by_cases hik : rk2 i ≤ k
    · exact hc2 i hik
    · by_cases hi2 : i < st2.length
      · have hi1 := hold i hi2 (by omega)
        have hrk := he.rkold i hi1
        exact ccatR_frame he h.rng h.inv hi1 (by omega) (h.ccl i (by omega))
      · intro g' x' hx'
        rw [cont, get_ge (by omega)] at hx'
        simp [emptyNode, lookupC] at hx'
  · intro i hi g' x0 hx0
    have hi2 : i < st2.length := cont_lt (lookupC_mem hx0)
    have hi1 := hold i hi2 (by omega)
    have hrk := he.rkold i hi1
    have hri : k < rk i := by omega
    rw [cont, he.frame i hi1 hri] at hx0
    have hdi : deref st2 i = deref st i := he.deref_high h.rng h.inv hi1 hri
    have hx0lt : x0 < st.length := h.rng.c i g' x0 (lookupC_mem hx0)
    rcases h.ccw i (by omega) g' x0 hx0 with ⟨x', hx', hee⟩ | ⟨h1, y', hy', hee⟩
    · left
      refine ⟨x', ?_, he.e1 x' x0 (h.rng.c _ g' x' (lookupC_mem hx')) hx0lt hee⟩
      rw [hdi, cont, he.frame _ (deref_lt h.rng hi1) (by rw [rkR_deref h.inv]; exact hri)]
      exact hx'
    · have hy'lt : y' < st.length := (h.hrest (g', y') hy').1
      have hee2 := he.e1 y' x0 hy'lt hx0lt hee
      rcases List.mem_cons.1 hy' with heq | hmem
      · simp only [Prod.mk.injEq] at heq
        obtain ⟨rfl, rfl⟩ := heq
        left
        refine ⟨x, ?_, by rw [hxy]; exact hee2⟩
        rw [hdi, h1, cont, hcaf]; exact hl
      · right
        exact ⟨by rw [hdi]; exact h1, y', hmem, hee2⟩

theorem go_R (f : Nat)
    (IH : ∀ st rk k a b, Rng st → InvR st rk → CCle st rk k → a < st.length → b < st.length →
      rk a = k → rk b = k → PostR f st rk k a b (unify f st a b))
    (ca r : Nat) : ∀ (rest : List (String × Nat)) (st : Store) (rk : Nat → Nat),
      GoPreR st rk ca r rest → GoPostR f st rk r (unify.go f ca st rest) := by
  intro rest
  induction rest with
  | nil =>
    intro st rk h
    rw [go_nil]
    refine ⟨rk, ExtR.refl _ _ _, h.inv, ?_⟩
    intro i hi
    by_cases hlt : rk i < r
    · exact h.ccl i hlt
    · intro g x hx
      rcases h.ccw i (by omega) g x hx with hh | ⟨_, y, hy, _⟩
      · exact hh
      · simp at hy
  | cons e rest ih =>
    obtain ⟨g, y⟩ := e
    intro st rk h
    rw [go_cons]
    obtain ⟨rk1, h1, he1, hl1⟩ := goPreR_field h g
    have hxlt := h1.rng.c ca g _ (lookupC_mem hl1)
    have hxrk := (h1.inv.rkc ca g _ (lookupC_mem hl1)).1
    rw [h1.rca] at hxrk
    obtain ⟨hylt, hyrk⟩ := h1.hrest (g, y) (by simp)
    have hk := crE_lt g h1.rpos
    have hsub := IH (fieldOf st ca g).1 rk1 (crE r g) (fieldOf st ca g).2 y h1.rng h1.inv
      (fun i hi => h1.ccl i (by omega)) hxlt hylt hxrk hyrk
    have hsem := unify_sem f (fieldOf st ca g).1 (fieldOf st ca g).2 y h1.rng hxlt hylt
    cases hres : unify f (fieldOf st ca g).1 (fieldOf st ca g).2 y with
    | fuel =>
      rw [hres] at hsub
      show f < r
      have : f ≤ crE r g := hsub
      omega
    | conflict => trivial
    | ok st2 =>
      rw [hres] at hsub
      obtain ⟨rk2, he2, hI2, hc2, hxy⟩ := hsub
      have hr2 := (hsem.1 st2 hres).1
      have h2 := goPreR_sub h1 hl1 hk hr2 he2 hI2 hc2 hxy
      have hgo := ih st2 rk2 h2
      show GoPostR f st rk r (unify.go f ca st2 rest)
      cases hres2 : unify.go f ca st2 rest with
      | fuel => rw [hres2] at hgo; exact hgo
      | conflict => trivial
      | ok st' =>
        rw [hres2] at hgo
        obtain ⟨rk', he', hI', hc'⟩ := hgo
        exact ⟨rk', (he1.trans (he2.mono (Nat.le_of_lt hk))).trans he', hI', hc'⟩

/-! ### the two kinds of merge -/

/-- merging a class without features into another class -/
theorem ccleR_setPointer_leaf {st : Store} {rk : Nat → Nat} (hI : InvR st rk) {c d : Nat}
    (hc : ptr st c = none) (hd : ptr st d = none) (hcd : c ≠ d) (hclt : c < st.length) {k : Nat}
    (hcc : CCle st rk k) (hcont : cont st c = []) : CCle (setPointer st c d) rk k := by
  have hder := deref_setPointer hI.acyc hc hd hcd hclt
  intro i hi g x hx
  rw [cont_setPointer] at hx
  obtain ⟨x', hx', he⟩ := hcc i hi g x hx
  by_cases hdc : deref st i = c
  · rw [hdc, hcont] at hx'; simp [lookupC] at hx'
  · refine ⟨x', ?_, by rw [hder, hder, he]⟩
    rw [hder, if_neg hdc, cont_setPointer]; exact hx'

/-- redirecting the record `cb` to the record `ca` establishes the loop invariant -/
theorem goPreR_rec {st : Store} {rk : Nat → Nat} (hr : Rng st) (hI : InvR st rk) {ca cb k : Nat}
    (hca : ptr st ca = none) (hcb : ptr st cb = none) (hne : ca ≠ cb) (hcalt : ca < st.length)
    (hcblt : cb < st.length) (hrka : rk ca = k) (hrkb : rk cb = k) (hpos : 0 < k)
    (hcc : CCle st rk k) :
    GoPreR (setPointer st cb ca) rk ca k (cont st cb) := by
  have hder := deref_setPointer hI.acyc hcb hca (Ne.symm hne) hcblt
  constructor
  · exact rng_setPointer hr cb hcalt
  · exact invR_setPointer hI hcb hca (Ne.symm hne) (by rw [hrka, hrkb])
  · rw [length_setPointer]; exact hcalt
  · rw [ptr_setPointer, if_neg (fun e => hne e.1.symm)]; exact hca
  · exact hrka
  · exact hpos
  · intro e he
    rw [length_setPointer]
    refine ⟨hr.c cb e.1 e.2 he, ?_⟩
    rw [← hrkb]; exact (hI.rkc cb e.1 e.2 he).1
  · intro i hi g x hx
    rw [cont_setPointer] at hx
    obtain ⟨x', hx', he⟩ := hcc i (by omega) g x hx
    have hdc : deref st i ≠ cb := fun e => by
      have := rkR_deref hI i; rw [e] at this; omega
    refine ⟨x', ?_, by rw [hder, hder, he]⟩
    rw [hder, if_neg hdc, cont_setPointer]; exact hx'
  · intro i hi g x hx
    rw [cont_setPointer] at hx
    obtain ⟨x', hx', he⟩ := hcc i (by omega) g x hx
    by_cases hdc : deref st i = cb
    · right
      refine ⟨by rw [hder, if_pos hdc], x', ?_, by rw [hder, hder, he]⟩
      rw [hdc] at hx'; exact lookupC_mem hx'
    · left
      refine ⟨x', ?_, by rw [hder, hder, he]⟩
      rw [hder, if_neg hdc, cont_setPointer]; exact hx'

theorem unify_R : ∀ (f : Nat) (st : Store) (rk : Nat → Nat) (k a b : Nat), Rng st → InvR st rk →
    CCle st rk k → a < st.length → b < st.length → rk a = k → rk b = k →
    PostR f st rk k a b (unify f st a b) := by
  intro f
  induction f with
  | zero => intro st rk k a b _ _ _ _ _ _ _; rw [unify_zero]; exact Nat.zero_le _
  | succ f IH =>
    intro st rk k a b hr hI hcc ha hb hrka hrkb
    have hcalt := deref_lt hr ha
    have hcblt := deref_lt hr hb
    have hpa := deref_ptr_none hI.acyc a
    have hpb := deref_ptr_none hI.acyc b
    have hka : rk (deref st a) = k := by rw [rkR_deref hI]; exact hrka
    have hkb : rk (deref st b) = k := by rw [rkR_deref hI]; exact hrkb
    rw [unify_succ]
    -- the three successful leaf cases
    have leaf : ∀ c d, ptr st c = none → ptr st d = none → c ≠ d → c < st.length → rk c = k →
        rk d = k → cont st c = [] → (∀ v, val st c = some v → val st d = some v) →
        ((deref st a = c ∧ deref st b = d) ∨ (deref st a = d ∧ deref st b = c)) →
        PostR f.succ st rk k a b (.ok (setPointer st c d)) := by
      intro c d hc hd hcd hclt hkc hkd hcont hv hab
      refine ⟨rk, extR_setPointer hI hc hd hcd hclt hkc hv,
        invR_setPointer hI hc hd hcd (by rw [hkc, hkd]),
        ccleR_setPointer_leaf hI hc hd hcd hclt hcc hcont, ?_⟩
      rw [deref_setPointer hI.acyc hc hd hcd hclt, deref_setPointer hI.acyc hc hd hcd hclt]
      rcases hab with ⟨e1, e2⟩ | ⟨e1, e2⟩
      · rw [e1, e2]; simp [Ne.symm hcd]
      · rw [e1, e2]; simp [Ne.symm hcd]
    split
    · rename_i heq
      exact ⟨rk, ExtR.refl _ _ _, hI, hcc, heq⟩
    · rename_i hne
      split
      · rename_i hemp
        split
        · rename_i hv
          exact leaf _ _ hpa hpb hne hcalt hka hkb hemp.1 (fun v h => by rw [← hv]; exact h)
            (Or.inl ⟨rfl, rfl⟩)
        · split
          · rename_i hv
            exact leaf _ _ hpa hpb hne hcalt hka hkb hemp.1 (fun v h => by rw [hv] at h; simp at h)
              (Or.inl ⟨rfl, rfl⟩)
          · split
            · rename_i hv
              exact leaf _ _ hpb hpa (Ne.symm hne) hcblt hkb hka hemp.2
                (fun v h => by rw [hv] at h; simp at h) (Or.inr ⟨rfl, rfl⟩)
            · trivial
      · rename_i hemp
        have hpos : 0 < k := by
          by_cases h1 : cont st (deref st a) = []
          · have h2 : cont st (deref st b) ≠ [] := fun h2 => hemp ⟨h1, h2⟩
            obtain ⟨e, he⟩ := List.exists_mem_of_ne_nil _ h2
            have := (hI.rkc _ e.1 e.2 he).2
            omega
          · obtain ⟨e, he⟩ := List.exists_mem_of_ne_nil _ h1
            have := (hI.rkc _ e.1 e.2 he).2
            omega
        have hpre := goPreR_rec hr hI hpa hpb hne hcalt hcblt hka hkb hpos hcc
        have hgo := go_R f IH (deref st a) k _ _ rk hpre
        have hext : ExtR st rk (setPointer st (deref st b) (deref st a)) rk k :=
          extR_setPointer hI hpb hpa (Ne.symm hne) hcblt hkb (fun v h => by
            have := hI.rkv _ v h; omega)
        cases hres : unify.go f (deref st a) (setPointer st (deref st b) (deref st a))
            (cont st (deref st b)) with
        | fuel =>
          rw [hres] at hgo
          have : f < k := hgo
          show f + 1 ≤ k
          omega
        | conflict => trivial
        | ok st' =>
          rw [hres] at hgo
          obtain ⟨rk', he', hI', hc'⟩ := hgo
          refine ⟨rk', hext.trans he', hI', hc', ?_⟩
          apply he'.e1 a b (by rw [length_setPointer]; exact ha) (by rw [length_setPointer]; exact hb)
          rw [deref_setPointer hI.acyc hpb hpa (Ne.symm hne) hcblt,
            deref_setPointer hI.acyc hpb hpa (Ne.symm hne) hcblt]
          simp [hne]


/-- features, classes and paths survive an extension whose result is congruence closed -/
theorem pathR_pres {st st' : Store} {rk rk' : Nat → Nat} {r : Nat} (he : ExtR st rk st' rk' r)
    (hr : Rng st) (hI : InvR st rk) (hcc : ∀ i, CCat st' i) :
    ∀ (p : List String) (i n : Nat), i < st.length → byPath st i p = some n →
      n < st.length ∧ ∃ n', byPath st' i p = some n' ∧ deref st' n' = deref st' n := by
  intro p
  induction p with
  | nil =>
    intro i n hi h
    simp only [byPath_nil, Option.some.injEq] at h; subst h
    exact ⟨hi, i, rfl, rfl⟩
  | cons g p ih =>
    intro i n hi h
    rw [byPath_cons] at h
    cases hl : lookupC g (cont st (deref st i)) with
    | none => rw [hl] at h; simp at h
    | some x =>
      rw [hl] at h
      have hc := deref_lt hr hi
      have hx := hr.c _ g x (lookupC_mem hl)
      obtain ⟨hn, n', hn', hd'⟩ := ih x n hx h
      refine ⟨hn, ?_⟩
      have hm := he.m _ g x hc hl
      obtain ⟨x', hx', hdx⟩ := hcc (deref st i) g x hm
      have hdi : deref st' (deref st i) = deref st' i :=
        he.e1 _ _ hc hi (deref_idem hI.acyc i)
      rw [hdi] at hx'
      rw [byPath_cons_of _ hx']
      cases p with
      | nil =>
        simp only [byPath_nil, Option.some.injEq] at hn' h ⊢
        subst hn' h
        exact ⟨x', rfl, hdx⟩
      | cons g2 p2 =>
        rw [byPath_congr hdx]
        exact ⟨n', hn', hd'⟩

end Lem
end Earley
end Pfl
