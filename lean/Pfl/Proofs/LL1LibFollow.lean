/-
Helper lemmas for C14 (library model `Pfl/Model/LL1Lib.lean`): the FOLLOW triggers, the
initialisation of the FOLLOW sets and the FOLLOW worklist.
-/
import Pfl.Proofs.LL1LibFirst
namespace Pfl
namespace LL1Lib
namespace Lem
open CFG

/-! ### `_get_triggers_follow_set` -/

/-- `t` occurs in the body and only symbols with ε in their FIRST set come after it -/
def SufAll (f : Sym → List Look) (body : List Sym) (t : Sym) : Prop :=
  ∃ pre rest, body = pre ++ t :: rest ∧ ∀ y ∈ rest, Look.eps ∈ f y

theorem sufAll_nil (f : Sym → List Look) (t : Sym) : ¬ SufAll f [] t := by
  rintro ⟨pre, rest, h, _⟩
  cases pre <;> simp at h

theorem sufAll_cons (f : Sym → List Look) (x : Sym) (body : List Sym) (t : Sym) :
    SufAll f (x :: body) t ↔ (t = x ∧ ∀ y ∈ body, Look.eps ∈ f y) ∨ SufAll f body t := by
  constructor
  · rintro ⟨pre, rest, h, hr⟩
    cases pre with
    | nil =>
      simp only [List.nil_append, List.cons.injEq] at h
      obtain ⟨rfl, rfl⟩ := h
      exact Or.inl ⟨rfl, hr⟩
    | cons z pre =>
      simp only [List.cons_append, List.cons.injEq] at h
      exact Or.inr ⟨pre, rest, h.2, hr⟩
  · rintro (⟨rfl, hr⟩ | ⟨pre, rest, h, hr⟩)
    · exact ⟨[], body, rfl, hr⟩
    · exact ⟨x :: pre, rest, by rw [h]; rfl, hr⟩

theorem trig_go (F : SetMap Sym Look) (p : Pfl.Prod) : ∀ (body : List Sym) (m : SetMap Sym Sym)
    (k t : Sym), t ∈ getD (followTriggers.go F p m body) k ↔
      t ∈ getD m k ∨ (k = .var p.1 ∧ SufAll (getD F) body t) := by
  intro body
  induction body with
  | nil =>
    intro m k t
    rw [followTriggers.go]
    simp [sufAll_nil]
  | cons x rest ih =>
    intro m k t
    rw [followTriggers.go, ih, sufAll_cons]
    by_cases hall : (rest.all fun y => decide (Look.eps ∈ getD F y)) = true
    · have hall' : ∀ y ∈ rest, Look.eps ∈ getD F y := by simpa using hall
      simp only [hall, if_true, getD_setKey]
      by_cases hk : k = .var p.1
      · subst hk
        simp only [if_true, mem_union, List.mem_singleton, true_and]
        constructor
        · rintro ((h | h) | h)
          · exact Or.inl h
          · exact Or.inr (Or.inl ⟨h, hall'⟩)
          · exact Or.inr (Or.inr h)
        · rintro (h | ⟨h, _⟩ | h)
          · exact Or.inl (Or.inl h)
          · exact Or.inl (Or.inr h)
          · exact Or.inr h
      · simp [hk]
    · have hall' : ¬ ∀ y ∈ rest, Look.eps ∈ getD F y := by simpa using hall
      simp only [hall, Bool.false_eq_true, if_false]
      constructor
      · rintro (h | ⟨hk, h⟩)
        · exact Or.inl h
        · exact Or.inr ⟨hk, Or.inr h⟩
      · rintro (h | ⟨hk, ⟨_, h⟩ | h⟩)
        · exact Or.inl h
        · exact absurd h hall'
        · exact Or.inr ⟨hk, h⟩

def trigStep (F : SetMap Sym Look) (m : SetMap Sym Sym) (p : Pfl.Prod) : SetMap Sym Sym :=
  followTriggers.go F p (if hasKey m (.var p.1) then m else m ++ [(Sym.var p.1, [])]) p.2

theorem followTriggers_eq (G : CFG) (F : SetMap Sym Look) :
    followTriggers G F = G.prods.foldl (trigStep F) [] := rfl

theorem getD_ensure (m : SetMap Sym Sym) (k k' : Sym) :
    getD (if hasKey m k then m else m ++ [(k, [])]) k' = getD m k' := by
  by_cases h : hasKey m k = true
  · rw [if_pos h]
  · rw [if_neg h, getD_append_new _ _ _ _ (by simpa using h)]
    split
    · next hk => subst hk; exact (getD_of_not_hasKey m _ (by simpa using h)).symm
    · rfl

theorem trig_fold (F : SetMap Sym Look) : ∀ (l : List Pfl.Prod) (m : SetMap Sym Sym) (k t : Sym),
    t ∈ getD (l.foldl (trigStep F) m) k ↔
      t ∈ getD m k ∨ ∃ p ∈ l, k = .var p.1 ∧ SufAll (getD F) p.2 t := by
  intro l
  induction l with
  | nil => intro m k t; simp
  | cons p l ih =>
    intro m k t
    rw [List.foldl_cons, ih]
    unfold trigStep
    rw [trig_go, getD_ensure]
    constructor
    · rintro ((h | h) | ⟨q, hq, h⟩)
      · exact Or.inl h
      · exact Or.inr ⟨p, List.mem_cons_self, h⟩
      · exact Or.inr ⟨q, List.mem_cons_of_mem _ hq, h⟩
    · rintro (h | ⟨q, hq, h⟩)
      · exact Or.inl (Or.inl h)
      · rcases List.mem_cons.mp hq with rfl | hq
        · exact Or.inl (Or.inr h)
        · exact Or.inr ⟨q, hq, h⟩

/-- the triggers of a head: the body symbols followed only by symbols with ε in FIRST -/
theorem mem_followTriggers (G : CFG) (F : SetMap Sym Look) (k t : Sym) :
    t ∈ getD (followTriggers G F) k ↔ ∃ p ∈ G.prods, k = .var p.1 ∧ SufAll (getD F) p.2 t := by
  rw [followTriggers_eq, trig_fold]
  simp [getD_nil]

/-! ### `_initialize_follow_set` -/

theorem add_spec (F : SetMap Sym Look) (x : Sym) : ∀ (rest : List Sym) (m : SetMap (Option Sym) Look)
    (k : Option Sym) (a : Look), a ∈ getD (followInit.go.add F x m rest) k ↔
      a ∈ getD m k ∨ (k = some x ∧ Reach (getD F) rest a) := by
  intro rest
  induction rest with
  | nil => intro m k a; rw [followInit.go.add]; simp [Reach]
  | cons y ys ih =>
    intro m k a
    rw [followInit.go.add]
    show _ ↔ (_ ∨ (_ ∧ (_ ∨ _ ∧ _)))
    split
    · next he =>
      rw [ih, getD_setKey]
      by_cases hk : k = some x
      · subst hk
        simp only [if_true, mem_union, true_and]
        constructor
        · rintro ((h | h) | h)
          · exact Or.inl h
          · exact Or.inr (Or.inl h)
          · exact Or.inr (Or.inr ⟨he, h⟩)
        · rintro (h | h | ⟨_, h⟩)
          · exact Or.inl (Or.inl h)
          · exact Or.inl (Or.inr h)
          · exact Or.inr h
      · simp [hk]
    · next he =>
      rw [getD_setKey]
      by_cases hk : k = some x
      · subst hk
        simp only [if_true, mem_union, true_and]
        constructor
        · rintro (h | h)
          · exact Or.inl h
          · exact Or.inr (Or.inl h)
        · rintro (h | h | ⟨h, _⟩)
          · exact Or.inl h
          · exact Or.inr h
          · exact absurd h he
      · simp [hk]

theorem add_nodup (F : SetMap Sym Look) (x : Sym) : ∀ (rest : List Sym) (m : SetMap (Option Sym) Look),
    (∀ k, (getD m k).Nodup) → ∀ k, (getD (followInit.go.add F x m rest) k).Nodup := by
  intro rest
  induction rest with
  | nil => intro m h k; rw [followInit.go.add]; exact h k
  | cons y ys ih =>
    intro m h
    have h' : ∀ k, (getD (setKey m (some x) (union (getD m (some x)) (getD F y))) k).Nodup := by
      intro k
      rw [getD_setKey]
      split
      · exact union_nodup _ _ (h _)
      · exact h k
    rw [followInit.go.add]
    split
    · exact ih _ h'
    · exact h'

/-- `follow[x].remove(epsilon)` -/
def filt (x : Sym) (m1 : SetMap (Option Sym) Look) : SetMap (Option Sym) Look :=
  if Look.eps ∈ getD m1 (some x) then
    setKey m1 (some x) ((getD m1 (some x)).filter (· ≠ Look.eps)) else m1

/-- the treatment of one occurrence `x` with the rest of the body behind it -/
def istep (F : SetMap Sym Look) (x : Sym) (rest : List Sym)
    (st : SetMap (Option Sym) Look × List (Option Sym)) :
    SetMap (Option Sym) Look × List (Option Sym) :=
  (filt x (followInit.go.add F x st.1 rest),
    if (getD (filt x (followInit.go.add F x st.1 rest)) (some x)).isEmpty then st.2
    else qpush st.2 (some x))

theorem initGo_cons (F : SetMap Sym Look) (st : SetMap (Option Sym) Look × List (Option Sym))
    (x : Sym) (rest : List Sym) :
    followInit.go F st (x :: rest) = followInit.go F (istep F x rest st) rest := by
  rw [followInit.go]; rfl

/-- the invariant of the initialisation: exact contents `S`, no repetition, and every non-empty
set is queued -/
structure IInv (S : Option Sym → Look → Prop) (st : SetMap (Option Sym) Look × List (Option Sym)) :
    Prop where
  rep : ∀ k a, a ∈ getD st.1 k ↔ S k a
  nodup : ∀ k, (getD st.1 k).Nodup
  queued : ∀ k, getD st.1 k ≠ [] → k ∈ st.2

theorem IInv.congr {S S' : Option Sym → Look → Prop} {st : SetMap (Option Sym) Look × List (Option Sym)}
    (h : IInv S st) (hS : ∀ k a, S k a ↔ S' k a) : IInv S' st :=
  ⟨fun k a => (h.rep k a).trans (hS k a), h.nodup, h.queued⟩

theorem mem_filt (x : Sym) (m1 : SetMap (Option Sym) Look) (S : Option Sym → Look → Prop)
    (R : Look → Prop) (hS : ∀ k, ¬ S k Look.eps)
    (hm1 : ∀ k a, a ∈ getD m1 k ↔ S k a ∨ (k = some x ∧ R a)) (k : Option Sym) (a : Look) :
    a ∈ getD (filt x m1) k ↔ S k a ∨ (k = some x ∧ a ≠ Look.eps ∧ R a) := by
  unfold filt
  split
  · rw [getD_setKey]
    split
    · next hk =>
      subst hk
      simp only [List.mem_filter, decide_eq_true_eq, hm1, true_and]
      constructor
      · rintro ⟨h1 | h1, h2⟩
        · exact Or.inl h1
        · exact Or.inr ⟨h2, h1⟩
      · rintro (h1 | ⟨h1, h2⟩)
        · exact ⟨Or.inl h1, fun e => hS _ (e ▸ h1)⟩
        · exact ⟨Or.inr h2, h1⟩
    · next hk => rw [hm1]; simp [hk]
  · next he =>
    rw [hm1]
    constructor
    · rintro (h1 | ⟨h1, h2⟩)
      · exact Or.inl h1
      · refine Or.inr ⟨h1, ?_, h2⟩
        rintro rfl
        exact he ((hm1 _ _).mpr (Or.inr ⟨rfl, h2⟩))
    · rintro (h1 | ⟨h1, _, h2⟩)
      · exact Or.inl h1
      · exact Or.inr ⟨h1, h2⟩

theorem filt_nodup (x : Sym) (m1 : SetMap (Option Sym) Look) (hn1 : ∀ k, (getD m1 k).Nodup)
    (k : Option Sym) : (getD (filt x m1) k).Nodup := by
  unfold filt
  split
  · rw [getD_setKey]
    split
    · exact (hn1 _).filter _
    · exact hn1 k
  · exact hn1 k

theorem istep_inv (F : SetMap Sym Look) (x : Sym) (rest : List Sym) (S : Option Sym → Look → Prop)
    (hS : ∀ k, ¬ S k Look.eps) (st : SetMap (Option Sym) Look × List (Option Sym)) (h : IInv S st) :
    IInv (fun k a => S k a ∨ (k = some x ∧ a ≠ Look.eps ∧ Reach (getD F) rest a)) (istep F x rest st) := by
  have hm1 : ∀ k a, a ∈ getD (followInit.go.add F x st.1 rest) k ↔
      S k a ∨ (k = some x ∧ Reach (getD F) rest a) := by
    intro k a; rw [add_spec, h.rep]
  have hn1 := add_nodup F x rest st.1 h.nodup
  unfold istep
  generalize followInit.go.add F x st.1 rest = m1 at hm1 hn1
  have hm2 := mem_filt x m1 S (Reach (getD F) rest) hS hm1
  have hn2 := filt_nodup x m1 hn1
  generalize filt x m1 = m2 at hm2 hn2
  refine ⟨hm2, hn2, ?_⟩
  intro k hk
  show k ∈ (if (getD m2 (some x)).isEmpty then st.2 else qpush st.2 (some x))
  by_cases hkx : k = some x
  · subst hkx
    have : (getD m2 (some x)).isEmpty = false := by
      cases hl : getD m2 (some x) with
      | nil => exact absurd hl hk
      | cons _ _ => rfl
    rw [this]
    exact (mem_qpush _ _ _).mpr (Or.inr rfl)
  · have hne : getD st.1 k ≠ [] := by
      intro hemp
      cases hl : getD m2 k with
      | nil => exact hk hl
      | cons a l =>
        have ha : a ∈ getD m2 k := by rw [hl]; exact List.mem_cons_self
        rcases (hm2 k a).mp ha with h1 | ⟨h1, _⟩
        · have := (h.rep k a).mpr h1
          rw [hemp] at this; cases this
        · exact hkx h1
    have := h.queued k hne
    split
    · exact this
    · exact (mem_qpush _ _ _).mpr (Or.inl this)

/-- contribution of a body: for every occurrence, the non-ε members reached in what follows -/
def Contrib (f : Sym → List Look) (body : List Sym) (k : Option Sym) (a : Look) : Prop :=
  ∃ pre x rest, body = pre ++ x :: rest ∧ k = some x ∧ a ≠ Look.eps ∧ Reach f rest a

theorem contrib_nil (f : Sym → List Look) (k : Option Sym) (a : Look) : ¬ Contrib f [] k a := by
  rintro ⟨pre, x, rest, h, _⟩
  cases pre <;> simp at h

theorem contrib_cons (f : Sym → List Look) (x : Sym) (body : List Sym) (k : Option Sym) (a : Look) :
    Contrib f (x :: body) k a ↔ (k = some x ∧ a ≠ Look.eps ∧ Reach f body a) ∨ Contrib f body k a := by
  constructor
  · rintro ⟨pre, y, rest, h, hr⟩
    cases pre with
    | nil =>
      simp only [List.nil_append, List.cons.injEq] at h
      obtain ⟨rfl, rfl⟩ := h
      exact Or.inl hr
    | cons z pre =>
      simp only [List.cons_append, List.cons.injEq] at h
      exact Or.inr ⟨pre, y, rest, h.2, hr⟩
  · rintro (hr | ⟨pre, y, rest, h, hr⟩)
    · exact ⟨[], x, body, rfl, hr⟩
    · exact ⟨x :: pre, y, rest, by rw [h]; rfl, hr⟩

theorem initGo_inv (F : SetMap Sym Look) : ∀ (body : List Sym) (S : Option Sym → Look → Prop)
    (_ : ∀ k, ¬ S k Look.eps) (st : SetMap (Option Sym) Look × List (Option Sym)) (_ : IInv S st),
    IInv (fun k a => S k a ∨ Contrib (getD F) body k a) (followInit.go F st body) := by
  intro body
  induction body with
  | nil =>
    intro S _ st h
    rw [followInit.go]
    exact h.congr (fun k a => by simp [contrib_nil])
  | cons x rest ih =>
    intro S hS st h
    rw [initGo_cons]
    have h1 := istep_inv F x rest S hS st h
    have h2 := ih _ (by
      rintro k (hk | ⟨_, hk, _⟩)
      · exact hS k hk
      · exact hk rfl) _ h1
    refine h2.congr (fun k a => ?_)
    rw [contrib_cons, or_assoc]

/-- the exact contents of the FOLLOW dictionary after initialisation -/
def Src (G : CFG) (f : Sym → List Look) (start : Option String) (k : Option Sym) (a : Look) : Prop :=
  (k = start.map Sym.var ∧ a = Look.eof) ∨ ∃ p ∈ G.prods, Contrib f p.2 k a

theorem src_noeps (G : CFG) (f : Sym → List Look) (start : Option String) (k : Option Sym) :
    ¬ Src G f start k Look.eps := by
  rintro (⟨_, h⟩ | ⟨p, _, pre, x, rest, _, _, h, _⟩)
  · cases h
  · exact h rfl

theorem initFold_inv (F : SetMap Sym Look) : ∀ (l : List Pfl.Prod) (S : Option Sym → Look → Prop)
    (_ : ∀ k, ¬ S k Look.eps) (st : SetMap (Option Sym) Look × List (Option Sym)) (_ : IInv S st),
    IInv (fun k a => S k a ∨ ∃ p ∈ l, Contrib (getD F) p.2 k a)
      (l.foldl (fun st p => followInit.go F st p.2) st) := by
  intro l
  induction l with
  | nil => intro S _ st h; exact h.congr (fun k a => by simp)
  | cons p l ih =>
    intro S hS st h
    rw [List.foldl_cons]
    have h1 := initGo_inv F p.2 S hS st h
    have h2 := ih _ (by
      rintro k (hk | ⟨_, _, _, _, _, hk, _⟩)
      · exact hS k hk
      · exact hk rfl) _ h1
    refine h2.congr (fun k a => ?_)
    simp only [List.mem_cons, exists_eq_or_imp, or_assoc]

theorem followInit_inv (G : CFG) (F : SetMap Sym Look) (start : Option String) :
    IInv (Src G (getD F) start) (followInit G F start) := by
  have h0 : IInv (fun k a => k = start.map Sym.var ∧ a = Look.eof)
      (([(start.map Sym.var, [Look.eof])], [start.map Sym.var]) :
        SetMap (Option Sym) Look × List (Option Sym)) := by
    refine ⟨?_, ?_, ?_⟩
    · intro k a
      rw [getD_cons, getD_nil]
      by_cases hk : start.map Sym.var = k
      · subst hk; simp
      · have hk' : ¬ k = start.map Sym.var := fun e => hk e.symm
        simp [hk, hk']
    · intro k
      rw [getD_cons, getD_nil]
      split <;> simp
    · intro k hk
      rw [getD_cons, getD_nil] at hk
      split at hk
      · next e => exact List.mem_singleton.mpr e.symm
      · exact absurd rfl hk
  exact initFold_inv F G.prods _ (by rintro k ⟨_, h⟩; cases h) _ h0


/-! ### the FOLLOW worklist -/

/-- the body of the `for triggered in triggers[current]` loop -/
def wstep (cur : Option Sym) (st : SetMap (Option Sym) Look × List (Option Sym)) (t : Sym) :
    SetMap (Option Sym) Look × List (Option Sym) :=
  let old := getD st.1 (some t)
  let new := union old (getD st.1 cur)
  let Fo1 := setKey st.1 (some t) new
  if new.length ≠ old.length then (Fo1, qpush st.2 (some t)) else (Fo1, st.2)

def trigd (Tr : SetMap Sym Sym) : Option Sym → List Sym
  | some c => getD Tr c
  | none => []

theorem followLoop_step (Tr : SetMap Sym Sym) (fuel : Nat) (Fo : SetMap (Option Sym) Look)
    (q : List (Option Sym)) (cur : Option Sym) (h : q.getLast? = some cur) :
    followLoop Tr (fuel + 1) Fo q =
      followLoop Tr fuel ((trigd Tr cur).foldl (wstep cur) (Fo, q.dropLast)).1
        ((trigd Tr cur).foldl (wstep cur) (Fo, q.dropLast)).2 := by
  cases q with
  | nil => simp at h
  | cons x q' =>
    rw [followLoop]
    · simp only [h]
      cases cur <;> rfl
    · simp

theorem followLoop_inv (Tr : SetMap Sym Sym)
    (Inv : SetMap (Option Sym) Look → List (Option Sym) → Prop)
    (hstep : ∀ Fo q cur, q.getLast? = some cur → Inv Fo q →
      Inv ((trigd Tr cur).foldl (wstep cur) (Fo, q.dropLast)).1
        ((trigd Tr cur).foldl (wstep cur) (Fo, q.dropLast)).2) :
    ∀ fuel Fo q Fo', Inv Fo q → followLoop Tr fuel Fo q = some Fo' → Inv Fo' [] := by
  intro fuel
  induction fuel with
  | zero =>
    intro Fo q Fo' hI h
    cases q with
    | nil => rw [followLoop] at h; cases h; exact hI
    | cons x q' => rw [followLoop] at h; cases h
  | succ fuel ih =>
    intro Fo q Fo' hI h
    cases q with
    | nil => rw [followLoop] at h; cases h; exact hI
    | cons x q' =>
      have hne : (x :: q') ≠ [] := by simp
      have hl : (x :: q').getLast? = some ((x :: q').getLast hne) := List.getLast?_eq_some_getLast hne
      rw [followLoop_step Tr fuel Fo _ _ hl] at h
      exact ih _ _ Fo' (hstep Fo _ _ hl hI) h

/-- the invariant inside the `for` loop over the triggers of `cur` -/
structure WMid (Tr : SetMap Sym Sym) (Good : Sym → Look → Prop) (Base : Option Sym → Look → Prop)
    (cur : Option Sym) (Fo : SetMap (Option Sym) Look) (q : List (Option Sym)) (rem : List Sym) :
    Prop where
  sound : ∀ k a, a ∈ getD Fo (some k) → Good k a
  base : ∀ k a, Base k a → a ∈ getD Fo k
  nodup : ∀ k, (getD Fo k).Nodup
  pend : ∀ c t, t ∈ getD Tr c →
    (∀ a, a ∈ getD Fo (some c) → a ∈ getD Fo (some t)) ∨ some c ∈ q ∨ (some c = cur ∧ t ∈ rem)

/-- the invariant of the `while to_process` loop -/
structure WInv (Tr : SetMap Sym Sym) (Good : Sym → Look → Prop) (Base : Option Sym → Look → Prop)
    (Fo : SetMap (Option Sym) Look) (q : List (Option Sym)) : Prop where
  sound : ∀ k a, a ∈ getD Fo (some k) → Good k a
  base : ∀ k a, Base k a → a ∈ getD Fo k
  nodup : ∀ k, (getD Fo k).Nodup
  pend : ∀ c t, t ∈ getD Tr c →
    (∀ a, a ∈ getD Fo (some c) → a ∈ getD Fo (some t)) ∨ some c ∈ q

theorem wstep_mid (Tr : SetMap Sym Sym) (Good : Sym → Look → Prop) (Base : Option Sym → Look → Prop)
    (hflow : ∀ c t, t ∈ getD Tr c → ∀ a, Good c a → Good t a)
    (c : Sym) (Fo : SetMap (Option Sym) Look) (q : List (Option Sym)) (t : Sym) (rem : List Sym)
    (ht : t ∈ getD Tr c) (hm : WMid Tr Good Base (some c) Fo q (t :: rem)) :
    WMid Tr Good Base (some c) (wstep (some c) (Fo, q) t).1 (wstep (some c) (Fo, q) t).2 rem := by
  let new := union (getD Fo (some t)) (getD Fo (some c))
  let Fo1 := setKey Fo (some t) new
  let q1 := if new.length ≠ (getD Fo (some t)).length then qpush q (some t) else q
  have hst : wstep (some c) (Fo, q) t = (Fo1, q1) := by
    unfold wstep
    show (if new.length ≠ (getD Fo (some t)).length then _ else _) = _
    by_cases hl : new.length ≠ (getD Fo (some t)).length
    · simp only [q1, if_pos hl]; rfl
    · simp only [q1, if_neg hl]; rfl
  rw [hst]
  show WMid Tr Good Base (some c) Fo1 q1 rem
  have hget : ∀ k, getD Fo1 k = if k = some t then new else getD Fo k :=
    fun k => getD_setKey Fo _ _ k
  have hmono : ∀ k a, a ∈ getD Fo k → a ∈ getD Fo1 k := by
    intro k a ha
    rw [hget]
    split
    · next hk => subst hk; exact (mem_union _ _ _).mpr (Or.inl ha)
    · exact ha
  have hqmono : ∀ k, k ∈ q → k ∈ q1 := by
    intro k hk
    show k ∈ (if _ then _ else _)
    split
    · exact (mem_qpush _ _ _).mpr (Or.inl hk)
    · exact hk
  have hkey : ∀ k, getD Fo1 k = getD Fo k ∨ k ∈ q1 := by
    intro k
    by_cases hl : new.length ≠ (getD Fo (some t)).length
    · by_cases hk : k = some t
      · right
        show k ∈ (if _ then _ else _)
        rw [if_pos hl, hk]
        exact (mem_qpush _ _ _).mpr (Or.inr rfl)
      · left; rw [hget, if_neg hk]
    · left
      have hnew : new = getD Fo (some t) := union_eq_of_length _ _ (by simpa using hl)
      show getD (setKey Fo (some t) new) k = _
      rw [hnew, getD_setKey_same]
  refine ⟨?_, ?_, ?_, ?_⟩
  · intro k a ha
    rw [hget] at ha
    split at ha
    · next hk =>
      cases hk
      rcases (mem_union _ _ _).mp ha with h | h
      · exact hm.sound _ _ h
      · exact hflow c t ht a (hm.sound _ _ h)
    · exact hm.sound _ _ ha
  · intro k a ha
    exact hmono _ _ (hm.base k a ha)
  · intro k
    rw [hget]
    split
    · exact union_nodup _ _ (hm.nodup _)
    · exact hm.nodup k
  · intro c' t' ht'
    rcases hkey (some c') with hsame | hq
    · rcases hm.pend c' t' ht' with h | h | ⟨h1, h2⟩
      · left
        intro a ha
        rw [hsame] at ha
        exact hmono _ _ (h a ha)
      · exact Or.inr (Or.inl (hqmono _ h))
      · rcases List.mem_cons.mp h2 with rfl | h2
        · left
          intro a ha
          rw [hsame, h1] at ha
          rw [hget, if_pos rfl]
          exact (mem_union _ _ _).mpr (Or.inr ha)
        · exact Or.inr (Or.inr ⟨h1, h2⟩)
    · exact Or.inr (Or.inl hq)

theorem wfold_mid (Tr : SetMap Sym Sym) (Good : Sym → Look → Prop) (Base : Option Sym → Look → Prop)
    (hflow : ∀ c t, t ∈ getD Tr c → ∀ a, Good c a → Good t a) (c : Sym) :
    ∀ (rem : List Sym) (Fo : SetMap (Option Sym) Look) (q : List (Option Sym)),
      (∀ t ∈ rem, t ∈ getD Tr c) → WMid Tr Good Base (some c) Fo q rem →
      WMid Tr Good Base (some c) (rem.foldl (wstep (some c)) (Fo, q)).1
        (rem.foldl (wstep (some c)) (Fo, q)).2 [] := by
  intro rem
  induction rem with
  | nil => intro Fo q _ hm; exact hm
  | cons t rem ih =>
    intro Fo q hrem hm
    rw [List.foldl_cons]
    exact ih _ _ (fun t' ht' => hrem t' (List.mem_cons_of_mem _ ht'))
      (wstep_mid Tr Good Base hflow c Fo q t rem (hrem t List.mem_cons_self) hm)

theorem wloop_step_inv (Tr : SetMap Sym Sym) (Good : Sym → Look → Prop)
    (Base : Option Sym → Look → Prop)
    (hflow : ∀ c t, t ∈ getD Tr c → ∀ a, Good c a → Good t a)
    (Fo : SetMap (Option Sym) Look) (q : List (Option Sym)) (cur : Option Sym)
    (hl : q.getLast? = some cur) (hI : WInv Tr Good Base Fo q) :
    WInv Tr Good Base ((trigd Tr cur).foldl (wstep cur) (Fo, q.dropLast)).1
      ((trigd Tr cur).foldl (wstep cur) (Fo, q.dropLast)).2 := by
  cases cur with
  | none =>
    show WInv Tr Good Base Fo q.dropLast
    refine ⟨hI.sound, hI.base, hI.nodup, ?_⟩
    intro c t ht
    rcases hI.pend c t ht with h | h
    · exact Or.inl h
    · rcases mem_dropLast_or q none hl _ h with h | h
      · exact Or.inr h
      · cases h
  | some c =>
    have hm : WMid Tr Good Base (some c) Fo q.dropLast (getD Tr c) := by
      refine ⟨hI.sound, hI.base, hI.nodup, ?_⟩
      intro c' t ht
      rcases hI.pend c' t ht with h | h
      · exact Or.inl h
      · rcases mem_dropLast_or q (some c) hl _ h with h | h
        · exact Or.inr (Or.inl h)
        · cases h
          exact Or.inr (Or.inr ⟨rfl, ht⟩)
    have := wfold_mid Tr Good Base hflow c _ Fo q.dropLast (fun t ht => ht) hm
    refine ⟨this.sound, this.base, this.nodup, ?_⟩
    intro c' t ht
    rcases this.pend c' t ht with h | h | ⟨_, h⟩
    · exact Or.inl h
    · exact Or.inr h
    · cases h


/-! ### the final FIRST dictionary against the reference `firstOfString` -/

/-- semantic reading of a FIRST dictionary on the symbols of the grammar -/
def FSem (G : CFG) (F : SetMap Sym Look) : Prop :=
  ∀ s, (∀ t, s = Sym.ter t → t ∈ G.ters) →
    (∀ t, Look.ter t ∈ getD F s ↔ ∃ w, G.Gen s (t :: w)) ∧
    (Look.eps ∈ getD F s ↔ G.Gen s []) ∧ Look.eof ∉ getD F s

/-- the symbols of `b` generate and its terminals are registered -/
def Valid (G : CFG) (b : List Sym) : Prop :=
  (∀ s ∈ b, ∃ w, G.Gen s w) ∧ (∀ t, Sym.ter t ∈ b → t ∈ G.ters)

theorem Valid.tail {G : CFG} {x : Sym} {b : List Sym} (h : Valid G (x :: b)) : Valid G b :=
  ⟨fun s hs => h.1 s (List.mem_cons_of_mem _ hs), fun t ht => h.2 t (List.mem_cons_of_mem _ ht)⟩

theorem Valid.suffix {G : CFG} {pre b : List Sym} (h : Valid G (pre ++ b)) : Valid G b :=
  ⟨fun s hs => h.1 s (List.mem_append_right _ hs), fun t ht => h.2 t (List.mem_append_right _ ht)⟩

theorem valid_body (G : CFG) (hg : ∀ p ∈ G.prods, ∀ s ∈ p.2, ∃ w, G.Gen s w) (hG : G.WF)
    (p : Pfl.Prod) (hp : p ∈ G.prods) : Valid G p.2 :=
  ⟨hg p hp, hG.ter_mem p hp⟩

theorem genList_nil_iff_forall (G : CFG) (b : List Sym) : G.GenList b [] ↔ ∀ y ∈ b, G.Gen y [] := by
  constructor
  · induction b with
    | nil => intro _ y hy; cases hy
    | cons x xs ih =>
      intro h y hy
      obtain ⟨w₁, w₂, e, h1, h2⟩ := genList_cons_iff.mp h
      obtain ⟨e1, e2⟩ := List.append_eq_nil_iff.mp e.symm
      subst e1; subst e2
      rcases List.mem_cons.mp hy with rfl | hy
      · exact h1
      · exact ih h2 y hy
  · exact genList_nil_of_forall G b

theorem alleps_iff {G : CFG} {F : SetMap Sym Look} (hF : FSem G F) (b : List Sym) (hb : Valid G b) :
    (∀ y ∈ b, Look.eps ∈ getD F y) ↔ G.GenList b [] := by
  rw [genList_nil_iff_forall]
  constructor
  · intro h y hy
    exact ((hF y (fun t e => hb.2 t (e ▸ hy))).2.1).mp (h y hy)
  · intro h y hy
    exact ((hF y (fun t e => hb.2 t (e ▸ hy))).2.1).mpr (h y hy)

theorem reach_ter_iff {G : CFG} {F : SetMap Sym Look} (hF : FSem G F) (t : String) :
    ∀ (b : List Sym), Valid G b → (Reach (getD F) b (Look.ter t) ↔ ∃ w, G.GenList b (t :: w)) := by
  intro b
  induction b with
  | nil =>
    intro _
    constructor
    · intro h; exact h.elim
    · rintro ⟨w, h⟩; cases h
  | cons x xs ih =>
    intro hb
    have hx := hF x (fun t e => hb.2 t (e ▸ List.mem_cons_self))
    obtain ⟨wr, hwr⟩ := genList_of_forall G xs hb.tail.1
    show (_ ∨ _ ∧ _) ↔ _
    rw [ih hb.tail, hx.1, hx.2.1]
    constructor
    · rintro (⟨w, hw⟩ | ⟨he, w, hw⟩)
      · exact ⟨w ++ wr, GenList.cons (w₁ := t :: w) hw hwr⟩
      · exact ⟨w, GenList.cons (w₁ := []) he hw⟩
    · rintro ⟨w, h⟩
      obtain ⟨w₁, w₂, e, h1, h2⟩ := genList_cons_iff.mp h
      cases w₁ with
      | nil => rw [List.nil_append] at e; rw [← e] at h2; exact Or.inr ⟨h1, w, h2⟩
      | cons a w1 =>
        simp only [List.cons_append, List.cons.injEq] at e
        rw [← e.1] at h1; exact Or.inl ⟨w1, h1⟩

theorem reach_no_eof {G : CFG} {F : SetMap Sym Look} (hF : FSem G F) (b : List Sym) (hb : Valid G b) :
    ¬ Reach (getD F) b Look.eof := by
  intro h
  obtain ⟨x, hx, hax⟩ := reach_mem h
  exact (hF x (fun t e => hb.2 t (e ▸ hx))).2.2 hax

/-! ### the final FOLLOW dictionary against the reference `followSets` -/

def lookOf : Option String → Look
  | some t => .ter t
  | none => .eof

/-- what an entry of the FOLLOW dictionary claims (nothing for terminals) -/
def Good (G : CFG) (k : Sym) (a : Look) : Prop :=
  ∀ v, k = Sym.var v → ∃ x, a = lookOf x ∧ (v, x) ∈ G.followSets

theorem followSets_closed (G : CFG) (hG : G.WF) (p : Pfl.Prod) (hp : p ∈ G.prods) (pre b : List Sym)
    (hb : p.2 = pre ++ b) (x : LL1.OPair)
    (hr : LL1.WRule (G.firstOfString G.firstSets G.nullable) G.followSets p.1 b x) : x ∈ G.followSets := by
  have hc := LL1.wclosed_of_fixed G _ _ _ (LL1.followSets_fixed G hG)
  refine hc p hp x ?_
  rw [hb]
  exact hr.prepend pre

theorem src_good (G : CFG) (hg : ∀ p ∈ G.prods, ∀ s ∈ p.2, ∃ w, G.Gen s w) (hG : G.WF)
    (F : SetMap Sym Look) (hF : FSem G F) (k : Sym) (a : Look)
    (h : Src G (getD F) G.start (some k) a) : Good G k a := by
  intro v hk
  subst hk
  rcases h with ⟨h1, rfl⟩ | ⟨p, hp, pre, x, rest, hb, hk, hne, hr⟩
  · refine ⟨none, rfl, LL1.followInit_sub G _ ?_⟩
    unfold LL1.followInit
    cases hs : G.start with
    | none => rw [hs] at h1; cases h1
    | some s =>
      rw [hs] at h1
      simp only [Option.map_some, Option.some.injEq, Sym.var.injEq] at h1
      subst h1
      simp
  · cases hk
    have hv : Valid G rest := by
      have := valid_body G hg hG p hp
      rw [hb] at this
      exact this.suffix.tail
    cases a with
    | ter t =>
      refine ⟨some t, rfl, ?_⟩
      have ht : t ∈ (G.firstOfString G.firstSets G.nullable rest).1 :=
        ((LL1.fos_spec G hg hG rest hv.1).2 t).mpr ((reach_ter_iff hF t rest hv).mp hr)
      exact followSets_closed G hG p hp pre _ hb _ (.first v t rest ht)
    | eps => exact absurd rfl hne
    | eof => exact absurd hr (reach_no_eof hF rest hv)

theorem flow_good (G : CFG) (hg : ∀ p ∈ G.prods, ∀ s ∈ p.2, ∃ w, G.Gen s w) (hG : G.WF)
    (F : SetMap Sym Look) (hF : FSem G F) (c t : Sym) (ht : t ∈ getD (followTriggers G F) c)
    (a : Look) (ha : Good G c a) : Good G t a := by
  intro v hk
  subst hk
  obtain ⟨p, hp, rfl, pre, rest, hb, hall⟩ := (mem_followTriggers G F _ _).mp ht
  obtain ⟨x, rfl, hx⟩ := ha p.1 rfl
  refine ⟨x, rfl, ?_⟩
  have hv : Valid G rest := by
    have := valid_body G hg hG p hp
    rw [hb] at this
    exact this.suffix.tail
  have hn : (G.firstOfString G.firstSets G.nullable rest).2 = true :=
    (LL1.fos_spec G hg hG rest hv.1).1.mpr ((alleps_iff hF rest hv).mp hall)
  exact followSets_closed G hG p hp pre _ hb _ (.last v x rest hn hx)

/-- the loop invariant holds after initialisation -/
theorem followInit_winv (G : CFG) (hg : ∀ p ∈ G.prods, ∀ s ∈ p.2, ∃ w, G.Gen s w) (hG : G.WF)
    (F : SetMap Sym Look) (hF : FSem G F) :
    WInv (followTriggers G F) (Good G) (Src G (getD F) G.start)
      (followInit G F G.start).1 (followInit G F G.start).2 := by
  have hi := followInit_inv G F G.start
  refine ⟨?_, ?_, hi.nodup, ?_⟩
  · intro k a ha
    exact src_good G hg hG F hF k a ((hi.rep _ _).mp ha)
  · intro k a ha
    exact (hi.rep _ _).mpr ha
  · intro c t _
    by_cases he : getD (followInit G F G.start).1 (some c) = []
    · left
      intro a ha
      rw [he] at ha; cases ha
    · exact Or.inr (hi.queued _ he)

/-- what `get_follow_set` leaves behind -/
theorem followSet_winv (G : CFG) (hg : ∀ p ∈ G.prods, ∀ s ∈ p.2, ∃ w, G.Gen s w) (hG : G.WF)
    (fuel : Nat) (Fo : SetMap (Option Sym) Look) (h : followSet G fuel = some Fo) :
    ∃ F, firstSet G fuel = some F ∧ FSem G F ∧
      WInv (followTriggers G F) (Good G) (Src G (getD F) G.start) Fo [] := by
  unfold followSet at h
  split at h
  · cases h
  · next F hFs =>
    have hF : FSem G F := fun s hs => firstSet_sem G hg hG fuel F hFs s hs
    refine ⟨F, hFs, hF, ?_⟩
    exact followLoop_inv (followTriggers G F) (WInv (followTriggers G F) (Good G) (Src G (getD F) G.start))
      (fun Fo q cur hl hI => wloop_step_inv _ _ _ (flow_good G hg hG F hF) Fo q cur hl hI)
      fuel _ _ Fo (followInit_winv G hg hG F hF) h

/-- every pair of the reference FOLLOW saturation is in the library's dictionary -/
theorem followSets_sub (G : CFG) (hg : ∀ p ∈ G.prods, ∀ s ∈ p.2, ∃ w, G.Gen s w) (hG : G.WF)
    (F : SetMap Sym Look) (hF : FSem G F) (Fo : SetMap (Option Sym) Look)
    (hI : WInv (followTriggers G F) (Good G) (Src G (getD F) G.start) Fo []) :
    ∀ y ∈ G.followSets, lookOf y.2 ∈ getD Fo (some (.var y.1)) := by
  rw [LL1.followSets_eq]
  refine iter_inv (G.followStep G.firstSets G.nullable)
    (fun S => ∀ y ∈ S, lookOf y.2 ∈ getD Fo (some (.var y.1))) ?_ _ _ ?_
  · intro S hS
    refine LL1.followStep_forall G _ _ (fun y => lookOf y.2 ∈ getD Fo (some (.var y.1))) ?_ S hS
    intro p hp Fo' x hFo'
    have hgen : ∀ b pre, p.2 = pre ++ b →
        LL1.WRule (G.firstOfString G.firstSets G.nullable) Fo' p.1 b x →
        lookOf x.2 ∈ getD Fo (some (.var x.1)) := by
      intro b pre hb hr
      induction hr generalizing pre with
      | first v t rest ht =>
        have hv : Valid G rest := by
          have := valid_body G hg hG p hp
          rw [hb] at this
          exact this.suffix.tail
        have hr : Reach (getD F) rest (Look.ter t) :=
          (reach_ter_iff hF t rest hv).mpr (((LL1.fos_spec G hg hG rest hv.1).2 t).mp ht)
        exact hI.base _ _ (Or.inr ⟨p, hp, pre, .var v, rest, hb, rfl, (by intro e; cases e), hr⟩)
      | last v x rest hn hm =>
        have hv : Valid G rest := by
          have := valid_body G hg hG p hp
          rw [hb] at this
          exact this.suffix.tail
        have hall : ∀ y ∈ rest, Look.eps ∈ getD F y :=
          (alleps_iff hF rest hv).mpr ((LL1.fos_spec G hg hG rest hv.1).1.mp hn)
        have htr : Sym.var v ∈ getD (followTriggers G F) (.var p.1) :=
          (mem_followTriggers G F _ _).mpr ⟨p, hp, rfl, pre, rest, hb, hall⟩
        rcases hI.pend _ _ htr with h | h
        · exact h _ (hFo' _ hm)
        · cases h
      | skip s rest x _ ih =>
        exact ih (pre ++ [s]) (by rw [hb]; simp)
    exact hgen p.2 [] rfl
  · intro y hy
    unfold LL1.followInit at hy
    cases hs : G.start with
    | none => rw [hs] at hy; cases hy
    | some s =>
      rw [hs] at hy
      simp only [List.mem_singleton] at hy
      subst hy
      exact hI.base _ _ (Or.inl ⟨by rw [hs]; rfl, rfl⟩)

/-- FOLLOW of a variable as the worklist leaves it -/
theorem followSet_spec' (G : CFG) (hg : ∀ p ∈ G.prods, ∀ s ∈ p.2, ∃ w, G.Gen s w) (hG : G.WF)
    (fuel : Nat) (Fo : SetMap (Option Sym) Look) (h : followSet G fuel = some Fo) (v : String) :
    (∀ x, lookOf x ∈ getD Fo (some (.var v)) ↔ (v, x) ∈ G.followSets) ∧
    Look.eps ∉ getD Fo (some (.var v)) := by
  obtain ⟨F, _, hF, hI⟩ := followSet_winv G hg hG fuel Fo h
  refine ⟨?_, ?_⟩
  · intro x
    constructor
    · intro hx
      obtain ⟨x', e, hx'⟩ := hI.sound _ _ hx v rfl
      have : x = x' := by
        cases x <;> cases x' <;> simp [lookOf] at e ⊢
        exact e
      rw [this]; exact hx'
    · intro hx
      exact followSets_sub G hg hG F hF Fo hI _ hx
  · intro he
    obtain ⟨x', e, _⟩ := hI.sound _ _ he v rfl
    cases x' <;> cases e

end Lem
end LL1Lib
end Pfl
