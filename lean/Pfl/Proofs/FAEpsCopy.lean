/-
Helper lemmas for ε-removal, copies, renaming and reversal (C01 / C03).
-/
import Pfl.Proofs.FABase
namespace Pfl
namespace ENFA
variable {σ τ : Type} [DecidableEq σ] [DecidableEq τ]

/-! ### `ofParts` as sets -/

theorem mem_ofParts_starts (s f : List σ) (d : List (σ × Option Nat × σ)) (q : σ) :
    q ∈ (ofParts s f d).starts ↔ q ∈ s := by
  simp [ofParts]

theorem mem_ofParts_finals (s f : List σ) (d : List (σ × Option Nat × σ)) (q : σ) :
    q ∈ (ofParts s f d).finals ↔ q ∈ f := by
  simp [ofParts]

theorem mem_ofParts_delta (s f : List σ) (d : List (σ × Option Nat × σ)) (t : σ × Option Nat × σ) :
    t ∈ (ofParts s f d).delta ↔ t ∈ d := by
  simp [ofParts]

/-! ### runs depend only on the set of edges -/

theorem Run.mono {σ : Type} {A B : ENFA σ} (h : ∀ t ∈ A.delta, t ∈ B.delta) {q r : σ} {w : List Nat}
    (hr : A.Run q w r) : B.Run q w r := by
  induction hr with
  | nil q => exact Run.nil q
  | eps he _ ih => exact Run.eps (h _ he) ih
  | step he _ ih => exact Run.step (h _ he) ih

theorem run_congr {σ : Type} {A B : ENFA σ} (hd : ∀ t, t ∈ A.delta ↔ t ∈ B.delta) (q r : σ)
    (w : List Nat) : A.Run q w r ↔ B.Run q w r :=
  ⟨Run.mono (fun t ht => (hd t).mp ht), Run.mono (fun t ht => (hd t).mpr ht)⟩

/-- same starts, finals and edges (as sets) ⇒ same language -/
theorem lang_congr {σ : Type} {A B : ENFA σ} (hs : ∀ q, q ∈ A.starts ↔ q ∈ B.starts)
    (hf : ∀ q, q ∈ A.finals ↔ q ∈ B.finals) (hd : ∀ t, t ∈ A.delta ↔ t ∈ B.delta)
    (w : List Nat) : A.Lang w ↔ B.Lang w := by
  unfold Lang
  constructor
  · rintro ⟨s, hs', f, hf', hr⟩
    exact ⟨s, (hs s).mp hs', f, (hf f).mp hf', (run_congr hd s f w).mp hr⟩
  · rintro ⟨s, hs', f, hf', hr⟩
    exact ⟨s, (hs s).mpr hs', f, (hf f).mpr hf', (run_congr hd s f w).mpr hr⟩

theorem Run.snoc {A : ENFA σ} {q r s : σ} {w : List Nat} {a : Nat}
    (h : A.Run q w r) (he : (r, some a, s) ∈ A.delta) : A.Run q (w ++ [a]) s :=
  Run.append h (Run.step he (Run.nil s))

theorem Run.snoc_eps {A : ENFA σ} {q r s : σ} {w : List Nat}
    (h : A.Run q w r) (he : (r, none, s) ∈ A.delta) : A.Run q w s := by
  have := Run.append h (Run.eps he (Run.nil s))
  simpa using this

/-- runs stay inside `states` for a well-formed automaton -/
theorem Run.mem_states {σ : Type} {A : ENFA σ} (hA : A.WF) {q r : σ} {w : List Nat}
    (h : A.Run q w r) (hq : q ∈ A.states) : r ∈ A.states := by
  induction h with
  | nil q => exact hq
  | eps he _ ih => exact ih (hA.delta_dst _ he)
  | step he _ ih => exact ih (hA.delta_dst _ he)

/-- in an ε-free automaton a run on the empty word does not move -/
theorem Run.nil_eq_of_epsFree {σ : Type} {A : ENFA σ} (hA : A.EpsFree) {q r : σ}
    (h : A.Run q [] r) : q = r := by
  generalize hw : ([] : List Nat) = w at h
  induction h with
  | nil q => rfl
  | eps he _ _ => exact absurd rfl (hA _ he)
  | step _ _ _ => cases hw

/-! ### `copyE` / `copyD` -/

theorem mem_copyE_delta (A : ENFA σ) (hA : A.WF) (t : σ × Option Nat × σ) :
    t ∈ A.copyE.delta ↔ t ∈ A.delta := by
  obtain ⟨q, a, r⟩ := t
  unfold copyE
  rw [mem_ofParts_delta]
  simp only [List.mem_flatMap, List.mem_append, List.mem_map, mem_succs]
  constructor
  · rintro ⟨q', _, h | h⟩
    · obtain ⟨a', _, r', hr', heq⟩ := h
      cases heq; exact hr'
    · obtain ⟨r', hr', heq⟩ := h
      cases heq; exact hr'
  · intro ht
    refine ⟨q, hA.delta_src _ ht, ?_⟩
    cases a with
    | none => exact Or.inr ⟨r, ht, rfl⟩
    | some a => exact Or.inl ⟨a, hA.delta_sym _ ht a rfl, r, ht, rfl⟩

theorem mem_copyD_delta (A : ENFA σ) (hA : A.WF) (hd : A.Deterministic) (he : A.EpsFree)
    (t : σ × Option Nat × σ) : t ∈ A.copyD.delta ↔ t ∈ A.delta := by
  obtain ⟨q, a, r⟩ := t
  unfold copyD
  rw [mem_ofParts_delta]
  simp only [List.mem_flatMap, List.mem_filterMap, Option.map_eq_some_iff]
  constructor
  · rintro ⟨q', _, a', _, r', hr', heq⟩
    cases heq
    exact (mem_succs A q r (some a')).mp (List.mem_of_head? hr')
  · intro ht
    cases a with
    | none => exact absurd rfl (he _ ht)
    | some a =>
      refine ⟨q, hA.delta_src _ ht, a, hA.delta_sym _ ht a rfl, ?_⟩
      have hr : r ∈ A.succs q (some a) := (mem_succs A q r (some a)).mpr ht
      cases hs : A.succs q (some a) with
      | nil => rw [hs] at hr; cases hr
      | cons r' rest =>
        have hr' : r' ∈ A.succs q (some a) := by rw [hs]; exact List.mem_cons_self
        have := hd.2.1 q (some a) r r' ht ((mem_succs A q r' (some a)).mp hr')
        subst this
        exact ⟨r, rfl, rfl⟩

theorem mem_copyD_starts (A : ENFA σ) (hd : A.Deterministic) (q : σ) :
    q ∈ A.copyD.starts ↔ q ∈ A.starts := by
  unfold copyD
  rw [mem_ofParts_starts]
  cases hs : A.starts with
  | nil => simp
  | cons s rest =>
    simp only [List.head?_cons, Option.toList_some, List.mem_cons, List.not_mem_nil, or_false]
    constructor
    · intro h; exact Or.inl h
    · rintro (h | h)
      · exact h
      · exact hd.1 q (by rw [hs]; exact List.mem_cons_of_mem _ h) s (by rw [hs]; exact List.mem_cons_self)

/-! ### `removeEps` -/

theorem mem_removeEps_delta (A : ENFA σ) (t : σ × Option Nat × σ) :
    t ∈ A.removeEps.delta ↔
      t.1 ∈ A.states ∧ ∃ e a, A.EpsReach t.1 e ∧ a ∈ A.syms ∧ t.2.1 = some a ∧
        (e, some a, t.2.2) ∈ A.delta := by
  obtain ⟨q, l, r⟩ := t
  unfold removeEps
  rw [mem_ofParts_delta]
  simp only [List.mem_flatMap, List.mem_map, mem_succs, mem_eclose_iff]
  constructor
  · rintro ⟨q', hq', e, he, a, ha, r', hr', heq⟩
    cases heq
    exact ⟨hq', e, a, he, ha, rfl, hr'⟩
  · rintro ⟨hq, e, a, he, ha, hl, hr⟩
    subst hl
    exact ⟨q, hq, e, he, a, ha, r, hr, rfl⟩

theorem removeEps_epsFree' (A : ENFA σ) : A.removeEps.EpsFree := by
  intro t ht
  obtain ⟨_, e, a, _, _, hl, _⟩ := (mem_removeEps_delta A t).mp ht
  rw [hl]; exact Option.some_ne_none a

theorem mem_removeEps_starts (A : ENFA σ) (q : σ) :
    q ∈ A.removeEps.starts ↔ q ∈ A.starts ∨ ∃ s ∈ A.starts, A.EpsReach s q := by
  unfold removeEps
  rw [mem_ofParts_starts, List.mem_append, mem_ecloseL_iff]

theorem mem_removeEps_finals (A : ENFA σ) (q : σ) :
    q ∈ A.removeEps.finals ↔
      q ∈ A.finals ∨ (q ∈ A.states ∧ ∃ e, A.EpsReach q e ∧ e ∈ A.finals) := by
  unfold removeEps
  rw [mem_ofParts_finals, List.mem_append, List.mem_filter]
  simp only [List.any_eq_true, decide_eq_true_eq, mem_eclose_iff]

/-- from any state, accepting runs of `removeEps` and of `A` spell the same words -/
theorem removeEps_run_final (A : ENFA σ) (hA : A.WF) (w : List Nat) (q : σ) (hq : q ∈ A.states) :
    (∃ f ∈ A.removeEps.finals, A.removeEps.Run q w f) ↔ (∃ f ∈ A.finals, A.Run q w f) := by
  induction w generalizing q with
  | nil =>
    constructor
    · rintro ⟨f, hf, hr⟩
      have := Run.nil_eq_of_epsFree (removeEps_epsFree' A) hr
      subst this
      rcases (mem_removeEps_finals A q).mp hf with h | ⟨_, e, he, hef⟩
      · exact ⟨q, h, Run.nil q⟩
      · exact ⟨e, hef, he⟩
    · rintro ⟨f, hf, hr⟩
      exact ⟨q, (mem_removeEps_finals A q).mpr (Or.inr ⟨hq, f, hr, hf⟩), Run.nil q⟩
  | cons a w ih =>
    constructor
    · rintro ⟨f, hf, hr⟩
      obtain ⟨p, r, hqp, hpr, hrf⟩ := (run_cons_iff _ q f a w).mp hr
      have := Run.nil_eq_of_epsFree (removeEps_epsFree' A) hqp
      subst this
      obtain ⟨_, e, a', hqe, _, hl, her⟩ := (mem_removeEps_delta A _).mp hpr
      simp only [Option.some.injEq] at hl
      subst hl
      simp only at hqe her
      have hr' : r ∈ A.states := hA.delta_dst _ her
      obtain ⟨f', hf', hrf'⟩ := (ih r hr').mp ⟨f, hf, hrf⟩
      exact ⟨f', hf', (run_cons_iff A q f' a w).mpr ⟨e, r, hqe, her, hrf'⟩⟩
    · rintro ⟨f, hf, hr⟩
      obtain ⟨p, r, hqp, hpr, hrf⟩ := (run_cons_iff A q f a w).mp hr
      have hp : p ∈ A.states := Run.mem_states hA hqp hq
      have hr' : r ∈ A.states := hA.delta_dst _ hpr
      obtain ⟨f', hf', hrf'⟩ := (ih r hr').mpr ⟨f, hf, hrf⟩
      refine ⟨f', hf', Run.step ?_ hrf'⟩
      exact (mem_removeEps_delta A _).mpr
        ⟨hq, p, a, hqp, hA.delta_sym _ hpr a rfl, rfl, hpr⟩

theorem removeEps_lang' (A : ENFA σ) (hA : A.WF) (w : List Nat) :
    A.removeEps.Lang w ↔ A.Lang w := by
  unfold Lang
  constructor
  · rintro ⟨s, hs, hfin⟩
    rcases (mem_removeEps_starts A s).mp hs with h | ⟨s0, hs0, hreach⟩
    · obtain ⟨f, hf, hr⟩ := (removeEps_run_final A hA w s (hA.starts_sub _ h)).mp hfin
      exact ⟨s, h, f, hf, hr⟩
    · have hs' : s ∈ A.states := Run.mem_states hA hreach (hA.starts_sub _ hs0)
      obtain ⟨f, hf, hr⟩ := (removeEps_run_final A hA w s hs').mp hfin
      have := Run.append hreach hr
      exact ⟨s0, hs0, f, hf, by simpa using this⟩
  · rintro ⟨s, hs, hfin⟩
    exact ⟨s, (mem_removeEps_starts A s).mpr (Or.inl hs),
      (removeEps_run_final A hA w s (hA.starts_sub _ hs)).mpr hfin⟩

/-! ### `reverse` -/

/-- if `B` has exactly the flipped edges of `A`, runs flip and spell the reversed word -/
theorem Run.flip {A B : ENFA σ} (h : ∀ q a r, (q, a, r) ∈ A.delta → (r, a, q) ∈ B.delta)
    {q r : σ} {w : List Nat} (hr : A.Run q w r) : B.Run r w.reverse q := by
  induction hr with
  | nil q => exact Run.nil q
  | eps he _ ih => exact Run.snoc_eps ih (h _ _ _ he)
  | step he _ ih =>
    rw [List.reverse_cons]
    exact Run.snoc ih (h _ _ _ he)

theorem mem_reverse_delta (A : ENFA σ) (hA : A.WF) (q r : σ) (a : Option Nat) :
    (r, a, q) ∈ A.reverse.delta ↔ (q, a, r) ∈ A.delta := by
  unfold reverse
  rw [mem_ofParts_delta]
  simp only [List.mem_flatMap, List.mem_append, List.mem_map, mem_succs]
  constructor
  · rintro ⟨q', _, h | h⟩
    · obtain ⟨a', _, r', hr', heq⟩ := h
      cases heq; exact hr'
    · obtain ⟨r', hr', heq⟩ := h
      cases heq; exact hr'
  · intro ht
    refine ⟨q, hA.delta_src _ ht, ?_⟩
    cases a with
    | none => exact Or.inr ⟨r, ht, rfl⟩
    | some a => exact Or.inl ⟨a, hA.delta_sym _ ht a rfl, r, ht, rfl⟩

theorem reverse_run (A : ENFA σ) (hA : A.WF) (q r : σ) (w : List Nat) :
    A.reverse.Run r w q ↔ A.Run q w.reverse r := by
  constructor
  · intro h
    exact Run.flip (fun q a r h => (mem_reverse_delta A hA r q a).mp h) h
  · intro h
    have := Run.flip (fun q a r h => (mem_reverse_delta A hA q r a).mpr h) h
    simpa using this

theorem reverse_lang' (A : ENFA σ) (hA : A.WF) (w : List Nat) :
    A.reverse.Lang w ↔ A.Lang w.reverse := by
  unfold Lang
  have hs : ∀ q, q ∈ A.reverse.starts ↔ q ∈ A.finals := fun q => by
    unfold reverse; rw [mem_ofParts_starts]
  have hf : ∀ q, q ∈ A.reverse.finals ↔ q ∈ A.starts := fun q => by
    unfold reverse; rw [mem_ofParts_finals]
  constructor
  · rintro ⟨s, hs', f, hf', hr⟩
    exact ⟨f, (hf f).mp hf', s, (hs s).mp hs', (reverse_run A hA f s w).mp hr⟩
  · rintro ⟨s, hs', f, hf', hr⟩
    exact ⟨f, (hs f).mpr hf', s, (hf s).mpr hs', (reverse_run A hA s f w).mpr hr⟩

/-! ### `mapStates` -/

omit [DecidableEq σ] in
theorem mem_mapStates_delta (f : σ → τ) (A : ENFA σ) (t : τ × Option Nat × τ) :
    t ∈ (A.mapStates f).delta ↔ ∃ t' ∈ A.delta, (f t'.1, t'.2.1, f t'.2.2) = t := by
  simp [mapStates]

omit [DecidableEq σ] in
theorem mem_mapStates_starts (f : σ → τ) (A : ENFA σ) (q : τ) :
    q ∈ (A.mapStates f).starts ↔ ∃ s ∈ A.starts, f s = q := by
  simp [mapStates]

omit [DecidableEq σ] in
theorem mem_mapStates_finals (f : σ → τ) (A : ENFA σ) (q : τ) :
    q ∈ (A.mapStates f).finals ↔ ∃ s ∈ A.finals, f s = q := by
  simp [mapStates]

omit [DecidableEq σ] in
theorem mapStates_run_of_run (f : σ → τ) (A : ENFA σ) {q r : σ} {w : List Nat}
    (h : A.Run q w r) : (A.mapStates f).Run (f q) w (f r) := by
  induction h with
  | nil q => exact Run.nil _
  | eps he _ ih => exact Run.eps ((mem_mapStates_delta f A _).mpr ⟨_, he, rfl⟩) ih
  | step he _ ih => exact Run.step ((mem_mapStates_delta f A _).mpr ⟨_, he, rfl⟩) ih

omit [DecidableEq σ] in
theorem run_of_mapStates_run (f : σ → τ) (A : ENFA σ) (hA : A.WF)
    (hf : ∀ p ∈ A.states, ∀ q ∈ A.states, f p = f q → p = q)
    {q' r' : τ} {w : List Nat} (h : (A.mapStates f).Run q' w r') :
    ∀ q ∈ A.states, f q = q' → ∃ r ∈ A.states, f r = r' ∧ A.Run q w r := by
  induction h with
  | nil q' => intro q hq hfq; exact ⟨q, hq, hfq, Run.nil q⟩
  | eps he _ ih =>
    intro q hq hfq
    obtain ⟨⟨t1, l, t2⟩, ht, heq⟩ := (mem_mapStates_delta f A _).mp he
    simp only [Prod.mk.injEq] at heq
    obtain ⟨h1, h2, h3⟩ := heq
    subst h2
    have : t1 = q := hf _ (hA.delta_src _ ht) _ hq (h1.trans hfq.symm)
    subst this
    obtain ⟨r, hr, hfr, hrun⟩ := ih t2 (hA.delta_dst _ ht) h3
    exact ⟨r, hr, hfr, Run.eps ht hrun⟩
  | step he _ ih =>
    intro q hq hfq
    obtain ⟨⟨t1, l, t2⟩, ht, heq⟩ := (mem_mapStates_delta f A _).mp he
    simp only [Prod.mk.injEq] at heq
    obtain ⟨h1, h2, h3⟩ := heq
    subst h2
    have : t1 = q := hf _ (hA.delta_src _ ht) _ hq (h1.trans hfq.symm)
    subst this
    obtain ⟨r, hr, hfr, hrun⟩ := ih t2 (hA.delta_dst _ ht) h3
    exact ⟨r, hr, hfr, Run.step ht hrun⟩

omit [DecidableEq σ] in
theorem mapStates_lang' (A : ENFA σ) (hA : A.WF) (f : σ → τ)
    (hf : ∀ p ∈ A.states, ∀ q ∈ A.states, f p = f q → p = q) (w : List Nat) :
    (A.mapStates f).Lang w ↔ A.Lang w := by
  unfold Lang
  constructor
  · rintro ⟨s', hs', f', hf', hr⟩
    obtain ⟨s, hs, rfl⟩ := (mem_mapStates_starts f A s').mp hs'
    obtain ⟨f0, hf0, rfl⟩ := (mem_mapStates_finals f A f').mp hf'
    obtain ⟨r, hr', hfr, hrun⟩ :=
      run_of_mapStates_run f A hA hf hr s (hA.starts_sub _ hs) rfl
    have : r = f0 := hf _ hr' _ (hA.finals_sub _ hf0) hfr
    subst this
    exact ⟨s, hs, r, hf0, hrun⟩
  · rintro ⟨s, hs, f0, hf0, hr⟩
    exact ⟨f s, (mem_mapStates_starts f A _).mpr ⟨s, hs, rfl⟩, f f0,
      (mem_mapStates_finals f A _).mpr ⟨f0, hf0, rfl⟩, mapStates_run_of_run f A hr⟩

end ENFA
end Pfl
